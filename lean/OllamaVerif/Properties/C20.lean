/-
  C20 — Tokenizing then detokenizing returns the original text.

  Property theorems over the model in Model/Tokenizer.lean (helper lemmas: Proofs/Tokenizer.lean).
  All theorems quantify over EVERY vocabulary (`Vocab` is three arbitrary lookup functions), every
  pre-tokenizer `split`, every list of special tokens and every input string; nothing is bounded.
-/
import OllamaVerif.Proofs.Tokenizer
import OllamaVerif.Proofs.TokenizerVocab
import OllamaVerif.Proofs.TokenizerAdj

namespace OllamaVerif.C20
open OllamaVerif.Tok

/-! ## byte <-> rune map -/

/-- **Repaired table (third range from 0x7f): Decode's map inverts Encode's on every byte but NUL.** -/
theorem byteMap_roundtrip_fixed : ∀ b, b < 256 → b ≠ 0 → decRune (encByte false b) = some b :=
  fun b h h0 => dec_enc_table false b h h0 (by simp)

/-- **Repaired table: the byte -> rune map is injective on all 256 bytes** (NUL included: it is the
    only byte sent to U+0100). -/
theorem byteMap_injective_fixed :
    ∀ a, a < 256 → ∀ b, b < 256 → encByte false a = encByte false b → a = b := by
  decide +kernel

/-- **Pinned table, partial:** the inverse property holds for every byte except NUL and `~` (0x7e). -/
theorem byteMap_roundtrip_pinned_partial :
    ∀ b, b < 256 → b ≠ 0 → b ≠ 0x7e → decRune (encByte true b) = some b :=
  fun b h h0 h7 => dec_enc_table true b h h0 (fun _ => h7)

/-! ## special-token splitting -/

/-- **Splitting on special tokens partitions the text**: the literals of the fragments, in order,
    concatenate to the input (any specials, any text). -/
theorem fragments_concat (specials : List Special) (s : Str) :
    ((fragments specials s).map Frag.lit).flatten = s := fragments_lit specials s

/-! ## merge loop -/

/-- **The merge loop (either family, any queue order, any fuel) preserves the concatenation of the parts.** -/
theorem merge_preserves_concat (cfg : Cfg) (rs : Str) :
    ((mergeAll cfg rs).map (·.runes)).flatten = rs := mergeAll_concat cfg rs

/-- **BPE: if every single rune of the piece is a token, every part left by the merge loop is a token**
    (so the `TODO: rune isn't in the vocabulary` branch never drops anything). -/
theorem merge_parts_in_vocab (V : Vocab) (rs : Str) (h1 : ∀ r ∈ rs, (V.tokId [r]).isSome = true) :
    ∀ p ∈ mergeAll (bpeCfg V) rs, (V.tokId p.runes).isSome = true :=
  mergeAll_all (fun t => (V.tokId t).isSome = true) _ (bpeCfg_ok V) rs h1

/-! ## BPE round trip -/

/-- **BPE round trip** (both variants of the byte switch; `pinned = true` is the tree as pinned).
    For every well-formed vocabulary that covers every (admissible) byte, every pre-tokenizer that
    partitions its input, every list of special tokens whose vocabulary string decodes to the literal,
    and every text whose bytes are non-NUL (and, for the pinned switch only, not `~`):
    `Decode (Encode s) = s`. -/
theorem bpe_roundtrip (pinned : Bool) (V : Vocab) (split : Str → List Str) (specials : List Special)
    (s : Str) (hwf : V.Wf) (hcov : V.CoversBytes pinned)
    (hsplit : ∀ t, Frag.text t ∈ fragments specials s → (split t).flatten = t)
    (hsp : ∀ q ∈ specials, decodeRunes (V.tokStr q.id) = q.lit)
    (hs : ∀ b ∈ s, byteOk pinned b) :
    bpeDecode V (bpeEncode pinned V split specials noAdd s) = s := by
  unfold bpeEncode
  have hadd : ∀ ids, addSpecials noAdd ids = ids := by intro ids; simp [addSpecials, noAdd]
  rw [hadd, bpeFrags_roundtrip pinned V split hwf hcov, fragments_lit]
  · intro t ht
    refine ⟨hsplit t ht, fun b hb => hs b ?_⟩
    have := mem_fragsLit_of_text _ t ht b hb
    rwa [fragments_lit] at this
  · intro q hq
    exact hsp q (fragments_from specials s _ hq q rfl)

/-- **BPE round trip for the repaired switch: every text without NUL bytes.** -/
theorem bpe_roundtrip_fixed (V : Vocab) (split : Str → List Str) (specials : List Special)
    (s : Str) (hwf : V.Wf) (hcov : V.CoversBytes false)
    (hsplit : ∀ t, Frag.text t ∈ fragments specials s → (split t).flatten = t)
    (hsp : ∀ q ∈ specials, decodeRunes (V.tokStr q.id) = q.lit)
    (hs : ∀ b ∈ s, b < 256 ∧ b ≠ 0) :
    bpeDecode V (bpeEncode false V split specials noAdd s) = s :=
  bpe_roundtrip false V split specials s hwf hcov hsplit hsp
    (fun b hb => ⟨(hs b hb).1, (hs b hb).2, by simp⟩)

/-- **Every id `Encode` returns is inside the vocabulary** (any text, any `addSpecial` configuration
    whose BOS/EOS are in range, no covering assumption). -/
theorem bpe_ids_in_range (pinned : Bool) (V : Vocab) (split : Str → List Str) (specials : List Special)
    (c : AddCfg) (s : Str) (hwf : V.Wf) (hsp : ∀ q ∈ specials, q.id < V.size)
    (hbos : c.bos < V.size) (heos : c.eos < V.size) :
    ∀ id ∈ bpeEncode pinned V split specials c s, id < V.size := by
  intro id hid
  unfold bpeEncode at hid
  rcases mem_addSpecials c _ id hid with h | ⟨_, _, rfl⟩ | ⟨_, _, rfl⟩
  · simp only [List.mem_flatMap] at h
    obtain ⟨fr, hfr, hidf⟩ := h
    cases fr with
    | text t =>
      simp only [bpeFrag, List.mem_flatMap] at hidf
      obtain ⟨piece, _, hp⟩ := hidf
      obtain ⟨u, hu⟩ := bpePiece_ids pinned V piece id hp
      exact (hwf _ _ hu).2
    | special q =>
      simp only [bpeFrag, List.mem_singleton] at hidf
      subst hidf
      exact hsp q (fragments_from specials s _ hfr q rfl)
  · exact hbos
  · exact heos

/-- **A special token's literal encodes to exactly its id**, whenever no other special token's
    literal occurs inside it. -/
theorem bpe_special_literal (pinned : Bool) (V : Vocab) (split : Str → List Str)
    (pre post : List Special) (sp : Special) (hne : sp.lit ≠ [])
    (hother : ∀ q ∈ pre ++ post, indexOf sp.lit q.lit = none) :
    bpeEncode pinned V split (pre ++ sp :: post) noAdd sp.lit = [sp.id] := by
  have hadd : ∀ ids, addSpecials noAdd ids = ids := by intro ids; simp [addSpecials, noAdd]
  unfold bpeEncode
  rw [hadd]
  have hfr : fragments (pre ++ sp :: post) sp.lit = [Frag.special sp] := by
    unfold fragments
    rw [List.foldl_append, List.foldl_cons]
    have h1 : ∀ (l : List Special), (∀ q ∈ l, indexOf sp.lit q.lit = none) →
        l.foldl (fun frs sp => splitFrags sp frs) [Frag.text sp.lit] = [Frag.text sp.lit] := by
      intro l
      induction l with
      | nil => intro _; rfl
      | cons q l ih =>
        intro h
        have hq := h q (by simp)
        simp only [List.foldl_cons]
        have : splitFrags q [Frag.text sp.lit] = [Frag.text sp.lit] := by
          simp [splitFrags, splitSpecial, hq]
        rw [this]
        exact ih (fun x hx => h x (List.mem_cons_of_mem _ hx))
    have h2 : ∀ (l : List Special),
        l.foldl (fun frs sp => splitFrags sp frs) [Frag.special sp] = [Frag.special sp] := by
      intro l
      induction l with
      | nil => rfl
      | cons q l ih => simp only [List.foldl_cons]; simpa [splitFrags] using ih
    rw [h1 pre (fun q hq => hother q (by simp [hq]))]
    have h3 : splitFrags sp [Frag.text sp.lit] = [Frag.special sp] := by
      simp [splitFrags, splitSpecial, indexOf_self]
    rw [h3, h2]
  rw [hfr]
  simp [bpeFrag]

/-- **Every occurrence of a special token's literal is encoded as that token's id** (both families; any
    list of special tokens with non-empty literals, any text): `Encode` is the concatenation of the
    per-fragment encodings of `fragments specials s`, where (1) the fragments partition the text,
    (2) NO remaining text fragment contains the literal of ANY special token, and (3) a special fragment
    is encoded as exactly its id. -/
theorem special_occurrences_consumed (specials : List Special) (hne : ∀ q ∈ specials, q.lit ≠ []) (s : Str) :
    ((fragments specials s).map Frag.lit).flatten = s ∧
    (∀ q ∈ specials, ∀ u, Frag.text u ∈ fragments specials s → ¬ Occurs q.lit u) ∧
    (∀ pinned V split c, bpeEncode pinned V split specials c s
        = addSpecials c ((fragments specials s).flatMap (bpeFrag pinned V split))) ∧
    (∀ V c, spmEncode V specials c s = addSpecials c ((fragments specials s).flatMap (spmFrag V))) ∧
    (∀ pinned V split q, bpeFrag pinned V split (Frag.special q) = [q.id]) ∧
    (∀ V q, spmFrag V (Frag.special q) = [q.id]) :=
  ⟨fragments_lit specials s, fun q hq => fragments_noOcc specials hne s q hq,
   fun _ _ _ _ => rfl, fun _ _ => rfl, fun _ _ _ _ => rfl, fun _ _ => rfl⟩

/-! ## histories of calls on one tokenizer -/

/-- **No state between calls.**  For every history of calls on one tokenizer object (either family: `enc` is
    any encoder parameterised by the special-token list, e.g. `bpeEncode pinned V split · c` or
    `spmEncode V · c`), starting from a fresh object or from one that has been used before, the i-th result is
    the single-call result on the i-th input: the only state carried between calls is the cache of the
    special-token list, and it is either empty or equal to what `SpecialVocabulary` computes. -/
theorem history_stateless {α} (enc : List Special → α → List Nat) (compute : List Special)
    (st : TokState) (hst : st.special = none ∨ st.special = some compute) (xs : List α) :
    runHistory enc compute st xs = xs.map (enc compute) := by
  induction xs generalizing st with
  | nil => rfl
  | cons x xs ih =>
    simp only [runHistory, encodeCall, List.map_cons]
    rcases hst with h | h
    · simp only [specialVocabulary, h]
      rw [ih _ (Or.inr rfl)]
    · simp only [specialVocabulary, h]
      rw [ih _ (Or.inr h)]

/-- the two instances: a history of BPE calls / SPM calls from a fresh tokenizer -/
theorem bpe_history_stateless (pinned : Bool) (V : Vocab) (split : Str → List Str) (specials : List Special)
    (c : AddCfg) (texts : List Str) :
    runHistory (fun sps s => bpeEncode pinned V split sps c s) specials TokState.init texts
      = texts.map (bpeEncode pinned V split specials c) :=
  history_stateless _ specials _ (Or.inl rfl) texts

theorem spm_history_stateless (V : Vocab) (specials : List Special) (c : AddCfg) (texts : List Str) :
    runHistory (fun sps s => spmEncode V sps c s) specials TokState.init texts
      = texts.map (spmEncode V specials c) :=
  history_stateless _ specials _ (Or.inl rfl) texts

/-! ## SentencePiece -/

/-- **SPM merge loop, with exactly the Go code's size-only staleness test: every part it leaves is a token
    or a single rune of the input** (any vocabulary, any scores, any input).  Invariant: every queue entry
    was created from two strings whose join is a token and whose byte sizes it records, parts only grow by
    appending, UTF-8 length is strictly monotone — so an entry that passes the size test is not stale. -/
theorem spm_merge_parts_tokens (V : Vocab) (rs : Str) :
    ∀ p ∈ mergeAll (spmCfg V) rs, (V.tokId p.runes).isSome = true ∨ ∃ r, p.runes = [r] :=
  spm_mergeAll_parts V rs

theorem spmFrags_decode (V : Vocab) (hwf : V.Wf) (hbt : V.HasByteTokens) (frs : List Frag)
    (htext : ∀ t, Frag.text t ∈ frs → (32 ∈ t → (V.tokId [sepRune]).isSome = true) ∧
      (∀ r ∈ t, r < 0x110000) ∧ sepRune ∉ t ∧ NoByteLit V t)
    (hsp : ∀ q, Frag.special q ∈ frs → spmDecodeTok V q.id = some (utf8s q.lit)) :
    spmDecode V (frs.flatMap (spmFrag V)) = some (utf8s (fragsLit frs)) := by
  induction frs with
  | nil => rfl
  | cons fr frs ih =>
    have hr := ih (fun t ht => htext t (List.mem_cons_of_mem _ ht)) (fun q hq => hsp q (List.mem_cons_of_mem _ hq))
    have hl : fragsLit (fr :: frs) = fr.lit ++ fragsLit frs := by simp [fragsLit]
    simp only [List.flatMap_cons]
    rw [hl, utf8s_append]
    apply spmDecode_append V _ _ _ _ _ hr
    cases fr with
    | text t =>
      obtain ⟨h0, h1, h2, h3⟩ := htext t (by simp)
      exact spmText_decode V hwf hbt t h0 h1 h2 h3
    | special q =>
      have := hsp q (by simp)
      simp [spmFrag, spmDecode, this, Frag.lit]

/-- **SentencePiece round trip, partial.**  For every well-formed vocabulary that has the 256 byte
    tokens (and the token `▁` if the text contains a space), every list of special tokens
    (vocabulary string = literal, not of the byte-token shape) and every text (as code points, all valid) that
    (guard 1) does not itself contain U+2581 and (guard 2) has no contiguous piece that is BOTH a token of
    the vocabulary and a byte-token literal `<0x??>`:
    `Decode (Encode s)` is the UTF-8 encoding of `s`.
    Both guards are necessary (witnesses below): they are inherent to the scheme. -/
theorem spm_roundtrip_partial (V : Vocab) (specials : List Special) (s : Str)
    (hwf : V.Wf) (hbt : V.HasByteTokens) (hsep : 32 ∈ s → (V.tokId [sepRune]).isSome = true)
    (hsp : ∀ q ∈ specials, V.tokStr q.id = q.lit ∧ parseByteTok (utf8s q.lit) = none)
    (hvalid : ∀ r ∈ s, r < 0x110000) (hnosep : sepRune ∉ s) (hnolit : NoByteLit V s) :
    spmDecode V (spmEncode V specials noAdd s) = some (utf8s s) := by
  unfold spmEncode
  have hadd : ∀ ids, addSpecials noAdd ids = ids := by intro ids; simp [addSpecials, noAdd]
  have hfl := fragments_lit specials s
  have hpiece : ∀ fr ∈ fragments specials s, ∃ a b, s = a ++ fr.lit ++ b := by
    intro fr hfr
    obtain ⟨a, b, hab⟩ := mem_flatten_split _ fr.lit (List.mem_map.mpr ⟨fr, hfr, rfl⟩)
    refine ⟨a, b, ?_⟩
    rw [← hab]; exact hfl.symm
  rw [hadd, spmFrags_decode V hwf hbt, hfl]
  · intro t ht
    obtain ⟨a, b, hab⟩ := hpiece _ ht
    simp only [Frag.lit] at hab
    refine ⟨fun h => hsep (by rw [hab]; simp [h]), fun r hr => hvalid r (by rw [hab]; simp [hr]),
      fun h => hnosep (by rw [hab]; simp [h]), hnolit.infix a t b hab⟩
  · intro q hq
    obtain ⟨a, b, hab⟩ := hpiece _ hq
    simp only [Frag.lit] at hab
    have hno : sepRune ∉ q.lit := fun h => hnosep (by rw [hab]; simp [h])
    obtain ⟨hstr, hnl⟩ := hsp q (fragments_from specials s _ hq q rfl)
    simp [spmDecodeTok, hstr, map_sepToSpace_id q.lit hno, hnl]

/-- every id produced for a text fragment is the id of some vocabulary string -/
theorem spmText_ids (V : Vocab) (t : Str) : ∀ id ∈ spmText V t, ∃ u, V.tokId u = some id := by
  intro id hid
  unfold spmText at hid
  simp only at hid
  split at hid
  · rename_i i hi
    simp at hid; subst hid; exact ⟨_, hi⟩
  · simp only [List.mem_flatMap] at hid
    obtain ⟨p, _, hp⟩ := hid
    unfold spmToken at hp
    split at hp
    · rename_i i hi
      simp at hp; subst hp; exact ⟨_, hi⟩
    · simp only [List.mem_filterMap] at hp
      obtain ⟨b, _, hb⟩ := hp
      exact ⟨_, hb⟩

/-- **SentencePiece: every id `Encode` returns is inside the vocabulary.** -/
theorem spm_ids_in_range (V : Vocab) (specials : List Special) (c : AddCfg) (s : Str) (hwf : V.Wf)
    (hsp : ∀ q ∈ specials, q.id < V.size) (hbos : c.bos < V.size) (heos : c.eos < V.size) :
    ∀ id ∈ spmEncode V specials c s, id < V.size := by
  intro id hid
  unfold spmEncode at hid
  rcases mem_addSpecials c _ id hid with h | ⟨_, _, rfl⟩ | ⟨_, _, rfl⟩
  · simp only [List.mem_flatMap] at h
    obtain ⟨fr, hfr, hidf⟩ := h
    cases fr with
    | text t =>
      obtain ⟨u, hu⟩ := spmText_ids V t id hidf
      exact (hwf _ _ hu).2
    | special q =>
      simp only [spmFrag, List.mem_singleton] at hidf
      subst hidf
      exact hsp q (fragments_from specials s _ hfr q rfl)
  · exact hbos
  · exact heos

/-- a small sentencepiece vocabulary: id 0..255 = byte tokens, 256 = `▁`, 257 = `a` -/
def spmVocab : Vocab where
  tokId s := if s = [sepRune] then some 256 else if s = [97] then some 257 else
    match s with
    | [60, 48, 120, c1, c2, 62] =>
      (match hexVal c1, hexVal c2 with
       | some x, some y => if byteTok (16 * x + y) = s then some (16 * x + y) else none
       | _, _ => none)
    | _ => none
  tokStr i := if i = 256 then [sepRune] else if i = 257 then [97] else byteTok i
  rank _ _ := none
  score _ := 0
  size := 258

/-- **Guard 1 is necessary:** the text `▁` decodes to a space. -/
theorem spm_sep_witness :
    spmDecode spmVocab (spmEncode spmVocab [] noAdd [sepRune]) = some [32] ∧
    utf8s [sepRune] = [0xE2, 0x96, 0x81] := by decide

/-- **Guard 2 is necessary:** the text `<0x41>` is found by the whole-fragment shortcut as the byte
    token and decodes to `A`. -/
theorem spm_byte_literal_witness :
    spmDecode spmVocab (spmEncode spmVocab [] noAdd (byteTok 0x41)) = some [0x41] := by decide

/-- non-vacuity of `spm_roundtrip_partial`: `spmVocab` has the byte tokens and `▁`, and the text
    "a a" meets both guards' easy half (no U+2581) and round-trips -/
example : spmVocab.HasByteTokens ∧ (spmVocab.tokId [sepRune]).isSome = true ∧
    spmDecode spmVocab (spmEncode spmVocab [] noAdd [97, 32, 97]) = some [97, 32, 97] := by
  refine ⟨by unfold Vocab.HasByteTokens; decide +kernel, by decide, by decide⟩

/-! ## findings: Lean-checked witnesses on the model (which mirrors the pinned code) -/

/-- a tiny covering vocabulary: every rune is the token whose id is the rune; no merges -/
def idVocab : Vocab where
  tokId s := match s with | [r] => if r < 0x180 then some r else none | _ => none
  tokStr i := [i]
  rank _ _ := none
  score _ := 0
  size := 0x180

/-- one piece per byte -/
def byteSplit (s : Str) : List Str := s.map fun b => [b]

/-- **Witness of finding F2 (pinned switch).**  `~` (0x7e) and the space (0x20) are both sent to
    U+0120, and `"a~b"` decodes to `"a b"`; with the repaired switch it round-trips. -/
theorem F2_pinned_tilde_collides_with_space :
    encByte true 0x7e = encByte true 0x20 ∧
    bpeDecode idVocab (bpeEncode true idVocab byteSplit [] noAdd [97, 126, 98]) = [97, 32, 98] ∧
    bpeDecode idVocab (bpeEncode false idVocab byteSplit [] noAdd [97, 126, 98]) = [97, 126, 98] := by
  decide

/-! ### the vocabulary's merge table and token list are independent: the merge loop's token guard -/

/-- the BPE queue configuration WITHOUT the `vocab.Encode(pair.value) < 0 → skip` guard -/
def bpeCfgNoGuard (V : Vocab) : Cfg := { bpeCfg V with ok := fun c l r => l ++ r == c.value }

/-- covering vocabulary (every rune is a token) with the merge rule "a b" whose product "ab" is NOT a token -/
def gapVocab : Vocab := { idVocab with rank := fun l r => if l = [97] ∧ r = [98] then some 0 else none }

theorem bpe_guard_needed_witness :
    -- with the guard (the code as it is) the rule is skipped and "ab" keeps its two tokens
    (mergeAll (bpeCfg gapVocab) [97, 98]).map (·.runes) = [[97], [98]] ∧
    bpeDecode gapVocab (bpeEncode false gapVocab (fun s => [s]) [] noAdd [97, 98]) = [97, 98] ∧
    -- without it the two parts are fused into a string that has no id and is dropped by the final loop
    (mergeAll (bpeCfgNoGuard gapVocab) [97, 98]).map (·.runes) = [[97, 98]] ∧
    ((mergeAll (bpeCfgNoGuard gapVocab) [97, 98]).filterMap fun p => gapVocab.tokId p.runes) = [] := by
  decide
/-- **Witness of finding F2b (ids 105/106 are always special).**  In a byte-level vocabulary such as
    llama 3's, `Values[105]` is the one-rune string U+00AC (the remapped byte 0xAC).  Treated as a
    special token, the text `¬` (bytes C2 AC) becomes the single id 105, which decodes to the single
    byte AC: the hypothesis `hsp` of `bpe_roundtrip` fails for it and so does the round trip. -/
theorem F2b_token105_witness :
    let sp : Special := ⟨[0xC2, 0xAC], [0xAC], 0xAC⟩
    decodeRunes (idVocab.tokStr sp.id) ≠ sp.lit ∧
    bpeDecode idVocab (bpeEncode false idVocab byteSplit [sp] noAdd [0xC2, 0xAC]) = [0xAC] ∧
    bpeDecode idVocab (bpeEncode false idVocab byteSplit [] noAdd [0xC2, 0xAC]) = [0xC2, 0xAC] := by
  decide

/-- non-vacuity: the hypotheses of `bpe_roundtrip_fixed` hold for `idVocab`, `byteSplit`, a special
    token and a text containing it -/
example : idVocab.Wf ∧ idVocab.CoversBytes false ∧ (∀ t, (byteSplit t).flatten = t) ∧
    (∀ q ∈ [(⟨[60, 62], [60, 62], 0x17f⟩ : Special)], q.id < idVocab.size) := by
  refine ⟨?_, ?_, ?_, by decide⟩
  · intro t i h
    unfold idVocab at h ⊢
    simp only at h ⊢
    split at h
    · split at h
      · cases h; exact ⟨rfl, by assumption⟩
      · cases h
    · cases h
  · have : ∀ b, b < 256 → (idVocab.tokId [encByte false b]).isSome = true := by decide +kernel
    intro b hb; exact this b hb.1
  · intro t; induction t with
    | nil => rfl
    | cons b t ih => simpa [byteSplit] using ih

/-! ## the theorems instantiated at the vocabulary the code builds from `Values` / `Types` / `Merges` -/

theorem decodeRunes_ascii (q : Str) (h : ∀ r ∈ q, r < 0x80) : decodeRunes q = utf8s q := by
  induction q with
  | nil => rfl
  | cons r q ih =>
    have hr := h r (by simp)
    have hq := ih (fun x hx => h x (List.mem_cons_of_mem _ hx))
    have h1 : decRune r = some r := by
      have e1 : r ≠ 0x100 := by omega
      have e2 : r ≠ 0x143 := by omega
      have e3 : ¬ (0x100 < r ∧ r ≤ 0x120) := by omega
      have e4 : ¬ (0x120 < r ∧ r ≤ 0x142) := by omega
      have e5 : r % 256 = r := Nat.mod_eq_of_lt (by omega)
      simp only [decRune, if_neg e1, if_neg e2, if_neg e3, if_neg e4, e5]
    have h2 : utf8 r = [r] := by simp [utf8, hr]
    simp only [decodeRunes, List.filterMap_cons, h1, utf8s, List.flatMap_cons, h2] at hq ⊢
    simp [hq]

/-- **Ids in range, no hypothesis on the vocabulary**: for every `Values`/`Types`/`Merges` (duplicates, any token
    types), every text and pre-tokenizer, every id `BytePairEncoding.Encode` returns is `< len(Values)` — the
    special tokens' ids included (they come from `vocab.Encode(special)`); only BOS/EOS are configuration. -/
theorem concrete_bpe_ids_in_range (pinned : Bool) (D : VocabData) (split : Str → List Str) (c : AddCfg) (s : Str)
    (hbos : c.bos < D.values.length) (heos : c.eos < D.values.length) :
    ∀ i ∈ bpeEncode pinned D.vocab split (D.specials utf8s) c s, i < D.values.length :=
  bpe_ids_in_range pinned D.vocab split _ c s D.vocab_wf (fun q hq => (D.specials_wf utf8s q hq).1) hbos heos

theorem concrete_spm_ids_in_range (D : VocabData) (c : AddCfg) (s : Str)
    (hbos : c.bos < D.values.length) (heos : c.eos < D.values.length) :
    ∀ i ∈ spmEncode D.vocab (D.specials id) c s, i < D.values.length :=
  spm_ids_in_range D.vocab _ c s D.vocab_wf (fun q hq => (D.specials_wf _ q hq).1) hbos heos

/-- **BPE round trip for the vocabulary the code builds**: `Wf` is proved (not assumed), the special tokens are the
    ones `SpecialVocabulary()` returns with the ids `Encode` looks up, and hypothesis `hsp` is replaced by the
    decidable condition on the data "every special token's string is ASCII" (the excluded case is the known
    finding BPE-nonascii-special). -/
theorem concrete_bpe_roundtrip (D : VocabData) (split : Str → List Str) (s : Str)
    (hcov : ∀ b, b < 256 → b ≠ 0 → [encByte false b] ∈ D.values)
    (hascii : ∀ q ∈ D.specialStrings.getD [], ∀ r ∈ q, r < 0x80)
    (hsplit : ∀ t, Frag.text t ∈ fragments (D.specials utf8s) s → (split t).flatten = t)
    (hs : ∀ b ∈ s, b < 256 ∧ b ≠ 0) :
    bpeDecode D.vocab (bpeEncode false D.vocab split (D.specials utf8s) noAdd s) = s := by
  apply bpe_roundtrip_fixed D.vocab split _ s D.vocab_wf _ hsplit _ hs
  · intro b hb
    exact lastIdxFrom_isSome _ _ _ (hcov b hb.1 hb.2.1)
  · intro q hq
    obtain ⟨_, h2, h3, _⟩ := D.specials_wf utf8s q hq
    rw [h2, h3]
    apply decodeRunes_ascii
    simp only [VocabData.specials, List.mem_map] at hq
    obtain ⟨x, hx, rfl⟩ := hq
    exact hascii x hx

/-- **SPM round trip for the vocabulary the code builds** (same two necessary guards on the text). -/
theorem concrete_spm_roundtrip_partial (D : VocabData) (s : Str)
    (hbt : ∀ b, b < 256 → byteTok b ∈ D.values) (hsep : 32 ∈ s → [sepRune] ∈ D.values)
    (hshape : ∀ q ∈ D.specialStrings.getD [], parseByteTok (utf8s q) = none)
    (hvalid : ∀ r ∈ s, r < 0x110000) (hnosep : sepRune ∉ s) (hnolit : NoByteLit D.vocab s) :
    spmDecode D.vocab (spmEncode D.vocab (D.specials id) noAdd s) = some (utf8s s) := by
  apply spm_roundtrip_partial D.vocab _ s D.vocab_wf _ _ _ hvalid hnosep hnolit
  · intro b hb; exact lastIdxFrom_isSome _ _ _ (hbt b hb)
  · intro h; exact lastIdxFrom_isSome _ _ _ (hsep h)
  · intro q hq
    obtain ⟨_, h2, h3, _⟩ := D.specials_wf id q hq
    refine ⟨by rw [h2, h3]; rfl, ?_⟩
    simp only [VocabData.specials, List.mem_map] at hq
    obtain ⟨x, hx, rfl⟩ := hq
    exact hshape x hx

/-- a concrete `Vocabulary`: DUPLICATE value "a" (ids 0 and 2), a control token, a turn marker typed NORMAL -/
def dupData : VocabData :=
  ⟨[[97], [98], [97], [60, 115, 62], startOfTurn], [1, 1, 1, 3, 1], [0, 0, 0, 0, 0], [[97, 32, 98], [97, 32, 98]]⟩

/-- non-vacuity / behaviour on duplicates: `Encode("a")` is the LAST index 2, the duplicate merge line has the LAST
    rank 1, the specials are `<s>` (CONTROL) and `<start_of_turn>` (by name), with their ids -/
example : dupData.vocab.tokId [97] = some 2 ∧ dupData.vocab.rank [97] [98] = some 1 ∧
    dupData.specialStrings = some [[60, 115, 62], startOfTurn] ∧
    (dupData.specials id).map (·.id) = [3, 4] := by decide

/-- `Types` shorter than `Values`: the model reports the index-out-of-range panic of `SpecialVocabulary` -/
example : (⟨[[97], [98]], [1], [], []⟩ : VocabData).specialStrings = none := by decide

/-- non-vacuity of `mergeAll_fuel_sufficient`: a run that really merges ("aaaa" with the rule a+a, aa+aa) gives
    the same parts with ten times the fuel -/
example : (mergeAll (bpeCfg ⟨fun s => if s = [97, 97] then some 1 else if s = [97, 97, 97, 97] then some 2 else none,
      fun _ => [], fun l r => if l = r then some l.length else none, fun _ => 0, 3⟩) [97, 97, 97, 97]).map (·.runes)
    = [[97, 97, 97, 97]] := by decide

/-- a byte-level vocabulary as data: the 256 remapped bytes (ids 0..255) and the control token `<s>` (id 256) -/
def byteData : VocabData :=
  ⟨(List.range 256).map (fun b => [encByte false b]) ++ [[60, 115, 62]], List.replicate 256 1 ++ [3], [], []⟩

/-- non-vacuity of `concrete_bpe_roundtrip`: `byteData` meets the covering and the ASCII-specials hypotheses, its
    special list is `<s>` with id 256, and a text with the special literal in it round-trips -/
example : (∀ b, b < 256 → b ≠ 0 → [encByte false b] ∈ byteData.values) ∧
    (∀ q ∈ byteData.specialStrings.getD [], ∀ r ∈ q, r < 0x80) ∧
    (byteData.specials utf8s).map (fun q => (q.lit, q.id)) = [([60, 115, 62], 256)] ∧
    bpeEncode false byteData.vocab byteSplit (byteData.specials utf8s) noAdd [104, 60, 115, 62, 0xC3, 0xA9]
      = [104, 256, 0xC3, 0xA9 ] ∧
    bpeDecode byteData.vocab [104, 256, 0xC3, 0xA9] = [104, 60, 115, 62, 0xC3, 0xA9] := by
  refine ⟨by decide +kernel, by decide +kernel, by decide +kernel, by decide +kernel, by decide +kernel⟩

/-! ## the adjacency invariant (Proofs/TokenizerAdj.lean) -/

/-- **Indexing both ends of a popped candidate directly, as the Go loop does, gives the same parts as the model's
    successor lookup** — for either family, any vocabulary, any queue order, any input: every queue entry of every
    reachable state has no live part strictly between its two ends. -/
theorem merge_direct_indexing (cfg : Cfg) (rs : Str) : mergeAllDirect cfg rs = mergeAll cfg rs :=
  mergeAll_eq_direct cfg rs

/-- non-vacuity: a run with stale candidates ("aaaa": the middle pair dies) computed by the direct loop -/
example : (mergeAllDirect (bpeCfg ⟨fun s => if s = [97, 97] then some 1 else if s = [97, 97, 97, 97] then some 2 else none,
      fun _ => [], fun l r => if l = r then some l.length else none, fun _ => 0, 3⟩) [97, 97, 97, 97]).map (·.runes)
    = [[97, 97, 97, 97]] := by decide

end OllamaVerif.C20
