/-
  C20 — Tokenizing then detokenizing returns the original text.

  Property theorems over the model in Model/Tokenizer.lean (helper lemmas: Proofs/Tokenizer.lean).
  All theorems quantify over EVERY vocabulary (`Vocab` is three arbitrary lookup functions), every
  pre-tokenizer `split`, every list of special tokens and every input string; nothing is bounded.
-/
import OllamaVerif.Proofs.Tokenizer
import OllamaVerif.Proofs.TokenizerVocab
import OllamaVerif.Proofs.TokenizerAdj
import OllamaVerif.Proofs.TokenizerPtr
import OllamaVerif.Proofs.TokenizerSplit

namespace OllamaVerif.C20
open OllamaVerif.Tok

/-! ## byte <-> rune map -/

/-- **Repaired table (third range from 0x7f): Decode's map inverts Encode's on every byte but NUL.** -/
theorem byteMap_roundtrip_fixed : ∀ b, b < 256 → b ≠ 0 → decRune (encByte false b) = some b :=
  fun b h h0 => dec_enc_table false b h h0 (by simp)

/-- **Repaired table: the byte -> rune map is injective on all 256 bytes** (NUL included: it is the
    only byte sent to U+0100). -/
theorem byteMap_injective_fixed :
    ∀ a, a < 256 → ∀ b, b < 256 → encByte false a = encByte false b → a = b := by
  decide +kernel

/-- **Pinned table, partial:** the inverse property holds for every byte except NUL and `~` (0x7e). -/
theorem byteMap_roundtrip_pinned_partial :
    ∀ b, b < 256 → b ≠ 0 → b ≠ 0x7e → decRune (encByte true b) = some b :=
  fun b h h0 h7 => dec_enc_table true b h h0 (fun _ => h7)

/-! ## special-token splitting -/

/-- **Splitting on special tokens partitions the text**: the literals of the fragments, in order,
    concatenate to the input (any specials, any text). -/
theorem fragments_concat (specials : List Special) (s : Str) :
    ((fragments specials s).map Frag.lit).flatten = s := fragments_lit specials s

/-! ## merge loop -/

/-- **The merge loop (either family, any queue order, any fuel) preserves the concatenation of the parts.** -/
theorem merge_preserves_concat (cfg : Cfg) (rs : Str) :
    ((mergeAll cfg rs).map (·.runes)).flatten = rs := mergeAll_concat cfg rs

/-- **BPE: if every single rune of the piece is a token, every part left by the merge loop is a token**
    (so the `TODO: rune isn't in the vocabulary` branch never drops anything). -/
theorem merge_parts_in_vocab (V : Vocab) (rs : Str) (h1 : ∀ r ∈ rs, (V.tokId [r]).isSome = true) :
    ∀ p ∈ mergeAll (bpeCfg V) rs, (V.tokId p.runes).isSome = true :=
  mergeAll_all (fun t => (V.tokId t).isSome = true) _ (bpeCfg_ok V) rs h1

/-! ## BPE round trip -/

/-- **BPE round trip** (both variants of the byte switch; `pinned = true` is the tree as pinned).
    For every well-formed vocabulary that covers every (admissible) byte, every pre-tokenizer that
    partitions its input, every list of special tokens whose vocabulary string decodes to the literal,
    and every text whose bytes are non-NUL (and, for the pinned switch only, not `~`):
    `Decode (Encode s) = s`.
    `_hne` (no special token is the empty string) is the TERMINATION guard of the real code: with an empty special
    literal the Go loop never returns (`goSplitPass_empty_diverges`), so nothing is claimed there; the proof about the
    model function does not need it, the link to the Go-shaped loop (`goBpeEncode_eq`) does. -/
theorem bpe_roundtrip (pinned : Bool) (V : Vocab) (split : Str → List Str) (specials : List Special)
    (s : Str) (hwf : V.Wf) (hcov : V.CoversBytes pinned) (_hne : ∀ q ∈ specials, q.lit ≠ [])
    (hsplit : ∀ t, Frag.text t ∈ fragments specials s → (split t).flatten = t)
    (hsp : ∀ q ∈ specials, decodeRunes (V.tokStr q.id) = q.lit)
    (hs : ∀ b ∈ s, byteOk pinned b) :
    bpeDecode V (bpeEncode pinned V split specials noAdd s) = s := by
  unfold bpeEncode
  have hadd : ∀ ids, addSpecials noAdd ids = ids := by intro ids; simp [addSpecials, noAdd]
  rw [hadd, bpeFrags_roundtrip pinned V split hwf hcov, fragments_lit]
  · intro t ht
    refine ⟨hsplit t ht, fun b hb => hs b ?_⟩
    have := mem_fragsLit_of_text _ t ht b hb
    rwa [fragments_lit] at this
  · intro q hq
    exact hsp q (fragments_from specials s _ hq q rfl)

/-- **BPE round trip for the repaired switch: every text without NUL bytes.** -/
theorem bpe_roundtrip_fixed (V : Vocab) (split : Str → List Str) (specials : List Special)
    (s : Str) (hwf : V.Wf) (hcov : V.CoversBytes false) (hne : ∀ q ∈ specials, q.lit ≠ [])
    (hsplit : ∀ t, Frag.text t ∈ fragments specials s → (split t).flatten = t)
    (hsp : ∀ q ∈ specials, decodeRunes (V.tokStr q.id) = q.lit)
    (hs : ∀ b ∈ s, b < 256 ∧ b ≠ 0) :
    bpeDecode V (bpeEncode false V split specials noAdd s) = s :=
  bpe_roundtrip false V split specials s hwf hcov hne hsplit hsp
    (fun b hb => ⟨(hs b hb).1, (hs b hb).2, by simp⟩)

/-- **Every id `Encode` returns is inside the vocabulary** (any text, any `addSpecial` configuration
    whose BOS/EOS are in range, no covering assumption). -/
theorem bpe_ids_in_range (pinned : Bool) (V : Vocab) (split : Str → List Str) (specials : List Special)
    (c : AddCfg) (s : Str) (hwf : V.Wf) (_hne : ∀ q ∈ specials, q.lit ≠ []) (hsp : ∀ q ∈ specials, q.id < V.size)
    (hbos : c.bos < V.size) (heos : c.eos < V.size) :
    ∀ id ∈ bpeEncode pinned V split specials c s, id < V.size := by
  intro id hid
  unfold bpeEncode at hid
  rcases mem_addSpecials c _ id hid with h | ⟨_, _, rfl⟩ | ⟨_, _, rfl⟩
  · simp only [List.mem_flatMap] at h
    obtain ⟨fr, hfr, hidf⟩ := h
    cases fr with
    | text t =>
      simp only [bpeFrag, List.mem_flatMap] at hidf
      obtain ⟨piece, _, hp⟩ := hidf
      obtain ⟨u, hu⟩ := bpePiece_ids pinned V piece id hp
      exact (hwf _ _ hu).2
    | special q =>
      simp only [bpeFrag, List.mem_singleton] at hidf
      subst hidf
      exact hsp q (fragments_from specials s _ hfr q rfl)
  · exact hbos
  · exact heos

/-- **A special token's literal encodes to exactly its id**, whenever no other special token's
    literal occurs inside it. -/
theorem bpe_special_literal (pinned : Bool) (V : Vocab) (split : Str → List Str)
    (pre post : List Special) (sp : Special) (hne : sp.lit ≠ [])
    (hother : ∀ q ∈ pre ++ post, indexOf sp.lit q.lit = none) :
    bpeEncode pinned V split (pre ++ sp :: post) noAdd sp.lit = [sp.id] := by
  have hadd : ∀ ids, addSpecials noAdd ids = ids := by intro ids; simp [addSpecials, noAdd]
  unfold bpeEncode
  rw [hadd]
  have hfr : fragments (pre ++ sp :: post) sp.lit = [Frag.special sp] := by
    unfold fragments
    rw [List.foldl_append, List.foldl_cons]
    have h1 : ∀ (l : List Special), (∀ q ∈ l, indexOf sp.lit q.lit = none) →
        l.foldl (fun frs sp => splitFrags sp frs) [Frag.text sp.lit] = [Frag.text sp.lit] := by
      intro l
      induction l with
      | nil => intro _; rfl
      | cons q l ih =>
        intro h
        have hq := h q (by simp)
        simp only [List.foldl_cons]
        have : splitFrags q [Frag.text sp.lit] = [Frag.text sp.lit] := by
          simp [splitFrags, splitSpecial, hq]
        rw [this]
        exact ih (fun x hx => h x (List.mem_cons_of_mem _ hx))
    have h2 : ∀ (l : List Special),
        l.foldl (fun frs sp => splitFrags sp frs) [Frag.special sp] = [Frag.special sp] := by
      intro l
      induction l with
      | nil => rfl
      | cons q l ih => simp only [List.foldl_cons]; simpa [splitFrags] using ih
    rw [h1 pre (fun q hq => hother q (by simp [hq]))]
    have h3 : splitFrags sp [Frag.text sp.lit] = [Frag.special sp] := by
      simp [splitFrags, splitSpecial, indexOf_self]
    rw [h3, h2]
  rw [hfr]
  simp [bpeFrag]

/-- **Every occurrence of a special token's literal is encoded as that token's id** (both families; any
    list of special tokens with non-empty literals, any text): `Encode` is the concatenation of the
    per-fragment encodings of `fragments specials s`, where (1) the fragments partition the text,
    (2) NO remaining text fragment contains the literal of ANY special token, and (3) a special fragment
    is encoded as exactly its id. -/
theorem special_occurrences_consumed (specials : List Special) (hne : ∀ q ∈ specials, q.lit ≠ []) (s : Str) :
    ((fragments specials s).map Frag.lit).flatten = s ∧
    (∀ q ∈ specials, ∀ u, Frag.text u ∈ fragments specials s → ¬ Occurs q.lit u) ∧
    (∀ pinned V split c, bpeEncode pinned V split specials c s
        = addSpecials c ((fragments specials s).flatMap (bpeFrag pinned V split))) ∧
    (∀ V c, spmEncode V specials c s = addSpecials c ((fragments specials s).flatMap (spmFrag V))) ∧
    (∀ pinned V split q, bpeFrag pinned V split (Frag.special q) = [q.id]) ∧
    (∀ V q, spmFrag V (Frag.special q) = [q.id]) :=
  ⟨fragments_lit specials s, fun q hq => fragments_noOcc specials hne s q hq,
   fun _ _ _ _ => rfl, fun _ _ => rfl, fun _ _ _ _ => rfl, fun _ _ => rfl⟩

/-! ## histories of calls on one tokenizer -/

/-- **No state between calls.**  For every history of calls on one tokenizer object (either family: `enc` is
    any encoder parameterised by the special-token list, e.g. `bpeEncode pinned V split · c` or
    `spmEncode V · c`), starting from a fresh object or from one that has been used before, the i-th result is
    the single-call result on the i-th input: the only state carried between calls is the cache of the
    special-token list, and it is either empty or equal to what `SpecialVocabulary` computes. -/
theorem history_stateless {α} (enc : List Special → α → List Nat) (compute : List Special)
    (st : TokState) (hst : st.special = none ∨ st.special = some compute) (xs : List α) :
    runHistory enc compute st xs = xs.map (enc compute) := by
  induction xs generalizing st with
  | nil => rfl
  | cons x xs ih =>
    simp only [runHistory, encodeCall, List.map_cons]
    rcases hst with h | h
    · simp only [specialVocabulary, h]
      rw [ih _ (Or.inr rfl)]
    · simp only [specialVocabulary, h]
      rw [ih _ (Or.inr h)]

/-- the two instances: a history of BPE calls / SPM calls from a fresh tokenizer -/
theorem bpe_history_stateless (pinned : Bool) (V : Vocab) (split : Str → List Str) (specials : List Special)
    (c : AddCfg) (texts : List Str) :
    runHistory (fun sps s => bpeEncode pinned V split sps c s) specials TokState.init texts
      = texts.map (bpeEncode pinned V split specials c) :=
  history_stateless _ specials _ (Or.inl rfl) texts

theorem spm_history_stateless (V : Vocab) (specials : List Special) (c : AddCfg) (texts : List Str) :
    runHistory (fun sps s => spmEncode V sps c s) specials TokState.init texts
      = texts.map (spmEncode V specials c) :=
  history_stateless _ specials _ (Or.inl rfl) texts

/-! ## SentencePiece -/

/-- **SPM merge loop, with exactly the Go code's size-only staleness test: every part it leaves is a token
    or a single rune of the input** (any vocabulary, any scores, any input).  Invariant: every queue entry
    was created from two strings whose join is a token and whose byte sizes it records, parts only grow by
    appending, UTF-8 length is strictly monotone — so an entry that passes the size test is not stale. -/
theorem spm_merge_parts_tokens (V : Vocab) (rs : Str) :
    ∀ p ∈ mergeAll (spmCfg V) rs, (V.tokId p.runes).isSome = true ∨ ∃ r, p.runes = [r] :=
  spm_mergeAll_parts V rs

theorem spmFrags_decode (V : Vocab) (hwf : V.Wf) (hbt : V.HasByteTokens) (frs : List Frag)
    (htext : ∀ t, Frag.text t ∈ frs → (32 ∈ t → (V.tokId [sepRune]).isSome = true) ∧
      (∀ r ∈ t, r < 0x110000) ∧ sepRune ∉ t ∧ NoByteLit V t)
    (hsp : ∀ q, Frag.special q ∈ frs → spmDecodeTok V q.id = some (utf8s q.lit)) :
    spmDecode V (frs.flatMap (spmFrag V)) = some (utf8s (fragsLit frs)) := by
  induction frs with
  | nil => rfl
  | cons fr frs ih =>
    have hr := ih (fun t ht => htext t (List.mem_cons_of_mem _ ht)) (fun q hq => hsp q (List.mem_cons_of_mem _ hq))
    have hl : fragsLit (fr :: frs) = fr.lit ++ fragsLit frs := by simp [fragsLit]
    simp only [List.flatMap_cons]
    rw [hl, utf8s_append]
    apply spmDecode_append V _ _ _ _ _ hr
    cases fr with
    | text t =>
      obtain ⟨h0, h1, h2, h3⟩ := htext t (by simp)
      exact spmText_decode V hwf hbt t h0 h1 h2 h3
    | special q =>
      have := hsp q (by simp)
      simp [spmFrag, spmDecode, this, Frag.lit]

/-- **SentencePiece round trip, partial.**  For every well-formed vocabulary that has the 256 byte
    tokens (and the token `▁` if the text contains a space), every list of special tokens
    (vocabulary string = literal, not of the byte-token shape) and every text (as code points, all valid) that
    (guard 1) does not itself contain U+2581 and (guard 2) has no contiguous piece that is BOTH a token of
    the vocabulary and a byte-token literal `<0x??>`:
    `Decode (Encode s)` is the UTF-8 encoding of `s`.
    Both guards are necessary (witnesses below): they are inherent to the scheme. -/
theorem spm_roundtrip_partial (V : Vocab) (specials : List Special) (s : Str)
    (hwf : V.Wf) (_hne : ∀ q ∈ specials, q.lit ≠ []) (hbt : V.HasByteTokens) (hsep : 32 ∈ s → (V.tokId [sepRune]).isSome = true)
    (hsp : ∀ q ∈ specials, V.tokStr q.id = q.lit ∧ parseByteTok (utf8s q.lit) = none)
    (hvalid : ∀ r ∈ s, r < 0x110000) (hnosep : sepRune ∉ s) (hnolit : NoByteLit V s) :
    spmDecode V (spmEncode V specials noAdd s) = some (utf8s s) := by
  unfold spmEncode
  have hadd : ∀ ids, addSpecials noAdd ids = ids := by intro ids; simp [addSpecials, noAdd]
  have hfl := fragments_lit specials s
  have hpiece : ∀ fr ∈ fragments specials s, ∃ a b, s = a ++ fr.lit ++ b := by
    intro fr hfr
    obtain ⟨a, b, hab⟩ := mem_flatten_split _ fr.lit (List.mem_map.mpr ⟨fr, hfr, rfl⟩)
    refine ⟨a, b, ?_⟩
    rw [← hab]; exact hfl.symm
  rw [hadd, spmFrags_decode V hwf hbt, hfl]
  · intro t ht
    obtain ⟨a, b, hab⟩ := hpiece _ ht
    simp only [Frag.lit] at hab
    refine ⟨fun h => hsep (by rw [hab]; simp [h]), fun r hr => hvalid r (by rw [hab]; simp [hr]),
      fun h => hnosep (by rw [hab]; simp [h]), hnolit.infix a t b hab⟩
  · intro q hq
    obtain ⟨a, b, hab⟩ := hpiece _ hq
    simp only [Frag.lit] at hab
    have hno : sepRune ∉ q.lit := fun h => hnosep (by rw [hab]; simp [h])
    obtain ⟨hstr, hnl⟩ := hsp q (fragments_from specials s _ hq q rfl)
    simp [spmDecodeTok, hstr, map_sepToSpace_id q.lit hno, hnl]

/-- every id produced for a text fragment is the id of some vocabulary string -/
theorem spmText_ids (V : Vocab) (t : Str) : ∀ id ∈ spmText V t, ∃ u, V.tokId u = some id := by
  intro id hid
  unfold spmText at hid
  simp only at hid
  split at hid
  · rename_i i hi
    simp at hid; subst hid; exact ⟨_, hi⟩
  · simp only [List.mem_flatMap] at hid
    obtain ⟨p, _, hp⟩ := hid
    unfold spmToken at hp
    split at hp
    · rename_i i hi
      simp at hp; subst hp; exact ⟨_, hi⟩
    · simp only [List.mem_filterMap] at hp
      obtain ⟨b, _, hb⟩ := hp
      exact ⟨_, hb⟩

/-- **SentencePiece: every id `Encode` returns is inside the vocabulary.** -/
theorem spm_ids_in_range (V : Vocab) (specials : List Special) (c : AddCfg) (s : Str) (hwf : V.Wf)
    (_hne : ∀ q ∈ specials, q.lit ≠ []) (hsp : ∀ q ∈ specials, q.id < V.size) (hbos : c.bos < V.size) (heos : c.eos < V.size) :
    ∀ id ∈ spmEncode V specials c s, id < V.size := by
  intro id hid
  unfold spmEncode at hid
  rcases mem_addSpecials c _ id hid with h | ⟨_, _, rfl⟩ | ⟨_, _, rfl⟩
  · simp only [List.mem_flatMap] at h
    obtain ⟨fr, hfr, hidf⟩ := h
    cases fr with
    | text t =>
      obtain ⟨u, hu⟩ := spmText_ids V t id hidf
      exact (hwf _ _ hu).2
    | special q =>
      simp only [spmFrag, List.mem_singleton] at hidf
      subst hidf
      exact hsp q (fragments_from specials s _ hfr q rfl)
  · exact hbos
  · exact heos

/-- a small sentencepiece vocabulary: id 0..255 = byte tokens, 256 = `▁`, 257 = `a` -/
def spmVocab : Vocab where
  tokId s := if s = [sepRune] then some 256 else if s = [97] then some 257 else
    match s with
    | [60, 48, 120, c1, c2, 62] =>
      (match hexVal c1, hexVal c2 with
       | some x, some y => if byteTok (16 * x + y) = s then some (16 * x + y) else none
       | _, _ => none)
    | _ => none
  tokStr i := if i = 256 then [sepRune] else if i = 257 then [97] else byteTok i
  rank _ _ := none
  score _ := 0
  size := 258

/-- **Guard 1 is necessary:** the text `▁` decodes to a space. -/
theorem spm_sep_witness :
    spmDecode spmVocab (spmEncode spmVocab [] noAdd [sepRune]) = some [32] ∧
    utf8s [sepRune] = [0xE2, 0x96, 0x81] := by decide

/-- **Guard 2 is necessary:** the text `<0x41>` is found by the whole-fragment shortcut as the byte
    token and decodes to `A`. -/
theorem spm_byte_literal_witness :
    spmDecode spmVocab (spmEncode spmVocab [] noAdd (byteTok 0x41)) = some [0x41] := by decide

/-- non-vacuity of `spm_roundtrip_partial`: `spmVocab` has the byte tokens and `▁`, and the text
    "a a" meets both guards' easy half (no U+2581) and round-trips -/
example : spmVocab.HasByteTokens ∧ (spmVocab.tokId [sepRune]).isSome = true ∧
    spmDecode spmVocab (spmEncode spmVocab [] noAdd [97, 32, 97]) = some [97, 32, 97] := by
  refine ⟨by unfold Vocab.HasByteTokens; decide +kernel, by decide, by decide⟩

/-! ## findings: Lean-checked witnesses on the model (which mirrors the pinned code) -/

/-- a tiny covering vocabulary: every rune is the token whose id is the rune; no merges -/
def idVocab : Vocab where
  tokId s := match s with | [r] => if r < 0x180 then some r else none | _ => none
  tokStr i := [i]
  rank _ _ := none
  score _ := 0
  size := 0x180

/-- one piece per byte -/
def byteSplit (s : Str) : List Str := s.map fun b => [b]

/-- **Witness of finding F2 (pinned switch).**  `~` (0x7e) and the space (0x20) are both sent to
    U+0120, and `"a~b"` decodes to `"a b"`; with the repaired switch it round-trips. -/
theorem F2_pinned_tilde_collides_with_space :
    encByte true 0x7e = encByte true 0x20 ∧
    bpeDecode idVocab (bpeEncode true idVocab byteSplit [] noAdd [97, 126, 98]) = [97, 32, 98] ∧
    bpeDecode idVocab (bpeEncode false idVocab byteSplit [] noAdd [97, 126, 98]) = [97, 126, 98] := by
  decide

/-! ### the vocabulary's merge table and token list are independent: the merge loop's token guard -/

/-- the BPE queue configuration WITHOUT the `vocab.Encode(pair.value) < 0 → skip` guard -/
def bpeCfgNoGuard (V : Vocab) : Cfg := { bpeCfg V with ok := fun c l r => l ++ r == c.value }

/-- covering vocabulary (every rune is a token) with the merge rule "a b" whose product "ab" is NOT a token -/
def gapVocab : Vocab := { idVocab with rank := fun l r => if l = [97] ∧ r = [98] then some 0 else none }

theorem bpe_guard_needed_witness :
    -- with the guard (the code as it is) the rule is skipped and "ab" keeps its two tokens
    (mergeAll (bpeCfg gapVocab) [97, 98]).map (·.runes) = [[97], [98]] ∧
    bpeDecode gapVocab (bpeEncode false gapVocab (fun s => [s]) [] noAdd [97, 98]) = [97, 98] ∧
    -- without it the two parts are fused into a string that has no id and is dropped by the final loop
    (mergeAll (bpeCfgNoGuard gapVocab) [97, 98]).map (·.runes) = [[97, 98]] ∧
    ((mergeAll (bpeCfgNoGuard gapVocab) [97, 98]).filterMap fun p => gapVocab.tokId p.runes) = [] := by
  decide
/-- **Witness of finding F2b (ids 105/106 are always special).**  In a byte-level vocabulary such as
    llama 3's, `Values[105]` is the one-rune string U+00AC (the remapped byte 0xAC).  Treated as a
    special token, the text `¬` (bytes C2 AC) becomes the single id 105, which decodes to the single
    byte AC: the hypothesis `hsp` of `bpe_roundtrip` fails for it and so does the round trip. -/
theorem F2b_token105_witness :
    let sp : Special := ⟨[0xC2, 0xAC], [0xAC], 0xAC⟩
    decodeRunes (idVocab.tokStr sp.id) ≠ sp.lit ∧
    bpeDecode idVocab (bpeEncode false idVocab byteSplit [sp] noAdd [0xC2, 0xAC]) = [0xAC] ∧
    bpeDecode idVocab (bpeEncode false idVocab byteSplit [] noAdd [0xC2, 0xAC]) = [0xC2, 0xAC] := by
  decide

/-- non-vacuity: the hypotheses of `bpe_roundtrip_fixed` hold for `idVocab`, `byteSplit`, a special
    token and a text containing it -/
example : idVocab.Wf ∧ idVocab.CoversBytes false ∧ (∀ t, (byteSplit t).flatten = t) ∧
    (∀ q ∈ [(⟨[60, 62], [60, 62], 0x17f⟩ : Special)], q.id < idVocab.size) := by
  refine ⟨?_, ?_, ?_, by decide⟩
  · intro t i h
    unfold idVocab at h ⊢
    simp only at h ⊢
    split at h
    · split at h
      · cases h; exact ⟨rfl, by assumption⟩
      · cases h
    · cases h
  · have : ∀ b, b < 256 → (idVocab.tokId [encByte false b]).isSome = true := by decide +kernel
    intro b hb; exact this b hb.1
  · intro t; induction t with
    | nil => rfl
    | cons b t ih => simpa [byteSplit] using ih

/-! ## the theorems instantiated at the vocabulary the code builds from `Values` / `Types` / `Merges` -/

theorem decodeRunes_ascii (q : Str) (h : ∀ r ∈ q, r < 0x80) : decodeRunes q = utf8s q := by
  induction q with
  | nil => rfl
  | cons r q ih =>
    have hr := h r (by simp)
    have hq := ih (fun x hx => h x (List.mem_cons_of_mem _ hx))
    have h1 : decRune r = some r := by
      have e1 : r ≠ 0x100 := by omega
      have e2 : r ≠ 0x143 := by omega
      have e3 : ¬ (0x100 < r ∧ r ≤ 0x120) := by omega
      have e4 : ¬ (0x120 < r ∧ r ≤ 0x142) := by omega
      have e5 : r % 256 = r := Nat.mod_eq_of_lt (by omega)
      simp only [decRune, if_neg e1, if_neg e2, if_neg e3, if_neg e4, e5]
    have h2 : utf8 r = [r] := by simp [utf8, hr]
    simp only [decodeRunes, List.filterMap_cons, h1, utf8s, List.flatMap_cons, h2] at hq ⊢
    simp [hq]

theorem utf8s_ne_nil (x : Str) (h : x ≠ []) : utf8s x ≠ [] := by
  intro hc
  exact h (utf8s_length_eq_zero x (by rw [hc]; rfl))

theorem specialsOf_lit_ne (D : VocabData) (toLit : Str → Str) (htl : ∀ x, x ≠ [] → toLit x ≠ []) (sps : List Str)
    (hne : [] ∉ sps) : ∀ q ∈ D.specialsOf toLit sps, q.lit ≠ [] := by
  intro q hq
  simp only [VocabData.specialsOf, List.mem_map] at hq
  obtain ⟨x, hx, rfl⟩ := hq
  exact htl x (fun hc => hne (hc ▸ hx))

/-- **Ids in range, for the vocabulary the code builds.**  Guards = exactly the inputs on which the real code returns:
    `hsp`: `SpecialVocabulary()` does not panic (`Types` long enough) and returns `sps`; `hne`: no special token is the
    empty string (otherwise `Encode` never terminates: finding `empty-special-hang`; with the repaired loop, `sk = true`,
    `hne` is a theorem: `concrete_bpe_ids_in_range_repaired`).  No other hypothesis on `Values` / `Types` / `Merges`
    (duplicates, any token types); the special tokens' ids come from `vocab.Encode(special)`; BOS/EOS are configuration. -/
theorem concrete_bpe_ids_in_range (pinned sk : Bool) (D : VocabData) (sps : List Str)
    (hsp : D.specialStrings sk = some sps) (hne : [] ∉ sps) (split : Str → List Str) (c : AddCfg) (s : Str)
    (hbos : c.bos < D.values.length) (heos : c.eos < D.values.length) :
    ∀ i ∈ bpeEncode pinned D.vocab split (D.specialsOf utf8s sps) c s, i < D.values.length :=
  bpe_ids_in_range pinned D.vocab split _ c s D.vocab_wf (specialsOf_lit_ne D utf8s utf8s_ne_nil sps hne)
    (fun q hq => (D.specialsOf_wf sk utf8s sps hsp q hq).1) hbos heos

theorem concrete_bpe_ids_in_range_repaired (pinned : Bool) (D : VocabData) (sps : List Str)
    (hsp : D.specialStrings true = some sps) (split : Str → List Str) (c : AddCfg) (s : Str)
    (hbos : c.bos < D.values.length) (heos : c.eos < D.values.length) :
    ∀ i ∈ bpeEncode pinned D.vocab split (D.specialsOf utf8s sps) c s, i < D.values.length :=
  concrete_bpe_ids_in_range pinned true D sps hsp (specialStringsFrom_skip_nonempty _ _ _ _ hsp) split c s hbos heos

/-- SPM: additionally `hsc` — `Scores` is at least as long as `Values` (the real `pairwise` reads `Scores[id]` for the id of
    every merge candidate and panics otherwise; the model's `score` would silently read 0) -/
theorem concrete_spm_ids_in_range (sk : Bool) (D : VocabData) (sps : List Str)
    (hsp : D.specialStrings sk = some sps) (hne : [] ∉ sps) (_hsc : D.ScoresOk) (c : AddCfg) (s : Str)
    (hbos : c.bos < D.values.length) (heos : c.eos < D.values.length) :
    ∀ i ∈ spmEncode D.vocab (D.specialsOf (fun x => x) sps) c s, i < D.values.length :=
  spm_ids_in_range D.vocab _ c s D.vocab_wf (specialsOf_lit_ne D _ (fun _ h => h) sps hne)
    (fun q hq => (D.specialsOf_wf sk _ sps hsp q hq).1) hbos heos

/-- **BPE round trip for the vocabulary the code builds**: `Wf` is proved (not assumed), the special tokens are the
    ones `SpecialVocabulary()` returns (`hsp`: it does not panic) with the ids `Encode` looks up, none of them empty
    (`hne`: termination), and hypothesis `hsp` of `bpe_roundtrip` is replaced by the decidable condition on the data
    "every special token's string is ASCII" (the excluded case is the known finding BPE-nonascii-special). -/
theorem concrete_bpe_roundtrip (sk : Bool) (D : VocabData) (sps : List Str)
    (hsp : D.specialStrings sk = some sps) (hne : [] ∉ sps) (split : Str → List Str) (s : Str)
    (hcov : ∀ b, b < 256 → b ≠ 0 → [encByte false b] ∈ D.values)
    (hascii : ∀ q ∈ sps, ∀ r ∈ q, r < 0x80)
    (hsplit : ∀ t, Frag.text t ∈ fragments (D.specialsOf utf8s sps) s → (split t).flatten = t)
    (hs : ∀ b ∈ s, b < 256 ∧ b ≠ 0) :
    bpeDecode D.vocab (bpeEncode false D.vocab split (D.specialsOf utf8s sps) noAdd s) = s := by
  apply bpe_roundtrip_fixed D.vocab split _ s D.vocab_wf _ (specialsOf_lit_ne D utf8s utf8s_ne_nil sps hne) hsplit _ hs
  · intro b hb
    exact lastIdxFrom_isSome _ _ _ (hcov b hb.1 hb.2.1)
  · intro q hq
    obtain ⟨_, h2, h3, h4⟩ := D.specialsOf_wf sk utf8s sps hsp q hq
    rw [h2, h3]
    exact decodeRunes_ascii _ (hascii _ h4)

/-- **SPM round trip for the vocabulary the code builds** (same two necessary guards on the text; `hsc`: no `Scores` panic). -/
theorem concrete_spm_roundtrip_partial (sk : Bool) (D : VocabData) (sps : List Str)
    (hsp : D.specialStrings sk = some sps) (hne : [] ∉ sps) (_hsc : D.ScoresOk) (s : Str)
    (hbt : ∀ b, b < 256 → byteTok b ∈ D.values) (hsep : 32 ∈ s → [sepRune] ∈ D.values)
    (hshape : ∀ q ∈ sps, parseByteTok (utf8s q) = none)
    (hvalid : ∀ r ∈ s, r < 0x110000) (hnosep : sepRune ∉ s) (hnolit : NoByteLit D.vocab s) :
    spmDecode D.vocab (spmEncode D.vocab (D.specialsOf (fun x => x) sps) noAdd s) = some (utf8s s) := by
  apply spm_roundtrip_partial D.vocab _ s D.vocab_wf (specialsOf_lit_ne D _ (fun _ h => h) sps hne) _ _ _ hvalid hnosep hnolit
  · intro b hb; exact lastIdxFrom_isSome _ _ _ (hbt b hb)
  · intro h; exact lastIdxFrom_isSome _ _ _ (hsep h)
  · intro q hq
    obtain ⟨_, h2, h3, h4⟩ := D.specialsOf_wf sk _ sps hsp q hq
    refine ⟨by rw [h2, h3], ?_⟩
    rw [h3]
    exact hshape _ h4

/-- a concrete `Vocabulary`: DUPLICATE value "a" (ids 0 and 2), a control token, a turn marker typed NORMAL -/
def dupData : VocabData :=
  ⟨[[97], [98], [97], [60, 115, 62], startOfTurn], [1, 1, 1, 3, 1], [0, 0, 0, 0, 0], [[97, 32, 98], [97, 32, 98]]⟩

/-- non-vacuity / behaviour on duplicates: `Encode("a")` is the LAST index 2, the duplicate merge line has the LAST
    rank 1, the specials are `<s>` (CONTROL) and `<start_of_turn>` (by name), with their ids -/
example : dupData.vocab.tokId [97] = some 2 ∧ dupData.vocab.rank [97] [98] = some 1 ∧
    dupData.specialStrings false = some [[60, 115, 62], startOfTurn] ∧
    (dupData.specials false id).map (·.id) = [3, 4] := by decide

/-- `Types` shorter than `Values`: the model reports the index-out-of-range panic of `SpecialVocabulary` -/
example : (⟨[[97], [98]], [1], [], []⟩ : VocabData).specialStrings false = none := by decide

/-- non-vacuity of `mergeAll_fuel_sufficient`: a run that really merges ("aaaa" with the rule a+a, aa+aa) gives
    the same parts with ten times the fuel -/
example : (mergeAll (bpeCfg ⟨fun s => if s = [97, 97] then some 1 else if s = [97, 97, 97, 97] then some 2 else none,
      fun _ => [], fun l r => if l = r then some l.length else none, fun _ => 0, 3⟩) [97, 97, 97, 97]).map (·.runes)
    = [[97, 97, 97, 97]] := by decide

/-- a byte-level vocabulary as data: the 256 remapped bytes (ids 0..255) and the control token `<s>` (id 256) -/
def byteData : VocabData :=
  ⟨(List.range 256).map (fun b => [encByte false b]) ++ [[60, 115, 62]], List.replicate 256 1 ++ [3], [], []⟩

/-- non-vacuity of `concrete_bpe_roundtrip`: `byteData` meets the covering and the ASCII-specials hypotheses, its
    special list is `<s>` with id 256, and a text with the special literal in it round-trips -/
example : (∀ b, b < 256 → b ≠ 0 → [encByte false b] ∈ byteData.values) ∧
    byteData.specialStrings false = some [[60, 115, 62]] ∧
    (byteData.specialsOf utf8s [[60, 115, 62]]).map (fun q => (q.lit, q.id)) = [([60, 115, 62], 256)] ∧
    bpeEncode false byteData.vocab byteSplit (byteData.specialsOf utf8s [[60, 115, 62]]) noAdd [104, 60, 115, 62, 0xC3, 0xA9]
      = [104, 256, 0xC3, 0xA9 ] ∧
    bpeDecode byteData.vocab [104, 256, 0xC3, 0xA9] = [104, 60, 115, 62, 0xC3, 0xA9] := by
  refine ⟨by decide +kernel, by decide +kernel, by decide +kernel, by decide +kernel, by decide +kernel⟩

/-! ## the adjacency invariant (Proofs/TokenizerAdj.lean) -/

/-- **Indexing both ends of a popped candidate directly, as the Go loop does, gives the same parts as the model's
    successor lookup** — for either family, any vocabulary, any queue order, any input: every queue entry of every
    reachable state has no live part strictly between its two ends. -/
theorem merge_direct_indexing (cfg : Cfg) (rs : Str) : mergeAllDirect cfg rs = mergeAll cfg rs :=
  mergeAll_eq_direct cfg rs

/-- non-vacuity: a run with stale candidates ("aaaa": the middle pair dies) computed by the direct loop -/
example : (mergeAllDirect (bpeCfg ⟨fun s => if s = [97, 97] then some 1 else if s = [97, 97, 97, 97] then some 2 else none,
      fun _ => [], fun l r => if l = r then some l.length else none, fun _ => 0, 3⟩) [97, 97, 97, 97]).map (·.runes)
    = [[97, 97, 97, 97]] := by decide

/-! ## the NUL guard is exactly the loss: full statement for every byte text -/

def dropNul (s : Str) : Str := s.filter (fun b => b != 0)

theorem dropNul_append (a b : Str) : dropNul (a ++ b) = dropNul a ++ dropNul b := by simp [dropNul]

theorem dec_enc_all : ∀ b, b < 256 → decRune (encByte false b) = if b = 0 then none else some b := by
  decide +kernel

theorem decodeRunes_map_enc_all (bs : Str) (h : ∀ b ∈ bs, b < 256) :
    decodeRunes (bs.map (encByte false)) = dropNul bs := by
  induction bs with
  | nil => rfl
  | cons b bs ih =>
    have hb := h b (by simp)
    have e := dec_enc_all b hb
    have ih' := ih (fun x hx => h x (by simp [hx]))
    simp only [decodeRunes, List.map_cons, List.filterMap_cons, e] at ih' ⊢
    by_cases h0 : b = 0
    · simp [h0, dropNul] at ih' ⊢; exact ih'
    · simp [h0, dropNul] at ih' ⊢; exact ih'

theorem bpePiece_roundtrip_all (V : Vocab) (hwf : V.Wf)
    (hcov : ∀ b, b < 256 → (V.tokId [encByte false b]).isSome = true)
    (piece : Str) (hb : ∀ b ∈ piece, b < 256) :
    bpeDecode V (bpePiece false V piece) = dropNul piece := by
  have hdec := decodeRunes_map_enc_all piece hb
  unfold bpePiece
  simp only
  split
  · rename_i id hid
    have := (hwf _ _ hid).1
    simp [bpeDecode, this, hdec]
  · rw [bpeDecode_parts V hwf, mergeAll_concat, hdec]
    apply mergeAll_all (fun t => (V.tokId t).isSome = true) _ (bpeCfg_ok V)
    intro r hr
    simp only [List.mem_map] at hr
    obtain ⟨b, hbm, rfl⟩ := hr
    exact hcov b (hb b hbm)

theorem bpePieces_roundtrip_all (V : Vocab) (hwf : V.Wf)
    (hcov : ∀ b, b < 256 → (V.tokId [encByte false b]).isSome = true)
    (pieces : List Str) (hb : ∀ piece ∈ pieces, ∀ b ∈ piece, b < 256) :
    bpeDecode V (pieces.flatMap (bpePiece false V)) = dropNul pieces.flatten := by
  induction pieces with
  | nil => rfl
  | cons p ps ih =>
    simp only [List.flatMap_cons, List.flatten_cons, bpeDecode_append, dropNul_append]
    rw [bpePiece_roundtrip_all V hwf hcov p (hb p (by simp)),
        ih (fun q hq => hb q (List.mem_cons_of_mem _ hq))]

theorem bpeFrags_roundtrip_all (V : Vocab) (split : Str → List Str) (hwf : V.Wf)
    (hcov : ∀ b, b < 256 → (V.tokId [encByte false b]).isSome = true) (frs : List Frag)
    (htext : ∀ t, Frag.text t ∈ frs → (split t).flatten = t ∧ ∀ b ∈ t, b < 256)
    (hsp : ∀ q, Frag.special q ∈ frs → decodeRunes (V.tokStr q.id) = q.lit ∧ 0 ∉ q.lit) :
    bpeDecode V (frs.flatMap (bpeFrag false V split)) = dropNul (fragsLit frs) := by
  induction frs with
  | nil => rfl
  | cons fr frs ih =>
    simp only [List.flatMap_cons, bpeDecode_append]
    rw [ih (fun t ht => htext t (List.mem_cons_of_mem _ ht)) (fun q hq => hsp q (List.mem_cons_of_mem _ hq))]
    have : fragsLit (fr :: frs) = fr.lit ++ fragsLit frs := by simp [fragsLit]
    rw [this, dropNul_append]
    congr 1
    cases fr with
    | text t =>
      obtain ⟨h1, h2⟩ := htext t (by simp)
      simp only [bpeFrag, Frag.lit]
      rw [bpePieces_roundtrip_all V hwf hcov, h1]
      intro piece hp b hbp
      apply h2
      rw [← h1]
      exact List.mem_flatten.mpr ⟨piece, hp, hbp⟩
    | special q =>
      simp only [bpeFrag, Frag.lit]
      obtain ⟨h1, h2⟩ := hsp q (by simp)
      have h3 : dropNul q.lit = q.lit := by
        unfold dropNul
        rw [List.filter_eq_self]
        intro b hb
        simp only [bne_iff_ne, ne_eq]
        intro h0; subst h0; exact h2 hb
      simp [bpeDecode, h1, h3]

/-- **BPE, full statement (no NUL guard).**  For every well-formed vocabulary that has a token for each of the 256
    remapped bytes, every partitioning pre-tokenizer, every specials list (vocabulary string decodes to the literal,
    literal without NUL) and EVERY byte text: `Decode (Encode s)` is `s` with its NUL bytes removed — the NUL
    exclusion in the property statement is exactly the loss (U+0100 is skipped by `Decode`), nothing else is. -/
theorem bpe_roundtrip_nul (V : Vocab) (split : Str → List Str) (specials : List Special) (s : Str)
    (hwf : V.Wf) (hcov : ∀ b, b < 256 → (V.tokId [encByte false b]).isSome = true)
    (hsplit : ∀ t, Frag.text t ∈ fragments specials s → (split t).flatten = t)
    (hsp : ∀ q ∈ specials, decodeRunes (V.tokStr q.id) = q.lit ∧ 0 ∉ q.lit)
    (hs : ∀ b ∈ s, b < 256) :
    bpeDecode V (bpeEncode false V split specials noAdd s) = dropNul s := by
  unfold bpeEncode
  have hadd : ∀ ids, addSpecials noAdd ids = ids := by intro ids; simp [addSpecials, noAdd]
  rw [hadd, bpeFrags_roundtrip_all V split hwf hcov, fragments_lit]
  · intro t ht
    refine ⟨hsplit t ht, fun b hb => hs b ?_⟩
    have := mem_fragsLit_of_text _ t ht b hb
    rwa [fragments_lit] at this
  · intro q hq
    exact hsp q (fragments_from specials s _ hq q rfl)

/-- non-vacuity + witness that the guard is needed: `idVocab` covers all 256 bytes; "a\0b" comes back as "ab" -/
example : (∀ b, b < 256 → (idVocab.tokId [encByte false b]).isSome = true) ∧
    bpeDecode idVocab (bpeEncode false idVocab byteSplit [] noAdd [97, 0, 98]) = [97, 98] ∧
    dropNul [97, 0, 98] = [97, 98] := by
  refine ⟨by decide +kernel, by decide, by decide⟩


/-! ## `Encode` as the Go code is written: in-place splitting loop, `merges` array with stored pointers -/

/-- one pre-tokenizer piece through the Go-shaped merge procedure -/
def goBpePiece (pinned : Bool) (V : Vocab) (piece : Str) : List Nat :=
  let mapped := piece.map (encByte pinned)
  match V.tokId mapped with
  | some id => [id]
  | none => (goMergeAll (bpeCfg V) mapped).filterMap fun p => V.tokId p.runes

/-- `BytePairEncoding.Encode`, statement by statement: `goFragments` (the slice edited in place while scanned),
    per fragment the pre-tokenizer pieces, per piece `goMergeAll` (array of `merge{p, n, runes}`, both ends of a popped
    pair indexed directly, neighbours through the stored pointers), the final loop over the array, BOS/EOS -/
def goBpeEncode (pinned : Bool) (V : Vocab) (split : Str → List Str) (specials : List Special)
    (c : AddCfg) (s : Str) : List Nat :=
  addSpecials c ((goFragments specials s).flatMap fun fr => match fr with
    | .special sp => [sp.id]
    | .text t => (split t).flatMap (goBpePiece pinned V))

def goSpmText (V : Vocab) (s : Str) : List Nat :=
  let text := s.map spaceToSep
  match V.tokId text with
  | some id => [id]
  | none => (goMergeAll (spmCfg V) text).flatMap fun p => spmToken V p.runes

/-- `SentencePieceModel.Encode` in the same shape -/
def goSpmEncode (V : Vocab) (specials : List Special) (c : AddCfg) (s : Str) : List Nat :=
  addSpecials c ((goFragments specials s).flatMap fun fr => match fr with
    | .special sp => [sp.id]
    | .text t => goSpmText V t)

theorem flatMap_congr' {α β} (l : List α) (f g : α → List β) (h : ∀ x ∈ l, f x = g x) :
    l.flatMap f = l.flatMap g := by
  induction l with
  | nil => rfl
  | cons x l ih =>
    simp only [List.flatMap_cons]
    rw [h x (by simp), ih (fun y hy => h y (List.mem_cons_of_mem _ hy))]

/-- **The Go-shaped `Encode` IS the model `bpeEncode`** the theorems are about (special literals non-empty). -/
theorem goBpeEncode_eq (pinned : Bool) (V : Vocab) (split : Str → List Str) (specials : List Special)
    (hne : ∀ q ∈ specials, q.lit ≠ []) (c : AddCfg) (s : Str) :
    goBpeEncode pinned V split specials c s = bpeEncode pinned V split specials c s := by
  unfold goBpeEncode bpeEncode
  rw [goFragments_eq specials hne s]
  congr 1
  apply flatMap_congr'
  intro fr _
  cases fr with
  | special sp => rfl
  | text t =>
    simp only [bpeFrag]
    apply flatMap_congr'
    intro piece _
    simp only [goBpePiece, bpePiece, goMergeAll_eq]
    cases V.tokId (List.map (encByte pinned) piece) <;> rfl

theorem goSpmEncode_eq (V : Vocab) (specials : List Special) (hne : ∀ q ∈ specials, q.lit ≠ [])
    (c : AddCfg) (s : Str) : goSpmEncode V specials c s = spmEncode V specials c s := by
  unfold goSpmEncode spmEncode
  rw [goFragments_eq specials hne s]
  congr 1
  apply flatMap_congr'
  intro fr _
  cases fr with
  | special sp => rfl
  | text t =>
    simp only [spmFrag]
    simp only [goSpmText, spmText, goMergeAll_eq]
    cases V.tokId (List.map spaceToSep t) <;> rfl

/-- **Round trip stated for the Go-shaped `Encode`** (repaired switch; every text without NUL). -/
theorem go_bpe_roundtrip (V : Vocab) (split : Str → List Str) (specials : List Special) (s : Str)
    (hwf : V.Wf) (hcov : V.CoversBytes false) (hne : ∀ q ∈ specials, q.lit ≠ [])
    (hsplit : ∀ t, Frag.text t ∈ fragments specials s → (split t).flatten = t)
    (hsp : ∀ q ∈ specials, decodeRunes (V.tokStr q.id) = q.lit)
    (hs : ∀ b ∈ s, b < 256 ∧ b ≠ 0) :
    bpeDecode V (goBpeEncode false V split specials noAdd s) = s := by
  rw [goBpeEncode_eq false V split specials hne]
  exact bpe_roundtrip_fixed V split specials s hwf hcov hne hsplit hsp hs

/-- non-vacuity: the Go-shaped encoder run on a text with a special literal, merges and a stale candidate -/
example :
    let V : Vocab := ⟨fun s => if s = [97] then some 0 else if s = [97, 97] then some 1 else
        if s = [97, 97, 97, 97] then some 2 else if s = [98] then some 3 else none,
      fun _ => [], fun l r => if l = r then some l.length else none, fun _ => 0, 5⟩
    goBpeEncode false V (fun t => [t]) [⟨[60, 62], [60, 62], 4⟩] noAdd [97, 97, 97, 97, 97, 60, 62, 98] = [1, 0, 1, 4, 3] := by
  decide


/-! ## finding `empty-special-hang`, special-token order, SPM guard 2 made checkable (review round 7) -/

/-- **Witness of finding `empty-special-hang`.**  A special token whose string is empty (a `Values[i] == ""` typed CONTROL):
    the model's fuel-driven splitter returns (three specials in front of the text), the Go loop never does — after ANY
    number of iterations its slice has grown by that many fragments and the scan position still points at the same
    text; the repaired `SpecialVocabulary()` never returns the empty string. -/
theorem empty_special_diverges_witness :
    (fragments [⟨[], [], 5⟩] [97, 98]).map Frag.lit = [[], [], [], [97, 98]] ∧
    (∀ fuel, goSplitPass ⟨[], [], 5⟩ fuel [.text [97, 98]] 0
      = List.replicate fuel (.special ⟨[], [], 5⟩) ++ [.text [97, 98]]) ∧
    (∀ (D : VocabData) sps, D.specialStrings true = some sps → [] ∉ sps) := by
  refine ⟨by decide, fun fuel => ?_, fun D sps h => specialStringsFrom_skip_nonempty _ _ _ _ h⟩
  have := goSplitPass_empty_diverges ⟨[], [], 5⟩ rfl [97, 98] (by decide) fuel []
  simpa using this

theorem foldl_split_text_noocc (l : List Special) (t : Str) (h : ∀ q ∈ l, indexOf t q.lit = none) :
    l.foldl (fun frs sp => splitFrags sp frs) [Frag.text t] = [Frag.text t] := by
  induction l with
  | nil => rfl
  | cons q l ih =>
    have hq := h q (by simp)
    simp only [List.foldl_cons]
    have : splitFrags q [Frag.text t] = [Frag.text t] := by
      simp [splitFrags, splitSpecial, hq]
    rw [this]
    exact ih (fun x hx => h x (List.mem_cons_of_mem _ hx))

theorem foldl_split_special_mem (l : List Special) (q : Special) (frs : List Frag) (h : Frag.special q ∈ frs) :
    Frag.special q ∈ l.foldl (fun frs sp => splitFrags sp frs) frs := by
  induction l generalizing frs with
  | nil => exact h
  | cons sp l ih =>
    simp only [List.foldl_cons]
    apply ih
    simp only [splitFrags, List.mem_flatMap]
    exact ⟨Frag.special q, h, by simp⟩

/-- **Positional form of clause 3**: the leftmost occurrence of the FIRST-LISTED special token that occurs in the text is
    always encoded as that token (no `hother`): no earlier-listed special occurs in the text, `sp`'s literal does ⇒ a
    special fragment for `sp` is among the fragments (and `special_occurrences_consumed` says it is encoded as `[sp.id]`).
    For later-listed specials the clause can fail: `special_order_witness`. -/
theorem first_listed_special_consumed (pre post : List Special) (sp : Special) (s : Str)
    (hpre : ∀ q ∈ pre, indexOf s q.lit = none) (hocc : Occurs sp.lit s) :
    Frag.special sp ∈ fragments (pre ++ sp :: post) s := by
  unfold fragments
  rw [List.foldl_append, List.foldl_cons, foldl_split_text_noocc pre s hpre]
  apply foldl_split_special_mem
  cases hi : indexOf s sp.lit with
  | none => exact absurd hocc (indexOf_none _ _ hi)
  | some i =>
    simp only [splitFrags, List.flatMap_cons, List.flatMap_nil, List.append_nil]
    unfold splitSpecial
    simp [hi]

/-- SPM analogue of `bpe_special_literal` -/
theorem spm_special_literal (V : Vocab) (pre post : List Special) (sp : Special) (hne : sp.lit ≠ [])
    (hother : ∀ q ∈ pre ++ post, indexOf sp.lit q.lit = none) :
    spmEncode V (pre ++ sp :: post) noAdd sp.lit = [sp.id] := by
  have hadd : ∀ ids, addSpecials noAdd ids = ids := by intro ids; simp [addSpecials, noAdd]
  unfold spmEncode
  rw [hadd]
  have hfr : fragments (pre ++ sp :: post) sp.lit = [Frag.special sp] := by
    unfold fragments
    rw [List.foldl_append, List.foldl_cons,
      foldl_split_text_noocc pre sp.lit (fun q hq => hother q (by simp [hq]))]
    have h3 : splitFrags sp [Frag.text sp.lit] = [Frag.special sp] := by
      simp [splitFrags, splitSpecial, indexOf_self]
    rw [h3]
    have h2 : ∀ (l : List Special),
        l.foldl (fun frs sp => splitFrags sp frs) [Frag.special sp] = [Frag.special sp] := by
      intro l
      induction l with
      | nil => rfl
      | cons q l ih => simp only [List.foldl_cons]; simpa [splitFrags] using ih
    exact h2 post
  rw [hfr]
  simp [spmFrag]

/-- **The order of the special list decides which of two overlapping special tokens wins**: with `<` listed before
    `<s>`, the text `<s>` is cut at `<` and the longer token is never produced; listed the other way round it is. -/
theorem special_order_witness :
    (fragments [⟨[60], [60], 300⟩, ⟨[60, 115, 62], [60, 115, 62], 301⟩] [60, 115, 62]).map Frag.lit = [[60], [115, 62]] ∧
    bpeEncode false idVocab byteSplit [⟨[60], [60], 300⟩, ⟨[60, 115, 62], [60, 115, 62], 301⟩] noAdd [60, 115, 62]
      = [300, 115, 62] ∧
    bpeEncode false idVocab byteSplit [⟨[60, 115, 62], [60, 115, 62], 301⟩, ⟨[60], [60], 300⟩] noAdd [60, 115, 62]
      = [301] := by decide

theorem parseByteTok_head (bs : Str) (h : parseByteTok bs ≠ none) : bs.head? = some 60 := by
  unfold parseByteTok at h
  split at h
  · rfl
  · exact absurd rfl h

theorem utf8_head (r : Nat) (h : (utf8 r).head? = some 60) : r = 60 := by
  unfold utf8 at h
  split at h
  · simpa using h
  · split at h
    · simp at h; omega
    · split at h
      · simp at h; omega
      · simp at h; omega

/-- **Guard 2 of the SPM round trip holds for every text without `<`** (a byte-token literal starts with `<`): a
    decidable, purely textual sufficient condition for `NoByteLit`, for every vocabulary. -/
theorem noByteLit_of_no_lt (V : Vocab) (s : Str) (h : 60 ∉ s) : NoByteLit V s := by
  intro pre m post hs _
  cases hp : parseByteTok (utf8s m) with
  | none => rfl
  | some x =>
    exfalso
    have hh := parseByteTok_head (utf8s m) (by rw [hp]; simp)
    cases m with
    | nil => simp [utf8s] at hh
    | cons r m =>
      have hr : (utf8 r).head? = some 60 := by
        have hpos := utf8_length_pos r
        cases hu : utf8 r with
        | nil => rw [hu] at hpos; simp at hpos
        | cons b bs => simp [utf8s, hu] at hh; simp [hh]
      have := utf8_head r hr
      apply h
      rw [hs, this]
      simp

/-- a small sentencepiece vocabulary as DATA: ids 0..255 = byte tokens, 256 = `▁`, 257 = `a`; no special tokens -/
def spmData : VocabData :=
  ⟨(List.range 256).map byteTok ++ [[sepRune], [97]], List.replicate 256 6 ++ [1, 1],
   List.replicate 258 0, []⟩

/-- **`concrete_spm_roundtrip_partial` applied inside Lean**: every hypothesis discharged for `spmData` and the text
    "a a" (guard 2 by `noByteLit_of_no_lt`), the conclusion is the round trip -/
example : spmDecode spmData.vocab (spmEncode spmData.vocab (spmData.specialsOf (fun x => x) []) noAdd [97, 32, 97])
    = some (utf8s [97, 32, 97]) :=
  concrete_spm_roundtrip_partial false spmData [] (by decide +kernel) (by simp)
    (by unfold VocabData.ScoresOk; decide +kernel) [97, 32, 97]
    (by decide +kernel) (fun _ => by decide +kernel) (by simp) (by decide) (by decide)
    (noByteLit_of_no_lt _ _ (by decide))

/-- `spm_roundtrip_partial`'s guard 2 exhibited for the abstract `spmVocab` as well -/
example : NoByteLit spmVocab [97, 32, 97] := noByteLit_of_no_lt _ _ (by decide)


/-- `idVocab` without a token for `b` (0x62) -/
def holeVocab : Vocab := { idVocab with tokId := fun s => if s = [98] then none else idVocab.tokId s }

/-- **The covering hypothesis is necessary, and "ids in range" does not imply "nothing dropped"**: with a vocabulary that
    lacks one byte, `"abc"` encodes to ids that are all in range and decodes to `"ac"` — the part that is not a token is
    silently dropped by the final loop (the `TODO` in the source). -/
theorem bpe_cover_needed_witness :
    bpeEncode false holeVocab byteSplit [] noAdd [97, 98, 99] = [97, 99] ∧
    (∀ i ∈ bpeEncode false holeVocab byteSplit [] noAdd [97, 98, 99], i < holeVocab.size) ∧
    bpeDecode holeVocab (bpeEncode false holeVocab byteSplit [] noAdd [97, 98, 99]) = [97, 99] := by
  decide


/-- **The Go merge procedure with its array and stored pointers** (`Proofs/TokenizerPtr.lean`) leaves the model's parts -/
theorem merge_go_array_refines (cfg : Cfg) (rs : Str) : goMergeAll cfg rs = mergeAll cfg rs := goMergeAll_eq cfg rs

/-- **The in-place special-splitting loops** (`Proofs/TokenizerSplit.lean`) compute the model's `fragments` -/
theorem fragments_go_loop_refines (specials : List Special) (hne : ∀ q ∈ specials, q.lit ≠ []) (s : Str) :
    goFragments specials s = fragments specials s := goFragments_eq specials hne s

/-! ## what is proved about the pre-tokenizer: ANY function whose pieces concatenate to its input -/

/-- a pre-tokenizer "partitions" when the pieces it returns concatenate to its input -/
def Partitions (split : Str → List Str) : Prop := ∀ t, (split t).flatten = t

/-- **BPE round trip for EVERY partitioning pre-tokenizer.**  Nothing else about the regular expression is used:
    whatever function cuts the text fragments into pieces, as long as the pieces concatenate to the fragment, every
    well-formed covering vocabulary, every list of (non-empty, self-decoding) special tokens and every text without NUL
    round-trip.  That the REAL regexp2 split partitions is not a theorem: it is the L2 clause `split-partition`, evaluated
    on the whole text and on every text fragment of every BPE call and on a sweep over all Unicode scalar values. -/
theorem bpe_roundtrip_any_partitioning_split (V : Vocab) (split : Str → List Str) (hpart : Partitions split)
    (specials : List Special) (s : Str) (hwf : V.Wf) (hcov : V.CoversBytes false)
    (hne : ∀ q ∈ specials, q.lit ≠ []) (hsp : ∀ q ∈ specials, decodeRunes (V.tokStr q.id) = q.lit)
    (hs : ∀ b ∈ s, b < 256 ∧ b ≠ 0) :
    bpeDecode V (bpeEncode false V split specials noAdd s) = s :=
  bpe_roundtrip_fixed V split specials s hwf hcov hne (fun t _ => hpart t) hsp hs

/-- the hypothesis is necessary: a split that loses a character loses it in the round trip (`~` dropped) -/
theorem split_partition_needed_witness :
    let dropSplit : Str → List Str := fun t => (t.filter (· != 126)).map fun b => [b]
    ¬ Partitions dropSplit ∧
    bpeDecode idVocab (bpeEncode false idVocab dropSplit [] noAdd [97, 126, 98]) = [97, 98] := by
  refine ⟨fun h => ?_, by decide⟩
  have := h [126]
  revert this
  decide

/-- non-vacuity: `byteSplit` (one piece per byte) and "one piece" both partition -/
example : Partitions byteSplit ∧ Partitions (fun t => [t]) := by
  constructor
  · intro t; induction t with
    | nil => rfl
    | cons b t ih => simpa [byteSplit] using ih
  · intro t; simp

/-! ## SentencePiece: guard 2 as a condition on the text alone -/

theorem utf8s_cons (r : Nat) (m : Str) : utf8s (r :: m) = utf8 r ++ utf8s m := by simp [utf8s]

/-- if the UTF-8 bytes of `m` start with the ASCII byte `c`, then `m` starts with the rune `c` -/
theorem utf8s_head_ascii (m : Str) (c : Nat) (rest : Str) (hc : c < 0x80) (h : utf8s m = c :: rest) :
    ∃ m', m = c :: m' ∧ utf8s m' = rest := by
  cases m with
  | nil => simp [utf8s] at h
  | cons r m' =>
    rw [utf8s_cons] at h
    have hr : r = c := by
      unfold utf8 at h
      split at h
      · simp at h; exact h.1
      · split at h
        · simp at h; omega
        · split at h
          · simp at h; omega
          · simp at h; omega
    subst hr
    have : utf8 r = [r] := by simp [utf8, hc]
    rw [this] at h
    simp at h
    exact ⟨m', rfl, h⟩

/-- **Guard 2 of the SPM round trip holds for every text that does not contain `<0x`** (any vocabulary): sharper than
    `noByteLit_of_no_lt`, and a condition on the text alone. -/
theorem noByteLit_of_no_0x (V : Vocab) (s : Str) (h : ¬ Occurs [60, 48, 120] s) : NoByteLit V s := by
  intro pre m post hs _
  cases hp : parseByteTok (utf8s m) with
  | none => rfl
  | some x =>
    exfalso
    have hshape : ∃ c1 c2, utf8s m = [60, 48, 120, c1, c2, 62] := by
      unfold parseByteTok at hp
      split at hp
      · rename_i c1 c2 heq
        exact ⟨c1, c2, heq⟩
      · cases hp
    obtain ⟨c1, c2, hu⟩ := hshape
    obtain ⟨m1, e1, h1⟩ := utf8s_head_ascii m 60 _ (by decide) hu
    obtain ⟨m2, e2, h2⟩ := utf8s_head_ascii m1 48 _ (by decide) h1
    obtain ⟨m3, e3, _⟩ := utf8s_head_ascii m2 120 _ (by decide) h2
    apply h
    refine ⟨pre, m3 ++ post, ?_⟩
    rw [hs, e1, e2, e3]
    simp

/-- **SentencePiece round trip with guards on the TEXT only**, for the vocabulary the code builds: valid code points, no
    U+2581 (necessary: `spm_sep_witness`), no `<0x` — the vocabulary conditions (`hbt`, `hsep`, `hshape`, no panic, no empty
    special, scores) are decidable facts about the data (discharged by `decide +kernel` for `spmData` below: `spmData_roundtrip`;
    the driver evaluates the same three conditions on its own vocabularies before it applies the round-trip monitor). -/
theorem concrete_spm_roundtrip_text_guards (sk : Bool) (D : VocabData) (sps : List Str)
    (hsp : D.specialStrings sk = some sps) (hne : [] ∉ sps) (hsc : D.ScoresOk)
    (hbt : ∀ b, b < 256 → byteTok b ∈ D.values) (hsep : [sepRune] ∈ D.values)
    (hshape : ∀ q ∈ sps, parseByteTok (utf8s q) = none) (s : Str)
    (hvalid : ∀ r ∈ s, r < 0x110000) (hnosep : sepRune ∉ s) (hno0x : ¬ Occurs [60, 48, 120] s) :
    spmDecode D.vocab (spmEncode D.vocab (D.specialsOf (fun x => x) sps) noAdd s) = some (utf8s s) :=
  concrete_spm_roundtrip_partial sk D sps hsp hne hsc s hbt (fun _ => hsep) hshape hvalid hnosep
    (noByteLit_of_no_0x _ _ hno0x)

/-- every vocabulary condition of `concrete_spm_roundtrip_text_guards` decided for `spmData`: what is left is a statement
    about ALL texts with the three textual guards -/
theorem spmData_roundtrip (s : Str) (hvalid : ∀ r ∈ s, r < 0x110000) (hnosep : sepRune ∉ s)
    (hno0x : ¬ Occurs [60, 48, 120] s) :
    spmDecode spmData.vocab (spmEncode spmData.vocab [] noAdd s) = some (utf8s s) :=
  concrete_spm_roundtrip_text_guards false spmData [] (by decide +kernel) (by simp)
    (by unfold VocabData.ScoresOk; decide +kernel) (by decide +kernel) (by decide +kernel) (by simp) s hvalid hnosep hno0x

end OllamaVerif.C20
