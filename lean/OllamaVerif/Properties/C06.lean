/-
  C06 — KV cache exposes exactly the causal history of each sequence.
-/
import OllamaVerif.Proofs.Causal

namespace OllamaVerif.C06
open OllamaVerif OllamaVerif.KV OllamaVerif.Causal

end OllamaVerif.C06
