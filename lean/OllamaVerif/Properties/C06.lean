/-
  C06 — KV cache exposes exactly the causal history of each sequence.

  Property theorems over the model of kvcache.Causal (Model/Causal.lean) and the location-free
  specification (Spec/KV.lean), connected by the abstraction `abs` (Proofs/Causal.lean).
-/
import OllamaVerif.Proofs.Causal

namespace OllamaVerif.C06
open OllamaVerif OllamaVerif.KV OllamaVerif.Causal

/-- **CopyPrefix commutes with the abstraction** (every cache, any arguments): afterwards the
    abstract state is the spec's `copyPrefix` of the abstract state before. -/
theorem copyPrefix_abs (c : Cache) (src dst : Nat) (len : Int) :
    abs (Causal.copyPrefix c src dst len) = KV.copyPrefix (abs c) src dst len := by
  simp only [abs, Causal.copyPrefix, KV.copyPrefix, List.zip_map_left, List.filterMap_map,
    List.filterMap_filterMap]
  apply filterMap_congr'
  intro x _
  obtain ⟨cell, row⟩ := x
  simpa using entryOf_cpCell src dst len (cell, row)

/-- **Remove commutes with the abstraction** whenever it reports success: the spec accepts the same
    removal and yields exactly the abstract state after the call (ranges removed, later positions and
    the data's shift moved by `begin − end`, `MaxInt32` meaning "to the end"). -/
theorem remove_abs (c : Cache) (seq : Nat) (b e : Int) (hlen : c.cells.length = c.rows.length)
    (hsz : c.cells.length ≤ maxInt) (hl : c.hasLayers = true)
    (hok : (Causal.remove c seq b e).2 = .ok) :
    KV.remove (abs c) seq b e = some (abs (Causal.remove c seq b e).1) := by
  unfold Causal.remove at hok ⊢
  simp only at hok ⊢
  cases hr : (removeCells seq b e (rmOffset b e) c.cells).2 with
  | true => simp [hr] at hok
  | false =>
    have hcells := removeCells_ok seq b e (rmOffset b e) c.cells hr
    have hany : (abs c).any (mustRefuse seq b e) = false := by
      rw [abs, any_refuse_abs seq b e c.cells c.rows hlen, ← removeCells_flag seq b e (rmOffset b e), hr]
    simp only [KV.remove, hany, Bool.false_eq_true, if_false, Option.some.injEq]
    simp only [hr, Bool.false_eq_true, if_false] at hok
    simp only [hcells] at hok ⊢
    by_cases hnew : rangeOf (hasSeq seq) (c.cells.map (rmCell seq b e (rmOffset b e))) = Range.new
    · -- nothing of `seq` is left: no row needs a shift
      simp only [hnew, if_true, abs]
      rw [zip_noShift, List.filterMap_map, List.filterMap_filterMap]
      apply filterMap_congr'
      intro x hx
      have hno := rangeOf_new _ _ (by rw [List.length_map]; exact hsz) hnew
      obtain ⟨k, hk, rfl⟩ := List.getElem_of_mem hx
      have hk' : k < c.cells.length := by
        have := hk; simp only [List.length_zip] at this; omega
      have hk2 : k < (c.cells.map (rmCell seq b e (rmOffset b e))).length := by
        rw [List.length_map]; exact hk'
      have hcell := hno k hk2
      simp only [List.getElem_map, hasSeq, decide_eq_false_iff_not] at hcell
      simp only [List.getElem_zip, Function.comp]
      generalize c.cells[k] = cell at hcell
      generalize c.rows[k]'(by rw [← hlen]; exact hk') = row
      obtain ⟨pos, seqs⟩ := cell
      by_cases h0 : seqs = []
      · subst h0; simp [entryOf, rmPair, rmCell]
      · by_cases h1 : seq ∈ seqs
        · by_cases h2 : b ≤ pos ∧ pos < e
          · simp [entryOf, rmPair, rmCell, rmEntry, h0, h1, h2, dropSeq]
          · by_cases h3 : pos ≥ e
            · simp [rmCell, h1, h2, h3] at hcell
            · simp [entryOf, rmPair, rmCell, rmEntry, h0, h1, h2, h3]
        · simp [entryOf, rmPair, rmCell, rmEntry, h0, h1]
    · simp only [hnew, if_false] at hok ⊢
      by_cases he : e = maxInt32
      · subst he
        simp only [if_true, abs]
        rw [zip_noShift, List.filterMap_map, List.filterMap_filterMap]
        apply filterMap_congr'
        intro x _
        simpa using (entryOf_rmPair_noshift_inf seq b x).symm
      · simp only [he, if_false] at hok ⊢
        cases hs : c.hasShift with
        | false => simp [hs] at hok
        | true =>
          simp only [Bool.not_true, Bool.false_eq_true, if_false, hl, if_true, abs]
          rw [zip_shiftRows, List.filterMap_map,
            List.filterMap_filterMap]
          apply filterMap_congr'
          intro x _
          simpa using (entryOf_rmPair_shift seq b e he x).symm

end OllamaVerif.C06
