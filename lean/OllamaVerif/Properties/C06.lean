/-
  C06 — KV cache exposes exactly the causal history of each sequence.

  Property theorems over the model of kvcache.Causal (Model/Causal.lean) and the location-free
  specification (Spec/KV.lean), connected by the abstraction `abs` (Proofs/Causal.lean).
-/
import OllamaVerif.Proofs.Causal
import OllamaVerif.Proofs.CausalDefrag

namespace OllamaVerif.C06
open OllamaVerif OllamaVerif.KV OllamaVerif.Causal

/-- **CopyPrefix commutes with the abstraction** (every cache, any arguments): afterwards the
    abstract state is the spec's `copyPrefix` of the abstract state before. -/
theorem copyPrefix_abs (c : Cache) (src dst : Nat) (len : Int) :
    abs (Causal.copyPrefix c src dst len) = KV.copyPrefix (abs c) src dst len := by
  simp only [abs, Causal.copyPrefix, KV.copyPrefix, List.zip_map_left, List.filterMap_map,
    List.filterMap_filterMap]
  apply filterMap_congr'
  intro x _
  obtain ⟨cell, row⟩ := x
  simpa using entryOf_cpCell src dst len (cell, row)

/-- **Remove commutes with the abstraction** whenever it reports success: the spec accepts the same
    removal and yields exactly the abstract state after the call (ranges removed, later positions and
    the data's shift moved by `begin − end`, `MaxInt32` meaning "to the end"). -/
theorem remove_abs (c : Cache) (seq : Nat) (b e : Int) (hlen : c.cells.length = c.rows.length)
    (hsz : c.cells.length ≤ maxInt) (hl : c.hasLayers = true)
    (hok : (Causal.remove c seq b e).2 = .ok) :
    KV.remove (abs c) seq b e = some (abs (Causal.remove c seq b e).1) := by
  unfold Causal.remove at hok ⊢
  simp only at hok ⊢
  cases hr : (removeCells seq b e (rmOffset b e) c.cells).2 with
  | true => simp [hr] at hok
  | false =>
    have hcells := removeCells_ok seq b e (rmOffset b e) c.cells hr
    have hany : (abs c).any (mustRefuse seq b e) = false := by
      rw [abs, any_refuse_abs seq b e c.cells c.rows hlen, ← removeCells_flag seq b e (rmOffset b e), hr]
    simp only [KV.remove, hany, Bool.false_eq_true, if_false, Option.some.injEq]
    simp only [hr, Bool.false_eq_true, if_false] at hok
    simp only [hcells] at hok ⊢
    by_cases hnew : rangeOf (hasSeq seq) (c.cells.map (rmCell seq b e (rmOffset b e))) = Range.new
    · -- nothing of `seq` is left: no row needs a shift
      simp only [hnew, if_true, abs]
      rw [zip_noShift, List.filterMap_map, List.filterMap_filterMap]
      apply filterMap_congr'
      intro x hx
      have hno := rangeOf_new _ _ (by rw [List.length_map]; exact hsz) hnew
      obtain ⟨k, hk, rfl⟩ := List.getElem_of_mem hx
      have hk' : k < c.cells.length := by
        have := hk; simp only [List.length_zip] at this; omega
      have hk2 : k < (c.cells.map (rmCell seq b e (rmOffset b e))).length := by
        rw [List.length_map]; exact hk'
      have hcell := hno k hk2
      simp only [List.getElem_map, hasSeq, decide_eq_false_iff_not] at hcell
      simp only [List.getElem_zip, Function.comp]
      generalize c.cells[k] = cell at hcell
      generalize c.rows[k]'(by rw [← hlen]; exact hk') = row
      obtain ⟨pos, seqs⟩ := cell
      by_cases h0 : seqs = []
      · subst h0; simp [entryOf, rmPair, rmCell]
      · by_cases h1 : seq ∈ seqs
        · by_cases h2 : b ≤ pos ∧ pos < e
          · simp [entryOf, rmPair, rmCell, rmEntry, h0, h1, h2, dropSeq]
          · by_cases h3 : pos ≥ e
            · simp [rmCell, h1, h2, h3] at hcell
            · simp [entryOf, rmPair, rmCell, rmEntry, h0, h1, h2, h3]
        · simp [entryOf, rmPair, rmCell, rmEntry, h0, h1]
    · simp only [hnew, if_false] at hok ⊢
      by_cases he : e = maxInt32
      · subst he
        simp only [if_true, abs]
        rw [zip_noShift, List.filterMap_map, List.filterMap_filterMap]
        apply filterMap_congr'
        intro x _
        simpa using (entryOf_rmPair_noshift_inf seq b x).symm
      · simp only [he, if_false] at hok ⊢
        cases hs : c.hasShift with
        | false => simp [hs] at hok
        | true =>
          simp only [Bool.not_true, Bool.false_eq_true, if_false, hl, if_true, abs]
          rw [zip_shiftRows, List.filterMap_map,
            List.filterMap_filterMap]
          apply filterMap_congr'
          intro x _
          simpa using (entryOf_rmPair_shift seq b e he x).symm

/-- what mask row `t` exposes: the entries (cell metadata + row data) at the exposed locations -/
def exposedEntries (c : Cache) (t : Tok) : List Entry := (exposed c t).filterMap (entryAt c)

/-- `t`'s sequence only lives inside the (padded) range the mask and the K/V views cover -/
def Covers (c : Cache) (t : Tok) : Prop :=
  c.curRange.max < c.cells.length ∧
  ∀ j (hj : j < c.cells.length), t.seq ∈ c.cells[j].seqs → c.curRange.min ≤ j ∧ j ≤ c.curRange.max

/-- **The mask is exact** for every token whose sequence is covered by the current range: the
    entries exposed by its mask row, with the data found at those locations, are exactly — same
    entries, same multiplicities, same order — the entries of the abstract state that are visible
    to (sequence, position): same sequence, position not later, inside the window. -/
theorem mask_exact_of_covers (c : Cache) (t : Tok) (hlen : c.cells.length = c.rows.length)
    (hcov : Covers c t) :
    exposedEntries c t = visible c.window (abs c) t.seq t.pos := by
  obtain ⟨hmax, hcov⟩ := hcov
  have hnone : ∀ j, j < c.cells.length → (j < c.curRange.min ∨ c.curRange.max < j) →
      (entryAt c j).filter (vis c.window t.seq t.pos) = none := by
    intro j hj hout
    rw [← maskBit_entryAt]
    have : maskBit c t j = false := by
      unfold maskBit
      simp only [List.getD_eq_getElem?_getD, List.getElem?_eq_getElem hj, Option.getD_some]
      by_cases hm : t.seq ∈ c.cells[j].seqs
      · have := hcov j hj hm; omega
      · simp [hm]
    simp [this]
  unfold exposedEntries visible exposed
  rw [abs_eq_range c hlen, filter_filterMap', filterMap_filter']
  simp only [maskBit_entryAt]
  by_cases hle : c.curRange.min ≤ c.curRange.max
  · rw [filterMap_range_restrict _ c.cells.length c.curRange.min (c.curRange.max + 1 - c.curRange.min) (by omega)]
    intro j hj hout
    exact hnone j hj (by omega)
  · have hz : c.curRange.max + 1 - c.curRange.min = 0 := by omega
    rw [hz]
    simp only [List.range'_zero, List.filterMap_nil]
    symm
    apply filterMap_all_none
    intro j hj
    simp only [List.mem_range] at hj
    exact hnone j hj (by omega)

/-! ### `SetCausal` / `CausalOptions.Except` -/

theorem visE_true (W : Option Int) (q : Nat) (p : Int) (e : Entry) : visE true W q p e = vis W q p e := by
  simp [visE, vis]

/-- what an excepted token sees: its causal history plus the entries of its sequence at later
    positions (the lower window bound still applies) -/
theorem visE_false (W : Option Int) (q : Nat) (p : Int) (e : Entry) :
    visE false W q p e = (vis W q p e || (decide (q ∈ e.seqs) && decide (e.pos > p) && inWindow W e.pos p)) := by
  by_cases h1 : q ∈ e.seqs <;> by_cases h2 : e.pos > p <;> cases h3 : inWindow W e.pos p <;> simp [visE, vis, h1, h2, h3]

def exposedEntriesAt (c : Cache) (i : Nat) (t : Tok) : List Entry := (exposedAt c i t).filterMap (entryAt c)

/-- **The mask is exact, with exceptions**: for a token at batch index `i` whose sequence is covered
    by the current range, the exposed entries are exactly the spec's `visibleE` with the causal test
    enabled iff `i` is not listed in `opts.Except`. -/
theorem mask_exact_flag_of_covers (en : Bool) (c : Cache) (t : Tok) (hlen : c.cells.length = c.rows.length)
    (hcov : Covers c t) :
    ((List.range' c.curRange.min (c.curRange.max + 1 - c.curRange.min)).filter (maskBitE en c t)).filterMap (entryAt c)
      = visibleE en c.window (abs c) t.seq t.pos := by
  obtain ⟨hmax, hcov⟩ := hcov
  have hnone : ∀ j, j < c.cells.length → (j < c.curRange.min ∨ c.curRange.max < j) →
      (entryAt c j).filter (visE en c.window t.seq t.pos) = none := by
    intro j hj hout
    rw [← maskBitE_entryAt]
    have : maskBitE en c t j = false := by
      unfold maskBitE
      simp only [List.getD_eq_getElem?_getD, List.getElem?_eq_getElem hj, Option.getD_some]
      by_cases hm : t.seq ∈ c.cells[j].seqs
      · have := hcov j hj hm; omega
      · simp [hm]
    simp [this]
  unfold visibleE
  rw [abs_eq_range c hlen, filter_filterMap', filterMap_filter']
  simp only [maskBitE_entryAt]
  by_cases hle : c.curRange.min ≤ c.curRange.max
  · rw [filterMap_range_restrict _ c.cells.length c.curRange.min (c.curRange.max + 1 - c.curRange.min) (by omega)]
    intro j hj hout
    exact hnone j hj (by omega)
  · have hz : c.curRange.max + 1 - c.curRange.min = 0 := by omega
    rw [hz]
    simp only [List.range'_zero, List.filterMap_nil]
    symm
    apply filterMap_all_none
    intro j hj
    simp only [List.mem_range] at hj
    exact hnone j hj (by omega)

theorem mask_exact_except_of_covers (c : Cache) (i : Nat) (t : Tok) (hlen : c.cells.length = c.rows.length)
    (hcov : Covers c t) :
    exposedEntriesAt c i t = visibleE (!c.except.contains i) c.window (abs c) t.seq t.pos :=
  mask_exact_flag_of_covers _ c t hlen hcov

theorem setCausal_except (c : Cache) (ex : List Nat) : (setCausal c ex).except = ex := by
  unfold setCausal; split
  · assumption
  · rfl

theorem setCausal_inv (c : Cache) (ex : List Nat) (h : Inv c) : Inv (setCausal c ex) := by
  unfold setCausal; split
  · exact h
  · exact ⟨h.len, h.cover, h.rmax, h.pad, h.size⟩

theorem setCausal_abs (c : Cache) (ex : List Nat) : abs (setCausal c ex) = abs c := by
  unfold setCausal; split <;> rfl

/-- rebuilding the mask (`buildMask` pads `curCellRange` again) keeps every sequence covered -/
theorem setCausal_covers (c : Cache) (ex : List Nat) (t : Tok) (h : Inv c) (hc : Covers c t) :
    Covers (setCausal c ex) t := by
  unfold setCausal; split
  · exact hc
  · obtain ⟨hmax, hcov⟩ := hc
    have hpad := h.pad
    have h1 := roundUp_le (c.curRange.max + 1) c.cachePad c.cells.length hpad.1 hpad.2 (by omega)
    have h2 := roundUp_ge (c.curRange.max + 1) c.cachePad hpad.1
    have h3 := roundDown_le c.curRange.min c.cachePad
    constructor
    · simp only [padRange]; omega
    · intro j hj hs
      have := hcov j hj hs
      simp only [padRange]; omega

/-! ### reserve passes (`StartForward(…, reserve = true)`) -/

/-- a reserve pass changes neither the entries nor their data nor the range metadata -/
theorem reserve_state (c : Cache) (b : List Tok) :
    (startReserve c b).cells = c.cells ∧ (startReserve c b).rows = c.rows ∧ (startReserve c b).ranges = c.ranges ∧
    abs (startReserve c b) = abs c ∧ (startReserve c b).except = [] := ⟨rfl, rfl, rfl, rfl, rfl⟩

theorem reserve_inv (c : Cache) (b : List Tok) (h : Inv c) : Inv (startReserve c b) :=
  ⟨h.len, h.cover, h.rmax, h.pad, h.size⟩

theorem reserve_range (c : Cache) (b : List Tok) (h : Inv c) (hn : 0 < c.cells.length) :
    (startReserve c b).curRange = ⟨0, c.cells.length - 1⟩ := by
  have hpad := h.pad
  have h1 := roundUp_le c.cells.length c.cachePad c.cells.length hpad.1 hpad.2 (Nat.le_refl _)
  have h2 := roundUp_ge c.cells.length c.cachePad hpad.1
  simp only [startReserve, padRange, roundDown]
  rw [show c.cells.length - 1 + 1 = c.cells.length by omega]
  congr 1
  · simp
  · omega

/-- the mask of a reserve pass covers every sequence -/
theorem reserve_covers (c : Cache) (b : List Tok) (h : Inv c) (hn : 0 < c.cells.length) (t : Tok) :
    Covers (startReserve c b) t := by
  unfold Covers
  rw [reserve_range c b h hn]
  exact ⟨by show c.cells.length - 1 < c.cells.length; omega, fun j hj _ => ⟨Nat.zero_le _, by
    have : j < c.cells.length := hj
    show j ≤ c.cells.length - 1; omega⟩⟩

/-- **The mask of a reserve pass is exact** for every query (not only the batch's own tokens): it exposes
    exactly the visible entries of the unchanged abstract state. -/
theorem reserve_mask_exact (c : Cache) (b : List Tok) (h : Inv c) (hn : 0 < c.cells.length) (t : Tok) :
    exposedEntries (startReserve c b) t = visible c.window (abs c) t.seq t.pos :=
  mask_exact_of_covers (startReserve c b) t h.len (reserve_covers c b h hn t)

theorem inv_defrag (c : Cache) (h : Inv c) : Inv (defrag c) :=
  defrag_inv c h (defragCore_moved _ _ _).1 (defragCore_moved _ _ _).2

theorem finishForward_covers (c : Cache) (loc : Nat) (b : List Tok) (h : Inv c)
    (hfit : loc + b.length ≤ c.cells.length) (hpos : 0 < c.cells.length) :
    Inv (finishForward c loc b) ∧ ∀ t ∈ b, Covers (finishForward c loc b) t := by
  have h0 : Inv { c with curLoc := loc, curRange := Range.new } := ⟨h.len, h.cover, h.rmax, h.pad, h.size⟩
  have hc0 : CurOK { c with curLoc := loc, curRange := Range.new } [] :=
    ⟨by intro t ht; simp at ht, Or.inr rfl⟩
  obtain ⟨hi, hsub⟩ := place_inv _ loc b [] h0 hc0 hfit
  have hcm := place_cmax _ loc b [] h0 hc0 hfit
  have hl := place_length { c with curLoc := loc, curRange := Range.new } loc b
  have hp := place_pad { c with curLoc := loc, curRange := Range.new } loc b
  simp only at hl hp hcm
  unfold finishForward
  simp only
  refine ⟨⟨hi.len, hi.cover, hi.rmax, hi.pad, hi.size⟩, ?_⟩
  intro t ht
  have hpad := hi.pad
  rw [hl, hp] at hpad
  constructor
  · simp only [padRange, hl, hp]
    have h1 := roundUp_le ((place { c with curLoc := loc, curRange := Range.new } loc b).curRange.max + 1)
      c.cachePad c.cells.length hpad.1 hpad.2 (by omega)
    have h2 := roundUp_ge ((place { c with curLoc := loc, curRange := Range.new } loc b).curRange.max + 1)
      c.cachePad hpad.1
    omega
  · intro j hj hs
    obtain ⟨r, hr, hmin, hmax⟩ := hi.cover j hj t.seq hs
    obtain ⟨r', hr', hmin', hmax'⟩ := hsub t (Or.inl ht)
    rw [hr] at hr'; cases hr'
    simp only [padRange, hp]
    have h1 := roundDown_le (place { c with curLoc := loc, curRange := Range.new } loc b).curRange.min c.cachePad
    have h2 := roundUp_ge ((place { c with curLoc := loc, curRange := Range.new } loc b).curRange.max + 1)
      c.cachePad hpad.1
    omega

theorem findStart_fits (cells : List Cell) (k s : Nat) (h : findStart cells k = some s) :
    s + k ≤ cells.length ∧ 0 < cells.length := by
  have := findStartFrom_fits k cells 0 0 0 s h rfl
  omega

/-- **Invariant preservation and coverage for StartForward** (all caches satisfying the invariant,
    all batches, with or without a window, with or without the defrag-and-retry path, pinned or
    repaired defrag): after a successful `StartForward` the invariant holds again and every batch
    token's sequence lies inside the range covered by the mask and the K/V views. -/
theorem startForward_covers (c : Cache) (b : List Tok) (h : Inv c) (hok : (startForward c b).2 = .ok) :
    Inv (startForward c b).1 ∧ ∀ t ∈ b, Covers (startForward c b).1 t := by
  have h1 : Inv (slide { c with curBatch := b, except := [] } b) := slide_inv _ b ⟨h.len, h.cover, h.rmax, h.pad, h.size⟩
  unfold startForward at hok ⊢
  simp only at hok ⊢
  cases hf : findStart (slide { c with curBatch := b, except := [] } b).cells b.length with
  | some loc =>
    simp only [hf]
    obtain ⟨hfit, hpos⟩ := findStart_fits _ _ _ hf
    exact finishForward_covers _ loc b h1 hfit hpos
  | none =>
    simp only [hf] at hok ⊢
    split at hok
    · cases hok
    · rename_i hne
      simp only [hne, Bool.false_eq_true, if_false] at ⊢
      cases hf2 : findStart (defrag (slide { c with curBatch := b, except := [] } b)).cells b.length with
      | some loc =>
        simp only [hf2]
        obtain ⟨hfit, hpos⟩ := findStart_fits _ _ _ hf2
        exact finishForward_covers _ loc b (inv_defrag _ h1) hfit hpos
      | none => simp [hf2] at hok

/-- `Put` keeps the invariant and the coverage (it only writes rows) -/
theorem putRows_length (rows : List Row) (idx : Nat) (ids : List Nat) : (putRows rows idx ids).length = rows.length := by
  induction ids generalizing rows idx with
  | nil => rfl
  | cons a as ih => simp [putRows, ih]

/-- **mask_exact** — the headline theorem.  For every cache state satisfying the invariant and every
    batch: if `StartForward` succeeds (then `Put` stores the batch's rows), then for every batch token
    the entries its mask row exposes, together with the row data found there, are exactly the entries
    of the abstract state visible to that token (same sequence, position ≤ its own, inside the
    window) — nothing from other sequences, later positions or removed ranges, and nothing of what the
    cache holds is missing. -/
theorem mask_exact (c : Cache) (b : List Tok) (ids : List Nat) (h : Inv c)
    (hok : (startForward c b).2 = .ok) :
    let c' := put (startForward c b).1 ids
    ∀ t ∈ b, exposedEntries c' t = visible c'.window (abs c') t.seq t.pos := by
  intro c' t ht
  obtain ⟨hi, hcov⟩ := startForward_covers c b h hok
  apply mask_exact_of_covers
  · show (startForward c b).1.cells.length = (putRows _ _ _).length
    rw [putRows_length]; exact hi.len
  · exact hcov t ht

/-- the initial cache satisfies the invariant (any configuration whose size is below `math.MaxInt`) -/
theorem inv_init (v : Variant) (w : Option Int) (maxSeq capacity maxBatch cachePad batchPad : Nat) (hs : Bool)
    (hsz : (Causal.init v w maxSeq capacity maxBatch cachePad batchPad hs).cells.length ≤ maxInt) :
    Inv (Causal.init v w maxSeq capacity maxBatch cachePad batchPad hs) := by
  refine ⟨?_, ?_, ?_, ?_, hsz⟩
  · simp [Causal.init]
  · intro j hj s hs
    simp only [Causal.init, List.getElem_replicate, Cell.empty] at hs
    simp at hs
  · intro s r hr; simp [Causal.init] at hr
  · unfold Causal.init
    simp only
    constructor
    · show 0 < (if cachePad = 0 then 1 else cachePad)
      split <;> omega
    · simp only [List.length_replicate, roundUp]
      exact Nat.mul_mod_left _ _

/-- `StartForward` keeps the invariant whatever its outcome (success, full, or the F23 panic state) -/
theorem startForward_inv (c : Cache) (b : List Tok) (h : Inv c) : Inv (startForward c b).1 := by
  cases hr : (startForward c b).2 with
  | ok => exact (startForward_covers c b h hr).1
  | full | panic =>
    have h1 : Inv (slide { c with curBatch := b, except := [] } b) := slide_inv _ b ⟨h.len, h.cover, h.rmax, h.pad, h.size⟩
    unfold startForward at hr ⊢
    simp only at hr ⊢
    cases hf : findStart (slide { c with curBatch := b, except := [] } b).cells b.length with
    | some loc => simp [hf] at hr
    | none =>
      simp only [hf] at hr ⊢
      split
      · exact h1
      · rename_i hne
        simp only [hne, Bool.false_eq_true, if_false] at hr
        cases hf2 : findStart (defrag (slide { c with curBatch := b, except := [] } b)).cells b.length with
        | some loc => simp [hf2] at hr
        | none => simpa using inv_defrag _ h1

theorem slide_except (c : Cache) (b : List Tok) : (slide c b).except = c.except := by
  unfold slide
  cases c.window with
  | none => rfl
  | some w =>
    simp only
    generalize batchSeqs b = seqs
    induction seqs generalizing c with
    | nil => rfl
    | cons seq rest ih =>
      simp only [List.foldl_cons]
      cases lowest b seq with
      | none => exact ih c
      | some low =>
        rw [ih]
        unfold slideSeq; cases c.ranges seq <;> rfl

/-- **The exception set is per forward pass**: whatever `SetCausal` left behind, `StartForward`
    (with any outcome) clears it. -/
theorem startForward_except (c : Cache) (b : List Tok) : (startForward c b).1.except = [] := by
  have hs : (slide { c with curBatch := b, except := [] } b).except = [] := slide_except _ b
  unfold startForward
  simp only
  cases findStart (slide { c with curBatch := b, except := [] } b).cells b.length with
  | some loc => simp [finishForward, place_except, hs]
  | none =>
    simp only
    split
    · exact hs
    · cases findStart (defrag (slide { c with curBatch := b, except := [] } b)).cells b.length with
      | some loc => simp [finishForward, place_except, defrag, hs]
      | none => simp [defrag, hs]

theorem visibleE_true (W : Option Int) (s : Spec) (q : Nat) (p : Int) : visibleE true W s q p = visible W s q p := by
  unfold visibleE visible
  have : visE true W q p = vis W q p := funext (visE_true W q p)
  rw [this]

/-- **mask_exact for a pass with `SetCausal`.**  After an accepted `StartForward`, `Put` and
    `SetCausal(ctx, {Except: ex})`: the token at batch index `i` is shown exactly the entries of its
    sequence inside the window's lower bound, restricted to positions ≤ its own unless `i ∈ ex`
    (then also the later positions of its sequence — `visE_false`). -/
theorem mask_exact_pass (c : Cache) (b : List Tok) (ids : List Nat) (ex : List Nat) (h : Inv c)
    (hok : (startForward c b).2 = .ok) :
    let c' := setCausal (put (startForward c b).1 ids) ex
    ∀ i t, b[i]? = some t →
      exposedEntriesAt c' i t = visibleE (!ex.contains i) c'.window (abs c') t.seq t.pos := by
  intro c' i t hit
  have ht : t ∈ b := List.mem_of_getElem? hit
  obtain ⟨hi, hcov⟩ := startForward_covers c b h hok
  have hip : Inv (put (startForward c b).1 ids) := put_inv _ _ hi
  have hcp : Covers (put (startForward c b).1 ids) t := hcov t ht
  have := mask_exact_except_of_covers c' i t (setCausal_inv _ ex hip).len (setCausal_covers _ ex t hip hcp)
  rw [this, setCausal_except]

/-- **A pass without `SetCausal` is plainly causal, whatever happened before**: the state `c` may
    carry any exception set from an earlier pass; after `StartForward` + `Put` every batch index is
    shown exactly its causal history (no leak of earlier options). -/
theorem mask_exact_plain_after_reset (c : Cache) (b : List Tok) (ids : List Nat) (h : Inv c)
    (hok : (startForward c b).2 = .ok) :
    let c' := put (startForward c b).1 ids
    ∀ i t, b[i]? = some t → exposedEntriesAt c' i t = visible c'.window (abs c') t.seq t.pos := by
  intro c' i t hit
  have ht : t ∈ b := List.mem_of_getElem? hit
  obtain ⟨hi, hcov⟩ := startForward_covers c b h hok
  have hip : Inv c' := put_inv _ _ hi
  have := mask_exact_except_of_covers c' i t hip.len (hcov t ht)
  rw [this]
  have he : c'.except = [] := startForward_except c b
  rw [he]
  exact visibleE_true _ _ _ _

/-! ### `Remove` of the tree under test (`removeV`): pinned, or repaired so that errors change nothing (F28) -/

theorem remove_fields (c : Cache) (seq : Nat) (b e : Int) :
    (Causal.remove c seq b e).1.v = c.v ∧ (Causal.remove c seq b e).1.window = c.window ∧
    (Causal.remove c seq b e).1.hasLayers = c.hasLayers ∧
    (c.hasLayers = false → (Causal.remove c seq b e).1.rows = c.rows) := by
  unfold Causal.remove
  simp only
  split
  · exact ⟨rfl, rfl, rfl, fun _ => rfl⟩
  · split
    · exact ⟨rfl, rfl, rfl, fun _ => rfl⟩
    · split
      · exact ⟨rfl, rfl, rfl, fun _ => rfl⟩
      · split
        · exact ⟨rfl, rfl, rfl, fun _ => rfl⟩
        · exact ⟨rfl, rfl, rfl, fun hl => by simp [hl]⟩

theorem removeGuard_not_ok (c : Cache) (seq : Nat) (b e : Int) (r : Rm) (h : removeGuard c seq b e = some r) :
    r ≠ .ok := by
  unfold removeGuard at h
  split at h
  · cases h; decide
  · split at h
    · cases h; decide
    · cases h

/-- the tree's `Remove` is the pinned one, or (repaired, refused) it leaves the cache untouched -/
theorem removeV_cases (c : Cache) (seq : Nat) (b e : Int) :
    removeV c seq b e = Causal.remove c seq b e ∨
    ((removeV c seq b e).1 = c ∧ (removeV c seq b e).2 ≠ .ok ∧ c.v.atomicRemove = true) := by
  unfold removeV
  split
  · rename_i hat
    cases hg : removeGuard c seq b e with
    | none => exact Or.inl rfl
    | some r => exact Or.inr ⟨rfl, removeGuard_not_ok c seq b e r hg, hat⟩
  · exact Or.inl rfl

theorem removeV_inv (c : Cache) (seq : Nat) (b e : Int) (h : Inv c) : Inv (removeV c seq b e).1 := by
  rcases removeV_cases c seq b e with h1 | ⟨h1, _, _⟩
  · rw [h1]; exact remove_inv c seq b e h
  · rw [h1]; exact h

theorem removeV_fields (c : Cache) (seq : Nat) (b e : Int) :
    (removeV c seq b e).1.v = c.v ∧ (removeV c seq b e).1.window = c.window ∧
    (removeV c seq b e).1.hasLayers = c.hasLayers ∧
    (c.hasLayers = false → (removeV c seq b e).1.rows = c.rows) := by
  rcases removeV_cases c seq b e with h1 | ⟨h1, _, _⟩
  · rw [h1]; exact remove_fields c seq b e
  · rw [h1]; exact ⟨rfl, rfl, rfl, fun _ => rfl⟩

/-- an accepted removal is the pinned `Remove` (the repair only changes what errors leave behind) -/
theorem removeV_ok_eq (c : Cache) (seq : Nat) (b e : Int) (hok : (removeV c seq b e).2 = .ok) :
    removeV c seq b e = Causal.remove c seq b e := by
  rcases removeV_cases c seq b e with h1 | ⟨_, h2, _⟩
  · exact h1
  · exact absurd hok h2

theorem rangeFrom_none (p : Nat → Cell → Bool) (i : Nat) (cells : List Cell) (r : Range)
    (h : ∀ k (hk : k < cells.length), p (i + k) cells[k] = false) : rangeFrom p i cells r = r := by
  induction cells generalizing i r with
  | nil => rfl
  | cons x xs ih =>
    have h0 := h 0 (by simp)
    simp only [List.getElem_cons_zero, Nat.add_zero] at h0
    rw [rangeFrom, h0]
    simp only [Bool.false_eq_true, if_false]
    apply ih
    intro k hk
    have := h (k + 1) (by simpa using hk)
    simp only [List.getElem_cons_succ] at this
    rw [show i + 1 + k = i + (k + 1) by omega]
    exact this

/-- when the repaired `Remove`'s checks pass, the removal is carried out without error -/
theorem remove_ok_of_guard_none (c : Cache) (seq : Nat) (b e : Int) (hg : removeGuard c seq b e = none) :
    (Causal.remove c seq b e).2 = .ok := by
  unfold removeGuard at hg
  split at hg
  · cases hg
  · rename_i h1
    split at hg
    · cases hg
    · rename_i h2
      have hflag : (removeCells seq b e (rmOffset b e) c.cells).2 = false := by
        rw [removeCells_flag]
        simpa [refuseCell] using h1
      unfold Causal.remove
      simp only [hflag, Bool.false_eq_true, if_false]
      split
      · rfl
      · rename_i hrg
        split
        · rfl
        · rename_i hne
          split
          · rename_i hns
            exfalso
            apply hrg
            -- nothing of `seq` remains
            have hrem : c.cells.any (fun x => decide (seq ∈ x.seqs) && !(decide (b ≤ x.pos ∧ x.pos < e))) = false := by
              cases hany : c.cells.any (fun x => decide (seq ∈ x.seqs) && !(decide (b ≤ x.pos ∧ x.pos < e))) with
              | false => rfl
              | true =>
                exfalso; apply h2
                simp only [hany, Bool.true_and, Bool.and_eq_true, decide_eq_true_eq]
                exact ⟨hne, hns⟩
            rw [removeCells_ok _ _ _ _ _ hflag]
            unfold rangeOf
            apply rangeFrom_none
            intro k hk
            simp only [List.length_map] at hk
            simp only [List.getElem_map, hasSeq, decide_eq_false_iff_not]
            have hx := (List.any_eq_false.mp hrem) c.cells[k] (List.getElem_mem hk)
            unfold rmCell
            by_cases hs : seq ∈ c.cells[k].seqs
            · by_cases hin : b ≤ c.cells[k].pos ∧ c.cells[k].pos < e
              · rw [if_pos hs, if_pos hin]
                exact mem_filter_ne
              · exfalso; apply hx; simp [hs, hin]
            · simp [hs]
          · rfl

/-- **The repaired `Remove` is atomic** (F28): whenever it reports an error, the cache — cells, ranges,
    rows, everything — is exactly as before, so the history every sequence is shown afterwards is the one
    before the refused call. -/
theorem removeV_error_unchanged (c : Cache) (seq : Nat) (b e : Int) (hat : c.v.atomicRemove = true)
    (herr : (removeV c seq b e).2 ≠ .ok) : (removeV c seq b e).1 = c := by
  unfold removeV at herr ⊢
  simp only [hat, if_true] at herr ⊢
  cases hg : removeGuard c seq b e with
  | some r => rfl
  | none =>
    simp only [hg] at herr
    exact absurd (remove_ok_of_guard_none c seq b e hg) herr

/-! ### pinned `Remove`: an error followed by the documented recovery is a clean clear -/

/-- clearing `seq` after the (possibly half-done) metadata loop of `Remove` gives, entry by entry, what
    clearing the untouched cells gives -/
theorem clear_after_removeCells (seq : Nat) (b e : Int) (hb : 0 ≤ b) (cells : List Cell) (rows : List Row)
    (hpos : ∀ x ∈ cells, seq ∈ x.seqs → 0 ≤ x.pos) :
    ((((removeCells seq b e (rmOffset b e) cells).1.map (rmInf seq 0)).zip rows).filterMap entryOf)
      = (((cells.map (rmInf seq 0)).zip rows).filterMap entryOf) := by
  induction cells generalizing rows with
  | nil => simp [removeCells]
  | cons c cs ih =>
    have hc := hpos c (by simp)
    have ih' := fun rows => ih rows (fun x hx => hpos x (by simp [hx]))
    cases rows with
    | nil => simp
    | cons r rs =>
      unfold removeCells
      by_cases hs : seq ∈ c.seqs
      · have hp := hc hs
        have horig : rmInf seq 0 c = dropSeq seq c := by simp [rmInf, hs, hp]
        simp only [hs, if_true]
        by_cases hin : b ≤ c.pos ∧ c.pos < e
        · simp only [hin, and_self, if_true, List.map_cons, List.zip_cons_cons, List.filterMap_cons]
          have : rmInf seq 0 (dropSeq seq c) = dropSeq seq c := by
            simp [rmInf, dropSeq]
          rw [this, horig, ih' rs]
        · simp only [hin, if_false]
          by_cases hge : c.pos ≥ e
          · simp only [hge, if_true]
            by_cases hsh : sharedOther seq c.seqs = true
            · simp [hsh]
            · simp only [hsh, Bool.false_eq_true, if_false, List.map_cons, List.zip_cons_cons, List.filterMap_cons]
              -- solely owned by `seq`: after the clear nobody owns it, whatever its position
              have hnone : (c.seqs.filter (· ≠ seq)) = [] := by
                rw [List.filter_eq_nil_iff]
                intro x hx
                simp only [sharedOther, Bool.not_eq_true] at hsh
                have := List.any_eq_false.mp hsh x hx
                simpa using this
              have hoff : 0 ≤ c.pos + rmOffset b e := by
                unfold rmOffset; split <;> omega
              have h1 : entryOf (rmInf seq 0 { c with pos := c.pos + rmOffset b e }, r) = none := by
                have : (rmInf seq 0 { c with pos := c.pos + rmOffset b e }).seqs = [] := by
                  simp only [rmInf, hs, hoff, and_self, if_true, dropSeq]; exact hnone
                unfold entryOf; simp only [this, if_true]
              have h2 : entryOf (rmInf seq 0 c, r) = none := by
                have : (dropSeq seq c).seqs = [] := hnone
                rw [horig]; unfold entryOf; simp only [this, if_true]
              rw [h1, h2, ih' rs]
          · simp only [hge, if_false, List.map_cons, List.zip_cons_cons, List.filterMap_cons]
            rw [ih' rs]
      · simp only [hs, if_false, List.map_cons, List.zip_cons_cons, List.filterMap_cons]
        rw [ih' rs]

theorem posBound_removeCells (seq : Nat) (b e : Int) (hbe : b ≤ e) (cells : List Cell) (h : PosBound cells) :
    PosBound (removeCells seq b e (rmOffset b e) cells).1 := by
  induction cells with
  | nil => simpa [removeCells] using h
  | cons c cs ih =>
    have hc : ∀ s ∈ c.seqs, c.pos < maxInt32 := h c (by simp)
    have hcs : PosBound cs := fun x hx => h x (by simp [hx])
    have ih' := ih hcs
    have hoff : rmOffset b e ≤ 0 := by unfold rmOffset; split <;> omega
    have cons_ok : ∀ (hd : Cell), (∀ s ∈ hd.seqs, hd.pos < maxInt32) →
        PosBound (hd :: (removeCells seq b e (rmOffset b e) cs).1) := by
      intro hd hhd x hx
      rcases List.mem_cons.mp hx with rfl | hx
      · exact hhd
      · exact ih' x hx
    unfold removeCells
    split
    · split
      · exact cons_ok (dropSeq seq c) (fun s hs => hc s (mem_dropSeq hs).1)
      · split
        · split
          · exact h
          · exact cons_ok { c with pos := c.pos + rmOffset b e } (fun s hs => by have := hc s hs; simp only; omega)
        · exact cons_ok c hc
    · exact cons_ok c hc

/-- **Pinned `Remove`, error path.**  Whatever a refused `Remove` (shared cells / no `shiftFn`) has already
    changed, the recovery the `Cache` interface prescribes — `Remove(seq, 0, MaxInt32)` — leaves exactly the
    abstract state that clearing the sequence *instead* would have left: the half-done removal is confined to
    the sequence that must be cleared; no other sequence's entry, position or data is affected.
    (positions of `seq` are ≥ 0 and < MaxInt32, `0 ≤ b ≤ e`) -/
theorem refused_remove_then_clear (c : Cache) (seq : Nat) (b e : Int) (hb : 0 ≤ b) (hbe : b ≤ e)
    (hpb : PosBound c.cells) (hpos : ∀ x ∈ c.cells, seq ∈ x.seqs → 0 ≤ x.pos)
    (herr : (Causal.remove c seq b e).2 ≠ .ok) :
    abs (Causal.remove (Causal.remove c seq b e).1 seq 0 maxInt32).1 = abs (Causal.remove c seq 0 maxInt32).1 := by
  have hstate : (Causal.remove c seq b e).1.cells = (removeCells seq b e (rmOffset b e) c.cells).1 ∧
      (Causal.remove c seq b e).1.rows = c.rows := by
    unfold Causal.remove at herr ⊢
    simp only at herr ⊢
    split
    · exact ⟨rfl, rfl⟩
    · rename_i hfl
      simp only [hfl, if_false] at herr
      split
      · rename_i hrg; simp [hrg] at herr
      · rename_i hrg
        simp only [hrg, if_false] at herr
        split
        · rename_i he; simp [he] at herr
        · rename_i he
          simp only [he, if_false] at herr
          split
          · exact ⟨rfl, rfl⟩
          · rename_i hsf; simp [hsf] at herr
  have hpb' : PosBound (Causal.remove c seq b e).1.cells := by
    rw [hstate.1]; exact posBound_removeCells seq b e hbe c.cells hpb
  obtain ⟨h1, h2, _⟩ := remove_inf (Causal.remove c seq b e).1 seq 0 hpb'
  obtain ⟨g1, g2, _⟩ := remove_inf c seq 0 hpb
  unfold abs
  rw [h1, h2, g1, g2, hstate.1, hstate.2]
  exact clear_after_removeCells seq b e hb c.cells c.rows hpos

/-! ### F29: `WrapperCache.Remove` refused by a later wrapped cache -/

theorem removeV_ok_of_guard_none (c : Cache) (seq : Nat) (b e : Int) (hg : removeGuard c seq b e = none) :
    (removeV c seq b e).2 = .ok := by
  unfold removeV
  split
  · rw [hg]; exact remove_ok_of_guard_none c seq b e hg
  · exact remove_ok_of_guard_none c seq b e hg

theorem wRemove_ok_of_guards_none (cs : List Cache) (seq : Nat) (b e : Int)
    (h : ∀ c ∈ cs, removeGuard c seq b e = none) : (wRemove cs seq b e).2 = .ok := by
  induction cs with
  | nil => rfl
  | cons c rest ih =>
    have hc := removeV_ok_of_guard_none c seq b e (h c (by simp))
    unfold wRemove
    cases hr : removeV c seq b e with
    | mk c1 r =>
      rw [hr] at hc
      simp only at hc
      subst hc
      simp only
      exact ih (fun x hx => h x (by simp [hx]))

/-- **The repaired `WrapperCache.Remove` is atomic** (F29): if it reports an error, no wrapped cache has changed. -/
theorem wRemoveV_error_unchanged (cs : List Cache) (seq : Nat) (b e : Int)
    (hat : ∀ c ∈ cs, c.v.atomicWrapperRemove = true) (herr : (wRemoveV cs seq b e).2 ≠ .ok) :
    (wRemoveV cs seq b e).1 = cs := by
  unfold wRemoveV at herr ⊢
  cases hf : cs.findSome? (fun c => if c.v.atomicWrapperRemove then removeGuard c seq b e else none) with
  | some r => rfl
  | none =>
    simp only [hf] at herr
    exfalso
    apply herr
    apply wRemove_ok_of_guards_none
    intro c hc
    have := List.findSome?_eq_none_iff.mp hf c hc
    simpa [hat c hc] using this

/-- one operation of a cache history -/
inductive HOp where
  | fwd (b : List Tok) (ids : List Nat)
  | cp (src dst : Nat) (len : Int)
  | rm (seq : Nat) (b e : Int)
  | sc (ex : List Nat)
  /-- a reserve pass (worst-case graph reservation) -/
  | rsv (b : List Tok)

def stepH (c : Cache) : HOp → Cache
  | .fwd b ids => if (startForward c b).2 = .ok then put (startForward c b).1 ids else (startForward c b).1
  | .cp src dst len => Causal.copyPrefix c src dst len
  | .rm seq b e => (removeV c seq b e).1
  | .sc ex => setCausal c ex
  | .rsv b => startReserve c b

/-- **The invariant holds along every history**: any interleaving of forward passes (accepted or
    rejected), prefix copies and removals (accepted, refused half-way, or unsupported). -/
theorem inv_run (c : Cache) (ops : List HOp) (h : Inv c) : Inv (ops.foldl stepH c) := by
  induction ops generalizing c with
  | nil => exact h
  | cons op rest ih =>
    apply ih
    cases op with
    | fwd b ids =>
      simp only [stepH]
      split
      · exact put_inv _ _ (startForward_inv c b h)
      · exact startForward_inv c b h
    | cp src dst len => exact copyPrefix_inv c src dst len h
    | rm seq b e => exact removeV_inv c seq b e h
    | sc ex => exact setCausal_inv c ex h
    | rsv b => exact reserve_inv c b h

/-- **mask_exact after every history**: start from any initial configuration, run any history, then
    any batch that `StartForward` accepts is exposed exactly its visible history. -/
theorem mask_exact_all_histories (v : Variant) (w : Option Int) (maxSeq capacity maxBatch cachePad batchPad : Nat)
    (hs : Bool) (ops : List HOp) (b : List Tok) (ids : List Nat)
    (hsz : (Causal.init v w maxSeq capacity maxBatch cachePad batchPad hs).cells.length ≤ maxInt) :
    let c := ops.foldl stepH (Causal.init v w maxSeq capacity maxBatch cachePad batchPad hs)
    (startForward c b).2 = .ok →
    ∀ t ∈ b, exposedEntries (put (startForward c b).1 ids) t
      = visible (put (startForward c b).1 ids).window (abs (put (startForward c b).1 ids)) t.seq t.pos := by
  intro c hok
  exact mask_exact c b ids (inv_run _ ops (inv_init v w maxSeq capacity maxBatch cachePad batchPad hs hsz)) hok

/-! ### storing a batch commutes with the abstraction -/

/-- the state placement starts from: after window eviction, and after defrag if that was needed -/
def placeBase (c : Cache) (b : List Tok) : Cache :=
  match findStart (slide { c with curBatch := b, except := [] } b).cells b.length with
  | some _ => slide { c with curBatch := b, except := [] } b
  | none => defrag (slide { c with curBatch := b, except := [] } b)



/-- **Store commutes with the abstraction.**  Placing a batch into the free block found by
    `findStartLoc` and `Put`ting its data adds exactly one fresh entry per token (owner = the token's
    sequence, its position, its data, shift 0) to the abstract state and changes nothing else: no live
    entry is overwritten, lost or altered. -/
theorem forward_abs_perm (c2 : Cache) (loc : Nat) (b : List Tok) (ids : List Nat)
    (hids : ids.length = b.length) (hlen : c2.cells.length = c2.rows.length)
    (hfit : loc + b.length ≤ c2.cells.length)
    (hholes : ∀ j, loc ≤ j → j < loc + b.length → (c2.cells.getD j Cell.empty).seqs = []) :
    (abs (put (finishForward c2 loc b) ids)).Perm (KV.store (abs c2) (b.zip ids)) := by
  have hp := place_cells { c2 with curLoc := loc, curRange := Range.new } loc b
  have hc : (put (finishForward c2 loc b) ids).cells = placeCells c2.cells loc b := by
    simp [put, finishForward, hp.1]
  have hr : (put (finishForward c2 loc b) ids).rows = putRows c2.rows loc ids := by
    simp [put, finishForward, hp.2.1, hp.2.2.2.2]
  have hn : (put (finishForward c2 loc b) ids).cells.length = c2.cells.length := by
    rw [hc, length_placeCells]
  have hlen' : (put (finishForward c2 loc b) ids).cells.length = (put (finishForward c2 loc b) ids).rows.length := by
    rw [hn, hr, putRows_length]; exact hlen
  have hfitr : loc + ids.length ≤ c2.rows.length := by rw [hids, ← hlen]; exact hfit
  -- pointwise description of the new state
  have hout : ∀ j, (j < loc ∨ loc + b.length ≤ j) → entryAt (put (finishForward c2 loc b) ids) j = entryAt c2 j := by
    intro j hj
    unfold entryAt
    rw [hc, hr, (getD_placeCells c2.cells loc b j hfit).1 hj, getD_putRows c2.rows loc ids j hfitr (by rw [hids]; exact hj)]
  have hin : ∀ k, k < b.length → entryAt (put (finishForward c2 loc b) ids) (loc + k)
      = some ⟨[(b.getD k default).seq], (b.getD k default).pos, ids.getD k 0, 0⟩ := by
    intro k hk
    unfold entryAt
    rw [hc, hr, getD_placeCells_block c2.cells loc b k hfit hk, getD_putRows_block c2.rows loc ids k hfitr (by rw [hids]; exact hk)]
    simp [entryOf]
  have hhole : ∀ j ∈ List.range' loc b.length, entryAt c2 j = none := by
    intro j hj
    simp only [List.mem_range'_1] at hj
    have hh := hholes j hj.1 hj.2
    unfold entryAt entryOf
    simp only [hh, if_true]
  rw [abs_eq_range _ hlen', abs_eq_range _ hlen, hn, range_split3 c2.cells.length loc b.length hfit]
  simp only [List.filterMap_append]
  rw [filterMap_block _ _ loc b.length hin, filterMap_all_none _ _ hhole]
  have hA : (List.range' 0 loc).filterMap (entryAt (put (finishForward c2 loc b) ids))
      = (List.range' 0 loc).filterMap (entryAt c2) :=
    filterMap_congr' (fun j hj => hout j (Or.inl (by simp only [List.mem_range'_1] at hj; omega)))
  have hC : (List.range' (loc + b.length) (c2.cells.length - (loc + b.length))).filterMap (entryAt (put (finishForward c2 loc b) ids))
      = (List.range' (loc + b.length) (c2.cells.length - (loc + b.length))).filterMap (entryAt c2) :=
    filterMap_congr' (fun j hj => hout j (Or.inr (by simp only [List.mem_range'_1] at hj; omega)))
  rw [hA, hC]
  have hnew : (List.range b.length).map (fun k => (⟨[(b.getD k default).seq], (b.getD k default).pos, ids.getD k 0, 0⟩ : Entry))
      = (b.zip ids).map (fun t => (⟨[t.1.seq], t.1.pos, t.2, 0⟩ : Entry)) := by
    apply List.ext_getElem
    · simp [hids]
    · intro i h1 h2
      simp only [List.length_map, List.length_range] at h1
      have hi2 : i < ids.length := by rw [hids]; exact h1
      simp [List.getD_eq_getElem?_getD, List.getElem?_eq_getElem h1, List.getElem?_eq_getElem hi2]
  rw [hnew]
  simp only [KV.store, List.nil_append]
  rw [List.append_assoc]
  exact List.Perm.append_left _ List.perm_append_comm

/-- **StartForward + Put commute with the abstraction**: whenever the batch is accepted, the abstract
    state afterwards is (a permutation of) the spec's `store` applied to the state placement started
    from (`placeBase`: after window eviction, and after defrag if it ran). -/
theorem startForward_put_abs_perm (c : Cache) (b : List Tok) (ids : List Nat) (h : Inv c)
    (hids : ids.length = b.length) (hok : (startForward c b).2 = .ok) :
    (abs (put (startForward c b).1 ids)).Perm (KV.store (abs (placeBase c b)) (b.zip ids)) := by
  have h1 : Inv (slide { c with curBatch := b, except := [] } b) := slide_inv _ b ⟨h.len, h.cover, h.rmax, h.pad, h.size⟩
  unfold startForward at hok ⊢
  unfold placeBase
  simp only at hok ⊢
  cases hf : findStart (slide { c with curBatch := b, except := [] } b).cells b.length with
  | some loc =>
    simp only [hf]
    exact forward_abs_perm _ loc b ids hids h1.len (findStart_fits _ _ _ hf).1 (findStart_holes _ _ _ hf)
  | none =>
    simp only [hf] at hok ⊢
    split at hok
    · cases hok
    · rename_i hne
      simp only [hne, Bool.false_eq_true, if_false]
      cases hf2 : findStart (defrag (slide { c with curBatch := b, except := [] } b)).cells b.length with
      | none => simp [hf2] at hok
      | some loc =>
        simp only [hf2]
        exact forward_abs_perm _ loc b ids hids (inv_defrag _ h1).len (findStart_fits _ _ _ hf2).1
          (findStart_holes _ _ _ hf2)

/-! ### sliding-window eviction commutes with the abstraction and is invisible to the batch -/

theorem entryAt_slideSeq (c : Cache) (w : Int) (seq : Nat) (low : Int) (h : Inv c) (j : Nat) (hj : j < c.cells.length) :
    entryAt (slideSeq c w seq low) j = (entryAt c j).bind (evictEntry seq (low - w)) := by
  have hcell : c.cells.getD j Cell.empty = c.cells[j] := by
    simp [List.getD_eq_getElem?_getD, List.getElem?_eq_getElem hj]
  unfold slideSeq
  cases hr : c.ranges seq with
  | none =>
    simp only
    have hno : seq ∉ c.cells[j].seqs := by
      intro hs
      obtain ⟨r, hr', _⟩ := h.cover j hj seq hs
      rw [hr] at hr'; cases hr'
    unfold entryAt entryOf
    rw [hcell]
    by_cases h0 : c.cells[j].seqs = []
    · simp [h0]
    · simp [h0, evictEntry, hno]
  | some old =>
    simp only
    have hc' : (mapFrom (evictCell seq (low - w) old) 0 c.cells).getD j Cell.empty
        = evictCell seq (low - w) old j c.cells[j] := by
      have hl : j < (mapFrom (evictCell seq (low - w) old) 0 c.cells).length := by rw [length_mapFrom]; exact hj
      rw [List.getD_eq_getElem?_getD, List.getElem?_eq_getElem hl, Option.getD_some, getElem_mapFrom _ _ _ j hj]
      simp
    unfold entryAt
    rw [hc', hcell]
    generalize hx : c.cells[j] = x at *
    obtain ⟨pos, seqs⟩ := x
    unfold evictCell entryOf
    by_cases hs : seq ∈ seqs
    · obtain ⟨r, hr', hmin, hmax⟩ := h.cover j hj seq (by rw [hx]; exact hs)
      rw [hr] at hr'; cases hr'
      have h0 : seqs ≠ [] := by intro he; rw [he] at hs; simp at hs
      by_cases hlt : pos < low - w
      · by_cases hd : seqs.filter (· ≠ seq) = []
        · simp [hs, hmin, hmax, hlt, h0, evictEntry, dropSeq, hd]
        · simp [hs, hmin, hmax, hlt, h0, evictEntry, dropSeq, hd]
      · simp [hs, hlt, h0, evictEntry]
    · by_cases h0 : seqs = []
      · simp [hs, h0]
      · simp [hs, h0, evictEntry]

/-- **Window eviction commutes with the abstraction** (one sequence): `updateSlidingWindow` for `seq`
    is the spec's `evict` of everything of `seq` below `lowest − window`. -/
theorem slideSeq_abs (c : Cache) (w : Int) (seq : Nat) (low : Int) (h : Inv c) :
    abs (slideSeq c w seq low) = evict (abs c) seq (low - w) := by
  have hi := slideSeq_inv c w seq low h
  have hn : (slideSeq c w seq low).cells.length = c.cells.length := by
    unfold slideSeq; cases c.ranges seq <;> simp [length_mapFrom]
  rw [abs_eq_range _ hi.len, abs_eq_range _ h.len, hn, evict, List.filterMap_filterMap]
  apply filterMap_congr'
  intro j hj
  simp only [List.mem_range] at hj
  exact entryAt_slideSeq c w seq low h j hj

/-- the spec's version of `updateSlidingWindow` for a whole batch -/
def specSlide (s : Spec) (w : Int) (b : List Tok) : Spec :=
  (batchSeqs b).foldl (fun s seq => match lowest b seq with
    | some low => evict s seq (low - w)
    | none => s) s

theorem slide_abs (c : Cache) (b : List Tok) (h : Inv c) :
    abs (slide c b) = match c.window with
      | none => abs c
      | some w => specSlide (abs c) w b := by
  unfold slide
  cases hw : c.window with
  | none => rfl
  | some w =>
    simp only [specSlide]
    generalize batchSeqs b = seqs
    induction seqs generalizing c with
    | nil => rfl
    | cons seq rest ih =>
      simp only [List.foldl_cons]
      cases hl : lowest b seq with
      | none => exact ih c h hw
      | some low =>
        simp only
        rw [← slideSeq_abs c w seq low h]
        apply ih _ (slideSeq_inv c w seq low h)
        unfold slideSeq; cases c.ranges seq <;> simp [hw]

/-- what attention consumes of an entry: position, data identity, applied shift -/
def key (e : Entry) : Int × Nat × Int := (e.pos, e.id, e.shift)

/-- **Eviction is invisible** to every query whose window starts at or after the eviction threshold
    (other sequences are never affected). -/
theorem evict_invisible (s : Spec) (seq : Nat) (thr w : Int) (q : Nat) (p : Int)
    (hq : q = seq → thr ≤ p - w) :
    (visible (some w) (evict s seq thr) q p).map key = (visible (some w) s q p).map key := by
  induction s with
  | nil => rfl
  | cons e rest ih =>
    simp only [evict, visible, List.filterMap_cons] at ih ⊢
    by_cases hc : seq ∈ e.seqs ∧ e.pos < thr
    · have hvis_q : q = seq → vis (some w) q p e = false := by
        intro hqs
        have := hq hqs
        have : e.pos < p - w := by omega
        simp [vis, inWindow, this]
      by_cases hd : e.seqs.filter (· ≠ seq) = []
      · -- the entry disappears: it was owned by `seq` only
        have he : evictEntry seq thr e = none := by
          unfold evictEntry; rw [if_pos hc]; exact if_pos hd
        have hv : vis (some w) q p e = false := by
          by_cases hqs : q = seq
          · exact hvis_q hqs
          · have : q ∉ e.seqs := by
              intro hm
              have : q ∈ e.seqs.filter (· ≠ seq) := by simp [hm, hqs]
              rw [hd] at this; simp at this
            simp [vis, this]
        rw [he, List.filter_cons_of_neg (by simp [hv])]
        exact ih
      · have he : evictEntry seq thr e = some { e with seqs := e.seqs.filter (· ≠ seq) } := by
          unfold evictEntry; rw [if_pos hc]; exact if_neg hd
        rw [he]
        simp only
        by_cases hqs : q = seq
        · have hv := hvis_q hqs
          have hv' : vis (some w) q p { e with seqs := e.seqs.filter (· ≠ seq) } = false := by
            subst hqs; simp [vis]
          rw [List.filter_cons_of_neg (by rw [hv']; simp), List.filter_cons_of_neg (by simp [hv])]
          exact ih
        · have hv' : vis (some w) q p { e with seqs := e.seqs.filter (· ≠ seq) } = vis (some w) q p e := by
            simp [vis, hqs]
          by_cases hv : vis (some w) q p e = true
          · rw [List.filter_cons_of_pos (by rw [hv']; exact hv), List.filter_cons_of_pos hv]
            simp only [List.map_cons, ih, key]
          · rw [List.filter_cons_of_neg (by rw [hv']; exact hv), List.filter_cons_of_neg hv]
            exact ih
    · have he : evictEntry seq thr e = some e := by simp [evictEntry, hc]
      rw [he]
      simp only
      by_cases hv : vis (some w) q p e = true
      · rw [List.filter_cons_of_pos hv, List.filter_cons_of_pos hv]
        simp only [List.map_cons, ih]
      · rw [List.filter_cons_of_neg hv, List.filter_cons_of_neg hv]
        exact ih

theorem lowest_fold_le (seq : Nat) (b : List Tok) (acc : Option Int) :
    let f := fun (acc : Option Int) (t : Tok) => if t.seq = seq then
      (match acc with | none => some t.pos | some p => some (if t.pos < p then t.pos else p)) else acc
    (∀ a, acc = some a → ∃ r, b.foldl f acc = some r ∧ r ≤ a) ∧
    (∀ t ∈ b, t.seq = seq → ∃ r, b.foldl f acc = some r ∧ r ≤ t.pos) := by
  intro f
  induction b generalizing acc with
  | nil => exact ⟨fun a ha => ⟨a, ha, Int.le_refl a⟩, fun t ht => by simp at ht⟩
  | cons u us ih =>
    simp only [List.foldl_cons]
    constructor
    · intro a ha
      subst ha
      by_cases hu : u.seq = seq
      · obtain ⟨r, hr, hle⟩ := (ih (f (some a) u)).1 (if u.pos < a then u.pos else a) (by simp [f, hu])
        exact ⟨r, hr, by split at hle <;> omega⟩
      · exact (ih (f (some a) u)).1 a (by simp [f, hu])
    · intro t ht hts
      rcases List.mem_cons.mp ht with rfl | ht'
      · cases acc with
        | none =>
          obtain ⟨r, hr, hle⟩ := (ih (f none t)).1 t.pos (by simp [f, hts])
          exact ⟨r, hr, hle⟩
        | some a =>
          obtain ⟨r, hr, hle⟩ := (ih (f (some a) t)).1 (if t.pos < a then t.pos else a) (by simp [f, hts])
          exact ⟨r, hr, by split at hle <;> omega⟩
      · exact (ih (f acc u)).2 t ht' hts

theorem lowest_le (b : List Tok) (seq : Nat) (low : Int) (h : lowest b seq = some low) :
    ∀ t ∈ b, t.seq = seq → low ≤ t.pos := by
  intro t ht hts
  obtain ⟨r, hr, hle⟩ := (lowest_fold_le seq b none).2 t ht hts
  have e : lowest b seq = some r := hr
  rw [h] at e
  cases e
  exact hle

/-- the whole `updateSlidingWindow` of a batch is invisible to every token of that batch -/
theorem specSlide_invisible (s : Spec) (w : Int) (b : List Tok) (t : Tok) (ht : t ∈ b) :
    (visible (some w) (specSlide s w b) t.seq t.pos).map key = (visible (some w) s t.seq t.pos).map key := by
  unfold specSlide
  generalize batchSeqs b = seqs
  induction seqs generalizing s with
  | nil => rfl
  | cons seq rest ih =>
    simp only [List.foldl_cons]
    cases hl : lowest b seq with
    | none => exact ih s
    | some low =>
      simp only
      rw [ih (evict s seq (low - w))]
      apply evict_invisible
      intro hq
      have := lowest_le b seq low hl t ht hq
      omega

theorem slide_window (c : Cache) (b : List Tok) : (slide c b).window = c.window := by
  unfold slide
  cases hw : c.window with
  | none => exact hw
  | some w =>
    simp only
    generalize batchSeqs b = seqs
    induction seqs generalizing c with
    | nil => exact hw
    | cons seq rest ih =>
      simp only [List.foldl_cons]
      cases lowest b seq with
      | none => exact ih c hw
      | some low =>
        apply ih
        unfold slideSeq; cases c.ranges seq <;> simp [hw]

/-- **End-to-end, one forward pass (placement without defrag).**  For every cache satisfying the
    invariant and every accepted batch that fits without defragmentation: what each batch token is
    shown (position, data identity, shift — as a multiset) is exactly what the location-free spec says
    about the state *before* the pass with the batch stored on top: the entries of the token's sequence
    at positions ≤ its own, inside the window.  The window eviction the pass performed is invisible. -/
theorem forward_exposes_stored_history (c : Cache) (b : List Tok) (ids : List Nat) (h : Inv c)
    (hids : ids.length = b.length) (loc : Nat)
    (hfit : findStart (slide { c with curBatch := b, except := [] } b).cells b.length = some loc)
    (t : Tok) (ht : t ∈ b) :
    ((exposedEntries (put (startForward c b).1 ids) t).map key).Perm
      ((visible c.window (KV.store (abs c) (b.zip ids)) t.seq t.pos).map key) := by
  have hok : (startForward c b).2 = .ok := by unfold startForward; simp [hfit]
  have hbase : placeBase c b = slide { c with curBatch := b, except := [] } b := by unfold placeBase; simp [hfit]
  have hw : (put (startForward c b).1 ids).window = c.window := by
    unfold startForward
    simp only [hfit, put, finishForward]
    rw [(place_window _ _ _), ]
    exact slide_window { c with curBatch := b, except := [] } b
  rw [mask_exact c b ids h hok t ht, hw]
  have hperm := startForward_put_abs_perm c b ids h hids hok
  rw [hbase] at hperm
  have h1 := (hperm.filter (vis c.window t.seq t.pos)).map key
  refine h1.trans ?_
  have hs : abs (slide { c with curBatch := b, except := [] } b) = match c.window with
      | none => abs c
      | some w => specSlide (abs c) w b :=
    slide_abs { c with curBatch := b, except := [] } b ⟨h.len, h.cover, h.rmax, h.pad, h.size⟩
  simp only [visible, KV.store, List.filter_append, List.map_append]
  apply List.Perm.append_right
  rw [hs]
  cases c.window with
  | none => exact List.Perm.refl _
  | some w =>
    simp only
    have := specSlide_invisible (abs c) w b t ht
    simp only [visible] at this
    rw [this]

/-! ### WrapperCache: a rejected batch is unwound -/

/-- the batch continues its sequences: no owned cell of a batch token's sequence at or after it -/
def NoLater (cells : List Cell) (b : List Tok) : Prop :=
  ∀ x ∈ cells, ∀ t ∈ b, t.seq ∈ x.seqs → x.pos < t.pos

/-- **Unwinding an accepted batch restores the abstract state**: placing a batch into a free block
    and then running the wrapper's unwind (`Remove(seq_k, pos_k, MaxInt32)` for every token, with no
    `Put` in between) gives back exactly the abstraction the placement started from. -/
theorem unwind_finishForward_abs (c2 : Cache) (loc : Nat) (b : List Tok)
    (hlen : c2.cells.length = c2.rows.length) (hfit : loc + b.length ≤ c2.cells.length)
    (hholes : ∀ j, loc ≤ j → j < loc + b.length → (c2.cells.getD j Cell.empty).seqs = [])
    (hpb : PosBound c2.cells) (hbp : ∀ t ∈ b, t.pos < maxInt32) (hnl : NoLater c2.cells b) :
    abs (unwind (finishForward c2 loc b) b) = abs c2 := by
  have hp := place_cells { c2 with curLoc := loc, curRange := Range.new } loc b
  have hcF : (finishForward c2 loc b).cells = placeCells c2.cells loc b := by
    simp [finishForward, hp.1]
  have hrF : (finishForward c2 loc b).rows = c2.rows := by
    simp [finishForward, hp.2.1]
  have hpbF : PosBound (finishForward c2 loc b).cells := by
    rw [hcF]
    intro x hx s hs
    rcases mem_placeCells _ _ _ _ hx with h1 | ⟨t, ht, rfl⟩
    · exact hpb x h1 s hs
    · exact hbp t ht
  obtain ⟨hc, hr⟩ := unwind_cells (finishForward c2 loc b) b hpbF
  have hlen' : (unwind (finishForward c2 loc b) b).cells.length = (unwind (finishForward c2 loc b) b).rows.length := by
    rw [hc, hr, hrF, List.length_map, hcF, length_placeCells]; exact hlen
  rw [abs_eq_range _ hlen', abs_eq_range _ hlen]
  have hn : (unwind (finishForward c2 loc b) b).cells.length = c2.cells.length := by
    rw [hc, List.length_map, hcF, length_placeCells]
  rw [hn]
  apply filterMap_congr'
  intro j hj
  simp only [List.mem_range] at hj
  unfold entryAt
  rw [hc, hr, hrF, hcF]
  have hjl : j < (placeCells c2.cells loc b).length := by rw [length_placeCells]; exact hj
  rw [getD_map_lt (unwCell b) _ j hjl Cell.empty Cell.empty]
  obtain ⟨hout, hin⟩ := getD_placeCells c2.cells loc b j hfit
  by_cases hblock : loc ≤ j ∧ j < loc + b.length
  · obtain ⟨t, ht, he⟩ := hin hblock.1 hblock.2
    rw [he]
    have hempty : (unwCell b ⟨t.pos, [t.seq]⟩).seqs = [] := by
      have hsub := unwCell_sub b ⟨t.pos, [t.seq]⟩
      have hdrop := unwCell_drops b ⟨t.pos, [t.seq]⟩ t ht (by simp)
      cases hseqs : (unwCell b ⟨t.pos, [t.seq]⟩).seqs with
      | nil => rfl
      | cons a as =>
        have ha := hsub a (by rw [hseqs]; simp)
        simp only [List.mem_singleton] at ha
        subst ha
        exact absurd (by rw [hseqs]; simp) hdrop
    have hh := hholes j hblock.1 hblock.2
    simp only [entryOf, hempty, hh, if_true]
  · rw [hout (by omega)]
    rw [unwCell_id b _ (fun t ht hs => hnl _ (getD_mem _ j hj _) t ht hs)]

/-- a successful `StartForward` followed by the wrapper's unwind leaves the abstraction of the state
    placement started from (pre-batch state after window eviction / defrag) -/
theorem startForward_unwind_abs (c : Cache) (b : List Tok) (h : Inv c)
    (hok : (startForward c b).2 = .ok)
    (hpb : PosBound (placeBase c b).cells) (hbp : ∀ t ∈ b, t.pos < maxInt32)
    (hnl : NoLater (placeBase c b).cells b) :
    abs (unwind (startForward c b).1 b) = abs (placeBase c b) := by
  have h1 : Inv (slide { c with curBatch := b, except := [] } b) := slide_inv _ b ⟨h.len, h.cover, h.rmax, h.pad, h.size⟩
  unfold startForward at hok ⊢
  unfold placeBase at hpb hnl ⊢
  simp only at hok ⊢
  cases hf : findStart (slide { c with curBatch := b, except := [] } b).cells b.length with
  | some loc =>
    simp only [hf] at hpb hnl ⊢
    exact unwind_finishForward_abs _ loc b h1.len (findStart_fits _ _ _ hf).1 (findStart_holes _ _ _ hf) hpb hbp hnl
  | none =>
    simp only [hf] at hok hpb hnl ⊢
    split at hok
    · cases hok
    · rename_i hne
      simp only [hne, Bool.false_eq_true, if_false]
      cases hf2 : findStart (defrag (slide { c with curBatch := b, except := [] } b)).cells b.length with
      | none => simp [hf2] at hok
      | some loc =>
        simp only [hf2]
        exact unwind_finishForward_abs _ loc b (inv_defrag _ h1).len (findStart_fits _ _ _ hf2).1
          (findStart_holes _ _ _ hf2) hpb hbp hnl

/-- shape of a successful `WrapperCache.StartForward`: every wrapped cache ran its own, successfully -/
theorem wStart_ok (cs : List Cache) (b : List Tok) (cs' : List Cache) (h : wStart cs b = (cs', .ok)) :
    cs' = cs.map (fun c => (startForward c b).1) ∧ ∀ c ∈ cs, (startForward c b).2 = .ok := by
  induction cs generalizing cs' with
  | nil => simp [wStart] at h; simp [h]
  | cons c rest ih =>
    unfold wStart at h
    cases hs : startForward c b with
    | mk c1 r =>
      cases r with
      | ok =>
        simp only [hs] at h
        cases hw : wStart rest b with
        | mk rs' r2 =>
          cases r2 with
          | ok =>
            simp only [hw, Prod.mk.injEq, and_true] at h
            obtain ⟨e1, e2⟩ := ih rs' hw
            subst h
            simp [hs, e1]
            exact e2
          | full => simp [hw] at h
          | panic => simp [hw] at h
      | full => simp [hs] at h
      | panic => simp [hs] at h

/-- shape of a rejected `WrapperCache.StartForward`: the caches before the rejecting one accepted and
    were unwound, the rejecting one keeps its own failed state, the later ones are untouched -/
theorem wStart_full (cs : List Cache) (b : List Tok) (cs' : List Cache) (h : wStart cs b = (cs', .full)) :
    ∃ pre c post, cs = pre ++ c :: post ∧ (∀ x ∈ pre, (startForward x b).2 = .ok) ∧
      (startForward c b).2 = .full ∧
      cs' = pre.map (fun x => unwind (startForward x b).1 b) ++ (startForward c b).1 :: post := by
  induction cs generalizing cs' with
  | nil => simp [wStart] at h
  | cons c rest ih =>
    unfold wStart at h
    cases hs : startForward c b with
    | mk c1 r =>
      cases r with
      | ok =>
        simp only [hs] at h
        cases hw : wStart rest b with
        | mk rs' r2 =>
          cases r2 with
          | ok => simp [hw] at h
          | panic => simp [hw] at h
          | full =>
            simp only [hw, Prod.mk.injEq, and_true] at h
            obtain ⟨pre, c0, post, e1, e2, e3, e4⟩ := ih rs' hw
            refine ⟨c :: pre, c0, post, by simp [e1], ?_, e3, ?_⟩
            · intro x hx
              rcases List.mem_cons.mp hx with rfl | hx'
              · simp [hs]
              · exact e2 x hx'
            · subst h; simp [hs, e4]
      | full =>
        simp only [hs, Prod.mk.injEq, and_true] at h
        exact ⟨[], c, rest, by simp, by simp, by simp [hs], by simp [hs, h]⟩
      | panic => simp [hs] at h

/-- **A rejected wrapped batch leaves every cache at its pre-batch history.**  If
    `WrapperCache.StartForward` reports a full cache, then (for batches that continue their sequences,
    positions below `MaxInt32`) every wrapped cache that had accepted the batch has, after the
    unwind, exactly the abstraction of the state its placement started from; the rejecting cache is in
    that state itself and the later caches are untouched.  Nothing of the rejected batch survives. -/
theorem wrapper_rejected_batch_leaves_history (cs : List Cache) (b : List Tok) (cs' : List Cache)
    (hinv : ∀ c ∈ cs, Inv c) (hbp : ∀ t ∈ b, t.pos < maxInt32)
    (hgood : ∀ c ∈ cs, PosBound (placeBase c b).cells ∧ NoLater (placeBase c b).cells b)
    (h : wStart cs b = (cs', .full)) :
    ∃ pre c post, cs = pre ++ c :: post ∧
      cs'.map abs = pre.map (fun x => abs (placeBase x b)) ++ abs (placeBase c b) :: post.map abs := by
  obtain ⟨pre, c, post, e1, e2, e3, e4⟩ := wStart_full cs b cs' h
  refine ⟨pre, c, post, e1, ?_⟩
  subst e4
  simp only [List.map_append, List.map_map, List.map_cons]
  congr 1
  · apply List.map_congr_left
    intro x hx
    have hx' : x ∈ cs := by rw [e1]; simp [hx]
    exact startForward_unwind_abs x b (hinv x hx') (e2 x hx) (hgood x hx').1 hbp (hgood x hx').2
  · congr 1
    -- the rejecting cache: its failed StartForward leaves exactly `placeBase`
    unfold startForward at e3 ⊢
    unfold placeBase
    simp only at e3 ⊢
    cases hf : findStart (slide { c with curBatch := b, except := [] } b).cells b.length with
    | some loc => simp [hf] at e3
    | none =>
      simp only [hf] at e3 ⊢
      split at e3
      · cases e3
      · rename_i hne
        simp only [hne, Bool.false_eq_true, if_false]
        cases hf2 : findStart (defrag (slide { c with curBatch := b, except := [] } b)).cells b.length with
        | some loc => simp [hf2] at e3
        | none => rfl

/-- **mask_exact for every wrapped cache** after a successful `WrapperCache.StartForward` + `Put` -/
theorem wrapper_mask_exact (cs : List Cache) (b : List Tok) (ids : List Nat) (cs' : List Cache)
    (hinv : ∀ c ∈ cs, Inv c) (h : wStart cs b = (cs', .ok)) :
    ∀ c' ∈ wPut cs' ids, ∀ t ∈ b, exposedEntries c' t = visible c'.window (abs c') t.seq t.pos := by
  obtain ⟨e1, e2⟩ := wStart_ok cs b cs' h
  intro c' hc' t ht
  subst e1
  simp only [wPut, List.map_map, List.mem_map, Function.comp] at hc'
  obtain ⟨c, hc, rfl⟩ := hc'
  exact mask_exact c b ids (hinv c hc) (e2 c hc) t ht

/-! ### EncoderCache -/

/-- specification state of the encoder cache: the position of the encoder output that was stored by a
    real (non-reserve) pass and has not been removed since -/
structure EncSpec where
  curPos : Int := 0
  reserve : Bool := false
  stored : Option Int := none

def encSpecStep (g : EncSpec) : EOp → EncSpec
  | .start p r => { g with curPos := p.getD g.curPos, reserve := r }
  | .put _ _ => if g.reserve then g else { g with stored := some g.curPos }
  | .remove b e =>
    match g.stored with
    | some p => if b ≤ p ∧ p < e then { g with stored := none } else g
    | none => g

def EncRel (s : Enc) (g : EncSpec) : Prop :=
  s.curPos = g.curPos ∧ s.curReserve = g.reserve ∧ s.cached = g.stored.isSome ∧ ∀ p, g.stored = some p → s.encPos = p

theorem encRel_step (s : Enc) (g : EncSpec) (op : EOp) (h : EncRel s g) : EncRel (encStep s op) (encSpecStep g op) := by
  obtain ⟨h1, h2, h3, h4⟩ := h
  cases op with
  | start p r => exact ⟨by simp [encStep, encSpecStep, h1], by simp [encStep, encSpecStep], h3, h4⟩
  | put l id =>
    cases hr : g.reserve with
    | true =>
      have hsr : s.curReserve = true := by rw [h2, hr]
      refine ⟨?_, ?_, ?_, ?_⟩
      · simp [encStep, encSpecStep, hsr, hr, Enc.setLayer, h1]
      · simp [encStep, encSpecStep, hsr, hr, Enc.setLayer]
      · simp [encStep, encSpecStep, hsr, hr, Enc.setLayer, h3]
      · intro p hp
        simp only [encSpecStep, hr, if_true] at hp
        simpa [encStep, hsr, Enc.setLayer] using h4 p hp
    | false =>
      have hsr : s.curReserve = false := by rw [h2, hr]
      refine ⟨?_, ?_, ?_, ?_⟩
      · simp [encStep, encSpecStep, hsr, hr, Enc.setLayer, h1]
      · simp [encStep, encSpecStep, hsr, hr, Enc.setLayer]
      · simp [encStep, encSpecStep, hsr, hr, Enc.setLayer]
      · intro p hp
        simp only [encSpecStep, hr, Bool.false_eq_true, if_false, Option.some.injEq] at hp
        simp [encStep, hsr, Enc.setLayer, h1, hp]
  | remove b e =>
    cases hs : g.stored with
    | none =>
      have hc : s.cached = false := by simpa [hs] using h3
      refine ⟨?_, ?_, ?_, ?_⟩
      · simp only [encStep]; split <;> simp [encSpecStep, hs, h1]
      · simp only [encStep]; split <;> simp [encSpecStep, hs, h2]
      · simp only [encStep]; split <;> simp [encSpecStep, hs, hc]
      · intro p hp; simp [encSpecStep, hs] at hp
    | some p =>
      have hp := h4 p hs
      have hc : s.cached = true := by simpa [hs] using h3
      by_cases hcov : b ≤ p ∧ p < e
      · refine ⟨?_, ?_, ?_, ?_⟩
        · simp [encStep, encSpecStep, hs, hp, hcov, h1]
        · simp [encStep, encSpecStep, hs, hp, hcov, h2]
        · simp [encStep, encSpecStep, hs, hp, hcov]
        · intro q hq; simp [encSpecStep, hs, hcov] at hq
      · refine ⟨?_, ?_, ?_, ?_⟩
        · simp [encStep, encSpecStep, hs, hp, hcov, h1]
        · simp [encStep, encSpecStep, hs, hp, hcov, h2]
        · simp [encStep, encSpecStep, hs, hp, hcov, hc]
        · intro q hq
          simp only [encSpecStep, hs, hcov, if_false] at hq
          cases hq
          simp [encStep, hp, hcov]

/-- **EncoderCache never offers a removed input's encoder output as cached**: along every history,
    `EncoderCached()` is true exactly when an encoder output was stored by a non-reserve pass and no
    `Remove` has covered its position since, and `encoderPos` is that position. -/
theorem encoder_cached_exact (ops : List EOp) :
    let s := ops.foldl encStep {}
    let g := ops.foldl encSpecStep {}
    s.cached = g.stored.isSome ∧ ∀ p, g.stored = some p → s.encPos = p := by
  have : ∀ (ops : List EOp) (s : Enc) (g : EncSpec), EncRel s g → EncRel (ops.foldl encStep s) (ops.foldl encSpecStep g) := by
    intro ops
    induction ops with
    | nil => intro s g h; exact h
    | cons op rest ih => intro s g h; exact ih _ _ (encRel_step s g op h)
  have h := this ops {} {} ⟨rfl, rfl, rfl, by intro p hp; simp at hp⟩
  exact ⟨h.2.2.1, h.2.2.2⟩

/-! ### defragmentation (repaired coalescing) commutes with the abstraction -/

/-- **Defragmentation does not change the abstract state** (repaired coalescing, `fixDefrag`): the
    entries — owners, position, and the data found at the entry's location — before and after `defrag`
    are the same up to order, for every cache.  (False for the pinned coalescing: `F14_defrag_swaps_rows`.) -/
theorem defrag_abs_perm_layers (c : Cache) (hlen : c.cells.length = c.rows.length)
    (hfix : c.v.fixDefrag = true) (hl : c.hasLayers = true) : (abs (defrag c)).Perm (abs c) := by
  have h := (defragCore_perm c.cells c.rows hlen).2.2
  unfold defrag abs
  simp only [hfix, hl, if_true]
  exact h

/-- before the first `Put` the row array is untouched (`Init` zeroes it; only `Put`, defrag's block copies
    and `shift` write rows, and the last two do nothing without layer tensors) -/
def RowsFresh (c : Cache) : Prop := c.hasLayers = false → ∀ r ∈ c.rows, r = default

theorem rowsFresh_of (c c' : Cache) (h : RowsFresh c) (h1 : c'.hasLayers = c.hasLayers)
    (h2 : c.hasLayers = false → c'.rows = c.rows) : RowsFresh c' := by
  intro hl r hr
  rw [h1] at hl
  rw [h2 hl] at hr
  exact h hl r hr

/-- **Defragmentation does not change the abstract state**, also before the first `Put` (no layer tensors:
    the real code moves no data and every row is still zero) -/
theorem defrag_abs_perm (c : Cache) (hlen : c.cells.length = c.rows.length)
    (hfix : c.v.fixDefrag = true) (hr : RowsFresh c) : (abs (defrag c)).Perm (abs c) := by
  cases hl : c.hasLayers with
  | true => exact defrag_abs_perm_layers c hlen hfix hl
  | false =>
    have hd := hr hl
    obtain ⟨h1, h2, hp⟩ := defragCore_perm c.cells c.rows hlen
    have hsame : (defragCore true c.cells c.rows).2 = c.rows :=
      eq_of_all_default _ _ h2 (fun x hx => hd x (defragCore_rows_sub true _ _ x hx)) hd
    unfold defrag abs
    simp only [hfix, hl, Bool.false_eq_true, if_false]
    rw [hsame] at hp
    exact hp

theorem slide_v (c : Cache) (b : List Tok) :
    (slide c b).v = c.v ∧ (slide c b).hasLayers = c.hasLayers ∧ (slide c b).rows = c.rows := by
  unfold slide
  cases c.window with
  | none => exact ⟨rfl, rfl, rfl⟩
  | some w =>
    simp only
    generalize batchSeqs b = seqs
    induction seqs generalizing c with
    | nil => exact ⟨rfl, rfl, rfl⟩
    | cons seq rest ih =>
      simp only [List.foldl_cons]
      cases lowest b seq with
      | none => exact ih c
      | some low =>
        have := ih (slideSeq c w seq low)
        have e : (slideSeq c w seq low).v = c.v ∧ (slideSeq c w seq low).hasLayers = c.hasLayers ∧
            (slideSeq c w seq low).rows = c.rows := by
          unfold slideSeq; cases c.ranges seq <;> exact ⟨rfl, rfl, rfl⟩
        exact ⟨this.1.trans e.1, this.2.1.trans e.2.1, this.2.2.trans e.2.2⟩

/-- the abstract state placement starts from is the abstract state after window eviction, also when
    the pass had to defragment -/
theorem placeBase_abs_perm (c : Cache) (b : List Tok) (h : Inv c) (hfix : c.v.fixDefrag = true)
    (hr : RowsFresh c) :
    (abs (placeBase c b)).Perm (abs (slide { c with curBatch := b, except := [] } b)) := by
  have h1 : Inv (slide { c with curBatch := b, except := [] } b) := slide_inv _ b ⟨h.len, h.cover, h.rmax, h.pad, h.size⟩
  unfold placeBase
  split
  · exact List.Perm.refl _
  · have hv := slide_v { c with curBatch := b, except := [] } b
    exact defrag_abs_perm _ h1.len (by rw [hv.1]; exact hfix)
      (rowsFresh_of { c with curBatch := b, except := [] } _ hr hv.2.1 (fun _ => hv.2.2))

theorem startForward_window (c : Cache) (b : List Tok) : (startForward c b).1.window = c.window := by
  have hs := slide_window { c with curBatch := b, except := [] } b
  unfold startForward
  simp only
  split
  · simp only [finishForward]
    rw [place_window]; exact hs
  · split
    · exact hs
    · split
      · simp only [finishForward]
        rw [place_window]; exact hs
      · exact hs

/-- **End-to-end, one forward pass, every accepting path** (direct fit or defragment-and-retry; repaired
    coalescing).  What each batch token is shown (position, data identity, shift — as a multiset) is
    exactly what the location-free spec says about the state *before* the pass with the batch stored
    on top.  Neither the window eviction nor the defragmentation of the pass is visible.  With
    `copyPrefix_abs`, `remove_abs`, `setCausal_abs` and `inv_run` this is the refinement to the spec for
    every history.  `RowsFresh`: before the first `Put` all rows are still zero (holds along every
    history: `rowsFresh_run`). -/
theorem forward_exposes_stored_history_defrag (c : Cache) (b : List Tok) (ids : List Nat) (h : Inv c)
    (hids : ids.length = b.length) (hfix : c.v.fixDefrag = true) (hr : RowsFresh c)
    (hok : (startForward c b).2 = .ok) (t : Tok) (ht : t ∈ b) :
    ((exposedEntries (put (startForward c b).1 ids) t).map key).Perm
      ((visible c.window (KV.store (abs c) (b.zip ids)) t.seq t.pos).map key) := by
  have hw : (put (startForward c b).1 ids).window = c.window := startForward_window c b
  rw [mask_exact c b ids h hok t ht, hw]
  have hperm := (startForward_put_abs_perm c b ids h hids hok).trans
    (List.Perm.append_right _ (placeBase_abs_perm c b h hfix hr))
  have h1 := (hperm.filter (vis c.window t.seq t.pos)).map key
  refine h1.trans ?_
  have hs : abs (slide { c with curBatch := b, except := [] } b) = match c.window with
      | none => abs c
      | some w => specSlide (abs c) w b :=
    slide_abs { c with curBatch := b, except := [] } b ⟨h.len, h.cover, h.rmax, h.pad, h.size⟩
  simp only [visible, KV.store, List.filter_append, List.map_append]
  apply List.Perm.append_right
  rw [hs]
  cases c.window with
  | none => exact List.Perm.refl _
  | some w =>
    simp only
    have := specSlide_invisible (abs c) w b t ht
    simp only [visible] at this
    rw [this]

theorem place_v (c : Cache) (idx : Nat) (toks : List Tok) : (place c idx toks).v = c.v := by
  induction toks generalizing c idx with
  | nil => rfl
  | cons t ts ih => simp [place, ih, placeTok]

theorem startForward_v (c : Cache) (b : List Tok) : (startForward c b).1.v = c.v := by
  have hs := (slide_v { c with curBatch := b, except := [] } b).1
  unfold startForward
  simp only
  split
  · simp only [finishForward]
    rw [place_v]; exact hs
  · split
    · exact hs
    · split
      · simp only [finishForward]
        rw [place_v]; exact hs
      · exact hs

theorem stepH_v (c : Cache) (op : HOp) : (stepH c op).v = c.v := by
  cases op with
  | fwd b ids =>
    simp only [stepH]
    split
    · exact startForward_v c b
    · exact startForward_v c b
  | cp src dst len => rfl
  | rm seq b e => exact (removeV_fields c seq b e).1
  | sc ex =>
    simp only [stepH, setCausal]
    split <;> rfl
  | rsv b => rfl

theorem run_v (c : Cache) (ops : List HOp) : (ops.foldl stepH c).v = c.v := by
  induction ops generalizing c with
  | nil => rfl
  | cons op rest ih => simp only [List.foldl_cons]; rw [ih, stepH_v]

theorem finishForward_rowsFresh (c : Cache) (loc : Nat) (b : List Tok) (h : RowsFresh c) :
    RowsFresh (finishForward c loc b) := by
  have hp := place_cells { c with curLoc := loc, curRange := Range.new } loc b
  apply rowsFresh_of c _ h
  · simp [finishForward, hp.2.2.2.1]
  · intro _; simp [finishForward, hp.2.1]

theorem defrag_rowsFresh (c : Cache) (h : RowsFresh c) : RowsFresh (defrag c) := by
  apply rowsFresh_of c _ h
  · rfl
  · intro hl; simp [defrag, hl]

theorem startForward_rowsFresh (c : Cache) (b : List Tok) (h : RowsFresh c) : RowsFresh (startForward c b).1 := by
  have hv := slide_v { c with curBatch := b, except := [] } b
  have h1 : RowsFresh (slide { c with curBatch := b, except := [] } b) :=
    rowsFresh_of { c with curBatch := b, except := [] } _ h hv.2.1 (fun _ => hv.2.2)
  unfold startForward
  simp only
  split
  · exact finishForward_rowsFresh _ _ _ h1
  · split
    · exact h1
    · split
      · exact finishForward_rowsFresh _ _ _ (defrag_rowsFresh _ h1)
      · exact defrag_rowsFresh _ h1

theorem stepH_rowsFresh (c : Cache) (op : HOp) (h : RowsFresh c) : RowsFresh (stepH c op) := by
  cases op with
  | fwd b ids =>
    simp only [stepH]
    split
    · intro hl; simp [put] at hl
    · exact startForward_rowsFresh c b h
  | cp src dst len => exact rowsFresh_of c _ h rfl (fun _ => rfl)
  | rm seq b e =>
    exact rowsFresh_of c _ h (removeV_fields c seq b e).2.2.1 (removeV_fields c seq b e).2.2.2
  | sc ex =>
    simp only [stepH, setCausal]
    split
    · exact h
    · exact h
  | rsv b => exact h

/-- **Rows stay zero until the first `Put`**, along every history -/
theorem rowsFresh_run (c : Cache) (ops : List HOp) (h : RowsFresh c) : RowsFresh (ops.foldl stepH c) := by
  induction ops generalizing c with
  | nil => exact h
  | cons op rest ih => exact ih _ (stepH_rowsFresh c op h)

theorem rowsFresh_init (v : Variant) (w : Option Int) (maxSeq capacity maxBatch cachePad batchPad : Nat) (hs : Bool) :
    RowsFresh (Causal.init v w maxSeq capacity maxBatch cachePad batchPad hs) := by
  intro _ r hr
  simp only [Causal.init] at hr
  exact List.eq_of_mem_replicate hr

/-- **Refinement for every history** (tree with the repaired coalescing): start from any initial
    configuration, run any history of forward passes (accepted or rejected), prefix copies, removals
    (accepted, refused, unsupported) and SetCausal calls; then any batch that `StartForward` accepts —
    by direct fit or after defragmenting — is shown exactly the entries the location-free spec derives
    from the abstract state before the pass. -/
theorem forward_exposes_all_histories (v : Variant) (hv : v.fixDefrag = true) (w : Option Int)
    (maxSeq capacity maxBatch cachePad batchPad : Nat) (hs : Bool) (ops : List HOp) (b : List Tok) (ids : List Nat)
    (hsz : (Causal.init v w maxSeq capacity maxBatch cachePad batchPad hs).cells.length ≤ maxInt)
    (hids : ids.length = b.length) :
    let c := ops.foldl stepH (Causal.init v w maxSeq capacity maxBatch cachePad batchPad hs)
    (startForward c b).2 = .ok →
    ∀ t ∈ b, ((exposedEntries (put (startForward c b).1 ids) t).map key).Perm
      ((visible c.window (KV.store (abs c) (b.zip ids)) t.seq t.pos).map key) := by
  intro c hok t ht
  have hl : RowsFresh c := rowsFresh_run _ ops (rowsFresh_init v w maxSeq capacity maxBatch cachePad batchPad hs)
  have hinv := inv_run _ ops (inv_init v w maxSeq capacity maxBatch cachePad batchPad hs hsz)
  have hcv : c.v.fixDefrag = true := by
    have : c.v = v := (run_v _ ops).trans rfl
    rw [this]; exact hv
  exact forward_exposes_stored_history_defrag c b ids hinv hids hcv hl hok t ht

/-! ### the unwind hypotheses, discharged from the state before the pass -/

/-- every cell is unowned or an earlier cell with the same position and some of its owners -/
def Shrunk (cells' cells : List Cell) : Prop :=
  ∀ x ∈ cells', x.seqs = [] ∨ ∃ y ∈ cells, x.pos = y.pos ∧ ∀ s ∈ x.seqs, s ∈ y.seqs

theorem shrunk_refl (cells : List Cell) : Shrunk cells cells :=
  fun x hx => Or.inr ⟨x, hx, rfl, fun _ h => h⟩

theorem shrunk_trans {a b c : List Cell} (h1 : Shrunk a b) (h2 : Shrunk b c) : Shrunk a c := by
  intro x hx
  rcases h1 x hx with h | ⟨y, hy, hp, hs⟩
  · exact Or.inl h
  · rcases h2 y hy with h | ⟨z, hz, hp2, hs2⟩
    · left
      cases hxs : x.seqs with
      | nil => rfl
      | cons s rest =>
        have := hs s (by rw [hxs]; simp)
        rw [h] at this; simp at this
    · exact Or.inr ⟨z, hz, hp.trans hp2, fun s h => hs2 s (hs s h)⟩

theorem slideSeq_shrunk (c : Cache) (w : Int) (seq : Nat) (low : Int) : Shrunk (slideSeq c w seq low).cells c.cells := by
  unfold slideSeq
  cases c.ranges seq with
  | none => exact shrunk_refl _
  | some old =>
    intro x hx
    obtain ⟨k, c0, hc0, hxe⟩ := mem_mapFrom hx
    subst hxe
    right
    refine ⟨c0, hc0, ?_, ?_⟩
    · unfold evictCell; split <;> rfl
    · intro s hs
      unfold evictCell at hs
      split at hs
      · exact (mem_dropSeq hs).1
      · exact hs

theorem slide_shrunk (c : Cache) (b : List Tok) : Shrunk (slide c b).cells c.cells := by
  unfold slide
  cases c.window with
  | none => exact shrunk_refl _
  | some w =>
    simp only
    generalize batchSeqs b = seqs
    induction seqs generalizing c with
    | nil => exact shrunk_refl _
    | cons seq rest ih =>
      simp only [List.foldl_cons]
      cases lowest b seq with
      | none => exact ih c
      | some low => exact shrunk_trans (ih (slideSeq c w seq low)) (slideSeq_shrunk c w seq low)

theorem defrag_shrunk (c : Cache) : Shrunk (defrag c).cells c.cells := by
  intro x hx
  have hm := (defragCore_moved c.v.fixDefrag c.cells c.rows).1.2 x hx
  rcases hm with h | h
  · exact Or.inl h
  · exact Or.inr ⟨x, h, rfl, fun _ hs => hs⟩

theorem placeBase_shrunk (c : Cache) (b : List Tok) : Shrunk (placeBase c b).cells c.cells := by
  have h1 : Shrunk (slide { c with curBatch := b, except := [] } b).cells c.cells :=
    slide_shrunk { c with curBatch := b, except := [] } b
  unfold placeBase
  split
  · exact h1
  · exact shrunk_trans (defrag_shrunk _) h1

theorem posBound_shrunk {cells' cells : List Cell} (h : PosBound cells) (hs : Shrunk cells' cells) : PosBound cells' := by
  intro x hx s hsx
  rcases hs x hx with h0 | ⟨y, hy, hp, hsub⟩
  · rw [h0] at hsx; simp at hsx
  · rw [hp]; exact h y hy s (hsub s hsx)

theorem noLater_shrunk {cells' cells : List Cell} {b : List Tok} (h : NoLater cells b) (hs : Shrunk cells' cells) :
    NoLater cells' b := by
  intro x hx t ht hsx
  rcases hs x hx with h0 | ⟨y, hy, hp, hsub⟩
  · rw [h0] at hsx; simp at hsx
  · rw [hp]; exact h y hy t ht (hsub _ hsx)

/-- **Unwinding an accepted batch** restores the abstraction placement started from; the hypotheses are
    about the state *before* the pass: stored positions are below `MaxInt32` and the batch continues its
    sequences (nothing at or after a batch token's position is stored for its sequence). -/
theorem startForward_unwind_abs_pre (c : Cache) (b : List Tok) (h : Inv c)
    (hok : (startForward c b).2 = .ok)
    (hpb : PosBound c.cells) (hbp : ∀ t ∈ b, t.pos < maxInt32) (hnl : NoLater c.cells b) :
    abs (unwind (startForward c b).1 b) = abs (placeBase c b) :=
  startForward_unwind_abs c b h hok (posBound_shrunk hpb (placeBase_shrunk c b)) hbp
    (noLater_shrunk hnl (placeBase_shrunk c b))

/-! ### before the first `Put` nothing is owned -/

/-- before the first `Put` no cell is owned (every accepted forward pass `Put`s) -/
def FreshEmpty (c : Cache) : Prop := c.hasLayers = false → ∀ x ∈ c.cells, x.seqs = []

theorem empty_of_shrunk {cells' cells : List Cell} (h : ∀ x ∈ cells, x.seqs = []) (hs : Shrunk cells' cells) :
    ∀ x ∈ cells', x.seqs = [] := by
  intro x hx
  rcases hs x hx with h0 | ⟨y, hy, _, hsub⟩
  · exact h0
  · cases hxs : x.seqs with
    | nil => rfl
    | cons s rest =>
      have := hsub s (by rw [hxs]; simp)
      rw [h y hy] at this; simp at this

theorem remove_cells_empty (c : Cache) (seq : Nat) (b e : Int) (h : ∀ x ∈ c.cells, x.seqs = []) :
    ∀ x ∈ (Causal.remove c seq b e).1.cells, x.seqs = [] := by
  have hl := length_removeCells seq b e (rmOffset b e) c.cells
  have hsub := removeCells_sub seq b e (rmOffset b e) c.cells
  have hcells : (Causal.remove c seq b e).1.cells = (removeCells seq b e (rmOffset b e) c.cells).1 := by
    unfold Causal.remove
    simp only
    split
    · rfl
    · split
      · rfl
      · split
        · rfl
        · split <;> rfl
  rw [hcells]
  intro x hx
  obtain ⟨j, hj, rfl⟩ := List.getElem_of_mem hx
  have hj' : j < c.cells.length := by rw [← hl]; exact hj
  cases hxs : ((removeCells seq b e (rmOffset b e) c.cells).1[j]).seqs with
  | nil => rfl
  | cons s rest =>
    have := hsub j hj' s (by rw [hxs]; simp)
    rw [h _ (List.getElem_mem hj')] at this; simp at this

theorem startForward_hasLayers (c : Cache) (b : List Tok) : (startForward c b).1.hasLayers = c.hasLayers := by
  have hs := (slide_v { c with curBatch := b, except := [] } b).2.1
  unfold startForward
  simp only
  split
  · simp only [finishForward]
    rw [(place_cells _ _ _).2.2.2.1]; exact hs
  · split
    · exact hs
    · split
      · simp only [finishForward]
        rw [(place_cells _ _ _).2.2.2.1]; exact hs
      · exact hs

/-- a pass that does not accept its batch only drops owners and moves cells -/
theorem startForward_shrunk_of_not_ok (c : Cache) (b : List Tok) (h : (startForward c b).2 ≠ .ok) :
    Shrunk (startForward c b).1.cells c.cells := by
  have h1 : Shrunk (slide { c with curBatch := b, except := [] } b).cells c.cells :=
    slide_shrunk { c with curBatch := b, except := [] } b
  unfold startForward at h ⊢
  simp only at h ⊢
  split
  · rename_i hf; simp [hf] at h
  · split
    · exact h1
    · split
      · rename_i x0 hf0 hp x1 loc hf2; simp [hf0, hp, hf2] at h
      · exact shrunk_trans (defrag_shrunk _) h1

theorem stepH_freshEmpty (c : Cache) (op : HOp) (h : FreshEmpty c) : FreshEmpty (stepH c op) := by
  cases op with
  | fwd b ids =>
    simp only [stepH]
    split
    · intro hl; simp [put] at hl
    · rename_i hnok
      intro hl x hx
      rw [startForward_hasLayers] at hl
      exact empty_of_shrunk (h hl) (startForward_shrunk_of_not_ok c b hnok) x hx
  | cp src dst len =>
    intro hl x hx
    have hl' : c.hasLayers = false := hl
    simp only [stepH, Causal.copyPrefix, List.mem_map] at hx
    obtain ⟨y, hy, rfl⟩ := hx
    simp [cpCell, cpSeqs, h hl' y hy]
  | rm seq b e =>
    intro hl x hx
    have hf := removeV_fields c seq b e
    have hl' : c.hasLayers = false := by rw [← hf.2.2.1]; exact hl
    simp only [stepH] at hx
    rcases removeV_cases c seq b e with h1 | ⟨h1, _, _⟩
    · rw [h1] at hx; exact remove_cells_empty c seq b e (h hl') x hx
    · rw [h1] at hx; exact h hl' x hx
  | sc ex =>
    simp only [stepH, setCausal]
    split
    · exact h
    · exact h
  | rsv b => exact h

theorem freshEmpty_run (c : Cache) (ops : List HOp) (h : FreshEmpty c) : FreshEmpty (ops.foldl stepH c) := by
  induction ops generalizing c with
  | nil => exact h
  | cons op rest ih => exact ih _ (stepH_freshEmpty c op h)

theorem freshEmpty_init (v : Variant) (w : Option Int) (maxSeq capacity maxBatch cachePad batchPad : Nat) (hs : Bool) :
    FreshEmpty (Causal.init v w maxSeq capacity maxBatch cachePad batchPad hs) := by
  intro _ x hx
  simp only [Causal.init] at hx
  rw [List.eq_of_mem_replicate hx]; rfl

theorem abs_nil_of_empty (c : Cache) (h : ∀ x ∈ c.cells, x.seqs = []) : abs c = [] := by
  unfold abs
  apply filterMap_all_none
  intro p hp
  have := h p.1 (List.of_mem_zip hp).1
  simp [entryOf, this]

/-! ### refinement to the location-free specification -/

/-- the location-free meaning of one successful cache operation (`none`: the spec refuses a `Remove` that
    would have to shift an entry another sequence still shares) -/
def specStep (W : Option Int) (s : Spec) : HOp → Option Spec
  | .fwd b ids => some (KV.store (match W with | none => s | some w => specSlide s w b) (b.zip ids))
  | .cp src dst len => some (KV.copyPrefix s src dst len)
  | .rm seq b e => KV.remove s seq b e
  | .sc _ => some s
  | .rsv _ => some s

/-- the operation is accepted by the cache (a forward pass also needs one datum per token) -/
def Succeeds (c : Cache) : HOp → Prop
  | .fwd b ids => (startForward c b).2 = .ok ∧ ids.length = b.length
  | .rm seq b e => (removeV c seq b e).2 = .ok
  | _ => True

/-- **Refinement, one step**: every operation the cache accepts changes the abstract state exactly as the
    location-free specification prescribes (up to the order of entries): a forward pass = window eviction
    for the batch's sequences + one fresh entry per token; CopyPrefix; Remove (with the shift applied to the
    data of exactly the moved entries); SetCausal and reserve passes change nothing.  Placement, cell reuse,
    range bookkeeping and defragmentation are invisible. -/
theorem refines_step (c : Cache) (op : HOp) (h : Inv c) (hfix : c.v.fixDefrag = true) (hr : RowsFresh c)
    (hfe : FreshEmpty c) (hs : Succeeds c op) :
    ∃ s', specStep c.window (abs c) op = some s' ∧ (abs (stepH c op)).Perm s' := by
  cases op with
  | fwd b ids =>
    obtain ⟨hok, hids⟩ := hs
    refine ⟨_, rfl, ?_⟩
    simp only [stepH, hok, if_true]
    have hperm := (startForward_put_abs_perm c b ids h hids hok).trans
      (List.Perm.append_right _ (placeBase_abs_perm c b h hfix hr))
    have hsl : abs (slide { c with curBatch := b, except := [] } b) = match c.window with
        | none => abs c
        | some w => specSlide (abs c) w b :=
      slide_abs { c with curBatch := b, except := [] } b ⟨h.len, h.cover, h.rmax, h.pad, h.size⟩
    simp only [KV.store] at hperm ⊢
    rw [hsl] at hperm
    exact hperm
  | cp src dst len => exact ⟨_, rfl, by simp only [stepH]; rw [copyPrefix_abs]⟩
  | rm seq b e =>
    have he := removeV_ok_eq c seq b e hs
    cases hl : c.hasLayers with
    | true =>
      have := remove_abs c seq b e h.len h.size hl (by rw [← he]; exact hs)
      exact ⟨_, this, by simp only [stepH]; rw [he]⟩
    | false =>
      -- before the first `Put` nothing is owned: the removal is vacuous on both sides
      have hemp := hfe hl
      have habs : abs c = [] := abs_nil_of_empty c hemp
      have habs' : abs (Causal.remove c seq b e).1 = [] := abs_nil_of_empty _ (remove_cells_empty c seq b e hemp)
      exact ⟨[], by rw [habs]; simp [specStep, KV.remove], by simp only [stepH]; rw [he, habs']⟩
  | sc ex => exact ⟨_, rfl, by simp only [stepH]; rw [setCausal_abs]⟩
  | rsv b => exact ⟨_, rfl, List.Perm.refl _⟩

/-- **A rejected batch leaves the history alone**: after `ErrKvCacheFull` the abstract state is the one
    before the pass minus the window eviction the pass had already performed (which is invisible to the
    batch's sequences from their next position on) — nothing of the rejected batch is stored, no live
    entry is lost or altered although the cache has been defragmented. -/
theorem rejected_forward_abs (c : Cache) (b : List Tok) (h : Inv c) (hfix : c.v.fixDefrag = true)
    (hr : RowsFresh c) (hfull : (startForward c b).2 = .full) :
    (abs (startForward c b).1).Perm (match c.window with | none => abs c | some w => specSlide (abs c) w b) := by
  have h1 : Inv (slide { c with curBatch := b, except := [] } b) := slide_inv _ b ⟨h.len, h.cover, h.rmax, h.pad, h.size⟩
  have hv := slide_v { c with curBatch := b, except := [] } b
  have hsl : abs (slide { c with curBatch := b, except := [] } b) = match c.window with
      | none => abs c
      | some w => specSlide (abs c) w b :=
    slide_abs { c with curBatch := b, except := [] } b ⟨h.len, h.cover, h.rmax, h.pad, h.size⟩
  rw [← hsl]
  have hd := defrag_abs_perm _ h1.len (by rw [hv.1]; exact hfix)
    (rowsFresh_of { c with curBatch := b, except := [] } _ hr hv.2.1 (fun _ => hv.2.2))
  unfold startForward at hfull ⊢
  simp only at hfull ⊢
  split
  · rename_i hf1; simp [hf1] at hfull
  · rename_i hf1
    simp only [hf1] at hfull
    split
    · rename_i hnp; simp [hnp] at hfull
    · rename_i hnp
      simp only [hnp] at hfull
      split
      · rename_i hf2; simp [hf2] at hfull
      · exact hd

theorem specSlide_perm (w : Int) (b : List Tok) (s s' : Spec) (hp : s.Perm s') :
    (specSlide s w b).Perm (specSlide s' w b) := by
  unfold specSlide
  generalize batchSeqs b = seqs
  induction seqs generalizing s s' with
  | nil => exact hp
  | cons seq rest ih =>
    simp only [List.foldl_cons]
    cases lowest b seq with
    | none => exact ih s s' hp
    | some low => exact ih _ _ (hp.filterMap _)

/-- the specification does not depend on the order of the entries -/
theorem specStep_perm (W : Option Int) (s s' : Spec) (op : HOp) (hp : s.Perm s') (t : Spec)
    (h : specStep W s op = some t) : ∃ t', specStep W s' op = some t' ∧ t.Perm t' := by
  cases op with
  | fwd b ids =>
    simp only [specStep, Option.some.injEq] at h
    subst h
    refine ⟨_, rfl, ?_⟩
    simp only [KV.store]
    apply List.Perm.append_right
    cases W with
    | none => exact hp
    | some w => exact specSlide_perm w b s s' hp
  | cp src dst len =>
    simp only [specStep, Option.some.injEq] at h
    subst h
    exact ⟨_, rfl, hp.filterMap _⟩
  | rm seq b e =>
    simp only [specStep, KV.remove] at h ⊢
    rw [← hp.any_eq]
    split at h
    · cases h
    · rename_i hn
      simp only [Option.some.injEq] at h
      subst h
      exact ⟨_, by simp [hn], hp.filterMap _⟩
  | sc ex =>
    simp only [specStep, Option.some.injEq] at h
    subst h
    exact ⟨_, rfl, hp⟩
  | rsv b =>
    simp only [specStep, Option.some.injEq] at h
    subst h
    exact ⟨_, rfl, hp⟩

theorem stepH_window (c : Cache) (op : HOp) : (stepH c op).window = c.window := by
  cases op with
  | fwd b ids =>
    simp only [stepH]
    split
    · exact startForward_window c b
    · exact startForward_window c b
  | cp src dst len => rfl
  | rm seq b e => exact (removeV_fields c seq b e).2.1
  | sc ex =>
    simp only [stepH, setCausal]
    split <;> rfl
  | rsv b => rfl

/-- the specification run over a history (`none` as soon as the spec refuses a step) -/
def runSpec (W : Option Int) : Spec → List HOp → Option Spec
  | s, [] => some s
  | s, op :: ops => (specStep W s op).bind (fun s' => runSpec W s' ops)

/-- every operation of the history is accepted by the cache (in the state it is issued in) -/
def AllSucceed : Cache → List HOp → Prop
  | _, [] => True
  | c, op :: ops => Succeeds c op ∧ AllSucceed (stepH c op) ops

/-- **Refinement along a history**: if the abstract state is (a permutation of) `s`, then after any
    history of accepted operations the abstract state is (a permutation of) what the location-free
    specification computes from `s` — and the specification accepts every step. -/
theorem refines_run (c : Cache) (ops : List HOp) (s : Spec) (hp : (abs c).Perm s) (h : Inv c)
    (hfix : c.v.fixDefrag = true) (hr : RowsFresh c) (hfe : FreshEmpty c) (hs : AllSucceed c ops) :
    ∃ s', runSpec c.window s ops = some s' ∧ (abs (ops.foldl stepH c)).Perm s' := by
  induction ops generalizing c s with
  | nil => exact ⟨s, rfl, hp⟩
  | cons op rest ih =>
    obtain ⟨hs1, hs2⟩ := hs
    obtain ⟨s1, he1, hp1⟩ := refines_step c op h hfix hr hfe hs1
    obtain ⟨s1', he1', hp1'⟩ := specStep_perm c.window (abs c) s op hp s1 he1
    have hinv : Inv (stepH c op) := inv_run c [op] h
    have hv : (stepH c op).v.fixDefrag = true := by rw [stepH_v]; exact hfix
    obtain ⟨s2, he2, hp2⟩ := ih (stepH c op) s1' (hp1.trans hp1') hinv hv (stepH_rowsFresh c op hr)
      (stepH_freshEmpty c op hfe) hs2
    rw [stepH_window] at he2
    exact ⟨s2, by simp only [runSpec, he1', Option.bind_some]; exact he2, hp2⟩

theorem abs_init (v : Variant) (w : Option Int) (maxSeq capacity maxBatch cachePad batchPad : Nat) (hs : Bool) :
    abs (Causal.init v w maxSeq capacity maxBatch cachePad batchPad hs) = [] := by
  unfold abs
  apply filterMap_all_none
  intro x hx
  simp only [Causal.init, List.zip_replicate] at hx
  rw [List.eq_of_mem_replicate hx]
  rfl

/-- **The cache refines the location-free specification**: from any initial configuration (repaired
    coalescing), along every history of accepted operations — forward passes with any placement, cell reuse,
    window eviction and defragmentation, prefix copies, removals with position shift, SetCausal, reserve
    passes — the entries the cache holds (owners, position, stored data, applied shift) are exactly those the
    specification, which knows nothing about locations, computes from the empty state. -/
theorem refines_all_histories (v : Variant) (hv : v.fixDefrag = true) (w : Option Int)
    (maxSeq capacity maxBatch cachePad batchPad : Nat) (hs : Bool) (ops : List HOp)
    (hsz : (Causal.init v w maxSeq capacity maxBatch cachePad batchPad hs).cells.length ≤ maxInt)
    (hok : AllSucceed (Causal.init v w maxSeq capacity maxBatch cachePad batchPad hs) ops) :
    ∃ s', runSpec w [] ops = some s' ∧
      (abs (ops.foldl stepH (Causal.init v w maxSeq capacity maxBatch cachePad batchPad hs))).Perm s' := by
  have := refines_run (Causal.init v w maxSeq capacity maxBatch cachePad batchPad hs) ops []
    (by rw [abs_init]) (inv_init v w maxSeq capacity maxBatch cachePad batchPad hs hsz) hv
    (rowsFresh_init v w maxSeq capacity maxBatch cachePad batchPad hs)
    (freshEmpty_init v w maxSeq capacity maxBatch cachePad batchPad hs) hok
  exact this

instance (c : Cache) (op : HOp) : Decidable (Succeeds c op) := by
  cases op <;> unfold Succeeds <;> infer_instance

instance decAllSucceed : (c : Cache) → (ops : List HOp) → Decidable (AllSucceed c ops)
  | _, [] => isTrue trivial
  | c, op :: ops =>
    have := decAllSucceed (stepH c op) ops
    by unfold AllSucceed; infer_instance

/-- non-vacuity of the refinement theorems (audited): a history with a shifting middle removal, a forward
    pass that is only accepted after defragmenting, a fork, SetCausal and a reserve pass is accepted step by
    step, and the specification's run gives the 5 entries the cache then holds -/
theorem refines_nonvacuous :
    let c0 := Causal.init { fixDefrag := true } none 1 5 5 1 1 true
    let ops := [HOp.fwd [⟨0, 0⟩, ⟨0, 1⟩, ⟨0, 2⟩, ⟨0, 3⟩, ⟨0, 4⟩] [1, 2, 3, 4, 5], .rm 0 0 2, .rm 0 2 maxInt32,
      .fwd [⟨0, 2⟩, ⟨0, 3⟩, ⟨0, 4⟩] [6, 7, 8], .sc [1], .cp 0 1 2, .rsv [⟨1, 2⟩]]
    AllSucceed c0 ops ∧ ((runSpec none [] ops).map List.length) = some 5 ∧
    (abs (ops.foldl stepH c0)).length = 5 := by decide

theorem run_window (c : Cache) (ops : List HOp) : (ops.foldl stepH c).window = c.window := by
  induction ops generalizing c with
  | nil => rfl
  | cons op rest ih => simp only [List.foldl_cons]; rw [ih, stepH_window]

/-- **THE PROPERTY, end to end.**  Start from any configuration (capacity, batch size, paddings, window;
    tree with the repaired defrag coalescing), run any history of accepted operations — stores with any
    placement and cell reuse, window evictions, defragmentations, prefix copies, removals with position
    shift, SetCausal, reserve passes — and let `s'` be what the location-free specification, which has no
    cache locations at all, computes from the empty state for that history.  Then for every batch the cache
    accepts next, every token of it is shown (position, data identity, applied shift; as a multiset) exactly
    the entries of `s'` plus the batch that belong to its sequence, lie at positions not after its own and
    inside the window: nothing of another sequence, of a removed range or of a later position, nothing
    missing, each with the data stored for it.
    (Guards: `AllSucceed` — a refused `Remove` is outside: pinned it leaves a half-done removal, F28; for
    windowed caches the specification contains the eviction, i.e. F15 is part of the spec.) -/
theorem history_exposes_spec (v : Variant) (hv : v.fixDefrag = true) (w : Option Int)
    (maxSeq capacity maxBatch cachePad batchPad : Nat) (hs : Bool) (ops : List HOp) (b : List Tok) (ids : List Nat)
    (hsz : (Causal.init v w maxSeq capacity maxBatch cachePad batchPad hs).cells.length ≤ maxInt)
    (hids : ids.length = b.length)
    (hall : AllSucceed (Causal.init v w maxSeq capacity maxBatch cachePad batchPad hs) ops) :
    let c := ops.foldl stepH (Causal.init v w maxSeq capacity maxBatch cachePad batchPad hs)
    (startForward c b).2 = .ok →
    ∃ s', runSpec w [] ops = some s' ∧
      ∀ t ∈ b, ((exposedEntries (put (startForward c b).1 ids) t).map key).Perm
        ((visible w (KV.store s' (b.zip ids)) t.seq t.pos).map key) := by
  intro c hok
  obtain ⟨s', hrun, hperm⟩ := refines_all_histories v hv w maxSeq capacity maxBatch cachePad batchPad hs ops hsz hall
  refine ⟨s', hrun, ?_⟩
  intro t ht
  have h1 := forward_exposes_all_histories v hv w maxSeq capacity maxBatch cachePad batchPad hs ops b ids hsz hids hok t ht
  have hw : c.window = w := (run_window _ ops).trans rfl
  refine h1.trans ?_
  rw [hw]
  have hst : (KV.store (abs c) (b.zip ids)).Perm (KV.store s' (b.zip ids)) := by
    simp only [KV.store]; exact List.Perm.append_right _ hperm
  exact ((hst.filter _).map key)

/-- without a window a forward pass of the specification only stores (no eviction anywhere) -/
theorem specStep_none_fwd (s : Spec) (b : List Tok) (ids : List Nat) :
    specStep none s (.fwd b ids) = some (KV.store s (b.zip ids)) := rfl

/-! ### a full cache is reported as an error only when it is full -/

/-- **`ErrKvCacheFull` only without room** (repaired coalescing).  If `StartForward` rejects a non-empty
    batch, then the cache — after the window eviction of the pass — has fewer unowned cells than the batch
    has tokens: fragmentation alone never causes the error, because `defrag` compacts
    (`defragCore_compact`, both variants) and keeps the number of free cells (`defragCore_freeCount`).
    Contrapositive: with at least `b.length` free cells the batch is not rejected as full.  Together with
    `forward_abs_perm` (placement only uses unowned cells) this is the last clause of the property. -/
theorem full_only_without_room (c : Cache) (b : List Tok) (h : Inv c) (hfix : c.v.fixDefrag = true)
    (hb : b ≠ []) (hfull : (startForward c b).2 = .full) :
    freeCount (slide { c with curBatch := b, except := [] } b).cells < b.length := by
  have h1 : Inv (slide { c with curBatch := b, except := [] } b) := slide_inv _ b ⟨h.len, h.cover, h.rmax, h.pad, h.size⟩
  have hv := (slide_v { c with curBatch := b, except := [] } b).1
  have hk : 0 < b.length := List.length_pos_iff.mpr hb
  unfold startForward at hfull
  simp only at hfull
  split at hfull
  · cases hfull
  · split at hfull
    · cases hfull
    · split at hfull
      · cases hfull
      · rename_i hf2
        have hcells : (defrag (slide { c with curBatch := b, except := [] } b)).cells
            = (defragCore true (slide { c with curBatch := b, except := [] } b).cells
                (slide { c with curBatch := b, except := [] } b).rows).1 := by
          unfold defrag
          simp only [hv]
          rw [show c.v.fixDefrag = true from hfix]
        rw [hcells] at hf2
        have := findStart_compact_none _ b.length hk (defragCore_compact true _ _) hf2
        rw [defragCore_freeCount _ _ h1.len] at this
        exact this

/-! ### wrapped caches at the level of the specification -/

/-- what a pass that does not store its batch leaves of the abstract state: the window eviction for the
    batch's sequences, nothing else -/
def evictedSpec (c : Cache) (b : List Tok) : Spec :=
  match c.window with
  | none => abs c
  | some w => specSlide (abs c) w b

/-- **A rejected wrapped batch leaves every wrapped cache's history alone** (spec level): the caches before
    the rejecting one accepted the batch and were unwound, the rejecting one defragmented in vain — the
    abstract state of each of them is its state before the pass minus the window eviction for the batch's
    sequences; the caches after it are untouched. -/
theorem wrapper_rejected_batch_spec (cs : List Cache) (b : List Tok) (cs' : List Cache)
    (hinv : ∀ c ∈ cs, Inv c) (hfix : ∀ c ∈ cs, c.v.fixDefrag = true) (hfresh : ∀ c ∈ cs, RowsFresh c)
    (hbp : ∀ t ∈ b, t.pos < maxInt32)
    (hgood : ∀ c ∈ cs, PosBound c.cells ∧ NoLater c.cells b)
    (h : wStart cs b = (cs', .full)) :
    ∃ pre c post, cs = pre ++ c :: post ∧
      cs' = pre.map (fun x => unwind (startForward x b).1 b) ++ (startForward c b).1 :: post ∧
      (∀ x ∈ pre, (abs (unwind (startForward x b).1 b)).Perm (evictedSpec x b)) ∧
      (abs (startForward c b).1).Perm (evictedSpec c b) := by
  obtain ⟨pre, c, post, e1, e2, e3, e4⟩ := wStart_full cs b cs' h
  refine ⟨pre, c, post, e1, e4, ?_, ?_⟩
  · intro x hx
    have hx' : x ∈ cs := by rw [e1]; simp [hx]
    have hi := hinv x hx'
    have hsl : abs (slide { x with curBatch := b, except := [] } b) = evictedSpec x b :=
      slide_abs { x with curBatch := b, except := [] } b ⟨hi.len, hi.cover, hi.rmax, hi.pad, hi.size⟩
    rw [startForward_unwind_abs_pre x b hi (e2 x hx) (hgood x hx').1 hbp (hgood x hx').2, ← hsl]
    exact placeBase_abs_perm x b hi (hfix x hx') (hfresh x hx')
  · have hc : c ∈ cs := by rw [e1]; simp
    exact rejected_forward_abs c b (hinv c hc) (hfix c hc) (hfresh c hc) e3

/-- **An accepted wrapped batch is stored in every wrapped cache exactly as the specification prescribes**:
    each cache's abstract state afterwards is its own window eviction + one fresh entry per token. -/
theorem wrapper_forward_refines (cs : List Cache) (b : List Tok) (ids : List Nat) (cs' : List Cache)
    (hinv : ∀ c ∈ cs, Inv c) (hfix : ∀ c ∈ cs, c.v.fixDefrag = true) (hfresh : ∀ c ∈ cs, RowsFresh c)
    (hfe : ∀ c ∈ cs, FreshEmpty c) (hids : ids.length = b.length) (h : wStart cs b = (cs', .ok)) :
    wPut cs' ids = cs.map (fun c => put (startForward c b).1 ids) ∧
    ∀ c ∈ cs, (abs (put (startForward c b).1 ids)).Perm (KV.store (evictedSpec c b) (b.zip ids)) := by
  obtain ⟨e1, e2⟩ := wStart_ok cs b cs' h
  refine ⟨by rw [e1]; simp [wPut, List.map_map, Function.comp_def], ?_⟩
  intro c hc
  obtain ⟨s', hs', hp⟩ := refines_step c (.fwd b ids) (hinv c hc) (hfix c hc) (hfresh c hc) (hfe c hc) ⟨e2 c hc, hids⟩
  simp only [specStep, Option.some.injEq] at hs'
  subst hs'
  simp only [stepH, e2 c hc, if_true] at hp
  exact hp

/-- a reserve pass on a wrapper is a reserve pass on every wrapped cache: each mask is exact, no state changes -/
theorem wrapper_reserve_mask_exact (cs : List Cache) (b : List Tok) (hinv : ∀ c ∈ cs, Inv c)
    (hn : ∀ c ∈ cs, 0 < c.cells.length) :
    (wStartReserve cs b).map abs = cs.map abs ∧
    ∀ c ∈ cs, ∀ t, exposedEntries (startReserve c b) t = visible c.window (abs c) t.seq t.pos := by
  refine ⟨by simp [wStartReserve, List.map_map, Function.comp_def, (reserve_state _ b).2.2.2.1], ?_⟩
  intro c hc t
  exact reserve_mask_exact c b (hinv c hc) (hn c hc) t

/-! ### refinement at full strength for the repaired tree: no operation is excluded -/

/-- the cache accepted the operation -/
def accepted (c : Cache) : HOp → Bool
  | .fwd b _ => decide ((startForward c b).2 = .ok)
  | .rm seq b e => decide ((removeV c seq b e).2 = .ok)
  | _ => true

/-- the location-free meaning of one cache operation, given whether the cache accepted it: a rejected batch
    costs only the window eviction the pass had already performed, a refused `Remove` is a no-op -/
def specStepT (W : Option Int) (s : Spec) (op : HOp) (acc : Bool) : Spec :=
  match op with
  | .fwd b ids =>
    let s1 := match W with | none => s | some w => specSlide s w b
    if acc then KV.store s1 (b.zip ids) else s1
  | .cp src dst len => KV.copyPrefix s src dst len
  | .rm seq b e => if acc then (KV.remove s seq b e).getD s else s
  | .sc _ => s
  | .rsv _ => s

/-- a forward pass supplies one datum per token -/
def WellFormed : HOp → Prop
  | .fwd b ids => ids.length = b.length
  | _ => True

/-- a pass that does not accept its batch (full, or the pinned divide-by-zero) leaves the abstract state
    = before minus the window eviction -/
theorem startForward_not_ok_abs (c : Cache) (b : List Tok) (h : Inv c) (hfix : c.v.fixDefrag = true)
    (hr : RowsFresh c) (hno : (startForward c b).2 ≠ .ok) :
    (abs (startForward c b).1).Perm (evictedSpec c b) := by
  cases hres : (startForward c b).2 with
  | ok => exact absurd hres hno
  | full => exact rejected_forward_abs c b h hfix hr hres
  | panic =>
    have hsl : abs (slide { c with curBatch := b, except := [] } b) = evictedSpec c b :=
      slide_abs { c with curBatch := b, except := [] } b ⟨h.len, h.cover, h.rmax, h.pad, h.size⟩
    rw [← hsl]
    unfold startForward at hres ⊢
    simp only at hres ⊢
    split
    · rename_i hf; simp [hf] at hres
    · split
      · exact List.Perm.refl _
      · rename_i hf1 hp
        simp only [hf1, hp] at hres
        cases hf2 : findStart (defrag (slide { c with curBatch := b, except := [] } b)).cells b.length <;>
          simp [hf2] at hres

/-- **Refinement, one step, every outcome** (repaired defrag and repaired `Remove`): whatever the cache
    answers — batch accepted or rejected, removal carried out or refused — the abstract state changes exactly
    as `specStepT` prescribes for that answer. -/
theorem refines_step_total (c : Cache) (op : HOp) (h : Inv c) (hfix : c.v.fixDefrag = true)
    (hat : c.v.atomicRemove = true) (hr : RowsFresh c) (hfe : FreshEmpty c) (hwf : WellFormed op) :
    (abs (stepH c op)).Perm (specStepT c.window (abs c) op (accepted c op)) := by
  cases op with
  | fwd b ids =>
    by_cases hok : (startForward c b).2 = .ok
    · obtain ⟨s', hs', hp⟩ := refines_step c (.fwd b ids) h hfix hr hfe ⟨hok, hwf⟩
      simp only [specStep, Option.some.injEq] at hs'
      subst hs'
      cases hW : c.window <;> simpa [specStepT, accepted, hok, hW] using hp
    · have := startForward_not_ok_abs c b h hfix hr hok
      cases hW : c.window <;> simpa [specStepT, accepted, hok, stepH, evictedSpec, hW] using this
  | cp src dst len =>
    obtain ⟨s', hs', hp⟩ := refines_step c (.cp src dst len) h hfix hr hfe trivial
    simp only [specStep, Option.some.injEq] at hs'
    subst hs'
    simpa [specStepT] using hp
  | rm seq b e =>
    by_cases hok : (removeV c seq b e).2 = .ok
    · obtain ⟨s', hs', hp⟩ := refines_step c (.rm seq b e) h hfix hr hfe hok
      simp only [specStep] at hs'
      simpa [specStepT, accepted, hok, hs'] using hp
    · have := removeV_error_unchanged c seq b e hat hok
      simp only [specStepT, accepted, hok, decide_false, Bool.false_eq_true, if_false, stepH, this]
      exact List.Perm.refl _
  | sc ex =>
    obtain ⟨s', hs', hp⟩ := refines_step c (.sc ex) h hfix hr hfe trivial
    simp only [specStep, Option.some.injEq] at hs'
    subst hs'
    simpa [specStepT] using hp
  | rsv b => exact List.Perm.refl _

theorem specStepT_perm (W : Option Int) (s s' : Spec) (op : HOp) (acc : Bool) (hp : s.Perm s') :
    (specStepT W s op acc).Perm (specStepT W s' op acc) := by
  cases op with
  | fwd b ids =>
    have h1 : (match W with | none => s | some w => specSlide s w b).Perm
        (match W with | none => s' | some w => specSlide s' w b) := by
      cases W with
      | none => exact hp
      | some w => exact specSlide_perm w b s s' hp
    simp only [specStepT]
    split
    · simp only [KV.store]; exact List.Perm.append_right _ h1
    · exact h1
  | cp src dst len => exact hp.filterMap _
  | rm seq b e =>
    simp only [specStepT]
    split
    · simp only [KV.remove]
      rw [← hp.any_eq]
      split
      · exact hp
      · exact hp.filterMap _
    · exact hp
  | sc ex => exact hp
  | rsv b => exact hp

/-- the specification run next to the cache (it is told each answer of the cache) -/
def runT (W : Option Int) : Cache → Spec → List HOp → Spec
  | _, s, [] => s
  | c, s, op :: ops => runT W (stepH c op) (specStepT W s op (accepted c op)) ops

/-- **Refinement along EVERY history** (repaired tree): no guard on the operations — rejected batches and
    refused removals included. -/
theorem refines_run_total (c : Cache) (ops : List HOp) (s : Spec) (hp : (abs c).Perm s) (h : Inv c)
    (hfix : c.v.fixDefrag = true) (hat : c.v.atomicRemove = true) (hr : RowsFresh c) (hfe : FreshEmpty c)
    (hwf : ∀ op ∈ ops, WellFormed op) :
    (abs (ops.foldl stepH c)).Perm (runT c.window c s ops) := by
  induction ops generalizing c s with
  | nil => exact hp
  | cons op rest ih =>
    have h1 := refines_step_total c op h hfix hat hr hfe (hwf op (by simp))
    have h2 := specStepT_perm c.window (abs c) s op (accepted c op) hp
    have hinv : Inv (stepH c op) := inv_run c [op] h
    have hv := stepH_v c op
    have := ih (stepH c op) (specStepT c.window s op (accepted c op)) (h1.trans h2) hinv
      (by rw [hv]; exact hfix) (by rw [hv]; exact hat) (stepH_rowsFresh c op hr) (stepH_freshEmpty c op hfe)
      (fun o ho => hwf o (by simp [ho]))
    rw [stepH_window] at this
    simpa [runT] using this

/-- **THE PROPERTY for the repaired tree, no guard**: from any configuration, after ANY history (accepted
    and rejected batches, accepted and refused removals, prefix copies, SetCausal, reserve passes), every token
    of the next accepted batch is shown exactly the entries the location-free specification holds for that
    history plus the batch, filtered by sequence, position ≤ own, window. -/
theorem history_exposes_spec_total (v : Variant) (hv : v.fixDefrag = true) (hat : v.atomicRemove = true) (w : Option Int)
    (maxSeq capacity maxBatch cachePad batchPad : Nat) (hs : Bool) (ops : List HOp) (b : List Tok) (ids : List Nat)
    (hsz : (Causal.init v w maxSeq capacity maxBatch cachePad batchPad hs).cells.length ≤ maxInt)
    (hids : ids.length = b.length) (hwf : ∀ op ∈ ops, WellFormed op) :
    let c0 := Causal.init v w maxSeq capacity maxBatch cachePad batchPad hs
    let c := ops.foldl stepH c0
    (startForward c b).2 = .ok →
    ∀ t ∈ b, ((exposedEntries (put (startForward c b).1 ids) t).map key).Perm
      ((visible w (KV.store (runT w c0 [] ops) (b.zip ids)) t.seq t.pos).map key) := by
  intro c0 c hok t ht
  have hperm := refines_run_total c0 ops [] (by rw [abs_init]) (inv_init v w maxSeq capacity maxBatch cachePad batchPad hs hsz)
    hv hat (rowsFresh_init v w maxSeq capacity maxBatch cachePad batchPad hs)
    (freshEmpty_init v w maxSeq capacity maxBatch cachePad batchPad hs) hwf
  have h1 := forward_exposes_all_histories v hv w maxSeq capacity maxBatch cachePad batchPad hs ops b ids hsz hids hok t ht
  have hw : c.window = w := (run_window _ ops).trans rfl
  have hw0 : c0.window = w := rfl
  rw [hw0] at hperm
  refine h1.trans ?_
  rw [hw]
  have hst : (KV.store (abs c) (b.zip ids)).Perm (KV.store (runT w c0 [] ops) (b.zip ids)) := by
    simp only [KV.store]; exact List.Perm.append_right _ hperm
  exact ((hst.filter _).map key)

/-! ### windowed caches, append-only use: nothing inside the window is missing -/

/-- the eviction of a pass is invisible to every query that is not below the batch's lowest position of
    its own sequence -/
theorem specSlide_invisible_of_le (s : Spec) (w : Int) (b : List Tok) (q : Nat) (p : Int)
    (hq : ∀ low, lowest b q = some low → low ≤ p) :
    (visible (some w) (specSlide s w b) q p).map key = (visible (some w) s q p).map key := by
  unfold specSlide
  generalize batchSeqs b = seqs
  induction seqs generalizing s with
  | nil => rfl
  | cons seq rest ih =>
    simp only [List.foldl_cons]
    cases hl : lowest b seq with
    | none => exact ih s
    | some low =>
      simp only
      rw [ih (evict s seq (low - w))]
      apply evict_invisible
      intro hqs
      subst hqs
      have := hq low hl
      omega

/-- a forward-only history: batches with their data and the cache's answer (accepted or rejected) -/
abbrev Pass := List Tok × List Nat × Bool

/-- the specification's state: every pass evicts, an accepted one stores its batch -/
def runS (w : Int) : Spec → List Pass → Spec
  | s, [] => s
  | s, (b, ids, acc) :: rest =>
    runS w (if acc then KV.store (specSlide s w b) (b.zip ids) else specSlide s w b) rest

/-- the ideal state: nothing is ever evicted -/
def runI : Spec → List Pass → Spec
  | s, [] => s
  | s, (b, ids, acc) :: rest => runI (if acc then KV.store s (b.zip ids) else s) rest

/-- the query is not below the lowest position any of the passes had for its sequence -/
def NotBelow (ps : List Pass) (q : Nat) (p : Int) : Prop :=
  ∀ pass ∈ ps, ∀ low, lowest pass.1 q = some low → low ≤ p

theorem visible_store (W : Option Int) (s : Spec) (batch : List (Tok × Nat)) (q : Nat) (p : Int) :
    visible W (KV.store s batch) q p = visible W s q p ++ visible W (KV.store [] batch) q p := by
  simp [visible, KV.store, List.filter_append]

/-- **Append-only use of a sliding-window cache exposes the ideal windowed history**: if two states agree on
    everything a query can see, they still do after any sequence of passes whose lowest positions (per
    sequence) are not above the query — whatever the passes evicted was already outside the query's window. -/
theorem runS_visible_eq_runI (w : Int) (ps : List Pass) (s i : Spec) (q : Nat) (p : Int)
    (h0 : (visible (some w) s q p).map key = (visible (some w) i q p).map key)
    (hnb : NotBelow ps q p) :
    (visible (some w) (runS w s ps) q p).map key = (visible (some w) (runI i ps) q p).map key := by
  induction ps generalizing s i with
  | nil => exact h0
  | cons pass rest ih =>
    obtain ⟨b, ids, acc⟩ := pass
    have hb : ∀ low, lowest b q = some low → low ≤ p := fun low hl => hnb (b, ids, acc) (by simp) low hl
    have hsl := specSlide_invisible_of_le s w b q p hb
    simp only [runS, runI]
    apply ih
    · cases acc with
      | true =>
        simp only [if_true]
        rw [visible_store, visible_store (some w) i, List.map_append, List.map_append, hsl, h0]
      | false =>
        simp only [Bool.false_eq_true, if_false]
        rw [hsl, h0]
    · exact fun x hx => hnb x (by simp [hx])

def fwdOps (bs : List (List Tok × List Nat)) : List HOp := bs.map (fun x => .fwd x.1 x.2)

/-- the passes of a forward-only history with the cache's answers -/
def annotate : Cache → List (List Tok × List Nat) → List Pass
  | _, [] => []
  | c, (b, ids) :: rest => (b, ids, accepted c (.fwd b ids)) :: annotate (stepH c (.fwd b ids)) rest

theorem runT_fwd (w : Int) (c : Cache) (s : Spec) (bs : List (List Tok × List Nat)) :
    runT (some w) c s (fwdOps bs) = runS w s (annotate c bs) := by
  induction bs generalizing c s with
  | nil => rfl
  | cons x rest ih =>
    obtain ⟨b, ids⟩ := x
    simp only [fwdOps, List.map_cons, runT, annotate, runS]
    have := ih (stepH c (.fwd b ids)) (specStepT (some w) s (.fwd b ids) (accepted c (.fwd b ids)))
    simp only [fwdOps] at this
    rw [this]
    rfl

/-- **"Nothing missing" for a sliding-window cache under append-only use** (repaired tree).  After any
    forward-only history (batches accepted or rejected, any placement, eviction, defragmentation), every token
    of the next accepted batch whose position is not below the lowest position an earlier pass had for its
    sequence is shown exactly the IDEAL windowed history: every entry ever stored for its sequence at a position
    ≤ its own and inside the window — the evictions the cache performed are invisible.  (What breaks this is
    exactly F15: a middle `Remove` shifts later positions below an earlier eviction threshold.) -/
theorem window_exact_append_only (v : Variant) (hv : v.fixDefrag = true) (hat : v.atomicRemove = true) (w : Int)
    (maxSeq capacity maxBatch cachePad batchPad : Nat) (hs : Bool) (bs : List (List Tok × List Nat))
    (b : List Tok) (ids : List Nat)
    (hsz : (Causal.init v (some w) maxSeq capacity maxBatch cachePad batchPad hs).cells.length ≤ maxInt)
    (hids : ids.length = b.length) (hwf : ∀ x ∈ bs, x.2.length = x.1.length) :
    let c0 := Causal.init v (some w) maxSeq capacity maxBatch cachePad batchPad hs
    let c := (fwdOps bs).foldl stepH c0
    (startForward c b).2 = .ok →
    ∀ t ∈ b, NotBelow (annotate c0 bs) t.seq t.pos →
      ((exposedEntries (put (startForward c b).1 ids) t).map key).Perm
        ((visible (some w) (KV.store (runI [] (annotate c0 bs)) (b.zip ids)) t.seq t.pos).map key) := by
  intro c0 c hok t ht hnb
  have hwf' : ∀ op ∈ fwdOps bs, WellFormed op := by
    intro op hop
    simp only [fwdOps, List.mem_map] at hop
    obtain ⟨x, hx, rfl⟩ := hop
    exact hwf x hx
  have h1 := history_exposes_spec_total v hv hat (some w) maxSeq capacity maxBatch cachePad batchPad hs (fwdOps bs) b ids
    hsz hids hwf' hok t ht
  refine h1.trans ?_
  have hrun : runT (some w) c0 [] (fwdOps bs) = runS w [] (annotate c0 bs) := runT_fwd w c0 [] bs
  rw [hrun, visible_store, visible_store (some w) (runI [] (annotate c0 bs)), List.map_append, List.map_append,
    runS_visible_eq_runI w (annotate c0 bs) [] [] t.seq t.pos rfl hnb]

/-- operations of append-only use: forward passes, SetCausal, reserve passes (no CopyPrefix, no Remove) -/
def AppendOnly : HOp → Prop
  | .fwd _ _ => True
  | .sc _ => True
  | .rsv _ => True
  | _ => False

/-- the forward passes of a history with the cache's answers (SetCausal / reserve passes store nothing) -/
def annotateOps : Cache → List HOp → List Pass
  | _, [] => []
  | c, op :: rest =>
    match op with
    | .fwd b ids => (b, ids, accepted c (.fwd b ids)) :: annotateOps (stepH c op) rest
    | _ => annotateOps (stepH c op) rest

theorem runT_appendOnly (w : Int) (c : Cache) (s : Spec) (ops : List HOp) (h : ∀ op ∈ ops, AppendOnly op) :
    runT (some w) c s ops = runS w s (annotateOps c ops) := by
  induction ops generalizing c s with
  | nil => rfl
  | cons op rest ih =>
    have hop := h op (by simp)
    have ih' := fun c s => ih c s (fun o ho => h o (by simp [ho]))
    cases op with
    | fwd b ids =>
      simp only [runT, annotateOps, runS]
      rw [ih']
      rfl
    | cp src dst len => exact absurd hop (by simp [AppendOnly])
    | rm seq b e => exact absurd hop (by simp [AppendOnly])
    | sc ex =>
      simp only [runT, annotateOps]
      rw [ih']
      rfl
    | rsv b =>
      simp only [runT, annotateOps]
      rw [ih']
      rfl

/-- **"Nothing missing" under append-only use, with SetCausal and reserve passes in the history** (repaired
    tree): the generalisation of `window_exact_append_only` from forward-only histories to every history without
    CopyPrefix / Remove. -/
theorem window_exact_append_only_ops (v : Variant) (hv : v.fixDefrag = true) (hat : v.atomicRemove = true) (w : Int)
    (maxSeq capacity maxBatch cachePad batchPad : Nat) (hs : Bool) (ops : List HOp)
    (b : List Tok) (ids : List Nat)
    (hsz : (Causal.init v (some w) maxSeq capacity maxBatch cachePad batchPad hs).cells.length ≤ maxInt)
    (hids : ids.length = b.length) (hwf : ∀ op ∈ ops, WellFormed op) (hao : ∀ op ∈ ops, AppendOnly op) :
    let c0 := Causal.init v (some w) maxSeq capacity maxBatch cachePad batchPad hs
    let c := ops.foldl stepH c0
    (startForward c b).2 = .ok →
    ∀ t ∈ b, NotBelow (annotateOps c0 ops) t.seq t.pos →
      ((exposedEntries (put (startForward c b).1 ids) t).map key).Perm
        ((visible (some w) (KV.store (runI [] (annotateOps c0 ops)) (b.zip ids)) t.seq t.pos).map key) := by
  intro c0 c hok t ht hnb
  have h1 := history_exposes_spec_total v hv hat (some w) maxSeq capacity maxBatch cachePad batchPad hs ops b ids
    hsz hids hwf hok t ht
  refine h1.trans ?_
  rw [runT_appendOnly w c0 [] ops hao, visible_store, visible_store (some w) (runI [] (annotateOps c0 ops)),
    List.map_append, List.map_append, runS_visible_eq_runI w (annotateOps c0 ops) [] [] t.seq t.pos rfl hnb]

/-! ### `CanResume` (repaired, F15b) is sound: an approved position has its whole window present -/

theorem nodup_range_length (n : Nat) (lo : Int) (L : List Int) (hnd : L.Nodup)
    (hin : ∀ x ∈ L, lo ≤ x ∧ x < lo + n) : L.length ≤ n := by
  induction n generalizing L with
  | zero =>
    cases L with
    | nil => simp
    | cons x xs => have := hin x (by simp); omega
  | succ n ih =>
    by_cases hm : (lo + (n : Int)) ∈ L
    · have h1 := ih (L.erase (lo + n)) (hnd.erase _) (by
        intro x hx
        have := (hnd.mem_erase_iff).mp hx
        have h2 := hin x this.2
        omega)
      rw [List.length_erase_of_mem hm] at h1
      omega
    · have h1 := ih L hnd (by
        intro x hx
        have h2 := hin x hx
        have : x ≠ lo + n := by intro he; subst he; exact hm hx
        omega)
      omega

/-- pigeonhole: `n` distinct integers inside an interval of `n` integers fill it -/
theorem pigeon (n : Nat) (lo : Int) (L : List Int) (hnd : L.Nodup) (hin : ∀ x ∈ L, lo ≤ x ∧ x < lo + n)
    (hlen : L.length = n) (p : Int) (hp : lo ≤ p ∧ p < lo + n) : p ∈ L := by
  apply Classical.byContradiction
  intro hnot
  have := nodup_range_length n lo (p :: L) (List.nodup_cons.mpr ⟨hnot, hnd⟩) (by
    intro x hx
    rcases List.mem_cons.mp hx with rfl | hx
    · exact hp
    · exact hin x hx)
  simp at this
  omega

/-- the positions the sequence holds -/
def seqPositions (s : Spec) (seq : Nat) : List Int := (s.filter (fun e => decide (seq ∈ e.seqs))).map (·.pos)

/-- how many of them lie in `[lo, hi)` -/
def specCount (s : Spec) (seq : Nat) (lo hi : Int) : Nat :=
  ((seqPositions s seq).filter (fun p => decide (lo ≤ p ∧ p < hi))).length

/-- if a sequence holds no position twice and as many positions in `[lo, hi)` as the interval is long,
    it holds every position of the interval -/
theorem window_present (s : Spec) (seq : Nat) (lo hi : Int) (hnd : (seqPositions s seq).Nodup)
    (hc : (specCount s seq lo hi : Int) = hi - lo) (p : Int) (h1 : lo ≤ p) (h2 : p < hi) :
    ∃ e ∈ s, seq ∈ e.seqs ∧ e.pos = p := by
  have hn : hi - lo = ((hi - lo).toNat : Int) := by omega
  have hmem := pigeon (hi - lo).toNat lo ((seqPositions s seq).filter (fun p => decide (lo ≤ p ∧ p < hi)))
    (hnd.sublist List.filter_sublist) (by
      intro x hx
      have := (List.mem_filter.mp hx).2
      simp only [decide_eq_true_eq] at this
      omega) (by unfold specCount at hc; omega) p (by omega)
  have hp := (List.mem_filter.mp hmem).1
  unfold seqPositions at hp
  obtain ⟨e, he, hpe⟩ := List.mem_map.mp hp
  have := List.mem_filter.mp he
  exact ⟨e, this.1, by simpa using this.2, hpe⟩

/-- counting over cells (no index, no range) -/
def cntCells (seq : Nat) (lo hi : Int) (cells : List Cell) : Nat :=
  (cells.filter (fun x => decide (seq ∈ x.seqs ∧ lo ≤ x.pos ∧ x.pos < hi))).length

theorem countFrom_cnt (seq : Nat) (r : Range) (lo hi : Int) (i : Nat) (cells : List Cell) (acc : Int)
    (hcov : ∀ k (hk : k < cells.length), seq ∈ cells[k].seqs → r.min ≤ i + k ∧ i + k ≤ r.max) :
    countFrom seq r lo hi i cells acc = acc + cntCells seq lo hi cells := by
  induction cells generalizing i acc with
  | nil => simp [countFrom, cntCells]
  | cons x xs ih =>
    have h0 := hcov 0 (by simp)
    simp only [List.getElem_cons_zero, Nat.add_zero] at h0
    rw [countFrom, ih (i + 1) _ (by
      intro k hk hs
      have := hcov (k + 1) (by simpa using hk) (by simpa using hs)
      omega)]
    unfold cntCells
    by_cases hx : seq ∈ x.seqs ∧ lo ≤ x.pos ∧ x.pos < hi
    · have hr := h0 hx.1
      rw [if_pos ⟨hr.1, hr.2, hx⟩, List.filter_cons_of_pos (by simpa using hx)]
      simp only [List.length_cons]
      omega
    · rw [if_neg (by intro hh; exact hx hh.2.2), List.filter_cons_of_neg (by simpa using hx)]

theorem specCount_abs (seq : Nat) (lo hi : Int) (cells : List Cell) (rows : List Row) (hlen : cells.length = rows.length) :
    specCount ((cells.zip rows).filterMap entryOf) seq lo hi = cntCells seq lo hi cells := by
  induction cells generalizing rows with
  | nil => simp [specCount, seqPositions, cntCells]
  | cons x xs ih =>
    cases rows with
    | nil => simp at hlen
    | cons r rs =>
      have := ih rs (by simpa using hlen)
      unfold specCount seqPositions cntCells at this ⊢
      simp only [List.zip_cons_cons, List.filterMap_cons, entryOf]
      by_cases h0 : x.seqs = []
      · simp only [h0, if_true]
        rw [List.filter_cons_of_neg (by simp [h0])]
        exact this
      · simp only [h0, if_false]
        by_cases hs : seq ∈ x.seqs
        · rw [List.filter_cons_of_pos (by simpa using hs)]
          simp only [List.map_cons]
          by_cases hp : lo ≤ x.pos ∧ x.pos < hi
          · rw [List.filter_cons_of_pos (by simpa using hp), List.filter_cons_of_pos (by simp [hs, hp])]
            simp only [List.length_cons]
            omega
          · rw [List.filter_cons_of_neg (by simpa using hp), List.filter_cons_of_neg (by simp [hs]; omega)]
            exact this
        · rw [List.filter_cons_of_neg (by simpa using hs), List.filter_cons_of_neg (by simp [hs])]
          exact this

/-- **`CanResume` is sound** (repaired variant `fixResume`, F15b): if a sliding-window cache approves resuming
    sequence `seq` at `pos`, every position of the window below `pos` — `max 0 (pos − W) ≤ p < pos` — is held
    by the sequence, so the resumed token will be shown a complete window.  `hnd`: the sequence holds no
    position twice (true for every history in which positions continue their sequence). -/
theorem canResume_sound (c : Cache) (seq : Nat) (pos w : Int) (h : Inv c) (hw : c.window = some w)
    (hfix : c.v.fixResume = true) (hnd : (seqPositions (abs c) seq).Nodup)
    (hres : canResume c seq pos = true) (p : Int) (h1 : max 0 (pos - w) ≤ p) (h2 : p < pos) :
    ∃ e ∈ abs c, seq ∈ e.seqs ∧ e.pos = p := by
  unfold canResume at hres
  simp only [hw] at hres
  cases hr : c.ranges seq with
  | none => simp [hr] at hres
  | some r =>
    simp only [hr] at hres
    split at hres
    · cases hres
    · simp only [hfix, Bool.not_true, Bool.false_or, Bool.and_eq_true, decide_eq_true_eq] at hres
      have hcnt := hres.2
      rw [countFrom_cnt seq r _ _ 0 c.cells 0 (by
        intro k hk hs
        obtain ⟨r', hr', hmin, hmax⟩ := h.cover k hk seq hs
        rw [hr] at hr'; cases hr'
        omega)] at hcnt
      apply window_present (abs c) seq (max 0 (pos - w)) pos hnd _ p h1 h2
      unfold abs
      rw [specCount_abs seq _ _ c.cells c.rows h.len]
      omega

/-! ### an approved resume is shown a complete window -/

/-- a removal to the end keeps every entry below the cut -/
theorem mem_abs_remove_inf (c : Cache) (seq : Nat) (pos : Int) (hpb : PosBound c.cells) (e : Entry)
    (he : e ∈ abs c) (hlt : e.pos < pos) : e ∈ abs (Causal.remove c seq pos maxInt32).1 := by
  obtain ⟨h1, h2, _⟩ := remove_inf c seq pos hpb
  unfold abs at he ⊢
  rw [h1, h2]
  obtain ⟨⟨x, r⟩, hxr, hent⟩ := List.mem_filterMap.mp he
  have hxpos : x.pos = e.pos := by
    unfold entryOf at hent
    split at hent
    · cases hent
    · cases hent; rfl
  have hsame : rmInf seq pos x = x := by
    unfold rmInf
    rw [if_neg]
    intro hh
    omega
  refine List.mem_filterMap.mpr ⟨(x, r), ?_, hent⟩
  rw [List.zip_map_left]
  refine List.mem_map.mpr ⟨(x, r), hxr, ?_⟩
  simp [Prod.map, hsame]

/-- **An approved resume is shown a complete window** (repaired tree).  If a sliding-window cache approves
    `CanResume(seq, pos)`, the caller cuts the sequence back with `Remove(seq, pos, MaxInt32)` and the next
    accepted batch contains the token `(seq, pos)`, then for every position of that token's window below it —
    `max 0 (pos − W) ≤ p < pos` — the token is shown an entry at position `p`: the resumed token attends to a
    complete window (this is what F15b violated). -/
theorem approved_resume_sees_complete_window (c : Cache) (seq : Nat) (pos w : Int) (h : Inv c)
    (hw : c.window = some w) (hfix : c.v.fixDefrag = true) (hfr : c.v.fixResume = true) (hr : RowsFresh c)
    (hpb : PosBound c.cells) (hnd : (seqPositions (abs c) seq).Nodup) (hres : canResume c seq pos = true)
    (b : List Tok) (ids : List Nat) (hids : ids.length = b.length) (ht : (⟨seq, pos⟩ : Tok) ∈ b)
    (hok : (startForward (removeV c seq pos maxInt32).1 b).2 = .ok) (p : Int) (h1 : max 0 (pos - w) ≤ p) (h2 : p < pos) :
    ∃ k ∈ (exposedEntries (put (startForward (removeV c seq pos maxInt32).1 b).1 ids) ⟨seq, pos⟩).map key, k.1 = p := by
  obtain ⟨e, he, hes, hep⟩ := canResume_sound c seq pos w h hw hfr hnd hres p h1 h2
  have hrv : removeV c seq pos maxInt32 = Causal.remove c seq pos maxInt32 := removeV_inf c seq pos hpb
  rw [hrv] at hok ⊢
  have he1 : e ∈ abs (Causal.remove c seq pos maxInt32).1 := mem_abs_remove_inf c seq pos hpb e he (by omega)
  have hf := remove_fields c seq pos maxInt32
  have hinv1 := remove_inv c seq pos maxInt32 h
  have hr1 : RowsFresh (Causal.remove c seq pos maxInt32).1 := rowsFresh_of c _ hr hf.2.2.1 hf.2.2.2
  have hperm := forward_exposes_stored_history_defrag (Causal.remove c seq pos maxInt32).1 b ids hinv1 hids
    (by rw [hf.1]; exact hfix) hr1 hok ⟨seq, pos⟩ ht
  refine ⟨key e, hperm.mem_iff.mpr ?_, hep⟩
  apply List.mem_map.mpr
  refine ⟨e, ?_, rfl⟩
  rw [hf.2.1, hw]
  simp only [visible, KV.store, List.filter_append, List.mem_append, List.mem_filter]
  left
  refine ⟨he1, ?_⟩
  have h3 : ¬ e.pos > pos := by omega
  have h4 : ¬ e.pos < pos - w := by omega
  simp [vis, inWindow, hes, h3, h4]

/-! ### `ErrKvCacheFull` in location-free terms -/

theorem slide_cells_length (c : Cache) (b : List Tok) : (slide c b).cells.length = c.cells.length := by
  unfold slide
  cases c.window with
  | none => rfl
  | some w =>
    simp only
    generalize batchSeqs b = seqs
    induction seqs generalizing c with
    | nil => rfl
    | cons seq rest ih =>
      simp only [List.foldl_cons]
      cases lowest b seq with
      | none => exact ih c
      | some low =>
        rw [ih (slideSeq c w seq low)]
        unfold slideSeq; cases c.ranges seq <;> simp [length_mapFrom]

/-- **`ErrKvCacheFull` in location-free terms**: a non-empty batch is rejected only if the entries the cache
    holds (after the window eviction of the pass) plus the batch exceed the number of cells — no matter how the
    entries are spread over the cells. -/
theorem full_only_over_capacity (c : Cache) (b : List Tok) (h : Inv c) (hfix : c.v.fixDefrag = true)
    (hb : b ≠ []) (hfull : (startForward c b).2 = .full) :
    c.cells.length < (evictedSpec c b).length + b.length := by
  have h1 : Inv (slide { c with curBatch := b, except := [] } b) := slide_inv _ b ⟨h.len, h.cover, h.rmax, h.pad, h.size⟩
  have hfree := full_only_without_room c b h hfix hb hfull
  have hsl : abs (slide { c with curBatch := b, except := [] } b) = evictedSpec c b :=
    slide_abs { c with curBatch := b, except := [] } b ⟨h.len, h.cover, h.rmax, h.pad, h.size⟩
  have hlen := length_abs_zip (slide { c with curBatch := b, except := [] } b).cells
    (slide { c with curBatch := b, except := [] } b).rows h1.len
  have hcl : (slide { c with curBatch := b, except := [] } b).cells.length = c.cells.length :=
    slide_cells_length { c with curBatch := b, except := [] } b
  rw [← hsl]
  unfold abs
  omega

/-! ### positions stay below `MaxInt32` along histories that keep the contract -/

def PosBoundS (s : Spec) : Prop := ∀ e ∈ s, e.pos < maxInt32

/-- the cell-level bound follows from the bound on the abstract state -/
theorem posBound_of_abs (c : Cache) (hlen : c.cells.length = c.rows.length) (h : PosBoundS (abs c)) :
    PosBound c.cells := by
  intro x hx s hs
  obtain ⟨j, hj, rfl⟩ := List.getElem_of_mem hx
  have hjr : j < c.rows.length := by omega
  have hmem : (c.cells[j], c.rows[j]) ∈ c.cells.zip c.rows := by
    rw [List.mem_iff_getElem]
    exact ⟨j, by simp [List.length_zip]; omega, by simp⟩
  have hne : c.cells[j].seqs ≠ [] := by intro h0; rw [h0] at hs; simp at hs
  have : (⟨c.cells[j].seqs, c.cells[j].pos, c.rows[j].id, c.rows[j].shift⟩ : Entry) ∈ abs c := by
    unfold abs
    exact List.mem_filterMap.mpr ⟨_, hmem, by simp [entryOf, hne]⟩
  exact h _ this

theorem posBoundS_filterMap (f : Entry → Option Entry) (hf : ∀ x y, f x = some y → y.pos ≤ x.pos) (s : Spec)
    (h : PosBoundS s) : PosBoundS (s.filterMap f) := by
  intro y hy
  obtain ⟨x, hx, hxy⟩ := List.mem_filterMap.mp hy
  have := hf x y hxy
  have := h x hx
  omega

/-- positions of the batch are below `MaxInt32`; a removal does not shift upwards -/
def BoundedOp : HOp → Prop
  | .fwd b _ => ∀ t ∈ b, t.pos < maxInt32
  | .rm _ b e => b ≤ e
  | _ => True

theorem posBoundS_specStepT (W : Option Int) (s : Spec) (op : HOp) (acc : Bool) (h : PosBoundS s)
    (hb : BoundedOp op) : PosBoundS (specStepT W s op acc) := by
  have hev : ∀ (s : Spec) seq thr, PosBoundS s → PosBoundS (evict s seq thr) := by
    intro s seq thr hs
    apply posBoundS_filterMap _ _ s hs
    intro x y hxy
    unfold evictEntry at hxy
    split at hxy
    · simp only at hxy
      split at hxy
      · cases hxy
      · cases hxy; exact Int.le_refl _
    · cases hxy; exact Int.le_refl _
  cases op with
  | fwd b ids =>
    have h1 : PosBoundS (match W with | none => s | some w => specSlide s w b) := by
      cases W with
      | none => exact h
      | some w =>
        simp only
        unfold specSlide
        generalize batchSeqs b = seqs
        induction seqs generalizing s with
        | nil => exact h
        | cons seq rest ih =>
          simp only [List.foldl_cons]
          cases lowest b seq with
          | none => exact ih s h
          | some low => exact ih _ (hev s seq _ h)
    simp only [specStepT]
    split
    · intro e he
      simp only [KV.store, List.mem_append, List.mem_map] at he
      rcases he with he | ⟨t, ht, rfl⟩
      · exact h1 e he
      · exact hb t.1 (List.of_mem_zip ht).1
    · exact h1
  | cp src dst len =>
    apply posBoundS_filterMap _ _ s h
    intro x y hxy
    unfold cpEntry at hxy
    simp only at hxy
    split at hxy
    · cases hxy
    · cases hxy; exact Int.le_refl _
  | rm seq b e =>
    have hbe : b ≤ e := hb
    simp only [specStepT]
    split
    · cases hr : KV.remove s seq b e with
      | none => exact h
      | some s' =>
        simp only [Option.getD_some]
        unfold KV.remove at hr
        split at hr
        · cases hr
        · cases hr
          apply posBoundS_filterMap _ _ s h
          intro x y hxy
          unfold rmEntry at hxy
          split at hxy
          · split at hxy
            · simp only at hxy
              split at hxy
              · cases hxy
              · cases hxy; exact Int.le_refl _
            · split at hxy
              · cases hxy
                simp only [rmOffset]
                split <;> omega
              · cases hxy; exact Int.le_refl _
          · cases hxy; exact Int.le_refl _
    · exact h
  | sc ex => exact h
  | rsv b => exact h

theorem posBoundS_runT (W : Option Int) (c : Cache) (s : Spec) (ops : List HOp) (h : PosBoundS s)
    (hb : ∀ op ∈ ops, BoundedOp op) : PosBoundS (runT W c s ops) := by
  induction ops generalizing c s with
  | nil => exact h
  | cons op rest ih =>
    exact ih _ _ (posBoundS_specStepT W s op _ h (hb op (by simp))) (fun o ho => hb o (by simp [ho]))

/-- **Positions stay below the `MaxInt32` sentinel** in every cell, along every history (repaired tree) whose
    batches have positions below it and whose removals have `begin ≤ end` — the `PosBound` hypothesis of the
    unwind / resume theorems is an invariant of such histories. -/
theorem posBound_run (v : Variant) (hv : v.fixDefrag = true) (hat : v.atomicRemove = true) (w : Option Int)
    (maxSeq capacity maxBatch cachePad batchPad : Nat) (hs : Bool) (ops : List HOp)
    (hsz : (Causal.init v w maxSeq capacity maxBatch cachePad batchPad hs).cells.length ≤ maxInt)
    (hwf : ∀ op ∈ ops, WellFormed op) (hb : ∀ op ∈ ops, BoundedOp op) :
    PosBound (ops.foldl stepH (Causal.init v w maxSeq capacity maxBatch cachePad batchPad hs)).cells := by
  have hinv := inv_run _ ops (inv_init v w maxSeq capacity maxBatch cachePad batchPad hs hsz)
  have hperm := refines_run_total (Causal.init v w maxSeq capacity maxBatch cachePad batchPad hs) ops []
    (by rw [abs_init]) (inv_init v w maxSeq capacity maxBatch cachePad batchPad hs hsz) hv hat
    (rowsFresh_init v w maxSeq capacity maxBatch cachePad batchPad hs)
    (freshEmpty_init v w maxSeq capacity maxBatch cachePad batchPad hs) hwf
  apply posBound_of_abs _ hinv.len
  intro e he
  exact posBoundS_runT _ _ [] ops (fun e he => by simp at he) hb e (hperm.mem_iff.mp he)

/-! ### no sequence holds a position twice, along histories that keep the contract -/

def NodupPos (s : Spec) : Prop := ∀ q, (seqPositions s q).Nodup

/-- entries are only dropped or lose owners, positions stay: what `q` holds afterwards is a sublist of what
    `r` held before -/
theorem seqPositions_filterMap_sublist (f : Entry → Option Entry) (q r : Nat)
    (hf : ∀ x y, f x = some y → y.pos = x.pos ∧ (q ∈ y.seqs → r ∈ x.seqs)) (s : Spec) :
    (seqPositions (s.filterMap f) q).Sublist (seqPositions s r) := by
  induction s with
  | nil => exact List.Sublist.refl _
  | cons x xs ih =>
    unfold seqPositions at ih ⊢
    simp only [List.filterMap_cons]
    cases hfx : f x with
    | none =>
      simp only
      by_cases hr : r ∈ x.seqs
      · rw [List.filter_cons_of_pos (by simpa using hr), List.map_cons]
        exact List.Sublist.cons _ ih
      · rw [List.filter_cons_of_neg (by simpa using hr)]
        exact ih
    | some y =>
      simp only
      obtain ⟨hp, hm⟩ := hf x y hfx
      by_cases hq : q ∈ y.seqs
      · rw [List.filter_cons_of_pos (by simpa using hq), List.filter_cons_of_pos (by simpa using hm hq),
          List.map_cons, List.map_cons, hp]
        exact List.Sublist.cons_cons _ ih
      · rw [List.filter_cons_of_neg (by simpa using hq)]
        by_cases hr : r ∈ x.seqs
        · rw [List.filter_cons_of_pos (by simpa using hr), List.map_cons]
          exact List.Sublist.cons _ ih
        · rw [List.filter_cons_of_neg (by simpa using hr)]
          exact ih

theorem nodupPos_evict (s : Spec) (seq : Nat) (thr : Int) (h : NodupPos s) : NodupPos (evict s seq thr) := by
  intro q
  refine (h q).sublist (seqPositions_filterMap_sublist _ q q ?_ s)
  intro x y hxy
  unfold evictEntry at hxy
  split at hxy
  · simp only at hxy
    split at hxy
    · cases hxy
    · cases hxy; exact ⟨rfl, fun hq => (List.mem_filter.mp hq).1⟩
  · cases hxy; exact ⟨rfl, id⟩

theorem nodupPos_specSlide (s : Spec) (w : Int) (b : List Tok) (h : NodupPos s) : NodupPos (specSlide s w b) := by
  unfold specSlide
  generalize batchSeqs b = seqs
  induction seqs generalizing s with
  | nil => exact h
  | cons seq rest ih =>
    simp only [List.foldl_cons]
    cases lowest b seq with
    | none => exact ih s h
    | some low => exact ih _ (nodupPos_evict s seq _ h)

/-- a removal to the end (`MaxInt32`: nothing shifts) only drops owners -/
theorem nodupPos_remove_inf (s s' : Spec) (seq : Nat) (b : Int) (h : NodupPos s)
    (hr : KV.remove s seq b maxInt32 = some s') : NodupPos s' := by
  unfold KV.remove at hr
  split at hr
  · cases hr
  · cases hr
    intro q
    refine (h q).sublist (seqPositions_filterMap_sublist _ q q ?_ s)
    intro x y hxy
    unfold rmEntry at hxy
    split at hxy
    · split at hxy
      · simp only at hxy
        split at hxy
        · cases hxy
        · cases hxy; exact ⟨rfl, fun hq => (List.mem_filter.mp hq).1⟩
      · split at hxy
        · cases hxy; exact ⟨by simp [rmOffset], id⟩
        · cases hxy; exact ⟨rfl, id⟩
    · cases hxy; exact ⟨rfl, id⟩

theorem nodupPos_copyPrefix (s : Spec) (src dst : Nat) (len : Int) (h : NodupPos s) :
    NodupPos (KV.copyPrefix s src dst len) := by
  intro q
  by_cases hq : q = dst
  · subst hq
    refine (h src).sublist (seqPositions_filterMap_sublist _ q src ?_ s)
    intro x y hxy
    unfold cpEntry at hxy
    simp only at hxy
    split at hxy
    · cases hxy
    · cases hxy
      refine ⟨rfl, fun hm => ?_⟩
      unfold cpSeqs at hm
      simp only at hm
      split at hm
      · rename_i hc; exact (List.mem_filter.mp hc.1).1
      · exact absurd hm (by simp)
  · refine (h q).sublist (seqPositions_filterMap_sublist _ q q ?_ s)
    intro x y hxy
    unfold cpEntry at hxy
    simp only at hxy
    split at hxy
    · cases hxy
    · cases hxy
      refine ⟨rfl, fun hm => ?_⟩
      rcases mem_cpSeqs hm with h1 | h1
      · exact absurd h1 hq
      · exact h1

/-- the batch brings, for every sequence, positions that are new to it and pairwise distinct -/
def FreshPositions (s : Spec) (b : List Tok) : Prop :=
  ∀ q, ((b.filter (fun t => decide (t.seq = q))).map (·.pos)).Nodup ∧
    ∀ t ∈ b, t.seq = q → ∀ p ∈ seqPositions s q, p ≠ t.pos

theorem seqPositions_store (s : Spec) (batch : List (Tok × Nat)) (q : Nat) :
    seqPositions (KV.store s batch) q = seqPositions s q ++ ((batch.map (·.1)).filter (fun t => decide (t.seq = q))).map (·.pos) := by
  unfold seqPositions KV.store
  rw [List.filter_append, List.map_append]
  congr 1
  induction batch with
  | nil => rfl
  | cons x xs ih =>
    simp only [List.map_cons]
    by_cases hx : x.1.seq = q
    · rw [List.filter_cons_of_pos (by simp [hx]), List.filter_cons_of_pos (by simp [hx]), List.map_cons, List.map_cons, ih]
    · rw [List.filter_cons_of_neg (by simp; exact fun h => hx h.symm), List.filter_cons_of_neg (by simp [hx]), ih]

theorem nodupPos_store (s : Spec) (b : List Tok) (ids : List Nat) (hids : ids.length = b.length) (h : NodupPos s)
    (hf : FreshPositions s b) : NodupPos (KV.store s (b.zip ids)) := by
  intro q
  have hb : (b.zip ids).map (·.1) = b := by
    rw [List.map_fst_zip]; omega
  rw [seqPositions_store, hb, List.nodup_append]
  refine ⟨h q, (hf q).1, ?_⟩
  intro a ha p hp
  obtain ⟨t, ht, rfl⟩ := List.mem_map.mp hp
  have ht' := List.mem_filter.mp ht
  exact (hf q).2 t ht'.1 (by simpa using ht'.2) a ha

theorem freshPositions_of_sublist (s s' : Spec) (b : List Tok) (hsub : ∀ q, (seqPositions s' q).Sublist (seqPositions s q))
    (h : FreshPositions s b) : FreshPositions s' b :=
  fun q => ⟨(h q).1, fun t ht hq p hp => (h q).2 t ht hq p ((hsub q).subset hp)⟩

theorem seqPositions_evict_sublist (s : Spec) (seq : Nat) (thr : Int) (q : Nat) :
    (seqPositions (evict s seq thr) q).Sublist (seqPositions s q) := by
  refine seqPositions_filterMap_sublist _ q q ?_ s
  intro x y hxy
  unfold evictEntry at hxy
  split at hxy
  · simp only at hxy
    split at hxy
    · cases hxy
    · cases hxy; exact ⟨rfl, fun hq => (List.mem_filter.mp hq).1⟩
  · cases hxy; exact ⟨rfl, id⟩

theorem seqPositions_specSlide_sublist (s : Spec) (w : Int) (b : List Tok) (q : Nat) :
    (seqPositions (specSlide s w b) q).Sublist (seqPositions s q) := by
  unfold specSlide
  generalize batchSeqs b = seqs
  induction seqs generalizing s with
  | nil => exact List.Sublist.refl _
  | cons seq rest ih =>
    simp only [List.foldl_cons]
    cases lowest b seq with
    | none => exact ih s
    | some low => exact (ih _).trans (seqPositions_evict_sublist s seq _ q)

/-- `FreshPositions` with the quantifier bounded by the batch (decidable) -/
def FreshPositionsB (s : Spec) (b : List Tok) : Prop :=
  ∀ t0 ∈ b, ((b.filter (fun t => decide (t.seq = t0.seq))).map (·.pos)).Nodup ∧
    ∀ t ∈ b, t.seq = t0.seq → ∀ p ∈ seqPositions s t0.seq, p ≠ t.pos

instance (s : Spec) (b : List Tok) : Decidable (FreshPositionsB s b) := by unfold FreshPositionsB; infer_instance

theorem freshPositions_of_bounded (s : Spec) (b : List Tok) (h : FreshPositionsB s b) : FreshPositions s b := by
  intro q
  by_cases hq : ∃ t0 ∈ b, t0.seq = q
  · obtain ⟨t0, ht0, rfl⟩ := hq
    exact h t0 ht0
  · have hnone : b.filter (fun t => decide (t.seq = q)) = [] := by
      rw [List.filter_eq_nil_iff]
      intro t ht hts
      exact hq ⟨t, ht, by simpa using hts⟩
    refine ⟨by rw [hnone]; exact List.nodup_nil, fun t ht hts => absurd ⟨t, ht, hts⟩ hq⟩

/-- the history keeps the contract under which positions stay distinct: batches bring new, distinct positions
    for their sequences; removals go to the end (`MaxInt32`; a middle removal shifts positions) -/
def OnContract (s : Spec) : HOp → Prop
  | .fwd b _ => FreshPositionsB s b
  | .rm _ _ e => e = maxInt32
  | _ => True

theorem nodupPos_specStepT (W : Option Int) (s : Spec) (op : HOp) (acc : Bool) (h : NodupPos s)
    (hc : OnContract s op) (hwf : WellFormed op) : NodupPos (specStepT W s op acc) := by
  cases op with
  | fwd b ids =>
    have h1 : NodupPos (match W with | none => s | some w => specSlide s w b) ∧
        FreshPositions (match W with | none => s | some w => specSlide s w b) b := by
      cases W with
      | none => exact ⟨h, freshPositions_of_bounded s b hc⟩
      | some w => exact ⟨nodupPos_specSlide s w b h,
          freshPositions_of_sublist s _ b (seqPositions_specSlide_sublist s w b) (freshPositions_of_bounded s b hc)⟩
    simp only [specStepT]
    split
    · exact nodupPos_store _ b ids hwf h1.1 h1.2
    · exact h1.1
  | cp src dst len => exact nodupPos_copyPrefix s src dst len h
  | rm seq b e =>
    have he : e = maxInt32 := hc
    subst he
    simp only [specStepT]
    split
    · cases hr : KV.remove s seq b maxInt32 with
      | none => exact h
      | some s' => exact nodupPos_remove_inf s s' seq b h hr
    · exact h
  | sc ex => exact h
  | rsv b => exact h

/-- the contract along a history (stated on the location-free state, next to the cache's answers) -/
def ContractRun (W : Option Int) : Cache → Spec → List HOp → Prop
  | _, _, [] => True
  | c, s, op :: ops => OnContract s op ∧ WellFormed op ∧ ContractRun W (stepH c op) (specStepT W s op (accepted c op)) ops

theorem contractRun_wf (W : Option Int) (c : Cache) (s : Spec) (ops : List HOp) (h : ContractRun W c s ops) :
    ∀ op ∈ ops, WellFormed op := by
  induction ops generalizing c s with
  | nil => intro op hop; simp at hop
  | cons o rest ih =>
    intro op hop
    rcases List.mem_cons.mp hop with rfl | hop
    · exact h.2.1
    · exact ih _ _ h.2.2 op hop

theorem nodupPos_runT (W : Option Int) (c : Cache) (s : Spec) (ops : List HOp) (h : NodupPos s)
    (hc : ContractRun W c s ops) : NodupPos (runT W c s ops) := by
  induction ops generalizing c s with
  | nil => exact h
  | cons op rest ih =>
    exact ih _ _ (nodupPos_specStepT W s op _ h hc.1 hc.2.1) hc.2.2

/-- **`CanResume` is sound along every history that keeps the contract** (repaired tree, sliding window `w`):
    no hypothesis about the cache state is left — if `CanResume(seq, pos)` approves, every position of the window
    below `pos` is held by the sequence. -/
theorem canResume_sound_on_contract (v : Variant) (hv : v.fixDefrag = true) (hat : v.atomicRemove = true)
    (hfr : v.fixResume = true) (w : Int) (maxSeq capacity maxBatch cachePad batchPad : Nat) (hs : Bool) (ops : List HOp)
    (hsz : (Causal.init v (some w) maxSeq capacity maxBatch cachePad batchPad hs).cells.length ≤ maxInt)
    (hc : ContractRun (some w) (Causal.init v (some w) maxSeq capacity maxBatch cachePad batchPad hs) [] ops)
    (seq : Nat) (pos : Int) :
    let c := ops.foldl stepH (Causal.init v (some w) maxSeq capacity maxBatch cachePad batchPad hs)
    canResume c seq pos = true → ∀ p, max 0 (pos - w) ≤ p → p < pos → ∃ e ∈ abs c, seq ∈ e.seqs ∧ e.pos = p := by
  intro c hres p h1 h2
  have hinv := inv_run _ ops (inv_init v (some w) maxSeq capacity maxBatch cachePad batchPad hs hsz)
  have hperm := refines_run_total (Causal.init v (some w) maxSeq capacity maxBatch cachePad batchPad hs) ops []
    (by rw [abs_init]) (inv_init v (some w) maxSeq capacity maxBatch cachePad batchPad hs hsz) hv hat
    (rowsFresh_init v (some w) maxSeq capacity maxBatch cachePad batchPad hs)
    (freshEmpty_init v (some w) maxSeq capacity maxBatch cachePad batchPad hs) (contractRun_wf _ _ _ _ hc)
  have hnd0 : NodupPos (runT (some w) (Causal.init v (some w) maxSeq capacity maxBatch cachePad batchPad hs) [] ops) :=
    nodupPos_runT _ _ [] ops (fun q => by simp [seqPositions]) hc
  have hnd : (seqPositions (abs c) seq).Nodup := by
    have hp : (seqPositions (abs c) seq).Perm (seqPositions (runT (some w) _ [] ops) seq) :=
      (hperm.filter _).map _
    exact hp.nodup_iff.mpr (hnd0 seq)
  have hw : c.window = some w := (run_window _ ops).trans rfl
  have hfix : c.v.fixResume = true := by
    have : c.v = v := (run_v _ ops).trans rfl
    rw [this]; exact hfr
  exact canResume_sound c seq pos w hinv hw hfix hnd hres p h1 h2

/-- **Resume on a sliding-window cache, end to end and without hypotheses on the state** (repaired tree).
    Along every history that keeps the contract (batches bring new, distinct, bounded positions for their
    sequences; removals go to the end), if `CanResume(seq, pos)` approves, the sequence is cut back with
    `Remove(seq, pos, MaxInt32)` and the next accepted batch contains `(seq, pos)`, then that token is shown an
    entry at every position `p` of its window, `max 0 (pos − W) ≤ p < pos`. -/
theorem approved_resume_on_contract (v : Variant) (hv : v.fixDefrag = true) (hat : v.atomicRemove = true)
    (hfr : v.fixResume = true) (w : Int) (maxSeq capacity maxBatch cachePad batchPad : Nat) (hs : Bool) (ops : List HOp)
    (hsz : (Causal.init v (some w) maxSeq capacity maxBatch cachePad batchPad hs).cells.length ≤ maxInt)
    (hc : ContractRun (some w) (Causal.init v (some w) maxSeq capacity maxBatch cachePad batchPad hs) [] ops)
    (hbd : ∀ op ∈ ops, BoundedOp op)
    (seq : Nat) (pos : Int) (b : List Tok) (ids : List Nat) (hids : ids.length = b.length) (ht : (⟨seq, pos⟩ : Tok) ∈ b) :
    let c := ops.foldl stepH (Causal.init v (some w) maxSeq capacity maxBatch cachePad batchPad hs)
    canResume c seq pos = true → (startForward (removeV c seq pos maxInt32).1 b).2 = .ok →
    ∀ p, max 0 (pos - w) ≤ p → p < pos →
      ∃ k ∈ (exposedEntries (put (startForward (removeV c seq pos maxInt32).1 b).1 ids) ⟨seq, pos⟩).map key, k.1 = p := by
  intro c hres hok p h1 h2
  have hwf := contractRun_wf _ _ _ _ hc
  have hinv := inv_run _ ops (inv_init v (some w) maxSeq capacity maxBatch cachePad batchPad hs hsz)
  have hperm := refines_run_total (Causal.init v (some w) maxSeq capacity maxBatch cachePad batchPad hs) ops []
    (by rw [abs_init]) (inv_init v (some w) maxSeq capacity maxBatch cachePad batchPad hs hsz) hv hat
    (rowsFresh_init v (some w) maxSeq capacity maxBatch cachePad batchPad hs)
    (freshEmpty_init v (some w) maxSeq capacity maxBatch cachePad batchPad hs) hwf
  have hnd0 := nodupPos_runT (some w) (Causal.init v (some w) maxSeq capacity maxBatch cachePad batchPad hs) [] ops
    (fun q => by simp [seqPositions]) hc
  have hnd : (seqPositions (abs c) seq).Nodup := by
    have hp : (seqPositions (abs c) seq).Perm (seqPositions (runT (some w) _ [] ops) seq) := (hperm.filter _).map _
    exact hp.nodup_iff.mpr (hnd0 seq)
  have hcv : c.v = v := (run_v _ ops).trans rfl
  have hw : c.window = some w := (run_window _ ops).trans rfl
  have hpb := posBound_run v hv hat (some w) maxSeq capacity maxBatch cachePad batchPad hs ops hsz hwf hbd
  have hr := rowsFresh_run _ ops (rowsFresh_init v (some w) maxSeq capacity maxBatch cachePad batchPad hs)
  exact approved_resume_sees_complete_window c seq pos w hinv hw (by rw [hcv]; exact hv) (by rw [hcv]; exact hfr) hr hpb hnd hres
    b ids hids ht hok p h1 h2

/-! ### any `Remove` followed by the documented recovery is a clean clear -/

/-- spec level: removing a range and then everything of the sequence = removing everything of the sequence -/
theorem specRemove_then_clear (s s1 : Spec) (seq : Nat) (b e : Int) (hb : 0 ≤ b)
    (hpos : ∀ x ∈ s, seq ∈ x.seqs → 0 ≤ x.pos ∧ x.pos < maxInt32)
    (hshift : ∀ x ∈ s, seq ∈ x.seqs → x.pos + (b - e) < maxInt32)
    (h1 : KV.remove s seq b e = some s1) :
    KV.remove s1 seq 0 maxInt32 = KV.remove s seq 0 maxInt32 := by
  have hnr : ∀ (l : Spec), (∀ x ∈ l, seq ∈ x.seqs → x.pos < maxInt32) → l.any (mustRefuse seq 0 maxInt32) = false := by
    intro l hl
    rw [List.any_eq_false]
    intro x hx
    by_cases hs : seq ∈ x.seqs
    · have := hl x hx hs
      have h3 : ¬ x.pos ≥ maxInt32 := by omega
      simp [mustRefuse, h3]
    · simp [mustRefuse, hs]
  unfold KV.remove at h1
  split at h1
  · cases h1
  · rename_i hnone
    cases h1
    -- pointwise
    have L_in : ∀ (b e : Int) (x : Entry), seq ∈ x.seqs → (b ≤ x.pos ∧ x.pos < e) →
        rmEntry seq b e x = (if x.seqs.filter (· ≠ seq) = [] then none else some { x with seqs := x.seqs.filter (· ≠ seq) }) := by
      intro b e x hs hin; unfold rmEntry; rw [if_pos hs, if_pos hin]
    have L_out : ∀ (b e : Int) (x : Entry), seq ∉ x.seqs → rmEntry seq b e x = some x := by
      intro b e x hs; unfold rmEntry; rw [if_neg hs]
    have hpt : ∀ x ∈ s, (rmEntry seq b e x).bind (rmEntry seq 0 maxInt32) = rmEntry seq 0 maxInt32 x := by
      intro x hx
      have hx_nr : mustRefuse seq b e x = false := by
        have := List.any_eq_false.mp (by simpa using hnone) x hx
        simpa using this
      by_cases hs : seq ∈ x.seqs
      · obtain ⟨hp0, hpm⟩ := hpos x hx hs
        rw [L_in 0 maxInt32 x hs ⟨hp0, hpm⟩]
        by_cases hin : b ≤ x.pos ∧ x.pos < e
        · rw [L_in b e x hs hin]
          by_cases hd : x.seqs.filter (· ≠ seq) = []
          · rw [if_pos hd]; rfl
          · rw [if_neg hd, Option.bind_some]
            exact L_out 0 maxInt32 _ mem_filter_ne
        · by_cases hge : x.pos ≥ e
          · have hsole : x.seqs.filter (· ≠ seq) = [] := by
              rw [List.filter_eq_nil_iff]
              intro y hy
              have hso : sharedOther seq x.seqs = false := by
                cases hso : sharedOther seq x.seqs with
                | false => rfl
                | true => simp [mustRefuse, hs, hin, hge, hso] at hx_nr
              have := List.any_eq_false.mp hso y hy
              simpa using this
            have hre : rmEntry seq b e x = some { x with pos := x.pos + rmOffset b e, shift := x.shift + rmOffset b e } := by
              unfold rmEntry; rw [if_pos hs, if_neg hin, if_pos hge]
            have hp1 : 0 ≤ x.pos + rmOffset b e := by unfold rmOffset; split <;> omega
            have hp2 : x.pos + rmOffset b e < maxInt32 := by
              unfold rmOffset; split
              · omega
              · rename_i hne
                -- shifted cells exist only when positions move down or stay: begin ≤ end is not assumed, bound by hypothesis
                exact hshift x hx hs
            rw [hre, Option.bind_some,
              L_in 0 maxInt32 { x with pos := x.pos + rmOffset b e, shift := x.shift + rmOffset b e } hs ⟨hp1, hp2⟩,
              if_pos hsole, if_pos hsole]
          · have hre : rmEntry seq b e x = some x := by
              unfold rmEntry; rw [if_pos hs, if_neg hin, if_neg hge]
            rw [hre, Option.bind_some, L_in 0 maxInt32 x hs ⟨hp0, hpm⟩]
      · rw [L_out b e x hs, Option.bind_some]
    have hs1 : ∀ x ∈ s.filterMap (rmEntry seq b e), seq ∈ x.seqs → x.pos < maxInt32 := by
      intro y hy hsy
      obtain ⟨x, hx, hxy⟩ := List.mem_filterMap.mp hy
      unfold rmEntry at hxy
      split at hxy
      · rename_i hsx
        have := hpos x hx hsx
        split at hxy
        · simp only at hxy
          split at hxy
          · cases hxy
          · cases hxy
            exact absurd hsy mem_filter_ne
        · split at hxy
          · cases hxy
            simp only
            have hsh := hshift x hx hsx
            unfold rmOffset
            split <;> omega
          · cases hxy; exact this.2
      · cases hxy
        rename_i hsx
        exact absurd hsy hsx
    simp only [KV.remove, hnr _ hs1, hnr s (fun x hx hs => (hpos x hx hs).2), Bool.false_eq_true, if_false,
      List.filterMap_filterMap]
    congr 1
    exact filterMap_congr' hpt

theorem abs_mem_cell (c : Cache) (e : Entry) (he : e ∈ abs c) : ∃ x ∈ c.cells, x.seqs = e.seqs ∧ x.pos = e.pos := by
  unfold abs at he
  obtain ⟨⟨x, r⟩, hxr, hent⟩ := List.mem_filterMap.mp he
  refine ⟨x, (List.of_mem_zip hxr).1, ?_⟩
  unfold entryOf at hent
  split at hent
  · cases hent
  · cases hent; exact ⟨rfl, rfl⟩

theorem remove_cells_eq (c : Cache) (seq : Nat) (b e : Int) :
    (Causal.remove c seq b e).1.cells = (removeCells seq b e (rmOffset b e) c.cells).1 := by
  unfold Causal.remove
  simp only
  split
  · rfl
  · split
    · rfl
    · split
      · rfl
      · split <;> rfl

/-- **Any `Remove` followed by the documented recovery is a clean clear** (pinned or repaired, accepted or
    refused): after `Remove(seq, b, e)` — whatever it answered — `Remove(seq, 0, MaxInt32)` leaves exactly the
    abstract state that clearing the sequence right away would have left. -/
theorem remove_then_clear (c : Cache) (seq : Nat) (b e : Int) (h : Inv c) (hl : c.hasLayers = true)
    (hb : 0 ≤ b) (hbe : b ≤ e) (hpb : PosBound c.cells) (hpos : ∀ x ∈ c.cells, seq ∈ x.seqs → 0 ≤ x.pos) :
    abs (Causal.remove (Causal.remove c seq b e).1 seq 0 maxInt32).1 = abs (Causal.remove c seq 0 maxInt32).1 := by
  by_cases hok : (Causal.remove c seq b e).2 = .ok
  · have hf := remove_fields c seq b e
    have hinv1 := remove_inv c seq b e h
    have hpb1 : PosBound (Causal.remove c seq b e).1.cells := by
      rw [remove_cells_eq]; exact posBound_removeCells seq b e hbe c.cells hpb
    have a1 := remove_abs c seq b e h.len h.size hl hok
    have a2 := remove_abs (Causal.remove c seq b e).1 seq 0 maxInt32 hinv1.len hinv1.size (by rw [hf.2.2.1]; exact hl)
      (remove_inf _ seq 0 hpb1).2.2
    have a3 := remove_abs c seq 0 maxInt32 h.len h.size hl (remove_inf c seq 0 hpb).2.2
    have hspec := specRemove_then_clear (abs c) _ seq b e hb
      (by
        intro x hx hs
        obtain ⟨y, hy, hys, hyp⟩ := abs_mem_cell c x hx
        have := hpos y hy (by rw [hys]; exact hs)
        have := hpb y hy seq (by rw [hys]; exact hs)
        omega)
      (by
        intro x hx hs
        obtain ⟨y, hy, hys, hyp⟩ := abs_mem_cell c x hx
        have := hpb y hy seq (by rw [hys]; exact hs)
        omega)
      a1
    rw [a2, a3] at hspec
    exact Option.some.inj hspec
  · exact refused_remove_then_clear c seq b e hb hbe hpb hpos hok

/-- what the recovery needs from a wrapped cache -/
structure ClearOK (c : Cache) (seq : Nat) : Prop where
  inv : Inv c
  layers : c.hasLayers = true
  bound : PosBound c.cells
  nonneg : ∀ x ∈ c.cells, seq ∈ x.seqs → 0 ≤ x.pos

/-- the recovery itself (`Remove(seq, 0, MaxInt32)` on every wrapped cache) never fails and clears each cache -/
theorem wRemove_clear (cs : List Cache) (seq : Nat) (h : ∀ c ∈ cs, PosBound c.cells) :
    wRemove cs seq 0 maxInt32 = (cs.map (fun c => (Causal.remove c seq 0 maxInt32).1), .ok) := by
  induction cs with
  | nil => rfl
  | cons c rest ih =>
    have hc := h c (by simp)
    have hr := removeV_inf c seq 0 hc
    have hok := (remove_inf c seq 0 hc).2.2
    unfold wRemove
    rw [hr]
    cases hrm : Causal.remove c seq 0 maxInt32 with
    | mk c1 r =>
      rw [hrm] at hok
      simp only at hok
      subst hok
      simp only [ih (fun x hx => h x (by simp [hx])), List.map_cons, hrm]

theorem removeV_state_cases (c : Cache) (seq : Nat) (b e : Int) :
    (removeV c seq b e).1 = (Causal.remove c seq b e).1 ∨ (removeV c seq b e).1 = c := by
  rcases removeV_cases c seq b e with h | ⟨h, _, _⟩
  · left; rw [h]
  · right; exact h

/-- after `WrapperCache.Remove` (any outcome) every wrapped cache still clears to what the original clears to,
    and keeps its position bound -/
theorem wRemove_then_clear_each (cs : List Cache) (seq : Nat) (b e : Int) (hb : 0 ≤ b) (hbe : b ≤ e)
    (h : ∀ c ∈ cs, ClearOK c seq) :
    (wRemove cs seq b e).1.map (fun c => abs (Causal.remove c seq 0 maxInt32).1)
      = cs.map (fun c => abs (Causal.remove c seq 0 maxInt32).1) ∧
    ∀ c ∈ (wRemove cs seq b e).1, PosBound c.cells := by
  induction cs with
  | nil => exact ⟨rfl, fun c hc => by simp [wRemove] at hc⟩
  | cons c rest ih =>
    have hc := h c (by simp)
    have ih' := ih (fun x hx => h x (by simp [hx]))
    have hhead : abs (Causal.remove (removeV c seq b e).1 seq 0 maxInt32).1 = abs (Causal.remove c seq 0 maxInt32).1 ∧
        PosBound (removeV c seq b e).1.cells := by
      rcases removeV_state_cases c seq b e with h1 | h1
      · rw [h1]
        exact ⟨remove_then_clear c seq b e hc.inv hc.layers hb hbe hc.bound hc.nonneg,
          by rw [remove_cells_eq]; exact posBound_removeCells seq b e hbe c.cells hc.bound⟩
      · rw [h1]; exact ⟨rfl, hc.bound⟩
    unfold wRemove
    cases hrm : removeV c seq b e with
    | mk c1 r =>
      rw [hrm] at hhead
      simp only at hhead
      cases r with
      | ok =>
        simp only [List.map_cons]
        refine ⟨by rw [hhead.1, ih'.1], ?_⟩
        intro x hx
        rcases List.mem_cons.mp hx with rfl | hx
        · exact hhead.2
        · exact ih'.2 x hx
      | shared =>
        simp only [List.map_cons]
        refine ⟨by rw [hhead.1], ?_⟩
        intro x hx
        rcases List.mem_cons.mp hx with rfl | hx
        · exact hhead.2
        · exact (h x (by simp [hx])).bound
      | notsup =>
        simp only [List.map_cons]
        refine ⟨by rw [hhead.1], ?_⟩
        intro x hx
        rcases List.mem_cons.mp hx with rfl | hx
        · exact hhead.2
        · exact (h x (by simp [hx])).bound

/-- **WrapperCache under its contract** (F29's guard made a theorem): whatever `WrapperCache.Remove(seq, b, e)`
    answers — carried out everywhere, or refused by some wrapped cache after others had carried it out — the
    recovery `cache.go` / `wrapper.go` prescribe, `Remove(seq, 0, MaxInt32)`, cannot fail and leaves EVERY wrapped
    cache exactly as if the sequence had been cleared right away; the other sequences are never affected. -/
theorem wrapper_remove_then_clear (cs : List Cache) (seq : Nat) (b e : Int) (hb : 0 ≤ b) (hbe : b ≤ e)
    (h : ∀ c ∈ cs, ClearOK c seq) :
    (wRemove (wRemove cs seq b e).1 seq 0 maxInt32).2 = .ok ∧
    (wRemove (wRemove cs seq b e).1 seq 0 maxInt32).1.map abs
      = cs.map (fun c => abs (Causal.remove c seq 0 maxInt32).1) := by
  obtain ⟨h1, h2⟩ := wRemove_then_clear_each cs seq b e hb hbe h
  rw [wRemove_clear _ seq h2]
  exact ⟨rfl, by simpa [List.map_map, Function.comp_def] using h1⟩

/-- `WrapperCache.CopyPrefix` is the spec's `copyPrefix` in every wrapped cache -/
theorem wrapper_copyPrefix_abs (cs : List Cache) (src dst : Nat) (len : Int) :
    (wCopyPrefix cs src dst len).map abs = cs.map (fun c => KV.copyPrefix (abs c) src dst len) := by
  simp [wCopyPrefix, List.map_map, Function.comp_def, copyPrefix_abs]

/-- an accepted `WrapperCache.Remove` is the spec's `remove` in every wrapped cache -/
theorem wrapper_remove_ok_refines (cs : List Cache) (seq : Nat) (b e : Int)
    (h : ∀ c ∈ cs, Inv c ∧ c.hasLayers = true) (hok : (wRemove cs seq b e).2 = .ok) :
    (wRemove cs seq b e).1.map (fun c => some (abs c)) = cs.map (fun c => KV.remove (abs c) seq b e) := by
  induction cs with
  | nil => rfl
  | cons c rest ih =>
    have hc := h c (by simp)
    unfold wRemove at hok ⊢
    cases hrm : removeV c seq b e with
    | mk c1 r =>
      rw [hrm] at hok
      cases r with
      | ok =>
        simp only at hok ⊢
        have he := removeV_ok_eq c seq b e (by rw [hrm])
        have ha := remove_abs c seq b e hc.1.len hc.1.size hc.2 (by rw [← he, hrm])
        have hc1 : c1 = (Causal.remove c seq b e).1 := by rw [← he, hrm]
        simp only [List.map_cons, ih (fun x hx => h x (by simp [hx])) hok, ha, hc1]
      | shared => simp at hok
      | notsup => simp at hok

/-- `SetCausal` on every wrapped cache changes no abstract state -/
theorem wrapper_setCausal_abs (cs : List Cache) (ex : List Nat) : (wSetCausal cs ex).map abs = cs.map abs := by
  simp [wSetCausal, List.map_map, Function.comp_def, setCausal_abs]

/-- `WrapperCache.CanResume` approves only if every wrapped sliding-window cache holds the complete window
    (repaired `CanResume`; full-attention caches always approve) -/
theorem wrapper_canResume_sound (cs : List Cache) (seq : Nat) (pos : Int) (h : wCanResume cs seq pos = true)
    (c : Cache) (hc : c ∈ cs) (w : Int) (hinv : Inv c) (hw : c.window = some w) (hfr : c.v.fixResume = true)
    (hnd : (seqPositions (abs c) seq).Nodup) (p : Int) (h1 : max 0 (pos - w) ≤ p) (h2 : p < pos) :
    ∃ e ∈ abs c, seq ∈ e.seqs ∧ e.pos = p := by
  have hcr : canResume c seq pos = true := by
    unfold wCanResume at h
    exact List.all_eq_true.mp h c hc
  exact canResume_sound c seq pos w hinv hw hfr hnd hcr p h1 h2

/-! ### the ideal windowed history, with approved resumes and forks in the history -/

theorem nodup_of_nodup_map {α β} (f : α → β) (l : List α) (h : (l.map f).Nodup) : l.Nodup :=
  List.Pairwise.of_map f (fun a b hab he => hab (by rw [he])) h

theorem eq_of_nodup_map {α β} (f : α → β) (l : List α) (h : (l.map f).Nodup) (a b : α) (ha : a ∈ l) (hb : b ∈ l)
    (hf : f a = f b) : a = b := by
  induction l with
  | nil => simp at ha
  | cons x xs ih =>
    simp only [List.map_cons, List.nodup_cons] at h
    rcases List.mem_cons.mp ha with rfl | ha' <;> rcases List.mem_cons.mp hb with rfl | hb'
    · rfl
    · exact absurd (List.mem_map.mpr ⟨b, hb', hf.symm⟩) h.1
    · exact absurd (List.mem_map.mpr ⟨a, ha', hf⟩) h.1
    · exact ih h.2 ha' hb'

/-- what sequence `q` holds in `S` it also holds in `I`, with the same position, data and shift -/
def SubQ (S I : Spec) : Prop := ∀ q e, e ∈ S → q ∈ e.seqs → ∃ e' ∈ I, q ∈ e'.seqs ∧ key e' = key e

theorem visible_pos_sublist (W : Option Int) (s : Spec) (q : Nat) (p : Int) :
    ((visible W s q p).map (·.pos)).Sublist (seqPositions s q) := by
    unfold visible seqPositions
    apply List.Sublist.map
    induction s with
    | nil => exact List.Sublist.refl _
    | cons x xs ih =>
      by_cases hv : vis W q p x = true
      · have hq : q ∈ x.seqs := by
          simp only [vis, Bool.and_eq_true, decide_eq_true_eq] at hv; exact hv.1.1
        rw [List.filter_cons_of_pos hv, List.filter_cons_of_pos (by simpa using hq)]
        exact List.Sublist.cons_cons _ ih
      · rw [List.filter_cons_of_neg hv]
        by_cases hq : q ∈ x.seqs
        · rw [List.filter_cons_of_pos (by simpa using hq)]; exact List.Sublist.cons _ ih
        · rw [List.filter_cons_of_neg (by simpa using hq)]; exact ih

theorem visible_keys_nodup (W : Option Int) (s : Spec) (q : Nat) (p : Int) (h : (seqPositions s q).Nodup) :
    ((visible W s q p).map key).Nodup := by
  have hn : ((visible W s q p).map (·.pos)).Nodup := h.sublist (visible_pos_sublist W s q p)
  have : ((visible W s q p).map key).map (·.1) = (visible W s q p).map (·.pos) := by
    simp [List.map_map, Function.comp_def, key]
  exact nodup_of_nodup_map (·.1) _ (by rw [this]; exact hn)

/-- **One query.**  If everything `q` holds in `S` it holds in `I` as well, positions of `q` are distinct and
    non-negative in `I`, `I` holds nothing of `q` at or after `p`, and `S` holds the complete window below `p`,
    then a query at `(q, p)` sees the same entries in `S` and in `I`. -/
theorem visible_complete_eq (w : Int) (S I : Spec) (q : Nat) (p : Int) (hsub : SubQ S I)
    (hndI : (seqPositions I q).Nodup) (hndS : (seqPositions S q).Nodup)
    (hnonneg : ∀ e ∈ I, q ∈ e.seqs → 0 ≤ e.pos) (hbelow : ∀ e ∈ I, q ∈ e.seqs → e.pos < p)
    (hcomplete : ∀ p', max 0 (p - w) ≤ p' → p' < p → ∃ e ∈ S, q ∈ e.seqs ∧ e.pos = p') :
    ((visible (some w) S q p).map key).Perm ((visible (some w) I q p).map key) := by
  rw [List.perm_ext_iff_of_nodup (visible_keys_nodup _ S q p hndS) (visible_keys_nodup _ I q p hndI)]
  intro k
  have hvis : ∀ (e e' : Entry), key e' = key e → q ∈ e.seqs → q ∈ e'.seqs →
      vis (some w) q p e = true → vis (some w) q p e' = true := by
    intro e e' hk hq hq' hv
    have hp : e'.pos = e.pos := by
      have := congrArg (·.1) hk; simpa [key] using this
    simp only [vis, inWindow, hq, hq', decide_true, Bool.true_and, hp] at hv ⊢
    exact hv
  constructor
  · intro hk
    obtain ⟨e, he, rfl⟩ := List.mem_map.mp hk
    obtain ⟨heS, hv⟩ := List.mem_filter.mp he
    have hq : q ∈ e.seqs := by
      simp only [vis, Bool.and_eq_true, decide_eq_true_eq] at hv; exact hv.1.1
    obtain ⟨e', he'I, hq', hkey⟩ := hsub q e heS hq
    exact List.mem_map.mpr ⟨e', List.mem_filter.mpr ⟨he'I, hvis e e' hkey hq hq' hv⟩, hkey⟩
  · intro hk
    obtain ⟨e', he', rfl⟩ := List.mem_map.mp hk
    obtain ⟨he'I, hv⟩ := List.mem_filter.mp he'
    have hq' : q ∈ e'.seqs := by
      simp only [vis, Bool.and_eq_true, decide_eq_true_eq] at hv; exact hv.1.1
    have hlt := hbelow e' he'I hq'
    have hge0 := hnonneg e' he'I hq'
    have hwin : ¬ e'.pos < p - w := by
      simp only [vis, inWindow, Bool.and_eq_true, Bool.not_eq_true', decide_eq_false_iff_not] at hv
      exact hv.2
    obtain ⟨e, heS, hq, hpos⟩ := hcomplete e'.pos (by omega) hlt
    obtain ⟨e'', he''I, hq'', hkey⟩ := hsub q e heS hq
    -- `e''` and `e'` are entries of `q` in `I` at the same position: the same entry
    have hsame : e'' = e' := by
      have hkp : e''.pos = e.pos := by
        have := congrArg (·.1) hkey; simpa [key] using this
      apply eq_of_nodup_map (fun (x : Entry) => x.pos) (I.filter (fun x => decide (q ∈ x.seqs))) hndI
      · exact List.mem_filter.mpr ⟨he''I, by simpa using hq''⟩
      · exact List.mem_filter.mpr ⟨he'I, by simpa using hq'⟩
      · show e''.pos = e'.pos
        omega
    subst hsame
    refine List.mem_map.mpr ⟨e, List.mem_filter.mpr ⟨heS, hvis e'' e hkey.symm hq'' hq hv⟩, hkey.symm⟩

theorem subQ_filterMap_left (f : Entry → Option Entry) (S I : Spec)
    (hf : ∀ x y, f x = some y → key y = key x ∧ ∀ q ∈ y.seqs, q ∈ x.seqs) (h : SubQ S I) : SubQ (S.filterMap f) I := by
  intro q e he hq
  obtain ⟨x, hx, hxy⟩ := List.mem_filterMap.mp he
  obtain ⟨hk, hs⟩ := hf x e hxy
  obtain ⟨e', he', hq', hk'⟩ := h q x hx (hs q hq)
  exact ⟨e', he', hq', hk'.trans hk.symm⟩

theorem evictEntry_keeps (seq : Nat) (thr : Int) (x y : Entry) (h : evictEntry seq thr x = some y) :
    key y = key x ∧ ∀ q ∈ y.seqs, q ∈ x.seqs := by
  unfold evictEntry at h
  split at h
  · simp only at h
    split at h
    · cases h
    · cases h; exact ⟨rfl, fun q hq => (List.mem_filter.mp hq).1⟩
  · cases h; exact ⟨rfl, fun q hq => hq⟩

theorem subQ_specSlide (w : Int) (b : List Tok) (S I : Spec) (h : SubQ S I) : SubQ (specSlide S w b) I := by
  unfold specSlide
  generalize batchSeqs b = seqs
  induction seqs generalizing S with
  | nil => exact h
  | cons seq rest ih =>
    simp only [List.foldl_cons]
    cases lowest b seq with
    | none => exact ih S h
    | some low => exact ih _ (subQ_filterMap_left _ S I (evictEntry_keeps seq _) h)

theorem subQ_store (S I : Spec) (batch : List (Tok × Nat)) (h : SubQ S I) : SubQ (KV.store S batch) (KV.store I batch) := by
  intro q e he hq
  simp only [KV.store, List.mem_append] at he ⊢
  rcases he with he | he
  · obtain ⟨e', he', hq', hk⟩ := h q e he hq
    exact ⟨e', Or.inl he', hq', hk⟩
  · exact ⟨e, Or.inr he, hq, rfl⟩

theorem subQ_copyPrefix (S I : Spec) (src dst : Nat) (len : Int) (h : SubQ S I) :
    SubQ (KV.copyPrefix S src dst len) (KV.copyPrefix I src dst len) := by
  intro q e he hq
  obtain ⟨x, hx, hxe⟩ := List.mem_filterMap.mp he
  unfold cpEntry at hxe
  simp only at hxe
  split at hxe
  · cases hxe
  · cases hxe
    simp only at hq
    -- which owner of `x` explains `q`?
    have hcase : (q ≠ dst ∧ q ∈ x.seqs) ∨ (q = dst ∧ src ≠ dst ∧ src ∈ x.seqs ∧ x.pos < len) := by
      unfold cpSeqs at hq
      simp only at hq
      split at hq
      · rename_i hc
        rcases List.mem_append.mp hq with h1 | h1
        · left; have := List.mem_filter.mp h1; exact ⟨by simpa using this.2, this.1⟩
        · right
          have hsrc := List.mem_filter.mp hc.1
          exact ⟨by simpa using h1, by simpa using hsrc.2, hsrc.1, hc.2⟩
      · left; have := List.mem_filter.mp hq; exact ⟨by simpa using this.2, this.1⟩
    have hgo : ∀ (r : Nat) (x' : Entry), x' ∈ I → r ∈ x'.seqs → key x' = key x →
        ((q ≠ dst ∧ r = q) ∨ (q = dst ∧ r = src ∧ src ≠ dst ∧ x.pos < len)) →
        ∃ e' ∈ KV.copyPrefix I src dst len, q ∈ e'.seqs ∧ key e' = key x := by
      intro r x' hx' hr hk hwhy
      have hp : x'.pos = x.pos := by have := congrArg (·.1) hk; simpa [key] using this
      have hq' : q ∈ cpSeqs src dst len x'.pos x'.seqs := by
        unfold cpSeqs
        simp only
        rcases hwhy with ⟨hne, rfl⟩ | ⟨rfl, rfl, hsd, hlt⟩
        · have hf : r ∈ x'.seqs.filter (· ≠ dst) := List.mem_filter.mpr ⟨hr, by simpa using hne⟩
          split
          · exact List.mem_append.mpr (Or.inl hf)
          · exact hf
        · have hf : r ∈ x'.seqs.filter (· ≠ q) := List.mem_filter.mpr ⟨hr, by simpa using hsd⟩
          rw [if_pos ⟨hf, by omega⟩]
          exact List.mem_append.mpr (Or.inr (by simp))
      refine ⟨{ x' with seqs := cpSeqs src dst len x'.pos x'.seqs }, ?_, hq', by simpa [key] using hk⟩
      apply List.mem_filterMap.mpr
      refine ⟨x', hx', ?_⟩
      unfold cpEntry
      simp only
      rw [if_neg]
      intro h0; rw [h0] at hq'; simp at hq'
    have hkx : key { x with seqs := cpSeqs src dst len x.pos x.seqs } = key x := rfl
    rw [hkx]
    rcases hcase with ⟨hne, hqx⟩ | ⟨hqd, hsd, hsx, hlt⟩
    · obtain ⟨x', hx', hq', hk⟩ := h q x hx hqx
      exact hgo q x' hx' hq' hk (Or.inl ⟨hne, rfl⟩)
    · obtain ⟨x', hx', hq', hk⟩ := h src x hx hsx
      exact hgo src x' hx' hq' hk (Or.inr ⟨hqd, rfl, hsd, hlt⟩)

/-- with positions below the sentinel a removal to the end is never refused by the specification -/
theorem specRemove_inf_some (s : Spec) (seq : Nat) (b : Int) (h : PosBoundS s) :
    KV.remove s seq b maxInt32 = some (s.filterMap (rmEntry seq b maxInt32)) := by
  unfold KV.remove
  rw [if_neg]
  intro hany
  obtain ⟨x, hx, hr⟩ := List.any_eq_true.mp hany
  have := h x hx
  simp only [mustRefuse, Bool.and_eq_true, decide_eq_true_eq] at hr
  omega

theorem rmEntry_inf_from (seq : Nat) (b : Int) (x y : Entry) (hx : x.pos < maxInt32)
    (h : rmEntry seq b maxInt32 x = some y) :
    key y = key x ∧ ∀ q ∈ y.seqs, q ∈ x.seqs ∧ (q ≠ seq ∨ x.pos < b) := by
  unfold rmEntry at h
  split at h
  · rename_i hs
    split at h
    · simp only at h
      split at h
      · cases h
      · cases h
        refine ⟨rfl, fun q hq => ?_⟩
        have := List.mem_filter.mp hq
        exact ⟨this.1, Or.inl (by simpa using this.2)⟩
    · rename_i hin
      split at h
      · omega
      · cases h
        exact ⟨rfl, fun q hq => ⟨hq, Or.inr (by omega)⟩⟩
  · rename_i hs
    cases h
    exact ⟨rfl, fun q hq => ⟨hq, Or.inl (fun he => hs (he ▸ hq))⟩⟩

theorem rmEntry_inf_keeps (seq : Nat) (b : Int) (x : Entry) (q : Nat) (hx : x.pos < maxInt32) (hq : q ∈ x.seqs)
    (hwhy : q ≠ seq ∨ x.pos < b) : ∃ y, rmEntry seq b maxInt32 x = some y ∧ q ∈ y.seqs ∧ key y = key x := by
  unfold rmEntry
  by_cases hs : seq ∈ x.seqs
  · rw [if_pos hs]
    by_cases hin : b ≤ x.pos ∧ x.pos < maxInt32
    · rw [if_pos hin]
      have hne : q ≠ seq := by rcases hwhy with h | h; exact h; omega
      have hqf : q ∈ x.seqs.filter (· ≠ seq) := List.mem_filter.mpr ⟨hq, by simpa using hne⟩
      simp only
      rw [if_neg (by intro h0; rw [h0] at hqf; simp at hqf)]
      exact ⟨_, rfl, hqf, rfl⟩
    · rw [if_neg hin, if_neg (by omega)]
      exact ⟨x, rfl, hq, rfl⟩
  · rw [if_neg hs]; exact ⟨x, rfl, hq, rfl⟩

theorem subQ_remove_inf (S I : Spec) (seq : Nat) (b : Int) (h : SubQ S I) (hbS : PosBoundS S) (hbI : PosBoundS I) :
    SubQ (S.filterMap (rmEntry seq b maxInt32)) (I.filterMap (rmEntry seq b maxInt32)) := by
  intro q e he hq
  obtain ⟨x, hx, hxe⟩ := List.mem_filterMap.mp he
  obtain ⟨hk, hfrom⟩ := rmEntry_inf_from seq b x e (hbS x hx) hxe
  obtain ⟨hqx, hwhy⟩ := hfrom q hq
  obtain ⟨x', hx', hq', hk'⟩ := h q x hx hqx
  have hp : x'.pos = x.pos := by have := congrArg (·.1) hk'; simpa [key] using this
  obtain ⟨y, hy, hqy, hky⟩ := rmEntry_inf_keeps seq b x' q (hbI x' hx') hq' (by rw [hp]; exact hwhy)
  exact ⟨y, List.mem_filterMap.mpr ⟨x', hx', hy⟩, hqy, hky.trans (hk'.trans hk.symm)⟩

/-- the contract of the ideal-window theorem: removals go to the end -/
def NoMiddle : HOp → Prop
  | .rm _ _ e => e = maxInt32
  | _ => True

/-- **The actual state stays inside the ideal one**: running the specification with the window (evictions) and
    without it (`W = none`: nothing is ever evicted) next to the same cache, everything a sequence holds in the
    first it holds in the second. -/
theorem subQ_specStepT (w : Int) (S I : Spec) (op : HOp) (acc : Bool) (h : SubQ S I) (hnm : NoMiddle op)
    (hbS : PosBoundS S) (hbI : PosBoundS I) :
    SubQ (specStepT (some w) S op acc) (specStepT none I op acc) := by
  cases op with
  | fwd b ids =>
    simp only [specStepT]
    split
    · exact subQ_store _ _ _ (subQ_specSlide w b S I h)
    · exact subQ_specSlide w b S I h
  | cp src dst len => exact subQ_copyPrefix S I src dst len h
  | rm seq b e =>
    have he : e = maxInt32 := hnm
    subst he
    simp only [specStepT]
    split
    · rw [specRemove_inf_some S seq b hbS, specRemove_inf_some I seq b hbI]
      exact subQ_remove_inf S I seq b h hbS hbI
    · exact h
  | sc ex => exact h
  | rsv b => exact h

theorem subQ_runT (w : Int) (c : Cache) (S I : Spec) (ops : List HOp) (h : SubQ S I)
    (hnm : ∀ op ∈ ops, NoMiddle op) (hbd : ∀ op ∈ ops, BoundedOp op) (hbS : PosBoundS S) (hbI : PosBoundS I) :
    SubQ (runT (some w) c S ops) (runT none c I ops) := by
  induction ops generalizing c S I with
  | nil => exact h
  | cons op rest ih =>
    simp only [runT]
    exact ih _ _ _ (subQ_specStepT w S I op _ h (hnm op (by simp)) hbS hbI)
      (fun o ho => hnm o (by simp [ho])) (fun o ho => hbd o (by simp [ho]))
      (posBoundS_specStepT _ S op _ hbS (hbd op (by simp))) (posBoundS_specStepT _ I op _ hbI (hbd op (by simp)))

def NonNegS (s : Spec) : Prop := ∀ e ∈ s, 0 ≤ e.pos

def NonNegOp : HOp → Prop
  | .fwd b _ => ∀ t ∈ b, 0 ≤ t.pos
  | _ => True

theorem nonNegS_filterMap (f : Entry → Option Entry) (hf : ∀ x y, f x = some y → y.pos = x.pos) (s : Spec)
    (h : NonNegS s) : NonNegS (s.filterMap f) := by
  intro y hy
  obtain ⟨x, hx, hxy⟩ := List.mem_filterMap.mp hy
  rw [hf x y hxy]; exact h x hx

theorem pos_of_key {x y : Entry} (h : key y = key x) : y.pos = x.pos := by
  have := congrArg (·.1) h; simpa [key] using this

theorem nonNegS_specStepT (W : Option Int) (s : Spec) (op : HOp) (acc : Bool) (h : NonNegS s) (hb : PosBoundS s)
    (hnm : NoMiddle op) (hnn : NonNegOp op) : NonNegS (specStepT W s op acc) := by
  cases op with
  | fwd b ids =>
    have h1 : NonNegS (match W with | none => s | some w => specSlide s w b) := by
      cases W with
      | none => exact h
      | some w =>
        simp only
        unfold specSlide
        generalize batchSeqs b = seqs
        induction seqs generalizing s with
        | nil => exact h
        | cons seq rest ih =>
          simp only [List.foldl_cons]
          cases lowest b seq with
          | none => exact ih s h hb
          | some low =>
            refine ih _ (nonNegS_filterMap _ (fun x y hxy => pos_of_key (evictEntry_keeps seq _ x y hxy).1) s h) ?_
            exact posBoundS_filterMap _ (fun x y hxy => by rw [pos_of_key (evictEntry_keeps seq _ x y hxy).1]; exact Int.le_refl _) s hb
    simp only [specStepT]
    split
    · intro e he
      simp only [KV.store, List.mem_append, List.mem_map] at he
      rcases he with he | ⟨t, ht, rfl⟩
      · exact h1 e he
      · exact hnn t.1 (List.of_mem_zip ht).1
    · exact h1
  | cp src dst len =>
    apply nonNegS_filterMap _ _ s h
    intro x y hxy
    unfold cpEntry at hxy
    simp only at hxy
    split at hxy
    · cases hxy
    · cases hxy; rfl
  | rm seq b e =>
    have he : e = maxInt32 := hnm
    subst he
    simp only [specStepT]
    split
    · rw [specRemove_inf_some s seq b hb]
      simp only [Option.getD_some]
      intro y hy
      obtain ⟨x, hx, hxy⟩ := List.mem_filterMap.mp hy
      rw [pos_of_key (rmEntry_inf_from seq b x y (hb x hx) hxy).1]
      exact h x hx
    · exact h
  | sc ex => exact h
  | rsv b => exact h

theorem nonNegS_runT (W : Option Int) (c : Cache) (s : Spec) (ops : List HOp) (h : NonNegS s) (hb : PosBoundS s)
    (hnm : ∀ op ∈ ops, NoMiddle op) (hnn : ∀ op ∈ ops, NonNegOp op) (hbd : ∀ op ∈ ops, BoundedOp op) :
    NonNegS (runT W c s ops) := by
  induction ops generalizing c s with
  | nil => exact h
  | cons op rest ih =>
    simp only [runT]
    exact ih _ _ (nonNegS_specStepT W s op _ h hb (hnm op (by simp)) (hnn op (by simp)))
      (posBoundS_specStepT W s op _ hb (hbd op (by simp)))
      (fun o ho => hnm o (by simp [ho])) (fun o ho => hnn o (by simp [ho])) (fun o ho => hbd o (by simp [ho]))

/-- **The ideal windowed history, with approved resumes and forks in the history** (repaired tree, window `w`).
    Run any history of forward passes (accepted or rejected), SetCausal, reserve passes, CopyPrefix and removals
    to the end that keeps the contract — batches bring new, distinct, bounded, non-negative positions for their
    sequences, both for the cache's state and for the IDEAL state in which nothing is ever evicted
    (`runT none`).  Then for every token `(seq, pos)` of the next accepted batch such that the ideal state holds
    nothing of `seq` at or after `pos` (the batch continues or resumes the sequence there) and `CanResume(seq, pos)`
    approves on the state before the pass, the token is shown exactly what it would be shown if the cache had
    never evicted anything: every entry ever stored or copied for its sequence and not removed, at a position
    ≤ its own and inside the window.  (`CanResume` is what the runner consults before resuming; for a token
    that simply continues its sequence it holds whenever the window is complete.) -/
theorem window_exact_on_contract (v : Variant) (hv : v.fixDefrag = true) (hat : v.atomicRemove = true)
    (hfr : v.fixResume = true) (w : Int) (maxSeq capacity maxBatch cachePad batchPad : Nat) (hs : Bool) (ops : List HOp)
    (hsz : (Causal.init v (some w) maxSeq capacity maxBatch cachePad batchPad hs).cells.length ≤ maxInt)
    (hcS : ContractRun (some w) (Causal.init v (some w) maxSeq capacity maxBatch cachePad batchPad hs) [] ops)
    (hcI : ContractRun none (Causal.init v (some w) maxSeq capacity maxBatch cachePad batchPad hs) [] ops)
    (hbd : ∀ op ∈ ops, BoundedOp op) (hnn : ∀ op ∈ ops, NonNegOp op)
    (b : List Tok) (ids : List Nat) (hids : ids.length = b.length) :
    let c0 := Causal.init v (some w) maxSeq capacity maxBatch cachePad batchPad hs
    let c := ops.foldl stepH c0
    (startForward c b).2 = .ok →
    ∀ t ∈ b, canResume c t.seq t.pos = true →
      (∀ e ∈ runT none c0 [] ops, t.seq ∈ e.seqs → e.pos < t.pos) →
      ((exposedEntries (put (startForward c b).1 ids) t).map key).Perm
        ((visible (some w) (KV.store (runT none c0 [] ops) (b.zip ids)) t.seq t.pos).map key) := by
  intro c0 c hok t ht hres hbelow
  have hwf := contractRun_wf _ _ _ _ hcS
  have hnm : ∀ op ∈ ops, NoMiddle op := by
    -- part of the contract
    have aux : ∀ (c : Cache) (s : Spec) (ops : List HOp), ContractRun (some w) c s ops → ∀ op ∈ ops, NoMiddle op := by
      intro c s ops
      induction ops generalizing c s with
      | nil => intro _ op hop; simp at hop
      | cons o rest ih =>
        intro h op hop
        rcases List.mem_cons.mp hop with rfl | hop
        · have := h.1
          cases op <;> first | exact this | trivial
        · exact ih _ _ h.2.2 op hop
    exact aux _ _ _ hcS
  have h1 := history_exposes_spec_total v hv hat (some w) maxSeq capacity maxBatch cachePad batchPad hs ops b ids
    hsz hids hwf hok t ht
  refine h1.trans ?_
  have hinv := inv_run _ ops (inv_init v (some w) maxSeq capacity maxBatch cachePad batchPad hs hsz)
  have hperm := refines_run_total c0 ops [] (by rw [abs_init])
    (inv_init v (some w) maxSeq capacity maxBatch cachePad batchPad hs hsz) hv hat
    (rowsFresh_init v (some w) maxSeq capacity maxBatch cachePad batchPad hs)
    (freshEmpty_init v (some w) maxSeq capacity maxBatch cachePad batchPad hs) hwf
  have hndS := nodupPos_runT (some w) c0 [] ops (fun q => by simp [seqPositions]) hcS
  have hndI := nodupPos_runT none c0 [] ops (fun q => by simp [seqPositions]) hcI
  have hsub := subQ_runT w c0 [] [] ops (fun q e he => by simp at he) hnm hbd (fun e he => by simp at he) (fun e he => by simp at he)
  have hnnI := nonNegS_runT none c0 [] ops (fun e he => by simp at he) (fun e he => by simp at he) hnm hnn hbd
  -- the window below `pos` is complete in the cache's state
  have hndc : (seqPositions (abs c) t.seq).Nodup := by
    have hp : (seqPositions (abs c) t.seq).Perm (seqPositions (runT (some w) c0 [] ops) t.seq) := (hperm.filter _).map _
    exact hp.nodup_iff.mpr (hndS t.seq)
  have hw : c.window = some w := (run_window _ ops).trans rfl
  have hfix : c.v.fixResume = true := by
    have : c.v = v := (run_v _ ops).trans rfl
    rw [this]; exact hfr
  have hcomplete : ∀ p', max 0 (t.pos - w) ≤ p' → p' < t.pos →
      ∃ e ∈ runT (some w) c0 [] ops, t.seq ∈ e.seqs ∧ e.pos = p' := by
    intro p' h1 h2
    obtain ⟨e, he, hs, hp⟩ := canResume_sound c t.seq t.pos w hinv hw hfix hndc hres p' h1 h2
    exact ⟨e, hperm.mem_iff.mp he, hs, hp⟩
  rw [visible_store, visible_store (some w) (runT none c0 [] ops), List.map_append, List.map_append]
  exact List.Perm.append_right _ (visible_complete_eq w _ _ t.seq t.pos hsub (hndI t.seq) (hndS t.seq)
    (fun e he _ => hnnI e he) hbelow hcomplete)

/-! ### Witnesses of the defects the model shares with the code -/

def fwd (c : Cache) (b : List (Tok × Nat)) : Cache :=
  put (startForward c (b.map (·.1))).1 (b.map (·.2))

/-- the minimal F14 history (corpus line 1): 5 cells; store pos 0..4 (ids 1..5); Remove(0,0,2);
    Remove(0,2,∞); store 3 tokens (ids 6..8) ⇒ defrag fills holes 0,1 from cells 3,2 -/
def f14 (v : Variant) : Cache :=
  let c1 := fwd (Causal.init v none 1 5 5 1 1 true) [(⟨0, 0⟩, 1), (⟨0, 1⟩, 2), (⟨0, 2⟩, 3), (⟨0, 3⟩, 4), (⟨0, 4⟩, 5)]
  let c2 := (Causal.remove c1 0 0 2).1
  let c3 := (Causal.remove c2 0 2 maxInt32).1
  fwd c3 [(⟨0, 2⟩, 6), (⟨0, 3⟩, 7), (⟨0, 4⟩, 8)]

/-- **F14 witness.** Pinned `defrag`: the cell labelled position 1 holds the row stored for position 0
    (id 3) and vice versa; the repaired variant keeps every row with its cell. -/
theorem F14_defrag_swaps_rows :
    (abs (f14 {})).map (fun e => (e.pos, e.id)) = [(1, 3), (0, 4), (2, 6), (3, 7), (4, 8)] ∧
    (abs (f14 { fixDefrag := true })).map (fun e => (e.pos, e.id)) = [(0, 3), (1, 4), (2, 6), (3, 7), (4, 8)] := by
  decide

/-- **F3 witness** (the defect is the caller's, C07): `Remove(seq, 0, −1)` is not "everything":
    nothing is removed and every position is shifted by +1. -/
theorem F3_remove_minus_one_is_not_infinity :
    let c := fwd (Causal.init {} none 1 4 4 1 1 true) [(⟨0, 0⟩, 1), (⟨0, 1⟩, 2), (⟨0, 2⟩, 3)]
    (abs (Causal.remove c 0 0 (-1)).1).map (fun e => (e.pos, e.id, e.shift)) = [(1, 1, 1), (2, 2, 1), (3, 3, 1)] ∧
    (abs (Causal.remove c 0 0 maxInt32).1) = [] := by
  decide

/-- **F23 witness.** First batch larger than the cache: pinned `StartForward` panics (division by the
    number of layers = 0 inside defrag) instead of reporting a full cache. -/
theorem F23_defrag_without_layers :
    (startForward (Causal.init {} none 1 1 3 1 1 true) [⟨0, 0⟩, ⟨0, 1⟩]).2 = .panic ∧
    (startForward (Causal.init { fixDiv := true } none 1 1 3 1 1 true) [⟨0, 0⟩, ⟨0, 1⟩]).2 = .full := by
  decide

/-- **F15 witness** (window 1): after two middle removals the token stored at position 1 should see
    the entry stored for position 0 (id 1) — the spec without eviction has it in the window — but the
    cache evicted it when position 2 was stored. -/
theorem F15_window_entry_missing :
    let c0 := Causal.init {} (some 1) 1 2 2 1 1 true
    let c1 := fwd c0 [(⟨0, 0⟩, 1), (⟨0, 1⟩, 2)]
    let c2 := fwd c1 [(⟨0, 2⟩, 3)]
    let c3 := (Causal.remove (Causal.remove c2 0 1 2).1 0 1 2).1
    let c4 := fwd c3 [(⟨0, 1⟩, 4)]
    (exposedEntries c4 ⟨0, 1⟩).map (·.id) = [4] ∧
    (do let s1 ← KV.remove (store (store [] [(⟨0, 0⟩, 1), (⟨0, 1⟩, 2)]) [(⟨0, 2⟩, 3)]) 0 1 2
        let s2 ← KV.remove s1 0 1 2
        pure ((visible (some 1) (store s2 [(⟨0, 1⟩, 4)]) 0 1).map (·.id))) = some [1, 4] := by
  decide

/-- **F15b witness** (window 2): fork of a sequence whose window has slid; `CanResume` approves
    position 8 although position 6 is not in the cache; the repaired variant refuses. -/
def f15b (v : Variant) : Cache :=
  let c := (List.range 10).foldl (fun c i => fwd c [(⟨0, Int.ofNat i⟩, i + 1)]) (Causal.init v (some 2) 2 16 4 1 1 true)
  Causal.copyPrefix c 0 1 8

theorem F15b_canResume_unsound :
    canResume (f15b {}) 1 8 = true ∧ (abs (f15b {})).map (fun e => (e.pos, e.seqs)) = [(9, [0]), (7, [0, 1]), (8, [0])] ∧
    canResume (f15b { fixResume := true }) 1 8 = false := by
  decide

/-- the two sliding-window sizings of `Init` (variant bit 8; probed from the tree with this very
    configuration): window 2, 2 sequences, context 16, batch 4.  All theorems above are stated for every
    `Variant`, hence for both sizings. -/
theorem swa_capacity_variants :
    (Causal.init {} (some 2) 2 16 4 1 1 true).cells.length = 8 ∧
    (Causal.init { perSeqBatch := true } (some 2) 2 16 4 1 1 true).cells.length = 12 := by decide

/-- non-vacuity of the wrapper theorems: the gemma-style pair (window 4 + full), 2 sequences × context 5,
    two 4-token prompts, then a 3-token batch the sliding-window cache accepts and the causal cache rejects -/
example :
    let mk := fun (w : Option Int) =>
      fwd (fwd (Causal.init { fixDefrag := true, fixResume := true } w 2 5 4 1 1 true)
        [(⟨0, 0⟩, 1), (⟨0, 1⟩, 2), (⟨0, 2⟩, 3), (⟨0, 3⟩, 4)]) [(⟨1, 0⟩, 5), (⟨1, 1⟩, 6), (⟨1, 2⟩, 7), (⟨1, 3⟩, 8)]
    (wStart [mk (some 4), mk none] [⟨0, 4⟩, ⟨0, 5⟩, ⟨0, 6⟩]).2 = .full ∧
    (startForward (mk (some 4)) [⟨0, 4⟩, ⟨0, 5⟩, ⟨0, 6⟩]).2 = .ok ∧
    ((wStart [mk (some 4), mk none] [⟨0, 4⟩, ⟨0, 5⟩, ⟨0, 6⟩]).1.map abs) = [abs (mk (some 4)), abs (mk none)] := by
  decide

/-- non-vacuity of `mask_exact`: a concrete non-trivial state satisfies its hypotheses -/
example : (startForward (f14 {}) [⟨0, 5⟩]).2 = .full ∧
    (startForward (Causal.remove (f14 {}) 0 3 maxInt32).1 [⟨0, 3⟩]).2 = .ok := by decide

/-- non-vacuity of `defrag_abs_perm` / `forward_exposes_stored_history_defrag`: in the F14 state (5 cells,
    positions 0,1 and 3,4 removed ⇒ holes around the one live cell) the 3-token batch is only accepted
    after defragmenting, the cache has layers, the variant carries the repaired coalescing, and defrag
    really moved a cell -/
def f14pre (v : Variant) : Cache :=
  let c1 := fwd (Causal.init v none 1 5 5 1 1 true) [(⟨0, 0⟩, 1), (⟨0, 1⟩, 2), (⟨0, 2⟩, 3), (⟨0, 3⟩, 4), (⟨0, 4⟩, 5)]
  (Causal.remove (Causal.remove c1 0 0 2).1 0 2 maxInt32).1

example :
    (f14pre { fixDefrag := true }).v.fixDefrag = true ∧
    findStart (f14pre { fixDefrag := true }).cells 3 = none ∧
    (startForward (f14pre { fixDefrag := true }) [⟨0, 1⟩, ⟨0, 2⟩, ⟨0, 3⟩]).2 = .ok ∧
    (defrag (f14pre { fixDefrag := true })).cells ≠ (f14pre { fixDefrag := true }).cells := by decide

/-- non-vacuity of `full_only_without_room`: the 5-cell F14 state (two owned cells in the middle) rejects
    a 4-token batch — 3 free cells — and accepts a 3-token one although its free cells are not contiguous -/
example :
    (startForward (f14pre { fixDefrag := true }) [⟨0, 2⟩, ⟨0, 3⟩, ⟨0, 4⟩, ⟨0, 5⟩]).2 = .full ∧
    freeCount (f14pre { fixDefrag := true }).cells = 3 ∧
    findStart (f14pre { fixDefrag := true }).cells 3 = none ∧
    (startForward (f14pre { fixDefrag := true }) [⟨0, 2⟩, ⟨0, 3⟩, ⟨0, 4⟩]).2 = .ok := by decide

/-- non-vacuity of `reserve_mask_exact`: on the F14 state a reserve pass covers all 5 cells and shows the
    query (seq 0, pos 1) the two live entries -/
example :
    (startReserve (f14pre {}) [⟨0, 0⟩, ⟨0, 1⟩]).curRange = ⟨0, 4⟩ ∧
    (exposedEntries (startReserve (f14pre {}) [⟨0, 0⟩, ⟨0, 1⟩]) ⟨0, 1⟩).length = 2 ∧
    0 < (f14pre {}).cells.length := by decide

/-- non-vacuity of `canResume_sound`: window 2, positions 0..3 stored one by one (position 0 already evicted):
    resuming at 3 is approved, the sequence holds no position twice; resuming at 5 (beyond what is stored) is refused -/
example :
    let c := fwd (fwd (fwd (fwd (Causal.init { fixResume := true } (some 2) 1 16 4 1 1 true)
      [(⟨0, 0⟩, 1)]) [(⟨0, 1⟩, 2)]) [(⟨0, 2⟩, 3)]) [(⟨0, 3⟩, 4)]
    c.window = some 2 ∧ canResume c 0 3 = true ∧ (seqPositions (abs c) 0).Nodup ∧ canResume c 0 5 = false ∧
    (abs c).length = 3 := by decide

/-- non-vacuity of `wrapper_rejected_batch_spec`: the gemma-style pair of the wrapper example satisfies its
    hypotheses (positions bounded, the batch continues sequence 0) and the batch is rejected by the second cache -/
example :
    let mk := fun (w : Option Int) =>
      fwd (fwd (Causal.init { fixDefrag := true, fixResume := true } w 2 5 4 1 1 true)
        [(⟨0, 0⟩, 1), (⟨0, 1⟩, 2), (⟨0, 2⟩, 3), (⟨0, 3⟩, 4)]) [(⟨1, 0⟩, 5), (⟨1, 1⟩, 6), (⟨1, 2⟩, 7), (⟨1, 3⟩, 8)]
    let b : List Tok := [⟨0, 4⟩, ⟨0, 5⟩, ⟨0, 6⟩]
    (wStart [mk (some 4), mk none] b).2 = .full ∧
    (∀ c ∈ [mk (some 4), mk none], (∀ x ∈ c.cells, ∀ s ∈ x.seqs, x.pos < maxInt32) ∧
      (∀ x ∈ c.cells, ∀ t ∈ b, t.seq ∈ x.seqs → x.pos < t.pos)) := by decide

/-! ### F28: a refused `Remove` (pinned) has already changed the cache -/

/-- sequence 0 holds positions 0..3, all shared with sequence 1 (`CopyPrefix(0, 1, 4)`) -/
def f28 (v : Variant) : Cache :=
  Causal.copyPrefix (fwd (Causal.init v none 2 8 8 1 1 true) [(⟨0, 0⟩, 10), (⟨0, 1⟩, 11), (⟨0, 2⟩, 12), (⟨0, 3⟩, 13)]) 0 1 4

/-- sequence 0 holds positions 0..3 on a cache without `shiftFn` -/
def f28n (v : Variant) : Cache :=
  fwd (Causal.init v none 1 8 8 1 1 false) [(⟨0, 0⟩, 10), (⟨0, 1⟩, 11), (⟨0, 2⟩, 12), (⟨0, 3⟩, 13)]

/-- **F28 witness (`shared`).**  Pinned: `Remove(0, 1, 2)` must shift positions 2, 3, which sequence 1 shares —
    it is refused (the spec refuses too), but position 1 had already been taken from sequence 0: the abstract
    state changed and the next token of sequence 0 is shown a history with a hole.  Repaired: nothing changed. -/
theorem F28_refused_remove_shared :
    (removeV (f28 {}) 0 1 2).2 = .shared ∧ KV.remove (abs (f28 {})) 0 1 2 = none ∧
    (visible none (abs (f28 {})) 0 4).map key = [(0, 10, 0), (1, 11, 0), (2, 12, 0), (3, 13, 0)] ∧
    (visible none (abs (removeV (f28 {}) 0 1 2).1) 0 4).map key = [(0, 10, 0), (2, 12, 0), (3, 13, 0)] ∧
    (removeV (f28 { atomicRemove := true }) 0 1 2).2 = .shared ∧
    abs (removeV (f28 { atomicRemove := true }) 0 1 2).1 = abs (f28 { atomicRemove := true }) := by decide

/-- **F28 witness (`notsup`).**  Pinned, no `shiftFn`: `Remove(0, 1, 2)` returns `ErrNotSupported` after the
    metadata has been changed: positions 2, 3 are now labelled 1, 2 while their data was never re-shifted
    (shift 0 where the spec's removal has −1).  Repaired: nothing changed. -/
theorem F28_refused_remove_notsup :
    (removeV (f28n {}) 0 1 2).2 = .notsup ∧
    (abs (removeV (f28n {}) 0 1 2).1).map key = [(0, 10, 0), (1, 12, 0), (2, 13, 0)] ∧
    (KV.remove (abs (f28n {})) 0 1 2).map (·.map key) = some [(0, 10, 0), (1, 12, -1), (2, 13, -1)] ∧
    (removeV (f28n { atomicRemove := true }) 0 1 2).2 = .notsup ∧
    abs (removeV (f28n { atomicRemove := true }) 0 1 2).1 = abs (f28n { atomicRemove := true }) := by decide

/-- non-vacuity of `removeV_error_unchanged` / `remove_ok_of_guard_none` -/
example :
    (f28 { atomicRemove := true }).v.atomicRemove = true ∧ (removeV (f28 { atomicRemove := true }) 0 1 2).2 ≠ .ok ∧
    removeGuard (f28 { atomicRemove := true }) 0 3 4 = none ∧ (removeV (f28 { atomicRemove := true }) 0 3 4).2 = .ok := by
  decide

/-- non-vacuity of `refused_remove_then_clear`: the F28 state meets its hypotheses, the refused removal has
    changed the state, and after the recovery sequence 1 still holds all four entries -/
example :
    (Causal.remove (f28 {}) 0 1 2).2 ≠ .ok ∧
    (∀ x ∈ (f28 {}).cells, ∀ s ∈ x.seqs, x.pos < maxInt32) ∧ (∀ x ∈ (f28 {}).cells, 0 ∈ x.seqs → 0 ≤ x.pos) ∧
    abs (Causal.remove (f28 {}) 0 1 2).1 ≠ abs (f28 {}) ∧
    (abs (Causal.remove (Causal.remove (f28 {}) 0 1 2).1 0 0 maxInt32).1).map (fun e => (e.seqs, e.pos, e.id))
      = [([1], 0, 10), ([1], 1, 11), ([1], 2, 12), ([1], 3, 13)] := by decide

/-- non-vacuity (audited): window 2, positions 0..4 stored one by one — positions 0 and 1 have been evicted —
    then the token at position 5 is not below any earlier pass and the ideal history still holds all 5 entries -/
theorem window_exact_nonvacuous :
    let c0 := Causal.init { fixDefrag := true, atomicRemove := true } (some 2) 1 16 4 1 1 true
    let bs : List (List Tok × List Nat) := [([⟨0, 0⟩], [1]), ([⟨0, 1⟩], [2]), ([⟨0, 2⟩], [3]), ([⟨0, 3⟩], [4]), ([⟨0, 4⟩], [5])]
    (startForward ((fwdOps bs).foldl stepH c0) [⟨0, 5⟩]).2 = .ok ∧
    (annotate c0 bs).all (fun pass => decide ((lowest pass.1 0).getD 0 ≤ 5)) = true ∧
    (runI [] (annotate c0 bs)).length = 5 ∧ (abs ((fwdOps bs).foldl stepH c0)).length = 3 := by decide

instance (s : Spec) (op : HOp) : Decidable (OnContract s op) := by
  cases op <;> unfold OnContract <;> infer_instance

instance (op : HOp) : Decidable (BoundedOp op) := by
  cases op <;> unfold BoundedOp <;> infer_instance

instance (op : HOp) : Decidable (WellFormed op) := by
  cases op <;> unfold WellFormed <;> infer_instance

instance decContractRun (W : Option Int) : (c : Cache) → (s : Spec) → (ops : List HOp) → Decidable (ContractRun W c s ops)
  | _, _, [] => isTrue trivial
  | c, s, op :: ops =>
    have := decContractRun W (stepH c op) (specStepT W s op (accepted c op)) ops
    by unfold ContractRun; infer_instance

/-- non-vacuity of `canResume_sound_on_contract` (audited): window 2, positions 0..4 one by one, a fork of the
    first 4 positions, the fork cut back to 3 — the history keeps the contract; `CanResume` approves resuming the
    source at 4 (window 2..3 present) and refuses the fork at 3 (position 1 was evicted before the fork) -/
theorem canResume_contract_nonvacuous :
    let c0 := Causal.init { fixDefrag := true, fixResume := true, atomicRemove := true } (some 2) 2 16 4 1 1 true
    let ops := [HOp.fwd [⟨0, 0⟩] [1], .fwd [⟨0, 1⟩] [2], .fwd [⟨0, 2⟩] [3], .fwd [⟨0, 3⟩] [4], .fwd [⟨0, 4⟩] [5],
      .cp 0 1 4, .rm 1 3 maxInt32, .rm 0 4 maxInt32]
    ContractRun (some 2) c0 [] ops ∧ (∀ op ∈ ops, BoundedOp op) ∧ canResume (ops.foldl stepH c0) 0 4 = true ∧
    (startForward (removeV (ops.foldl stepH c0) 0 4 maxInt32).1 [⟨0, 4⟩]).2 = .ok ∧
    canResume (ops.foldl stepH c0) 1 3 = false := by decide

/-- non-vacuity of `approved_resume_sees_complete_window`: window 2, positions 0..4 stored one by one; resuming at 4
    is approved, positions are bounded and distinct, and the batch `(0,4)` is accepted after the cut -/
example :
    let c := fwd (fwd (fwd (fwd (fwd (Causal.init { fixDefrag := true, fixResume := true } (some 2) 1 16 4 1 1 true)
      [(⟨0, 0⟩, 1)]) [(⟨0, 1⟩, 2)]) [(⟨0, 2⟩, 3)]) [(⟨0, 3⟩, 4)]) [(⟨0, 4⟩, 5)]
    canResume c 0 4 = true ∧ (seqPositions (abs c) 0).Nodup ∧ (∀ x ∈ c.cells, ∀ s ∈ x.seqs, x.pos < maxInt32) ∧
    (startForward (removeV c 0 4 maxInt32).1 [⟨0, 4⟩]).2 = .ok ∧
    ((exposedEntries (put (startForward (removeV c 0 4 maxInt32).1 [⟨0, 4⟩]).1 [9]) ⟨0, 4⟩).map key)
      = [(3, 4, 0), (4, 9, 0), (2, 3, 0)] := by decide

/-- non-vacuity of `full_only_over_capacity`: the 5-cell F14 state holds 2 entries; a 4-token batch is rejected -/
example :
    (startForward (f14pre { fixDefrag := true }) [⟨0, 2⟩, ⟨0, 3⟩, ⟨0, 4⟩, ⟨0, 5⟩]).2 = .full ∧
    (f14pre { fixDefrag := true }).cells.length = 5 ∧ (abs (f14pre { fixDefrag := true })).length = 2 := by decide

/-- non-vacuity of `wrapper_remove_then_clear` (audited): in F29's state the wrapped removal is refused after the
    window cache carried it out; layers exist, positions are bounded and non-negative; after the recovery both
    caches hold exactly what a plain clear of sequence 0 leaves -/
theorem wrapper_clear_nonvacuous :
    let mk := fun (w : Option Int) =>
      Causal.copyPrefix (fwd (fwd (fwd (fwd (Causal.init { atomicRemove := true } w 2 8 8 1 1 true) [(⟨0, 0⟩, 1)]) [(⟨0, 1⟩, 2)]) [(⟨0, 2⟩, 3)]) [(⟨0, 3⟩, 4)]) 0 1 2
    let cs := [mk (some 1), mk none]
    (wRemove cs 0 0 1).2 = .shared ∧
    (∀ c ∈ cs, c.hasLayers = true ∧ (∀ x ∈ c.cells, ∀ s ∈ x.seqs, x.pos < maxInt32) ∧ (∀ x ∈ c.cells, 0 ∈ x.seqs → 0 ≤ x.pos)) ∧
    ((wRemove cs 0 0 1).1.map (fun c => (abs c).map key)) ≠ (cs.map (fun c => (abs c).map key)) ∧
    ((wRemove (wRemove cs 0 0 1).1 0 0 maxInt32).1.map (fun c => (abs c).map key))
      = cs.map (fun c => (abs (Causal.remove c 0 0 maxInt32).1).map key) := by decide

instance (op : HOp) : Decidable (NonNegOp op) := by
  cases op <;> unfold NonNegOp <;> infer_instance

/-- non-vacuity of `window_exact_on_contract` (audited): window 2, sequence 0 stores positions 0..4 one by one
    (0 and 1 get evicted), sequence 1 is forked off its first 4 positions and resumed at 4: the history keeps both
    contracts, `CanResume(1, 4)` approves, the ideal state holds nothing of sequence 1 at or after 4, the batch is
    accepted — and the ideal state has 5 entries where the cache's has 3 -/
theorem window_contract_nonvacuous :
    let c0 := Causal.init { fixDefrag := true, fixResume := true, atomicRemove := true } (some 2) 2 16 4 1 1 true
    let ops := [HOp.fwd [⟨0, 0⟩] [1], .fwd [⟨0, 1⟩] [2], .fwd [⟨0, 2⟩] [3], .fwd [⟨0, 3⟩] [4], .fwd [⟨0, 4⟩] [5], .cp 0 1 4]
    ContractRun (some 2) c0 [] ops ∧ ContractRun none c0 [] ops ∧ (∀ op ∈ ops, BoundedOp op) ∧ (∀ op ∈ ops, NonNegOp op) ∧
    (startForward (ops.foldl stepH c0) [⟨1, 4⟩]).2 = .ok ∧ canResume (ops.foldl stepH c0) 1 4 = true ∧
    (runT none c0 [] ops).all (fun e => !(decide (1 ∈ e.seqs)) || decide (e.pos < 4)) = true ∧
    (runT none c0 [] ops).length = 5 ∧ (runT (some 2) c0 [] ops).length = 3 := by decide

/-- the cache's answers along a history -/
def acceptTrace : Cache → List HOp → List Bool
  | _, [] => []
  | c, op :: ops => accepted c op :: acceptTrace (stepH c op) ops

/-- non-vacuity of the total refinement (audited): on the repaired tree a history with a rejected batch
    (5 cells, 6th token) and a refused `Remove` (cells shared after a fork) is covered — the specification's
    run, told the cache's answers, holds the 5 entries the cache holds -/
theorem refines_total_nonvacuous :
    let c0 := Causal.init { fixDefrag := true, atomicRemove := true } none 1 5 5 1 1 true
    let ops := [HOp.fwd [⟨0, 0⟩, ⟨0, 1⟩, ⟨0, 2⟩, ⟨0, 3⟩, ⟨0, 4⟩] [1, 2, 3, 4, 5], .fwd [⟨0, 5⟩] [6], .cp 0 1 5,
      .rm 0 1 2, .rsv [⟨0, 5⟩], .rm 1 0 maxInt32, .rm 0 1 2]
    acceptTrace c0 ops = [true, false, true, false, true, true, true] ∧
    (runT none c0 [] ops).map key = [(0, 1, 0), (1, 3, -1), (2, 4, -1), (3, 5, -1)] ∧
    (abs (ops.foldl stepH c0)).map key = [(0, 1, 0), (1, 3, -1), (2, 4, -1), (3, 5, -1)] := by decide

/-- **F29 witness.**  Window 1 + full cache ([SWA, causal]): sequence 0 stores positions 0..3, `CopyPrefix(0,1,2)`
    shares positions 0,1 — only in the full cache, the window cache has evicted them.  `Remove(0,0,1)`: the window
    cache carries it out (its cells of sequence 0 are not shared), the full cache refuses.  Pinned: the wrapper returns
    the error with the window cache already shifted — the two caches now disagree about sequence 0's positions.
    Repaired: nothing changed. -/
theorem F29_wrapper_remove_half_done :
    let mk := fun (v : Variant) (w : Option Int) =>
      Causal.copyPrefix (fwd (fwd (fwd (fwd (Causal.init v w 2 8 8 1 1 true) [(⟨0, 0⟩, 1)]) [(⟨0, 1⟩, 2)]) [(⟨0, 2⟩, 3)]) [(⟨0, 3⟩, 4)]) 0 1 2
    let pinned := [mk { atomicRemove := true } (some 1), mk { atomicRemove := true } none]
    let fixed := [mk { atomicRemove := true, atomicWrapperRemove := true } (some 1), mk { atomicRemove := true, atomicWrapperRemove := true } none]
    (wRemoveV pinned 0 0 1).2 = .shared ∧
    ((wRemoveV pinned 0 0 1).1.map (fun c => (abs c).map key)) ≠ (pinned.map (fun c => (abs c).map key)) ∧
    (wRemoveV fixed 0 0 1).2 = .shared ∧
    ((wRemoveV fixed 0 0 1).1.map (fun c => (abs c).map key)) = (fixed.map (fun c => (abs c).map key)) := by decide

end OllamaVerif.C06
