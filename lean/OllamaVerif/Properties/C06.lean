/-
  C06 — KV cache exposes exactly the causal history of each sequence.

  Property theorems over the model of kvcache.Causal (Model/Causal.lean) and the location-free
  specification (Spec/KV.lean), connected by the abstraction `abs` (Proofs/Causal.lean).
-/
import OllamaVerif.Proofs.Causal

namespace OllamaVerif.C06
open OllamaVerif OllamaVerif.KV OllamaVerif.Causal

/-- **CopyPrefix commutes with the abstraction** (every cache, any arguments): afterwards the
    abstract state is the spec's `copyPrefix` of the abstract state before. -/
theorem copyPrefix_abs (c : Cache) (src dst : Nat) (len : Int) :
    abs (Causal.copyPrefix c src dst len) = KV.copyPrefix (abs c) src dst len := by
  simp only [abs, Causal.copyPrefix, KV.copyPrefix, List.zip_map_left, List.filterMap_map,
    List.filterMap_filterMap]
  apply filterMap_congr'
  intro x _
  obtain ⟨cell, row⟩ := x
  simpa using entryOf_cpCell src dst len (cell, row)

/-- **Remove commutes with the abstraction** whenever it reports success: the spec accepts the same
    removal and yields exactly the abstract state after the call (ranges removed, later positions and
    the data's shift moved by `begin − end`, `MaxInt32` meaning "to the end"). -/
theorem remove_abs (c : Cache) (seq : Nat) (b e : Int) (hlen : c.cells.length = c.rows.length)
    (hsz : c.cells.length ≤ maxInt) (hl : c.hasLayers = true)
    (hok : (Causal.remove c seq b e).2 = .ok) :
    KV.remove (abs c) seq b e = some (abs (Causal.remove c seq b e).1) := by
  unfold Causal.remove at hok ⊢
  simp only at hok ⊢
  cases hr : (removeCells seq b e (rmOffset b e) c.cells).2 with
  | true => simp [hr] at hok
  | false =>
    have hcells := removeCells_ok seq b e (rmOffset b e) c.cells hr
    have hany : (abs c).any (mustRefuse seq b e) = false := by
      rw [abs, any_refuse_abs seq b e c.cells c.rows hlen, ← removeCells_flag seq b e (rmOffset b e), hr]
    simp only [KV.remove, hany, Bool.false_eq_true, if_false, Option.some.injEq]
    simp only [hr, Bool.false_eq_true, if_false] at hok
    simp only [hcells] at hok ⊢
    by_cases hnew : rangeOf (hasSeq seq) (c.cells.map (rmCell seq b e (rmOffset b e))) = Range.new
    · -- nothing of `seq` is left: no row needs a shift
      simp only [hnew, if_true, abs]
      rw [zip_noShift, List.filterMap_map, List.filterMap_filterMap]
      apply filterMap_congr'
      intro x hx
      have hno := rangeOf_new _ _ (by rw [List.length_map]; exact hsz) hnew
      obtain ⟨k, hk, rfl⟩ := List.getElem_of_mem hx
      have hk' : k < c.cells.length := by
        have := hk; simp only [List.length_zip] at this; omega
      have hk2 : k < (c.cells.map (rmCell seq b e (rmOffset b e))).length := by
        rw [List.length_map]; exact hk'
      have hcell := hno k hk2
      simp only [List.getElem_map, hasSeq, decide_eq_false_iff_not] at hcell
      simp only [List.getElem_zip, Function.comp]
      generalize c.cells[k] = cell at hcell
      generalize c.rows[k]'(by rw [← hlen]; exact hk') = row
      obtain ⟨pos, seqs⟩ := cell
      by_cases h0 : seqs = []
      · subst h0; simp [entryOf, rmPair, rmCell]
      · by_cases h1 : seq ∈ seqs
        · by_cases h2 : b ≤ pos ∧ pos < e
          · simp [entryOf, rmPair, rmCell, rmEntry, h0, h1, h2, dropSeq]
          · by_cases h3 : pos ≥ e
            · simp [rmCell, h1, h2, h3] at hcell
            · simp [entryOf, rmPair, rmCell, rmEntry, h0, h1, h2, h3]
        · simp [entryOf, rmPair, rmCell, rmEntry, h0, h1]
    · simp only [hnew, if_false] at hok ⊢
      by_cases he : e = maxInt32
      · subst he
        simp only [if_true, abs]
        rw [zip_noShift, List.filterMap_map, List.filterMap_filterMap]
        apply filterMap_congr'
        intro x _
        simpa using (entryOf_rmPair_noshift_inf seq b x).symm
      · simp only [he, if_false] at hok ⊢
        cases hs : c.hasShift with
        | false => simp [hs] at hok
        | true =>
          simp only [Bool.not_true, Bool.false_eq_true, if_false, hl, if_true, abs]
          rw [zip_shiftRows, List.filterMap_map,
            List.filterMap_filterMap]
          apply filterMap_congr'
          intro x _
          simpa using (entryOf_rmPair_shift seq b e he x).symm

/-- what mask row `t` exposes: the entries (cell metadata + row data) at the exposed locations -/
def exposedEntries (c : Cache) (t : Tok) : List Entry := (exposed c t).filterMap (entryAt c)

/-- `t`'s sequence only lives inside the (padded) range the mask and the K/V views cover -/
def Covers (c : Cache) (t : Tok) : Prop :=
  c.curRange.max < c.cells.length ∧
  ∀ j (hj : j < c.cells.length), t.seq ∈ c.cells[j].seqs → c.curRange.min ≤ j ∧ j ≤ c.curRange.max

/-- **The mask is exact** for every token whose sequence is covered by the current range: the
    entries exposed by its mask row, with the data found at those locations, are exactly — same
    entries, same multiplicities, same order — the entries of the abstract state that are visible
    to (sequence, position): same sequence, position not later, inside the window. -/
theorem mask_exact_of_covers (c : Cache) (t : Tok) (hlen : c.cells.length = c.rows.length)
    (hcov : Covers c t) :
    exposedEntries c t = visible c.window (abs c) t.seq t.pos := by
  obtain ⟨hmax, hcov⟩ := hcov
  have hnone : ∀ j, j < c.cells.length → (j < c.curRange.min ∨ c.curRange.max < j) →
      (entryAt c j).filter (vis c.window t.seq t.pos) = none := by
    intro j hj hout
    rw [← maskBit_entryAt]
    have : maskBit c t j = false := by
      unfold maskBit
      simp only [List.getD_eq_getElem?_getD, List.getElem?_eq_getElem hj, Option.getD_some]
      by_cases hm : t.seq ∈ c.cells[j].seqs
      · have := hcov j hj hm; omega
      · simp [hm]
    simp [this]
  unfold exposedEntries visible exposed
  rw [abs_eq_range c hlen, filter_filterMap', filterMap_filter']
  simp only [maskBit_entryAt]
  by_cases hle : c.curRange.min ≤ c.curRange.max
  · rw [filterMap_range_restrict _ c.cells.length c.curRange.min (c.curRange.max + 1 - c.curRange.min) (by omega)]
    intro j hj hout
    exact hnone j hj (by omega)
  · have hz : c.curRange.max + 1 - c.curRange.min = 0 := by omega
    rw [hz]
    simp only [List.range'_zero, List.filterMap_nil]
    symm
    apply filterMap_all_none
    intro j hj
    simp only [List.mem_range] at hj
    exact hnone j hj (by omega)

end OllamaVerif.C06
