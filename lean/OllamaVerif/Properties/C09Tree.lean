/-
  C09 — the property as an invariant of every history, for the tree as it is in /repo
  (`verify = true`, `staged = false`: layers are re-hashed before `Link`, but `Chunked` still
  writes into the final blob file).

  `history_linked_layers_verified` (Properties/C09.lean) needs the `staged` variant because of
  finding F10d: a manifest that declares an already cached digest with ANOTHER size defeats the
  size shortcut and the blob is overwritten in place.  Here the same invariant is proved for the
  tree itself under the guard that excludes exactly that input class: sizes are a function of the
  digest (`l.size = sz l.digest` for every layer of every manifest the registry serves during the
  history and of every manifest linked before it).  No assumption on `H`.

  The core is a run-level invariant (`RunInv`): a blob file that has its declared size when
  `Pull` starts is never opened for writing — every layer naming it takes the `c.Get` shortcut or
  gets the file-less pre-validated Chunker — whatever plans, faults, completion order, MaxStreams.
-/
import OllamaVerif.Properties.C09
import OllamaVerif.Model.RegistryCov

namespace OllamaVerif.C09
open OllamaVerif OllamaVerif.Registry

section
variable {D : Type} [DecidableEq D]

/-- the blob file of `d` has the size `sz` declares for `d` (content not looked at) -/
def Complete (sz : D → Nat) (files : D → Option Bytes) (d : D) : Prop :=
  ∃ f, files d = some f ∧ f.length = sz d

/-- the main goroutine's remaining program is well formed: every chunk (waiting or not) belongs to
    the layer of the `beginL` before it (`cur`), and every layer's size is the declared one -/
def OpsOK (sz : D → Nat) : Option (Layer D) → List (Op D) → Prop
  | _, [] => True
  | _, .beginL _ l _ :: rest => l.size = sz l.digest ∧ OpsOK sz (some l) rest
  | cur, .chunk _ l _ :: rest => cur = some l ∧ OpsOK sz cur rest
  | _, .launch _ _ _ :: _ => False
  | cur, .closeL _ :: rest => OpsOK sz cur rest

/-- … except that its first instruction may be a chunk that has passed the marker check and waits in
    `g.Go` for a free slot (then the layer is not a skipped one) -/
def ProgOK (sz : D → Nat) (st : Run D) (cur : Option (Layer D)) : List (Op D) → Prop
  | .launch _ l _ :: rest => cur = some l ∧ st.skipLayer = false ∧ OpsOK sz cur rest
  | ops => OpsOK sz cur ops

theorem ProgOK_of_OpsOK (sz : D → Nat) (st : Run D) (cur : Option (Layer D)) (ops : List (Op D))
    (h : OpsOK sz cur ops) : ProgOK sz st cur ops := by
  cases ops with
  | nil => exact h
  | cons o rest => cases o <;> first | exact h | (simp only [OpsOK] at h)

/-- run-level invariant, relative to the blob files `F0` at the start of the attempt -/
structure RunInv (sz : D → Nat) (F0 : D → Option Bytes) (st : Run D) (cur : Option (Layer D)) : Prop where
  /-- a blob that was complete at the start has not been touched -/
  files : ∀ d, Complete sz F0 d → st.cache.files d = F0 d
  /-- a chunk goroutine on such a blob holds the file-less pre-validated Chunker -/
  tasks : ∀ t ∈ st.inflight, Complete sz F0 t.layer.digest → t.prevalid = true
  /-- the layer being planned: skipped, or pre-validated, if its blob was complete at the start -/
  cur : ∀ l, cur = some l → l.size = sz l.digest ∧
    (Complete sz F0 l.digest → st.skipLayer = true ∨ st.prevalid = true)

theorem setWork_files_ne (v : Variant) (c : Cache D) (d x : D) (f : Bytes) (h : x ≠ d) :
    (c.setWork v d f).files x = c.files x := by
  unfold Cache.setWork Cache.setFile
  split <;> simp [h]

theorem ensureFile_files_ne (v : Variant) (c : Cache D) (d x : D) (h : x ≠ d) :
    (ensureFile v c d).files x = c.files x := by
  unfold ensureFile; split
  · rfl
  · exact setWork_files_ne v c d x [] h

/-- `prevalidated` holds for a layer whose blob is complete -/
theorem prevalidated_of_complete (sz : D → Nat) (c : Cache D) (l : Layer D) (hl : l.size = sz l.digest)
    (h : Complete sz c.files l.digest) : prevalidated c l = true := by
  obtain ⟨f, hf, hlen⟩ := h
  unfold prevalidated; rw [hf]; simp [hlen, hl]

theorem layerOps_ok (sz : D → Nat) (thr : Nat) (plans : List (PlanResp D)) (ls : List (Layer D)) :
    ∀ (i : Nat) (cur : Option (Layer D)), (∀ l ∈ ls, l.size = sz l.digest) →
      OpsOK sz cur (layerOps thr plans i ls) := by
  induction ls with
  | nil => intro i cur _; simp [layerOps, OpsOK]
  | cons l ls ih =>
    intro i cur h
    simp only [layerOps, List.cons_append, OpsOK]
    refine ⟨h l (by simp), ?_⟩
    -- the chunk ops of this layer, then closeL, then the rest
    have key : ∀ (cs : List (CS D)),
        OpsOK sz (some l) (cs.map (Op.chunk i l) ++ Op.closeL i :: layerOps thr plans (i + 1) ls) := by
      intro cs
      induction cs with
      | nil => simp only [List.map_nil, List.nil_append, OpsOK]; exact ih (i + 1) (some l) (fun x hx => h x (by simp [hx]))
      | cons c cs ihc => simp only [List.map_cons, List.cons_append, OpsOK]; exact ⟨trivial, ihc⟩
    exact key _

/-- the main goroutine preserves the invariant (any variant, any MaxStreams) -/
theorem advance_inv (sz : D → Nat) (F0 : D → Option Bytes) (v : Variant) (limit : Option Nat)
    (st : Run D) (ops : List (Op D)) :
    ∀ cur, RunInv sz F0 st cur → ProgOK sz st cur ops →
      ∃ cur', RunInv sz F0 (advance v limit st ops) cur' ∧
        ProgOK sz (advance v limit st ops) cur' (advance v limit st ops).ops := by
  fun_induction advance v limit st ops with
  | case1 st => intro cur hi _; exact ⟨cur, ⟨hi.files, hi.tasks, hi.cur⟩, trivial⟩
  | case2 st e l big rest hsc ih =>
    intro cur hi hops
    simp only [ProgOK, OpsOK] at hops
    refine ih (some l) ⟨hi.files, hi.tasks, ?_⟩ (ProgOK_of_OpsOK sz _ _ _ hops.2)
    intro l' hl'; injection hl' with hl'; subst hl'
    exact ⟨hops.1, fun _ => Or.inl rfl⟩
  | case3 st e l big rest hsc ih =>
    intro cur hi hops
    simp only [ProgOK, OpsOK] at hops
    have hcomp : Complete sz F0 l.digest → prevalidated st.cache l = true := fun hc =>
      prevalidated_of_complete sz st.cache l hops.1
        (by obtain ⟨f, hf, hlen⟩ := hc; exact ⟨f, by rw [hi.files _ ⟨f, hf, hlen⟩]; exact hf, hlen⟩)
    refine ih (some l) ⟨?_, hi.tasks, ?_⟩ (ProgOK_of_OpsOK sz _ _ _ hops.2)
    · intro d hd
      show (if prevalidated st.cache l = true then st.cache else ensureFile v st.cache l.digest).files d = F0 d
      by_cases hp : prevalidated st.cache l = true
      · rw [if_pos hp]; exact hi.files d hd
      · rw [if_neg hp]
        have hne : d ≠ l.digest := by
          intro he; subst he; exact hp (hcomp hd)
        rw [ensureFile_files_ne v st.cache l.digest d hne]; exact hi.files d hd
    · intro l' hl'; injection hl' with hl'; subst hl'
      exact ⟨hops.1, fun hc => Or.inr (hcomp hc)⟩
  | case4 st e l cs rest hskip ih =>
    intro cur hi hops
    simp only [ProgOK, OpsOK] at hops
    exact ih cur hi (ProgOK_of_OpsOK sz _ _ _ hops.2)
  | case5 st e l cs rest hskip hm ih =>
    intro cur hi hops
    simp only [ProgOK, OpsOK] at hops
    exact ih cur ⟨hi.files, hi.tasks, hi.cur⟩ (ProgOK_of_OpsOK sz _ _ _ hops.2)
  | case6 st e l cs rest hskip hm hfree =>
    intro cur hi hops
    simp only [ProgOK, OpsOK] at hops
    refine ⟨cur, ⟨hi.files, hi.tasks, hi.cur⟩, ?_⟩
    simp only [ProgOK]
    have hsk : st.skipLayer = false ∧ st.skipChunks = false := by simpa using hskip
    exact ⟨hops.1, hsk.1, hops.2⟩
  | case7 st e l cs rest hskip hm hfree hc ih =>
    intro cur hi hops
    simp only [ProgOK, OpsOK] at hops
    exact ih cur ⟨hi.files, hi.tasks, hi.cur⟩ (ProgOK_of_OpsOK sz _ _ _ hops.2)
  | case8 st e l cs rest hskip hm hfree hc ih =>
    intro cur hi hops
    simp only [ProgOK, OpsOK] at hops
    refine ih cur ⟨hi.files, ?_, hi.cur⟩ (ProgOK_of_OpsOK sz _ _ _ hops.2)
    intro t ht hcomp
    rcases List.mem_append.mp ht with ht | ht
    · exact hi.tasks t ht hcomp
    · simp only [List.mem_singleton] at ht; subst ht
      obtain ⟨_, hcur⟩ := hi.cur l hops.1
      rcases hcur hcomp with h1 | h1
      · simp [h1] at hskip
      · exact h1
  | case9 st e l cs rest hfree =>
    intro cur hi hops
    simp only [ProgOK] at hops
    exact ⟨cur, ⟨hi.files, hi.tasks, hi.cur⟩, by simp only [ProgOK]; exact hops⟩
  | case10 st e l cs rest hfree hc ih =>
    intro cur hi hops
    simp only [ProgOK] at hops
    exact ih cur ⟨hi.files, hi.tasks, hi.cur⟩ (ProgOK_of_OpsOK sz _ _ _ hops.2.2)
  | case11 st e l cs rest hfree hc ih =>
    intro cur hi hops
    simp only [ProgOK] at hops
    refine ih cur ⟨hi.files, ?_, hi.cur⟩ (ProgOK_of_OpsOK sz _ _ _ hops.2.2)
    intro t ht hcomp
    rcases List.mem_append.mp ht with ht | ht
    · exact hi.tasks t ht hcomp
    · simp only [List.mem_singleton] at ht; subst ht
      obtain ⟨_, hcur⟩ := hi.cur l hops.1
      rcases hcur hcomp with h1 | h1
      · rw [hops.2.1] at h1; cases h1
      · exact h1
  | case12 st e rest hskip ih =>
    intro cur hi hops
    simp only [ProgOK, OpsOK] at hops
    exact ih cur hi (ProgOK_of_OpsOK sz _ _ _ hops)
  | case13 st e rest hskip hfree =>
    intro cur hi hops
    exact ⟨cur, ⟨hi.files, hi.tasks, hi.cur⟩, hops⟩
  | case14 st e rest hskip hfree ih =>
    intro cur hi hops
    simp only [ProgOK, OpsOK] at hops
    exact ih cur ⟨hi.files, hi.tasks, hi.cur⟩ (ProgOK_of_OpsOK sz _ _ _ hops)

theorem applyTask_frame (H : Bytes → D) (v : Variant) (st : Run D) (t : Registry.Task D) (r : ChunkResp) :
    (applyTask H v st t r).ops = st.ops ∧ (applyTask H v st t r).inflight = st.inflight ∧
    (applyTask H v st t r).skipLayer = st.skipLayer ∧ (applyTask H v st t r).prevalid = st.prevalid := by
  cases r with
  | fail e => exact ⟨rfl, rfl, rfl, rfl⟩
  | redirect => exact ⟨rfl, rfl, rfl, rfl⟩
  | body ps fin =>
    simp only [applyTask]
    split
    · exact ⟨rfl, rfl, rfl, rfl⟩
    · split <;> exact ⟨rfl, rfl, rfl, rfl⟩

/-- a chunk goroutine that holds a real Chunker writes only the blob of its own layer -/
theorem applyTask_files_ne (H : Bytes → D) (v : Variant) (st : Run D) (t : Registry.Task D) (r : ChunkResp)
    (d : D) (h : t.prevalid = true ∨ d ≠ t.layer.digest) :
    (applyTask H v st t r).cache.files d = st.cache.files d := by
  cases r with
  | fail e => rfl
  | redirect => rfl
  | body ps fin =>
    simp only [applyTask]
    split
    · rfl
    · rename_i hp
      have hne : d ≠ t.layer.digest := by
        rcases h with h | h
        · exact absurd h hp
        · exact h
      split <;> simp [Cache.setMarker, setWork_files_ne v _ _ d _ hne]

theorem ProgOK_congr (sz : D → Nat) (st st' : Run D) (cur : Option (Layer D)) (ops : List (Op D))
    (h : st'.skipLayer = st.skipLayer) (hp : ProgOK sz st cur ops) : ProgOK sz st' cur ops := by
  cases ops with
  | nil => exact hp
  | cons o rest =>
    cases o <;> first | exact hp | (simp only [ProgOK] at hp ⊢; rw [h]; exact hp)

/-- invariant of the whole run, between the adversary's steps -/
def RunOK (sz : D → Nat) (F0 : D → Option Bytes) (st : Run D) : Prop :=
  ∃ cur, RunInv sz F0 st cur ∧ ProgOK sz st cur st.ops

theorem advance_ok (sz : D → Nat) (F0 : D → Option Bytes) (v : Variant) (limit : Option Nat) (st : Run D)
    (h : RunOK sz F0 st) : RunOK sz F0 (advance v limit st st.ops) := by
  obtain ⟨cur, hi, hp⟩ := h
  exact advance_inv sz F0 v limit st st.ops cur hi hp

theorem step_ok (sz : D → Nat) (F0 : D → Option Bytes) (H : Bytes → D) (v : Variant) (limit : Option Nat)
    (st st' : Run D) (s : Step) (h : step H v limit st s = some st') (hok : RunOK sz F0 st) :
    RunOK sz F0 st' := by
  obtain ⟨cur, hi, hp⟩ := hok
  cases s with
  | release k r =>
    simp only [step] at h
    split at h
    · cases h
    · rename_i t ht
      split at h
      · injection h with h; subst h; exact ⟨cur, hi, hp⟩
      · injection h with h; subst h
        have htm : t ∈ st.inflight := List.mem_of_getElem? ht
        obtain ⟨f1, f2, f3, f4⟩ := applyTask_frame H v { st with inflight := st.inflight.eraseIdx k } t r
        -- the state after the goroutine has returned
        have hi1 : RunInv sz F0 (applyTask H v { st with inflight := st.inflight.eraseIdx k } t r) cur := by
          refine ⟨?_, ?_, ?_⟩
          · intro d hd
            rw [applyTask_files_ne H v _ t r d]
            · exact hi.files d hd
            · by_cases hdt : d = t.layer.digest
              · left; subst hdt; exact hi.tasks t htm hd
              · right; exact hdt
          · intro t' ht' hc
            rw [f2] at ht'
            exact hi.tasks t' (List.mem_of_mem_eraseIdx ht') hc
          · intro l hl
            rw [f3, f4]; exact hi.cur l hl
        have hp1 : ProgOK sz (applyTask H v { st with inflight := st.inflight.eraseIdx k } t r) cur
            (applyTask H v { st with inflight := st.inflight.eraseIdx k } t r).ops := by
          rw [f1]; exact ProgOK_congr sz st _ cur st.ops f3 hp
        apply advance_ok
        split
        · exact ⟨cur, ⟨hi1.files, (fun t' ht' => by cases ht'), hi1.cur⟩, ProgOK_congr sz _ _ cur _ rfl hp1⟩
        · exact ⟨cur, hi1, hp1⟩
  | cancel =>
    simp only [step] at h
    injection h with h; subst h
    apply advance_ok
    exact ⟨cur, ⟨hi.files, (fun t' ht' => by cases ht'), hi.cur⟩, ProgOK_congr sz st _ cur _ rfl hp⟩
  | timeout =>
    simp only [step] at h
    injection h with h; subst h
    apply advance_ok
    exact ⟨cur, ⟨hi.files, (fun t' ht' => by cases ht'), hi.cur⟩, ProgOK_congr sz st _ cur _ rfl hp⟩

theorem runSteps_ok (sz : D → Nat) (F0 : D → Option Bytes) (H : Bytes → D) (v : Variant) (limit : Option Nat)
    (ss : List Step) :
    ∀ (st st' : Run D), runSteps H v limit st ss = some st' → RunOK sz F0 st → RunOK sz F0 st' := by
  induction ss with
  | nil => intro st st' h hok; simp only [runSteps] at h; injection h with h; subst h; exact hok
  | cons s ss ih =>
    intro st st' h hok
    simp only [runSteps] at h
    split at h
    · cases h
    · rename_i st1 hs1
      exact ih st1 st' h (step_ok sz F0 H v limit st st1 s hs1 hok)

/-- **A complete blob file is never opened for writing.**  For every tree variant, manifest whose
    layer sizes are the declared ones, chunk plans, fault script, completion order and MaxStreams:
    a blob file that has its declared size when `Pull` starts is byte for byte the same when
    `g.Wait()` returns. -/
theorem pullRun_keeps_complete_files (H : Bytes → D) (cfg : Cfg) (sz : D → Nat) (c : Cache D) (m : Manifest D)
    (hm : ∀ l ∈ m.all, l.size = sz l.digest)
    (a : Attempt D) (st : Run D) (h : pullRun H cfg c m a = some st) (d : D) (hd : Complete sz c.files d) :
    st.cache.files d = c.files d := by
  unfold pullRun at h
  have h0 : RunOK sz c.files (startRun cfg c m a.plans) := by
    unfold startRun
    apply advance_ok sz c.files cfg.variant cfg.limit { cache := c, ops := layerOps cfg.thr a.plans 0 m.all }
    refine ⟨none, ⟨fun _ _ => rfl, (fun t ht => by cases ht), (fun l hl => by cases hl)⟩, ?_⟩
    exact ProgOK_of_OpsOK sz _ _ _ (layerOps_ok sz cfg.thr a.plans m.all 0 none hm)
  obtain ⟨cur, hi, _⟩ := runSteps_ok sz c.files H cfg.variant cfg.limit a.steps _ st h h0
  exact hi.files d hd

/-- every layer of the manifest (config included) has the size declared for its digest -/
def Sized (sz : D → Nat) (m : Manifest D) : Prop := ∀ l ∈ m.all, l.size = sz l.digest

/-- the manifest the registry serves in this attempt (if it serves one) is `Sized` -/
def AttemptSized (sz : D → Nat) (a : Attempt D) : Prop := ∀ m, a.man = .ok m → Sized sz m

theorem verifyPass_preserves_sized (H : Bytes → D) (cfg : Cfg) (hs : cfg.staged = false) (sz : D → Nat)
    (c : Cache D) (m : Manifest D) (hm : Sized sz m) (d : D) (hg : Good H c d (sz d)) :
    Good H (verifyPass H cfg c m).1 d (sz d) := by
  unfold verifyPass
  simp only [hs, Bool.and_false, Bool.false_eq_true, if_false]
  split
  · split
    · rename_i l hfind
      have hl : l ∈ m.all := List.mem_of_find?_eq_some hfind
      have hbad : (!layerGood H c l) = true := List.find?_some (p := fun l => !layerGood H c l) hfind
      obtain ⟨f, hf, hlen, hH⟩ := hg
      have hne : d ≠ l.digest := by
        intro he
        have : layerGood H c l = true := by
          unfold layerGood
          rw [← he, hf]
          simp [hlen, hm l hl, he, hH]
        rw [this] at hbad; cases hbad
      exact ⟨f, by simp [Cache.removeFile, hne, hf], hlen, hH⟩
    · exact hg
  · exact hg

/-- **No pull damages a verified blob — on the tree as it is (no staging), for size-consistent
    manifests.**  Every blob that is in the cache with its declared size and the right whole-file
    hash is still there, unchanged, after EVERY pull of a manifest whose layer sizes are the
    declared ones: any name, plans, fault script, completion order, outcome.  The guard excludes
    exactly the input class of finding F10d (a digest declared with two different sizes). -/
theorem pull_preserves_verified_blobs_sized (H : Bytes → D) (cfg : Cfg) (hs : cfg.staged = false)
    (sz : D → Nat) (c : Cache D) (a : Attempt D) (ha : AttemptSized sz a) (d : D)
    (hg : Good H c d (sz d)) : Good H (pull H cfg c a).1 d (sz d) := by
  unfold pull
  split
  · exact hg
  · rename_i m hm
    split
    · exact hg
    · split
      · exact hg
      · rename_i st hst
        have hcomp : Complete sz c.files d := by
          obtain ⟨f, hf, h1, _⟩ := hg; exact ⟨f, hf, h1⟩
        have hfiles := pullRun_keeps_complete_files H cfg sz c m (ha m hm) a st hst d hcomp
        have hg' : Good H st.cache d (sz d) := by
          obtain ⟨f, hf, h1, h2⟩ := hg
          exact ⟨f, by rw [hfiles]; exact hf, h1, h2⟩
        unfold finish
        split
        · exact hg'
        · split
          · exact hg'
          · split
            · exact hg'
            · have hp := verifyPass_preserves_sized H cfg hs sz st.cache m (ha m hm) d hg'
              split
              · rename_i c1 hc1
                rw [hc1] at hp
                obtain ⟨f, hf, h1, h2⟩ := hp
                exact ⟨f, by rw [link_files]; exact hf, h1, h2⟩
              · rename_i c1 hc1; rw [hc1] at hp; exact hp

/-- every linked name's manifest is `Sized` and all its layers are verified blobs -/
def LinkedVerifiedSized (sz : D → Nat) (H : Bytes → D) (c : Cache D) : Prop :=
  ∀ n m, c.links n = some m → Sized sz m ∧ ∀ l ∈ m.all, Good H c l.digest l.size

theorem pull_keeps_linkedVerifiedSized (H : Bytes → D) (cfg : Cfg) (hv : cfg.verify = true)
    (hs : cfg.staged = false) (sz : D → Nat) (c : Cache D) (a : Attempt D) (ha : AttemptSized sz a)
    (hinv : LinkedVerifiedSized sz H c) : LinkedVerifiedSized sz H (pull H cfg c a).1 := by
  intro n m hn
  by_cases hold : c.links n = some m
  · obtain ⟨hsz, hgood⟩ := hinv n m hold
    refine ⟨hsz, fun l hl => ?_⟩
    have := pull_preserves_verified_blobs_sized H cfg hs sz c a ha l.digest (by rw [← hsz l hl]; exact hgood l hl)
    rw [← hsz l hl] at this; exact this
  · by_cases hok : (pull H cfg c a).2 = .ok
    · have hpair : pull H cfg c a = ((pull H cfg c a).1, .ok) := by rw [← hok]
      obtain ⟨m', st, c1, hm', _, _, _, _, _, _, hl1, hc'⟩ := pull_links_last H cfg c _ a hpair
      obtain ⟨m'', hm'', hall⟩ :=
        pull_success_verified H cfg hv (fun h => by rw [hs] at h; cases h) c _ a hpair
      have : m'' = m' := by rw [hm'] at hm''; injection hm'' with e; exact e.symm
      subst this
      rw [hc'] at hn
      unfold Cache.link at hn
      have key : m = m'' := by
        split at hn
        · split at hn
          · rw [hl1] at hn; exact absurd hn hold
          · by_cases hna : n = a.name
            · simp [hna] at hn; exact hn.symm
            · simp [hna] at hn; rw [hl1] at hn; exact absurd hn hold
        · by_cases hna : n = a.name
          · simp [hna] at hn; exact hn.symm
          · simp [hna] at hn; rw [hl1] at hn; exact absurd hn hold
      subst key
      exact ⟨ha m hm', hall⟩
    · rw [failed_pull_keeps_links H cfg c a hok] at hn
      exact absurd hn hold

/-- **The property as an invariant of every history, on the tree as it is in /repo.**  Start from
    an empty cache (or any cache in which every linked name is verified).  After ANY sequence of
    pulls of size-consistent manifests — successes, failures part-way, retries, other names,
    broken / repeated / overlapping chunk plans, chunks past the layer end, any faults, completion
    orders, MaxStreams — every linked name's manifest has every layer (config included) in the
    cache as a file of exactly the manifest's size whose whole-file hash is the manifest's
    digest.  In particular a failed pull leaves every linked model complete, and the model a
    successful pull links is complete.  No assumption on `H`.  Without the guard the statement
    is false on this tree: `F10d_size_lie_overwrites_verified_blob`. -/
theorem history_linked_layers_verified_tree (H : Bytes → D) (cfg : Cfg) (hv : cfg.verify = true)
    (hs : cfg.staged = false) (sz : D → Nat) (as : List (Attempt D)) :
    (∀ a ∈ as, AttemptSized sz a) →
    ∀ c : Cache D, LinkedVerifiedSized sz H c → LinkedVerifiedSized sz H (pullHistory H cfg c as).1 := by
  induction as with
  | nil => intro _ c h; exact h
  | cons a as ih =>
    intro hall c h
    simp only [pullHistory]
    exact ih (fun x hx => hall x (by simp [hx])) _
      (pull_keeps_linkedVerifiedSized H cfg hv hs sz c a (hall a (by simp)) h)

/-- the same through the retry loop of `handlePull`, however it ends (success, permanent error,
    client gone while retrying) -/
theorem handlePull_linked_layers_verified_tree (H : Bytes → D) (cfg : Cfg) (hv : cfg.verify = true)
    (hs : cfg.staged = false) (sz : D → Nat) (as : List (Attempt D)) :
    (∀ a ∈ as, AttemptSized sz a) →
    ∀ c : Cache D, LinkedVerifiedSized sz H c → LinkedVerifiedSized sz H (handlePull H cfg c as).1 := by
  induction as with
  | nil => intro _ c h; exact h
  | cons a as ih =>
    intro hall c h
    have h1 := pull_keeps_linkedVerifiedSized H cfg hv hs sz c a (hall a (by simp)) h
    unfold handlePull
    by_cases hr : canRetry (pull H cfg c a).2 = true
    · simp only [hr, if_true]
      exact ih (fun x hx => hall x (by simp [hx])) _ h1
    · simp only [hr]
      exact h1

theorem linkedVerifiedSized_empty (sz : D → Nat) (H : Bytes → D) :
    LinkedVerifiedSized sz H (Cache.empty : Cache D) := by
  intro n m h; simp [Cache.empty] at h

/-! ### Branch tracing (Model/RegistryCov.lean) is the model -/

/-- the traced main goroutine IS the model's `advance` -/
theorem advanceT_fst (v : Variant) (limit : Option Nat) (st : Run D) (ops : List (Op D)) :
    (advanceT v limit st ops).1 = advance v limit st ops := by
  fun_induction advance v limit st ops <;> simp_all [advanceT]

/-- the traced step IS the model's `step` -/
theorem stepT_fst (H : Bytes → D) (v : Variant) (limit : Option Nat) (st : Run D) (s : Step) :
    (stepT H v limit st s).map (·.1) = step H v limit st s := by
  cases s with
  | release k r =>
    simp only [stepT, step]
    cases st.inflight[k]? with
    | none => rfl
    | some t =>
      simp only []
      by_cases hr : isRedirect r = true
      · simp [hr]
      · simp [hr, advanceT_fst]
  | cancel => simp [stepT, step, advanceT_fst]
  | timeout => simp [stepT, step, advanceT_fst]

theorem runStepsT_fst (H : Bytes → D) (v : Variant) (limit : Option Nat) (ss : List Step) :
    ∀ st : Run D, (runStepsT H v limit st ss).map (·.1) = runSteps H v limit st ss := by
  induction ss with
  | nil => intro st; rfl
  | cons s ss ih =>
    intro st
    have h1 := stepT_fst H v limit st s
    simp only [runStepsT, runSteps]
    cases hs : stepT H v limit st s with
    | none => rw [hs] at h1; simp at h1; rw [← h1]; rfl
    | some p =>
      obtain ⟨st', t⟩ := p
      rw [hs] at h1; simp at h1; rw [← h1]
      have h2 := ih st'
      simp only []
      cases hr : runStepsT H v limit st' ss with
      | none => rw [hr] at h2; simp at h2; rw [← h2]; rfl
      | some q => rw [hr] at h2; simp at h2; rw [← h2]; rfl

/-- the traced attempt reaches exactly the state of `pullRun`: the branch counters the check prints
    (oracle command `pullcov`, `historyTags`) are counters of the model the theorems are about -/
theorem pullRun_traced (H : Bytes → D) (cfg : Cfg) (c : Cache D) (m : Manifest D) (a : Attempt D) :
    (runStepsT H cfg.variant cfg.limit
      (advanceT cfg.variant cfg.limit { cache := c, ops := layerOps cfg.thr a.plans 0 m.all }
        (layerOps cfg.thr a.plans 0 m.all)).1 a.steps).map (·.1) = pullRun H cfg c m a := by
  rw [runStepsT_fst, advanceT_fst]; rfl

end

/-! ### Witness and non-vacuity (`D := Bytes`, `H := id`, declared size = length of the pre-image) -/

/-- the tree as it is in /repo, threshold 6 -/
def tcfg : Cfg := ⟨6, none, true, true, false⟩

/-- **The guard is needed on this tree** (finding F10d): pull `d1` links name 0 to a verified
    4-byte blob; pull `d2` (another name) is served a manifest declaring the same digest with size
    5 — not `Sized` — fails, and leaves name 0 linked to a blob whose first bytes were overwritten. -/
theorem F10d_breaks_unguarded_invariant_on_tree :
    (pullHistory id tcfg Cache.empty [d1, d2]).2 = [.ok, .err .digest] ∧
    (pullHistory id tcfg Cache.empty [d1, d2]).1.links 0 = some mABCD ∧
    (pullHistory id tcfg Cache.empty [d1, d2]).1.files abcd = some [1, 2, 99, 100] ∧
    ¬ AttemptSized (fun d : Bytes => d.length) d2 := by
  refine ⟨by decide, by decide, by decide, ?_⟩
  intro h
  have := h mLie rfl ⟨abcd, 5⟩ (by decide)
  revert this; decide

theorem sized_mABCD : Sized (fun d : Bytes => d.length) mABCD := by
  intro l hl
  have : l = ⟨abcd, 4⟩ := by simpa [Manifest.all, mABCD] using hl
  subst this; rfl

/-- non-vacuity of `history_linked_layers_verified_tree`: the history "chunk past the layer end,
    then two honest retries" (`o1, o2, o3`: ErrIncomplete, ErrIncomplete with the oversized blob
    removed, ok) consists of `Sized` attempts, ends with name 0 linked, and the theorem gives the
    verified blob -/
example :
    (pullHistory id rcfg Cache.empty [o1, o2, o3]).1.links 0 = some mABCD ∧
    LinkedVerifiedSized (fun d : Bytes => d.length) id (pullHistory id rcfg Cache.empty [o1, o2, o3]).1 := by
  refine ⟨by decide, ?_⟩
  apply history_linked_layers_verified_tree id rcfg rfl rfl
  · intro a ha m hm
    simp only [List.mem_cons, List.not_mem_nil, or_false] at ha
    rcases ha with rfl | rfl | rfl <;> (injection hm with hm; subst hm; exact sized_mABCD)
  · exact linkedVerifiedSized_empty _ _

/-- non-vacuity of `pullRun_keeps_complete_files` / `pull_preserves_verified_blobs_sized`: a
    verified blob in the cache, and a later pull that lists its digest (chunked, with a plan that
    would overwrite it) leaves it alone -/
example : Good id (pullHistory id tcfg Cache.empty [d1]).1 abcd (abcd.length) ∧
    (pull id rcfg (pullHistory id tcfg Cache.empty [d1]).1 o1).1.files abcd = some abcd :=
  ⟨⟨abcd, by decide, by decide, rfl⟩, by decide⟩

/-! ### Which blobs the new-client push offers (finding F30) -/

/-- with the F30 repair the pushed set is exactly the set `Pull` fetches and verifies -/
theorem push_covers_all {D : Type} (m : Manifest D) : pushedLayers true m = m.all := rfl

/-- on the tree with F30 the pushed set is `m.Layers`: a config is left out -/
theorem push_omits_config {D : Type} (m : Manifest D) (c : Layer D) (hc : m.config = some c) :
    pushedLayers false m = m.layers ∧ (pushedLayers false m).length + 1 = m.all.length := by
  simp [pushedLayers, Manifest.all, hc]

/-- **Push (new client, F30 repaired): the manifest is sent only after EVERY blob of the manifest —
    config included — was accepted.**  For every manifest, every script (one per blob of `m.all`),
    every interleaving and every manifest answer: if a request of the manifest exchange is in the
    log, then for every index `i` of `m.all` the goroutine of that blob succeeded (so its last
    request was answered 2xx, `layerRun_good_last_2xx`) and all its requests precede the manifest
    exchange. -/
theorem push_manifest_after_every_blob {D : Type} (m : Manifest D) (scripts : List UpScript)
    (hlen : scripts.length = m.all.length) (sched : List Nat) (man : List Resp) (tr : List PushEv) (ok : Bool)
    (h : pushManifest true m scripts sched man = some (tr, ok)) (hman : ∃ e ∈ tr, e.isManifest = true) :
    ∃ body, tr = body ++ (manifestRun man).1 ∧ (∀ e ∈ body, e.isManifest = false) ∧
      ∀ i, i < m.all.length → ∃ u, scripts[i]? = some u ∧ (layerRun i u).2 = true ∧
        ∀ e ∈ (layerRun i u).1, e ∈ body := by
  unfold pushManifest at h
  have htake : scripts.take (pushedLayers true m).length = scripts := by
    rw [push_covers_all, ← hlen]; exact List.take_length
  rw [htake] at h
  obtain ⟨h1, h2, _⟩ := push_manifest_last scripts sched man tr ok h
  obtain ⟨body, hb, hnm, hall⟩ := h2 (h1.mp hman)
  refine ⟨body, hb, hnm, fun i hi => ?_⟩
  have hi' : i < scripts.length := by rw [hlen]; exact hi
  refine ⟨scripts[i], by simp [hi'], ?_⟩
  exact hall i scripts[i] (by simp [hi'])

/-- a one-layer manifest with a config -/
def mCfg : Manifest Bytes := ⟨7, 100, [⟨abc, 3⟩], some ⟨abcd, 4⟩⟩

/-- **Witness of F30 (the model shares it with the code).**  Manifest with one layer and a config,
    the registry accepts every upload: on the tree (`cfgToo = false`) `Push` uploads the layer, sends
    the manifest and reports success — no request ever names the config (index 1); with the repair
    the config is uploaded before the manifest. -/
theorem F30_push_never_offers_config :
    pushManifest false mCfg [⟨[⟨202, true⟩], [⟨201, false⟩]⟩, ⟨[⟨202, true⟩], [⟨201, false⟩]⟩] [0, 0, 1, 1] [] =
      some ([.req 0 false .post 202, .req 0 true .put 201, .man .put 200], true) ∧
    pushManifest true mCfg [⟨[⟨202, true⟩], [⟨201, false⟩]⟩, ⟨[⟨202, true⟩], [⟨201, false⟩]⟩] [0, 1, 1, 0] [] =
      some ([.req 0 false .post 202, .req 1 false .post 202, .req 1 true .put 201, .req 0 true .put 201,
             .man .put 200], true) := by decide

/-- non-vacuity of `push_manifest_last` / `push_manifest_after_every_blob` with TWO interleaved layer
    goroutines: the requests of layers 0 and 1 alternate; one failing upload (500) suppresses the
    manifest although the other layer was accepted; a transport failure (status 0) does the same -/
example :
    pushTrace [⟨[⟨202, true⟩], [⟨201, false⟩]⟩, ⟨[⟨202, true⟩], [⟨500, false⟩]⟩] [1, 0, 1, 0] [] =
      some ([.req 1 false .post 202, .req 0 false .post 202, .req 1 true .put 500, .req 0 true .put 201], false) ∧
    pushTrace [⟨[⟨202, true⟩], [⟨0, false⟩]⟩, ⟨[⟨200, false⟩], []⟩] [0, 1, 0] [] =
      some ([.req 0 false .post 202, .req 1 false .post 200, .req 0 true .put 0], false) := by decide

/-! ### `handlePull`: the last attempt -/

section
variable {D : Type} [DecidableEq D]

/-- **`handlePull` says success ⇒ the LAST attempt's model is there.**  Sharpens
    `handlePull_success_verified`: the attempt whose manifest is complete in the final cache (and
    linked, F8 aside) is the last `Pull` the loop made — attempt number `handlePullAttempts`, the
    one that returned nil — not just some attempt of the request (the tag may have been
    re-published between retries: earlier attempts may have seen another manifest). -/
theorem handlePull_success_last_attempt_verified (H : Bytes → D) (cfg : Cfg) (hv : cfg.verify = true)
    (hcol : cfg.staged = true → NoLenCollision H) (as : List (Attempt D)) :
    ∀ c : Cache D, handlerSaysSuccess (handlePull H cfg c as).2 = true →
      ∃ k a m, handlePullAttempts H cfg c as = k + 1 ∧ as[k]? = some a ∧ a.man = .ok m ∧
        (∀ l ∈ m.all, Good H (handlePull H cfg c as).1 l.digest l.size) ∧
        (cfg.linkShortcut = false → (handlePull H cfg c as).1.links a.name = some m) := by
  induction as with
  | nil => intro c h; simp [handlePull, handlerSaysSuccess] at h
  | cons a as ih =>
    intro c h
    unfold handlePull at h ⊢
    unfold handlePullAttempts
    by_cases hr : canRetry (pull H cfg c a).2 = true
    · simp only [hr, if_true] at h ⊢
      obtain ⟨k, a', m, hk, ha', hm, hg, hl⟩ := ih (pull H cfg c a).1 h
      exact ⟨k + 1, a', m, by rw [hk], by simpa using ha', hm, hg, hl⟩
    · simp only [hr] at h ⊢
      have hok : (pull H cfg c a).2 = .ok := by simpa [handlerSaysSuccess] using h
      have hpair : pull H cfg c a = ((pull H cfg c a).1, .ok) := by rw [← hok]
      obtain ⟨m, hm, hg⟩ := pull_success_verified H cfg hv hcol c _ a hpair
      obtain ⟨m', st, c1, hm', _, _, _, _, _, _, _, hc'⟩ := pull_links_last H cfg c _ a hpair
      have : m' = m := by rw [hm] at hm'; injection hm' with e; exact e.symm
      subst this
      have hlink : cfg.linkShortcut = false → (pull H cfg c a).1.links a.name = some m' := by
        intro hsc
        rw [hc']
        unfold Cache.link
        split <;> simp [hsc]
      exact ⟨0, a, m', by simp, by simp, hm, hg, hlink⟩
end

/-- non-vacuity: a 5xx on the first attempt (served manifest `mABC`, chunk request answered 500), the tag
    re-published as `mABCD`, the retry succeeds: the model that is there is the LAST attempt's -/
example :
    handlerSaysSuccess (handlePull id rcfg Cache.empty
      [⟨0, .ok mABC, [.list [⟨[97, 98], 0, 2⟩, ⟨[99], 2, 1⟩]], [.release 0 (.fail .status5xx), .release 0 (.body [[99]] .eof)]⟩, o3]).2 = true ∧
    handlePullAttempts id rcfg Cache.empty
      [⟨0, .ok mABC, [.list [⟨[97, 98], 0, 2⟩, ⟨[99], 2, 1⟩]], [.release 0 (.fail .status5xx), .release 0 (.body [[99]] .eof)]⟩, o3] = 2 ∧
    (handlePull id rcfg Cache.empty
      [⟨0, .ok mABC, [.list [⟨[97, 98], 0, 2⟩, ⟨[99], 2, 1⟩]], [.release 0 (.fail .status5xx), .release 0 (.body [[99]] .eof)]⟩, o3]).1.links 0 = some mABCD := by
  decide
/-! ### Branch tags of the push models walk the model's exchanges -/

/-- one tag per physical request: the tagged walk is the walk of `exchangeFrom` -/
theorem exchangeTagsFrom_length (fuel : Nat) : ∀ (sent : Nat) (m : Method) (b : BodyKind) (rs : List Resp),
    (exchangeTagsFrom fuel sent m b rs).length = (exchangeFrom fuel sent m b rs).1.length := by
  induction fuel with
  | zero => intro sent m b rs; simp [exchangeTagsFrom, exchangeFrom]
  | succ fuel ih =>
    intro sent m b rs
    unfold exchangeTagsFrom exchangeFrom
    simp only
    generalize rs.headD ⟨200, false⟩ = r
    by_cases h0 : r.status = 0
    · rw [if_pos h0, if_pos h0]; rfl
    · rw [if_neg h0, if_neg h0]
      cases hf : follow m b r with
      | none => rfl
      | some p =>
        obtain ⟨m', b'⟩ := p
        simp only []
        by_cases hs : sent ≥ 10
        · rw [if_pos hs, if_pos hs]; rfl
        · rw [if_neg hs, if_neg hs]; simp [ih]

/-! ### Shared upload: the push that is never told anything -/

/-- **A joined push that is never told anything does not report success and sends no manifest.**
    When the owner's `Prepare` fails nothing is ever published on the shared `blobUpload`; the joined
    push polls in `Wait` until its own context ends (`hangB`).  Safe for C09: it returns an error
    (when its context ends) and its log holds no manifest request. -/
theorem shared_hang_no_success (strict : Bool) (s : Shared) (h : (sharedPush strict s).hangB = true) :
    (sharedPush strict s).okB = false ∧ ∀ e ∈ (sharedPush strict s).logB, e.isManifest = false := by
  simp only [sharedPush, Bool.and_eq_true, Bool.not_eq_true', beq_iff_eq] at h ⊢
  obtain ⟨⟨hj, hc⟩, ht⟩ := h
  rw [hj, hc] at ht ⊢
  simp only [beq_self_eq_true, Bool.and_false] at ht ⊢
  have hnone : (sharedTransfer strict s false).2 = none := by
    cases hx : (sharedTransfer strict s false).2 with
    | none => rfl
    | some b => rw [hx] at ht; simp at ht
  simp only [hnone]
  refine ⟨by simp, ?_⟩
  intro e he
  simp at he
  obtain ⟨q, w, _, rfl⟩ := he
  rfl

/-- non-vacuity: the owner's session POST fails in transit, B had joined and stays -/
example : (sharedPush false ⟨[⟨404, false⟩], .transport, false, [], [], [], []⟩).hangB = true := by decide

/-! ### F30 in general: no request for the config on a tree that does not offer it -/

theorem layerRun_layer (i : Nat) (u : UpScript) : ∀ e ∈ (layerRun i u).1, ∃ up m s, e = .req i up m s := by
  intro e he
  unfold layerRun at he
  simp only at he
  split at he
  · simp only [List.mem_map] at he; obtain ⟨x, _, rfl⟩ := he; exact ⟨_, _, _, rfl⟩
  · split at he
    · simp only [List.mem_map] at he; obtain ⟨x, _, rfl⟩ := he; exact ⟨_, _, _, rfl⟩
    · split at he
      · simp only [List.mem_map] at he; obtain ⟨x, _, rfl⟩ := he; exact ⟨_, _, _, rfl⟩
      · simp only [List.mem_append, List.mem_map] at he
        rcases he with ⟨x, _, rfl⟩ | ⟨x, _, rfl⟩ <;> exact ⟨_, _, _, rfl⟩

theorem enumFrom_mem {α} (l : List α) : ∀ (s : Nat) (p : Nat × α), p ∈ enumFrom s l → s ≤ p.1 ∧ p.1 < s + l.length := by
  induction l with
  | nil => intro s p h; simp [enumFrom] at h
  | cons a as ih =>
    intro s p h
    simp only [enumFrom, List.mem_cons] at h
    rcases h with rfl | h
    · simp
    · have := ih (s + 1) p h
      simp only [List.length_cons]; omega

/-- **F30, in general.**  On a tree that does not offer the config (`cfgToo = false`), whatever the
    registry answers and however the goroutines interleave: every layer request in the log of
    `Push` carries an index below `m.layers.length` — no request for the config (index
    `m.layers.length`) is ever made, yet the manifest may be sent (`F30_push_never_offers_config`). -/
theorem F30_config_never_requested {D : Type} (m : Manifest D) (scripts : List UpScript) (sched : List Nat)
    (man : List Resp) (tr : List PushEv) (ok : Bool) (h : pushManifest false m scripts sched man = some (tr, ok)) :
    ∀ i up mth s, PushEv.req i up mth s ∈ tr → i < m.layers.length := by
  intro i up mth s hmem
  unfold pushManifest pushTrace at h
  simp only [pushedLayers, Bool.false_eq_true, if_false] at h
  split at h
  · have hbody : ∀ e ∈ (pushBody (pushPending (scripts.take m.layers.length)) sched).1,
        ∀ i up mth s, e = PushEv.req i up mth s → i < m.layers.length := by
      intro e he i up mth s heq
      obtain ⟨l, hl, hel⟩ := pushBody_sub sched _ _ he
      simp only [pushPending, List.mem_map] at hl
      obtain ⟨⟨j, u⟩, hj, rfl⟩ := hl
      obtain ⟨up', m', s', he'⟩ := layerRun_layer j u e hel
      rw [heq] at he'
      injection he' with hij
      have := enumFrom_mem (scripts.take m.layers.length) 0 (j, u) hj
      simp only [List.length_take] at this
      omega
    split at h
    · simp only [Option.some.injEq, Prod.mk.injEq] at h
      obtain ⟨htr, _⟩ := h
      rw [← htr] at hmem
      rcases List.mem_append.mp hmem with hm | hm
      · exact hbody _ hm i up mth s rfl
      · have := manifestRun_all_manifest man _ hm
        simp [PushEv.isManifest] at this
    · simp only [Option.some.injEq, Prod.mk.injEq] at h
      obtain ⟨htr, _⟩ := h
      rw [← htr] at hmem
      exact hbody _ hmem i up mth s rfl
  · cases h

end OllamaVerif.C09
