/-
  C15 — concurrent API use causes no data race.

  The general lockset theorem, proved once for every trace (any number of threads, mutexes,
  locations, any length): if a table of static access facts passes the pairwise lockset check
  for a location class, then in EVERY well-formed interleaving whose accesses instantiate the
  facts, two accesses to the same location by different threads are either both reads, or
  ordered by the release of a common mutex by the first thread, or belong to a pair the table
  marks as ordered by something other than a lock (fresh object, atomics, fork order, a named
  channel happens-before hypothesis) — those are the theorem's explicit hypotheses.
-/
import OllamaVerif.Model.Lockset

namespace OllamaVerif.Lockset

/-! ## Mutex semantics: a held mutex stays held until its holder gives it up -/

theorem run_append (h : Holder) (l1 l2 : List Ev) :
    run h (l1 ++ l2) = (run h l1).bind (fun h' => run h' l2) := by
  induction l1 generalizing h with
  | nil => simp [run]
  | cons e es ih =>
    simp only [List.cons_append, run]
    cases step h e with
    | none => simp
    | some h' => simpa using ih h'

theorem step_persist (h h' : Holder) (e : Ev) (t : Thread) (m : Lock)
    (hs : step h e = some h') (hm : h m = some t) (hnr : ¬ Releases e t m) : h' m = some t := by
  cases e with
  | acq t' m' =>
    simp only [step] at hs
    split at hs
    · injection hs with hs; subst hs
      by_cases hmm : m = m'
      · subst hmm; simp_all
      · simp [Holder.set, hmm, hm]
    · cases hs
  | rel t' m' =>
    simp only [step] at hs
    split at hs
    · injection hs with hs; subst hs
      by_cases hmm : m = m'
      · subst hmm
        rename_i hg
        rw [hm] at hg; injection hg with hg; subst hg
        exact absurd (Or.inl rfl) hnr
      · simp [Holder.set, hmm, hm]
    · cases hs
  | handoff t' t'' m' =>
    simp only [step] at hs
    split at hs
    · injection hs with hs; subst hs
      by_cases hmm : m = m'
      · subst hmm
        rename_i hg
        rw [hm] at hg; injection hg with hg; subst hg
        exact absurd (Or.inr ⟨t'', rfl⟩) hnr
      · simp [Holder.set, hmm, hm]
    · cases hs
  | acc _ _ _ =>
    simp only [step] at hs; injection hs with hs; subst hs; exact hm
  | fork _ _ _ =>
    simp only [step] at hs; injection hs with hs; subst hs; exact hm
  | publish _ _ =>
    simp only [step] at hs; injection hs with hs; subst hs; exact hm

theorem run_persist (evs : List Ev) (h h' : Holder) (t : Thread) (m : Lock)
    (hr : run h evs = some h') (hm : h m = some t) (hnr : ∀ e ∈ evs, ¬ Releases e t m) :
    h' m = some t := by
  induction evs generalizing h with
  | nil => simp only [run] at hr; injection hr with hr; subst hr; exact hm
  | cons e es ih =>
    simp only [run] at hr
    cases hs : step h e with
    | none => rw [hs] at hr; cases hr
    | some h1 =>
      rw [hs] at hr
      exact ih h1 hr (step_persist h h1 e t m hs hm (hnr e (by simp)))
        (fun e' he' => hnr e' (by simp [he']))

/-- **Mutual exclusion along a trace.**  If `t1` holds `m` after `pre` and a different thread
    `t2` holds `m` after `pre ++ mid`, then `mid` contains a step in which `t1` gives `m` up. -/
theorem mutex_handover (pre mid : List Ev) (t1 t2 : Thread) (m : Lock)
    (hwf : WF (pre ++ mid)) (h1 : holderOf pre m = some t1)
    (h2 : holderOf (pre ++ mid) m = some t2) (hne : t1 ≠ t2) :
    ∃ e ∈ mid, Releases e t1 m := by
  apply Classical.byContradiction
  intro hno
  have hnr : ∀ e ∈ mid, ¬ Releases e t1 m := fun e he hr => hno ⟨e, he, hr⟩
  unfold WF at hwf
  rw [run_append] at hwf
  cases hp : run Holder.init pre with
  | none => rw [hp] at hwf; simp at hwf
  | some hpre =>
    rw [hp] at hwf
    simp only [Option.bind] at hwf
    cases hq : run hpre mid with
    | none => rw [hq] at hwf; simp at hwf
    | some hmid =>
      have e1 : holderOf pre = hpre := by simp [holderOf, hp]
      have e2 : holderOf (pre ++ mid) = hmid := by simp [holderOf, run_append, hp, hq]
      rw [e1] at h1
      rw [e2] at h2
      have := run_persist mid hpre hmid t1 m hq h1 hnr
      rw [this] at h2; injection h2 with h2; exact hne h2

/-! ## The thread-local lockset is sound for the global holder map -/

theorem localHeld_sound_aux (t : Thread) (m : Lock) (evs : List Ev) :
    ∀ (h h' : Holder) (b : Bool), run h evs = some h' → (b = true → h m = some t) →
      localHeld t m evs b = true → h' m = some t := by
  induction evs with
  | nil =>
    intro h h' b hr hb hl
    simp only [run] at hr; injection hr with hr; subst hr
    exact hb (by simpa [localHeld] using hl)
  | cons e es ih =>
    intro h h' b hr hb hl
    simp only [run] at hr
    cases hs : step h e with
    | none => rw [hs] at hr; cases hr
    | some h1 =>
      rw [hs] at hr
      cases e with
      | acq t' m' =>
        simp only [localHeld] at hl
        refine ih h1 h' _ hr ?_ hl
        simp only [step] at hs
        split at hs
        · injection hs with hs; subst hs
          intro hb'
          by_cases hc : t' = t ∧ m' = m
          · obtain ⟨rfl, rfl⟩ := hc; simp [Holder.set]
          · simp only [hc, if_false] at hb'
            have hm := hb hb'
            have hmm : m ≠ m' := by
              intro heq; subst heq; simp_all
            simp [Holder.set, hmm, hm]
        · cases hs
      | rel t' m' =>
        simp only [localHeld] at hl
        refine ih h1 h' _ hr ?_ hl
        simp only [step] at hs
        split at hs
        · injection hs with hs; subst hs
          intro hb'
          by_cases hc : t' = t ∧ m' = m
          · simp [hc] at hb'
          · simp only [hc, if_false] at hb'
            have hm := hb hb'
            have hmm : m ≠ m' := by
              intro heq; subst heq
              rename_i hg
              rw [hm] at hg; injection hg with hg
              exact hc ⟨hg.symm, rfl⟩
            simp [Holder.set, hmm, hm]
        · cases hs
      | handoff t' t'' m' =>
        simp only [localHeld] at hl
        refine ih h1 h' _ hr ?_ hl
        simp only [step] at hs
        split at hs
        · injection hs with hs; subst hs
          intro hb'
          by_cases hmm : m' = m
          · subst hmm
            simp only [if_true] at hb'
            by_cases ht : t'' = t
            · subst ht; simp [Holder.set]
            · simp only [ht, if_false] at hb'
              by_cases ht' : t' = t
              · simp [ht'] at hb'
              · simp only [ht', if_false] at hb'
                have hm := hb hb'
                rename_i hg
                rw [hm] at hg; injection hg with hg
                exact absurd hg.symm ht'
          · simp only [hmm, if_false] at hb'
            have hm := hb hb'
            have : m ≠ m' := fun h => hmm h.symm
            simp [Holder.set, this, hm]
        · cases hs
      | acc _ _ _ =>
        simp only [localHeld] at hl
        simp only [step] at hs; injection hs with hs; subst hs
        exact ih h h' b hr hb hl
      | fork _ _ _ =>
        simp only [localHeld] at hl
        simp only [step] at hs; injection hs with hs; subst hs
        exact ih h h' b hr hb hl
      | publish _ _ =>
        simp only [localHeld] at hl
        simp only [step] at hs; injection hs with hs; subst hs
        exact ih h h' b hr hb hl

/-- In a well-formed trace, whatever a thread holds according to its own events it holds
    according to the global mutex state. -/
theorem localHeld_sound (tr : List Ev) (t : Thread) (m : Lock) (hwf : WF tr)
    (hl : localHeld t m tr false = true) : holderOf tr m = some t := by
  unfold WF at hwf
  cases hr : run Holder.init tr with
  | none => rw [hr] at hwf; simp at hwf
  | some h' =>
    have := localHeld_sound_aux t m tr Holder.init h' false hr (by simp) hl
    simpa [holderOf, hr] using this

/-! ## From static facts to traces -/

/-- every access event of `tr` instantiates its fact: right class, right thread class, and the
    fact's mutexes (instantiated for the accessed object) are held by the accessing thread -/
def Conforms (facts : List Access) (tc : Thread → Nat) (tr : List Ev) : Prop :=
  ∀ pre t x f post, tr = pre ++ Ev.acc t x f :: post →
    ∃ a, facts[f]? = some a ∧ a.cls = x.1 ∧ tc t = a.thread ∧
      ∀ l ∈ a.locks, holderOf pre (l.inst x.2) = some t

/-- a thread class flagged `single` has one thread among those that touch location `x` in
    `tr` (the scheduler's two loops: one thread per server; `go x.Run()`: one per object) -/
def SingletonThreads (facts : List Access) (tc : Thread → Nat) (tr : List Ev) (x : Loc) : Prop :=
  ∀ a ∈ facts, a.single = true → ∀ t t' f f', Ev.acc t x f ∈ tr → Ev.acc t' x f' ∈ tr →
    tc t = a.thread → tc t' = a.thread → t = t'

theorem inst_injective (l l' : LockRef) (o : Nat) (h : l.inst o = l'.inst o) : l = l' := by
  cases l with | mk c s => cases l' with | mk c' s' =>
  cases s <;> cases s' <;> simp [LockRef.inst] at h <;> simp <;> omega

/-- two accesses of one trace are ordered by the hand-over of a common mutex -/
def LockOrdered (pre : List Ev) (e1 : Ev) (mid : List Ev) (t1 t2 : Thread) : Prop :=
  ∃ m, holderOf pre m = some t1 ∧ holderOf (pre ++ e1 :: mid) m = some t2 ∧
    ∃ e ∈ mid, Releases e t1 m

/-- **Lockset discipline implies race freedom** (for every trace, by induction on it).

    `facts` pass the pairwise check for class `c`; the trace is any well-formed interleaving
    whose accesses instantiate the facts.  Then any two accesses to the same location of class
    `c` by different threads, in trace order, are (a) both reads, or (b) separated by a step in
    which the first thread gives up a mutex that both hold at their access, or (c) a pair the
    table marks as ordered by a non-lock mechanism (`exempt`: the named hypotheses). -/
theorem lockset_discipline_race_free
    (facts : List Access) (tc : Thread → Nat)
    (c : Nat) (hcheck : checkClass facts c = true)
    (pre mid post : List Ev) (t1 t2 : Thread) (o f1 f2 : Nat)
    (hsingle : SingletonThreads facts tc
      (pre ++ Ev.acc t1 (c, o) f1 :: (mid ++ Ev.acc t2 (c, o) f2 :: post)) (c, o))
    (hwf : WF (pre ++ Ev.acc t1 (c, o) f1 :: (mid ++ Ev.acc t2 (c, o) f2 :: post)))
    (hconf : Conforms facts tc (pre ++ Ev.acc t1 (c, o) f1 :: (mid ++ Ev.acc t2 (c, o) f2 :: post)))
    (hne : t1 ≠ t2) :
    ∃ a b, facts[f1]? = some a ∧ facts[f2]? = some b ∧
      ((isWrite facts a = false ∧ isWrite facts b = false) ∨
       LockOrdered pre (Ev.acc t1 (c, o) f1) mid t1 t2 ∨
       exempt a b = true) := by
  obtain ⟨a, ha, hac, hat, hal⟩ := hconf pre t1 (c, o) f1 _ rfl
  have hsplit : pre ++ Ev.acc t1 (c, o) f1 :: (mid ++ Ev.acc t2 (c, o) f2 :: post)
      = (pre ++ Ev.acc t1 (c, o) f1 :: mid) ++ Ev.acc t2 (c, o) f2 :: post := by simp
  obtain ⟨b, hb, hbc, hbt, hbl⟩ := hconf (pre ++ Ev.acc t1 (c, o) f1 :: mid) t2 (c, o) f2 post hsplit
  refine ⟨a, b, ha, hb, ?_⟩
  have ham : a ∈ facts := List.mem_of_getElem? ha
  have hbm : b ∈ facts := List.mem_of_getElem? hb
  have hcomp : compat facts a b = true := by
    unfold checkClass at hcheck
    rw [List.all_eq_true] at hcheck
    have h1 := hcheck a ham
    simp only [Bool.or_eq_true, bne_iff_ne, ne_eq] at h1
    rcases h1 with h1 | h1
    · exact absurd hac h1
    · rw [List.all_eq_true] at h1
      have h2 := h1 b hbm
      simp only [Bool.or_eq_true, bne_iff_ne, ne_eq] at h2
      rcases h2 with h2 | h2
      · exact absurd hbc h2
      · exact h2
  unfold compat at hcomp
  simp only [Bool.or_eq_true, Bool.not_eq_true', Bool.or_eq_false_iff] at hcomp
  rcases hcomp with ((hrd | hss) | hlk) | hex
  · exact Or.inl hrd
  · -- same singleton thread class: the two threads would be equal
    exfalso
    unfold sameSingle at hss
    simp only [Bool.and_eq_true, beq_iff_eq] at hss
    obtain ⟨⟨hsa, _⟩, hth⟩ := hss
    exact hne (hsingle a ham hsa t1 t2 f1 f2 (by simp) (by simp) hat (by rw [hbt, hth]))
  · -- a common mutex
    right; left
    unfold lockCompat at hlk
    rw [List.any_eq_true] at hlk
    obtain ⟨l, hla, hlb⟩ := hlk
    have hlb' : l ∈ b.locks := by simpa using hlb
    have h1 := hal l hla
    have h2 := hbl l hlb'
    simp only at h1 h2
    have hwf' : WF (pre ++ (Ev.acc t1 (c, o) f1 :: mid)) := by
      unfold WF at hwf ⊢
      rw [hsplit, run_append] at hwf
      cases hr : run Holder.init (pre ++ Ev.acc t1 (c, o) f1 :: mid) with
      | none => rw [hr] at hwf; simp at hwf
      | some _ => simp
    obtain ⟨e, he, hrel⟩ := mutex_handover pre (Ev.acc t1 (c, o) f1 :: mid) t1 t2 (l.inst o) hwf' h1 h2 hne
    refine ⟨l.inst o, h1, h2, ?_⟩
    simp only [List.mem_cons] at he
    rcases he with rfl | he
    · rcases hrel with hrel | ⟨_, hrel⟩ <;> cases hrel
    · exact ⟨e, he, hrel⟩
  · exact Or.inr (Or.inr hex)

/-! ### The same theorem from the thread-local (syntactic) lockset -/

theorem WF_prefix (l1 l2 : List Ev) (h : WF (l1 ++ l2)) : WF l1 := by
  unfold WF at h ⊢
  rw [run_append] at h
  cases hr : run Holder.init l1 with
  | none => rw [hr] at h; simp at h
  | some _ => simp

/-- conformance stated with what a per-goroutine syntactic analysis computes: the fact's mutexes
    were acquired (or handed over) and not given up in the accessing thread's OWN preceding events -/
def ConformsLocal (facts : List Access) (tc : Thread → Nat) (tr : List Ev) : Prop :=
  ∀ pre t x f post, tr = pre ++ Ev.acc t x f :: post →
    ∃ a, facts[f]? = some a ∧ a.cls = x.1 ∧ tc t = a.thread ∧
      ∀ l ∈ a.locks, localHeld t (l.inst x.2) pre false = true

theorem conformsLocal_conforms (facts : List Access) (tc : Thread → Nat) (tr : List Ev)
    (hwf : WF tr) (h : ConformsLocal facts tc tr) : Conforms facts tc tr := by
  intro pre t x f post htr
  obtain ⟨a, ha, hc, ht, hl⟩ := h pre t x f post htr
  refine ⟨a, ha, hc, ht, ?_⟩
  intro l hlm
  have hwp : WF pre := WF_prefix pre (Ev.acc t x f :: post) (htr ▸ hwf)
  exact localHeld_sound pre t (l.inst x.2) hwp (hl l hlm)

/-- `lockset_discipline_race_free` with the syntactic lockset as hypothesis -/
theorem lockset_discipline_race_free_local
    (facts : List Access) (tc : Thread → Nat)
    (c : Nat) (hcheck : checkClass facts c = true)
    (pre mid post : List Ev) (t1 t2 : Thread) (o f1 f2 : Nat)
    (hsingle : SingletonThreads facts tc
      (pre ++ Ev.acc t1 (c, o) f1 :: (mid ++ Ev.acc t2 (c, o) f2 :: post)) (c, o))
    (hwf : WF (pre ++ Ev.acc t1 (c, o) f1 :: (mid ++ Ev.acc t2 (c, o) f2 :: post)))
    (hconf : ConformsLocal facts tc (pre ++ Ev.acc t1 (c, o) f1 :: (mid ++ Ev.acc t2 (c, o) f2 :: post)))
    (hne : t1 ≠ t2) :
    ∃ a b, facts[f1]? = some a ∧ facts[f2]? = some b ∧
      ((isWrite facts a = false ∧ isWrite facts b = false) ∨
       LockOrdered pre (Ev.acc t1 (c, o) f1) mid t1 t2 ∨
       exempt a b = true) :=
  lockset_discipline_race_free facts tc c hcheck pre mid post t1 t2 o f1 f2 hsingle hwf
    (conformsLocal_conforms facts tc _ hwf hconf) hne

/-- Corollary with the non-lock orderings as an explicit hypothesis `hsync`: every conflicting
    pair is ordered, by a mutex hand-over or by the assumed synchronisation. -/
theorem race_free_under_sync_hypotheses
    (facts : List Access) (tc : Thread → Nat)
    (SyncOrdered : List Ev → Ev → List Ev → Prop)
    (c : Nat) (hcheck : checkClass facts c = true)
    (pre mid post : List Ev) (t1 t2 : Thread) (o f1 f2 : Nat)
    (hsingle : SingletonThreads facts tc
      (pre ++ Ev.acc t1 (c, o) f1 :: (mid ++ Ev.acc t2 (c, o) f2 :: post)) (c, o))
    (hwf : WF (pre ++ Ev.acc t1 (c, o) f1 :: (mid ++ Ev.acc t2 (c, o) f2 :: post)))
    (hconf : Conforms facts tc (pre ++ Ev.acc t1 (c, o) f1 :: (mid ++ Ev.acc t2 (c, o) f2 :: post)))
    (hsync : ∀ a b, facts[f1]? = some a → facts[f2]? = some b → exempt a b = true →
      SyncOrdered pre (Ev.acc t1 (c, o) f1) mid)
    (hne : t1 ≠ t2) (a b : Access) (ha : facts[f1]? = some a) (hb : facts[f2]? = some b)
    (hconflict : (isWrite facts a || isWrite facts b) = true) :
    LockOrdered pre (Ev.acc t1 (c, o) f1) mid t1 t2 ∨ SyncOrdered pre (Ev.acc t1 (c, o) f1) mid := by
  obtain ⟨a', b', ha', hb', h⟩ :=
    lockset_discipline_race_free facts tc c hcheck pre mid post t1 t2 o f1 f2 hsingle hwf hconf hne
  rw [ha] at ha'; rw [hb] at hb'
  injection ha' with ha'; injection hb' with hb'
  subst ha' hb'
  rcases h with ⟨h1, h2⟩ | h | h
  · simp [h1, h2] at hconflict
  · exact Or.inl h
  · exact Or.inr (hsync a b ha hb h)

/-- `checkAll` is `checkClass` for every class -/
theorem checkAll_checkClass (facts : List Access) (h : checkAll facts = true) (c : Nat) :
    checkClass facts c = true := by
  unfold checkAll at h
  unfold checkClass
  rw [List.all_eq_true] at h ⊢
  intro a ha
  have h1 := h a ha
  rw [List.all_eq_true] at h1
  by_cases hc : a.cls = c
  · simp only [Bool.or_eq_true]; right
    rw [List.all_eq_true]
    intro b hb
    have h2 := h1 b hb
    by_cases hbc : b.cls = c
    · simp only [Bool.or_eq_true, bne_iff_ne, ne_eq] at h2 ⊢
      rcases h2 with h2 | h2
      · exact absurd (hc.trans hbc.symm) h2
      · exact Or.inr h2
    · simp [hbc]
  · simp [hc]

/-! ## Spawn order: the `pre` / `post` tags of the facts order their accesses

  `exempt` accepts a pair when one access carries `pre ∋ s` (it precedes spawn statement `s` in
  the function that executes `s`, and `s` runs once) and the other `post ∋ s` (its thread
  descends from the thread `s` creates).  Until round 7 that was a named hypothesis of the
  lockset theorem.  Here it is a theorem about traces with `fork` events: a spawned thread does
  nothing before the `fork` that creates it (`ForkWF`, Go's semantics of `go`), hence every event
  of a descendant of spawn `s` comes after a `fork … s` event, and an access tagged `pre ∋ s`
  comes before every such event. -/

/-- Go semantics of a spawn: the new thread is not the spawner, and has done nothing before -/
def ForkWF (tr : List Ev) : Prop :=
  ∀ (j : Nat) t t' s, tr[j]? = some (Ev.fork t t' s) →
    t ≠ t' ∧ ∀ (i : Nat) e, i < j → tr[i]? = some e → evThread e ≠ t'

/-- thread `u` was created by spawn statement `s`, or by a descendant of the thread `s` created -/
inductive Desc (tr : List Ev) (s : Nat) : Thread → Prop
  | direct (t t' : Thread) : Ev.fork t t' s ∈ tr → Desc tr s t'
  | step (t t' : Thread) (s' : Nat) : Desc tr s t → Ev.fork t t' s' ∈ tr → Desc tr s t'

/-- every step of a descendant of spawn `s` comes after a `fork … s` step -/
theorem desc_after_fork (tr : List Ev) (hf : ForkWF tr) (s : Nat) (u : Thread) (hd : Desc tr s u) :
    ∀ (i : Nat) e, tr[i]? = some e → evThread e = u →
      ∃ (j : Nat) (t t' : Thread), j < i ∧ tr[j]? = some (Ev.fork t t' s) := by
  induction hd with
  | direct t t' hmem =>
    intro i e hi hu
    obtain ⟨j, hj⟩ := List.mem_iff_getElem?.mp hmem
    obtain ⟨hne, hbefore⟩ := hf j t t' s hj
    have hji : j < i := by
      rcases Nat.lt_trichotomy i j with h | h | h
      · exact absurd hu (hbefore i e h hi)
      · subst h; rw [hj] at hi; injection hi with hi; subst hi
        exact absurd hu hne
      · exact h
    exact ⟨j, t, t', hji, hj⟩
  | step t t' s' _ hmem ih =>
    intro i e hi hu
    obtain ⟨j, hj⟩ := List.mem_iff_getElem?.mp hmem
    obtain ⟨hne, hbefore⟩ := hf j t t' s' hj
    have hji : j < i := by
      rcases Nat.lt_trichotomy i j with h | h | h
      · exact absurd hu (hbefore i e h hi)
      · subst h; rw [hj] at hi; injection hi with hi; subst hi
        exact absurd hu hne
      · exact h
    obtain ⟨j', t0, t0', hj', hfk⟩ := ih j (Ev.fork t t' s') hj rfl
    exact ⟨j', t0, t0', Nat.lt_trans hj' hji, hfk⟩

/-- what the `pre` / `post` tags of a fact claim about an access event that instantiates it:
    `pre ∋ s` — spawn statement `s` has not been executed yet; `post ∋ s` — the accessing thread
    descends from the thread `s` creates -/
def ForkConforms (facts : List Access) (tr : List Ev) : Prop :=
  ∀ (i : Nat) t x f, tr[i]? = some (Ev.acc t x f) →
    ∃ a, facts[f]? = some a ∧
      (∀ s ∈ a.pre, ∀ (j : Nat) u u', j < i → tr[j]? ≠ some (Ev.fork u u' s)) ∧
      (∀ s ∈ a.post, Desc tr s t)

/-- **Spawn order.**  Two accesses whose facts are exempted by `inter a.pre b.post` are ordered in
    every trace: the `pre` access, then the `fork` of a spawn statement `s` common to both tag
    lists, then the `post` access, whose thread descends from that spawn. -/
theorem fork_tagged_pair_ordered (facts : List Access) (tr : List Ev) (hf : ForkWF tr)
    (hc : ForkConforms facts tr) (i k : Nat) (t1 t2 : Thread) (x1 x2 : Loc) (f1 f2 : Nat)
    (ha : tr[i]? = some (Ev.acc t1 x1 f1)) (hb : tr[k]? = some (Ev.acc t2 x2 f2))
    (a b : Access) (hfa : facts[f1]? = some a) (hfb : facts[f2]? = some b)
    (hin : inter a.pre b.post = true) :
    ∃ (j : Nat) (t t' : Thread) (s : Nat),
      i < j ∧ j < k ∧ tr[j]? = some (Ev.fork t t' s) ∧ s ∈ a.pre ∧ Desc tr s t2 := by
  obtain ⟨a', ha', hpre, _⟩ := hc i t1 x1 f1 ha
  obtain ⟨b', hb', _, hpost⟩ := hc k t2 x2 f2 hb
  rw [hfa] at ha'; injection ha' with ha'; subst ha'
  rw [hfb] at hb'; injection hb' with hb'; subst hb'
  unfold inter at hin
  rw [List.any_eq_true] at hin
  obtain ⟨s, hsa, hsb⟩ := hin
  have hsb' : s ∈ b.post := by simpa using hsb
  have hd := hpost s hsb'
  obtain ⟨j, t, t', hjk, hj⟩ := desc_after_fork tr hf s t2 hd k _ hb rfl
  have hij : i < j := by
    rcases Nat.lt_trichotomy j i with h | h | h
    · exact absurd hj (hpre s hsa j t t' h)
    · subst h; rw [ha] at hj; cases hj
    · exact h
  exact ⟨j, t, t', s, hij, hjk, hj, hsa, hd⟩

/-! ## Object life cycle: a live or re-validated pointer is never seen torn down -/

/-- the step does not take `m` away from `t` -/
def LKeeps (t : Thread) (m : Lock) : LEv → Prop
  | .sync e => ¬ Releases e t m
  | _ => True

theorem lstep_guard_persist (G : Lock) (S : Nat → Lock) (s s' : LState) (e : LEv) (t : Thread)
    (o : Nat) (m : Lock) (hm : m = G ∨ m = S o)
    (hs : lstep G S s e = some s') (hh : s.holder m = some t) (hc : s.cleared o = false)
    (hk : LKeeps t m e) (hself : e ≠ .clear t o) :
    s'.holder m = some t ∧ s'.cleared o = false := by
  cases e with
  | sync e' =>
    simp only [lstep] at hs
    cases hst : step s.holder e' with
    | none => rw [hst] at hs; cases hs
    | some h' =>
      rw [hst] at hs; injection hs with hs; subst hs
      exact ⟨step_persist s.holder h' e' t m hst hh hk, hc⟩
  | clear t' o' =>
    simp only [lstep] at hs
    split at hs
    · rename_i hg
      injection hs with hs; subst hs
      refine ⟨hh, ?_⟩
      by_cases ho : o = o'
      · subst ho
        exfalso
        rcases hm with rfl | rfl
        · rw [hh] at hg; have := hg.1; injection this with this; subst this; exact hself rfl
        · rw [hh] at hg; have := hg.2; injection this with this; subst this; exact hself rfl
      · simp [ho, hc]
    · cases hs
  | lookup t' o' =>
    simp only [lstep] at hs
    split at hs
    · injection hs with hs; subst hs; exact ⟨hh, hc⟩
    · cases hs
  | check t' o' =>
    simp only [lstep] at hs
    split at hs
    · injection hs with hs; subst hs; exact ⟨hh, hc⟩
    · cases hs
  | use _ _ _ =>
    simp only [lstep] at hs; injection hs with hs; subst hs; exact ⟨hh, hc⟩

theorem lrun_guard_persist (G : Lock) (S : Nat → Lock) (t : Thread) (o : Nat) (m : Lock)
    (hm : m = G ∨ m = S o) (evs : List LEv) :
    ∀ (s s' : LState), lrun G S s evs = some s' → s.holder m = some t → s.cleared o = false →
      (∀ e ∈ evs, LKeeps t m e) → (∀ e ∈ evs, e ≠ .clear t o) →
      s'.holder m = some t ∧ s'.cleared o = false := by
  induction evs with
  | nil => intro s s' hr hh hc _ _; simp only [lrun] at hr; injection hr with hr; subst hr; exact ⟨hh, hc⟩
  | cons e es ih =>
    intro s s' hr hh hc hk hself
    simp only [lrun] at hr
    cases hs : lstep G S s e with
    | none => rw [hs] at hr; cases hr
    | some s1 =>
      rw [hs] at hr
      obtain ⟨h1, c1⟩ := lstep_guard_persist G S s s1 e t o m hm hs hh hc (hk e (by simp)) (hself e (by simp))
      exact ih s1 s' hr h1 c1 (fun e' he' => hk e' (by simp [he'])) (fun e' he' => hself e' (by simp [he']))

/-- **A live pointer is never seen torn down** (every trace, by induction).  Thread `t` finds
    object `o` in the registry (`lookup`, under the registry lock `G`); as long as `t` does not
    give `G` up (and does not tear `o` down itself), `o` is not torn down — whatever the other
    threads do, because every teardown needs `G`.  This is the `live` flag of an access fact. -/
theorem live_pointer_not_torn_down (G : Lock) (S : Nat → Lock) (s0 s1 s2 : LState)
    (pre mid : List LEv) (t : Thread) (o : Nat)
    (hpre : lrun G S s0 pre = some s1)
    (hmid : lrun G S s1 (LEv.lookup t o :: mid) = some s2)
    (hkeep : ∀ e ∈ mid, LKeeps t G e) (hself : ∀ e ∈ mid, e ≠ .clear t o) :
    s2.cleared o = false := by
  have _ := hpre
  by_cases hg : s1.holder G = some t ∧ s1.cleared o = false
  · have hmid' : lrun G S s1 mid = some s2 := by simpa [lrun, lstep, hg] using hmid
    exact (lrun_guard_persist G S t o G (Or.inl rfl) mid s1 s2 hmid' hg.1 hg.2 hkeep hself).2
  · simp [lrun, lstep, hg] at hmid

/-- **A re-validated pointer is never seen torn down.**  `t` re-checks `o` (a cleared field is
    non-nil) while holding `o`'s own lock; as long as `t` keeps that lock, `o` is not torn down,
    because every teardown needs the object's lock too.  This is the `valid` flag. -/
theorem validated_pointer_not_torn_down (G : Lock) (S : Nat → Lock) (s1 s2 : LState)
    (mid : List LEv) (t : Thread) (o : Nat)
    (hmid : lrun G S s1 (LEv.check t o :: mid) = some s2)
    (hkeep : ∀ e ∈ mid, LKeeps t (S o) e) (hself : ∀ e ∈ mid, e ≠ .clear t o) :
    s2.cleared o = false := by
  by_cases hg : s1.holder (S o) = some t ∧ s1.cleared o = false
  · have hmid' : lrun G S s1 mid = some s2 := by simpa [lrun, lstep, hg] using hmid
    exact (lrun_guard_persist G S t o (S o) (Or.inr rfl) mid s1 s2 hmid' hg.1 hg.2 hkeep hself).2
  · simp [lrun, lstep, hg] at hmid

/-- **Witness (seeded C15-C shape)**: the reader looks the object up under `G`, releases `G`,
    takes the object's lock and uses the object — every access is under some mutex, the pairwise
    lockset rule is satisfied — yet the trace is enabled and the object is torn down at the use. -/
def staleTrace : List LEv :=
  [ .sync (.acq 1 (0, 0)), .lookup 1 7, .sync (.rel 1 (0, 0)),          -- reader: snapshot under G
    .sync (.acq 2 (0, 0)), .sync (.acq 2 (1, 7)), .clear 2 7,            -- scheduler: unload under G and S
    .sync (.rel 2 (1, 7)), .sync (.rel 2 (0, 0)),
    .sync (.acq 1 (1, 7)), .use 1 7 0 ]                                     -- reader: use under S only

theorem stale_pointer_witness :
    ((lrun (0, 0) (fun o => (1, o)) LState.init staleTrace).map (fun s => s.cleared 7)) = some true := by
  decide

/-! ## The stale-pointer RULE is sound for every history

  The two theorems above are about one pointer in one trace.  Here they are lifted to the static
  rule: if a fact table has no stale read (`staleReads … = []`), then in EVERY enabled history
  whose `use` events instantiate the table's facts — a `live` fact's use comes after a `lookup` by
  the same thread that has kept the registry lock since, a `valid` fact's use comes after a
  `check` by the same thread that has kept the object's lock since — no `use` event ever happens
  on an object that has been torn down.  Fresh objects and the holder ordering (C01) enter as the
  explicit hypothesis `Other` / `hother`. -/

theorem lrun_append (G : Lock) (S : Nat → Lock) (s : LState) (l1 l2 : List LEv) :
    lrun G S s (l1 ++ l2) = (lrun G S s l1).bind (fun s' => lrun G S s' l2) := by
  induction l1 generalizing s with
  | nil => simp [lrun]
  | cons e es ih =>
    simp only [List.cons_append, lrun]
    cases lstep G S s e with
    | none => simp
    | some s' => simpa using ih s'

/-- `t` found `o` in the registry somewhere in `pre` and has kept the registry lock `G` since -/
def LiveAt (G : Lock) (pre : List LEv) (t : Thread) (o : Nat) : Prop :=
  ∃ p1 mid, pre = p1 ++ LEv.lookup t o :: mid ∧ (∀ e ∈ mid, LKeeps t G e) ∧ (∀ e ∈ mid, e ≠ .clear t o)

/-- `t` re-checked `o` somewhere in `pre` and has kept the object's lock `S o` since -/
def ValidAt (S : Nat → Lock) (pre : List LEv) (t : Thread) (o : Nat) : Prop :=
  ∃ p1 mid, pre = p1 ++ LEv.check t o :: mid ∧ (∀ e ∈ mid, LKeeps t (S o) e) ∧ (∀ e ∈ mid, e ≠ .clear t o)

theorem liveAt_not_cleared (G : Lock) (S : Nat → Lock) (s0 s : LState) (pre : List LEv) (t : Thread) (o : Nat)
    (hrun : lrun G S s0 pre = some s) (h : LiveAt G pre t o) : s.cleared o = false := by
  obtain ⟨p1, mid, rfl, hk, hs⟩ := h
  rw [lrun_append] at hrun
  cases h1 : lrun G S s0 p1 with
  | none => rw [h1] at hrun; simp at hrun
  | some s1 =>
    rw [h1] at hrun
    exact live_pointer_not_torn_down G S s0 s1 s p1 mid t o h1 (by simpa using hrun) hk hs

theorem validAt_not_cleared (G : Lock) (S : Nat → Lock) (s0 s : LState) (pre : List LEv) (t : Thread) (o : Nat)
    (hrun : lrun G S s0 pre = some s) (h : ValidAt S pre t o) : s.cleared o = false := by
  obtain ⟨p1, mid, rfl, hk, hs⟩ := h
  rw [lrun_append] at hrun
  cases h1 : lrun G S s0 p1 with
  | none => rw [h1] at hrun; simp at hrun
  | some s1 =>
    rw [h1] at hrun
    exact validated_pointer_not_torn_down G S s1 s mid t o (by simpa using hrun) hk hs

/-- every `use` event of `tr` instantiates a fact of the table: a used read of a cleared class whose
    `live` / `valid` flags mean what the translator claims (continuity of the hold since the lookup /
    re-check), and whose `init` / holder exemption is the named hypothesis `Other` -/
def UseConforms (facts : List Access) (cleared : List Nat) (holderHb : Nat) (G : Lock) (S : Nat → Lock)
    (Other : List LEv → Thread → Nat → Prop) (tr : List LEv) : Prop :=
  ∀ pre t o f post, tr = pre ++ LEv.use t o f :: post →
    ∃ a, facts[f]? = some a ∧ a.kind = .read ∧ cleared.contains a.cls = true ∧ a.use = true ∧
      (a.live = true → LiveAt G pre t o) ∧ (a.valid = true → ValidAt S pre t o) ∧
      ((a.init = true ∨ a.hb.contains holderHb = true) → Other pre t o)

/-- **No use of a torn-down object, for every history.**  A table without stale reads, any
    enabled history conforming to it, any `use` event in it: the object is not torn down at that
    point.  (`Gr`/`Sr` = the static names of the registry / object lock; `hother` = fresh objects
    are not in the registry yet, and the holder ordering of C01.) -/
theorem stale_rule_sound (facts : List Access) (cleared : List Nat) (holderHb : Nat) (Gr Sr : LockRef)
    (G : Lock) (S : Nat → Lock) (Other : List LEv → Thread → Nat → Prop)
    (hrule : staleReads facts cleared holderHb Gr Sr = [])
    (hother : ∀ pre t o s, lrun G S LState.init pre = some s → Other pre t o → s.cleared o = false)
    (tr : List LEv) (hconf : UseConforms facts cleared holderHb G S Other tr)
    (pre post : List LEv) (t : Thread) (o f : Nat) (htr : tr = pre ++ LEv.use t o f :: post)
    (s : LState) (hrun : lrun G S LState.init pre = some s) :
    s.cleared o = false := by
  obtain ⟨a, ha, hk, hc, hu, hlive, hvalid, hoth⟩ := hconf pre t o f post htr
  have ham : a ∈ facts := List.mem_of_getElem? ha
  have hns : staleRead facts cleared holderHb Gr Sr a = false := by
    cases hst : staleRead facts cleared holderHb Gr Sr a with
    | false => rfl
    | true =>
      have : (a.cls, a.site) ∈ staleReads facts cleared holderHb Gr Sr := by
        unfold staleReads
        exact List.mem_map.mpr ⟨a, List.mem_filter.mpr ⟨ham, hst⟩, rfl⟩
      rw [hrule] at this; cases this
  unfold staleRead at hns
  simp only [hk, hc, hu, beq_self_eq_true, Bool.true_and, Bool.not_eq_false',
    Bool.or_eq_true, Bool.and_eq_true] at hns
  rcases hns with ((h | h) | h) | h
  · exact liveAt_not_cleared G S LState.init s pre t o hrun (hlive h.1)
  · exact validAt_not_cleared G S LState.init s pre t o hrun (hvalid h.1)
  · exact hother pre t o s hrun (hoth (Or.inl h))
  · exact hother pre t o s hrun (hoth (Or.inr h))

/-! ### The panic clause, for the nil dereferences the teardown can cause

  `unload` sets `llama`, `model`, `Options`, `expireTimer` to nil; a handler or scheduler path that
  uses one of them on a torn-down runner dereferences nil and panics (gin recovers it into a 500, or
  the process dies when it happens on a goroutine the handler spawned).  In the life-cycle
  semantics that is a `use` step on a cleared object. -/

/-- the step dereferences a field the teardown has set to nil -/
def panicsAt (s : LState) : LEv → Bool
  | .use _ o _ => s.cleared o
  | _ => false

/-- **No step of a conforming history panics on a torn-down runner** (restates `stale_rule_sound`
    for every step of the history). -/
theorem no_nil_deref_panic (facts : List Access) (cleared : List Nat) (holderHb : Nat) (Gr Sr : LockRef)
    (G : Lock) (S : Nat → Lock) (Other : List LEv → Thread → Nat → Prop)
    (hrule : staleReads facts cleared holderHb Gr Sr = [])
    (hother : ∀ pre t o s, lrun G S LState.init pre = some s → Other pre t o → s.cleared o = false)
    (tr : List LEv) (hconf : UseConforms facts cleared holderHb G S Other tr)
    (pre post : List LEv) (e : LEv) (htr : tr = pre ++ e :: post)
    (s : LState) (hrun : lrun G S LState.init pre = some s) :
    panicsAt s e = false := by
  cases e with
  | use t o f =>
    exact stale_rule_sound facts cleared holderHb Gr Sr G S Other hrule hother tr hconf pre post t o f htr s hrun
  | sync _ => rfl
  | clear _ _ => rfl
  | lookup _ _ => rfl
  | check _ _ => rfl

/-- and the stale history does panic: the last step of `staleTrace` dereferences a cleared field -/
example : ((lrun (0, 0) (fun o => (1, o)) LState.init (staleTrace.take 9)).map
    (fun s => panicsAt s (.use 1 7 0))) = some true := by decide

/-! ## Lock order: a ranked acquisition order admits no wait cycle (no AB-BA deadlock)

  A thread blocked in `acq t m` waits for the holder of `m`.  A deadlock among mutexes is a cycle
  `t0 →(m0) t1 →(m1) … →(mk) t0` in which each `ti` waits for `mi`, held by the next thread.  If
  every waiting thread holds only mutexes ranked below the one it waits for, no such cycle exists
  (the ranks would increase strictly around it).  The static side: the translator lists every
  "acquires B while holding A" site; `Tie.C15.lock_order_ranked` shows by `decide` that the tree's
  relation has a rank function. -/

structure Wait where
  t : Thread
  m : Lock
deriving DecidableEq, Repr

/-- consecutive elements: what `a` waits for is held by the next thread -/
def chainOK (h : Holder) : List Wait → Prop
  | [] => True
  | [_] => True
  | a :: b :: rest => h a.m = some b.t ∧ chainOK h (b :: rest)

/-- every waiting thread holds only mutexes ranked below the one it waits for -/
def RankOK (rank : Lock → Nat) (h : Holder) (ws : List Wait) : Prop :=
  ∀ w ∈ ws, ∀ m', h m' = some w.t → rank m' < rank w.m

theorem chain_rank_increases (rank : Lock → Nat) (h : Holder) :
    ∀ (rest : List Wait) (a : Wait), RankOK rank h (a :: rest) → chainOK h (a :: rest) →
      ∀ x ∈ rest, rank a.m < rank x.m := by
  intro rest
  induction rest with
  | nil => intro a _ _ x hx; cases hx
  | cons b r ih =>
    intro a hr hc x hx
    obtain ⟨hab, hc'⟩ := hc
    have hb : rank a.m < rank b.m := hr b (by simp) a.m hab
    simp only [List.mem_cons] at hx
    rcases hx with rfl | hx
    · exact hb
    · have hr' : RankOK rank h (b :: r) := fun w hw => hr w (by simp [List.mem_cons] at hw ⊢; right; exact hw)
      exact Nat.lt_trans hb (ih b hr' hc' x hx)

/-- **No wait cycle under a ranked lock order.** -/
theorem no_wait_cycle (rank : Lock → Nat) (h : Holder) (a : Wait) (rest : List Wait)
    (hr : RankOK rank h (a :: rest)) (hc : chainOK h (a :: rest))
    (hclose : h ((a :: rest).getLast (by simp)).m = some a.t) : False := by
  cases rest with
  | nil =>
    simp only [List.getLast_singleton] at hclose
    exact Nat.lt_irrefl _ (hr a (by simp) a.m hclose)
  | cons b r =>
    have hmem : (a :: b :: r).getLast (by simp) ∈ b :: r := by
      rw [List.getLast_cons (by simp)]
      exact List.getLast_mem _
    have h1 := chain_rank_increases rank h (b :: r) a hr hc _ hmem
    have h2 := hr a (by simp) _ hclose
    exact Nat.lt_irrefl _ (Nat.lt_trans h1 h2)

/-- class-level rank lifted to concrete mutexes; `cls` maps a concrete mutex to its class in the static
    table (all `refMu`s are one class) -/
def instRank (classRank : Nat → Nat) (cls : Lock → Nat) (m : Lock) : Nat := classRank (cls m)

/-- what the static lock-order table claims about a state: whenever a thread waits for `m` while
    holding `m'`, the pair (class of `m'`, class of `m`) is one of the table's edges -/
def LockOrderConforms (edges : List (Nat × Nat)) (cls : Lock → Nat) (h : Holder) (ws : List Wait) : Prop :=
  ∀ w ∈ ws, ∀ m', h m' = some w.t → (cls m', cls w.m) ∈ edges

/-- **No deadlock among the tracked mutexes**: a table of acquisition-order edges that has a rank
    function, any holder state and any set of blocked acquisitions conforming to it: there is no
    wait cycle. -/
theorem ranked_lock_order_no_deadlock (edges : List (Nat × Nat)) (cls : Lock → Nat) (classRank : Nat → Nat)
    (hranked : ∀ e ∈ edges, classRank e.1 < classRank e.2)
    (h : Holder) (a : Wait) (rest : List Wait)
    (hconf : LockOrderConforms edges cls h (a :: rest)) (hc : chainOK h (a :: rest))
    (hclose : h ((a :: rest).getLast (by simp)).m = some a.t) : False :=
  no_wait_cycle (instRank classRank cls) h a rest
    (fun w hw m' hm' => hranked _ (hconf w hw m' hm')) hc hclose

/-- **Witness (F12c, the order the pinned scheduler had)**: `updateFreeSpace` takes `loadedMu` then
    `refMu`, the expired handler took `refMu` then `loadedMu`.  The two-edge table has no rank
    function, and the history "t1 holds A, t2 holds B" is enabled while both next acquisitions are
    disabled and form a closed wait chain: a deadlock. -/
theorem abba_deadlock_witness :
    (∀ rank : Nat → Nat, ¬ (∀ e ∈ [((0 : Nat), (3 : Nat)), (3, 0)], rank e.1 < rank e.2)) ∧
    (run Holder.init [.acq 1 (0, 0), .acq 2 (3, 7)]).isSome = true ∧
    ((run Holder.init [.acq 1 (0, 0), .acq 2 (3, 7)]).bind (fun h => step h (.acq 1 (3, 7)))) = none ∧
    ((run Holder.init [.acq 1 (0, 0), .acq 2 (3, 7)]).bind (fun h => step h (.acq 2 (0, 0)))) = none ∧
    chainOK (holderOf [.acq 1 (0, 0), .acq 2 (3, 7)]) [⟨1, (3, 7)⟩, ⟨2, (0, 0)⟩] ∧
    holderOf [.acq 1 (0, 0), .acq 2 (3, 7)] (0, 0) = some 1 := by
  refine ⟨?_, by decide, by decide, by decide, ?_, by decide⟩
  · intro rank hall
    have h1 := hall (0, 3) (by simp)
    have h2 := hall (3, 0) (by simp)
    simp only at h1 h2
    omega
  · refine ⟨by decide, trivial⟩

/-- non-vacuity of `ranked_lock_order_no_deadlock`: the tree's shape (one edge registry → object)
    with a real blocked acquisition that conforms: t1 holds the registry lock and waits for the object
    lock held by t2, who waits for nothing -/
example : (∀ e ∈ [((0 : Nat), (3 : Nat))], (fun c => if c = 0 then 1 else 2) e.1 < (fun c => if c = 0 then 1 else 2) e.2) ∧
    LockOrderConforms [(0, 3)] (fun m => m.1) (holderOf [.acq 1 (0, 0), .acq 2 (3, 7)]) [⟨1, (3, 7)⟩] ∧
    chainOK (holderOf [.acq 1 (0, 0), .acq 2 (3, 7)]) [⟨1, (3, 7)⟩] := by
  refine ⟨by simp, ?_, trivial⟩
  intro w hw m' hm'
  simp only [List.mem_singleton] at hw
  subst hw
  simp only [List.mem_singleton, Prod.mk.injEq]
  have hh : ∀ m, holderOf [Ev.acq 1 (0, 0), Ev.acq 2 (3, 7)] m =
      if m = (3, 7) then some 2 else if m = (0, 0) then some 1 else none := by
    intro m; simp [holderOf, run, step, Holder.init, Holder.set]
  rw [hh] at hm'
  by_cases h1 : m' = (3, 7)
  · simp [h1] at hm'
  · by_cases h2 : m' = (0, 0)
    · subst h2; simp
    · simp [h1, h2] at hm'

/-! ## Witnesses -/

private def rd (site cls : Nat) (locks : List LockRef) (thread : Nat) : Access :=
  { site, cls, kind := .read, locks, thread, single := false, init := false, racy := false,
    atomic := false, pre := [], post := [], hb := [], use := true, live := false, valid := false }
private def wr (site cls : Nat) (locks : List LockRef) (thread : Nat) : Access :=
  { rd site cls locks thread with kind := .write }

/-- a disciplined table: class 0 written and read under global lock 7 -/
def goodFacts : List Access := [wr 0 0 [⟨7, false⟩] 1, rd 1 0 [⟨7, false⟩] 2]
/-- the F13a shape: class 0 written under lock 7, read with no lock -/
def badFacts : List Access := [wr 0 0 [⟨7, false⟩] 1, rd 1 0 [] 2]

/-- non-vacuity: a non-trivial well-formed trace conforming to a table that passes the check
    (writer and reader alternate under the lock) -/
def goodTrace : List Ev :=
  [.acq 10 (14, 0), .acc 10 (0, 5) 0, .rel 10 (14, 0), .acq 20 (14, 0), .acc 20 (0, 5) 1, .rel 20 (14, 0)]

example : checkClass goodFacts 0 = true ∧ (run Holder.init goodTrace).isSome = true := by
  constructor <;> decide

/-- **Witness that the check is needed**: the F13a-shaped table fails the check, and there is a
    well-formed trace instantiating it in which the unlocked read sits directly next to the
    locked write, inside the writer's critical section (a data race). -/
def racyTrace : List Ev :=
  [.acq 10 (14, 0), .acc 10 (0, 5) 0, .acc 20 (0, 5) 1, .rel 10 (14, 0)]

theorem unlocked_reader_races :
    checkClass badFacts 0 = false ∧ violatingPairs badFacts = [(0, 0, 1)] ∧
    (run Holder.init racyTrace).isSome = true := by
  refine ⟨by decide, by decide, by decide⟩

/-- non-vacuity of `stale_rule_sound`: a table with one `live` read of a cleared class has no
    stale read, and the history "take the registry lock, find object 7, use it" is enabled and
    conforms to it (with the empty `Other` hypothesis) -/
def liveFacts : List Access := [{ rd 0 0 [⟨0, false⟩] 1 with live := true }]
def liveTrace : List LEv := [.sync (.acq 1 (0, 0)), .lookup 1 7, .use 1 7 0]

example : staleReads liveFacts [0] 1 ⟨0, false⟩ ⟨1, true⟩ = [] ∧
    (lrun (0, 0) (fun o => (1, o)) LState.init liveTrace).isSome = true ∧
    UseConforms liveFacts [0] 1 (0, 0) (fun o => (1, o)) (fun _ _ _ => False) liveTrace := by
  refine ⟨by decide, by decide, ?_⟩
  intro pre t o f post h
  match pre, h with
  | [], h => simp [liveTrace] at h
  | [_], h => simp [liveTrace] at h
  | [e1, e2], h =>
    simp only [liveTrace, List.cons_append, List.nil_append, List.cons.injEq, LEv.use.injEq] at h
    obtain ⟨rfl, rfl, ⟨rfl, rfl, rfl⟩, _⟩ := h
    refine ⟨liveFacts[0], rfl, rfl, by decide, rfl, ?_, ?_, ?_⟩
    · intro _
      exact ⟨[.sync (.acq 1 (0, 0))], [], rfl, by simp, by simp⟩
    · intro hv; exact absurd hv (by decide)
    · intro hv; exact absurd hv (by decide)
  | _ :: _ :: _ :: _, h => simp [liveTrace] at h

/-- and the rule is needed: the same table without the `live` flag has a stale read, and
    `staleTrace` above is an enabled history in which the use sees the object torn down -/
example : staleReads [rd 0 0 [⟨1, true⟩] 1] [0] 1 ⟨0, false⟩ ⟨1, true⟩ = [(0, 0)] := by decide

/-- `exempt` without its two spawn-order disjuncts: what is still a named hypothesis -/
def exemptNoFork (a b : Access) : Bool :=
  (a.init && !b.racy) || (b.init && !a.racy) || (a.atomic && b.atomic) ||
  inter a.pre b.pre || inter a.hb b.hb

theorem getElem?_split (l1 l2 : List Ev) (e : Ev) : (l1 ++ e :: l2)[l1.length]? = some e := by
  simp

/-- **The lockset theorem with spawn order discharged.**  Same hypotheses as
    `lockset_discipline_race_free` plus Go's spawn semantics (`ForkWF`) and the meaning of the
    `pre`/`post` tags (`ForkConforms`): two accesses of one location by different threads are both
    reads, or ordered by a mutex hand-over, or have a `fork` step strictly between them from which
    the second thread descends, or fall under one of the REMAINING named hypotheses
    (`exemptNoFork`: fresh object, atomics, both before the same once-spawn, `holder`/`doneclose`).
    The disjunct "the later access precedes the spawn the earlier one descends from" is
    impossible. -/
theorem lockset_discipline_race_free_fork
    (facts : List Access) (tc : Thread → Nat)
    (c : Nat) (hcheck : checkClass facts c = true)
    (pre mid post : List Ev) (t1 t2 : Thread) (o f1 f2 : Nat)
    (hsingle : SingletonThreads facts tc
      (pre ++ Ev.acc t1 (c, o) f1 :: (mid ++ Ev.acc t2 (c, o) f2 :: post)) (c, o))
    (hwf : WF (pre ++ Ev.acc t1 (c, o) f1 :: (mid ++ Ev.acc t2 (c, o) f2 :: post)))
    (hconf : Conforms facts tc (pre ++ Ev.acc t1 (c, o) f1 :: (mid ++ Ev.acc t2 (c, o) f2 :: post)))
    (hfwf : ForkWF (pre ++ Ev.acc t1 (c, o) f1 :: (mid ++ Ev.acc t2 (c, o) f2 :: post)))
    (hfc : ForkConforms facts (pre ++ Ev.acc t1 (c, o) f1 :: (mid ++ Ev.acc t2 (c, o) f2 :: post)))
    (hne : t1 ≠ t2) :
    ∃ a b, facts[f1]? = some a ∧ facts[f2]? = some b ∧
      ((isWrite facts a = false ∧ isWrite facts b = false) ∨
       LockOrdered pre (Ev.acc t1 (c, o) f1) mid t1 t2 ∨
       (∃ (j : Nat) (t t' : Thread) (s : Nat), pre.length < j ∧ j < pre.length + 1 + mid.length ∧
          (pre ++ Ev.acc t1 (c, o) f1 :: (mid ++ Ev.acc t2 (c, o) f2 :: post))[j]? = some (Ev.fork t t' s) ∧
          Desc (pre ++ Ev.acc t1 (c, o) f1 :: (mid ++ Ev.acc t2 (c, o) f2 :: post)) s t2) ∨
       exemptNoFork a b = true) := by
  obtain ⟨a, b, ha, hb, h⟩ :=
    lockset_discipline_race_free facts tc c hcheck pre mid post t1 t2 o f1 f2 hsingle hwf hconf hne
  refine ⟨a, b, ha, hb, ?_⟩
  rcases h with h | h | h
  · exact Or.inl h
  · exact Or.inr (Or.inl h)
  · -- an exempt pair: split off the spawn-order disjuncts
    have hi : (pre ++ Ev.acc t1 (c, o) f1 :: (mid ++ Ev.acc t2 (c, o) f2 :: post))[pre.length]?
        = some (Ev.acc t1 (c, o) f1) := getElem?_split pre _ _
    have hk : (pre ++ Ev.acc t1 (c, o) f1 :: (mid ++ Ev.acc t2 (c, o) f2 :: post))[pre.length + 1 + mid.length]?
        = some (Ev.acc t2 (c, o) f2) := by
      have := getElem?_split (pre ++ Ev.acc t1 (c, o) f1 :: mid) post (Ev.acc t2 (c, o) f2)
      simp only [List.append_assoc, List.cons_append, List.length_append, List.length_cons] at this
      rw [show pre.length + 1 + mid.length = pre.length + (mid.length + 1) by omega]
      exact this
    by_cases h1 : inter a.pre b.post = true
    · obtain ⟨j, t, t', s, hij, hjk, hj, _, hd⟩ :=
        fork_tagged_pair_ordered facts _ hfwf hfc _ _ t1 t2 (c, o) (c, o) f1 f2 hi hk a b ha hb h1
      exact Or.inr (Or.inr (Or.inl ⟨j, t, t', s, hij, hjk, hj, hd⟩))
    · by_cases h2 : inter b.pre a.post = true
      · exfalso
        obtain ⟨j, _, _, _, hkj, hji, _, _, _⟩ :=
          fork_tagged_pair_ordered facts _ hfwf hfc _ _ t2 t1 (c, o) (c, o) f2 f1 hk hi b a hb ha h2
        omega
      · refine Or.inr (Or.inr (Or.inr ?_))
        unfold exempt at h
        unfold exemptNoFork
        simp only [Bool.not_eq_true] at h1 h2
        simp only [h1, h2, Bool.or_false] at h
        exact h

/-! ## Publication order: the `init` tag orders its access before every other thread's

  `exempt` accepts a pair when one access is tagged `init` (the object is a fresh local, not yet
  published) and the other side did not get its reference by an unsynchronised read.  With
  `publish` events this is a theorem: a thread other than the creator touches an object only after
  the `publish` step that made it reachable (`PublishWF`), and an `init`-tagged access happens
  before its object is published (`InitConforms`). -/

/-- a thread other than the object's creator reaches it only after it has been published -/
def PublishWF (creator : Nat → Thread) (tr : List Ev) : Prop :=
  ∀ (k : Nat) t x f, tr[k]? = some (Ev.acc t x f) → t ≠ creator x.2 →
    ∃ (j : Nat) (u : Thread), j < k ∧ tr[j]? = some (Ev.publish u x.2)

/-- meaning of the `init` tag: the access is by the creator, before any `publish` of the object -/
def InitConforms (facts : List Access) (creator : Nat → Thread) (tr : List Ev) : Prop :=
  ∀ (i : Nat) t x f, tr[i]? = some (Ev.acc t x f) →
    ∃ a, facts[f]? = some a ∧
      (a.init = true → t = creator x.2 ∧ ∀ (j : Nat) u, j < i → tr[j]? ≠ some (Ev.publish u x.2))

/-- **Publication order.**  An `init`-tagged access and an access to the same object by another
    thread are ordered in every trace: the `init` access, then a `publish` of the object, then the
    other access — whichever of the two the table lists first. -/
theorem init_tagged_pair_ordered (facts : List Access) (creator : Nat → Thread) (tr : List Ev)
    (hp : PublishWF creator tr) (hc : InitConforms facts creator tr)
    (i k : Nat) (t1 t2 : Thread) (c1 c2 o : Nat) (f1 f2 : Nat)
    (ha : tr[i]? = some (Ev.acc t1 (c1, o) f1)) (hb : tr[k]? = some (Ev.acc t2 (c2, o) f2))
    (hne : t1 ≠ t2) (a : Access) (hfa : facts[f1]? = some a) (hinit : a.init = true) :
    ∃ (j : Nat) (u : Thread), i < j ∧ j < k ∧ tr[j]? = some (Ev.publish u o) := by
  obtain ⟨a', ha', hi⟩ := hc i t1 (c1, o) f1 ha
  rw [hfa] at ha'; injection ha' with ha'; subst ha'
  obtain ⟨hcr, hnone⟩ := hi hinit
  have hne2 : t2 ≠ creator o := fun h => hne (by rw [hcr, h])
  obtain ⟨j, u, hjk, hj⟩ := hp k t2 (c2, o) f2 hb hne2
  have hij : i < j := by
    rcases Nat.lt_trichotomy j i with h | h | h
    · exact absurd hj (hnone j u h)
    · subst h; rw [ha] at hj; cases hj
    · exact h
  exact ⟨j, u, hij, hjk, hj⟩

/-- what is STILL a named hypothesis after spawn order and publication order are discharged -/
def exemptRest (a b : Access) : Bool :=
  (a.atomic && b.atomic) || inter a.pre b.pre || inter a.hb b.hb

/-- **The lockset theorem with spawn order and publication order discharged.**  Two accesses of
    one location by different threads are both reads, or ordered by a mutex hand-over, or have a
    `fork` step between them from which the second thread descends, or have a `publish` of the
    object between them, or fall under `exemptRest` (atomics / sync.Map, both before the same
    once-spawn, the named `holder` / `doneclose` orderings).  An `init`-tagged LATER access is
    impossible. -/
theorem lockset_discipline_race_free_ordered
    (facts : List Access) (tc : Thread → Nat) (creator : Nat → Thread)
    (c : Nat) (hcheck : checkClass facts c = true)
    (pre mid post : List Ev) (t1 t2 : Thread) (o f1 f2 : Nat)
    (hsingle : SingletonThreads facts tc
      (pre ++ Ev.acc t1 (c, o) f1 :: (mid ++ Ev.acc t2 (c, o) f2 :: post)) (c, o))
    (hwf : WF (pre ++ Ev.acc t1 (c, o) f1 :: (mid ++ Ev.acc t2 (c, o) f2 :: post)))
    (hconf : Conforms facts tc (pre ++ Ev.acc t1 (c, o) f1 :: (mid ++ Ev.acc t2 (c, o) f2 :: post)))
    (hfwf : ForkWF (pre ++ Ev.acc t1 (c, o) f1 :: (mid ++ Ev.acc t2 (c, o) f2 :: post)))
    (hfc : ForkConforms facts (pre ++ Ev.acc t1 (c, o) f1 :: (mid ++ Ev.acc t2 (c, o) f2 :: post)))
    (hpw : PublishWF creator (pre ++ Ev.acc t1 (c, o) f1 :: (mid ++ Ev.acc t2 (c, o) f2 :: post)))
    (hic : InitConforms facts creator (pre ++ Ev.acc t1 (c, o) f1 :: (mid ++ Ev.acc t2 (c, o) f2 :: post)))
    (hne : t1 ≠ t2) :
    ∃ a b, facts[f1]? = some a ∧ facts[f2]? = some b ∧
      ((isWrite facts a = false ∧ isWrite facts b = false) ∨
       LockOrdered pre (Ev.acc t1 (c, o) f1) mid t1 t2 ∨
       (∃ (j : Nat) (t t' : Thread) (s : Nat), pre.length < j ∧ j < pre.length + 1 + mid.length ∧
          (pre ++ Ev.acc t1 (c, o) f1 :: (mid ++ Ev.acc t2 (c, o) f2 :: post))[j]? = some (Ev.fork t t' s) ∧
          Desc (pre ++ Ev.acc t1 (c, o) f1 :: (mid ++ Ev.acc t2 (c, o) f2 :: post)) s t2) ∨
       (∃ (j : Nat) (u : Thread), pre.length < j ∧ j < pre.length + 1 + mid.length ∧
          (pre ++ Ev.acc t1 (c, o) f1 :: (mid ++ Ev.acc t2 (c, o) f2 :: post))[j]? = some (Ev.publish u o)) ∨
       exemptRest a b = true) := by
  obtain ⟨a, b, ha, hb, h⟩ :=
    lockset_discipline_race_free_fork facts tc c hcheck pre mid post t1 t2 o f1 f2 hsingle hwf hconf hfwf hfc hne
  refine ⟨a, b, ha, hb, ?_⟩
  rcases h with h | h | h | h
  · exact Or.inl h
  · exact Or.inr (Or.inl h)
  · exact Or.inr (Or.inr (Or.inl h))
  · have hi : (pre ++ Ev.acc t1 (c, o) f1 :: (mid ++ Ev.acc t2 (c, o) f2 :: post))[pre.length]?
        = some (Ev.acc t1 (c, o) f1) := getElem?_split pre _ _
    have hk : (pre ++ Ev.acc t1 (c, o) f1 :: (mid ++ Ev.acc t2 (c, o) f2 :: post))[pre.length + 1 + mid.length]?
        = some (Ev.acc t2 (c, o) f2) := by
      have := getElem?_split (pre ++ Ev.acc t1 (c, o) f1 :: mid) post (Ev.acc t2 (c, o) f2)
      simp only [List.append_assoc, List.cons_append, List.length_append, List.length_cons] at this
      rw [show pre.length + 1 + mid.length = pre.length + (mid.length + 1) by omega]
      exact this
    by_cases h1 : a.init = true
    · obtain ⟨j, u, hij, hjk, hj⟩ :=
        init_tagged_pair_ordered facts creator _ hpw hic _ _ t1 t2 c c o f1 f2 hi hk hne a ha h1
      exact Or.inr (Or.inr (Or.inr (Or.inl ⟨j, u, hij, hjk, hj⟩)))
    · by_cases h2 : b.init = true
      · exfalso
        obtain ⟨j, _, hkj, hji, _⟩ :=
          init_tagged_pair_ordered facts creator _ hpw hic _ _ t2 t1 c c o f2 f1 hk hi (Ne.symm hne) b hb h2
        omega
      · refine Or.inr (Or.inr (Or.inr (Or.inr ?_)))
        unfold exemptNoFork at h
        unfold exemptRest
        simp only [Bool.not_eq_true] at h1 h2
        simp only [h1, h2, Bool.false_and, Bool.false_or] at h
        exact h

/-- non-vacuity of `fork_tagged_pair_ordered`: the F-shaped history "write, spawn, the child reads"
    satisfies `ForkWF` and conforms to a table whose write is tagged `pre ∋ 7` and whose read is
    tagged `post ∋ 7` (no lock anywhere: the pair passes `compat` only through the fork tags) -/
def forkFacts : List Access :=
  [{ wr 0 0 [] 1 with pre := [7] }, { rd 1 0 [] 2 with post := [7] }]
def forkTrace : List Ev := [.acc 1 (0, 5) 0, .fork 1 2 7, .acc 2 (0, 5) 1]

example : checkClass forkFacts 0 = true ∧ WF forkTrace ∧ ForkWF forkTrace ∧ ForkConforms forkFacts forkTrace := by
  refine ⟨by decide, by unfold WF; decide, ?_, ?_⟩
  · intro j t t' s h
    match j, h with
    | 0, h => simp [forkTrace] at h
    | 1, h =>
      simp only [forkTrace, List.getElem?_cons_succ, List.getElem?_cons_zero, Option.some.injEq,
        Ev.fork.injEq] at h
      obtain ⟨rfl, rfl, rfl⟩ := h
      refine ⟨by decide, ?_⟩
      intro i e hi he
      match i, hi, he with
      | 0, _, he => simp [forkTrace] at he; subst he; simp [evThread]
    | 2, h => simp [forkTrace] at h
    | n + 3, h => simp [forkTrace] at h
  · intro i t x f h
    match i, h with
    | 0, h =>
      simp only [forkTrace, List.getElem?_cons_zero, Option.some.injEq, Ev.acc.injEq] at h
      obtain ⟨rfl, rfl, rfl⟩ := h
      refine ⟨forkFacts[0], rfl, ?_, ?_⟩
      · intro s _ j u u' hj; omega
      · intro s hs; simp [forkFacts, wr, rd] at hs
    | 1, h => simp [forkTrace] at h
    | 2, h =>
      simp only [forkTrace, List.getElem?_cons_succ, List.getElem?_cons_zero, Option.some.injEq,
        Ev.acc.injEq] at h
      obtain ⟨rfl, rfl, rfl⟩ := h
      refine ⟨forkFacts[1], rfl, ?_, ?_⟩
      · intro s hs; simp [forkFacts, wr, rd] at hs
      · intro s hs
        have : s = 7 := by simpa [forkFacts, wr, rd] using hs
        subst this
        exact Desc.direct 1 2 (by simp [forkTrace])
    | n + 3, h => simp [forkTrace] at h

/-- non-vacuity of `init_tagged_pair_ordered`: create-and-fill, publish, another thread reads -/
def initFacts : List Access := [{ wr 0 0 [] 1 with init := true }, rd 1 0 [] 2]
def initTrace : List Ev := [.acc 1 (0, 5) 0, .publish 1 5, .acc 2 (0, 5) 1]

example : checkClass initFacts 0 = true ∧ WF initTrace ∧ PublishWF (fun _ => 1) initTrace ∧
    InitConforms initFacts (fun _ => 1) initTrace := by
  refine ⟨by decide, by unfold WF; decide, ?_, ?_⟩
  · intro k t x f h hne
    match k, h with
    | 0, h =>
      simp only [initTrace, List.getElem?_cons_zero, Option.some.injEq, Ev.acc.injEq] at h
      exact absurd h.1.symm hne
    | 1, h => simp [initTrace] at h
    | 2, h =>
      simp only [initTrace, List.getElem?_cons_succ, List.getElem?_cons_zero, Option.some.injEq,
        Ev.acc.injEq] at h
      obtain ⟨_, rfl, _⟩ := h
      exact ⟨1, 1, by omega, by simp [initTrace]⟩
    | n + 3, h => simp [initTrace] at h
  · intro i t x f h
    match i, h with
    | 0, h =>
      simp only [initTrace, List.getElem?_cons_zero, Option.some.injEq, Ev.acc.injEq] at h
      obtain ⟨rfl, rfl, rfl⟩ := h
      exact ⟨initFacts[0], rfl, fun _ => ⟨rfl, fun j u hj => by omega⟩⟩
    | 1, h => simp [initTrace] at h
    | 2, h =>
      simp only [initTrace, List.getElem?_cons_succ, List.getElem?_cons_zero, Option.some.injEq,
        Ev.acc.injEq] at h
      obtain ⟨rfl, rfl, rfl⟩ := h
      exact ⟨initFacts[1], rfl, fun hi => absurd hi (by decide)⟩
    | n + 3, h => simp [initTrace] at h

/-- non-vacuity of the `handoff` step (`Scheduler.load` locks `refMu`, the goroutine it spawns
    unlocks it): the trace is enabled, the receiving thread holds the mutex by its own events, and
    both writes conform to a table that passes the check through the common mutex only -/
def handoffFacts : List Access := [wr 0 0 [⟨1, true⟩] 1, wr 1 0 [⟨1, true⟩] 2]
def handoffTrace : List Ev :=
  [.acq 1 (3, 5), .acc 1 (0, 5) 0, .fork 1 2 9, .handoff 1 2 (3, 5), .acc 2 (0, 5) 1, .rel 2 (3, 5)]

example : checkClass handoffFacts 0 = true ∧ (run Holder.init handoffTrace).isSome = true ∧
    localHeld 2 (3, 5) (handoffTrace.take 4) false = true ∧
    localHeld 1 (3, 5) (handoffTrace.take 4) false = false ∧
    (⟨1, true⟩ : LockRef).inst 5 = (3, 5) := by
  refine ⟨by decide, by decide, by decide, by decide, by decide⟩

/-! ## Reader/writer exclusion -/

/-- a writer excludes every reader -/
def RWInv (s : RWState) : Prop := ∀ m t, s.writer m = some t → s.readers m = []

theorem rwstep_inv (s s' : RWState) (e : RWEv) (h : RWInv s) (hs : rwstep s e = some s') : RWInv s' := by
  intro m t hw
  cases e with
  | wacq t' m' =>
    simp only [rwstep] at hs
    split at hs
    · rename_i hg
      injection hs with hs; subst hs
      simp only at hw ⊢
      by_cases hm : m = m'
      · subst hm; exact hg.2
      · simp only [hm, if_false] at hw; exact h m t hw
    · cases hs
  | wrel t' m' =>
    simp only [rwstep] at hs
    split at hs
    · injection hs with hs; subst hs
      simp only at hw ⊢
      by_cases hm : m = m'
      · simp [hm] at hw
      · simp only [hm, if_false] at hw; exact h m t hw
    · cases hs
  | racq t' m' =>
    simp only [rwstep] at hs
    split at hs
    · rename_i hg
      injection hs with hs; subst hs
      simp only at hw ⊢
      by_cases hm : m = m'
      · subst hm; rw [hg] at hw; cases hw
      · simp only [hm, if_false]; exact h m t hw
    · cases hs
  | rrel t' m' =>
    simp only [rwstep] at hs
    split at hs
    · injection hs with hs; subst hs
      simp only at hw ⊢
      by_cases hm : m = m'
      · subst hm; simp [h m t hw]
      · simp only [hm, if_false]; exact h m t hw
    · cases hs

/-- **Reader/writer exclusion, every history**: in every state reachable by enabled steps, a mutex
    that has a writer has no reader (so a write access made under `Lock` and a read access made
    under `RLock` of the same RWMutex never overlap). -/
theorem rw_writer_excludes_readers (evs : List RWEv) :
    ∀ (s s' : RWState), RWInv s → rwrun s evs = some s' → RWInv s' := by
  induction evs with
  | nil => intro s s' h hr; simp only [rwrun] at hr; injection hr with hr; subst hr; exact h
  | cons e es ih =>
    intro s s' h hr
    simp only [rwrun] at hr
    cases hs : rwstep s e with
    | none => rw [hs] at hr; cases hr
    | some s1 => rw [hs] at hr; exact ih s1 s' (rwstep_inv s s1 e h hs) hr

theorem rw_init_inv : RWInv RWState.init := by intro m t h; cases h

/-- two readers at once are allowed (what the exclusive-mutex semantics cannot express), a writer
    next to a reader is not -/
example : (rwrun RWState.init [.racq 1 (0, 0), .racq 2 (0, 0)]).isSome = true ∧
    (rwrun RWState.init [.racq 1 (0, 0), .wacq 2 (0, 0)]).isSome = false ∧
    (rwrun RWState.init [.wacq 1 (0, 0), .racq 2 (0, 0)]).isSome = false := by
  refine ⟨by decide, by decide, by decide⟩

end OllamaVerif.Lockset
