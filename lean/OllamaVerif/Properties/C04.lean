/-
  C04 — every listed model is complete; operations on one model never damage another.

  Property theorems over the store model (Model/Store.lean); helper lemmas are in Proofs/Store.lean.
  All theorems quantify over EVERY store, EVERY request and EVERY iteration order of the Go maps involved
  (`Choice`), and over every `hash`/GGUF decoder (`Env`).
-/
import OllamaVerif.Proofs.Store
import OllamaVerif.Proofs.StoreShow

namespace OllamaVerif.C04
open OllamaVerif OllamaVerif.Store

/-- the store invariant: every blob file holds what its name says, and every readable manifest has all its
    layers and its config present with the recorded size and digest -/
def Inv (env : Env) (st : Store) : Prop := BlobsOk env st ∧ NameInv env st ∧ LegacyOk env st

/-- the guard on the two injected operations that put a file under a blob name (`sha256-<hex>`, or the legacy
    `sha256:<hex>` that `fixBlobs` will rename): the file holds that content.  `True` for everything else. -/
def LitterOk (env : Env) : Op → Prop
  | .litter (.colon r) c => isHex64 r = true → env.hash c = r
  | .litterBlob k c => env.hash c = k
  /- …and on what a registry serves as the manifest of a pull: `sha256:` digests, sizes that are the sizes of the
     named contents (`PullOk`: `PullModel` never compares them), a decodable model layer (`PullShowOk`) -/
  | .pull n (some m) sv => PullOk env m ∧ PullShowOk env (.pull n (some m) sv)
  | _ => True

/-- the request mentions digests only in the `sha256:<hex>` spelling (and is not the injected respelling) -/
def CanonOp : Op → Prop
  | .create r => ∀ d ∈ r.files, d.form = .colon
  | .dashify _ => False
  | _ => True

/-- the guard on the request: none once F16a is repaired -/
def GuardOp (env : Env) (op : Op) : Prop := env.v.fixAlias = true ∨ CanonOp op

theorem complete_dashed {env : Env} {st : Store} {m : Manifest} (h : ∀ l ∈ m.all, Complete env st l) :
    ∀ l ∈ m.dashed.all, Complete env st l := by
  intro l hl
  simp only [Manifest.all, Manifest.dashed, List.mem_append, List.mem_map, List.mem_singleton] at hl
  rcases hl with ⟨l0, hl0, e⟩ | hl
  · have h0 := h l0 (by simp [Manifest.all, hl0])
    split at e
    · subst e
      obtain ⟨c, h1, h2, h3⟩ := h0
      exact ⟨c, h1, h2, h3⟩
    · subst e; exact h0
  · subst hl; exact h m.config (by simp [Manifest.all])

/-- the guard on a create request about layers that `createModel` may drop while nothing stored references
    them (auto-detected template / parameters layers; finding N2) — `Apart` on what `baseLayers` returns;
    `True` for every other operation -/
def ApartOp (env : Env) (st : Store) : Op → Choice → Prop
  | .create r, ch => ApartReq env st r ch.frev
  | _, _ => True

theorem apartOp_of_fixKeep {env : Env} (hv : env.v.fixKeep = true) (st : Store) (op : Op) (ch : Choice) :
    ApartOp env st op ch := by
  cases op <;> simp only [ApartOp]
  exact fun b _ => apart_of_fixKeep hv _ _ _

/-- every `create … from` meets the guard: its base layers are all in use by the source manifest -/
theorem apartOp_of_from {env : Env} (hinj : HashInj env) {st : Store} (hc : Guard env st) (hb : BlobsOk env st)
    (r : CreateReq) (hf : ∀ d ∈ r.files, GD env d) (hsrc : r.src.isSome = true) (ch : Choice) :
    ApartOp env st (.create r) ch := by
  simp only [ApartOp, ApartReq]
  intro b hbase
  exact apart_of_inUse r (((baseLayers_spec hinj hc hb r hf ch.frev).2 b hbase).2 hsrc)

/-- one proof for both variants of F16a: `Guard`/`GuardOp` are `True` when the repair is in, and the
    `sha256:` spelling conditions on the pinned tree -/
theorem step_good {env : Env} (hinj : HashInj env) {st : Store} (hc : Guard env st) (hi : Inv env st)
    (op : Op) (ho : GuardOp env op) (ch : Choice) (ha : ApartOp env st op ch) (hlit : LitterOk env op) :
    Good env st (step env st op ch).1 (targets env st op ch) := by
  obtain ⟨hb, hn, hleg⟩ := hi
  cases op with
  | upload d c => exact upload_good hb hc d c
  | create r =>
    exact (createAt_good hinj hb hc r (fun d hd => ho.imp id (fun h => h d hd)) _ _ ha).1
  | copy s d => exact copyAt_good hb hc hn _ _
  | delete n => exact deleteAt_good hb hc _
  | prune => exact pruneStartup_good hinj hb hc hleg
  | pull t reg served =>
    refine pullAt_good hb hc _ reg served (fun m e => ?_)
    subst e
    exact hlit.1
  | litter j c =>
    simp only [step, targets]
    refine ⟨hb, fun h n m hm l hl => h n m hm l hl, hc, ?_, fun _ _ => rfl, fun _ _ _ _ _ _ _ h => h⟩
    intro hl p hp r hr hx
    unfold aset at hp
    simp only [List.mem_cons] at hp
    rcases hp with hp | hp
    · subst hp
      simp only at hr
      subst hr
      exact hlit hx
    · unfold adel at hp; exact hl p (List.mem_filter.mp hp).1 r hr hx
  | litterMan p =>
    simp only [step, targets]
    exact ⟨hb, fun h n m hm l hl => h n m hm l hl, hc, fun h => h, fun _ _ => rfl, fun _ _ _ _ _ _ _ h => h⟩
  | litterBlob k c =>
    simp only [step, targets]
    have hk : env.hash c = k := hlit
    have bs : BlobStep env st { st with blobs := aset st.blobs k c } := by
      refine ⟨rfl, fun _ h => Or.inl h, fun k' => ?_⟩
      rw [blob_aset]
      by_cases h : k' = k
      · subst h
        simp only [if_true]
        cases ho' : st.blob k' with
        | none => exact Or.inr ⟨Or.inr rfl, fun c' hc' => by injection hc' with e; rw [← e]; exact hk⟩
        | some c0 => exact Or.inl (by rw [hinj c0 c ((hb k' c0 ho').trans hk.symm)])
      · simp [h]
    exact Good.ofBlobStep bs hb hc _
  | plant s d =>
    simp only [step, targets]
    cases hm : st.man s with
    | none => exact Good.refl hb hc _
    | some f => exact Good.setManifest hb hc d f (fun m e => ⟨fun l hl => hc.gd (e ▸ hm) hl, hn s m (e ▸ hm)⟩)
  | corrupt n =>
    simp only [step, targets]
    cases hm : st.man n with
    | none => exact Good.refl hb hc _
    | some f => exact Good.setManifest hb hc n .corrupt (fun m e => by cases e)
  | dashify n =>
    have hfix : env.v.fixAlias = true := by
      rcases ho with h | h
      · exact h
      · exact absurd h (by simp [CanonOp])
    simp only [step, targets]
    cases hm : st.man n with
    | none => exact Good.refl hb hc _
    | some f =>
      cases f with
      | corrupt => exact Good.refl hb hc _
      | readable m =>
        exact Good.setManifest hb hc n _ (fun m' e => by
          injection e with e; subst e
          exact ⟨fun _ _ => Or.inl hfix, complete_dashed (hn n m hm)⟩)

/-! ## pinned tree (F16a not repaired): guarded theorems -/

/-- **Every readable (hence every listed) model stays complete — pinned.**  For every store in which all
    digest strings are spelled `sha256:<hex>`, every such request and every map iteration order: the invariant
    and the spelling condition are preserved by upload, create, copy, delete and the startup prune (and by the
    non-API fault operations plant/corrupt). -/
theorem op_preserves_NameInv {env : Env} (hv : env.v.fixAlias = false) (hinj : HashInj env) (st : Store)
    (hc : Canonical st) (hi : Inv env st) (op : Op) (ho : CanonOp op) (ch : Choice)
    (ha : ApartOp env st op ch) (hlit : LitterOk env op) :
    Inv env (step env st op ch).1 ∧ Canonical (step env st op ch).1 :=
  let g := step_good hinj (Or.inr hc) hi op (Or.inr ho) ch ha hlit
  ⟨⟨g.blobsOk, g.nameInv hi.2.1, g.legacy hi.2.2⟩, g.canon.resolve_left (by simp [hv])⟩

/-- **Operations on one model never damage another — pinned.**  Under the same guard: the manifest file of
    every name other than the operation's (resolved) target is unchanged, and every blob that such a readable
    manifest points to is still there with the same bytes. -/
theorem op_frame {env : Env} (hinj : HashInj env) (st : Store) (hc : Canonical st) (hi : Inv env st)
    (op : Op) (ho : CanonOp op) (ch : Choice) (ha : ApartOp env st op ch) (hlit : LitterOk env op) (n : Name)
    (hn : n ∉ targets env st op ch) :
    (step env st op ch).1.man n = st.man n ∧
    ∀ m, st.man n = some (.readable m) → ∀ l ∈ m.all, ∀ c,
      st.blob l.digest.key = some c → (step env st op ch).1.blob l.digest.key = some c :=
  let g := step_good hinj (Or.inr hc) hi op (Or.inr ho) ch ha hlit
  ⟨g.frameMan n hn, fun m hm l hl c h => g.frameBlob n m hn hm l hl c h⟩

/-- histories -/
def run (env : Env) : Store → List (Op × Choice) → Store
  | st, [] => st
  | st, (op, ch) :: rest => run env (step env st op ch).1 rest

/-- the guards along a history -/
def RunGuard (env : Env) : Store → List (Op × Choice) → Prop
  | _, [] => True
  | st, (op, ch) :: rest =>
    CanonOp op ∧ ApartOp env st op ch ∧ LitterOk env op ∧ RunGuard env (step env st op ch).1 rest

theorem history_preserves_Inv {env : Env} (hv : env.v.fixAlias = false) (hinj : HashInj env)
    (ops : List (Op × Choice)) (st : Store) (ho : RunGuard env st ops) (hc : Canonical st)
    (hi : Inv env st) : Inv env (run env st ops) ∧ Canonical (run env st ops) := by
  induction ops generalizing st with
  | nil => exact ⟨hi, hc⟩
  | cons p rest ih =>
    obtain ⟨op, ch⟩ := p
    obtain ⟨h1, h2, h2l, h3⟩ := ho
    obtain ⟨hi', hc'⟩ := op_preserves_NameInv hv hinj st hc hi op h1 ch h2 h2l
    exact ih _ h3 hc' hi'

/-! ### the guards are decidable: Boolean versions -/

def apartLayersB (env : Env) (st : Store) (ls : List Layer) (r : CreateReq) : Bool :=
  ls.all (fun a =>
    !(a.media == .template || a.media == .system || a.media == .params || a.media == .messages) ||
    env.v.fixKeep || env.inUse st a.digest ||
    (a.media != .messages && ls.all (fun x => x.media == a.media || x.digest.key != a.digest.key) &&
     (earlier r a.media).all (fun c => env.hash c != a.digest.key)))

theorem apart_of_B {env : Env} {st : Store} {ls : List Layer} {r : CreateReq}
    (h : apartLayersB env st ls r = true) : Apart env st ls r := by
  intro a ha hm
  unfold apartLayersB at h
  rw [List.all_eq_true] at h
  have := h a ha
  simp only [Bool.or_eq_true, Bool.not_eq_true', Bool.and_eq_true, List.all_eq_true, beq_iff_eq, bne_iff_ne,
    ne_eq] at this
  rcases this with ((hno | hk) | hu) | ⟨⟨h0, h1⟩, h2⟩
  · rcases hm with hm | hm | hm | hm <;> simp [hm] at hno
  · exact Or.inl hk
  · exact Or.inr (Or.inl hu)
  · refine Or.inr (Or.inr ⟨h0, fun x hx hxm => ?_, fun c hc => h2 c hc⟩)
    rcases h1 x hx with h' | h'
    · exact absurd h' hxm
    · exact h'

def apartOpB (env : Env) (st : Store) : Op → Choice → Bool
  | .create r, ch =>
    match (baseLayers env st r ch.frev).2.1 with
    | some b => apartLayersB env (baseLayers env st r ch.frev).1 (b.map (·.1)) r
    | none => true
  | _, _ => true

theorem apartOp_of_B {env : Env} {st : Store} {op : Op} {ch : Choice} (h : apartOpB env st op ch = true) :
    ApartOp env st op ch := by
  cases op <;> simp only [ApartOp]
  rename_i r
  intro b hb
  simp only [apartOpB, hb] at h
  exact apart_of_B h

def canonOpB : Op → Bool
  | .create r => r.files.all (fun d => d.form == .colon)
  | .dashify _ => false
  | _ => true

theorem canonOp_of_B {op : Op} (h : canonOpB op = true) : CanonOp op := by
  cases op <;> simp only [CanonOp] <;> simp only [canonOpB] at h
  · intro d hd
    rw [List.all_eq_true] at h
    simpa using h d hd
  · cases h

def litterOkB (env : Env) : Op → Bool
  | .litter (.colon r) c => !isHex64 r || env.hash c == r
  | .litterBlob k c => env.hash c == k
  | .pull _ (some _) _ => false   -- quantifies over all contents: not decidable, never claimed by the checker
  | _ => true

theorem litterOk_of_B {env : Env} {op : Op} (h : litterOkB env op = true) : LitterOk env op := by
  cases op with
  | litter j c =>
    cases j with
    | colon r =>
      simp only [LitterOk]
      intro hx
      simp only [litterOkB, hx, Bool.not_true, Bool.false_or, beq_iff_eq] at h
      exact h
    | plain s => trivial
  | litterBlob k c => simpa [LitterOk, litterOkB] using h
  | pull n reg sv =>
    cases reg with
    | none => trivial
    | some m => simp [litterOkB] at h
  | _ => trivial

def runGuardB (env : Env) : Store → List (Op × Choice) → Bool
  | _, [] => true
  | st, (op, ch) :: rest =>
    canonOpB op && apartOpB env st op ch && litterOkB env op && runGuardB env (step env st op ch).1 rest

theorem runGuard_of_B {env : Env} (ops : List (Op × Choice)) (st : Store) (h : runGuardB env st ops = true) :
    RunGuard env st ops := by
  induction ops generalizing st with
  | nil => trivial
  | cons p rest ih =>
    obtain ⟨op, ch⟩ := p
    simp only [runGuardB, Bool.and_eq_true] at h
    exact ⟨canonOp_of_B h.1.1.1, apartOp_of_B h.1.1.2, litterOk_of_B h.1.2, ih _ h.2⟩

theorem empty_Inv (env : Env) : Inv env Store.empty ∧ Canonical Store.empty := by
  refine ⟨⟨?_, ?_, ?_⟩, ?_⟩
  · intro k c h; simp [Store.empty, Store.blob, aget] at h
  · intro n m h; simp [Store.empty, Store.man, aget] at h
  · intro p hp; simp [Store.empty] at hp
  · intro n m h; simp [Store.empty, Store.man, aget] at h

/-- **Startup prune is exact.**  The startup sequence is `fixBlobs` (every file `sha256:<rest>` is renamed
    `sha256-<rest>`), then — unless some manifest fails to parse — `PruneLayers`.  If every manifest parses
    (and, on the pinned tree, digest strings are spelled `sha256:`), then afterwards
    * the blobs directory holds NO file whose name is not `sha256-<64 hex digits>`: leftovers of interrupted
      pulls (`sha256-<hex>-partial`, `-partial-N`), `NewLayer` temp files, wrong-length or otherwise malformed
      names, names with suffixes — every name class is deleted, none is skipped;
    * a file `sha256-<k>` is there iff some readable manifest points to `k`, with the content it had after
      `fixBlobs` (see `fixBlobs_blob`: the old content, or that of a legacy `sha256:<k>` file renamed over it). -/
theorem prune_exact_guarded (env : Env) (hnp : env.noPrune = false) (st : Store) (hc : Guard env st)
    (hnc : st.hasCorrupt = false) :
    (pruneStartup env st).1.junk = [] ∧
    ∀ k, (pruneStartup env st).1.blob k = if st.keyReferenced k then (fixBlobs st).blob k else none := by
  unfold pruneStartup
  simp only [hnp, hnc, Bool.false_eq_true, if_false]
  refine ⟨pruneLayers_junk_nil env (fixBlobs_junk_plain st), fun k => ?_⟩
  have hc' : Guard env (fixBlobs st) := hc.imp id (fun h n m hm => h n m hm)
  have hkr : (fixBlobs st).keyReferenced k = st.keyReferenced k := keyReferenced_congr rfl k
  show (pruneLayers env (fixBlobs st)).blob k = _
  rw [pruneLayers_blob]
  cases hk : st.keyReferenced k with
  | true => rw [inUse_of_key hc' (d := ⟨.colon, k⟩) (Or.inr rfl) (by rw [← hk]; exact hkr)]
  | false =>
    cases hr : env.inUse (fixBlobs st) ⟨.colon, k⟩ with
    | false => rfl
    | true =>
      have := key_of_inUse hr
      simp only [Digest.key] at this
      rw [hkr, hk] at this; cases this

theorem prune_exact (env : Env) (hnp : env.noPrune = false) (st : Store) (hc : Canonical st)
    (hnc : st.hasCorrupt = false) :
    (pruneStartup env st).1.junk = [] ∧
    ∀ k, (pruneStartup env st).1.blob k = if st.keyReferenced k then (fixBlobs st).blob k else none :=
  prune_exact_guarded env hnp st (Or.inr hc) hnc

/-- **`PruneDirectory` leaves no empty directory.**  After a completed delete and after a completed start-up prune
    every directory below manifests/ that is not on the way to a manifest is on the way to a stray regular file
    or symlink (those are never removed, and a directory that holds one — at any depth — stays); in particular
    with no stray files the directory tree is exactly the ancestors of the manifests. -/
theorem prune_no_empty_dir (st : Store) :
    ∀ d ∈ (pruneDirs st).edirs, ∃ f ∈ st.treeFiles, isAncestor d f = true := by
  intro d hd
  have := (List.mem_filter.mp hd).2
  exact List.any_eq_true.mp this

theorem pruneStartup_no_empty_dir (env : Env) (hnp : env.noPrune = false) (st : Store)
    (hnc : st.hasCorrupt = false) :
    ∀ d ∈ (pruneStartup env st).1.edirs, ∃ f ∈ (pruneStartup env st).1.treeFiles, isAncestor d f = true := by
  unfold pruneStartup
  simp only [hnp, hnc, Bool.false_eq_true, if_false]
  exact prune_no_empty_dir (pruneLayers env (fixBlobs st))

/-- when a manifest fails to parse — or with OLLAMA_NOPRUNE set — the prune is skipped: only `fixBlobs` runs,
    every other file stays -/
theorem prune_skipped (env : Env) (st : Store) (hnc : st.hasCorrupt = true ∨ env.noPrune = true) :
    (pruneStartup env st).1 = fixBlobs st := by
  unfold pruneStartup
  rcases hnc with h | h
  · by_cases hp : env.noPrune = true <;> simp [h, hp]
  · simp [h]

/-! ## F16a repaired: the same theorems WITHOUT any spelling guard -/

/-- **Every readable model stays complete — F16a repaired, no guard.**  For every store (digest strings in
    any spelling), every operation (including the injected plant / corrupt / dashify) and every iteration
    order. -/
theorem op_preserves_NameInv_fixed {env : Env} (hv : env.v.fixAlias = true) (hk : env.v.fixKeep = true)
    (hinj : HashInj env) (st : Store) (hi : Inv env st) (op : Op) (ch : Choice) (hlit : LitterOk env op) :
    Inv env (step env st op ch).1 :=
  let g := step_good hinj (Or.inl hv) hi op (Or.inl hv) ch (apartOp_of_fixKeep hk st op ch) hlit
  ⟨g.blobsOk, g.nameInv hi.2.1, g.legacy hi.2.2⟩

/-- **Operations on one model never damage another — F16a repaired, no guard.** -/
theorem op_frame_fixed {env : Env} (hv : env.v.fixAlias = true) (hk : env.v.fixKeep = true)
    (hinj : HashInj env) (st : Store) (hi : Inv env st) (op : Op) (ch : Choice) (hlit : LitterOk env op)
    (n : Name) (hn : n ∉ targets env st op ch) :
    (step env st op ch).1.man n = st.man n ∧
    ∀ m, st.man n = some (.readable m) → ∀ l ∈ m.all, ∀ c,
      st.blob l.digest.key = some c → (step env st op ch).1.blob l.digest.key = some c :=
  let g := step_good hinj (Or.inl hv) hi op (Or.inl hv) ch (apartOp_of_fixKeep hk st op ch) hlit
  ⟨g.frameMan n hn, fun m hm l hl c h => g.frameBlob n m hn hm l hl c h⟩

/-- F16a repaired but N2 not: the only guard left is `ApartOp` (about creates with auto-detected layers) -/
theorem op_preserves_NameInv_fixedAlias {env : Env} (hv : env.v.fixAlias = true) (hinj : HashInj env)
    (st : Store) (hi : Inv env st) (op : Op) (ch : Choice) (ha : ApartOp env st op ch)
    (hlit : LitterOk env op) : Inv env (step env st op ch).1 :=
  let g := step_good hinj (Or.inl hv) hi op (Or.inl hv) ch ha hlit
  ⟨g.blobsOk, g.nameInv hi.2.1, g.legacy hi.2.2⟩

theorem history_preserves_Inv_fixed {env : Env} (hv : env.v.fixAlias = true) (hk : env.v.fixKeep = true)
    (hinj : HashInj env) (ops : List (Op × Choice)) (hlit : ∀ p ∈ ops, LitterOk env p.1) (st : Store)
    (hi : Inv env st) : Inv env (run env st ops) := by
  induction ops generalizing st with
  | nil => exact hi
  | cons p rest ih =>
    exact ih (fun q hq => hlit q (by simp [hq])) _
      (op_preserves_NameInv_fixed hv hk hinj st hi p.1 p.2 (hlit p (by simp)))

/-- **Startup prune is exact — F16a repaired, no spelling guard** (only: every manifest parses, else the prune
    is skipped): no file of any non-blob name class is left, and exactly the referenced blobs remain. -/
theorem prune_exact_fixed {env : Env} (hv : env.v.fixAlias = true) (hnp : env.noPrune = false) (st : Store)
    (hnc : st.hasCorrupt = false) :
    (pruneStartup env st).1.junk = [] ∧
    ∀ k, (pruneStartup env st).1.blob k = if st.keyReferenced k then (fixBlobs st).blob k else none :=
  prune_exact_guarded env hnp st (Or.inl hv) hnc

/-! ## N1 repaired: a create that reports an error changes no manifest and damages nothing -/

/-- **A failed create leaves the target (and everything else) as it was — N1 repaired.**  If the event stream
    of a create contains anything but the success event then it contains no success event, every manifest
    file — the target's included — is unchanged, and every blob a readable manifest points to is still there
    with the same bytes.  (On the pinned tree the premise does not exclude a later success: witness below.) -/
theorem failed_create_changes_nothing_fixed {env : Env} (hv : env.v.fixReturn = true) (hinj : HashInj env)
    (st : Store) (hc : Guard env st) (hi : Inv env st) (r : CreateReq) (ho : GuardOp env (.create r))
    (ch : Choice) (ha : ApartOp env st (.create r) ch)
    (hfail : ∃ e ∈ (step env st (.create r) ch).2, e ≠ "s") :
    "s" ∉ (step env st (.create r) ch).2 ∧
    (∀ n, (step env st (.create r) ch).1.man n = st.man n) ∧
    ∀ n m, st.man n = some (.readable m) → ∀ l ∈ m.all, ∀ c,
      st.blob l.digest.key = some c → (step env st (.create r) ch).1.blob l.digest.key = some c := by
  simp only [step] at hfail ⊢
  have hs : "s" ∉ (createAt env st r (resolveName env st ch.ord1 r.name) ch.frev).2 := by
    rcases createAt_events_fixed hv st r (resolveName env st ch.ord1 r.name) ch.frev with h | h
    · obtain ⟨e, he, hne⟩ := hfail
      rw [h] at he
      simp only [List.mem_singleton] at he
      exact absurd he hne
    · exact h
  have bs := (createAt_good hinj hi.1 hc r (fun d hd => ho.imp id (fun h => h d hd))
    (resolveName env st ch.ord1 r.name) ch.frev ha).2 hs
  exact ⟨hs, fun n => man_congr bs.mans n, fun n m hm l hl c h => bs.keep hm hl h⟩

/-! ## letter case -/

/-- the guard of the case-twin theorems on a pull (finding N3): `PullHandler` passes the resolved name on in
    full.  On the pinned tree it passes `DisplayShortest()`, which loses a differently-cased default host /
    namespace, and the pull lands next to the model it was resolved to (`N3_witness`). -/
def PullNameOk (env : Env) : Op → Prop
  | .pull _ _ _ => env.v.fixPullName = true
  | _ => True


theorem readable_frame (env : Env) (st : Store) (op : Op) (ch : Choice) (a : Name)
    (h : Readable (step env st op ch).1 a) : Readable st a ∨ a ∈ targets env st op ch := by
  by_cases ha : a ∈ targets env st op ch
  · exact Or.inr ha
  · obtain ⟨m, hm⟩ := h
    rw [step_man_frame env st op ch a ha] at hm
    exact Or.inl ⟨m, hm⟩

/-- the two injected operations that rewrite a manifest in place create no readable name -/
theorem readable_of_rewrite (env : Env) (st : Store) (ch : Choice) (n a : Name)
    (h : Readable (step env st (.corrupt n) ch).1 a ∨ Readable (step env st (.dashify n) ch).1 a) :
    Readable st a := by
  rcases h with ha | ha
  · rcases readable_frame env st (.corrupt n) ch a ha with h' | h'
    · exact h'
    · simp only [targets, List.mem_singleton] at h'
      subst h'
      obtain ⟨m, hm⟩ := ha
      simp only [step] at hm
      cases hs : st.man a with
      | none => rw [hs] at hm; simp only at hm; rw [hs] at hm; cases hm
      | some f =>
        rw [hs] at hm; simp only at hm
        rw [setManifest_man] at hm
        simp at hm
  · rcases readable_frame env st (.dashify n) ch a ha with h' | h'
    · exact h'
    · simp only [targets, List.mem_singleton] at h'
      subst h'
      cases hs : st.man a with
      | none =>
        obtain ⟨m, hm⟩ := ha
        simp only [step, hs] at hm
        cases hm
      | some f =>
        cases f with
        | readable m0 => exact ⟨m0, hs⟩
        | corrupt =>
          obtain ⟨m, hm⟩ := ha
          simp only [step, hs] at hm
          cases hm

/-- **No case twins, partial — pinned `getExistingName`.**  `no_case_twins` for arbitrary stores is FALSE
    (witness below).  It holds under the guard `NoMixed st` — no two readable manifests spell a fold-equal host,
    namespace, model or tag differently — and that guard is itself preserved by every API operation for every
    iteration order of the map that `getExistingName` ranges over. -/
theorem no_case_twins_partial (env : Env) (hv : env.v.fixResolve = false) (st : Store) (op : Op) (ch : Choice)
    (hapi : ApiOp op) (hpn : PullNameOk env op) (hcov : Covers st ch) (h : NoMixed st) :
    NoMixed (step env st op ch).1 ∧ NoTwins (step env st op ch).1 := by
  have hres : ∀ ord n, resolveName env st ord n = getExistingName ord n := by
    intro ord n; simp [resolveName, hv]
  have key : NoMixed (step env st op ch).1 := by
    have sub : ∀ n ord, (∀ e, e ∈ ord ↔ Readable st e) → targets env st op ch = [getExistingName ord n] →
        NoMixed (step env st op ch).1 := by
      intro n ord hord ht
      refine (h.insert_resolved ord hord n).mono (fun a ha => ?_)
      rcases readable_frame env st op ch a ha with h' | h'
      · exact Or.inl h'
      · rw [ht] at h'; exact Or.inr (by simpa using h')
    have sub0 : targets env st op ch = [] → NoMixed (step env st op ch).1 := by
      intro ht
      refine h.mono (fun a ha => ?_)
      rcases readable_frame env st op ch a ha with h' | h'
      · exact h'
      · rw [ht] at h'; cases h'
    cases op with
    | upload d c => exact sub0 rfl
    | prune => exact sub0 rfl
    | create r => exact sub r.name ch.ord1 hcov.1 (by simp [targets, hres])
    | copy s d => exact sub d ch.ord2 hcov.2 (by simp [targets, hres])
    | delete n => exact sub n ch.ord1 hcov.1 (by simp [targets, hres])
    | plant s d => exact absurd hapi (by simp [ApiOp])
    | corrupt n => exact h.mono (fun a ha => readable_of_rewrite env st ch n a (Or.inl ha))
    | dashify n => exact h.mono (fun a ha => readable_of_rewrite env st ch n a (Or.inr ha))
    | litter j c => exact sub0 rfl
    | litterBlob k c => exact sub0 rfl
    | litterMan p => exact sub0 rfl
    | pull n reg sv =>
      have : env.v.fixPullName = true := hpn
      exact sub n ch.ord1 hcov.1 (by simp [targets, hres, pullTarget, this])
  exact ⟨key, key.noTwins⟩

/-- histories of API operations whose iteration orders are orders of the actual manifest map -/
def RunOk (env : Env) : Store → List (Op × Choice) → Prop
  | _, [] => True
  | st, (op, ch) :: rest => ApiOp op ∧ PullNameOk env op ∧ Covers st ch ∧ RunOk env (step env st op ch).1 rest

/-- from the empty store, API operations alone never produce two models that differ only by case (pinned) -/
theorem reachable_no_twins (env : Env) (hv : env.v.fixResolve = false) (ops : List (Op × Choice)) (st : Store)
    (h : NoMixed st) (hr : RunOk env st ops) : NoTwins (run env st ops) := by
  induction ops generalizing st with
  | nil => exact h.noTwins
  | cons p rest ih =>
    obtain ⟨op, ch⟩ := p
    obtain ⟨h1, h1p, h2, h3⟩ := hr
    exact ih _ (no_case_twins_partial env hv st op ch h1 h1p h2 h).1 h3

theorem empty_NoMixed : NoMixed Store.empty := by
  have : ∀ a, ¬ Readable Store.empty a := by
    intro a ⟨m, hm⟩; simp [Store.empty, Store.man, aget] at hm
  exact ⟨fun a _ ha => absurd ha (this a), fun a _ ha => absurd ha (this a),
         fun a _ ha => absurd ha (this a), fun a _ ha => absurd ha (this a)⟩

/-! ## F16b repaired: no operation ever CREATES a case twin, in any store -/

/-- **No new case twins — F16b repaired, no guard.**  For EVERY store (mixed spelling allowed, twins allowed),
    every API operation and every `Choice`: two distinct readable names that differ only by letter case after
    the operation were both already there before it.  What remains: twins that exist already (legacy stores,
    manual copies) are not merged or removed by anything. -/
theorem no_new_case_twins_fixed (env : Env) (hv : env.v.fixResolve = true) (st : Store) (op : Op) (ch : Choice)
    (hapi : ApiOp op) (hpn : PullNameOk env op) (a b : Name) (ha : Readable (step env st op ch).1 a)
    (hb : Readable (step env st op ch).1 b) (hab : a.equalFold b = true) (hne : a ≠ b) :
    Readable st a ∧ Readable st b := by
  have hres : ∀ ord n, resolveName env st ord n = getExistingNameFixed st.readableNames n := by
    intro ord n; simp [resolveName, hv]
  -- operations whose target is a resolved name
  have sub : ∀ n, targets env st op ch = [getExistingNameFixed st.readableNames n] →
      Readable st a ∧ Readable st b := by
    intro n ht
    have fr : ∀ x, Readable (step env st op ch).1 x → Readable st x ∨ x = getExistingNameFixed st.readableNames n := by
      intro x hx
      rcases readable_frame env st op ch x hx with h' | h'
      · exact Or.inl h'
      · rw [ht] at h'; exact Or.inr (by simpa using h')
    rcases getExistingNameFixed_spec st.readableNames n with hin | ⟨hno, hfold⟩
    · have ht' : Readable st (getExistingNameFixed st.readableNames n) := mem_readableNames.mp hin
      exact ⟨(fr a ha).elim id (fun e => e ▸ ht'), (fr b hb).elim id (fun e => e ▸ ht')⟩
    · -- the target is new and nothing existing is fold-equal to the request
      have none_fold : ∀ x, Readable st x → x.equalFold (getExistingNameFixed st.readableNames n) = true → False := by
        intro x hx hxf
        have := hno x (mem_readableNames.mpr hx)
        rw [equalFold_trans hxf hfold] at this; cases this
      rcases fr a ha with ha' | ha' <;> rcases fr b hb with hb' | hb'
      · exact ⟨ha', hb'⟩
      · subst hb'; exact (none_fold a ha' hab).elim
      · subst ha'; exact (none_fold b hb' (equalFold_symm hab)).elim
      · exact absurd (ha'.trans hb'.symm) hne
  have sub0 : (∀ x, Readable (step env st op ch).1 x → Readable st x) → Readable st a ∧ Readable st b :=
    fun h => ⟨h a ha, h b hb⟩
  cases op with
  | upload d c =>
    exact sub0 (fun x hx => (readable_frame env st _ ch x hx).elim id (fun h => by simp [targets] at h))
  | prune =>
    exact sub0 (fun x hx => (readable_frame env st _ ch x hx).elim id (fun h => by simp [targets] at h))
  | create r => exact sub r.name (by simp [targets, hres])
  | copy s d => exact sub d (by simp [targets, hres])
  | delete n => exact sub n (by simp [targets, hres])
  | pull n reg sv =>
    have : env.v.fixPullName = true := hpn
    exact sub n (by simp [targets, hres, pullTarget, this])
  | plant s d => exact absurd hapi (by simp [ApiOp])
  | corrupt n => exact sub0 (fun x hx => readable_of_rewrite env st ch n x (Or.inl hx))
  | dashify n => exact sub0 (fun x hx => readable_of_rewrite env st ch n x (Or.inr hx))
  | litter j c =>
    exact sub0 (fun x hx => (readable_frame env st _ ch x hx).elim id (fun h => by simp [targets] at h))
  | litterBlob k c =>
    exact sub0 (fun x hx => (readable_frame env st _ ch x hx).elim id (fun h => by simp [targets] at h))
  | litterMan p =>
    exact sub0 (fun x hx => (readable_frame env st _ ch x hx).elim id (fun h => by simp [targets] at h))

/-- hence `no_case_twins` itself is an invariant of every API operation, with no spelling guard -/
theorem no_case_twins_fixed (env : Env) (hv : env.v.fixResolve = true) (st : Store) (op : Op) (ch : Choice)
    (hapi : ApiOp op) (hpn : PullNameOk env op) (h : NoTwins st) : NoTwins (step env st op ch).1 := by
  intro a b ha hb hab
  by_cases hne : a = b
  · exact hne
  · obtain ⟨ha', hb'⟩ := no_new_case_twins_fixed env hv st op ch hapi hpn a b ha hb hab hne
    exact h a b ha' hb' hab

theorem reachable_no_twins_fixed (env : Env) (hv : env.v.fixResolve = true) (ops : List (Op × Choice))
    (hapi : ∀ p ∈ ops, ApiOp p.1 ∧ PullNameOk env p.1) (st : Store) (h : NoTwins st) :
    NoTwins (run env st ops) := by
  induction ops generalizing st with
  | nil => exact h
  | cons p rest ih =>
    exact ih (fun q hq => hapi q (by simp [hq])) _
      (no_case_twins_fixed env hv st p.1 p.2 (hapi p (by simp)).1 (hapi p (by simp)).2 h)

/-! ## every listed model can be shown -/

theorem getLast?_mem {α} : ∀ (l : List α) (x : α), l.getLast? = some x → x ∈ l
  | [], _, h => by simp at h
  | [a], x, h => by simp at h; simp [h]
  | a :: b :: t, x, h => by
    have : (a :: b :: t).getLast? = (b :: t).getLast? := by simp [List.getLast?_cons_cons]
    rw [this] at h
    exact List.mem_cons_of_mem _ (getLast?_mem (b :: t) x h)

/-- **Every listed model can be shown.**  In a store that satisfies the completeness invariant and in which every
    readable manifest has a model layer naming a decodable content (`ShowInv`), `show` of every listed model
    answers 200. -/
theorem listed_can_be_shown {env : Env} (hinj : HashInj env) (st : Store) (hi : Inv env st)
    (hs : ShowInv env st) (n : Name) (hn : n ∈ listed st) : showAt env st n = "h200" := by
  obtain ⟨hb, hni, _⟩ := hi
  unfold listed at hn
  rw [List.mem_filter] at hn
  obtain ⟨hr, _⟩ := hn
  obtain ⟨m, hm⟩ := mem_readableNames.mp hr
  obtain ⟨hne, hdec⟩ := hs n m hm
  have hall : ∀ l ∈ m.all, (st.blob l.digest.key).isNone = false := by
    intro l hl
    obtain ⟨c, hc, _⟩ := hni n m hm l hl
    rw [hc]; rfl
  unfold showAt
  rw [hm]
  simp only
  rw [hall m.config (by simp [Manifest.all])]
  simp only [Bool.false_eq_true, if_false]
  have hany : (m.layers.any fun l =>
      decide (l.media = .template ∨ l.media = .system ∨ l.media = .params ∨ l.media = .license ∨
          l.media = .messages) &&
        (st.blob l.digest.key).isNone) = false := by
    rw [List.any_eq_false]
    intro l hl
    rw [hall l (by simp [Manifest.all, hl])]
    simp
  rw [hany]
  simp only [Bool.false_eq_true, if_false]
  have hml : m.layers.filter (fun l => l.media = .model) = ml m.layers := rfl
  rw [hml]
  cases hlast : (ml m.layers).getLast? with
  | none => exact absurd (List.getLast?_eq_none_iff.mp hlast) hne
  | some l =>
    simp only
    have hl := getLast?_mem _ _ hlast
    obtain ⟨c0, hc0, hg⟩ := hdec l hl
    obtain ⟨c, hc, _, hh⟩ := hni n m hm l (by simp [Manifest.all, (mem_ml.mp hl).1])
    rw [hc]
    simp only
    have : c = c0 := hinj _ _ (hh.trans hc0.symm)
    rw [this, hg]
    rfl

/-- `ShowInv` is preserved by every operation once N1 is repaired (pinned: `N1_create_continues_witness`) -/
theorem op_preserves_ShowInv {env : Env} (hv : env.v.fixReturn = true) (hinj : HashInj env)
    (hkind : ModelKinds env) (st : Store)
    (hi : Inv env st) (hs : ShowInv env st) (op : Op) (ch : Choice) (hlit : LitterOk env op) :
    ShowInv env (step env st op ch).1 :=
  step_showInv hv hinj hkind hi.1 hs op ch (by
    cases op with
    | pull n reg sv =>
      cases reg with
      | none => trivial
      | some m => exact hlit.2
    | _ => trivial)

theorem empty_ShowInv (env : Env) : ShowInv env Store.empty := by
  intro n m h; simp [Store.empty, Store.man, aget] at h

/-- **The first clause of the property, for the repaired tree, along every history.**  From any store that
    satisfies the invariants (e.g. the empty one), after any sequence of operations — uploads, creates (any
    overrides, auto-detected layers, any digest spelling), copies, deletes, startup prunes, and the injected
    plant / corrupt / dashify / litter faults (files planted under a blob name must hold that content) — every
    model that is listed has all its layers and config present with the recorded sizes and digests, and `show`
    of it answers 200.  Guard `ModelKinds`: no GGUF is an adapter / projector (`general.type`); with one, a create
    from `files` that hold nothing else is listed and cannot be shown — finding N6, `N6_witness`. -/
theorem history_listed_complete_and_shown_fixed {env : Env} (hv : env.v.fixAlias = true)
    (hk : env.v.fixKeep = true) (hr : env.v.fixReturn = true) (hinj : HashInj env) (hkind : ModelKinds env)
    (ops : List (Op × Choice))
    (hlit : ∀ p ∈ ops, LitterOk env p.1) (st : Store) (hi : Inv env st) (hs : ShowInv env st) :
    Inv env (run env st ops) ∧ ∀ n ∈ listed (run env st ops), showAt env (run env st ops) n = "h200" := by
  induction ops generalizing st with
  | nil => exact ⟨hi, fun n hn => listed_can_be_shown hinj st hi hs n hn⟩
  | cons p rest ih =>
    exact ih (fun q hq => hlit q (by simp [hq])) _
      (op_preserves_NameInv_fixed hv hk hinj st hi p.1 p.2 (hlit p (by simp)))
      (op_preserves_ShowInv hr hinj hkind st hi hs p.1 p.2 (hlit p (by simp)))

/-! ## witnesses of the defects the model shares with the code (Lean-checked) -/

/-- "GC": a GGUF whose chat template is recognised; the named template is "T", its parameters `{"a":1}` -/
def gChat : Bytes := [71, 67]
def autoT : Bytes := [84]
def autoP : Bytes := strBytes "{\"a\":1}\n"

/-- a toy world: the "hash" of a content is its text; anything that starts with 'G' is a GGUF file -/
def wEnv : Env :=
  { hash := fun c => String.ofList (c.map (fun b => Char.ofNat b.toNat))
    gguf := fun c =>
      if c = gChat then some ⟨"llama", "0", "unknown", some (autoT, some autoP), .model⟩
      else if c.head? = some 71 then some ⟨"llama", "0", "unknown", none, .model⟩ else none
    v := .pinned }

/-- the same toy world with all three repairs in -/
def rEnv : Env := { wEnv with v := .repaired }

def nm (ns m : String) : Name := ⟨"registry.ollama.ai", ns, m, "latest"⟩
def gG : Bytes := [71]
def ch0 : Choice := ⟨[], [], false⟩
def mk (n : Name) (f : Form) : Op := .create ⟨n, none, [⟨f, "G"⟩], none, none, [], [], []⟩

/-- does some readable manifest point to a blob that is not there? -/
def incompleteB (st : Store) : Bool :=
  st.names.any (fun n => match st.readableAt n with
    | some m => m.all.any (fun l => (st.blob l.digest.key).isNone)
    | none => false)

theorem not_NameInv_of_incompleteB (env : Env) (st : Store) (h : incompleteB st = true) : ¬ NameInv env st := by
  intro hi
  unfold incompleteB at h
  rw [List.any_eq_true] at h
  obtain ⟨n, _, h⟩ := h
  split at h
  · rename_i m hm
    rw [List.any_eq_true] at h
    obtain ⟨l, hl, hn⟩ := h
    obtain ⟨c, hc, _⟩ := hi n m (readableAt_eq_some.mp hm) l hl
    rw [hc] at hn; cases hn
  · cases h

/-- upload G; create a {f: "sha256:G"}; create b {f: "sha256-G"} -/
def stA : Store := run wEnv Store.empty
  [(.upload ⟨.colon, "G"⟩ gG, ch0), (mk (nm "library" "a") .colon, ch0), (mk (nm "library" "b") .dash, ch0)]

/-- **F16a, delete.**  After `delete b` the blob `a` still points to is gone and `show a` answers 404:
    `op_preserves_NameInv` and `op_frame` are false without the `Canonical` guard. -/
theorem F16a_delete_witness :
    incompleteB stA = false ∧
    let st' := (step wEnv stA (.delete (nm "library" "b")) ch0).1
    (st'.readableAt (nm "library" "a")).isSome = true ∧ st'.blob "G" = none ∧ incompleteB st' = true ∧
    showAt wEnv st' (nm "library" "a") = "h404" := by decide +kernel

theorem F16a_breaks_NameInv : ¬ NameInv wEnv (step wEnv stA (.delete (nm "library" "b")) ch0).1 :=
  not_NameInv_of_incompleteB _ _ F16a_delete_witness.2.2.2.1

/-- **F16a, startup prune.**  upload G; create b {f: "sha256-G"}; restart: the only model loses its blob
    (`prune_exact` is false without the guard). -/
theorem F16a_prune_witness :
    let st := run wEnv Store.empty [(.upload ⟨.colon, "G"⟩ gG, ch0), (mk (nm "library" "b") .dash, ch0)]
    incompleteB st = false ∧ st.keyReferenced "G" = true ∧ (pruneStartup wEnv st).1.blob "G" = none ∧
    incompleteB (pruneStartup wEnv st).1 = true := by decide +kernel

/-- a store in which two manifests spell the model part differently: library/Foo and other/foo -/
def stB : Store := run wEnv Store.empty
  [(.upload ⟨.colon, "G"⟩ gG, ch0), (mk (nm "library" "Foo") .colon, ch0),
   (.plant (nm "library" "Foo") (nm "other" "foo"), ch0)]

/-- **F16b, case twins.**  `create library/foo` with the map iterated as [library/Foo, other/foo] writes
    library/foo next to library/Foo; iterated the other way round it overwrites library/Foo.
    (`no_case_twins` is false without the `NoMixed` guard.) -/
theorem F16b_twin_witness :
    stB.readableNames = [nm "other" "foo", nm "library" "Foo"] ∧
    let o1 : Choice := ⟨[nm "library" "Foo", nm "other" "foo"], [], false⟩
    let o2 : Choice := ⟨[nm "other" "foo", nm "library" "Foo"], [], false⟩
    let s1 := (step wEnv stB (mk (nm "library" "foo") .colon) o1).1
    let s2 := (step wEnv stB (mk (nm "library" "foo") .colon) o2).1
    ((s1.readableAt (nm "library" "Foo")).isSome && (s1.readableAt (nm "library" "foo")).isSome
      && (nm "library" "Foo").equalFold (nm "library" "foo")) = true ∧
    (s2.readableAt (nm "library" "foo")).isSome = false ∧
    -- and `show library/Foo` can answer 404 for a listed model in the mixed store
    showAt wEnv stB (getExistingName o1.ord1 (nm "library" "Foo")) = "h404" := by decide +kernel

theorem F16b_breaks_NoTwins :
    ¬ NoTwins (step wEnv stB (mk (nm "library" "foo") .colon) ⟨[nm "library" "Foo", nm "other" "foo"], [], false⟩).1 := by
  intro h
  have w := F16b_twin_witness.2.1
  simp only [Bool.and_eq_true, Option.isSome_iff_exists] at w
  obtain ⟨⟨⟨m1, h1⟩, ⟨m2, h2⟩⟩, h3⟩ := w
  have := h _ _ ⟨m1, readableAt_eq_some.mp h1⟩ ⟨m2, readableAt_eq_some.mp h2⟩ h3
  exact absurd this (by decide)

/-- **N1, create goes on after the FROM error.**  create a {files}; create a from <missing>: the events are
    error then success, `a` is now a manifest without layers (listed; `show` answers 404) and its blob is gone. -/
theorem N1_create_continues_witness :
    let st := run wEnv Store.empty [(.upload ⟨.colon, "G"⟩ gG, ch0), (mk (nm "library" "a") .colon, ch0)]
    let r := step wEnv st (.create ⟨nm "library" "a", some (nm "nobody" "missing"), [], none, none, [], [], []⟩) ch0
    showAt wEnv st (nm "library" "a") = "h200" ∧ r.2 = ["e500", "s"] ∧
    ((r.1.readableAt (nm "library" "a")).map (·.layers)) = some [] ∧ r.1.blob "G" = none ∧
    (listed r.1).contains (nm "library" "a") = true ∧ showAt wEnv r.1 (nm "library" "a") = "h404" := by
  decide +kernel

/-- **N2, a dropped auto-detected layer takes an override's blob with it.**  upload "GC" (recognised chat
    template with parameters); create a {files, system := <those parameters' JSON>, parameters {b: 2}}: the
    create succeeds, `a` is listed, its system layer's blob is gone.  The request does not meet `ApartOp`;
    with N2 repaired the same request is fine. -/
theorem N2_witness :
    let st := run wEnv Store.empty [(.upload ⟨.colon, "GC"⟩ gChat, ch0)]
    let req : CreateReq := ⟨nm "library" "a", none, [⟨.colon, "GC"⟩], none, some autoP, [], [("b", "2")], []⟩
    let r := step wEnv st (.create req) ch0
    let r' := step rEnv st (.create req) ch0
    r.2 = ["s"] ∧ (listed r.1).contains (nm "library" "a") = true ∧ incompleteB r.1 = true ∧
    showAt wEnv r.1 (nm "library" "a") = "h404" ∧
    r'.2 = ["s"] ∧ incompleteB r'.1 = false ∧ showAt rEnv r'.1 (nm "library" "a") = "h200" := by
  decide +kernel

theorem N2_breaks_NameInv :
    ¬ NameInv wEnv (step wEnv (run wEnv Store.empty [(.upload ⟨.colon, "GC"⟩ gChat, ch0)])
      (.create ⟨nm "library" "a", none, [⟨.colon, "GC"⟩], none, some autoP, [], [("b", "2")], []⟩) ch0).1 :=
  not_NameInv_of_incompleteB _ _ N2_witness.2.2.1

/-- an explicit TEMPLATE equal to the auto-detected one while nothing stored references that blob (the
    history of the seeded change C04-B): fine on the real order (drop, then store) -/
theorem auto_template_override_ok :
    let st := run wEnv Store.empty [(.upload ⟨.colon, "GC"⟩ gChat, ch0)]
    let r := step wEnv st (.create ⟨nm "library" "a", none, [⟨.colon, "GC"⟩], some (autoT, true), none, [], [], []⟩) ch0
    r.2 = ["s"] ∧ incompleteB r.1 = false ∧ (r.1.blob "T").isSome = true ∧
    showAt wEnv r.1 (nm "library" "a") = "h200" := by decide +kernel

/-- **N3, a pull lands next to the model it was resolved to.**  On the empty store `create LiBRARy/foo` writes
    under `LiBRARy/` (nothing to canonicalise against).  `pull library/foo` is resolved to that model
    (repaired `getExistingName`), but `PullHandler` passes `DisplayShortest()` = "foo:latest" to `PullModel`,
    which parses it back as `library/foo`: two listed models that differ only by case.  With N3 repaired the pull
    replaces `LiBRARy/foo`. -/
theorem N3_witness :
    let env : Env := { rEnv with v := { Variant.repaired with fixPullName := false } }
    let m : Manifest := ⟨⟨.config, ⟨.colon, "C"⟩, 1⟩, [⟨.model, ⟨.colon, "G"⟩, 1⟩]⟩
    let st := run env Store.empty [(.upload ⟨.colon, "G"⟩ gG, ch0), (mk (nm "LiBRARy" "foo") .colon, ch0)]
    let pull : Op := .pull (nm "library" "foo") (some m) [("G", gG), ("C", [67])]
    let r := step env st pull ch0
    let r' := step rEnv st pull ch0
    resolveName env st [] (nm "library" "foo") = nm "LiBRARy" "foo" ∧
    ((r.1.readableAt (nm "LiBRARy" "foo")).isSome && (r.1.readableAt (nm "library" "foo")).isSome &&
      (nm "LiBRARy" "foo").equalFold (nm "library" "foo")) = true ∧
    (r'.1.readableAt (nm "library" "foo")).isSome = false ∧
    ((r'.1.readableAt (nm "LiBRARy" "foo")).map (·.config.digest.hex)) = some "C" := by decide +kernel

/-! ## the same histories with the repairs in (Lean-checked) -/

/-- F16a repaired: `create b {f: "sha256-G"}` records `sha256:G`; even a manifest respelled by hand
    (`dashify`) protects its blob from delete and from the startup prune -/
theorem F16a_repaired_witness :
    let st := run rEnv Store.empty
      [(.upload ⟨.colon, "G"⟩ gG, ch0), (mk (nm "library" "a") .colon, ch0), (mk (nm "library" "b") .dash, ch0),
       (.dashify (nm "library" "b"), ch0)]
    let s1 := (step rEnv st (.delete (nm "library" "a")) ch0).1
    let s2 := (pruneStartup rEnv s1).1
    st.referenced ⟨.colon, "G"⟩ = true ∧ s1.referenced ⟨.colon, "G"⟩ = false ∧
    s1.referenced ⟨.dash, "G"⟩ = true ∧ (s1.blob "G").isSome = true ∧ (s2.blob "G").isSome = true ∧
    incompleteB s2 = false ∧ showAt rEnv s2 (nm "library" "b") = "h200" := by decide +kernel

/-- F16b repaired: in the mixed store `create library/foo` goes to library/Foo whatever the `Choice` says -/
theorem F16b_repaired_witness :
    let stB' := run rEnv Store.empty
      [(.upload ⟨.colon, "G"⟩ gG, ch0), (mk (nm "library" "Foo") .colon, ch0),
       (.plant (nm "library" "Foo") (nm "other" "foo"), ch0)]
    let o1 : Choice := ⟨[nm "library" "Foo", nm "other" "foo"], [], false⟩
    let s1 := (step rEnv stB' (mk (nm "library" "foo") .colon) o1).1
    (s1.readableAt (nm "library" "foo")).isSome = false ∧ (s1.readableAt (nm "library" "Foo")).isSome = true ∧
    showAt rEnv stB' (resolveName rEnv stB' o1.ord1 (nm "library" "Foo")) = "h200" := by decide +kernel

/-- N1 repaired: the failed create reports only the error and `a` is as it was -/
theorem N1_repaired_witness :
    let st := run rEnv Store.empty [(.upload ⟨.colon, "G"⟩ gG, ch0), (mk (nm "library" "a") .colon, ch0)]
    let r := step rEnv st (.create ⟨nm "library" "a", some (nm "nobody" "missing"), [], none, none, [], [], []⟩) ch0
    r.2 = ["e500"] ∧ r.1.man (nm "library" "a") = st.man (nm "library" "a") ∧
    (r.1.blob "G").isSome = true ∧ showAt rEnv r.1 (nm "library" "a") = "h200" := by decide +kernel

/-- a directory with the classes of non-blob file names: a referenced blob "G", an orphan, a leftover
    `…-partial`, a part record, a temp file, a malformed name and a colon-named non-digest -/
def stW : Store := run wEnv Store.empty
  [(.upload ⟨.colon, "G"⟩ gG, ch0), (mk (nm "library" "a") .colon, ch0),
   (.litter (.plain "sha256-ab-partial") [1], ch0), (.litter (.plain "sha256-ab-partial-0") [2], ch0),
   (.litter (.plain "sha256-123456789") [3], ch0), (.litter (.plain "junk.txt") [4], ch0),
   (.litter (.colon "ab-partial") [5], ch0), (.litterBlob "orphan" [7], ch0)]

/-- the startup sequence on it (non-vacuity of `prune_exact`): the referenced blob stays; every other file goes,
    whatever its name; `fixBlobs` renames the colon-named file first (it is then removed like the others) -/
theorem prune_classes_witness :
    stW.junk.length = 5 ∧ (pruneStartup wEnv stW).2 = ["ok"] ∧ (pruneStartup wEnv stW).1.junk = [] ∧
    (pruneStartup wEnv stW).1.blobs.length = 2 ∧ ((pruneStartup wEnv stW).1.blob "G").isSome = true ∧
    (pruneStartup wEnv stW).1.blob "orphan" = none ∧
    (fixBlobs stW).junk.map (fun p => p.1.str) =
      ["sha256-ab-partial", "junk.txt", "sha256-123456789", "sha256-ab-partial-0"] ∧
    incompleteB (pruneStartup wEnv stW).1 = false := by decide +kernel

/-- pull: the verify loop refuses a corrupted CONFIG (and leaves the already verified weights as an orphan);
    the honest registry's manifest is installed and complete; a blob that is already in the store is a cache
    hit and is not fetched at all (the corrupted bytes are never seen) -/
theorem pull_witness :
    let m : Manifest := ⟨⟨.config, ⟨.colon, "C"⟩, 1⟩, [⟨.model, ⟨.colon, "G"⟩, 1⟩]⟩
    let bad := step wEnv Store.empty (.pull (nm "library" "p") (some m) [("G", gG), ("C", [88])]) ch0
    let good := step wEnv bad.1 (.pull (nm "library" "p") (some m) [("G", [88]), ("C", [67])]) ch0
    bad.2 = ["e500"] ∧ (bad.1.readableAt (nm "library" "p")).isNone = true ∧ (bad.1.blob "G").isSome = true ∧
    bad.1.blob "C" = none ∧
    good.2 = ["s"] ∧ incompleteB good.1 = false ∧ (listed good.1).contains (nm "library" "p") = true ∧
    showAt wEnv good.1 (nm "library" "p") = "h200" := by decide +kernel

/-! ## non-vacuity -/

/-- the hypotheses of the guarded theorems are met by a non-trivial reachable store (two models sharing a
    blob, one made from the other with an overridden system prompt), and the toy hash is injective on it -/
example :
    let st := run wEnv Store.empty
      [(.upload ⟨.colon, "G"⟩ gG, ch0), (mk (nm "library" "a") .colon, ch0),
       (.copy (nm "library" "a") (nm "library" "c"), ch0),
       (.create ⟨nm "library" "a", some (nm "library" "a"), [], none, some [83], [], [], []⟩, ch0)]
    incompleteB st = false ∧ st.readableNames.length = 2 ∧ st.keyReferenced "G" = true ∧
    (st.blob "S").isSome = true := by decide +kernel


theorem charOfU8_inj (x y : UInt8) (h : Char.ofNat x.toNat = Char.ofNat y.toNat) : x = y := by
  have hx : x.toNat < 256 := x.toNat_lt
  have hy : y.toNat < 256 := y.toNat_lt
  have h2 := congrArg Char.toNat h
  have vx : x.toNat.isValidChar := Or.inl (by omega)
  have vy : y.toNat.isValidChar := Or.inl (by omega)
  simp only [Char.ofNat, vx, vy, dif_pos, Char.toNat, Char.ofNatAux] at h2
  apply UInt8.toNat_inj.mp
  simpa [UInt32.toNat_ofNatLT] using h2

theorem map_inj {α β} (f : α → β) (hf : ∀ x y, f x = f y → x = y) : ∀ (a b : List α), a.map f = b.map f → a = b
  | [], [], _ => rfl
  | [], _ :: _, h => by simp at h
  | _ :: _, [], h => by simp at h
  | x :: a, y :: b, h => by
    simp only [List.map_cons, List.cons.injEq] at h
    rw [hf x y h.1, map_inj f hf a b h.2]

theorem textHash_inj (a b : Bytes)
    (h : String.ofList (a.map (fun x => Char.ofNat x.toNat)) = String.ofList (b.map (fun x => Char.ofNat x.toNat))) :
    a = b := by
  have h' := congrArg String.toList h
  simp only [String.toList_ofList] at h'
  exact map_inj _ (fun x y hxy => charOfU8_inj x y hxy) a b h'

theorem wEnv_inj : HashInj wEnv := fun a b h => textHash_inj a b h

/-- …and the propositional hypotheses themselves (`HashInj`, `Canonical`, `Inv`) hold for that store -/
example :
    let st := run wEnv Store.empty
      [(.upload ⟨.colon, "G"⟩ gG, ch0), (mk (nm "library" "a") .colon, ch0),
       (.copy (nm "library" "a") (nm "library" "c"), ch0),
       (.create ⟨nm "library" "a", some (nm "library" "a"), [], none, some [83], [], [], []⟩, ch0)]
    HashInj wEnv ∧ Inv wEnv st ∧ Canonical st := by
  exact ⟨wEnv_inj, history_preserves_Inv rfl wEnv_inj _ _ (runGuard_of_B _ _ (by decide +kernel))
    (empty_Inv wEnv).2 (empty_Inv wEnv).1⟩

/-- the guard `ApartOp` is met by creates WITH auto-detected layers too (here: an explicit template equal to
    the auto-detected one, and a re-create over it), and refuses exactly the N2 request -/
example :
    let ok : List (Op × Choice) :=
      [(.upload ⟨.colon, "GC"⟩ gChat, ch0),
       (.create ⟨nm "library" "a", none, [⟨.colon, "GC"⟩], some (autoT, true), none, [], [], []⟩, ch0),
       (.create ⟨nm "library" "a", none, [⟨.colon, "GC"⟩], none, some autoT, [[77]], [("b", "2")], []⟩, ch0)]
    let bad : List (Op × Choice) :=
      [(.upload ⟨.colon, "GC"⟩ gChat, ch0),
       (.create ⟨nm "library" "a", none, [⟨.colon, "GC"⟩], none, some autoP, [], [("b", "2")], []⟩, ch0)]
    runGuardB wEnv Store.empty ok = true ∧ incompleteB (run wEnv Store.empty ok) = false ∧
    runGuardB wEnv Store.empty bad = false ∧ runGuardB rEnv Store.empty bad = true := by decide +kernel

/-! ## Round 7: the frame property along histories; OLLAMA_NOPRUNE; MESSAGE layers -/

/-- `n` is not the (resolved) target of any operation of the history -/
def Untargeted (env : Env) (n : Name) : Store → List (Op × Choice) → Prop
  | _, [] => True
  | st, (op, ch) :: rest => n ∉ targets env st op ch ∧ Untargeted env n (step env st op ch).1 rest

/-- **Operations on other models never damage this one — along every history (repaired tree).** -/
theorem history_frame_fixed {env : Env} (hv : env.v.fixAlias = true) (hk : env.v.fixKeep = true)
    (hinj : HashInj env) (ops : List (Op × Choice)) (hlit : ∀ p ∈ ops, LitterOk env p.1) (st : Store)
    (hi : Inv env st) (n : Name) (hu : Untargeted env n st ops) :
    (run env st ops).man n = st.man n ∧
    ∀ m, st.man n = some (.readable m) → ∀ l ∈ m.all, ∀ c,
      st.blob l.digest.key = some c → (run env st ops).blob l.digest.key = some c := by
  induction ops generalizing st with
  | nil => exact ⟨rfl, fun _ _ _ _ _ h => h⟩
  | cons p rest ih =>
    obtain ⟨op, ch⟩ := p
    obtain ⟨hn, hu'⟩ := hu
    have hl0 : LitterOk env op := hlit (op, ch) (by simp)
    have hi' := op_preserves_NameInv_fixed hv hk hinj st hi op ch hl0
    obtain ⟨f1, f2⟩ := op_frame_fixed hv hk hinj st hi op ch hl0 n hn
    obtain ⟨g1, g2⟩ := ih (fun q hq => hlit q (by simp [hq])) _ hi' hu'
    refine ⟨g1.trans f1, fun m hm l hl c hc => ?_⟩
    exact g2 m (f1.trans hm) l hl c (f2 m hm l hl c hc)

/-- the download loop never removes or replaces a blob that was there -/
theorem pullLayers_blob_mono (env : Env) (served : List (String × Bytes)) (ls : List Layer) (st : Store)
    (k : String) (c : Bytes) (h : st.blob k = some c) : (pullLayers env st served ls).1.blob k = some c := by
  induction ls generalizing st with
  | nil => exact h
  | cons l t ih =>
    simp only [pullLayers]
    cases hc : st.blob l.digest.key with
    | some c0 => exact ih st h
    | none =>
      simp only
      cases hs : aget served l.digest.hex with
      | none => exact h
      | some c1 =>
        simp only
        split
        · apply ih
          rw [blob_aset]
          by_cases hk : k = l.digest.key
          · rw [hk, hc] at h; cases h
          · simp [hk, h]
        · exact h

/-- **OLLAMA_NOPRUNE: a pull deletes nothing.**  Whatever the registry serves, every blob file that was in the
    store is still there with the same bytes afterwards (the layers of the replaced manifest included). -/
theorem pull_noPrune_keeps_every_blob (env : Env) (hnp : env.noPrune = true) (st : Store) (name : Name)
    (reg : Option Manifest) (served : List (String × Bytes)) :
    ∀ k c, st.blob k = some c → (pullAt env st name reg served).1.blob k = some c := by
  intro k c hkc
  unfold pullAt
  cases reg with
  | none => exact hkc
  | some m =>
    simp only
    have h1 := pullLayers_blob_mono env served m.all st k c hkc
    cases hpl : pullLayers env st served m.all with
    | mk st1 ok =>
      rw [hpl] at h1
      simp only at h1
      cases ok with
      | false => exact h1
      | true =>
        simp only
        cases st.readableAt name with
        | none => exact h1
        | some mo => simp only [gcOld, hnp, if_true]; exact h1

/-- **OLLAMA_NOPRUNE: the start-up sequence is `fixBlobs` only** — no blob file, no leftover and no directory is
    removed, whatever the manifests look like. -/
theorem startup_noPrune (env : Env) (hnp : env.noPrune = true) (st : Store) :
    pruneStartup env st = (fixBlobs st, ["ok"]) := by
  unfold pruneStartup; simp [hnp]

/-- **OLLAMA_NOPRUNE: a create that replaces a model leaves the replaced manifest's layers alone**: after the
    new manifest is written nothing more is removed (what `removeLayer` of create.go dropped before that is not
    governed by the switch). -/
theorem gcOld_noPrune (env : Env) (hnp : env.noPrune = true) (st : Store) (ls : List Layer) :
    gcOld env st ls = st := by
  unfold gcOld; simp [hnp]


/-- the repaired toy world with OLLAMA_NOPRUNE set -/
def npEnv : Env := { rEnv with noPrune := true }

/-- re-create `a` from another file, litter, start-up sequence: with OLLAMA_NOPRUNE the replaced weights and the
    leftover file stay (and the model is complete); without it the same history removes both -/
theorem noPrune_witness :
    let ops : List (Op × Choice) :=
      [(.upload ⟨.colon, "G"⟩ gG, ch0), (.upload ⟨.colon, "GH"⟩ [71, 72], ch0), (mk (nm "library" "a") .colon, ch0),
       (.create ⟨nm "library" "a", none, [⟨.colon, "GH"⟩], none, none, [], [], []⟩, ch0),
       (.litter (.plain "sha256-ab-partial") [1], ch0), (.prune, ch0)]
    let np := run npEnv Store.empty ops
    let pr := run rEnv Store.empty ops
    (np.blob "G").isSome = true ∧ (np.blob "GH").isSome = true ∧ np.junk.length = 1 ∧ incompleteB np = false ∧
    pr.blob "G" = none ∧ (pr.blob "GH").isSome = true ∧ pr.junk = [] ∧ incompleteB pr = false := by decide +kernel

/-- MESSAGE: `create a` with a message (role lower-cased by the request decoder), a copy `c`, then `create a from a`
    with another message: the old messages blob stays while `c` uses it and goes with `c`; every listed model is
    complete and can be shown throughout -/
theorem messages_witness :
    let m1 : Bytes := encodeMessages [("User", "hi")]
    let c1 : Op := .create ⟨nm "library" "a", none, [⟨.colon, "G"⟩], none, none, [], [], [("User", "hi")]⟩
    let c2 : Op := .create ⟨nm "library" "a", some (nm "library" "a"), [], none, none, [], [], [("user", "yo")]⟩
    let s1 := run rEnv Store.empty [(.upload ⟨.colon, "G"⟩ gG, ch0), (c1, ch0), (.copy (nm "library" "a") (nm "library" "c"), ch0)]
    let s2 := run rEnv s1 [(c2, ch0)]
    let s3 := run rEnv s2 [(.delete (nm "library" "c"), ch0)]
    m1 = strBytes "[{\"role\":\"user\",\"content\":\"hi\"}]\n" ∧
    (s1.blob (rEnv.hash m1)).isSome = true ∧ (s2.blob (rEnv.hash m1)).isSome = true ∧ s3.blob (rEnv.hash m1) = none ∧
    incompleteB s1 = false ∧ incompleteB s2 = false ∧ incompleteB s3 = false ∧
    ((s2.readableAt (nm "library" "a")).map (fun m => (m.layers.filter (fun l => l.media = .messages)).length)) = some 1 ∧
    showAt rEnv s2 (nm "library" "a") = "h200" ∧ showAt rEnv s2 (nm "library" "c") = "h200" ∧
    showAt rEnv s3 (nm "library" "a") = "h200" := by decide +kernel

/-- non-vacuity of `history_frame_fixed`: `c` is targeted by no operation of a history that re-creates and then
    deletes the model it was copied from — and its manifest and blobs are indeed the same at the end -/
example :
    let st0 := run rEnv Store.empty
      [(.upload ⟨.colon, "G"⟩ gG, ch0), (mk (nm "library" "a") .colon, ch0),
       (.copy (nm "library" "a") (nm "library" "c"), ch0)]
    let ops : List (Op × Choice) :=
      [(.create ⟨nm "library" "a", some (nm "library" "a"), [], none, some [83], [], [], [("user", "hi")]⟩, ch0),
       (.delete (nm "library" "a"), ch0), (.prune, ch0)]
    Untargeted rEnv (nm "library" "c") st0 ops ∧ (run rEnv st0 ops).man (nm "library" "c") = st0.man (nm "library" "c") ∧
    ((run rEnv st0 ops).blob "G").isSome = true ∧ (run rEnv st0 ops).readableNames.length = 1 := by
  refine ⟨⟨by decide +kernel, by decide +kernel, by decide +kernel, trivial⟩, by decide +kernel, by decide +kernel,
    by decide +kernel⟩

/-! ### what each operation does to its OWN target (the manifest-level specification) -/

/-- a copy that answers 200 leaves at the destination exactly the source's manifest file -/
theorem copy_spec (st : Store) (s d : Name) (h : (copyAt st s d).2 = ["h200"]) :
    (copyAt st s d).1.man d = st.man s ∧ (st.man s).isSome = true ∨ s = d := by
  unfold copyAt at h ⊢
  by_cases hsd : s = d
  · exact Or.inr hsd
  · simp only [hsd, if_false] at h ⊢
    cases hm : st.man s with
    | none => rw [hm] at h; simp at h
    | some f =>
      simp only
      exact Or.inl ⟨by rw [setManifest_man]; simp, rfl⟩

/-- a delete that answers 200 removes the target's manifest (and the model is no longer listed) -/
theorem delete_spec (env : Env) (st : Store) (t : Name) (h : (deleteAt env st t).2 = ["h200"]) :
    (deleteAt env st t).1.man t = none := by
  unfold deleteAt at h ⊢
  cases hm : st.man t with
  | none => rw [hm] at h; simp at h
  | some f =>
    cases f with
    | corrupt => rw [hm] at h; simp at h
    | readable m =>
      simp only
      rw [man_congr (removeLayers_mans _ _ _)]
      show (delManifest st t).man t = none
      rw [delManifest_man]; simp

/-- a pull that ends in success leaves at the target exactly the manifest the registry served -/
theorem pull_spec (env : Env) (st : Store) (t : Name) (reg : Option Manifest) (served : List (String × Bytes))
    (h : "s" ∈ (pullAt env st t reg served).2) :
    ∃ m, reg = some m ∧ (pullAt env st t reg served).1.man t = some (.readable m) := by
  unfold pullAt at h ⊢
  cases reg with
  | none => simp at h
  | some m =>
    refine ⟨m, rfl, ?_⟩
    simp only at h ⊢
    cases hpl : pullLayers env st served m.all with
    | mk st1 ok =>
      rw [hpl] at h
      cases ok with
      | false => simp at h
      | true =>
        simp only
        cases st.readableAt t with
        | none => simp only; rw [setManifest_man]; simp
        | some mo => simp only; rw [man_congr (gcOld_mans _ _ _), setManifest_man]; simp

/-- a create that ends in success leaves a readable manifest at the target whose model layers are those of the
    base list (the FROM model's, or one per file) — N1 repaired -/
theorem create_spec {env : Env} (hv : env.v.fixReturn = true) (st : Store) (r : CreateReq) (name : Name)
    (frev : Bool) (h : "s" ∈ (createAt env st r name frev).2) :
    ∃ m base, (baseLayers env st r frev).2.1 = some base ∧
      (createAt env st r name frev).1.man name = some (.readable m) ∧ ml m.layers = ml (base.map (·.1)) := by
  obtain ⟨e1, e2⟩ := baseLayers_events hv st r frev
  unfold createAt at h ⊢
  simp only at h ⊢
  cases hbl : baseLayers env st r frev with
  | mk st0 rest =>
    obtain ⟨ob, ev⟩ := rest
    rw [hbl] at h e1 e2
    simp only at h e1 e2 ⊢
    cases ob with
    | none => exact absurd h (e2 rfl)
    | some base =>
      simp only at h ⊢
      cases hcm : createModel env st0 name base r with
      | mk st1 o =>
        rw [hcm] at h
        cases o with
        | some err =>
          simp only [e1 rfl, List.nil_append, List.mem_singleton] at h
          exact absurd h.symm (createModel_err (by rw [hcm]))
        | none =>
          obtain ⟨m, hm, hml⟩ := createModel_manifest env st0 name base r (by rw [hcm])
          rw [hcm] at hm
          simp only at hm
          refine ⟨m, base, rfl, ?_, hml⟩
          simp only
          cases st.readableAt name with
          | none => exact hm
          | some mo => simp only; rw [man_congr (gcOld_mans _ _ _)]; exact hm

/-- non-vacuity of the four specification theorems on one history -/
example :
    let s0 := run rEnv Store.empty [(.upload ⟨.colon, "G"⟩ gG, ch0)]
    let c := createAt rEnv s0 ⟨nm "library" "a", none, [⟨.colon, "G"⟩], none, none, [], [], []⟩ (nm "library" "a") false
    let cp := copyAt c.1 (nm "library" "a") (nm "library" "c")
    let d := deleteAt rEnv cp.1 (nm "library" "a")
    let m : Manifest := ⟨⟨.config, ⟨.colon, "C"⟩, 1⟩, [⟨.model, ⟨.colon, "G"⟩, 1⟩]⟩
    let p := pullAt rEnv d.1 (nm "library" "c") (some m) [("C", [67])]
    "s" ∈ c.2 ∧ cp.2 = ["h200"] ∧ d.2 = ["h200"] ∧ "s" ∈ p.2 ∧ (p.1.blob "G").isSome = true := by decide +kernel


/-! ## Round 7 (review): the request-level frame property, non-vacuity on the repaired tree, the size guard -/


theorem equalFold_refl (n : Name) : n.equalFold n = true := by
  rw [equalFold_iff]; exact ⟨rfl, rfl, rfl, rfl⟩

/-- the repaired `getExistingName` answers with a name that differs from the requested one by letter case only -/
theorem getExistingNameFixed_equalFold (es : List Name) (n : Name) :
    (getExistingNameFixed es n).equalFold n = true := by
  unfold getExistingNameFixed
  split
  · exact equalFold_refl n
  · simp only
    split
    · rename_i e he
      have := List.find?_some he
      exact this
    · rw [equalFold_iff]
      exact ⟨firstPart_lower _ _ _, firstPart_lower _ _ _, firstPart_lower _ _ _, firstPart_lower _ _ _⟩

/-- so does the pinned fold, for every iteration order -/
theorem getExistingName_equalFold (ord : List Name) (n : Name) : (getExistingName ord n).equalFold n = true := by
  obtain ⟨h1, h2, h3, h4⟩ := getExistingName_parts ord n
  rw [equalFold_iff, h1, h2, h3, h4]
  exact ⟨(resolvePart_spec _ ord _).1, (resolvePart_spec _ ord _).1, (resolvePart_spec _ ord _).1,
    (resolvePart_spec _ ord _).1⟩

/-- **The name an operation works on is the requested name up to letter case** (both variants of
    `getExistingName`, every iteration order). -/
theorem resolveName_equalFold (env : Env) (st : Store) (ord : List Name) (n : Name) :
    (resolveName env st ord n).equalFold n = true := by
  unfold resolveName
  split
  · exact getExistingNameFixed_equalFold _ n
  · exact getExistingName_equalFold ord n

/-- `ParseModelPath(name.DisplayShortest())` changes letter case only -/
theorem displayReparse_equalFold (n : Name) : (displayReparse n).equalFold n = true := by
  unfold displayReparse
  split
  · rename_i h
    rw [equalFold_iff]
    refine ⟨((foldEq_iff _ _).mp h).symm, ?_, rfl, rfl⟩
    simp only
    split
    · rename_i h2; exact ((foldEq_iff _ _).mp h2).symm
    · rfl
  · exact equalFold_refl n

theorem pullTarget_equalFold (env : Env) (n : Name) : (pullTarget env n).equalFold n = true := by
  unfold pullTarget
  split
  · exact equalFold_refl n
  · exact displayReparse_equalFold n

/-- the name(s) IN THE REQUEST that an operation may write -/
def requested : Op → List Name
  | .create r => [r.name]
  | .copy _ d => [d]
  | .delete n => [n]
  | .pull n _ _ => [n]
  | .plant _ d => [d]
  | .corrupt n => [n]
  | .dashify n => [n]
  | _ => []

/-- every target of an operation is fold-equal to a name in the request -/
theorem targets_equalFold (env : Env) (st : Store) (op : Op) (ch : Choice) :
    ∀ t ∈ targets env st op ch, ∃ q ∈ requested op, t.equalFold q = true := by
  intro t ht
  cases op <;> simp only [targets, List.mem_singleton, List.not_mem_nil] at ht
  all_goals subst ht
  · exact ⟨_, by simp [requested], resolveName_equalFold env st _ _⟩
  · exact ⟨_, by simp [requested], resolveName_equalFold env st _ _⟩
  · exact ⟨_, by simp [requested], resolveName_equalFold env st _ _⟩
  · exact ⟨_, by simp [requested], equalFold_trans (pullTarget_equalFold env _) (resolveName_equalFold env st _ _)⟩
  · exact ⟨_, by simp [requested], equalFold_refl _⟩
  · exact ⟨_, by simp [requested], equalFold_refl _⟩
  · exact ⟨_, by simp [requested], equalFold_refl _⟩

/-- **Operations on one model never damage another — stated on the REQUEST.**  A model whose name is not, up to
    letter case, a name the request may write (create: the model; copy: the destination; delete / pull: the
    model) keeps its manifest file and every blob it points to, whatever `getExistingName` resolves to. -/
theorem op_frame_request_fixed {env : Env} (hv : env.v.fixAlias = true) (hk : env.v.fixKeep = true)
    (hinj : HashInj env) (st : Store) (hi : Inv env st) (op : Op) (ch : Choice) (hlit : LitterOk env op)
    (n : Name) (hn : ∀ q ∈ requested op, n.equalFold q = false) :
    (step env st op ch).1.man n = st.man n ∧
    ∀ m, st.man n = some (.readable m) → ∀ l ∈ m.all, ∀ c,
      st.blob l.digest.key = some c → (step env st op ch).1.blob l.digest.key = some c := by
  apply op_frame_fixed hv hk hinj st hi op ch hlit n
  intro hmem
  obtain ⟨q, hq, he⟩ := targets_equalFold env st op ch n hmem
  rw [hn q hq] at he
  cases he



/-- the registry manifest of `pull_witness`: weights "G" and a config "C", truthful sizes -/
def regM : Manifest := ⟨⟨.config, ⟨.colon, "C"⟩, 1⟩, [⟨.model, ⟨.colon, "G"⟩, 1⟩]⟩

theorem rEnv_inj : HashInj rEnv := fun a b h => textHash_inj a b h

/-- the toy world has no adapter / projector GGUF -/
theorem rEnv_kinds : ModelKinds rEnv := by
  intro c mt h
  simp only [rEnv, wEnv] at h
  split at h
  · injection h with e; subst e; rfl
  · split at h
    · injection h with e; subst e; rfl
    · cases h

/-- the repaired toy world plus adapter GGUFs: anything that starts with 'A' decodes with `general.type = adapter` -/
def aEnv : Env :=
  { rEnv with gguf := fun c => if c.head? = some 65 then some ⟨"llama", "0", "unknown", none, .adapter⟩ else rEnv.gguf c }

/-- **N6.**  `create a` from `files` that hold only an adapter GGUF answers success, the model is listed, complete
    — and `show` answers 404 (no model layer): "every listed model can be shown" fails by API operations alone.
    The same request with a model GGUF next to the adapter can be shown. -/
theorem N6_witness :
    let s0 := run aEnv Store.empty [(.upload ⟨.colon, "A"⟩ [65], ch0), (.upload ⟨.colon, "G"⟩ gG, ch0)]
    let bad := step aEnv s0 (.create ⟨nm "library" "a", none, [⟨.colon, "A"⟩], none, none, [], [], []⟩) ch0
    let ok := step aEnv s0 (.create ⟨nm "library" "b", none, [⟨.colon, "G"⟩, ⟨.colon, "A"⟩], none, none, [], [], []⟩) ch0
    bad.2 = ["s"] ∧ (listed bad.1).contains (nm "library" "a") = true ∧ incompleteB bad.1 = false ∧
    showAt aEnv bad.1 (nm "library" "a") = "h404" ∧
    ((bad.1.readableAt (nm "library" "a")).map (fun m => m.layers.map (·.media))) = some [.adapter] ∧
    ok.2 = ["s"] ∧ showAt aEnv ok.1 (nm "library" "b") = "h200" ∧ ¬ ModelKinds aEnv := by
  refine ⟨by decide +kernel, by decide +kernel, by decide +kernel, by decide +kernel, by decide +kernel,
    by decide +kernel, by decide +kernel, fun h => ?_⟩
  have := h [65] ⟨"llama", "0", "unknown", none, .adapter⟩ (by decide)
  cases this

/-- the guard on a pull (`PullOk ∧ PullShowOk`) is satisfiable: the honest registry of `pull_witness` -/
theorem litterOk_pull_witness :
    LitterOk rEnv (.pull (nm "library" "p") (some regM) [("G", gG), ("C", [67])]) := by
  refine ⟨⟨by decide, ?_⟩, by decide, ?_⟩
  · intro l hl c hc
    simp only [regM, Manifest.all, List.cons_append, List.nil_append, List.mem_cons, List.not_mem_nil,
      or_false] at hl
    rcases hl with rfl | rfl
    · have : c = gG := rEnv_inj c gG (by rw [hc]; decide)
      subst this; rfl
    · have : c = [67] := rEnv_inj c [67] (by rw [hc]; decide)
      subst this; rfl
  · intro l hl
    have : l = ⟨.model, ⟨.colon, "G"⟩, 1⟩ := by
      simpa [regM, ml] using hl
    subst this
    exact ⟨gG, by decide, by decide⟩

/-- a five-operation history with an upload, a create, a SUCCESSFUL pull over another name, a re-create from the
    pulled model and a delete: the hypotheses of `history_listed_complete_and_shown_fixed` (and of
    `history_preserves_Inv_fixed`, `history_frame_fixed`) are met, from the empty store -/
def histP : List (Op × Choice) :=
  [(.upload ⟨.colon, "G"⟩ gG, ch0), (mk (nm "library" "a") .colon, ch0),
   (.pull (nm "library" "p") (some regM) [("G", gG), ("C", [67])], ch0),
   (.create ⟨nm "library" "a", some (nm "library" "p"), [], none, some [83], [], [], [("user", "hi")]⟩, ch0),
   (.delete (nm "library" "p"), ch0)]

theorem histP_guard : ∀ p ∈ histP, LitterOk rEnv p.1 := by
  intro p hp
  simp only [histP, List.mem_cons, List.not_mem_nil, or_false] at hp
  rcases hp with rfl | rfl | rfl | rfl | rfl
  · trivial
  · trivial
  · exact litterOk_pull_witness
  · trivial
  · trivial

/-- **non-vacuity of the history theorems on the repaired tree**: instantiated on `histP` from the empty store —
    and the result is not trivial: one model is listed at the end, it can be shown, the pull succeeded -/
theorem history_listed_shown_instance :
    (Inv rEnv (run rEnv Store.empty histP) ∧
      ∀ n ∈ listed (run rEnv Store.empty histP), showAt rEnv (run rEnv Store.empty histP) n = "h200") ∧
    listed (run rEnv Store.empty histP) = [nm "library" "a"] ∧
    (step rEnv (run rEnv Store.empty (histP.take 2)) (histP.getD 2 (.prune, ch0)).1 ch0).2 = ["s"] :=
  ⟨history_listed_complete_and_shown_fixed rfl rfl rfl rEnv_inj rEnv_kinds histP histP_guard Store.empty
    (empty_Inv rEnv).1 (empty_ShowInv rEnv), by decide +kernel, by decide +kernel⟩

/-- **the `PullOk` guard is needed (sizes)**: nothing in `PullModel` compares the sizes a registry manifest
    states with what was downloaded — a registry that states a wrong size for honest bytes leaves a listed
    model whose manifest records a size the blob does not have (the digest is right, `show` answers 200) -/
theorem pull_size_witness :
    let lying : Manifest := ⟨⟨.config, ⟨.colon, "C"⟩, 1⟩, [⟨.model, ⟨.colon, "G"⟩, 7⟩]⟩
    let r := step rEnv Store.empty (.pull (nm "library" "p") (some lying) [("G", gG), ("C", [67])]) ch0
    r.2 = ["s"] ∧ (listed r.1).contains (nm "library" "p") = true ∧ showAt rEnv r.1 (nm "library" "p") = "h200" ∧
    (r.1.readableAt (nm "library" "p")).map (fun m => m.layers.map (fun l => (l.size, (r.1.blob l.digest.key).map List.length)))
      = some [(7, some 1)] := by decide +kernel

theorem pull_size_breaks_NameInv :
    ¬ NameInv rEnv (step rEnv Store.empty (.pull (nm "library" "p")
      (some ⟨⟨.config, ⟨.colon, "C"⟩, 1⟩, [⟨.model, ⟨.colon, "G"⟩, 7⟩]⟩) [("G", gG), ("C", [67])]) ch0).1 := by
  intro h
  have hm : (step rEnv Store.empty (.pull (nm "library" "p")
      (some ⟨⟨.config, ⟨.colon, "C"⟩, 1⟩, [⟨.model, ⟨.colon, "G"⟩, 7⟩]⟩) [("G", gG), ("C", [67])]) ch0).1.man
      (nm "library" "p") = some (.readable ⟨⟨.config, ⟨.colon, "C"⟩, 1⟩, [⟨.model, ⟨.colon, "G"⟩, 7⟩]⟩) := by
    decide +kernel
  obtain ⟨c, hc, hsz, _⟩ := h _ _ hm ⟨.model, ⟨.colon, "G"⟩, 7⟩ (by simp [Manifest.all])
  have hb : (step rEnv Store.empty (.pull (nm "library" "p")
      (some ⟨⟨.config, ⟨.colon, "C"⟩, 1⟩, [⟨.model, ⟨.colon, "G"⟩, 7⟩]⟩) [("G", gG), ("C", [67])]) ch0).1.blob "G"
      = some gG := by decide +kernel
  simp only [Digest.key] at hc
  rw [hb] at hc
  injection hc with e
  subst e
  simp [gG] at hsz


/-- `failed_create_changes_nothing_fixed` with every guard discharged by the repairs: on the repaired tree a
    create that reports an error changes no manifest and removes no referenced blob — no hypothesis on the store
    beyond the invariant -/
theorem failed_create_changes_nothing_repaired {env : Env} (hv : env.v.fixReturn = true)
    (ha : env.v.fixAlias = true) (hk : env.v.fixKeep = true) (hinj : HashInj env) (st : Store) (hi : Inv env st)
    (r : CreateReq) (ch : Choice) (hfail : ∃ e ∈ (step env st (.create r) ch).2, e ≠ "s") :
    "s" ∉ (step env st (.create r) ch).2 ∧
    (∀ n, (step env st (.create r) ch).1.man n = st.man n) ∧
    ∀ n m, st.man n = some (.readable m) → ∀ l ∈ m.all, ∀ c,
      st.blob l.digest.key = some c → (step env st (.create r) ch).1.blob l.digest.key = some c :=
  failed_create_changes_nothing_fixed hv hinj st (Or.inl ha) hi r (Or.inl ha) ch
    (apartOp_of_fixKeep hk st (.create r) ch) hfail

/-- **N4 (pinned `CreateHandler`).**  `foo` is stored; `create b from FOO`: `parseFromModel` looks for the
    manifest of `FOO` as written, finds none, pulls `FOO` (the registry serves it) and builds `b` on it — two
    listed models that differ only by letter case, made by API operations alone (in the model: `pullAt` on the
    unresolved FROM name followed by `createAt`, which is how the oracle computes this request).  Repaired
    (`proposed_fixes/C04-N4.patch`): the FROM name goes through `getExistingName` first and resolves to `foo`,
    which is in the store, so nothing is pulled. -/
theorem N4_from_pull_witness :
    let s0 := run rEnv Store.empty [(.upload ⟨.colon, "G"⟩ gG, ch0), (mk (nm "library" "foo") .colon, ch0)]
    let p := pullAt rEnv s0 (nm "library" "FOO") (some regM) [("G", gG), ("C", [67])]
    let c := createAt rEnv p.1 ⟨nm "library" "b", some (nm "library" "FOO"), [], none, none, [], [], []⟩
      (nm "library" "b") false
    s0.man (nm "library" "FOO") = none ∧ p.2 = ["s"] ∧ c.2 = ["s"] ∧
    (listed c.1).contains (nm "library" "foo") = true ∧ (listed c.1).contains (nm "library" "FOO") = true ∧
    (nm "library" "foo").equalFold (nm "library" "FOO") = true ∧ incompleteB c.1 = false ∧
    resolveName rEnv s0 [] (nm "library" "FOO") = nm "library" "foo" ∧
    (s0.man (resolveName rEnv s0 [] (nm "library" "FOO"))).isSome = true := by decide +kernel


/-- **`create … from` of a model that is not in the store** (the pull inside `parseFromModel`, then the create):
    on the repaired tree the invariant is preserved and every model other than the target `nm` and the pulled
    FROM model `sn` keeps its manifest file and its blobs — whatever the two names are and whatever a truthful
    registry serves.  (What is NOT claimed: that no case twin appears — on /repo `sn` is the name as written in
    the request, finding N4.) -/
theorem create_from_pull_good {env : Env} (hv : env.v.fixAlias = true) (hk : env.v.fixKeep = true)
    (hinj : HashInj env) (st : Store) (hi : Inv env st) (r : CreateReq) (nm sn : Name) (reg : Manifest)
    (served : List (String × Bytes)) (hp : PullOk env reg) :
    Inv env (createFromPull env st r nm sn reg served).1 ∧
    ∀ n, n ≠ nm → n ≠ sn →
      (createFromPull env st r nm sn reg served).1.man n = st.man n ∧
      ∀ m, st.man n = some (.readable m) → ∀ l ∈ m.all, ∀ c,
        st.blob l.digest.key = some c → (createFromPull env st r nm sn reg served).1.blob l.digest.key = some c := by
  have g := createFromPull_good hinj hi.1 (Or.inl hv) hk r (fun _ _ => Or.inl hv) nm sn reg served hp
  refine ⟨⟨g.blobsOk, g.nameInv hi.2.1, g.legacy hi.2.2⟩, fun n h1 h2 => ?_⟩
  have hn : n ∉ [nm, sn] := by simp [h1, h2]
  exact ⟨g.frameMan n hn, fun m hm l hl c h => g.frameBlob n m hn hm l hl c h⟩

/-- N4 on the composed operation itself: with the FROM name as written (`FOO`) a twin of `foo` is listed; with
    the name `getExistingName` resolves it to (`foo`, in the store) nothing is pulled and no twin appears -/
theorem N4_createFromPull_witness :
    let s0 := run rEnv Store.empty [(.upload ⟨.colon, "G"⟩ gG, ch0), (mk (nm "library" "foo") .colon, ch0)]
    let r : CreateReq := ⟨nm "library" "b", some (nm "library" "FOO"), [], none, none, [], [], []⟩
    let pinned := createFromPull rEnv s0 r (nm "library" "b") (nm "library" "FOO") regM [("G", gG), ("C", [67])]
    let fixed := createFromPull rEnv s0 r (nm "library" "b") (resolveName rEnv s0 [] (nm "library" "FOO")) regM
      [("G", gG), ("C", [67])]
    pinned.2 = ["s", "s"] ∧ (listed pinned.1).length = 3 ∧ (listed pinned.1).contains (nm "library" "FOO") = true ∧
    fixed.2 = ["s"] ∧ (listed fixed.1).length = 2 ∧ (listed fixed.1).contains (nm "library" "FOO") = false ∧
    incompleteB pinned.1 = false ∧ incompleteB fixed.1 = false := by decide +kernel

end OllamaVerif.C04
