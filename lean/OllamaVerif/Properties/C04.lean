/-
  C04 — every listed model is complete; operations on one model never damage another.

  Property theorems over the store model (Model/Store.lean); helper lemmas are in Proofs/Store.lean.
  All theorems quantify over EVERY store, EVERY request and EVERY iteration order of the Go maps involved
  (`Choice`), and over every `hash`/GGUF decoder (`Env`).
-/
import OllamaVerif.Proofs.Store

namespace OllamaVerif.C04
open OllamaVerif OllamaVerif.Store

/-- the store invariant: every blob file holds what its name says, and every readable manifest has all its
    layers and its config present with the recorded size and digest -/
def Inv (env : Env) (st : Store) : Prop := BlobsOk env st ∧ NameInv env st

/-- the request mentions digests only in the `sha256:<hex>` spelling -/
def CanonOp : Op → Prop
  | .create r => ∀ d ∈ r.files, d.form = .colon
  | _ => True

/-- the manifest names an operation may write, after `getExistingName` -/
def targets (op : Op) (ch : Choice) : List Name :=
  match op with
  | .create r => [getExistingName ch.ord1 r.name]
  | .copy _ d => [getExistingName ch.ord2 d]
  | .delete n => [getExistingName ch.ord1 n]
  | .plant _ d => [d]
  | .corrupt n => [n]
  | _ => []

theorem step_good {env : Env} (hinj : HashInj env) {st : Store} (hc : Canonical st) (hi : Inv env st)
    (op : Op) (ho : CanonOp op) (ch : Choice) : Good env st (step env st op ch).1 (targets op ch) := by
  obtain ⟨hb, hn⟩ := hi
  cases op with
  | upload d c => exact upload_good hb hc d c
  | create r => exact createAt_good hinj hb hc r ho _ _
  | copy s d => exact copyAt_good hb hc hn _ _
  | delete n => exact deleteAt_good hb hc _
  | prune => exact pruneStartup_good hb hc
  | plant s d =>
    simp only [step, targets]
    cases hm : st.man s with
    | none => exact Good.refl hb hc _
    | some f => exact Good.setManifest hb hc d f (fun m e => ⟨hc s m (e ▸ hm), hn s m (e ▸ hm)⟩)
  | corrupt n =>
    simp only [step, targets]
    cases hm : st.man n with
    | none => exact Good.refl hb hc _
    | some f => exact Good.setManifest hb hc n .corrupt (fun m e => by cases e)

/-- **Every readable (hence every listed) model stays complete.**  For every store in which all digest
    strings are spelled `sha256:<hex>`, every such request and every map iteration order: the invariant and
    the spelling condition are preserved by upload, create, copy, delete and the startup prune (and by the two
    non-API fault operations). -/
theorem op_preserves_NameInv {env : Env} (hinj : HashInj env) (st : Store) (hc : Canonical st)
    (hi : Inv env st) (op : Op) (ho : CanonOp op) (ch : Choice) :
    Inv env (step env st op ch).1 ∧ Canonical (step env st op ch).1 :=
  let g := step_good hinj hc hi op ho ch
  ⟨⟨g.blobsOk, g.nameInv hi.2⟩, g.canon⟩

/-- **Operations on one model never damage another.**  Under the same guard: the manifest file of every
    name other than the operation's (resolved) target is unchanged, and every blob that such a readable
    manifest points to is still there with the same bytes. -/
theorem op_frame {env : Env} (hinj : HashInj env) (st : Store) (hc : Canonical st) (hi : Inv env st)
    (op : Op) (ho : CanonOp op) (ch : Choice) (n : Name) (hn : n ∉ targets op ch) :
    (step env st op ch).1.man n = st.man n ∧
    ∀ m, st.man n = some (.readable m) → ∀ l ∈ m.all, ∀ c,
      st.blob l.digest.key = some c → (step env st op ch).1.blob l.digest.key = some c :=
  let g := step_good hinj hc hi op ho ch
  ⟨g.frameMan n hn, fun m hm l hl c h => g.frameBlob n m hn hm l hl c h⟩

/-- the invariant holds along every history of guarded operations from the empty store -/
def run (env : Env) : Store → List (Op × Choice) → Store
  | st, [] => st
  | st, (op, ch) :: rest => run env (step env st op ch).1 rest

theorem history_preserves_Inv {env : Env} (hinj : HashInj env) (ops : List (Op × Choice))
    (ho : ∀ p ∈ ops, CanonOp p.1) (st : Store) (hc : Canonical st) (hi : Inv env st) :
    Inv env (run env st ops) ∧ Canonical (run env st ops) := by
  induction ops generalizing st with
  | nil => exact ⟨hi, hc⟩
  | cons p rest ih =>
    obtain ⟨op, ch⟩ := p
    obtain ⟨hi', hc'⟩ := op_preserves_NameInv hinj st hc hi op (ho (op, ch) (by simp)) ch
    exact ih (fun q hq => ho q (by simp [hq])) _ hc' hi'

theorem empty_Inv (env : Env) : Inv env Store.empty ∧ Canonical Store.empty := by
  refine ⟨⟨?_, ?_⟩, ?_⟩
  · intro k c h; simp [Store.empty, Store.blob, aget] at h
  · intro n m h; simp [Store.empty, Store.man, aget] at h
  · intro n m h; simp [Store.empty, Store.man, aget] at h

/-- **Startup prune is exact.**  If all digest strings are spelled `sha256:<hex>` and every manifest parses,
    the blobs after the startup prune are exactly the blobs some readable manifest points to. -/
theorem prune_exact (st : Store) (hc : Canonical st) (hnc : st.hasCorrupt = false) (k : String) :
    (pruneStartup st).1.blob k = if st.keyReferenced k then st.blob k else none := by
  unfold pruneStartup
  simp only [hnc, Bool.false_eq_true, if_false]
  rw [pruneLayers_blob]
  cases hk : st.keyReferenced k with
  | true => rw [hc.referenced_of_key (d := ⟨.colon, k⟩) rfl hk]
  | false =>
    cases hr : st.referenced ⟨.colon, k⟩ with
    | false => rfl
    | true =>
      have := keyReferenced_of_referenced hr
      simp only [Digest.key] at this
      rw [hk] at this; cases this

end OllamaVerif.C04
