/-
  Server shutdown (routes.go Serve, signal handler): `srvr.Close(); schedDone(); sched.unloadAllRunners()`.

  `unloadAllRunners` takes loadedMu and calls `llama.Close()` for every entry of `loaded` whose `llama != nil`.  It does
  not take the runner's refMu, does not look at refCount and does not set `llama = nil`.  Cancelling the scheduler's
  context does not stop the two loops at once: each returns the next time its `select` picks `ctx.Done()`, and Go's select
  chooses at random among the ready cases, so any scheduler action may still follow.  Hence the model: a `shutdown`
  action, enabled once in any state, that closes every loaded runner that is not closed yet, after which the base
  actions remain enabled (over-approximation of "the loops stop at some select").

    `shutdown_closes_every_started_runner`  C02's drain clause at shutdown (good variant, every reachable state): right
        after unloadAllRunners every runner that was ever started has had exactly one Close()
    `shutdown_closes_runner_in_use`         witness: shutdown closes a runner under a request in progress — by design (the
        process exits); shutdown is not among the events C01 quantifies over
    `shutdown_then_expiry_closes_twice`     witness: if the completed loop handles one more expired event after
        unloadAllRunners (its select may pick expiredCh although ctx is done), `unload()` calls Close() a second time,
        because unloadAllRunners left `llama` non-nil.  Outside C01's quantifier (shutdown); recorded in notes/SCHED.md.
-/
import OllamaVerif.Properties.C11

namespace OllamaVerif.C02Shutdown
open OllamaVerif.Sched OllamaVerif.C01

/-- Scheduler.unloadAllRunners -/
def closeAll (s : State) : State :=
  { s with runners := fun r =>
      if s.loaded.any (fun p => p.2 = r) && !(s.runners r).closed then
        { s.runners r with closeCount := (s.runners r).closeCount + 1 }
      else s.runners r }

inductive SAct
  | sched (a : Act)
  | shutdown
deriving Repr, DecidableEq

structure SState where
  base : State := {}
  shut : Bool := false

def stepS (v : Variant) (s : SState) : SAct → Option SState
  | .sched a => (step v s.base a).map fun b => { s with base := b }
  | .shutdown => if s.shut then none else some { base := closeAll s.base, shut := true }

def runS (v : Variant) : SState → List SAct → Option SState
  | s, [] => some s
  | s, a :: as => match stepS v s a with
    | some s' => runS v s' as
    | none => none

/-- **Drain at shutdown**: in every reachable state of the good variant, right after `unloadAllRunners` every runner that
    was ever started has had exactly one Close() — the ones already unloaded by the scheduler and the ones still loaded -/
theorem shutdown_closes_every_started_runner {mr mq ds : Nat} {s : State}
    (h : Reach Variant.good (init0 mr mq ds) s) (r : Rid) (hr : r < s.nRunners) :
    ((closeAll s).runners r).closeCount = 1 := by
  have hi := reach_inv (inv_init mr mq ds) h
  have hcc := hi.i1.cc r hr
  unfold closeAll
  simp only []
  cases hc : (s.runners r).closed with
  | true => simp [hc] at hcc ⊢; exact hcc
  | false =>
    have hl := lookup_some_mem _ _ _ (hi.i3.live r hr hc)
    have hany : s.loaded.any (fun p => p.2 = r) = true := by
      apply List.any_eq_true.mpr
      exact ⟨_, hl, by simp⟩
    simp [hc] at hcc
    simp [hany, hc, hcc]

def useTrace : List Act := [.submit 0 0 none, .pTake, .pLookup fit0, .pLoad true, .loadDone 0 true]

/-- shutdown closes a runner that a request in progress is using (by design: the process is exiting) -/
theorem shutdown_closes_runner_in_use :
    (runS Variant.good { base := init0 0 512 1 } (useTrace.map .sched ++ [.shutdown])).map
      (fun s => ((s.base.runners 0).closeCount, (s.base.runners 0).holders, (s.base.reqs 0).done)) = some (1, [0], false) := by
  decide

def idleExpiredTrace : List Act :=
  useTrace ++ [.done 0, .finishSend 0, .cTakeFinished, .cFin, .timerFire 0, .timerCb 0]

/-- the completed loop handles one more expired event after unloadAllRunners: a second Close() of the same runner -/
theorem shutdown_then_expiry_closes_twice :
    (runS Variant.good { base := init0 0 512 1 }
        (idleExpiredTrace.map .sched ++
         [.shutdown, .sched .cTakeExpired, .sched .cExp])).map
      (fun s => ((s.base.runners 0).closeCount, (s.base.runners 0).closed)) = some (2, true) := by decide

end OllamaVerif.C02Shutdown
