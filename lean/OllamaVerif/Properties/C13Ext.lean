/-
  C13, round 7 — the remaining printers and walkers of the anchored code:
  `ModelPath.GetFullTagname / GetShortTagname`, `model.Name.DisplayShortest`, `server.canonicalDigest`, the directory
  `GetBlobsPath` creates, `server.Manifests` (enumeration of the store), `blob.pathToName` / `DiskCache.Links`, and the
  agreement of `ParseModelPath` with `model.ParseName` on every input both accept.
-/
import OllamaVerif.Properties.C13
namespace OllamaVerif.C13
open OllamaVerif OllamaVerif.Names

/-! ## 11. digest aliases -/

theorem matchDigestRe_sep (hex : Bytes) :
    matchDigestRe (sSha256 ++ cColon :: hex) = matchDigestRe (sSha256 ++ cDash :: hex) := by
  simp [matchDigestRe, sSha256, cColon, cDash]

theorem colonToDash_sep (rest : Bytes) :
    colonToDash (sSha256 ++ cColon :: rest) = colonToDash (sSha256 ++ cDash :: rest) := by
  simp [colonToDash, sSha256, cColon, cDash]

/-- **Digest aliases address the same blob**: for EVERY byte string `d`, `GetBlobsPath(canonicalDigest(d))` is
    `GetBlobsPath(d)` — refused together, or the same file (the `sha256-…` and `sha256:…` spellings of one digest). -/
theorem canonical_same_blob (root d : Bytes) :
    getBlobsPath root (canonicalDigest d) = getBlobsPath root d := by
  unfold canonicalDigest
  split
  · rename_i h
    have hd : d = sSha256 ++ cDash :: d.drop 7 := by
      have h7 : d.take 7 = sSha256 ++ [cDash] := by simpa using h
      have := (List.take_append_drop 7 d).symm
      rw [h7] at this
      simpa using this
    generalize d.drop 7 = rest at hd
    subst hd
    have e1 : (sSha256 ++ cColon :: rest).isEmpty = false := by simp [sSha256]
    have e2 : (sSha256 ++ cDash :: rest).isEmpty = false := by simp [sSha256]
    simp only [getBlobsPath, matchDigestRe_sep, colonToDash_sep, e1, e2]
  · rfl

/-! ## 12. enumeration of the store (`server.Manifests`) -/

/-- **What `Manifests` loads**: every entry `(n, p)` comes from an enumerated file `p` itself — the key `n` is fully
    qualified, `p` spells exactly `n` (`ParseNameFromFilepath p = n`) and the file `ParseNamedManifest(n)` opens,
    `manifests/<n.Filepath()>`, is that same `p`: the walk never reads a file other than the one it enumerated. -/
theorem manifestsEnum_sound (rels : List Bytes) (n : Name) (p : Bytes) (h : (n, p) ∈ manifestsEnum rels) :
    p ∈ rels ∧ isFQM n = true ∧ parseNameFromFilepath p = n ∧ filepathM n = some p := by
  simp only [manifestsEnum, List.mem_filterMap] at h
  obtain ⟨rel, hrel, hm⟩ := h
  rcases relpath_accepted rel with hz | ⟨hfq, hfp⟩
  · rw [hz] at hm
    have : filepathM Name.zero = none := by decide
    simp [this] at hm
  · rw [hfp] at hm
    simp only [Option.some.injEq, Prod.mk.injEq] at hm
    obtain ⟨rfl, rfl⟩ := hm
    exact ⟨hrel, hfq, rfl, hfp⟩

/-- … and it is complete: every enumerated file whose path spells a fully qualified name is loaded under that name. -/
theorem manifestsEnum_complete (rels : List Bytes) (rel : Bytes) (hrel : rel ∈ rels)
    (hfq : isFQM (parseNameFromFilepath rel) = true) :
    (parseNameFromFilepath rel, rel) ∈ manifestsEnum rels := by
  simp only [manifestsEnum, List.mem_filterMap]
  refine ⟨rel, hrel, ?_⟩
  rcases relpath_accepted rel with hz | ⟨_, hfp⟩
  · have hzf : isFQM Name.zero = false := by decide
    rw [hz, hzf] at hfq; cases hfq
  · rw [hfp]

/-- no two files of the store collapse onto one map key -/
theorem manifestsEnum_keys_injective (rels : List Bytes) (n : Name) (p1 p2 : Bytes)
    (h1 : (n, p1) ∈ manifestsEnum rels) (h2 : (n, p2) ∈ manifestsEnum rels) : p1 = p2 := by
  have a := (manifestsEnum_sound rels n p1 h1).2.2.2
  have b := (manifestsEnum_sound rels n p2 h2).2.2.2
  rw [a] at b; exact Option.some.inj b

example : manifestsEnum [[104, 47, 110, 47, 109, 47, 116], [46, 104, 47, 110, 47, 109, 47, 116], [104, 47, 110, 47, 109]]
    = [({ host := [104], ns := [110], model := [109], tag := [116] }, [104, 47, 110, 47, 109, 47, 116])] := by decide

/-! ## 13. the legacy ModelPath's printers -/

/-- `strings.Cut(s, "://")` steps over a slash-free piece followed by a single `/` -/
theorem cutScheme_step (a b : Bytes) (ha : ∀ c ∈ a, c ≠ cSlash) (hb : b.head? ≠ some cSlash) :
    cutScheme (a ++ cSlash :: b) = (cutScheme b).map (fun pq => (a ++ cSlash :: pq.1, pq.2)) := by
  induction a with
  | nil =>
    have h0 : ((47 : UInt8) == 58) = false := by decide
    cases hcs : cutScheme b with
    | none => simp [cutScheme, cSlash, h0, hcs]
    | some pq => obtain ⟨p, q⟩ := pq; simp [cutScheme, cSlash, h0, hcs]
  | cons x xs ih =>
    have ih' := ih (fun c hc => ha c (List.mem_cons_of_mem _ hc))
    have hx : (((xs ++ cSlash :: b).take 2) == [47, 47]) = false := by
      cases xs with
      | nil =>
        cases b with
        | nil => simp [cSlash]
        | cons y ys =>
          have hy : y ≠ 47 := by
            intro e; apply hb; simp [e, cSlash]
          simp [cSlash, hy]
      | cons y ys =>
        have hy : y ≠ 47 := ha y (List.mem_cons_of_mem _ List.mem_cons_self)
        cases ys with
        | nil => simp [hy]
        | cons z zs => simp [hy]
    show cutScheme (x :: (xs ++ cSlash :: b)) = _
    rw [cutScheme, ih']
    simp only [hx, Bool.and_false, Bool.false_eq_true, if_false]
    cases cutScheme b with
    | none => rfl
    | some pq => rfl

theorem head_ne_slash (a rest : Bytes) (hne : a ≠ []) (ha : ∀ c ∈ a, c ≠ cSlash) :
    (a ++ rest).head? ≠ some cSlash := by
  cases a with
  | nil => exact absurd rfl hne
  | cons x xs =>
    have := ha x List.mem_cons_self
    simpa using this

theorem fullTagname_parts (mp : ModelPath) (h : isFQM mp.toName = true) :
    cutScheme mp.fullTagname = none ∧
    splitOn cSlash mp.fullTagname = [mp.registry, mp.ns, mp.repo ++ (cColon :: mp.tag)] ∧
    splitFirst (· == cColon) (mp.repo ++ (cColon :: mp.tag)) = some (mp.repo, mp.tag, cColon) := by
  have p := fqParts_of_isFQM h
  simp only [ModelPath.toName] at p
  have hrt : ∀ c ∈ mp.repo ++ (cColon :: mp.tag), c ≠ cSlash := by
    intro c hc
    rcases List.mem_append.mp hc with hc | hc
    · exact p.mslash c hc
    · rcases List.mem_cons.mp hc with rfl | hc
      · decide
      · exact p.tslash c hc
  refine ⟨?_, ?_, ?_⟩
  · unfold ModelPath.fullTagname
    rw [cutScheme_step _ _ p.hslash (head_ne_slash _ _ p.nne p.nslash),
      cutScheme_step _ _ p.nslash (head_ne_slash _ _ p.mne p.mslash), cutScheme_none _ hrt]
    rfl
  · unfold ModelPath.fullTagname
    rw [splitOn_append _ _ _ p.hslash, splitOn_append _ _ _ p.nslash, splitOn_noSep _ _ hrt]
  · exact splitFirst_append _ _ _ _ (by decide) (fun x hx => by simpa using p.mcolon x hx)

/-- **The legacy printers are read back unchanged** (`ParseModelPath ∘ GetFullTagname`, `∘ GetShortTagname`): for every
    ModelPath whose four parts are valid, both printed forms parse back to the same registry / namespace / repository /
    tag (scheme `https`), hence to the same manifest path. -/
theorem modelpath_print_parse (mp : ModelPath) (h : isFQM mp.toName = true) :
    parseModelPath mp.fullTagname = { mp with scheme := sHttps } ∧
    parseModelPath mp.shortTagname = { mp with scheme := sHttps } := by
  obtain ⟨h1, h2, h3⟩ := fullTagname_parts mp h
  have p := fqParts_of_isFQM h
  simp only [ModelPath.toName] at p
  have full : parseModelPath mp.fullTagname = { mp with scheme := sHttps } := by
    unfold parseModelPath
    simp only [h1, h2, h3]
  refine ⟨full, ?_⟩
  unfold ModelPath.shortTagname
  have hrt : ∀ c ∈ mp.repo ++ (cColon :: mp.tag), c ≠ cSlash := by
    intro c hc
    rcases List.mem_append.mp hc with hc | hc
    · exact p.mslash c hc
    · rcases List.mem_cons.mp hc with rfl | hc
      · decide
      · exact p.tslash c hc
  split
  · rename_i hreg
    have hreg' : mp.registry = sDefaultHost := by simpa using hreg
    split
    · rename_i hns
      have hns' : mp.ns = sLibrary := by simpa using hns
      unfold parseModelPath
      simp only [cutScheme_none _ hrt, splitOn_noSep _ _ hrt, h3]
      cases mp; simp_all
    · have hnrt : ∀ c ∈ mp.ns ++ (cSlash :: (mp.repo ++ (cColon :: mp.tag))), True := fun _ _ => trivial
      have hcs : cutScheme (mp.ns ++ (cSlash :: (mp.repo ++ (cColon :: mp.tag)))) = none := by
        rw [cutScheme_step _ _ p.nslash (head_ne_slash _ _ p.mne p.mslash), cutScheme_none _ hrt]; rfl
      unfold parseModelPath
      simp only [hcs, splitOn_append _ _ _ p.nslash, splitOn_noSep _ _ hrt, h3]
      cases mp; simp_all
  · exact full

/-- … and `model.ParseName` reads both printed forms as the same four parts (the two parsers of the legacy server agree
    on everything either printer emits). -/
theorem modelpath_print_parse_model (mp : ModelPath) (h : isFQM mp.toName = true) :
    parseName mp.fullTagname = mp.toName := by
  have e : mp.fullTagname = toStr mp.toName := by
    have p := fqParts_of_isFQM h
    rw [toStr_fq p]; simp [ModelPath.fullTagname, ModelPath.toName]
  rw [e]; exact (print_parse_model _ h).2

example : isFQM (ModelPath.toName ⟨sHttps, sDefaultHost, [117], [109], sLatest⟩) = true ∧
    ModelPath.shortTagname ⟨sHttps, sDefaultHost, [117], [109], sLatest⟩ = [117, 47, 109, 58] ++ sLatest := by decide

/-! ## 14. ANY models directory: relative, with `.` / `..` / doubled or trailing slashes (`OLLAMA_MODELS` verbatim)

  `envconfig.Models()` returns the configured string as it is.  The theorems of sections 4–9 take the models directory
  as an absolute clean path `absPath rc`; here the root is an ARBITRARY non-empty byte string.  `filepath.Clean(root)` is
  `renderPath rooted (rootStack root)`; every derived path is the rendering of that same stack followed by exactly the
  fixed components — whatever `..` the root itself contains is resolved inside the root, never against the name parts. -/

/-- how `filepath.Clean` renders a stack of components -/
def renderPath (rooted : Bool) (comps : List Bytes) : Bytes :=
  if rooted then cSlash :: joinWith cSlash comps
  else if comps.isEmpty then sDot else joinWith cSlash comps

def isRooted (root : Bytes) : Bool := root.head? == some cSlash

/-- the component stack `filepath.Clean` computes for `root` -/
def rootStack (root : Bytes) : List Bytes :=
  ((splitOn cSlash root).foldl (cleanStep (isRooted root)) []).reverse

theorem clean_eq_render (root : Bytes) (hne : root ≠ []) :
    clean root = renderPath (isRooted root) (rootStack root) := by
  have h : root.isEmpty = false := by simpa [List.isEmpty_iff] using hne
  unfold clean renderPath rootStack isRooted
  simp only [h, Bool.false_eq_true, if_false]

theorem splitOn_append_sep (c : UInt8) (a b : Bytes) :
    splitOn c (a ++ c :: b) = splitOn c a ++ splitOn c b := by
  induction a with
  | nil => simp [splitOn]
  | cons x xs ih =>
    by_cases hx : (x == c) = true
    · simp [splitOn, hx, ih]
    · have hx' : (x == c) = false := by simpa using hx
      obtain ⟨y, ys, hy⟩ := List.exists_cons_of_ne_nil (splitOn_ne_nil c xs)
      simp only [List.cons_append, splitOn, hx', Bool.false_eq_true, if_false, ih, hy]

/-- **`filepath.Join(root, sub, rel)` for an arbitrary non-empty root**: the stack of `Clean(root)` followed by exactly
    `sub` and the components of `rel`. -/
theorem pathJoin_anyroot (root : Bytes) (hne : root ≠ []) (sub : Bytes) (hsub : CleanComp sub)
    (comps : List Bytes) (hc0 : comps ≠ []) (hc : ∀ c ∈ comps, CleanComp c) :
    pathJoin [root, sub, joinWith cSlash comps]
      = renderPath (isRooted root) (rootStack root ++ sub :: comps) := by
  have hroot : root.isEmpty = false := by simpa [List.isEmpty_iff] using hne
  obtain ⟨c0, cs, rfl⟩ := List.exists_cons_of_ne_nil hc0
  have hall : ∀ c ∈ sub :: c0 :: cs, CleanComp c := by
    intro c hcm
    rcases List.mem_cons.mp hcm with rfl | h
    · exact hsub
    · exact hc c h
  have hj : joinWith cSlash [root, sub, joinWith cSlash (c0 :: cs)] = root ++ cSlash :: joinWith cSlash (sub :: c0 :: cs) := by
    simp [joinWith]
  unfold pathJoin
  simp only [List.dropWhile, hroot]
  rw [hj]
  have hne2 : (root ++ cSlash :: joinWith cSlash (sub :: c0 :: cs)).isEmpty = false := by
    cases root with
    | nil => exact absurd rfl hne
    | cons x xs => rfl
  have hhead : (root ++ cSlash :: joinWith cSlash (sub :: c0 :: cs)).head? = root.head? := by
    cases root with
    | nil => exact absurd rfl hne
    | cons x xs => rfl
  unfold clean
  simp only [hne2, Bool.false_eq_true, if_false, hhead, splitOn_append_sep,
    splitOn_joinWith cSlash (sub :: c0 :: cs) (by simp) (fun p hp => (hall p hp).2.2.2),
    List.foldl_append, foldl_cleanStep_clean _ _ _ hall]
  unfold renderPath rootStack isRooted
  simp only [List.reverse_append, List.reverse_reverse]

/-- **Legacy manifest path, any models directory**: refused, or the components of `Clean(models)` followed by exactly
    `manifests/<host>/<ns>/<model>/<tag>`, each part safe. -/
theorem manifest_path_confined_anyroot (root : Bytes) (hne : root ≠ []) (mp : ModelPath) :
    mpManifestPath root mp = none ∨
    (mpManifestPath root mp = some (renderPath (isRooted root)
        (rootStack root ++ [sManifests, mp.registry, mp.ns, mp.repo, mp.tag])) ∧
      clean root = renderPath (isRooted root) (rootStack root) ∧
      ∀ c ∈ [mp.registry, mp.ns, mp.repo, mp.tag], SafeComp c) := by
  cases hfq : isFQM mp.toName with
  | false => left; simp [mpManifestPath, (filepath_shape mp.toName).1 hfq]
  | true =>
    right
    obtain ⟨hfp, hsafe⟩ := (filepath_shape mp.toName).2 hfq
    refine ⟨?_, clean_eq_render root hne, hsafe⟩
    simp only [mpManifestPath, hfp]
    exact congrArg some (pathJoin_anyroot root hne sManifests safe_manifests.toClean _ (by simp)
      (fun c hc => (hsafe c hc).toClean))

/-- **Legacy blob path, any models directory** (non-empty digest): refused, or the components of `Clean(models)` followed by
    exactly `blobs/sha256-<64 hex>`. -/
theorem blob_path_confined_anyroot (root : Bytes) (hne : root ≠ []) (d : Bytes) (hd : d ≠ []) :
    getBlobsPath root d = none ∨
    ∃ hex, hex.length = 64 ∧ (∀ c ∈ hex, isHexB c = true) ∧ SafeComp (sSha256 ++ cDash :: hex) ∧
      getBlobsPath root d = some (renderPath (isRooted root) (rootStack root ++ [sBlobs, sSha256 ++ cDash :: hex])) := by
  cases hm : matchDigestRe d with
  | false =>
    left
    have : d.isEmpty = false := by simpa [List.isEmpty_iff] using hd
    simp [getBlobsPath, hm, this]
  | true =>
    right
    rcases blob_path_confined_legacy [[111]] (by simp) (by
        intro c hc; simp only [List.mem_cons, List.not_mem_nil, or_false] at hc; subst hc
        exact ⟨by decide, by decide, by decide, by decide⟩) d with h | ⟨h, _⟩ | ⟨hex, hlen, hhex, hsafe, h⟩
    · have : d.isEmpty = false := by simpa [List.isEmpty_iff] using hd
      simp [getBlobsPath, hm, this] at h
    · exact absurd h hd
    · refine ⟨hex, hlen, hhex, hsafe, ?_⟩
      -- the file name is the same whatever the root: read it off the instance at root `/o`
      have hemp : d.isEmpty = false := by simpa [List.isEmpty_iff] using hd
      have hname : colonToDash d = sSha256 ++ cDash :: hex := by
        obtain ⟨sep, hex', hs', hsep, hlen', hhex'⟩ := digest_re_shape _ hm
        simp only [getBlobsPath, hm, hemp, Bool.not_false, Bool.not_true, Bool.and_false, Bool.false_eq_true, if_false,
          Option.some.injEq] at h
        have h2 := pathJoin_root [[111]] (by simp) (by
          intro c hc; simp only [List.mem_cons, List.not_mem_nil, or_false] at hc; subst hc
          exact ⟨by decide, by decide, by decide, by decide⟩) sBlobs safe_blobs [colonToDash d] (by simp) (by
            intro c hc; simp only [List.mem_cons, List.not_mem_nil, or_false] at hc; subst hc
            have hc2 : colonToDash (sSha256 ++ sep :: hex') = sSha256 ++ cDash :: hex' := by
              have e1 : colonToDash sSha256 = sSha256 := by decide
              have h1 : colonToDash (sSha256 ++ sep :: hex') = colonToDash sSha256 ++ (colonToDash [sep] ++ colonToDash hex') := by
                simp [colonToDash]
              rw [h1, colonToDash_hex hex' hhex', e1]
              rcases hsep with rfl | rfl <;> rfl
            rw [hs', hc2]; exact safe_blob_name hex' hhex')
        simp only [joinWith] at h2
        rw [h2] at h
        have h3 : ([[111]] ++ [sBlobs, colonToDash d] : List Bytes) = [[111]] ++ [sBlobs, sSha256 ++ cDash :: hex] := by
          have := congrArg (splitOn cSlash) h
          rw [splitOn_absPath' _ (by simp) (by
              intro c hc
              simp only [List.cons_append, List.nil_append, List.mem_cons, List.not_mem_nil, or_false] at hc
              rcases hc with rfl | rfl | rfl
              · exact ⟨by decide, by decide, by decide, by decide⟩
              · exact safe_blobs.toClean
              · rw [hs']
                have hc2 : colonToDash (sSha256 ++ sep :: hex') = sSha256 ++ cDash :: hex' := by
                  have e1 : colonToDash sSha256 = sSha256 := by decide
                  have h1 : colonToDash (sSha256 ++ sep :: hex') = colonToDash sSha256 ++ (colonToDash [sep] ++ colonToDash hex') := by
                    simp [colonToDash]
                  rw [h1, colonToDash_hex hex' hhex', e1]
                  rcases hsep with rfl | rfl <;> rfl
                rw [hc2]; exact (safe_blob_name hex' hhex').toClean),
            splitOn_absPath' _ (by simp) (by
              intro c hc
              simp only [List.cons_append, List.nil_append, List.mem_cons, List.not_mem_nil, or_false] at hc
              rcases hc with rfl | rfl | rfl
              · exact ⟨by decide, by decide, by decide, by decide⟩
              · exact safe_blobs.toClean
              · exact hsafe.toClean)] at this
          simpa using this
        simpa using h3
      simp only [getBlobsPath, hm, hemp, Bool.not_false, Bool.not_true, Bool.and_false, Bool.false_eq_true, if_false, hname]
      have := pathJoin_anyroot root hne sBlobs safe_blobs.toClean [sSha256 ++ cDash :: hex] (by simp)
        (by intro c hc; simp only [List.mem_cons, List.not_mem_nil, or_false] at hc; subst hc; exact hsafe.toClean)
      simp only [joinWith] at this
      rw [this]

/-- non-vacuity: a relative models directory with `..`, a doubled and a trailing slash (`./x/../m//`): `Clean` gives `m`,
    the manifest of `m` and a blob are `m/manifests/registry.ollama.ai/library/m/latest` and `m/blobs/sha256-aa…` -/
example :
    let root : Bytes := [46, 47, 120, 47, 46, 46, 47, 109, 47, 47]
    root ≠ [] ∧ rootStack root = [[109]] ∧ isRooted root = false ∧ clean root = [109] ∧
    mpManifestPath root (parseModelPath [109]) = some (joinWith cSlash [[109], sManifests, sDefaultHost, sLibrary, [109], sLatest]) ∧
    getBlobsPath root (sSha256 ++ cColon :: List.replicate 64 97)
      = some (joinWith cSlash [[109], sBlobs, sSha256 ++ cDash :: List.replicate 64 97]) := by
  decide

/-- a root that climbs (`../s`): the `..` stays the ROOT's first component; the name parts come after it -/
example : rootStack [46, 46, 47, 115] = [[46, 46], [115]] ∧
    mpManifestPath [46, 46, 47, 115] (parseModelPath [109])
      = some (joinWith cSlash [[46, 46], [115], sManifests, sDefaultHost, sLibrary, [109], sLatest]) := by decide

/-! ## 15. the directory `GetBlobsPath` creates -/

theorem splitOn_snoc_sep (c : UInt8) (s : Bytes) : splitOn c (s ++ [c]) = splitOn c s ++ [[]] := by
  have := splitOn_append_sep c s []
  simpa [splitOn] using this

/-- `Clean` drops a trailing separator of an absolute clean path -/
theorem clean_absPath_trailing (comps : List Bytes) (hne : comps ≠ []) (h : ∀ c ∈ comps, CleanComp c) :
    clean (absPath comps ++ [cSlash]) = absPath comps := by
  have h1 : (absPath comps ++ [cSlash]).isEmpty = false := by simp [absPath]
  have h2 : ((absPath comps ++ [cSlash]).head? == some cSlash) = true := by simp [absPath]
  have h4 : ∀ st, cleanStep true st [] = st := by intro st; simp [cleanStep]
  unfold clean
  simp only [h1, h2, splitOn_snoc_sep, splitOn_absPath' comps hne h, List.foldl_append, List.foldl_cons, List.foldl_nil,
    h4, foldl_cleanStep_clean true _ [] h]
  simp [absPath]

/-- `filepath.Dir` of a file directly below an absolute clean directory is that directory -/
theorem pathDir_absPath (comps : List Bytes) (hne : comps ≠ []) (h : ∀ c ∈ comps, CleanComp c)
    (f : Bytes) (hf : CleanComp f) : pathDir (absPath (comps ++ [f])) = absPath comps := by
  have e : absPath (comps ++ [f]) = absPath comps ++ cSlash :: f := by
    simp only [absPath, joinWith_append cSlash comps [f] hne (by simp), joinWith]
    simp
  unfold pathDir
  rw [e, splitLast_append _ _ _ cSlash (by simp) (fun x hx => by simpa using hf.2.2.2 x hx)]
  exact clean_absPath_trailing comps hne h

theorem getBlobsPath_empty (rc : List Bytes) (hrc : rc ≠ []) (hs : ∀ c ∈ rc, CleanComp c) :
    getBlobsPath (absPath rc) [] = some (absPath (rc ++ [sBlobs])) := by
  have hall : ∀ c ∈ rc ++ [sBlobs], CleanComp c := by
    intro c hc
    rcases List.mem_append.mp hc with h | h
    · exact hs c h
    · simp only [List.mem_cons, List.not_mem_nil, or_false] at h; subst h; exact safe_blobs.toClean
  have hroot : (absPath rc).isEmpty = false := by simp [absPath]
  have hj : joinWith cSlash [absPath rc, sBlobs, []] = absPath (rc ++ [sBlobs]) ++ [cSlash] := by
    simp only [absPath, joinWith_append cSlash rc [sBlobs] hrc (by simp), joinWith]
    simp
  simp only [getBlobsPath, List.isEmpty_nil, Bool.not_true, Bool.false_and, Bool.false_eq_true, if_false]
  congr 1
  show pathJoin [absPath rc, sBlobs, colonToDash []] = _
  unfold pathJoin
  simp only [colonToDash, List.map_nil, List.dropWhile, hroot]
  rw [hj]
  exact clean_absPath_trailing _ (by simp) hall

/-- **The directory `GetBlobsPath` creates** (its `os.MkdirAll`, before any caller looks at the result): for every digest
    string, nothing (refused), or exactly `<models>/blobs` — never a directory named by the digest. -/
theorem blobs_mkdir_confined (rc : List Bytes) (hrc : rc ≠ []) (hs : ∀ c ∈ rc, CleanComp c) (d : Bytes) :
    (getBlobsPath (absPath rc) d = none ∧ getBlobsMkdir (absPath rc) d = none) ∨
    getBlobsMkdir (absPath rc) d = some (absPath (rc ++ [sBlobs])) := by
  have hall : ∀ c ∈ rc ++ [sBlobs], CleanComp c := by
    intro c hc
    rcases List.mem_append.mp hc with h | h
    · exact hs c h
    · simp only [List.mem_cons, List.not_mem_nil, or_false] at h; subst h; exact safe_blobs.toClean
  cases d with
  | nil => right; simp [getBlobsMkdir, getBlobsPath_empty rc hrc hs]
  | cons x xs =>
    rcases blob_path_confined_legacy rc hrc hs (x :: xs) with h | ⟨hd, _⟩ | ⟨hex, _, _, hsafe, h⟩
    · left; exact ⟨h, by simp [getBlobsMkdir, h]⟩
    · cases hd
    · right
      have e : rc ++ [sBlobs, sSha256 ++ cDash :: hex] = (rc ++ [sBlobs]) ++ [sSha256 ++ cDash :: hex] := by simp
      simp only [getBlobsMkdir, h, List.isEmpty_cons, Bool.false_eq_true, if_false, e]
      exact congrArg some (pathDir_absPath _ (by simp) hall _ hsafe.toClean)

example : getBlobsMkdir (absPath defaultRoot) (sSha256 ++ cColon :: List.replicate 64 97)
    = some (absPath (defaultRoot ++ [sBlobs])) ∧
    getBlobsMkdir (absPath defaultRoot) ([46, 46, 47] ++ sSha256 ++ cColon :: List.replicate 64 97) = none := by decide


/-! ## 16. `DiskCache.Links` / `pathToName`: the round trip through the directory -/


/-- `string([]rune(s))` is the identity on ASCII -/
theorem runesRoundTrip_ascii (l : Bytes) (h : ∀ c ∈ l, c.toNat < 128) : runesRoundTrip 0 l = l := by
  induction l with
  | nil => rfl
  | cons x xs ih =>
    have hx : x < 0x80 := by
      have := h x List.mem_cons_self
      exact UInt8.lt_iff_toNat_lt.mpr (by simpa using this)
    have hl : utf8Len (x :: xs) = 1 := by simp [utf8Len, hx]
    simp only [runesRoundTrip, hl]
    rw [ih (fun c hc => h c (List.mem_cons_of_mem _ hc))]

/-- **Round trip through the directory** (`DiskCache.Links` ∘ `Link`): for every string the cache accepts as a name, the link
    path it creates, `manifests/<host>/<ns>/<model>/<tag>`, is listed by `Links()` (`pathToName`) as exactly the printed
    name, and that listed name is accepted again and addresses the same path. -/
theorem pathToName_roundtrip (s np : Bytes) (h : nameToPath s = some np) :
    pathToName (pathJoin [sManifests, np]) = toStr (parseN s) ∧
    nameToPath (pathToName (pathJoin [sManifests, np])) = some np := by
  rcases nameToPath_shape s with hn | ⟨hfq, hnp, hsafe⟩
  · rw [hn] at h; cases h
  · rw [hnp] at h
    have hnp' := Option.some.inj h
    have hfqM : isFQM (parseN s) = true := by rw [isFQM_eq_isFQN]; exact hfq
    have p := fqParts_of_isFQM hfqM
    have hascii := manifest_want_ascii s hfq
    generalize parseN s = n at *
    have e1 : pathToName (pathJoin [sManifests, np]) = toStr n := by
      rw [← hnp', pathJoin_manifests _ (by simp) hsafe, toStr_fq p]
      obtain ⟨x, hs, hx⟩ := List.exists_cons_of_ne_nil p.hne
      have hjoin : joinWith cSlash [sManifests, n.host, n.ns, n.model, n.tag]
          = sManifests ++ cSlash :: (x :: (hs ++ cSlash :: n.ns ++ cSlash :: n.model ++ cSlash :: n.tag)) := by
        simp [joinWith, hx]
      have hasc : ∀ c ∈ x :: (hs ++ cSlash :: n.ns ++ cSlash :: n.model ++ cColon :: n.tag), c.toNat < 128 := by
        intro c hc
        have hcol : cColon.toNat < 128 := by decide
        rw [hjoin] at hascii
        simp only [List.mem_cons, List.mem_append] at hc hascii
        rcases hc with rfl | ((hc | rfl | hc) | rfl | hc) | rfl | hc
        all_goals first | exact hcol | (apply hascii; simp [*])
      rw [hjoin]
      unfold pathToName
      have ht : (sManifests ++ cSlash :: (x :: (hs ++ cSlash :: n.ns ++ cSlash :: n.model ++ cSlash :: n.tag))).take 10
          = sManifestsSlash := by simp [sManifests, sManifestsSlash, cSlash]
      have hd : (sManifests ++ cSlash :: (x :: (hs ++ cSlash :: n.ns ++ cSlash :: n.model ++ cSlash :: n.tag))).drop 10
          = x :: (hs ++ cSlash :: n.ns ++ cSlash :: n.model ++ cSlash :: n.tag) := by simp [sManifests]
      simp only [ht, hd, beq_self_eq_true, if_true]
      rw [splitLast_append _ (hs ++ cSlash :: n.ns ++ cSlash :: n.model) n.tag cSlash (by simp)
        (fun c hc => by simpa using p.tslash c hc)]
      simp only
      rw [runesRoundTrip_ascii _ hasc, hx]
      simp
    refine ⟨e1, ?_⟩
    rw [e1]
    have hpp : parseN (toStr n) = n := print_parse_names n hfq
    simp only [nameToPath, hpp, hfq, if_true]
    rw [← hnp', pathJoin_parts hfqM]

example : nameToPath [104, 47, 110, 47, 109, 58, 116] = some [104, 47, 110, 47, 109, 47, 116] ∧
    pathToName (pathJoin [sManifests, [104, 47, 110, 47, 109, 47, 116]]) = [104, 47, 110, 47, 109, 58, 116] ∧
    pathToName (sManifestsSlash ++ [0xC5, 0xBF, 47, 110, 47, 109, 47, 0xFF]) = [0xC5, 0xBF, 47, 110, 47, 109, 58, 0xEF, 0xBF, 0xBD] := by
  decide


/-! ## 17. the third printer, `Name.DisplayShortest` -/


theorem cutTag_append (b t : Bytes) (hb : b ≠ []) (ht : t ≠ []) (hts : ∀ c ∈ t, c ≠ cSlash) (htc : ∀ c ∈ t, c ≠ cColon) :
    cutTag (b ++ cColon :: t) = (b, t) := by
  unfold cutTag
  rw [splitLast_append _ _ _ cColon (by decide)]
  · simp only [orMissing_ne hb, orMissing_ne ht]; simp
  · intro x hx
    have := hts x hx; have := htc x hx
    simp [*]

theorem cutPromised_append (b a : Bytes) (hb : b ≠ []) (ha : a ≠ []) (has : ∀ c ∈ a, c ≠ cSlash) :
    cutPromised cSlash (b ++ cSlash :: a) = some (b, a) := by
  unfold cutPromised
  rw [splitLast_append _ b a cSlash (by simp)]
  · simp only [orMissing_ne hb, orMissing_ne ha]
  · intro x hx; simpa using has x hx

theorem cutPromised_none (s : Bytes) (h : ∀ c ∈ s, c ≠ cSlash) : cutPromised cSlash s = none := by
  unfold cutPromised
  rw [splitLast_none _ _ (fun c hc => by simpa using h c hc)]

/-- **The third printer** (`Name.DisplayShortest`, what `list` / `ps` show): for every fully qualified name, reading the
    printed form back with `ParseName` gives the same model and tag, the same host unless the host is a case variant of
    `registry.ollama.ai` (then the default spelling), and the same namespace unless host and namespace are both case variants of
    the defaults.  So the round trip is exact except for the letter case of an abbreviated default part. -/
theorem displayShortest_roundtrip (n : Name) (h : isFQM n = true) :
    (parseName (displayShortest n)).model = n.model ∧ (parseName (displayShortest n)).tag = n.tag ∧
    ((parseName (displayShortest n)).host = n.host ∨
      (equalFold sDefaultHost n.host = true ∧ (parseName (displayShortest n)).host = sDefaultHost)) ∧
    ((parseName (displayShortest n)).ns = n.ns ∨
      (equalFold sDefaultHost n.host = true ∧ equalFold sLibrary n.ns = true ∧
        (parseName (displayShortest n)).ns = sLibrary)) := by
  have p := fqParts_of_isFQM h
  have hm_slash : ∀ c ∈ n.model, c ≠ cSlash := p.mslash
  cases hh : equalFold sDefaultHost n.host with
  | false =>
    have e : displayShortest n = toStr n := by
      rw [toStr_fq p]; simp [displayShortest, hh]
    rw [e, (print_parse_model n h).2]
    exact ⟨rfl, rfl, Or.inl rfl, Or.inl rfl⟩
  | true =>
    cases hn : equalFold sLibrary n.ns with
    | false =>
      have e : displayShortest n = (n.ns ++ cSlash :: n.model) ++ cColon :: n.tag := by
        simp [displayShortest, hh, hn]
      have hb : parseNameBare (displayShortest n) = { ns := n.ns, model := n.model, tag := n.tag } := by
        rw [e]
        unfold parseNameBare
        simp only [cutTag_append (n.ns ++ cSlash :: n.model) n.tag (by simp) p.tne p.tslash p.tcolon,
          cutPromised_append n.ns n.model p.nne p.mne p.mslash, cutPromised_none n.ns p.nslash]
      have hnsne : n.ns.isEmpty = false := by simpa [List.isEmpty_iff] using p.nne
      have htne : n.tag.isEmpty = false := by simpa [List.isEmpty_iff] using p.tne
      rw [parseName, hb]
      simp [merge, orElse, defaultName, hnsne, htne]
    | true =>
      have e : displayShortest n = n.model ++ cColon :: n.tag := by
        simp [displayShortest, hh, hn]
      have hmt : ∀ c ∈ n.model, c ≠ cSlash := p.mslash
      have hb : parseNameBare (displayShortest n) = { model := n.model, tag := n.tag } := by
        rw [e]
        unfold parseNameBare
        simp only [cutTag_append n.model n.tag p.mne p.tne p.tslash p.tcolon, cutPromised_none n.model p.mslash]
      have htne : n.tag.isEmpty = false := by simpa [List.isEmpty_iff] using p.tne
      rw [parseName, hb]
      simp [merge, orElse, defaultName, htne]

/-- the exception is real: `REGISTRY.OLLAMA.AI/Library/m:t` is printed as `m:t`, which reads back with the default spellings
    (a different legacy manifest path; the lookup that bridges it is `getExistingName`, C04) -/
theorem displayShortest_case_witness :
    let n : Name := { host := sDefaultHost.map (fun c => if 97 ≤ c ∧ c ≤ 122 then c - 32 else c), ns := [76, 105, 98, 114, 97, 114, 121],
                      model := [109], tag := [116] }
    isFQM n = true ∧ displayShortest n = [109, 58, 116] ∧ parseName (displayShortest n) ≠ n ∧
    filepathM (parseName (displayShortest n)) ≠ filepathM n := by
  decide


/-! ## 18. `ParseModelPath` and `model.ParseName` on the same input -/


theorem splitFirst_none_all (p : UInt8 → Bool) (s : Bytes) (h : splitFirst p s = none) : ∀ c ∈ s, p c = false := by
  induction s with
  | nil => intro c hc; cases hc
  | cons x xs ih =>
    simp only [splitFirst] at h
    split at h
    · cases h
    · rename_i hx
      split at h
      · cases h
      · rename_i hrec
        intro c hc
        rcases List.mem_cons.mp hc with rfl | hc
        · simpa using hx
        · exact ih hrec c hc

theorem cutTag_none (s : Bytes) (h1 : ∀ c ∈ s, c ≠ cSlash) (h2 : ∀ c ∈ s, c ≠ cColon) : cutTag s = (s, []) := by
  unfold cutTag
  rw [splitLast_none _ _ (fun c hc => by have := h1 c hc; have := h2 c hc; simp [*])]

/-- `cutTag` when the last separator of the string is a `/`: nothing is cut -/
theorem cutTag_slash (b a : Bytes) (h1 : ∀ c ∈ a, c ≠ cSlash) (h2 : ∀ c ∈ a, c ≠ cColon) :
    cutTag (b ++ cSlash :: a) = (b ++ cSlash :: a, []) := by
  unfold cutTag
  rw [splitLast_append _ b a cSlash (by decide) (fun c hc => by have := h1 c hc; have := h2 c hc; simp [*])]
  simp [cSlash, cColon]

/-- **The two parsers of the legacy server agree on scheme-less input**: for every string without `://` that `ParseModelPath`
    turns into four valid parts, `model.ParseName` accepts it too and reads exactly the same host / namespace / model / tag
    (so `GetManifestPath` and `ParseName(..).Filepath()` address the same manifest).  With a scheme the two differ in what they
    accept (`x://m` is a ModelPath with default host and namespace, an invalid Name) — monitored by L2 on accepted inputs. -/
theorem cross_modelpath_partial (s : Bytes) (hs : cutScheme s = none)
    (h : isFQM (parseModelPath s).toName = true) : parseName s = (parseModelPath s).toName := by
  have hjoin := joinWith_splitOn cSlash s
  unfold parseModelPath at h ⊢
  simp only [hs] at h ⊢
  rcases hps : splitOn cSlash s with _ | ⟨a, _ | ⟨b, _ | ⟨c, _ | ⟨d, rest⟩⟩⟩⟩
  · exact absurd hps (splitOn_ne_nil _ _)
  · -- one piece: [model[:tag]]
    rw [hps] at hjoin
    simp only [joinWith] at hjoin
    subst hjoin
    simp only [hps] at h ⊢
    cases hsf : splitFirst (· == cColon) a with
    | none =>
      simp only [hsf, ModelPath.toName] at h ⊢
      have p := fqParts_of_isFQM h
      have hnc : ∀ c ∈ a, c ≠ cColon := fun c hc => by simpa using splitFirst_none_all _ _ hsf c hc
      have hb : parseNameBare a = { model := a } := by
        unfold parseNameBare
        simp only [cutTag_none a p.mslash hnc, cutPromised_none a p.mslash]
      rw [parseName, hb]
      simp [merge, orElse, defaultName, sDefaultHost, sLibrary, sLatest]
    | some v =>
      obtain ⟨r, t, c⟩ := v
      simp only [hsf, ModelPath.toName] at h ⊢
      have p := fqParts_of_isFQM h
      obtain ⟨e, hc⟩ := splitFirst_some _ _ _ _ _ hsf
      have hcc : c = cColon := by simpa using hc
      subst hcc
      have htne : t.isEmpty = false := by simpa [List.isEmpty_iff] using p.tne
      have hb : parseNameBare a = { model := r, tag := t } := by
        rw [e]
        unfold parseNameBare
        simp only [cutTag_append r t p.mne p.tne p.tslash p.tcolon, cutPromised_none r p.mslash]
      rw [parseName, hb]
      simp [merge, orElse, defaultName, htne, sDefaultHost, sLibrary]
  · -- two pieces: ns/model[:tag]
    rw [hps] at hjoin
    simp only [joinWith] at hjoin
    subst hjoin
    simp only [hps] at h ⊢
    cases hsf : splitFirst (· == cColon) b with
    | none =>
      simp only [hsf, ModelPath.toName] at h ⊢
      have p := fqParts_of_isFQM h
      have hnc : ∀ c ∈ b, c ≠ cColon := fun c hc => by simpa using splitFirst_none_all _ _ hsf c hc
      have hnsne : a.isEmpty = false := by simpa [List.isEmpty_iff] using p.nne
      have hb : parseNameBare (a ++ cSlash :: b) = { ns := a, model := b } := by
        unfold parseNameBare
        simp only [cutTag_slash a b p.mslash hnc, cutPromised_append a b p.nne p.mne p.mslash, cutPromised_none a p.nslash]
      rw [parseName, hb]
      simp [merge, orElse, defaultName, hnsne, sDefaultHost, sLatest]
    | some v =>
      obtain ⟨r, t, c⟩ := v
      simp only [hsf, ModelPath.toName] at h ⊢
      have p := fqParts_of_isFQM h
      obtain ⟨e, hc⟩ := splitFirst_some _ _ _ _ _ hsf
      have hcc : c = cColon := by simpa using hc
      subst hcc
      have htne : t.isEmpty = false := by simpa [List.isEmpty_iff] using p.tne
      have hnsne : a.isEmpty = false := by simpa [List.isEmpty_iff] using p.nne
      have hb : parseNameBare (a ++ cSlash :: b) = { ns := a, model := r, tag := t } := by
        rw [e]
        have e2 : a ++ cSlash :: (r ++ cColon :: t) = (a ++ cSlash :: r) ++ cColon :: t := by simp
        rw [e2]
        unfold parseNameBare
        simp only [cutTag_append (a ++ cSlash :: r) t (by simp) p.tne p.tslash p.tcolon,
          cutPromised_append a r p.nne p.mne p.mslash, cutPromised_none a p.nslash]
      rw [parseName, hb]
      simp [merge, orElse, defaultName, htne, hnsne, sDefaultHost]
  · -- three pieces: host/ns/model[:tag]
    rw [hps] at hjoin
    simp only [joinWith] at hjoin
    subst hjoin
    simp only [hps] at h ⊢
    cases hsf : splitFirst (· == cColon) c with
    | none =>
      simp only [hsf, ModelPath.toName] at h ⊢
      have p := fqParts_of_isFQM h
      have hnc : ∀ x ∈ c, x ≠ cColon := fun x hx => by simpa using splitFirst_none_all _ _ hsf x hx
      have hhne : a.isEmpty = false := by simpa [List.isEmpty_iff] using p.hne
      have hnsne : b.isEmpty = false := by simpa [List.isEmpty_iff] using p.nne
      have hb : parseNameBare (a ++ cSlash :: (b ++ cSlash :: c)) = { host := a, ns := b, model := c } := by
        have e2 : a ++ cSlash :: (b ++ cSlash :: c) = (a ++ cSlash :: b) ++ cSlash :: c := by simp
        rw [e2]
        unfold parseNameBare
        simp only [cutTag_slash (a ++ cSlash :: b) c p.mslash hnc,
          cutPromised_append (a ++ cSlash :: b) c (by simp) p.mne p.mslash,
          cutPromised_append a b p.hne p.nne p.nslash, cutScheme_none a p.hslash]
      rw [parseName, hb]
      simp [merge, orElse, defaultName, hhne, hnsne, sLatest]
    | some v =>
      obtain ⟨r, t, d⟩ := v
      simp only [hsf, ModelPath.toName] at h ⊢
      have p := fqParts_of_isFQM h
      obtain ⟨e, hc⟩ := splitFirst_some _ _ _ _ _ hsf
      have hcc : d = cColon := by simpa using hc
      subst hcc
      have htne : t.isEmpty = false := by simpa [List.isEmpty_iff] using p.tne
      have hhne : a.isEmpty = false := by simpa [List.isEmpty_iff] using p.hne
      have hnsne : b.isEmpty = false := by simpa [List.isEmpty_iff] using p.nne
      have hb : parseNameBare (a ++ cSlash :: (b ++ cSlash :: c)) = { host := a, ns := b, model := r, tag := t } := by
        rw [e]
        have e2 : a ++ cSlash :: (b ++ cSlash :: (r ++ cColon :: t)) = ((a ++ cSlash :: b) ++ cSlash :: r) ++ cColon :: t := by simp
        rw [e2]
        unfold parseNameBare
        simp only [cutTag_append ((a ++ cSlash :: b) ++ cSlash :: r) t (by simp) p.tne p.tslash p.tcolon,
          cutPromised_append (a ++ cSlash :: b) r (by simp) p.mne p.mslash,
          cutPromised_append a b p.hne p.nne p.nslash, cutScheme_none a p.hslash]
      rw [parseName, hb]
      simp [merge, orElse, htne, hhne, hnsne]
  · -- four or more pieces: the repository stays empty, never valid
    exfalso
    simp only [hps] at h
    have : splitFirst (· == cColon) ([] : Bytes) = none := rfl
    simp only [this, ModelPath.toName] at h
    have p := fqParts_of_isFQM h
    exact p.mne rfl


/-- without the guard the statement is false: `x://m` is a ModelPath with default host and namespace (manifest path of
    `registry.ollama.ai/library/m:latest`), while `model.ParseName` rejects it -/
theorem cross_modelpath_scheme_witness :
    isFQM (parseModelPath [120, 58, 47, 47, 109]).toName = true ∧ isFQM (parseName [120, 58, 47, 47, 109]) = false ∧
    cutScheme [120, 58, 47, 47, 109] ≠ none := by decide

/-- non-vacuity of `cross_modelpath_partial`: `localhost:5000/n/m.1:v2` (a port in the host, so a `:` before the last `/`) -/
example :
    let s : Bytes := [108, 58, 53, 47, 110, 47, 109, 46, 49, 58, 118, 50]
    cutScheme s = none ∧ isFQM (parseModelPath s).toName = true ∧
    parseName s = { host := [108, 58, 53], ns := [110], model := [109, 46, 49], tag := [118, 50] } := by decide

/-! ## 19. … with a scheme, and the full agreement statement -/


/-- what `ParseNameBare` makes of everything before the last `/`: (host, namespace) -/
def hostNs (P : Bytes) : Bytes × Bytes :=
  match cutPromised cSlash P with
  | none => ([], P)
  | some (s2, ns) => ((match cutScheme s2 with | some (_, h) => h | none => s2), ns)

theorem parseNameBare_slash_tag (P r t : Bytes) (hP : P ≠ []) (hr : r ≠ []) (hrs : ∀ c ∈ r, c ≠ cSlash)
    (ht : t ≠ []) (hts : ∀ c ∈ t, c ≠ cSlash) (htc : ∀ c ∈ t, c ≠ cColon) :
    parseNameBare ((P ++ cSlash :: r) ++ cColon :: t) = { host := (hostNs P).1, ns := (hostNs P).2, model := r, tag := t } := by
  unfold parseNameBare hostNs
  simp only [cutTag_append (P ++ cSlash :: r) t (by simp) ht hts htc, cutPromised_append P r hP hr hrs]
  cases cutPromised cSlash P with
  | none => rfl
  | some v => rfl

theorem parseNameBare_slash_notag (P r : Bytes) (hP : P ≠ []) (hr : r ≠ []) (hrs : ∀ c ∈ r, c ≠ cSlash)
    (hrc : ∀ c ∈ r, c ≠ cColon) :
    parseNameBare (P ++ cSlash :: r) = { host := (hostNs P).1, ns := (hostNs P).2, model := r, tag := [] } := by
  unfold parseNameBare hostNs
  simp only [cutTag_slash P r hrs hrc, cutPromised_append P r hP hr hrs]
  cases cutPromised cSlash P with
  | none => rfl
  | some v => rfl

theorem cutScheme_some (s b a : Bytes) (h : cutScheme s = some (b, a)) : s = b ++ 58 :: 47 :: 47 :: a := by
  induction s generalizing b with
  | nil => simp [cutScheme] at h
  | cons x xs ih =>
    simp only [cutScheme] at h
    split at h
    · rename_i hc
      simp only [Option.some.injEq, Prod.mk.injEq] at h
      obtain ⟨rfl, rfl⟩ := h
      simp only [Bool.and_eq_true, beq_iff_eq] at hc
      obtain ⟨rfl, h2⟩ := hc
      have := List.take_append_drop 2 xs
      rw [h2] at this
      rw [← this]; rfl
    · split at h
      · rename_i b' a' hrec
        simp only [Option.some.injEq, Prod.mk.injEq] at h
        obtain ⟨rfl, rfl⟩ := h
        rw [ih b' hrec]; rfl
      · cases h

/-- the first `://` of a string is also the first `://` of any prefix that contains it -/
theorem cutScheme_prefix (b a h : Bytes) (hs : cutScheme (b ++ 58 :: 47 :: 47 :: a) = some (b, a)) :
    cutScheme (b ++ 58 :: 47 :: 47 :: h) = some (b, h) := by
  induction b with
  | nil => simp [cutScheme]
  | cons x b' ih =>
    simp only [List.cons_append, cutScheme] at hs ⊢
    have ht : (b' ++ 58 :: 47 :: 47 :: a).take 2 = (b' ++ 58 :: 47 :: 47 :: h).take 2 := by
      cases b' with
      | nil => rfl
      | cons y ys => cases ys <;> rfl
    rw [← ht]
    split at hs
    · simp at hs
    · rename_i hc
      simp only [hc, if_false, Bool.false_eq_true]
      split at hs
      · rename_i b2 a2 hrec
        simp only [Option.some.injEq, Prod.mk.injEq, List.cons.injEq, true_and] at hs
        obtain ⟨rfl, rfl⟩ := hs
        rw [ih hrec]
      · cases hs

theorem host_of_colonSlash (b : Bytes) :
    (match cutScheme (b ++ [58, 47]) with | some (_, h) => h | none => b ++ [58, 47]) ≠ [] ∧
    cSlash ∈ (match cutScheme (b ++ [58, 47]) with | some (_, h) => h | none => b ++ [58, 47]) := by
  cases hcs : cutScheme (b ++ [58, 47]) with
  | none => exact ⟨by simp, by simp [cSlash]⟩
  | some v =>
    obtain ⟨x, h''⟩ := v
    show h'' ≠ [] ∧ cSlash ∈ h''
    have e := cutScheme_some _ _ _ hcs
    have er := congrArg List.reverse e
    simp only [List.reverse_append, List.reverse_cons, List.reverse_nil, List.nil_append, List.append_assoc,
      List.cons_append] at er
    cases hr : h''.reverse with
    | nil =>
      rw [hr] at er
      simp at er
    | cons y ys =>
      rw [hr] at er
      simp only [List.cons_append, List.cons.injEq] at er
      have hy : y = 47 := er.1.symm
      have hmem : y ∈ h'' := by
        have : y ∈ h''.reverse := by rw [hr]; exact List.mem_cons_self
        simpa using this
      refine ⟨?_, ?_⟩
      · intro hnil; rw [hnil] at hmem; cases hmem
      · rw [hy] at hmem; exact hmem

theorem isFQM_host_slash (n : Name) (h : cSlash ∈ n.host) : isFQM n = false := by
  cases hq : isFQM n with
  | false => rfl
  | true => exact absurd rfl ((fqParts_of_isFQM hq).hslash cSlash h)

/-- **… and with a scheme**: whenever BOTH parsers accept a string containing `://`, they read the same four parts (the string
    then has the full form `scheme://host/ns/model[:tag]`; the shorter forms `x://m`, `x://n/m` are ModelPaths but never
    valid Names). -/
theorem cross_modelpath_scheme (s b a : Bytes) (hs : cutScheme s = some (b, a))
    (h : isFQM (parseModelPath s).toName = true) (h2 : isFQM (parseName s) = true) :
    parseName s = (parseModelPath s).toName := by
  have hsa := cutScheme_some _ _ _ hs
  subst hsa
  have hjoin := joinWith_splitOn cSlash a
  unfold parseModelPath at h ⊢
  simp only [hs] at h ⊢
  rcases hps : splitOn cSlash a with _ | ⟨p1, _ | ⟨p2, _ | ⟨p3, _ | ⟨p4, rest⟩⟩⟩⟩
  · exact absurd hps (splitOn_ne_nil _ _)
  · -- scheme://model[:tag]: ParseName promises a namespace that is missing
    exfalso
    rw [hps] at hjoin
    simp only [joinWith] at hjoin
    subst hjoin
    simp only [hps] at h
    have hP : cutPromised cSlash (b ++ [58, 47]) = some (b ++ [58], sMissing) := by
      have e : b ++ [58, 47] = (b ++ [58]) ++ cSlash :: [] := by simp [cSlash]
      rw [e]; unfold cutPromised
      rw [splitLast_append _ (b ++ [58]) [] cSlash (by simp) (by intro x hx; cases hx)]
      simp [orMissing, orElse]
    have hhn : (hostNs (b ++ [58, 47])).2 = sMissing := by simp [hostNs, hP]
    have e0 : b ++ 58 :: 47 :: 47 :: p1 = (b ++ [58, 47]) ++ cSlash :: p1 := by simp [cSlash]
    have hbad : ∀ m t : Bytes, isFQM (merge { host := (hostNs (b ++ [58, 47])).1, ns := (hostNs (b ++ [58, 47])).2, model := m, tag := t } defaultName) = false := by
      intro m t
      have hns : validPartM .ns (orElse sMissing defaultName.ns) = false := by decide
      simp only [isFQM, merge, hhn, hns]
      simp
    cases hsf : splitFirst (· == cColon) p1 with
    | none =>
      simp only [hsf, ModelPath.toName] at h
      have p := fqParts_of_isFQM h
      have hnc : ∀ c ∈ p1, c ≠ cColon := fun c hc => by simpa using splitFirst_none_all _ _ hsf c hc
      rw [parseName, e0, parseNameBare_slash_notag _ p1 (by simp) p.mne p.mslash hnc, hbad] at h2
      cases h2
    | some v =>
      obtain ⟨r, t, c⟩ := v
      simp only [hsf, ModelPath.toName] at h
      have p := fqParts_of_isFQM h
      obtain ⟨e, hc⟩ := splitFirst_some _ _ _ _ _ hsf
      have hcc : c = cColon := by simpa using hc
      subst hcc
      have e1 : (b ++ [58, 47]) ++ cSlash :: p1 = ((b ++ [58, 47]) ++ cSlash :: r) ++ cColon :: t := by rw [e]; simp
      rw [parseName, e0, e1, parseNameBare_slash_tag _ r t (by simp) p.mne p.mslash p.tne p.tslash p.tcolon, hbad] at h2
      cases h2
  · -- scheme://ns/model[:tag]: what ParseName takes for the host ends in `/`
    exfalso
    rw [hps] at hjoin
    simp only [joinWith] at hjoin
    subst hjoin
    simp only [hps] at h
    have e0 : b ++ 58 :: 47 :: 47 :: (p1 ++ cSlash :: p2) = ((b ++ [58, 47]) ++ cSlash :: p1) ++ cSlash :: p2 := by simp [cSlash]
    have hbad : ∀ (hn : p1 ≠ []) (hns : ∀ c ∈ p1, c ≠ cSlash) (m t : Bytes),
        isFQM (merge { host := (hostNs ((b ++ [58, 47]) ++ cSlash :: p1)).1, ns := (hostNs ((b ++ [58, 47]) ++ cSlash :: p1)).2, model := m, tag := t } defaultName) = false := by
      intro hn hns m t
      have hP := cutPromised_append (b ++ [58, 47]) p1 (by simp) hn hns
      obtain ⟨hne, hmem⟩ := host_of_colonSlash b
      apply isFQM_host_slash
      simp only [hostNs, hP, merge]
      rw [orElse_ne hne]; exact hmem
    cases hsf : splitFirst (· == cColon) p2 with
    | none =>
      simp only [hsf, ModelPath.toName] at h
      have p := fqParts_of_isFQM h
      have hnc : ∀ c ∈ p2, c ≠ cColon := fun c hc => by simpa using splitFirst_none_all _ _ hsf c hc
      rw [parseName, e0, parseNameBare_slash_notag _ p2 (by simp) p.mne p.mslash hnc, hbad p.nne p.nslash] at h2
      cases h2
    | some v =>
      obtain ⟨r, t, c⟩ := v
      simp only [hsf, ModelPath.toName] at h
      have p := fqParts_of_isFQM h
      obtain ⟨e, hc⟩ := splitFirst_some _ _ _ _ _ hsf
      have hcc : c = cColon := by simpa using hc
      subst hcc
      have e1 : ((b ++ [58, 47]) ++ cSlash :: p1) ++ cSlash :: p2 = (((b ++ [58, 47]) ++ cSlash :: p1) ++ cSlash :: r) ++ cColon :: t := by
        rw [e]; simp
      rw [parseName, e0, e1, parseNameBare_slash_tag _ r t (by simp) p.mne p.mslash p.tne p.tslash p.tcolon,
        hbad p.nne p.nslash] at h2
      cases h2
  · -- scheme://host/ns/model[:tag]
    rw [hps] at hjoin
    simp only [joinWith] at hjoin
    subst hjoin
    simp only [hps] at h ⊢
    have e0 : b ++ 58 :: 47 :: 47 :: (p1 ++ cSlash :: (p2 ++ cSlash :: p3))
        = ((b ++ 58 :: 47 :: 47 :: p1) ++ cSlash :: p2) ++ cSlash :: p3 := by simp
    have hhn : ∀ (h1 : p2 ≠ []) (h2' : ∀ c ∈ p2, c ≠ cSlash), hostNs ((b ++ 58 :: 47 :: 47 :: p1) ++ cSlash :: p2) = (p1, p2) := by
      intro h1 h2'
      simp only [hostNs, cutPromised_append (b ++ 58 :: 47 :: 47 :: p1) p2 (by simp) h1 h2', cutScheme_prefix b _ p1 hs]
    cases hsf : splitFirst (· == cColon) p3 with
    | none =>
      simp only [hsf, ModelPath.toName] at h ⊢
      have p := fqParts_of_isFQM h
      have hnc : ∀ c ∈ p3, c ≠ cColon := fun c hc => by simpa using splitFirst_none_all _ _ hsf c hc
      have hhne : p1.isEmpty = false := by simpa [List.isEmpty_iff] using p.hne
      have hnsne : p2.isEmpty = false := by simpa [List.isEmpty_iff] using p.nne
      rw [parseName, e0, parseNameBare_slash_notag _ p3 (by simp) p.mne p.mslash hnc, hhn p.nne p.nslash]
      simp [merge, orElse, defaultName, hhne, hnsne, sLatest]
    | some v =>
      obtain ⟨r, t, c⟩ := v
      simp only [hsf, ModelPath.toName] at h ⊢
      have p := fqParts_of_isFQM h
      obtain ⟨e, hc⟩ := splitFirst_some _ _ _ _ _ hsf
      have hcc : c = cColon := by simpa using hc
      subst hcc
      have htne : t.isEmpty = false := by simpa [List.isEmpty_iff] using p.tne
      have hhne : p1.isEmpty = false := by simpa [List.isEmpty_iff] using p.hne
      have hnsne : p2.isEmpty = false := by simpa [List.isEmpty_iff] using p.nne
      have e1 : ((b ++ 58 :: 47 :: 47 :: p1) ++ cSlash :: p2) ++ cSlash :: p3
          = ((((b ++ 58 :: 47 :: 47 :: p1) ++ cSlash :: p2)) ++ cSlash :: r) ++ cColon :: t := by rw [e]; simp
      rw [parseName, e0, e1, parseNameBare_slash_tag _ r t (by simp) p.mne p.mslash p.tne p.tslash p.tcolon, hhn p.nne p.nslash]
      simp [merge, orElse, htne, hhne, hnsne]
  · exfalso
    simp only [hps] at h
    have : splitFirst (· == cColon) ([] : Bytes) = none := rfl
    simp only [this, ModelPath.toName] at h
    exact (fqParts_of_isFQM h).mne rfl

/-- **`ParseModelPath` and `model.ParseName` agree on every input both accept** (with or without a scheme). -/
theorem cross_modelpath (s : Bytes) (h : isFQM (parseModelPath s).toName = true) (h2 : isFQM (parseName s) = true) :
    parseName s = (parseModelPath s).toName := by
  cases hs : cutScheme s with
  | none => exact cross_modelpath_partial s hs h
  | some v => obtain ⟨b, a⟩ := v; exact cross_modelpath_scheme s b a hs h h2

example :
    let s : Bytes := [104, 116, 116, 112, 58, 47, 47, 104, 47, 110, 47, 109, 58, 116]   -- http://h/n/m:t
    cutScheme s ≠ none ∧ isFQM (parseModelPath s).toName = true ∧ isFQM (parseName s) = true := by decide


/-! ## 20. the empty digest under any models directory -/


/-- **The empty digest under any models directory**: `GetBlobsPath("")` is the blobs directory of `Clean(models)` — the
    components of `Clean(models)` followed by exactly `blobs`. -/
theorem blob_path_empty_anyroot (root : Bytes) (hne : root ≠ []) :
    getBlobsPath root [] = some (renderPath (isRooted root) (rootStack root ++ [sBlobs])) := by
  have hroot : root.isEmpty = false := by simpa [List.isEmpty_iff] using hne
  have hj : joinWith cSlash [root, sBlobs, []] = root ++ cSlash :: (sBlobs ++ [cSlash]) := by simp [joinWith]
  have hne2 : (root ++ cSlash :: (sBlobs ++ [cSlash])).isEmpty = false := by
    cases root with
    | nil => exact absurd rfl hne
    | cons x xs => rfl
  have hhead : (root ++ cSlash :: (sBlobs ++ [cSlash])).head? = root.head? := by
    cases root with
    | nil => exact absurd rfl hne
    | cons x xs => rfl
  have hsb : splitOn cSlash (sBlobs ++ [cSlash]) = [sBlobs, []] := by decide
  have hstep : ∀ st, cleanStep (root.head? == some cSlash) (cleanStep (root.head? == some cSlash) st sBlobs) [] = sBlobs :: st := by
    intro st
    have h1 : cleanStep (root.head? == some cSlash) st sBlobs = sBlobs :: st :=
      cleanStep_clean _ st sBlobs safe_blobs.toClean
    rw [h1]; simp [cleanStep]
  simp only [getBlobsPath, List.isEmpty_nil, Bool.not_true, Bool.false_and, Bool.false_eq_true, if_false]
  congr 1
  show pathJoin [root, sBlobs, colonToDash []] = _
  unfold pathJoin
  simp only [colonToDash, List.map_nil, List.dropWhile, hroot]
  rw [hj]
  unfold clean
  simp only [hne2, Bool.false_eq_true, if_false, hhead, splitOn_append_sep, hsb, List.foldl_append, List.foldl_cons,
    List.foldl_nil, hstep]
  unfold renderPath rootStack isRooted
  simp only [List.reverse_cons]

example : getBlobsPath [46, 47, 120, 47, 46, 46, 47, 109, 47, 47] [] = some [109, 47, 98, 108, 111, 98, 115] := by decide


/-! ## 21. `model.Name.EqualFold` and the cache's case folding -/


/-- for ASCII strings on both sides `strings.EqualFold` is equality of the lower-cased strings -/
theorem equalFold_ascii_iff (w y : Bytes) (hw : ∀ c ∈ w, c.toNat < 128) (hy : ∀ c ∈ y, c.toNat < 128) :
    equalFold w y = true ↔ w.map toLowerB = y.map toLowerB := by
  constructor
  · intro h
    unfold equalFold at h
    induction w generalizing y with
    | nil =>
      cases y with
      | nil => rfl
      | cons b ys => simp [foldMatch] at h
    | cons c cs ih =>
      cases y with
      | nil => simp [foldMatch] at h
      | cons b ys =>
        have hb : b < 128 := by
          rw [UInt8.lt_iff_toNat_lt]; simpa using hy b List.mem_cons_self
        simp only [List.map_cons, foldMatch, hb, if_true, Bool.and_eq_true, beq_iff_eq] at h
        simp only [List.map_cons, List.cons.injEq]
        exact ⟨h.1.symm, ih ys (fun c' hc' => hw c' (List.mem_cons_of_mem _ hc'))
          (fun c' hc' => hy c' (List.mem_cons_of_mem _ hc')) h.2⟩
  · exact equalFold_of_lowerEq w y hw

/-- **The legacy server's and the new cache's notions of "same name up to case" coincide** on valid names:
    `model.Name.EqualFold` (part by part, what `getExistingName` compares) holds iff the parts have equal lower-case forms,
    which is the hypothesis under which the cache sends both names to the same manifest (`fold_same_path`). -/
theorem nameEqualFold_iff (a b : Name) (ha : isFQM a = true) (hb : isFQM b = true) :
    nameEqualFold a b = true ↔ foldEqName a b := by
  simp only [isFQM, Bool.and_eq_true] at ha hb
  obtain ⟨⟨⟨ah, an⟩, am⟩, at'⟩ := ha
  obtain ⟨⟨⟨bh, bn⟩, bm⟩, bt⟩ := hb
  have A := fun k s (h : validPartM k s = true) => charsOk_ascii k s (validPartM_charsOk h)
  simp only [nameEqualFold, Bool.and_eq_true, foldEqName,
    equalFold_ascii_iff _ _ (A _ _ ah) (A _ _ bh), equalFold_ascii_iff _ _ (A _ _ an) (A _ _ bn),
    equalFold_ascii_iff _ _ (A _ _ am) (A _ _ bm), equalFold_ascii_iff _ _ (A _ _ at') (A _ _ bt)]
  constructor
  · rintro ⟨⟨⟨h1, h2⟩, h3⟩, h4⟩; exact ⟨h1, h2, h3, h4⟩
  · rintro ⟨h1, h2, h3, h4⟩; exact ⟨⟨⟨h1, h2⟩, h3⟩, h4⟩

/-- … hence two valid names that the legacy server treats as the same model (`EqualFold`) select the same link in every
    cache directory listing: the new cache never separates what the legacy lookup joins. -/
theorem equalFold_names_same_cache_link (links : List Bytes) (a b : Name) (ha : isFQM a = true) (hb : isFQM b = true)
    (h : nameEqualFold a b = true) :
    links.find? (equalFold (pathJoin [sManifests, joinWith cSlash [a.host, a.ns, a.model, a.tag]]))
      = links.find? (equalFold (pathJoin [sManifests, joinWith cSlash [b.host, b.ns, b.model, b.tag]])) := by
  have hfa : isFQN a = true := by rw [← isFQM_eq_isFQN]; exact ha
  have hfb : isFQN b = true := by rw [← isFQM_eq_isFQN]; exact hb
  have pa : parseN (toStr a) = a := print_parse_names a hfa
  have pb : parseN (toStr b) = b := print_parse_names b hfb
  have h1 : nameToPath (toStr a) ≠ none := by simp [nameToPath, pa, hfa]
  have h2 : nameToPath (toStr b) ≠ none := by simp [nameToPath, pb, hfb]
  have hf : foldEqName (parseN (toStr a)) (parseN (toStr b)) := by
    rw [pa, pb]; exact (nameEqualFold_iff a b ha hb).mp h
  have := (fold_same_path [] links (toStr a) (toStr b) h1 h2 hf).1
  simpa only [pa, pb] using this

example :
    let a : Name := { host := [104], ns := [110], model := [80, 104, 105], tag := [116] }
    let b : Name := { host := [72], ns := [78], model := [112, 72, 73], tag := [84] }
    isFQM a = true ∧ isFQM b = true ∧ nameEqualFold a b = true ∧ a ≠ b := by decide


/-! ## 22. end to end: handlers (name → manifest path, digest → blob path) -/


/-! what `routes.go getExistingName` may return for the request name `n` over the names `es` of the store (keys of
    `Manifests(true)`): every part is the request's own part or the SAME-KIND part of an existing name (the exact-match and
    whole-name EqualFold branches return an element of `es`, the part-wise branch replaces parts one by one).  The relation
    over-approximates the function, so the theorem below holds whatever order / matching rule the lookup uses. -/
def ExistingResult (es : List Name) (n r : Name) : Prop :=
  (r.host = n.host ∨ ∃ e ∈ es, r.host = e.host) ∧ (r.ns = n.ns ∨ ∃ e ∈ es, r.ns = e.ns) ∧
  (r.model = n.model ∨ ∃ e ∈ es, r.model = e.model) ∧ (r.tag = n.tag ∨ ∃ e ∈ es, r.tag = e.tag)

theorem existingResult_fq (es : List Name) (hes : ∀ e ∈ es, isFQM e = true) (n r : Name) (hn : isFQM n = true)
    (hr : ExistingResult es n r) : isFQM r = true := by
  have part : ∀ (k : Kind) (f : Name → Bytes), validPartM k (f n) = true → (∀ e ∈ es, validPartM k (f e) = true) →
      (f r = f n ∨ ∃ e ∈ es, f r = f e) → validPartM k (f r) = true := by
    intro k f h1 h2 h3
    rcases h3 with h | ⟨e, he, h⟩
    · rw [h]; exact h1
    · rw [h]; exact h2 e he
  have split : ∀ e, isFQM e = true → validPartM .host e.host = true ∧ validPartM .ns e.ns = true ∧
      validPartM .model e.model = true ∧ validPartM .tag e.tag = true := by
    intro e he
    simp only [isFQM, Bool.and_eq_true] at he
    exact ⟨he.1.1.1, he.1.1.2, he.1.2, he.2⟩
  obtain ⟨a, b, c, d⟩ := split n hn
  obtain ⟨h1, h2, h3, h4⟩ := hr
  simp only [isFQM, Bool.and_eq_true]
  exact ⟨⟨⟨part .host (·.host) a (fun e he => (split e (hes e he)).1) h1,
    part .ns (·.ns) b (fun e he => (split e (hes e he)).2.1) h2⟩,
    part .model (·.model) c (fun e he => (split e (hes e he)).2.2.1) h3⟩,
    part .tag (·.tag) d (fun e he => (split e (hes e he)).2.2.2) h4⟩

theorem handler_paths_agree (root : Bytes) (r : Name) (h : isFQM r = true) :
    handlerManifestPath root r = (filepathM r).map (fun fp => pathJoin [root, sManifests, fp]) := by
  have e : toStr r = (ModelPath.fullTagname ⟨sHttps, r.host, r.ns, r.model, r.tag⟩) := by
    rw [toStr_fq (fqParts_of_isFQM h)]; simp [ModelPath.fullTagname]
  have hv : isFQM (ModelPath.toName ⟨sHttps, r.host, r.ns, r.model, r.tag⟩) = true := by
    simpa [ModelPath.toName] using h
  unfold handlerManifestPath
  rw [e, (modelpath_print_parse _ hv).1]
  simp only [mpManifestPath, ModelPath.toName]
  cases r; simp [h, filepathM]

/-- **End to end, every name-taking handler** (generate / chat / embed / embeddings / show / delete / pull / push / create
    incl. its `from:` name / copy source and destination): for EVERY request string `s`, every models-directory string, every
    store content `rels` (the files `Manifests` enumerates) and every result `r` the lookup `getExistingName` can return:
    the handler refuses before touching the store (`ParseName(s)` is not valid), or the one manifest path it goes on to use is
    the component stack of `Clean(models)` followed by exactly `manifests/<host>/<ns>/<model>/<tag>` of safe components. -/
theorem handler_name_confined (root : Bytes) (hroot : root ≠ []) (rels : List Bytes) (s : Bytes) (r : Name)
    (hr : ExistingResult ((manifestsEnum rels).map Prod.fst) (parseName s) r) :
    isFQM (parseName s) = false ∨
    (isFQM r = true ∧
     handlerManifestPath root r = some (renderPath (isRooted root) (rootStack root ++ [sManifests, r.host, r.ns, r.model, r.tag])) ∧
     ∀ c ∈ [r.host, r.ns, r.model, r.tag], SafeComp c) := by
  cases hn : isFQM (parseName s) with
  | false => exact Or.inl rfl
  | true =>
    right
    have hes : ∀ e ∈ (manifestsEnum rels).map Prod.fst, isFQM e = true := by
      intro e he
      obtain ⟨⟨n, p⟩, hmem, rfl⟩ := List.mem_map.mp he
      exact (manifestsEnum_sound rels n p hmem).2.1
    have hfq := existingResult_fq _ hes _ r hn hr
    refine ⟨hfq, ?_, fq_safe hfq⟩
    have e : toStr r = (ModelPath.fullTagname ⟨sHttps, r.host, r.ns, r.model, r.tag⟩) := by
      rw [toStr_fq (fqParts_of_isFQM hfq)]; simp [ModelPath.fullTagname]
    have hv : isFQM (ModelPath.toName ⟨sHttps, r.host, r.ns, r.model, r.tag⟩) = true := by
      simpa [ModelPath.toName] using hfq
    unfold handlerManifestPath
    rw [e, (modelpath_print_parse _ hv).1]
    rcases manifest_path_confined_anyroot root hroot ⟨sHttps, r.host, r.ns, r.model, r.tag⟩ with h | ⟨h, _, _⟩
    · exfalso
      have hf := ((filepath_shape _).2 hv).1
      simp [mpManifestPath, hf] at h
    · exact h

/-- **`/api/blobs/:digest` (HEAD and POST), every layer digest of an untrusted manifest (`GetModel`, `PullModel`,
    `create`'s `files` map), `NewLayer`'s own digest**: for every digest string and every models-directory string
    `GetBlobsPath` refuses, or (empty string) names the blobs directory, or names `blobs/sha256-<64 hex>` below `Clean(models)`. -/
theorem blob_handler_confined (root : Bytes) (hroot : root ≠ []) (d : Bytes) :
    getBlobsPath root d = none ∨
    (d = [] ∧ getBlobsPath root d = some (renderPath (isRooted root) (rootStack root ++ [sBlobs]))) ∨
    ∃ hex, hex.length = 64 ∧ (∀ c ∈ hex, isHexB c = true) ∧ SafeComp (sSha256 ++ cDash :: hex) ∧
      getBlobsPath root d = some (renderPath (isRooted root) (rootStack root ++ [sBlobs, sSha256 ++ cDash :: hex])) := by
  cases d with
  | nil => exact Or.inr (Or.inl ⟨rfl, blob_path_empty_anyroot root hroot⟩)
  | cons x xs =>
    rcases blob_path_confined_anyroot root hroot (x :: xs) (by simp) with h | h
    · exact Or.inl h
    · exact Or.inr (Or.inr h)

/-- … for all layers of a manifest at once -/
theorem manifest_layers_confined (root : Bytes) (hroot : root ≠ []) (layers : List Bytes) :
    ∀ d ∈ layers, getBlobsPath root d = none ∨
      (d = [] ∧ getBlobsPath root d = some (renderPath (isRooted root) (rootStack root ++ [sBlobs]))) ∨
      ∃ hex, hex.length = 64 ∧ (∀ c ∈ hex, isHexB c = true) ∧ SafeComp (sSha256 ++ cDash :: hex) ∧
        getBlobsPath root d = some (renderPath (isRooted root) (rootStack root ++ [sBlobs, sSha256 ++ cDash :: hex])) :=
  fun d _ => blob_handler_confined root hroot d

/-- **The new client's handlers** (`server/internal/registry` handleDelete / handlePull → `Registry.Unlink` / `Pull` →
    `Registry.parseName` with `DefaultMask` or any mask, then `DiskCache.Unlink / Link (n.String())`): for every request
    string, `ErrNameInvalid`, or the manifest the cache addresses is a `ConfinedManifest` of the cache directory. -/
theorem registry_handler_confined (rc : List Bytes) (hrc : rc ≠ []) (hs : ∀ c ∈ rc, CleanComp c)
    (links : List Bytes) (hl : ∀ l ∈ links, GlobLink l) (mask : Name) (s : Bytes) :
    registryParseName mask s = none ∨
    ∃ n p, registryParseName mask s = some n ∧ manifestPath (absPath rc) links (toStr n) = some p ∧ ConfinedManifest rc p := by
  cases h : registryParseName mask s with
  | none => exact Or.inl rfl
  | some n =>
    right
    have hfq : isFQN n = true := by
      simp only [registryParseName] at h
      by_cases hq : isFQN (merge (parseN s) mask) = true
      · simp only [hq, if_true, Option.some.injEq] at h; rw [← h]; exact hq
      · simp [hq] at h
    rcases names_manifestPath_confined rc hrc hs links hl (toStr n) with hnone | ⟨p, hp, hc, _⟩
    · exfalso
      have := (names_manifestPath_accepts_iff (absPath rc) links (toStr n))
      have hpp : parseN (toStr n) = n := print_parse_names n hfq
      simp [manifestPath, nameToPath, hpp, hfq] at hnone
      cases hfind : links.find? (equalFold (pathJoin [sManifests, pathJoin [n.host, n.ns, n.model, n.tag]])) <;> simp [hfind] at hnone
    · exact ⟨n, p, rfl, hp, hc⟩


/-! ## 23. the digest clause for every digest parser -/


theorem hexNibble_lower_fin : ∀ n : Fin 256, hexNibble (toLowerB (UInt8.ofNat n.val)) = hexNibble (UInt8.ofNat n.val) := by
  decide +kernel

theorem hexNibble_lower (c : UInt8) : hexNibble (toLowerB c) = hexNibble c := by
  have := hexNibble_lower_fin ⟨c.toNat, c.toNat_lt⟩
  simpa using this

/-- `hex.Decode` does not look at the letter case -/
theorem hexDecode_lower : ∀ hex : Bytes, hexDecode (hex.map toLowerB) = hexDecode hex
  | [] => rfl
  | [_] => rfl
  | a :: b :: rest => by
    simp only [List.map_cons, hexDecode, hexNibble_lower, hexDecode_lower rest]

theorem parseDigest_shape (sep : UInt8) (hsep : sep = cColon ∨ sep = cDash) (hex : Bytes) :
    parseDigest (sSha256 ++ sep :: hex) = if hex.length = 64 then hexDecode hex else none := by
  have hs : splitFirst (fun c => c == cColon || c == cDash) (sSha256 ++ sep :: hex) = some (sSha256, hex, sep) := by
    apply splitFirst_append
    · rcases hsep with rfl | rfl <;> decide
    · decide
  unfold parseDigest
  simp only [hs]
  by_cases hl : hex.length = 64 <;> simp [hl]

/-- **One digest, one blob (new cache)**: the four spellings of a digest — `sha256:` / `sha256-`, the hex digits in any
    letter case — are parsed to the same `Digest` value, hence address the same blob file; a string that is not such a
    spelling is rejected (`digest_validators_agree`, `digest_re_shape`). -/
theorem digest_spellings_same_file_cache (dir : Bytes) (sep1 sep2 : UInt8) (h1 : sep1 = cColon ∨ sep1 = cDash)
    (h2 : sep2 = cColon ∨ sep2 = cDash) (hex : Bytes) :
    parseDigest (sSha256 ++ sep1 :: hex) = parseDigest (sSha256 ++ sep2 :: hex.map toLowerB) ∧
    (parseDigest (sSha256 ++ sep1 :: hex)).map (getFile dir) = (parseDigest (sSha256 ++ sep2 :: hex.map toLowerB)).map (getFile dir) := by
  have e : parseDigest (sSha256 ++ sep1 :: hex) = parseDigest (sSha256 ++ sep2 :: hex.map toLowerB) := by
    rw [parseDigest_shape sep1 h1, parseDigest_shape sep2 h2, hexDecode_lower, List.length_map]
  exact ⟨e, by rw [e]⟩

/-- **One digest, one blob (legacy store), partial**: the two SEPARATOR spellings address the same file for every digest
    string; the letter case of the hex digits is kept in the file name, so `sha256:AA…` and `sha256:aa…` are two files
    (`legacy_hex_case_witness`) — guard: same hex spelling.  The digests the server itself prints (`NewLayer`: `%x`) are
    lower case. -/
theorem digest_spellings_same_file_legacy_partial (root hex : Bytes) :
    getBlobsPath root (sSha256 ++ cColon :: hex) = getBlobsPath root (sSha256 ++ cDash :: hex) := by
  have := canonical_same_blob root (sSha256 ++ cDash :: hex)
  have hc : canonicalDigest (sSha256 ++ cDash :: hex) = sSha256 ++ cColon :: hex := by
    simp [canonicalDigest, sSha256, cDash, cColon]
  rw [hc] at this; exact this

/-- `NewLayer`'s own digest (`sha256:%x` of a 32-byte sum) is always accepted by `GetBlobsPath` -/
theorem newLayer_digest_accepted (sum : Bytes) (h : sum.length = 32) : matchDigestRe (digestString sum) = true := by
  have hl : (hexEncode sum).length = 64 := by
    have : ∀ l : Bytes, (hexEncode l).length = 2 * l.length := by
      intro l; induction l with
      | nil => rfl
      | cons x xs ih => simp only [hexEncode, List.flatMap_cons, List.length_append, List.length_cons, List.length_nil] at ih ⊢; omega
    rw [this, h]
  have hh := hexEncode_hex sum
  unfold digestString
  rw [matchDigestRe_shape]
  simp [hl, List.all_eq_true, cColon, cDash]
  exact hh

/-- **The digest clause, every digest parser of the tree, one string `s`**: (1) the legacy regexp + `GetBlobsPath` under any
    models directory; (2) `blob.ParseDigest` + `GetFile` (also what a digest suffix `name@sha256:…` goes through: `cacheResolve_confined`, `parseNameExtended`); (3) the two validators accept the same language. -/
theorem digest_clause_all (root : Bytes) (hroot : root ≠ []) (rc : List Bytes) (hrc : rc ≠ []) (hs : ∀ c ∈ rc, CleanComp c)
    (s : Bytes) :
    (getBlobsPath root s = none ∨
      (s = [] ∧ getBlobsPath root s = some (renderPath (isRooted root) (rootStack root ++ [sBlobs]))) ∨
      ∃ hex, hex.length = 64 ∧ (∀ c ∈ hex, isHexB c = true) ∧
        getBlobsPath root s = some (renderPath (isRooted root) (rootStack root ++ [sBlobs, sSha256 ++ cDash :: hex]))) ∧
    (parseDigest s = none ∨ ∃ sum, parseDigest s = some sum ∧
      getFile (absPath rc) sum = absPath (rc ++ [sBlobs, sSha256 ++ cDash :: hexEncode sum])) ∧
    (matchDigestRe s = (parseDigest s).isSome) := by
  refine ⟨?_, ?_, digest_validators_agree s⟩
  · cases s with
    | nil => exact Or.inr (Or.inl ⟨rfl, blob_path_empty_anyroot root hroot⟩)
    | cons x xs =>
      rcases blob_path_confined_anyroot root hroot (x :: xs) (by simp) with h | ⟨hex, a, b, _, c⟩
      · exact Or.inl h
      · exact Or.inr (Or.inr ⟨hex, a, b, c⟩)
  · cases h : parseDigest s with
    | none => exact Or.inl rfl
    | some sum => exact Or.inr ⟨sum, rfl, (blob_path_confined_cache rc hrc hs sum).1⟩

example : parseDigest (sSha256 ++ cDash :: List.replicate 64 65) = parseDigest (sSha256 ++ cColon :: List.replicate 64 97) ∧
    parseDigest (sSha256 ++ cDash :: List.replicate 64 65) ≠ none := by decide


end OllamaVerif.C13
