/-
  C13, round 7 — the remaining printers and walkers of the anchored code:
  `ModelPath.GetFullTagname / GetShortTagname`, `model.Name.DisplayShortest`, `server.canonicalDigest`, the directory
  `GetBlobsPath` creates, `server.Manifests` (enumeration of the store), `blob.pathToName` / `DiskCache.Links`, and the
  agreement of `ParseModelPath` with `model.ParseName` on every input both accept.
-/
import OllamaVerif.Properties.C13
namespace OllamaVerif.C13
open OllamaVerif OllamaVerif.Names

/-! ## 11. digest aliases -/

theorem matchDigestRe_sep (hex : Bytes) :
    matchDigestRe (sSha256 ++ cColon :: hex) = matchDigestRe (sSha256 ++ cDash :: hex) := by
  simp [matchDigestRe, sSha256, cColon, cDash]

theorem colonToDash_sep (rest : Bytes) :
    colonToDash (sSha256 ++ cColon :: rest) = colonToDash (sSha256 ++ cDash :: rest) := by
  simp [colonToDash, sSha256, cColon, cDash]

/-- **Digest aliases address the same blob**: for EVERY byte string `d`, `GetBlobsPath(canonicalDigest(d))` is
    `GetBlobsPath(d)` — refused together, or the same file (the `sha256-…` and `sha256:…` spellings of one digest). -/
theorem canonical_same_blob (root d : Bytes) :
    getBlobsPath root (canonicalDigest d) = getBlobsPath root d := by
  unfold canonicalDigest
  split
  · rename_i h
    have hd : d = sSha256 ++ cDash :: d.drop 7 := by
      have h7 : d.take 7 = sSha256 ++ [cDash] := by simpa using h
      have := (List.take_append_drop 7 d).symm
      rw [h7] at this
      simpa using this
    generalize d.drop 7 = rest at hd
    subst hd
    have e1 : (sSha256 ++ cColon :: rest).isEmpty = false := by simp [sSha256]
    have e2 : (sSha256 ++ cDash :: rest).isEmpty = false := by simp [sSha256]
    simp only [getBlobsPath, matchDigestRe_sep, colonToDash_sep, e1, e2]
  · rfl

/-! ## 12. enumeration of the store (`server.Manifests`) -/

/-- **What `Manifests` loads**: every entry `(n, p)` comes from an enumerated file `p` itself — the key `n` is fully
    qualified, `p` spells exactly `n` (`ParseNameFromFilepath p = n`) and the file `ParseNamedManifest(n)` opens,
    `manifests/<n.Filepath()>`, is that same `p`: the walk never reads a file other than the one it enumerated. -/
theorem manifestsEnum_sound (rels : List Bytes) (n : Name) (p : Bytes) (h : (n, p) ∈ manifestsEnum rels) :
    p ∈ rels ∧ isFQM n = true ∧ parseNameFromFilepath p = n ∧ filepathM n = some p := by
  simp only [manifestsEnum, List.mem_filterMap] at h
  obtain ⟨rel, hrel, hm⟩ := h
  rcases relpath_accepted rel with hz | ⟨hfq, hfp⟩
  · rw [hz] at hm
    have : filepathM Name.zero = none := by decide
    simp [this] at hm
  · rw [hfp] at hm
    simp only [Option.some.injEq, Prod.mk.injEq] at hm
    obtain ⟨rfl, rfl⟩ := hm
    exact ⟨hrel, hfq, rfl, hfp⟩

/-- … and it is complete: every enumerated file whose path spells a fully qualified name is loaded under that name. -/
theorem manifestsEnum_complete (rels : List Bytes) (rel : Bytes) (hrel : rel ∈ rels)
    (hfq : isFQM (parseNameFromFilepath rel) = true) :
    (parseNameFromFilepath rel, rel) ∈ manifestsEnum rels := by
  simp only [manifestsEnum, List.mem_filterMap]
  refine ⟨rel, hrel, ?_⟩
  rcases relpath_accepted rel with hz | ⟨_, hfp⟩
  · have hzf : isFQM Name.zero = false := by decide
    rw [hz, hzf] at hfq; cases hfq
  · rw [hfp]

/-- no two files of the store collapse onto one map key -/
theorem manifestsEnum_keys_injective (rels : List Bytes) (n : Name) (p1 p2 : Bytes)
    (h1 : (n, p1) ∈ manifestsEnum rels) (h2 : (n, p2) ∈ manifestsEnum rels) : p1 = p2 := by
  have a := (manifestsEnum_sound rels n p1 h1).2.2.2
  have b := (manifestsEnum_sound rels n p2 h2).2.2.2
  rw [a] at b; exact Option.some.inj b

example : manifestsEnum [[104, 47, 110, 47, 109, 47, 116], [46, 104, 47, 110, 47, 109, 47, 116], [104, 47, 110, 47, 109]]
    = [({ host := [104], ns := [110], model := [109], tag := [116] }, [104, 47, 110, 47, 109, 47, 116])] := by decide

/-! ## 13. the legacy ModelPath's printers -/

/-- `strings.Cut(s, "://")` steps over a slash-free piece followed by a single `/` -/
theorem cutScheme_step (a b : Bytes) (ha : ∀ c ∈ a, c ≠ cSlash) (hb : b.head? ≠ some cSlash) :
    cutScheme (a ++ cSlash :: b) = (cutScheme b).map (fun pq => (a ++ cSlash :: pq.1, pq.2)) := by
  induction a with
  | nil =>
    have h0 : ((47 : UInt8) == 58) = false := by decide
    cases hcs : cutScheme b with
    | none => simp [cutScheme, cSlash, h0, hcs]
    | some pq => obtain ⟨p, q⟩ := pq; simp [cutScheme, cSlash, h0, hcs]
  | cons x xs ih =>
    have ih' := ih (fun c hc => ha c (List.mem_cons_of_mem _ hc))
    have hx : (((xs ++ cSlash :: b).take 2) == [47, 47]) = false := by
      cases xs with
      | nil =>
        cases b with
        | nil => simp [cSlash]
        | cons y ys =>
          have hy : y ≠ 47 := by
            intro e; apply hb; simp [e, cSlash]
          simp [cSlash, hy]
      | cons y ys =>
        have hy : y ≠ 47 := ha y (List.mem_cons_of_mem _ List.mem_cons_self)
        cases ys with
        | nil => simp [hy]
        | cons z zs => simp [hy]
    show cutScheme (x :: (xs ++ cSlash :: b)) = _
    rw [cutScheme, ih']
    simp only [hx, Bool.and_false, Bool.false_eq_true, if_false]
    cases cutScheme b with
    | none => rfl
    | some pq => rfl

theorem head_ne_slash (a rest : Bytes) (hne : a ≠ []) (ha : ∀ c ∈ a, c ≠ cSlash) :
    (a ++ rest).head? ≠ some cSlash := by
  cases a with
  | nil => exact absurd rfl hne
  | cons x xs =>
    have := ha x List.mem_cons_self
    simpa using this

theorem fullTagname_parts (mp : ModelPath) (h : isFQM mp.toName = true) :
    cutScheme mp.fullTagname = none ∧
    splitOn cSlash mp.fullTagname = [mp.registry, mp.ns, mp.repo ++ (cColon :: mp.tag)] ∧
    splitFirst (· == cColon) (mp.repo ++ (cColon :: mp.tag)) = some (mp.repo, mp.tag, cColon) := by
  have p := fqParts_of_isFQM h
  simp only [ModelPath.toName] at p
  have hrt : ∀ c ∈ mp.repo ++ (cColon :: mp.tag), c ≠ cSlash := by
    intro c hc
    rcases List.mem_append.mp hc with hc | hc
    · exact p.mslash c hc
    · rcases List.mem_cons.mp hc with rfl | hc
      · decide
      · exact p.tslash c hc
  refine ⟨?_, ?_, ?_⟩
  · unfold ModelPath.fullTagname
    rw [cutScheme_step _ _ p.hslash (head_ne_slash _ _ p.nne p.nslash),
      cutScheme_step _ _ p.nslash (head_ne_slash _ _ p.mne p.mslash), cutScheme_none _ hrt]
    rfl
  · unfold ModelPath.fullTagname
    rw [splitOn_append _ _ _ p.hslash, splitOn_append _ _ _ p.nslash, splitOn_noSep _ _ hrt]
  · exact splitFirst_append _ _ _ _ (by decide) (fun x hx => by simpa using p.mcolon x hx)

/-- **The legacy printers are read back unchanged** (`ParseModelPath ∘ GetFullTagname`, `∘ GetShortTagname`): for every
    ModelPath whose four parts are valid, both printed forms parse back to the same registry / namespace / repository /
    tag (scheme `https`), hence to the same manifest path. -/
theorem modelpath_print_parse (mp : ModelPath) (h : isFQM mp.toName = true) :
    parseModelPath mp.fullTagname = { mp with scheme := sHttps } ∧
    parseModelPath mp.shortTagname = { mp with scheme := sHttps } := by
  obtain ⟨h1, h2, h3⟩ := fullTagname_parts mp h
  have p := fqParts_of_isFQM h
  simp only [ModelPath.toName] at p
  have full : parseModelPath mp.fullTagname = { mp with scheme := sHttps } := by
    unfold parseModelPath
    simp only [h1, h2, h3]
  refine ⟨full, ?_⟩
  unfold ModelPath.shortTagname
  have hrt : ∀ c ∈ mp.repo ++ (cColon :: mp.tag), c ≠ cSlash := by
    intro c hc
    rcases List.mem_append.mp hc with hc | hc
    · exact p.mslash c hc
    · rcases List.mem_cons.mp hc with rfl | hc
      · decide
      · exact p.tslash c hc
  split
  · rename_i hreg
    have hreg' : mp.registry = sDefaultHost := by simpa using hreg
    split
    · rename_i hns
      have hns' : mp.ns = sLibrary := by simpa using hns
      unfold parseModelPath
      simp only [cutScheme_none _ hrt, splitOn_noSep _ _ hrt, h3]
      cases mp; simp_all
    · have hnrt : ∀ c ∈ mp.ns ++ (cSlash :: (mp.repo ++ (cColon :: mp.tag))), True := fun _ _ => trivial
      have hcs : cutScheme (mp.ns ++ (cSlash :: (mp.repo ++ (cColon :: mp.tag)))) = none := by
        rw [cutScheme_step _ _ p.nslash (head_ne_slash _ _ p.mne p.mslash), cutScheme_none _ hrt]; rfl
      unfold parseModelPath
      simp only [hcs, splitOn_append _ _ _ p.nslash, splitOn_noSep _ _ hrt, h3]
      cases mp; simp_all
  · exact full

/-- … and `model.ParseName` reads both printed forms as the same four parts (the two parsers of the legacy server agree
    on everything either printer emits). -/
theorem modelpath_print_parse_model (mp : ModelPath) (h : isFQM mp.toName = true) :
    parseName mp.fullTagname = mp.toName := by
  have e : mp.fullTagname = toStr mp.toName := by
    have p := fqParts_of_isFQM h
    rw [toStr_fq p]; simp [ModelPath.fullTagname, ModelPath.toName]
  rw [e]; exact (print_parse_model _ h).2

example : isFQM (ModelPath.toName ⟨sHttps, sDefaultHost, [117], [109], sLatest⟩) = true ∧
    ModelPath.shortTagname ⟨sHttps, sDefaultHost, [117], [109], sLatest⟩ = [117, 47, 109, 58] ++ sLatest := by decide

end OllamaVerif.C13
