/-
  C11 — the limit the count is compared with is the CONFIGURED one.

  `live_count_le_max` bounds the number of live runners by the state field `maxRunners`, which `pLookup` may write
  (`effMax`: the HACK that sets OLLAMA_MAX_LOADED_MODELS when it is unset).  This file proves that the field never
  changes once it is positive (`maxRunners_stable`), hence
    * with OLLAMA_MAX_LOADED_MODELS = mr > 0 the limit in force is mr in every reachable state (`configured_limit`) and
      the NUMBER of live runners never exceeds mr (`live_count_le_configured`);
    * with the variable unset the limit is 0 until the first placement decision, which fixes it for good to the number of
      GPUs (unreliable free-memory reporting) or three times that (`auto_limit_shape`), never again changed.
  Plus concrete instances of `reuse_compatible` / `incompatible_expires` on reachable states (non-vacuity).
-/
import OllamaVerif.Properties.C02Chan
import OllamaVerif.Properties.C01Bridge

namespace OllamaVerif.C11
open OllamaVerif.Sched OllamaVerif.C01
set_option linter.unusedSimpArgs false

theorem effMax_of_pos (s : State) (fit : Fit) (q : ReqId) (h : 0 < s.maxRunners) : effMax s fit q = s.maxRunners := by
  unfold effMax
  split
  · rename_i hc; omega
  · rfl

theorem finishOn_maxRunners (s : State) (r : Rid) : (finishOn s r).maxRunners = s.maxRunners := by
  unfold finishOn; simp only []; (repeat' split) <;> rfl

theorem releaseHold_maxRunners (s : State) (q : ReqId) : (releaseHold s q).maxRunners = s.maxRunners := by
  unfold releaseHold; split <;> rfl

/-- no action changes a positive limit -/
theorem maxRunners_stable {v : Variant} {s s' : State} (a : Act) (hs : step v s a = some s') (hpos : 0 < s.maxRunners) :
    s'.maxRunners = s.maxRunners := by
  cases a
  case cFin =>
    simp only [step] at hs
    split at hs
    · split at hs
      · cases hs
      · cases hs; rw [finishOn_maxRunners, releaseHold_maxRunners]
    · cases hs
  case pLookup fit =>
    simp only [step] at hs
    split at hs
    · rename_i q hq
      split at hs
      · cases hs
      · have he := effMax_of_pos s fit q hpos
        (repeat' split at hs) <;> cases hs <;> simp [replyErr, setReq, he]
    · cases hs
  all_goals (
    simp only [step] at hs
    (try (repeat' split at hs))
    all_goals (first | (cases hs; done) | skip)
    all_goals (try (simp only [Option.some.injEq] at hs))
    all_goals (try subst hs)
    all_goals (first | rfl | (simp only [replyRunner, replyErr, setReq, setRunner, triggerExpire]; (repeat' split) <;> rfl)))

/-- **The limit in force is the configured one**: with OLLAMA_MAX_LOADED_MODELS = mr > 0 it is mr in every reachable state -/
theorem configured_limit {v : Variant} {mr mq ds : Nat} {s : State} (h : Reach v (Sched.init mr mq ds) s) (hpos : 0 < mr) :
    s.maxRunners = mr := by
  induction h with
  | init => rfl
  | step a _ hs ih => rw [maxRunners_stable a hs (by omega), ih]

/-- **C11, clause 1 against the configured value**: with OLLAMA_MAX_LOADED_MODELS = mr > 0 the number of started and not
    shut-down runners never exceeds mr, in every reachable state -/
theorem live_count_le_configured {mr mq ds : Nat} {s : State} (h : Reach Variant.good (Sched.init mr mq ds) s) (hpos : 0 < mr) :
    OllamaVerif.C02Chan.liveCount s ≤ mr := by
  have := OllamaVerif.C02Chan.live_count h
  rwa [configured_limit h hpos] at this

/-- with the variable unset: still 0, or fixed by a placement decision to n or 3·n for a GPU count n ≥ 1 -/
theorem auto_limit_shape {v : Variant} {mq ds : Nat} {s : State} (h : Reach v (Sched.init 0 mq ds) s) :
    s.maxRunners = 0 ∨ ∃ n, 1 ≤ n ∧ (s.maxRunners = n ∨ s.maxRunners = 3 * n) := by
  induction h with
  | init => left; rfl
  | @step s s' a _ hs ih =>
    by_cases hpos : 0 < s.maxRunners
    · rw [maxRunners_stable a hs hpos]; exact ih
    · have h0 : s.maxRunners = 0 := by omega
      cases a
      case pLookup fit =>
        simp only [step] at hs
        split at hs
        · rename_i q hq
          split at hs
          · cases hs
          · rename_i hn
            have hshape : effMax s fit q = 0 ∨ ∃ n, 1 ≤ n ∧ (effMax s fit q = n ∨ effMax s fit q = 3 * n) := by
              unfold effMax
              split
              · right; refine ⟨fit.ngpus, by omega, ?_⟩
                split
                · right; rfl
                · left; rfl
              · left; exact h0
            (repeat' split at hs) <;> cases hs <;> simp [replyErr, setReq, h0] <;> first | exact hshape | (left; trivial) | skip
        · cases hs
      case cFin =>
        simp only [step] at hs
        split at hs
        · split at hs
          · cases hs
          · cases hs; rw [finishOn_maxRunners, releaseHold_maxRunners]; left; exact h0
        · cases hs
      all_goals (
        left
        simp only [step] at hs
        (try (repeat' split at hs))
        all_goals (first | (cases hs; done) | skip)
        all_goals (try (simp only [Option.some.injEq] at hs))
        all_goals (try subst hs)
        all_goals (first | exact h0 | (simp only [replyRunner, replyErr, setReq, setRunner, triggerExpire]; (repeat' split) <;> exact h0)))

/-! ### instances on reachable states -/

/-- model 0 loaded by request 0 (options 0), request 1 for the same model taken by the pending loop -/
def reuseTrace (opts : Nat) : List Act :=
  [.submit 0 0 none, .pTake, .pLookup fit0, .pLoad true, .loadDone 0 true, .submit 0 opts none, .pTake]

/-- `reuse_compatible` applies to a reachable state: same options ⇒ request 1 gets runner 0, nothing is started -/
theorem reuse_instance :
    (run Variant.good (init0 0 512 1) (reuseTrace 0 ++ [.pLookup fit0, .pNeedsReload, .pUse])).map
      (fun s => ((s.reqs 1).gotRunner, s.nRunners, s.ppc)) = some (some 0, 1, .idle) := by decide

/-- and the negative companion: other options ⇒ the loaded runner is told to expire, request 1 is not granted it -/
theorem incompatible_instance :
    (run Variant.good (init0 0 512 1) (reuseTrace 1 ++ [.pLookup fit0, .pNeedsReload])).map
      (fun s => ((s.reqs 1).gotRunner, s.ppc)) = some (none, .expire 1 0) := by decide

example : ∃ s, Reach Variant.good (init0 0 512 1) s ∧ s.ppc = .eval 1 ∧ lookup s.loaded (s.reqs 1).model = some 0 ∧
    (s.runners 0).opts = (s.reqs 1).opts ∧ (s.runners 0).locked = false := by
  cases hr : run Variant.good (init0 0 512 1) (reuseTrace 0) with
  | none => exact absurd hr (by decide)
  | some s =>
    have h2 : (run Variant.good (init0 0 512 1) (reuseTrace 0)).map
        (fun s => (s.ppc == .eval 1) && (lookup s.loaded (s.reqs 1).model == some 0) &&
                  ((s.runners 0).opts == (s.reqs 1).opts) && !(s.runners 0).locked) = some true := by decide
    rw [hr] at h2
    simp at h2
    exact ⟨s, reach_of_run _ _ _ Reach.init hr, by simpa using h2.1.1.1, by simpa using h2.1.1.2, h2.1.2, by simpa using h2.2⟩

end OllamaVerif.C11
