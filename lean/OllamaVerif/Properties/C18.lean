import OllamaVerif.Model.Sampler
namespace OllamaVerif.C18
end OllamaVerif.C18
