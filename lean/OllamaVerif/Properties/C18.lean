/-
  C18 — the sampler returns an admissible token, deterministically under a seed.

  Property theorems over the generic model `Model/Sampler.lean` (helper lemmas: `Proofs/Sampler.lean`).
  They hold for EVERY carrier `α` and operation record `o : Ops α` whose comparison is a strict
  weak order (`OrdLaws`; IEEE `<` on non-NaN values) — no bound on the vocabulary size or on `k`.
  IEEE-754 itself is outside the model, so the statements that involve arithmetic take the run's
  *contracts* (`guardOK`, `scaleOK`, `softmaxOK`: decidable predicates over the stage values, which
  the oracle and the Go driver evaluate on every sampled run) as hypotheses: `…_partial`.
  `guardOK` (the scaled maximum is finite) is the explicit guard that excludes exactly finding F18.
-/
import OllamaVerif.Proofs.Sampler
import OllamaVerif.Proofs.SamplerNaN

namespace OllamaVerif.C18
open OllamaVerif OllamaVerif.Sampler

variable {α : Type}

/-- the laws the theorems need from the carrier -/
structure Laws (o : Ops α) : Prop where
  ord : OrdLaws o          -- `<` is a strict weak order
  addZero : AddZeroLaw o   -- `z == 0 → ¬ s < s + z`
  beq : BeqLaw o           -- `a == b → ¬ b < a`

/-! ### small facts about `Sample` -/

theorem greedy_mem (o : Ops α) (ts : List (Tok α)) (m : Tok α) (hg : greedy o ts = .ok m) : m ∈ ts := by
  cases ts with
  | nil => cases hg
  | cons t rest =>
    simp only [greedy] at hg
    injection hg with hg
    subst hg
    have : ∀ (l : List (Tok α)) (m0 : Tok α),
        l.foldl (fun m x => if o.lt m.val x.val then x else m) m0 ∈ m0 :: l := by
      intro l
      induction l with
      | nil => intro m0; simp
      | cons x xs ih =>
        intro m0
        simp only [List.foldl_cons]
        have := ih (if o.lt m0.val x.val then x else m0)
        rcases List.mem_cons.1 this with h | h
        · rw [h]; split <;> simp
        · exact List.mem_cons_of_mem _ (List.mem_cons_of_mem _ h)
    exact this rest t

theorem mkTokensFrom_vals (i : Nat) (vs : List α) : (mkTokensFrom i vs).map (·.val) = vs := by
  induction vs generalizing i with
  | nil => rfl
  | cons v vs ih => simp [mkTokensFrom, ih]

theorem mem_mkTokens_of_mem (vs : List α) (w : α) (hw : w ∈ vs) : ∃ x ∈ mkTokens vs, x.val = w := by
  have h : w ∈ (mkTokens vs).map (·.val) := by
    unfold mkTokens; rw [mkTokensFrom_vals]; exact hw
  obtain ⟨x, hx, hv⟩ := List.mem_map.1 h
  exact ⟨x, hx, hv⟩

theorem Sample_ok (o : Ops α) (fix : Bool) (P : Params α) (r : α) (logits : List α) (id : Nat)
    (hS : Sample o fix P r logits = .ok id) :
    ∃ t, sampleCore o fix P r (mkTokens logits) = .ok t ∧ t.id = id := by
  unfold Sample at hS
  split at hS
  · cases hS
  · cases hc : sampleCore o fix P r (mkTokens logits) with
    | error e => rw [hc] at hS; cases hS
    | ok t =>
      rw [hc] at hS
      simp only [Except.map] at hS
      injection hS with hS
      exact ⟨t, rfl, hS⟩

/-- on the greedy branch `sample` returns what `greedy` returns (the F18c variant only turns an
    all `-Inf` result into an error) -/
theorem sampleCore_greedy (o : Ops α) (fix : Bool) (P : Params α) (r : α) (ts : List (Tok α)) (t : Tok α)
    (ht : o.beq P.temp o.zero = true) (hc : sampleCore o fix P r ts = .ok t) : greedy o ts = .ok t := by
  unfold sampleCore at hc
  simp only [ht, if_true] at hc
  cases hg : greedy o ts with
  | error e => rw [hg] at hc; cases hc
  | ok t' =>
    rw [hg] at hc
    simp only at hc
    split at hc
    · cases hc
    · injection hc with hc; rw [hc]

/-! ### the property theorems -/

/-- **greedy_argmax.**  With temperature 0 `Sample` returns an index into the logits whose logit
    no other logit exceeds — for every vocabulary size, ties included. -/
theorem greedy_argmax {o : Ops α} (h : OrdLaws o) (fix : Bool) (P : Params α) (r : α)
    (logits : List α) (id : Nat) (ht : o.beq P.temp o.zero = true)
    (hS : Sample o fix P r logits = .ok id) :
    ∃ v, logits[id]? = some v ∧ ∀ w ∈ logits, o.lt v w = false := by
  obtain ⟨t, hc, hid⟩ := Sample_ok o fix P r logits id hS
  have hc := sampleCore_greedy o fix P r _ t ht hc
  obtain ⟨hm, hmax⟩ := greedy_spec h _ _ hc
  refine ⟨t.val, by rw [← hid]; exact mkTokens_mem _ _ hm, ?_⟩
  intro w hw
  obtain ⟨x, hx, hv⟩ := mem_mkTokens_of_mem logits w hw
  rw [← hv]; exact hmax x hx

/-- each filter returns a non-empty prefix of the list it is given (which `topK` sorted) -/
theorem filters_nonempty_prefix (o : Ops α) (p mp : α) (L : List (Tok α)) (hL : L ≠ []) :
    topP o p L <+: L ∧ topP o p L ≠ [] ∧
    (∀ f, minP o mp L = .ok f → f <+: L) ∧
    (∀ t0 rest, L = t0 :: rest → o.lt t0.val (o.mul t0.val mp) = false →
        ∃ f, minP o mp L = .ok (t0 :: f)) := by
  refine ⟨topP_prefix o p L, topP_ne_nil o p L hL, fun f hf => minP_prefix o mp L f hf, ?_⟩
  intro t0 rest hl hmul
  subst hl
  exact minP_ne_nil o mp t0 rest hmul

/-- **topK is a correct top-k on BOTH branches, for every `k`**: the specification-level top-k and
    the implemented `topK` — the sort branch and (round 7) the heap branch, an exact mirror of
    `container/heap` Init/Push/Pop/up/down — return the `k` largest tokens in descending order
    (`IsTopK`: length, descending, a sub-multiset of the input, nothing left out exceeds anything
    kept).  No bound on `k` or on the vocabulary size; needs only the strict weak order. -/
theorem topK_isTopK {o : Ops α} (h : OrdLaws o) (k : Int) (ts : List (Tok α)) :
    IsTopK o k ts (topKSpec o k ts) ∧ IsTopK o k ts (topK o k ts) :=
  ⟨topKSpec_isTopK h k ts, topK_isTopK_all h k ts⟩

/-- the number of tokens strictly above a kept token is smaller than the number kept -/
theorem isTopK_count {o : Ops α} {k : Int} {ts out : List (Tok α)} (ht : IsTopK o k ts out)
    (y : Tok α) (hy : y ∈ out) (hirr : o.lt y.val y.val = false) :
    (ts.filter (fun x => o.lt y.val x.val)).length < out.length := by
  obtain ⟨rest, hp, hdom⟩ := ht.sub
  have e1 : (ts.filter (fun x => o.lt y.val x.val)).length =
      ((out ++ rest).filter (fun x => o.lt y.val x.val)).length := (hp.filter _).length_eq.symm
  have e2 : rest.filter (fun x => o.lt y.val x.val) = [] := by
    rw [List.filter_eq_nil_iff]
    intro x hx hlt
    have := hdom x hx y hy
    rw [this] at hlt; cases hlt
  rw [e1, List.filter_append, e2, List.append_nil]
  have hle := List.length_filter_le (fun x => o.lt y.val x.val) out
  rcases Nat.lt_or_ge (out.filter (fun x => o.lt y.val x.val)).length out.length with hlt | hge
  · exact hlt
  · have heq : (out.filter (fun x => o.lt y.val x.val)).length = out.length := by omega
    have := (List.length_filter_eq_length_iff.1 heq) y hy
    rw [hirr] at this; cases this

/-- **sample_in_topk** — the top-k clause of the property as a theorem, no run contract: at
    temperature > 0 (both variants, any `r`, any carrier with a strict weak order) the returned id
    is the id of a token `y` that `topK` kept, `y` carries the logit of that id, and FEWER THAN
    `k` tokens (fewer than the vocabulary size when top-k is disabled) have a strictly larger
    logit.  This is literally the predicate the L2 monitor `not-in-topk` evaluates on the real code. -/
theorem sample_in_topk {o : Ops α} (h : OrdLaws o) (fix : Bool) (P : Params α) (r : α)
    (logits : List α) (id : Nat) (ht : o.beq P.temp o.zero = false)
    (hS : Sample o fix P r logits = .ok id) :
    ∃ v, logits[id]? = some v ∧
      ((mkTokens logits).filter (fun x => o.lt v x.val)).length <
        (if P.topK ≥ (logits.length : Int) ∨ P.topK ≤ 0 then logits.length else P.topK.toNat) := by
  obtain ⟨t, hc, hid⟩ := Sample_ok o fix P r logits id hS
  unfold sampleCore at hc
  simp only [ht, Bool.false_eq_true, if_false] at hc
  obtain ⟨y, hy, hyid⟩ := afterTopK_id_any o fix P r _ t hc
  have hk := (topK_isTopK h P.topK (mkTokens logits)).2
  have hcount := isTopK_count hk y hy (h.irrefl _)
  have hget := mkTokens_mem logits y (topK_mem o _ _ y hy)
  have hlen : (mkTokens logits).length = logits.length := by
    have := congrArg List.length (mkTokensFrom_vals 0 logits)
    simpa [mkTokens] using this
  rw [hk.len, hlen] at hcount
  exact ⟨y.val, by rw [← hid, ← hyid]; exact hget, hcount⟩

/-- **topK returns tokens of its input** — both branches, no law assumed; for `0 < k < len` the
    heap branch (exact mirror of `container/heap`) returns exactly `k` of them -/
theorem topK_returns_input_tokens (o : Ops α) (k : Int) (ts : List (Tok α)) :
    (∀ y ∈ topK o k ts, y ∈ ts) ∧
    (0 < k → k < ts.length → (topK o k ts).length = k.toNat) := by
  refine ⟨topK_mem o k ts, fun h0 hlt => ?_⟩
  have hk : ¬ (k ≥ (ts.length : Int) ∨ k ≤ 0) := by omega
  simp only [topK, hk, if_false]
  exact (topKHeap_mem o k.toNat ts (by omega) (by omega)).1

/-- **minP is the threshold filter**: on the descending list it is given, cutting at the first
    entry below `max·p` keeps exactly `{t | ¬ t < max·p}` -/
theorem minP_is_threshold_filter {o : Ops α} (h : OrdLaws o) (p : α) (t0 : Tok α) (rest : List (Tok α))
    (hd : (t0 :: rest).Pairwise (fun a b => o.lt a.val b.val = false)) :
    minP o p (t0 :: rest) = .ok ((t0 :: rest).filter (fun t => !o.lt t.val (o.mul t0.val p))) :=
  minP_eq_filter h p t0 rest hd

/-- **the pick is the first index** whose cumulative sum is not below the target, when the
    cumulative sums are ascending (run contract `cum`) -/
theorem pick_first_index {o : Ops α} (h : OrdLaws o) (C : List (Tok α)) (target : α)
    (hasc : isAsc o (C.map (·.val)) = true) :
    ∀ j, j < bsearch (belowAt o C target) (C.length + 1) 0 C.length → belowAt o C target j = true :=
  bsearch_first h C target hasc

/-- **no panic**: with a non-empty logit vector and temperature > 0 the pinned `Sample` returns a
    token or the NaN error as soon as the two arithmetic run contracts hold (`max·minP ≤ max`,
    `r·total ≤ total`); at temperature 0 it always returns a token (or, with the proposed F18c
    repair, the "all -Inf" error). -/
theorem sample_never_panics (o : Ops α) (P : Params α) (r : α) (logits : List α) (hne : logits ≠ [])
    (hmin : ∀ t0 rest, topP o P.topP (probsOf o P (topK o P.topK (mkTokens logits))) = t0 :: rest →
        o.lt t0.val (o.mul t0.val P.minP) = false)
    (hr : ∀ f last, minP o P.minP (topP o P.topP (probsOf o P (topK o P.topK (mkTokens logits)))) = .ok f →
        (cumsum o o.zero f).getLast? = some last → o.lt last.val (o.mul r last.val) = false) :
    (∃ id, Sample o false P r logits = .ok id) ∨ Sample o false P r logits = .error .nanSum ∨
      Sample o false P r logits = .error .allNegInf := by
  cases logits with
  | nil => exact absurd rfl hne
  | cons v vs =>
    simp only [Sample, sampleCore]
    split
    · simp only [mkTokens, mkTokensFrom, greedy]
      split
      · right; right; rfl
      · left; exact ⟨_, rfl⟩
    · have hL : topK o P.topK (mkTokens (v :: vs)) ≠ [] := by
        intro h0
        by_cases hk : (P.topK ≥ ((mkTokens (v :: vs)).length : Int) ∨ P.topK ≤ 0)
        · have := (sortDesc_perm o (mkTokens (v :: vs))).length_eq
          simp only [topK, hk, if_true] at h0
          rw [h0] at this
          simp [mkTokens, mkTokensFrom] at this
        · have := (topKHeap_mem o P.topK.toNat (mkTokens (v :: vs)) (by omega) (by omega)).1
          simp only [topK, hk, if_false] at h0
          rw [h0] at this
          simp at this; omega
      rcases afterTopK_no_panic o P r _ hL hmin hr with ⟨t, ht⟩ | he
      · left; rw [ht]; exact ⟨t.id, rfl⟩
      · right; left; rw [he]; rfl

theorem shiftMax_cases (o : Ops α) (L : List (Tok α)) (hL : L ≠ []) :
    shiftMax o L = .error .allNegInf ∨ ∃ L1, shiftMax o L = .ok L1 ∧ L1 ≠ [] := by
  cases L with
  | nil => exact absurd rfl hL
  | cons t0 rest =>
    simp only [shiftMax]
    split
    · exact Or.inl rfl
    · exact Or.inr ⟨_, rfl, by simp⟩

/-- **no panic, repaired variant** (what /repo runs): token, NaN error, or the explicit
    "all logits are -Inf" error; the contracts are those of the run on the shifted list -/
theorem sample_never_panics_fixed (o : Ops α) (P : Params α) (r : α) (logits : List α) (hne : logits ≠ [])
    (hmin : ∀ L1 t0 rest, shiftMax o (topK o P.topK (mkTokens logits)) = .ok L1 →
        topP o P.topP (probsOf o P L1) = t0 :: rest → o.lt t0.val (o.mul t0.val P.minP) = false)
    (hr : ∀ L1 f last, shiftMax o (topK o P.topK (mkTokens logits)) = .ok L1 →
        minP o P.minP (topP o P.topP (probsOf o P L1)) = .ok f →
        (cumsum o o.zero f).getLast? = some last → o.lt last.val (o.mul r last.val) = false) :
    (∃ id, Sample o true P r logits = .ok id) ∨ Sample o true P r logits = .error .nanSum ∨
      Sample o true P r logits = .error .allNegInf := by
  cases logits with
  | nil => exact absurd rfl hne
  | cons v vs =>
    simp only [Sample, sampleCore]
    split
    · simp only [mkTokens, mkTokensFrom, greedy]
      split
      · right; right; rfl
      · left; exact ⟨_, rfl⟩
    · have hL : topK o P.topK (mkTokens (v :: vs)) ≠ [] := by
        intro h0
        by_cases hk : (P.topK ≥ ((mkTokens (v :: vs)).length : Int) ∨ P.topK ≤ 0)
        · have := (sortDesc_perm o (mkTokens (v :: vs))).length_eq
          simp only [topK, hk, if_true] at h0
          rw [h0] at this
          simp [mkTokens, mkTokensFrom] at this
        · have := (topKHeap_mem o P.topK.toNat (mkTokens (v :: vs)) (by omega) (by omega)).1
          simp only [topK, hk, if_false] at h0
          rw [h0] at this
          simp at this; omega
      have hunf : ∀ L, afterTopK o true P r L =
          (match shiftMax o L with
           | Except.error e => Except.error e
           | Except.ok L1 => afterTopK o false P r L1) := by
        intro L
        unfold afterTopK
        simp only [if_true, bind, Except.bind, Bool.false_eq_true, if_false, pure, Except.pure]
        cases shiftMax o L <;> rfl
      rw [hunf]
      rcases shiftMax_cases o _ hL with he | ⟨L1, hs, hL1⟩
      · right; right; rw [he]; rfl
      · rw [hs]
        simp only
        rcases afterTopK_no_panic o P r L1 hL1 (hmin L1 · · hs) (hr L1 · · hs) with ⟨t, ht⟩ | he
        · left; rw [ht]; exact ⟨t.id, rfl⟩
        · right; left; rw [he]; rfl
/-- **index_in_range.**  Whatever the carrier does (NaN included, no law assumed): if `Sample`
    returns an id, it is an index into the logits — hence inside the vocabulary.  Unconditional:
    both branches of `topK` (the sort and the mirrored `container/heap` code) are proved to return
    tokens of their input (`topK_mem`).  Both variants (`fix`). -/
theorem index_in_range (o : Ops α) (fix : Bool) (P : Params α) (r : α) (logits : List α) (id : Nat)
    (hS : Sample o fix P r logits = .ok id) : id < logits.length := by
  obtain ⟨t, hc, hid⟩ := Sample_ok o fix P r logits id hS
  have key : ∃ y ∈ mkTokens logits, y.id = id := by
    by_cases ht : o.beq P.temp o.zero = true
    · exact ⟨t, greedy_mem o _ _ (sampleCore_greedy o fix P r _ t ht hc), hid⟩
    · unfold sampleCore at hc
      simp only [ht, if_false] at hc
      obtain ⟨y, hy, hyid⟩ := afterTopK_id_any o fix P r _ t hc
      exact ⟨y, topK_mem o _ _ y hy, by rw [hyid, hid]⟩
  obtain ⟨y, hy, hyid⟩ := key
  have := mkTokens_mem logits y hy
  rw [hyid] at this
  exact (List.getElem?_eq_some_iff.1 this).1

/-- **sample_admissible_partial** (never_neg_inf + result_mem_filters).  Temperature > 0, the
    pinned code (`fix = false`).  If the run's contracts hold — `guardOK`: no NaN and no `+Inf`
    among the scaled logits and the largest is not `-Inf` (this is what fails in finding F18) —
    then the returned id
      * indexes a logit that is not `-Inf`   (a zero-probability entry is never the first index
        whose cumulative sum reaches `r·total`: no condition on `r` is needed beyond what the
        binary search itself guarantees; `r·total ≤ total` only matters for "no panic"), and
      * is the id of the entry at a position inside the prefix `minP (topP (softmax (temperature
        (topK tokens))))`. -/
theorem sample_admissible_partial {o : Ops α} (laws : Laws o) (P : Params α) (r : α)
    (logits : List α) (id : Nat) (ht : o.beq P.temp o.zero = false)
    (hS : Sample o false P r logits = .ok id)
    (hg : guardOK o (scaledOf o P (topK o P.topK (mkTokens logits))) = true)
    (hsc : scaleOK o ((topK o P.topK (mkTokens logits)).map (·.val))
              (scaledOf o P (topK o P.topK (mkTokens logits))) = true)
    (hsm : softmaxOK o (scaledOf o P (topK o P.topK (mkTokens logits)))
              (softmaxVals o (scaledOf o P (topK o P.topK (mkTokens logits)))) = true) :
    ∃ (v : α) (idx : Nat) (f : List (Tok α)) (x : Tok α),
      logits[id]? = some v ∧ o.beq v o.negInf = false ∧
      minP o P.minP (topP o P.topP (probsOf o P (topK o P.topK (mkTokens logits)))) = .ok f ∧
      f <+: probsOf o P (topK o P.topK (mkTokens logits)) ∧
      f[idx]? = some x ∧ x.id = id := by
  obtain ⟨t, hc, hid⟩ := Sample_ok o false P r logits id hS
  unfold sampleCore at hc
  simp only [ht, Bool.false_eq_true, if_false] at hc
  obtain ⟨idx, y, f, x, hy, hyid, hyv, hf, hpre, hx, hxid⟩ :=
    afterTopK_spec laws.ord laws.addZero laws.beq P r _ t hc hg hsc hsm
  have hym : y ∈ mkTokens logits := topK_mem o _ _ y (List.mem_of_getElem? hy)
  have := mkTokens_mem logits y hym
  rw [hyid, hid] at this
  exact ⟨y.val, idx, f, x, this, hyv, hf, hpre, hx, by rw [hxid, hid]⟩

/-- **never_neg_inf**: the logit of the returned token is not `-Inf` -/
theorem never_neg_inf {o : Ops α} (laws : Laws o) (P : Params α) (r : α)
    (logits : List α) (id : Nat) (ht : o.beq P.temp o.zero = false)
    (hS : Sample o false P r logits = .ok id)
    (hg : guardOK o (scaledOf o P (topK o P.topK (mkTokens logits))) = true)
    (hsc : scaleOK o ((topK o P.topK (mkTokens logits)).map (·.val))
              (scaledOf o P (topK o P.topK (mkTokens logits))) = true)
    (hsm : softmaxOK o (scaledOf o P (topK o P.topK (mkTokens logits)))
              (softmaxVals o (scaledOf o P (topK o P.topK (mkTokens logits)))) = true) :
    ∃ v, logits[id]? = some v ∧ o.beq v o.negInf = false := by
  obtain ⟨v, _, _, _, h1, h2, _⟩ := sample_admissible_partial laws P r logits id ht hS hg hsc hsm
  exact ⟨v, h1, h2⟩

/-- **result_mem_filters**: the returned id is the id of a member of `minP (topP (…topK…))` -/
theorem result_mem_filters {o : Ops α} (laws : Laws o) (P : Params α) (r : α)
    (logits : List α) (id : Nat) (ht : o.beq P.temp o.zero = false)
    (hS : Sample o false P r logits = .ok id)
    (hg : guardOK o (scaledOf o P (topK o P.topK (mkTokens logits))) = true)
    (hsc : scaleOK o ((topK o P.topK (mkTokens logits)).map (·.val))
              (scaledOf o P (topK o P.topK (mkTokens logits))) = true)
    (hsm : softmaxOK o (scaledOf o P (topK o P.topK (mkTokens logits)))
              (softmaxVals o (scaledOf o P (topK o P.topK (mkTokens logits)))) = true) :
    ∃ f, minP o P.minP (topP o P.topP (probsOf o P (topK o P.topK (mkTokens logits)))) = .ok f ∧
      ∃ x ∈ f, x.id = id := by
  obtain ⟨_, idx, f, x, _, _, hf, _, hx, hxid⟩ :=
    sample_admissible_partial laws P r logits id ht hS hg hsc hsm
  exact ⟨f, hf, x, List.mem_of_getElem? hx, hxid⟩

/-- the binary search of the pick, without any monotonicity assumption: the returned index is in
    `[0, n]`, everything probed "below" lies left of it and the entry at it is not below -/
theorem pick_search_spec (below : Nat → Bool) (n : Nat) :
    let i := bsearch below (n + 1) 0 n
    i ≤ n ∧ (i = 0 ∨ below (i - 1) = true) ∧ (i = n ∨ below i = false) :=
  bsearch_spec below n (n + 1) 0 n (Nat.zero_le _) (Nat.le_refl _) (by omega) (Or.inl rfl) (Or.inl rfl)

/-! ### histories of calls on one sampler; determinism under a seed -/

attribute [local irreducible] pcgFloat24 pcgNext

/-- a call that does not reach the generator returns the same result whatever number it is given -/
theorem Sample_indep_r (o : Ops α) (fix : Bool) (P : Params α) (logits : List α)
    (hc : consumes o fix P logits = false) (r r' : α) :
    Sample o fix P r logits = Sample o fix P r' logits := by
  cases logits with
  | nil => rfl
  | cons v vs =>
    simp only [consumes, Bool.and_eq_false_iff, Bool.not_eq_false'] at hc
    simp only [Sample, sampleCore]
    rcases hc with ht | hc
    · simp [ht]
    · cases ht : o.beq P.temp o.zero with
      | true => simp
      | false =>
        simp only [Bool.false_eq_true, if_false]
        cases fix with
        | false => simp at hc
        | true =>
          simp only [if_true] at hc
          unfold afterTopK
          simp only [if_true, bind, Except.bind]
          cases hs : shiftMax o (topK o P.topK (mkTokens (v :: vs))) with
          | ok L1 => rw [hs] at hc; simp at hc
          | error e => rfl

/-- number of random numbers drawn by a history -/
def draws (o : Ops α) (fix : Bool) (P : Params α) (ls : List (List α)) : Nat :=
  (ls.filter (consumes o fix P)).length

/-- generator state after a history -/
theorem sampleStep_state (o : Ops α) (toF : Nat → α) (fix : Bool) (P : Params α) (p : Pcg) (l : List α) :
    (sampleStep o toF fix P p l).2 = advance pcgFloat24 (if consumes o fix P l then 1 else 0) p := by
  unfold sampleStep
  split <;> simp [advance]

theorem advance_add {σ β : Type} (step : σ → β × σ) (m n : Nat) (s : σ) :
    advance step (m + n) s = advance step n (advance step m s) := by
  induction m generalizing s with
  | zero => simp [advance]
  | succ m ih => rw [Nat.add_right_comm]; simp only [advance]; rw [ih]

/-- **no state but the generator.**  The i-th result of a history of calls on one sampler is the
    result of that single call made on a sampler whose generator has been advanced by the number
    of drawing calls before it; nothing else of the earlier calls (their logits, their lengths,
    their results) matters. -/
theorem hist_nth (o : Ops α) (toF : Nat → α) (fix : Bool) (P : Params α) (p : Pcg)
    (ls : List (List α)) (i : Nat) :
    (sampleHist o toF fix P p ls)[i]? =
      (ls[i]?).map (fun l =>
        (sampleStep o toF fix P (advance pcgFloat24 (draws o fix P (ls.take i)) p) l).1) := by
  induction ls generalizing p i with
  | nil => simp [sampleHist]
  | cons l ls ih =>
    cases i with
    | zero => simp [sampleHist, draws, advance]
    | succ i =>
      simp only [sampleHist, List.getElem?_cons_succ, List.take_succ_cons]
      rw [ih, sampleStep_state]
      congr 1
      funext l'
      congr 2
      simp only [draws, List.filter_cons]
      split
      · rw [List.length_cons, Nat.add_comm, advance_add]
      · simp [advance]

theorem sampleHist_length (o : Ops α) (toF : Nat → α) (fix : Bool) (P : Params α) (p : Pcg)
    (ls : List (List α)) : (sampleHist o toF fix P p ls).length = ls.length := by
  induction ls generalizing p with
  | nil => rfl
  | cons l ls ih => simp [sampleHist, ih]

/-- **deterministic.**  The sampled sequence is a function of (seed, parameters, logits): equal
    seeds give equal sequences, and the first `m` results do not depend on the later inputs. -/
theorem deterministic (o : Ops α) (toF : Nat → α) (fix : Bool) (P : Params α)
    (seed₁ seed₂ : Int) (hs : seed₁ = seed₂) (a b : List (List α)) :
    sampleHist o toF fix P (pcgOfSeed seed₁) a = sampleHist o toF fix P (pcgOfSeed seed₂) a ∧
    (sampleHist o toF fix P (pcgOfSeed seed₁) (a ++ b)).take a.length
      = sampleHist o toF fix P (pcgOfSeed seed₁) a := by
  subst hs
  refine ⟨rfl, ?_⟩
  generalize pcgOfSeed seed₁ = p
  induction a generalizing p with
  | nil => simp [sampleHist]
  | cons l ls ih =>
    simp only [List.cons_append, sampleHist, List.length_cons, List.take_succ_cons]
    rw [ih]
/-- the random stream is a function of the seed alone, and its k-th element does not depend on
    how many numbers are drawn afterwards -/
theorem stream_of_seed (seed : Int) (m n : Nat) :
    pcgStream (m + n) (pcgOfSeed seed)
      = pcgStream m (pcgOfSeed seed) ++ pcgStream n (advance pcgFloat24 m (pcgOfSeed seed)) :=
  streamOf_append pcgFloat24 m n _

/-! ### witnesses: a four-point-plus-integers carrier with IEEE's special values -/

/-- NaN, -Inf, integers, +Inf with IEEE's rules for the special values (`Inf - Inf = NaN`,
    every comparison with NaN false); `exp` and `/` are crude (only their special cases matter) -/
inductive X where
  | nan | ninf | fin (n : Int) | pinf
  deriving DecidableEq, Repr

namespace X
def lt : X → X → Bool
  | nan, _ => false | _, nan => false
  | ninf, ninf => false | ninf, _ => true
  | fin _, ninf => false | fin a, fin b => decide (a < b) | fin _, pinf => true
  | pinf, _ => false
def beq : X → X → Bool
  | nan, _ => false | _, nan => false | a, b => decide (a = b)
def neg : X → X
  | nan => nan | ninf => pinf | pinf => ninf | fin a => fin (-a)
def add : X → X → X
  | nan, _ => nan | _, nan => nan
  | pinf, ninf => nan | ninf, pinf => nan
  | pinf, _ => pinf | _, pinf => pinf
  | ninf, _ => ninf | _, ninf => ninf
  | fin a, fin b => fin (a + b)
def mul : X → X → X
  | fin a, fin b => fin (a * b) | _, _ => nan
def div : X → X → X
  | nan, _ => nan | _, nan => nan
  | fin a, fin b => fin (a / b)
  | a, fin _ => a
  | _, _ => nan
def exp : X → X
  | nan => nan | ninf => fin 0 | pinf => pinf
  | fin a => if a < 0 then fin 0 else fin 1
def ops : Ops X where
  lt := lt
  le a b := lt a b || beq a b
  beq := beq
  isNaN a := decide (a = nan)
  add := add
  sub a b := add a (neg b)
  mul := mul
  div := div
  exp := exp
  zero := fin 0
  one := fin 1
  negInf := ninf
  posInf := pinf
  tempFloor := fin 0
end X

def xParams : Params X := ⟨.fin 1, 0, .fin 1, .fin 0, false⟩

def errOf {β : Type} : Except Err β → Option Err
  | .error e => some e
  | .ok _ => none

/-- **Witness of finding F18.**  Sorted tokens `[+Inf, 0]`, temperature 1: the pinned pipeline
    computes `Inf - Inf = NaN` in softmax and reports "logits sum to NaN" although token 1 has a
    finite logit (and token 0 is the obvious answer); the repaired pipeline (`fix = true`) returns
    token 0.  The same happens when a finite logit overflows to `+Inf` in `temperature`. -/
theorem F18_nan_instead_of_token :
    errOf (afterTopK X.ops false xParams (.fin 0) [⟨0, .pinf⟩, ⟨1, .fin 0⟩]) = some .nanSum ∧
    (afterTopK X.ops true xParams (.fin 0) [⟨0, .pinf⟩, ⟨1, .fin 0⟩]).toOption.map (·.id) = some 0 := by
  decide

/-- the guard of `sample_admissible_partial` is what fails on the F18 input -/
theorem F18_guard_fails :
    guardOK X.ops (scaledOf X.ops xParams [⟨0, .pinf⟩, ⟨1, .fin 0⟩]) = false := by decide

/-- **Witness of finding F18b.**  `greedy` keeps a NaN that sits at index 0: every comparison
    with it is false. -/
theorem F18b_greedy_keeps_leading_nan :
    (greedy X.ops [⟨0, .nan⟩, ⟨1, .fin 1⟩, ⟨2, .fin 2⟩]).toOption.map (·.id) = some 0 ∧
    (greedy X.ops [⟨0, .fin 1⟩, ⟨1, .nan⟩, ⟨2, .fin 2⟩]).toOption.map (·.id) = some 2 := by
  decide

/-- non-vacuity: on the same carrier a run with finite logits satisfies every contract hypothesis
    of `sample_admissible_partial` and returns a token (here: sorted tokens `[5, 3, -Inf]`) -/
example :
    let L : List (Tok X) := [⟨2, .fin 5⟩, ⟨0, .fin 3⟩, ⟨1, .ninf⟩]
    guardOK X.ops (scaledOf X.ops xParams L) = true ∧
    scaleOK X.ops (L.map (·.val)) (scaledOf X.ops xParams L) = true ∧
    softmaxOK X.ops (scaledOf X.ops xParams L) (softmaxVals X.ops (scaledOf X.ops xParams L)) = true ∧
    (afterTopK X.ops false xParams (.fin 1) L).toOption.map (·.id) = some 2 := by
  decide

/-- **sample_admissible_fixed_partial** — the same statement for the repaired code that /repo now
    contains (`fix = true`: shift by the largest logit, then scale).  `L1` is the shifted list; the
    contracts are those of the run on `L1` plus the shift's own (`-Inf` stays `-Inf`, order kept).
    After the shift the scaled maximum is 0, so `guardOK` only fails when a NaN is present: the
    F18 inputs now satisfy the hypotheses (witness `F18_nan_instead_of_token`, second half). -/
theorem sample_admissible_fixed_partial {o : Ops α} (laws : Laws o) (P : Params α) (r : α)
    (logits : List α) (id : Nat) (ht : o.beq P.temp o.zero = false)
    (hS : Sample o true P r logits = .ok id) :
    ∃ L1, shiftMax o (topK o P.topK (mkTokens logits)) = .ok L1 ∧
    (guardOK o (scaledOf o P L1) = true →
     scaleOK o ((topK o P.topK (mkTokens logits)).map (·.val)) (L1.map (·.val)) = true →
     scaleOK o (L1.map (·.val)) (scaledOf o P L1) = true →
     softmaxOK o (scaledOf o P L1) (softmaxVals o (scaledOf o P L1)) = true →
     ∃ (v : α) (idx : Nat) (f : List (Tok α)) (x : Tok α),
      logits[id]? = some v ∧ o.beq v o.negInf = false ∧
      minP o P.minP (topP o P.topP (probsOf o P L1)) = .ok f ∧ f <+: probsOf o P L1 ∧
      f[idx]? = some x ∧ x.id = id) := by
  obtain ⟨t, hc, hid⟩ := Sample_ok o true P r logits id hS
  unfold sampleCore at hc
  simp only [ht, Bool.false_eq_true, if_false] at hc
  obtain ⟨L1, hs, hrest⟩ := afterTopK_spec_fix laws.ord laws.addZero laws.beq P r _ t hc
  refine ⟨L1, hs, ?_⟩
  intro hg hsh hsc hsm
  obtain ⟨idx, y, f, x, hy, hyid, hyv, hf, hpre, hx, hxid⟩ := hrest hg hsh hsc hsm
  have hym : y ∈ mkTokens logits := topK_mem o _ _ y (List.mem_of_getElem? hy)
  have := mkTokens_mem logits y hym
  rw [hyid, hid] at this
  exact ⟨y.val, idx, f, x, this, hyv, hf, hpre, hx, by rw [hxid, hid]⟩

/-- non-vacuity of the repaired variant's hypotheses on the former F18 input `[+Inf, 0]` -/
example :
    let L : List (Tok X) := [⟨0, .pinf⟩, ⟨1, .fin 0⟩]
    let L1 : List (Tok X) := [⟨0, .fin 0⟩, ⟨1, .ninf⟩]
    errOf (shiftMax X.ops L) = none ∧ (shiftMax X.ops L).toOption = some L1 ∧
    guardOK X.ops (scaledOf X.ops xParams L1) = true ∧
    scaleOK X.ops (L.map (·.val)) (L1.map (·.val)) = true ∧
    scaleOK X.ops (L1.map (·.val)) (scaledOf X.ops xParams L1) = true ∧
    softmaxOK X.ops (scaledOf X.ops xParams L1) (softmaxVals X.ops (scaledOf X.ops xParams L1)) = true := by
  decide

/-! ### the grammar path -/

theorem maskFrom_get (o : Ops α) (acc : List Nat) : ∀ (logits : List α) (i j : Nat) (v : α),
    (maskFrom o acc i logits)[j]? = some v →
    ∃ w, logits[j]? = some w ∧ v = (if acc.contains (i + j) then w else o.negInf) := by
  intro logits
  induction logits with
  | nil => intro i j v h; simp [maskFrom] at h
  | cons w ws ih =>
    intro i j v h
    cases j with
    | zero =>
      simp only [maskFrom, List.getElem?_cons_zero, Option.some.injEq] at h
      exact ⟨w, rfl, by simpa using h.symm⟩
    | succ j =>
      simp only [maskFrom, List.getElem?_cons_succ] at h
      obtain ⟨w', hw, hv⟩ := ih (i + 1) j v h
      refine ⟨w', by simpa using hw, ?_⟩
      rw [hv]
      have e : i + 1 + j = i + (j + 1) := by omega
      rw [e]

/-- the masked logits: an accepted id keeps its logit, a rejected id gets `-Inf` -/
theorem maskLogits_get (o : Ops α) (acc : List Nat) (logits : List α) (j : Nat) (v : α)
    (h : (maskLogits o acc logits)[j]? = some v) :
    ∃ w, logits[j]? = some w ∧ v = (if acc.contains j then w else o.negInf) := by
  obtain ⟨w, hw, hv⟩ := maskFrom_get o acc logits 0 j v h
  exact ⟨w, hw, by simpa using hv⟩

/-- **what a grammar-constrained call returns.**  Either the first pick — then it is accepted by
    the grammar and it is the result of the plain `Sample` on the original logits — or the result of
    `Sample` on a fresh token list built from the ORIGINAL logits with the grammar mask applied
    (`maskLogits`), drawn with a new random number.  Every theorem about `Sample` (index in range,
    not `-Inf`, membership in the filter set, argmax, no panic) therefore applies to the retry with
    the masked logits in the place of the logits. -/
theorem grammar_step_spec (o : Ops α) (toF : Nat → α) (fix : Bool) (P : Params α) (p : Pcg)
    (logits : List α) (acc : List Nat) (id : Nat)
    (h : (sampleStepG o toF fix P p logits acc).1 = .ok id) :
    (acc.contains id = true ∧ ∃ r, Sample o fix P r logits = .ok id) ∨
    (∃ r, Sample o fix P r (maskLogits o acc logits) = .ok id) := by
  cases logits with
  | nil => simp [sampleStepG] at h
  | cons v vs =>
    simp only [sampleStepG] at h
    generalize hr1 : (if consumes o fix P (v :: vs) = true then toF (pcgFloat24 p).1 else toF 0) = r1 at h
    cases hc : sampleCore o fix P r1 (mkTokens (v :: vs)) with
    | error e => rw [hc] at h; simp at h
    | ok t =>
      rw [hc] at h
      simp only at h
      split at h
      · rename_i hacc
        simp only [Bool.and_eq_true] at hacc
        simp only at h
        injection h with h
        left
        refine ⟨by rw [← h]; exact hacc.1, r1, ?_⟩
        simp only [Sample, hc, Except.map, h]
      · right
        simp only at h
        unfold sampleStep at h
        split at h
        · exact ⟨_, h⟩
        · exact ⟨_, h⟩

/-- a retry result whose masked logit is not `-Inf` is accepted by the grammar -/
theorem masked_not_neginf_accepted (o : Ops α) (hrefl : o.beq o.negInf o.negInf = true)
    (acc : List Nat) (logits : List α) (id : Nat) (v : α)
    (hv : (maskLogits o acc logits)[id]? = some v) (hne : o.beq v o.negInf = false) :
    acc.contains id = true := by
  obtain ⟨w, _, hvw⟩ := maskLogits_get o acc logits id v hv
  cases hc : acc.contains id with
  | true => rfl
  | false =>
    rw [hc] at hvw
    simp only [Bool.false_eq_true, if_false] at hvw
    rw [hvw, hrefl] at hne; cases hne

/-- **grammar, temperature > 0, pinned variant**: under the contracts of the run on the masked
    logits, the retry result is accepted by the grammar, indexes a masked (= original) logit that
    is not `-Inf`, and lies in the filter set of the masked logits -/
theorem grammar_retry_admissible_partial {o : Ops α} (laws : Laws o)
    (hrefl : o.beq o.negInf o.negInf = true) (P : Params α) (r : α)
    (logits : List α) (acc : List Nat) (id : Nat) (ht : o.beq P.temp o.zero = false)
    (hS : Sample o false P r (maskLogits o acc logits) = .ok id)
    (hg : guardOK o (scaledOf o P (topK o P.topK (mkTokens (maskLogits o acc logits)))) = true)
    (hsc : scaleOK o ((topK o P.topK (mkTokens (maskLogits o acc logits))).map (·.val))
              (scaledOf o P (topK o P.topK (mkTokens (maskLogits o acc logits)))) = true)
    (hsm : softmaxOK o (scaledOf o P (topK o P.topK (mkTokens (maskLogits o acc logits))))
              (softmaxVals o (scaledOf o P (topK o P.topK (mkTokens (maskLogits o acc logits))))) = true) :
    acc.contains id = true ∧
    (∃ w, logits[id]? = some w ∧ o.beq w o.negInf = false) ∧
    ∃ f, minP o P.minP (topP o P.topP (probsOf o P (topK o P.topK (mkTokens (maskLogits o acc logits))))) = .ok f ∧
      ∃ x ∈ f, x.id = id := by
  obtain ⟨v, hv, hne⟩ := never_neg_inf laws P r _ id ht hS hg hsc hsm
  have hacc := masked_not_neginf_accepted o hrefl acc logits id v hv hne
  obtain ⟨w, hw, hvw⟩ := maskLogits_get o acc logits id v hv
  rw [hacc] at hvw
  simp only [if_true] at hvw
  exact ⟨hacc, ⟨w, hw, by rw [← hvw]; exact hne⟩,
    result_mem_filters laws P r _ id ht hS hg hsc hsm⟩

/-- **grammar, temperature 0**: the retry returns an arg-max of the masked logits, and it is
    accepted by the grammar as soon as some masked logit is above `-Inf` -/
theorem grammar_retry_greedy {o : Ops α} (h : OrdLaws o) (fix : Bool) (P : Params α) (r : α)
    (logits : List α) (acc : List Nat) (id : Nat) (ht : o.beq P.temp o.zero = true)
    (hS : Sample o fix P r (maskLogits o acc logits) = .ok id)
    (hsome : ∃ w ∈ maskLogits o acc logits, o.lt o.negInf w = true) :
    acc.contains id = true ∧
    ∃ v, (maskLogits o acc logits)[id]? = some v ∧ ∀ w ∈ maskLogits o acc logits, o.lt v w = false := by
  obtain ⟨v, hv, hmax⟩ := greedy_argmax h fix P r _ id ht hS
  refine ⟨?_, v, hv, hmax⟩
  obtain ⟨w0, _, hvw⟩ := maskLogits_get o acc logits id v hv
  cases hc : acc.contains id with
  | true => rfl
  | false =>
    rw [hc] at hvw
    simp only [Bool.false_eq_true, if_false] at hvw
    obtain ⟨w, hw, hlt⟩ := hsome
    have := hmax w hw
    rw [hvw, hlt] at this; cases this

/-- the same for the repaired variant that /repo runs -/
theorem grammar_retry_admissible_fixed_partial {o : Ops α} (laws : Laws o)
    (hrefl : o.beq o.negInf o.negInf = true) (P : Params α) (r : α)
    (logits : List α) (acc : List Nat) (id : Nat) (ht : o.beq P.temp o.zero = false)
    (hS : Sample o true P r (maskLogits o acc logits) = .ok id) :
    ∃ L1, shiftMax o (topK o P.topK (mkTokens (maskLogits o acc logits))) = .ok L1 ∧
    (guardOK o (scaledOf o P L1) = true →
     scaleOK o ((topK o P.topK (mkTokens (maskLogits o acc logits))).map (·.val)) (L1.map (·.val)) = true →
     scaleOK o (L1.map (·.val)) (scaledOf o P L1) = true →
     softmaxOK o (scaledOf o P L1) (softmaxVals o (scaledOf o P L1)) = true →
     acc.contains id = true ∧
     (∃ w, logits[id]? = some w ∧ o.beq w o.negInf = false) ∧
     ∃ f, minP o P.minP (topP o P.topP (probsOf o P L1)) = .ok f ∧ ∃ x ∈ f, x.id = id) := by
  obtain ⟨L1, hs, hrest⟩ := sample_admissible_fixed_partial laws P r _ id ht hS
  refine ⟨L1, hs, ?_⟩
  intro hg hsh hsc hsm
  obtain ⟨v, idx, f, x, hv, hne, hf, _, hx, hxid⟩ := hrest hg hsh hsc hsm
  have hacc := masked_not_neginf_accepted o hrefl acc logits id v hv hne
  obtain ⟨w, hw, hvw⟩ := maskLogits_get o acc logits id v hv
  rw [hacc] at hvw
  simp only [if_true] at hvw
  exact ⟨hacc, ⟨w, hw, by rw [← hvw]; exact hne⟩, f, hf, x, List.mem_of_getElem? hx, hxid⟩
/-- **Witness of finding F18c.**  Temperature 0, the grammar accepts only token 1 whose logit is
    `-Inf`: the first (greedy) pick 0 is rejected, the retry runs greedy over the all `-Inf` masked
    logits and returns token 0 again — a token the grammar rejects, which the real code then hands
    to llama.cpp's `Accept` (throws, process abort).  With the proposed repair (`greedyErr`) the
    call reports the "all -Inf" error instead. -/
theorem F18c_greedy_retry_returns_rejected :
    (sampleStepG X.ops (fun _ => .fin 0) true ⟨.fin 0, 40, .fin 1, .fin 0, false⟩ ⟨0, 0⟩
        [.fin 5, .ninf, .fin 1] [1]).1.toOption = some 0 ∧
    ([1] : List Nat).contains 0 = false ∧
    errOf (sampleStepG X.ops (fun _ => .fin 0) true ⟨.fin 0, 40, .fin 1, .fin 0, true⟩ ⟨0, 0⟩
        [.fin 5, .ninf, .fin 1] [1]).1 = some .allNegInf := by
  decide
/-! ### round 7: temperature 0 is total and never `-Inf`; every call of every history -/

/-- **greedy_admissible.**  Temperature 0, both variants, with or without the F18c repair: as soon
    as some logit is above `-Inf`, `Sample` RETURNS a token (no error), its logit is not `-Inf`, and
    no logit exceeds it.  (Closes the "whenever some logit is finite" clause on the greedy branch:
    `greedy_argmax` alone says nothing when `Sample` reports an error.) -/
theorem greedy_admissible_sep {o : Ops α} (hord : OrdLaws o) (hbeq : BeqLaw o) (fix : Bool) (P : Params α) (r : α)
    (logits : List α) (ht : o.beq P.temp o.zero = true)
    (hsome : ∃ w ∈ logits, o.lt o.negInf w = true) :
    ∃ id v, Sample o fix P r logits = .ok id ∧ logits[id]? = some v ∧ o.beq v o.negInf = false ∧
      ∀ w ∈ logits, o.lt v w = false := by
  obtain ⟨w, hw, hlt⟩ := hsome
  cases logits with
  | nil => cases hw
  | cons v0 vs =>
    -- greedy on a non-empty list returns a token
    obtain ⟨m, hm⟩ : ∃ m, greedy o (mkTokens (v0 :: vs)) = .ok m := by
      simp only [mkTokens, mkTokensFrom, greedy]; exact ⟨_, rfl⟩
    obtain ⟨hmem, hmax⟩ := greedy_spec hord _ _ hm
    have hget := mkTokens_mem _ _ hmem
    have hmaxw : ∀ w ∈ v0 :: vs, o.lt m.val w = false := by
      intro w hw
      obtain ⟨x, hx, hv⟩ := mem_mkTokens_of_mem (v0 :: vs) w hw
      rw [← hv]; exact hmax x hx
    have hne : o.beq m.val o.negInf = false := by
      cases hb : o.beq m.val o.negInf with
      | false => rfl
      | true =>
        have h1 : o.lt o.negInf m.val = false := hbeq _ _ hb
        rcases hord.cotrans _ m.val _ hlt with h2 | h2
        · rw [h1] at h2; cases h2
        · rw [hmaxw w hw] at h2; cases h2
    refine ⟨m.id, m.val, ?_, hget, hne, hmaxw⟩
    simp only [Sample, sampleCore, ht, if_true, hm, hne, Bool.and_false, Bool.false_eq_true, if_false,
      Except.map]

theorem greedy_admissible {o : Ops α} (laws : Laws o) (fix : Bool) (P : Params α) (r : α)
    (logits : List α) (ht : o.beq P.temp o.zero = true)
    (hsome : ∃ w ∈ logits, o.lt o.negInf w = true) :
    ∃ id v, Sample o fix P r logits = .ok id ∧ logits[id]? = some v ∧ o.beq v o.negInf = false ∧
      ∀ w ∈ logits, o.lt v w = false :=
  greedy_admissible_sep laws.ord laws.beq fix P r logits ht hsome

/-- every result of a history on a SEEDED sampler is the result of the single call `Sample` on
    that call's logits with some number -/
theorem hist_each_call (o : Ops α) (toF : Nat → α) (fix : Bool) (P : Params α) (p : Pcg)
    (ls : List (List α)) (i : Nat) (res : Except Err Nat)
    (h : (sampleHist o toF fix P p ls)[i]? = some res) :
    ∃ l r, ls[i]? = some l ∧ res = Sample o fix P r l := by
  rw [hist_nth] at h
  cases hl : ls[i]? with
  | none => rw [hl] at h; cases h
  | some l =>
    rw [hl] at h
    simp only [Option.map_some, Option.some.injEq] at h
    refine ⟨l, ?_, rfl, ?_⟩
    · exact if consumes o fix P l then
        toF (pcgFloat24 (advance pcgFloat24 (draws o fix P (ls.take i)) p)).1 else toF 0
    · rw [← h]; unfold sampleStep; split <;> simp [*]

/-- the same for an UNSEEDED sampler (`seed = -1`, `rng == nil`), whatever numbers the
    process-wide source delivers -/
theorem unseeded_each_call (o : Ops α) (fix : Bool) (P : Params α) (rs : List α)
    (ls : List (List α)) (i : Nat) (res : Except Err Nat)
    (h : (sampleHistU o fix P rs ls)[i]? = some res) :
    ∃ l r, ls[i]? = some l ∧ res = Sample o fix P r l := by
  induction ls generalizing rs i with
  | nil => simp [sampleHistU] at h
  | cons l ls ih =>
    unfold sampleHistU at h
    split at h
    · cases i with
      | zero => simp only [List.getElem?_cons_zero, Option.some.injEq] at h; exact ⟨l, _, rfl, h.symm⟩
      | succ i => simp only [List.getElem?_cons_succ] at h ⊢; exact ih _ _ h
    · cases i with
      | zero => simp only [List.getElem?_cons_zero, Option.some.injEq] at h; exact ⟨l, _, rfl, h.symm⟩
      | succ i => simp only [List.getElem?_cons_succ] at h ⊢; exact ih _ _ h

/-- the sentinel: exactly the seed `-1` leaves the sampler without a generator of its own -/
theorem newRng_none_iff (seed : Int) : newRng seed = none ↔ seed = -1 := by
  unfold newRng; split <;> simp [*]

/-- **every call of every history is in range and, at temperature 0, an arg-max** — seeded or not,
    any number of calls, any lengths, both variants: lifts `index_in_range` and `greedy_argmax`
    from one call to every position of every history (`results` is `sampleHist …` or
    `sampleHistU …`: see `hist_each_call`, `unseeded_each_call`). -/
theorem every_call_admissible {o : Ops α} (h : OrdLaws o) (fix : Bool) (P : Params α)
    (ls : List (List α)) (results : List (Except Err Nat))
    (hres : ∀ (i : Nat) res, results[i]? = some res → ∃ l r, ls[i]? = some l ∧ res = Sample o fix P r l)
    (i : Nat) (id : Nat) (hi : results[i]? = some (.ok id)) :
    ∃ l, ls[i]? = some l ∧ id < l.length ∧
      (o.beq P.temp o.zero = true → ∃ v, l[id]? = some v ∧ ∀ w ∈ l, o.lt v w = false) := by
  obtain ⟨l, r, hl, hS⟩ := hres i _ hi
  exact ⟨l, hl, index_in_range o fix P r l id hS.symm,
    fun ht => greedy_argmax h fix P r l id ht hS.symm⟩

theorem hist_every_call_admissible {o : Ops α} (h : OrdLaws o) (toF : Nat → α) (fix : Bool)
    (P : Params α) (seed : Int) (rs : List α) (ls : List (List α)) (i id : Nat) :
    ((sampleHist o toF fix P (pcgOfSeed seed) ls)[i]? = some (.ok id) ∨
     (sampleHistU o fix P rs ls)[i]? = some (.ok id)) →
    ∃ l, ls[i]? = some l ∧ id < l.length ∧
      (o.beq P.temp o.zero = true → ∃ v, l[id]? = some v ∧ ∀ w ∈ l, o.lt v w = false) := by
  rintro (hi | hi)
  · exact every_call_admissible h fix P ls _ (hist_each_call o toF fix P _ ls) i id hi
  · exact every_call_admissible h fix P ls _ (unseeded_each_call o fix P rs ls) i id hi

theorem maskLogits_length (o : Ops α) (acc : List Nat) (l : List α) :
    (maskLogits o acc l).length = l.length := by
  have : ∀ k, (maskFrom o acc k l).length = l.length := by
    induction l with
    | nil => intro k; rfl
    | cons v vs ih => intro k; simp [maskFrom, ih (k + 1)]
  exact this 0

/-- every call of every GRAMMAR history: the id is in range, and it is either the accepted first
    pick (= plain `Sample` on the call's logits) or `Sample` on the masked logits -/
theorem ghist_each_call (o : Ops α) (toF : Nat → α) (fix : Bool) (P : Params α) (p : Pcg)
    (ls : List (List α × List Nat)) (i id d : Nat)
    (h : (sampleHistG o toF fix P p ls)[i]? = some (.ok id, d)) :
    ∃ l acc, ls[i]? = some (l, acc) ∧ id < l.length ∧
      ((acc.contains id = true ∧ ∃ r, Sample o fix P r l = .ok id) ∨
       (∃ r, Sample o fix P r (maskLogits o acc l) = .ok id)) := by
  induction ls generalizing p i with
  | nil => simp [sampleHistG] at h
  | cons c ls ih =>
    obtain ⟨l, acc⟩ := c
    cases i with
    | succ i => simp only [sampleHistG, List.getElem?_cons_succ] at h ⊢; exact ih _ _ h
    | zero =>
      simp only [sampleHistG, List.getElem?_cons_zero, Option.some.injEq, Prod.mk.injEq] at h
      have hs := grammar_step_spec o toF fix P p l acc id h.1
      refine ⟨l, acc, rfl, ?_, hs⟩
      rcases hs with ⟨_, r, hr⟩ | ⟨r, hr⟩
      · exact index_in_range o fix P r l id hr
      · have := index_in_range o fix P r _ id hr
        rw [maskLogits_length] at this; exact this

/-- non-vacuity: a three-call history on the witness carrier, seeded and unseeded; the first call
    draws, the empty call does not, and the third call is served by the next number -/
example :
    (sampleHistU X.ops false ⟨.fin 1, 1, .fin 1, .fin 0, false⟩ [.fin 0, .fin 1]
        [[.fin 3, .fin 5], [], [.fin 7, .fin 2]]).map (fun r => r.toOption) = [some 1, none, some 0] ∧
    (sampleHist X.ops (fun _ => .fin 0) false { xParams with temp := .fin 0 } (pcgOfSeed 7)
        [[.fin 3, .fin 5], [.ninf, .fin 2, .fin 2]]).map (fun r => r.toOption) = [some 1, some 1] ∧
    newRng (-1) = none ∧ newRng 0 = some ⟨0, 0x9E3779B9⟩ := by
  decide

/-- non-vacuity: the heap branch on the witness carrier (`k = 2` of 4 tokens, a tie, a `-Inf`):
    the two largest in descending order; the replaced root is the first-seen `3` -/
example :
    (topK X.ops 2 [⟨0, .fin 3⟩, ⟨1, .ninf⟩, ⟨2, .fin 7⟩, ⟨3, .fin 3⟩]).map (·.id) = [2, 0] ∧
    (Sample X.ops true ⟨.fin 1, 2, .fin 1, .fin 0, false⟩ (.fin 0) [.fin 3, .ninf, .fin 7, .fin 3]).toOption
      = some 2 := by
  decide

/-! ### the laws are satisfiable -/

/-- the laws are satisfiable: the integers with their usual order and arithmetic -/
def zOps : Ops Int where
  lt a b := decide (a < b)
  le a b := decide (a ≤ b)
  beq a b := decide (a = b)
  isNaN _ := false
  add a b := a + b
  sub a b := a - b
  mul a b := a * b
  div a b := a / b
  exp a := a
  zero := 0
  one := 1
  negInf := -1000000
  posInf := 1000000
  tempFloor := 0

theorem zOps_laws : Laws zOps where
  ord := {
    irrefl := by intro a; simp [zOps]
    trans := by intro a b c; simp only [zOps, decide_eq_true_eq]; omega
    cotrans := by intro a b c; simp only [zOps, decide_eq_true_eq]; omega }
  addZero := by
    intro s z hz
    simp only [zOps, decide_eq_true_eq, decide_eq_false_iff_not] at hz ⊢
    omega
  beq := by
    intro a b hab
    simp only [zOps, decide_eq_true_eq, decide_eq_false_iff_not] at hab ⊢
    omega
/-! ### round 7 (after review): totality on the weighted branch, all clauses at once -/

theorem pick_not_allNegInf (o : Ops α) (r : α) (L : List (Tok α)) : pick o r L ≠ .error .allNegInf := by
  unfold pick
  simp only
  split
  · simp
  · split
    · simp
    · split <;> simp

/-- the first token of a correct top-k carries a largest logit (needs only irreflexivity at it) -/
theorem isTopK_head_max {o : Ops α} {k : Int} {ts : List (Tok α)} {t0 : Tok α} {rest : List (Tok α)}
    (ht : IsTopK o k ts (t0 :: rest)) (hirr : o.lt t0.val t0.val = false) :
    ∀ x ∈ ts, o.lt t0.val x.val = false := by
  obtain ⟨left, hp, hdom⟩ := ht.sub
  intro x hx
  have hx' := hp.mem_iff.2 hx
  rcases List.mem_append.1 hx' with hxo | hxl
  · rcases List.mem_cons.1 hxo with rfl | hxr
    · exact hirr
    · exact (List.pairwise_cons.1 ht.desc).1 x hxr
  · exact hdom x hxl t0 List.mem_cons_self

/-- core of the totality statement: if the head of `topK`'s output is not `-Inf`, the repaired
    `Sample` does not report "all logits are -Inf" -/
theorem no_allNegInf_of_head (o : Ops α) (P : Params α) (r : α) (v : α) (vs : List α)
    (ht : o.beq P.temp o.zero = false) (t0 : Tok α) (rest : List (Tok α))
    (hk : topK o P.topK (mkTokens (v :: vs)) = t0 :: rest) (hne : o.beq t0.val o.negInf = false) :
    Sample o true P r (v :: vs) ≠ .error .allNegInf := by
  intro hS
  simp only [Sample, sampleCore, ht, Bool.false_eq_true, if_false] at hS
  rw [hk] at hS
  unfold afterTopK at hS
  simp only [if_true, shiftMax, hne, Bool.false_eq_true, if_false, bind, Except.bind] at hS
  revert hS
  generalize (List.map (fun t => ({ id := t.id, val := if o.beq t.val t0.val = true then o.zero else o.sub t.val t0.val } : Tok α)) (t0 :: rest)) = L1
  intro hS
  cases hm : minP o P.minP (topP o P.topP (softmax o (temperature o P.temp L1))) with
  | error e =>
    rw [hm] at hS
    simp only [Except.map] at hS
    cases hL : topP o P.topP (softmax o (temperature o P.temp L1)) with
    | nil => rw [hL] at hm; simp only [minP] at hm; injection hm with hm; rw [← hm] at hS; cases hS
    | cons a as => rw [hL] at hm; simp [minP] at hm
  | ok f =>
    rw [hm] at hS
    simp only [Except.map] at hS
    exact pick_not_allNegInf o r f (by
      cases hp : pick o r f with
      | ok t => rw [hp] at hS; cases hS
      | error e => rw [hp] at hS; injection hS with hS; rw [hS])

theorem topK_ne_nil_of_isTopK {o : Ops α} {k : Int} {ts : List (Tok α)} (hts : ts ≠ [])
    (ht : IsTopK o k ts (topK o k ts)) (hk0 : topK o k ts = []) : False := by
  have hlen := ht.len
  rw [hk0] at hlen
  have hpos : 0 < ts.length := List.length_pos_iff.2 hts
  simp only [List.length_nil] at hlen
  split at hlen
  · omega
  · rename_i hc; omega

/-- **the "all logits are -Inf" error is only raised when it is true** (repaired variant = /repo,
    temperature > 0): as soon as some logit is above `-Inf`, `Sample` does not report it — the head
    of `topK`'s output is a maximum (`topK_isTopK`, both branches), so it is not `-Inf`. -/
theorem sample_fixed_no_allNegInf {o : Ops α} (laws : Laws o) (P : Params α) (r : α) (logits : List α)
    (ht : o.beq P.temp o.zero = false) (hsome : ∃ w ∈ logits, o.lt o.negInf w = true) :
    Sample o true P r logits ≠ .error .allNegInf := by
  obtain ⟨w, hw, hlt⟩ := hsome
  cases logits with
  | nil => cases hw
  | cons v vs =>
    obtain ⟨x, hx, hxv⟩ := mem_mkTokens_of_mem (v :: vs) w hw
    have hK := (topK_isTopK laws.ord P.topK (mkTokens (v :: vs))).2
    cases hk : topK o P.topK (mkTokens (v :: vs)) with
    | nil => exact (topK_ne_nil_of_isTopK (by simp [mkTokens, mkTokensFrom]) hK hk).elim
    | cons t0 rest =>
      rw [hk] at hK
      have hmax := isTopK_head_max hK (laws.ord.irrefl _) x hx
      refine no_allNegInf_of_head o P r v vs ht t0 rest hk ?_
      cases hb : o.beq t0.val o.negInf with
      | false => rfl
      | true =>
        have h1 : o.lt o.negInf t0.val = false := laws.beq _ _ hb
        rcases laws.ord.cotrans _ t0.val _ hlt with h2 | h2
        · rw [h1] at h2; cases h2
        · rw [← hxv, hmax] at h2; cases h2

/-- **token or NaN error, nothing else** (repaired variant, temperature > 0, some logit above
    `-Inf`): with the two arithmetic run contracts of `sample_never_panics_fixed`, `Sample` returns
    a token or the NaN error — no panic, and not the "all -Inf" error. -/
theorem sample_fixed_token_or_nan {o : Ops α} (laws : Laws o) (P : Params α) (r : α) (logits : List α)
    (ht : o.beq P.temp o.zero = false) (hsome : ∃ w ∈ logits, o.lt o.negInf w = true)
    (hmin : ∀ L1 t0 rest, shiftMax o (topK o P.topK (mkTokens logits)) = .ok L1 →
        topP o P.topP (probsOf o P L1) = t0 :: rest → o.lt t0.val (o.mul t0.val P.minP) = false)
    (hr : ∀ L1 f last, shiftMax o (topK o P.topK (mkTokens logits)) = .ok L1 →
        minP o P.minP (topP o P.topP (probsOf o P L1)) = .ok f →
        (cumsum o o.zero f).getLast? = some last → o.lt last.val (o.mul r last.val) = false) :
    (∃ id, Sample o true P r logits = .ok id) ∨ Sample o true P r logits = .error .nanSum := by
  have hne : logits ≠ [] := by
    obtain ⟨w, hw, _⟩ := hsome
    intro e; rw [e] at hw; cases hw
  rcases sample_never_panics_fixed o P r logits hne hmin hr with h | h | h
  · exact Or.inl h
  · exact Or.inr h
  · exact absurd h (sample_fixed_no_allNegInf laws P r logits ht hsome)

/-- **C18 for one call of the code in /repo, all clauses at once** (repaired variant, temperature > 0):
    if `Sample` returns `id` then `id` is inside the vocabulary and fewer than `k` logits are strictly
    larger (no contract), and under the run's IEEE contracts its logit is not `-Inf` and it is the id
    of a member of `minP (topP (softmax (temperature (shift (topK tokens)))))`. -/
theorem sample_admissible_all_fixed {o : Ops α} (laws : Laws o) (P : Params α) (r : α)
    (logits : List α) (id : Nat) (ht : o.beq P.temp o.zero = false)
    (hS : Sample o true P r logits = .ok id) :
    id < logits.length ∧
    (∃ v, logits[id]? = some v ∧
      ((mkTokens logits).filter (fun x => o.lt v x.val)).length <
        (if P.topK ≥ (logits.length : Int) ∨ P.topK ≤ 0 then logits.length else P.topK.toNat)) ∧
    ∃ L1, shiftMax o (topK o P.topK (mkTokens logits)) = .ok L1 ∧
    (guardOK o (scaledOf o P L1) = true →
     scaleOK o ((topK o P.topK (mkTokens logits)).map (·.val)) (L1.map (·.val)) = true →
     scaleOK o (L1.map (·.val)) (scaledOf o P L1) = true →
     softmaxOK o (scaledOf o P L1) (softmaxVals o (scaledOf o P L1)) = true →
     (∃ v, logits[id]? = some v ∧ o.beq v o.negInf = false) ∧
     ∃ f, minP o P.minP (topP o P.topP (probsOf o P L1)) = .ok f ∧ f <+: probsOf o P L1 ∧
       ∃ x ∈ f, x.id = id) := by
  refine ⟨index_in_range o true P r logits id hS, sample_in_topk laws.ord true P r logits id ht hS, ?_⟩
  obtain ⟨L1, hs, hrest⟩ := sample_admissible_fixed_partial laws P r logits id ht hS
  refine ⟨L1, hs, fun hg hsh hsc hsm => ?_⟩
  obtain ⟨v, idx, f, x, hv, hne, hf, hpre, hx, hxid⟩ := hrest hg hsh hsc hsm
  exact ⟨⟨v, hv, hne⟩, f, hf, hpre, x, List.mem_of_getElem? hx, hxid⟩

/-! ### round 7 (after review): the laws relativised to the NaN-free part of the carrier

  No carrier with a NaN satisfies `OrdLaws` (`X_not_OrdLaws` below: `0 < 1` but neither `0 < NaN` nor
  `NaN < 1`), so the theorems above cannot be instantiated at IEEE floats as they stand.  What IEEE
  gives is `OrdLawsOn` (the laws on non-NaN values).  The `_on` theorems below take `OrdLawsOn`
  and the decidable guard `noNaN logits` — the property's quantifier (finite logits, infinities) —
  and are instantiated on the witness carrier `X`, which HAS a NaN and both infinities
  (`xLawsOn`).  They are obtained from the total-order theorems through `totalize`
  (`Proofs/SamplerNaN.lean`): the order-only algorithms compute the same result for `o` and for the
  total extension of its order on NaN-free inputs. -/

/-- the guard: no logit is NaN (decidable; the driver counts the vectors that violate it,
    `l2_nan_vectors`, and evaluates only the greedy clause on them: finding F18b) -/
def noNaN (o : Ops α) (logits : List α) : Bool := logits.all (fun v => !o.isNaN v)

theorem noNaN_mem {o : Ops α} {logits : List α} (hn : noNaN o logits = true) :
    ∀ w ∈ logits, o.isNaN w = false := by
  intro w hw
  have := List.all_eq_true.1 hn w hw
  simpa using this

theorem goodL_mkTokens {o : Ops α} {logits : List α} (hn : noNaN o logits = true) :
    GoodL o (mkTokens logits) := by
  intro t ht
  have := mkTokens_mem logits t ht
  exact noNaN_mem hn _ (List.mem_of_getElem? this)

/-- at temperature 0 `Sample` is the same function for `o` and for the total extension of its
    order, on NaN-free logits -/
theorem Sample_totalize_greedy (o : Ops α) (fix : Bool) (P : Params α) (r : α) (logits : List α)
    (ht : o.beq P.temp o.zero = true) (hn : noNaN o logits = true) :
    Sample (totalize o) fix P r logits = Sample o fix P r logits := by
  cases logits with
  | nil => rfl
  | cons v vs =>
    have ht' : (totalize o).beq P.temp (totalize o).zero = true := ht
    simp only [Sample, sampleCore, ht, ht', if_true]
    rw [greedy_totalize o _ (goodL_mkTokens hn)]
    rfl

/-- **greedy_argmax for IEEE-like carriers** (relativised laws, NaN-free logits) -/
theorem greedy_argmax_on {o : Ops α} (h : OrdLawsOn o) (fix : Bool) (P : Params α) (r : α)
    (logits : List α) (id : Nat) (ht : o.beq P.temp o.zero = true) (hn : noNaN o logits = true)
    (hS : Sample o fix P r logits = .ok id) :
    ∃ v, logits[id]? = some v ∧ ∀ w ∈ logits, o.lt v w = false := by
  rw [← Sample_totalize_greedy o fix P r logits ht hn] at hS
  obtain ⟨v, hv, hmax⟩ := greedy_argmax (totalize_laws h) fix P r logits id ht hS
  refine ⟨v, hv, fun w hw => ?_⟩
  rw [← totalize_lt o (noNaN_mem hn v (List.mem_of_getElem? hv)) (noNaN_mem hn w hw)]
  exact hmax w hw

/-- **greedy_admissible for IEEE-like carriers**: temperature 0, NaN-free logits, some logit above
    `-Inf` ⇒ a token is returned, its logit is not `-Inf`, nothing exceeds it -/
theorem greedy_admissible_on {o : Ops α} (h : OrdLawsOn o) (hb : BeqLawOn o) (fix : Bool) (P : Params α)
    (r : α) (logits : List α) (ht : o.beq P.temp o.zero = true) (hn : noNaN o logits = true)
    (hsome : ∃ w ∈ logits, o.lt o.negInf w = true) :
    ∃ id v, Sample o fix P r logits = .ok id ∧ logits[id]? = some v ∧ o.beq v o.negInf = false ∧
      ∀ w ∈ logits, o.lt v w = false := by
  obtain ⟨w, hw, hlt⟩ := hsome
  have hlt' : (totalize o).lt (totalize o).negInf w = true := by
    have : (totalize o).lt o.negInf w = o.lt o.negInf w := totalize_lt o h.negInf (noNaN_mem hn w hw)
    rw [← hlt, ← this]; rfl
  obtain ⟨id, v, hS, hv, hne, hmax⟩ :=
    greedy_admissible_sep (totalize_laws h) (totalize_beqLaw hb) fix P r logits ht ⟨w, hw, hlt'⟩
  rw [Sample_totalize_greedy o fix P r logits ht hn] at hS
  refine ⟨id, v, hS, hv, hne, fun w' hw' => ?_⟩
  rw [← totalize_lt o (noNaN_mem hn v (List.mem_of_getElem? hv)) (noNaN_mem hn w' hw')]
  exact hmax w' hw'

/-- **sample_in_topk for IEEE-like carriers**: temperature > 0, both variants, NaN-free logits:
    fewer than `k` logits are strictly larger than the returned one -/
theorem sample_in_topk_on {o : Ops α} (h : OrdLawsOn o) (fix : Bool) (P : Params α) (r : α)
    (logits : List α) (id : Nat) (ht : o.beq P.temp o.zero = false) (hn : noNaN o logits = true)
    (hS : Sample o fix P r logits = .ok id) :
    ∃ v, logits[id]? = some v ∧
      ((mkTokens logits).filter (fun x => o.lt v x.val)).length <
        (if P.topK ≥ (logits.length : Int) ∨ P.topK ≤ 0 then logits.length else P.topK.toNat) := by
  obtain ⟨t, hc, hid⟩ := Sample_ok o fix P r logits id hS
  unfold sampleCore at hc
  simp only [ht, Bool.false_eq_true, if_false] at hc
  obtain ⟨y, hy, hyid⟩ := afterTopK_id_any o fix P r _ t hc
  have hk := topK_isTopK_on h P.topK (mkTokens logits) (goodL_mkTokens hn)
  have hym := topK_mem o _ _ y hy
  have hcount := isTopK_count hk y hy (h.irrefl _ (goodL_mkTokens hn y hym))
  have hget := mkTokens_mem logits y hym
  have hlen : (mkTokens logits).length = logits.length := by
    have := congrArg List.length (mkTokensFrom_vals 0 logits)
    simpa [mkTokens] using this
  rw [hk.len, hlen] at hcount
  exact ⟨y.val, by rw [← hid, ← hyid]; exact hget, hcount⟩

/-- **no spurious "all -Inf" error for IEEE-like carriers** (repaired variant, temperature > 0) -/
theorem sample_fixed_no_allNegInf_on {o : Ops α} (h : OrdLawsOn o) (hb : BeqLawOn o) (P : Params α)
    (r : α) (logits : List α) (ht : o.beq P.temp o.zero = false) (hn : noNaN o logits = true)
    (hsome : ∃ w ∈ logits, o.lt o.negInf w = true) :
    Sample o true P r logits ≠ .error .allNegInf := by
  obtain ⟨w, hw, hlt⟩ := hsome
  cases logits with
  | nil => cases hw
  | cons v vs =>
    obtain ⟨x, hx, hxv⟩ := mem_mkTokens_of_mem (v :: vs) w hw
    have hg := goodL_mkTokens hn
    have hK := topK_isTopK_on h P.topK (mkTokens (v :: vs)) hg
    cases hk : topK o P.topK (mkTokens (v :: vs)) with
    | nil => exact (topK_ne_nil_of_isTopK (by simp [mkTokens, mkTokensFrom]) hK hk).elim
    | cons t0 rest =>
      have ht0 : o.isNaN t0.val = false := hg t0 (topK_mem o _ _ t0 (by rw [hk]; exact List.mem_cons_self))
      rw [hk] at hK
      have hmax := isTopK_head_max hK (h.irrefl _ ht0) x hx
      refine no_allNegInf_of_head o P r v vs ht t0 rest hk ?_
      cases hbq : o.beq t0.val o.negInf with
      | false => rfl
      | true =>
        have h1 : o.lt o.negInf t0.val = false := hb.nlt _ _ hbq
        rcases h.cotrans _ t0.val _ h.negInf ht0 (noNaN_mem hn w hw) hlt with h2 | h2
        · rw [h1] at h2; cases h2
        · rw [← hxv, hmax] at h2; cases h2

/-- every call of every history on an IEEE-like carrier, seeded or unseeded, NaN-free logits: the id
    is in range, at temperature 0 it is an arg-max, at temperature > 0 fewer than `k` logits exceed it -/
theorem every_call_admissible_on {o : Ops α} (h : OrdLawsOn o) (fix : Bool) (P : Params α)
    (ls : List (List α)) (results : List (Except Err Nat))
    (hres : ∀ (i : Nat) res, results[i]? = some res → ∃ l r, ls[i]? = some l ∧ res = Sample o fix P r l)
    (hn : ∀ l ∈ ls, noNaN o l = true)
    (i : Nat) (id : Nat) (hi : results[i]? = some (.ok id)) :
    ∃ l, ls[i]? = some l ∧ id < l.length ∧
      (o.beq P.temp o.zero = true → ∃ v, l[id]? = some v ∧ ∀ w ∈ l, o.lt v w = false) ∧
      (o.beq P.temp o.zero = false → ∃ v, l[id]? = some v ∧
        ((mkTokens l).filter (fun x => o.lt v x.val)).length <
          (if P.topK ≥ (l.length : Int) ∨ P.topK ≤ 0 then l.length else P.topK.toNat)) := by
  obtain ⟨l, r, hl, hS⟩ := hres i _ hi
  have hln := hn l (List.mem_of_getElem? hl)
  exact ⟨l, hl, index_in_range o fix P r l id hS.symm,
    fun ht => greedy_argmax_on h fix P r l id ht hln hS.symm,
    fun ht => sample_in_topk_on h fix P r l id ht hln hS.symm⟩

/-- **why the relativisation is needed**: the witness carrier (NaN, ±Inf, integers; IEEE's rules for
    the special values) does NOT satisfy the total laws -/
theorem X_not_OrdLaws : ¬ OrdLaws X.ops := by
  intro h
  have := h.cotrans (X.fin 0) X.nan (X.fin 1) (by decide)
  revert this; decide

/-- … and it DOES satisfy the relativised ones: a carrier with a NaN and both infinities on which
    every `_on` theorem can be instantiated -/
theorem xLawsOn : OrdLawsOn X.ops where
  irrefl := by intro a _; cases a <;> simp [X.ops, X.lt]
  trans := by
    intro a b c _ _ _
    cases a <;> cases b <;> cases c <;> simp [X.ops, X.lt] <;> omega
  cotrans := by
    intro a b c ha hb hc
    cases a <;> cases b <;> cases c <;> simp [X.ops, X.lt] at ha hb hc ⊢ <;> omega
  zero := by decide
  negInf := by decide

theorem xBeqLawOn : BeqLawOn X.ops where
  good := by intro a b; cases a <;> cases b <;> simp [X.ops, X.beq]
  nlt := by
    intro a b
    cases a <;> cases b <;> simp [X.ops, X.beq, X.lt] <;> omega

/-- instantiation on the carrier with NaN: the `_on` theorems applied to concrete NaN-free logits
    (a tie, a `-Inf`, a `+Inf`); and the guard is what fails on the F18b input -/
example :
    (∃ v, [X.fin 3, .ninf, .pinf, .fin 3][2]? = some v ∧ ∀ w ∈ [X.fin 3, .ninf, .pinf, .fin 3], X.ops.lt v w = false) ∧
    noNaN X.ops [.nan, .fin 1, .fin 2] = false :=
  ⟨greedy_argmax_on xLawsOn true ⟨.fin 0, 40, .fin 1, .fin 0, true⟩ (.fin 0) _ 2 (by decide) (by decide) (by rfl),
   by decide⟩

example : ∃ id v, Sample X.ops true ⟨.fin 0, 40, .fin 1, .fin 0, true⟩ (.fin 0) [X.ninf, .fin 3, .ninf] = .ok id ∧
    [X.ninf, .fin 3, .ninf][id]? = some v ∧ X.ops.beq v X.ops.negInf = false ∧
    ∀ w ∈ [X.ninf, .fin 3, .ninf], X.ops.lt v w = false :=
  greedy_admissible_on xLawsOn xBeqLawOn true _ (.fin 0) _ (by decide) (by decide) ⟨.fin 3, by decide, by decide⟩

example : Sample X.ops true ⟨.fin 1, 2, .fin 1, .fin 0, false⟩ (.fin 0) [X.fin 3, .ninf, .fin 7, .fin 3]
    ≠ .error .allNegInf :=
  sample_fixed_no_allNegInf_on xLawsOn xBeqLawOn _ _ _ (by decide) (by decide) ⟨.fin 7, by decide, by decide⟩

/-- **sample_admissible_fixed for IEEE-like carriers** (the code in /repo, temperature > 0): relativised
    laws (`OrdLawsOn`, `ArithLawsOn`, `BeqLawOn` — satisfied by the witness carrier with NaN and ±Inf:
    `xLawsOn`, `xArithLawsOn`, `xBeqLawOn`); the run guard `runGood` (no NaN is ever compared: scaled
    values, probabilities, running sums, threshold, cumulative sums, target) joins the run contracts.  Conclusion as in `sample_admissible_fixed_partial`: the logit of
    the returned id is not `-Inf` and the id is that of a member of the filter set. -/
theorem sample_admissible_fixed_on {o : Ops α} (h : OrdLawsOn o) (ha : ArithLawsOn o) (hb : BeqLawOn o)
    (P : Params α) (r : α) (logits : List α) (id : Nat) (ht : o.beq P.temp o.zero = false)
    (hS : Sample o true P r logits = .ok id) :
    ∃ L1, shiftMax o (topK o P.topK (mkTokens logits)) = .ok L1 ∧
    (runGood o P r L1 = true →
     guardOK o (scaledOf o P L1) = true →
     scaleOK o ((topK o P.topK (mkTokens logits)).map (·.val)) (L1.map (·.val)) = true →
     scaleOK o (L1.map (·.val)) (scaledOf o P L1) = true →
     softmaxOK o (scaledOf o P L1) (softmaxVals o (scaledOf o P L1)) = true →
     (∃ v, logits[id]? = some v ∧ o.beq v o.negInf = false) ∧
     ∃ f, minP o P.minP (topP o P.topP (probsOf o P L1)) = .ok f ∧ f <+: probsOf o P L1 ∧
       ∃ x ∈ f, x.id = id) := by
  obtain ⟨t, hc, hid⟩ := Sample_ok o true P r logits id hS
  unfold sampleCore at hc
  simp only [ht, Bool.false_eq_true, if_false] at hc
  obtain ⟨L1, hs, hrest⟩ := afterTopK_spec_fix_on h ha hb P r _ t hc
  refine ⟨L1, hs, ?_⟩
  intro hrg hg hsh hsc hsm
  obtain ⟨idx, y, f, x, hy, hyid, hyv, hf, hpre, hx, hxid⟩ := hrest hrg hg hsh hsc hsm
  have hym : y ∈ mkTokens logits := topK_mem o _ _ y (List.mem_of_getElem? hy)
  have := mkTokens_mem logits y hym
  rw [hyid, hid] at this
  exact ⟨⟨y.val, this, hyv⟩, f, hf, hpre, x, List.mem_of_getElem? hx, by rw [hxid, hid]⟩

theorem xArithLawsOn : ArithLawsOn X.ops where
  posInf := by decide
  addZero := by
    intro s z
    cases s <;> cases z <;> simp [X.ops, X.beq, X.lt, X.add] <;> omega
  addNaN := by
    intro s z
    cases s <;> cases z <;> simp [X.ops, X.add]

/-- instantiation on the carrier WITH NaN: the former F18 input `[+Inf, 0]` (top-k 1 of 2: the heap
    branch), every hypothesis of `sample_admissible_fixed_on` holds on that run -/
example :
    let P : Params X := ⟨.fin 1, 1, .fin 1, .fin 0, false⟩
    let L : List (Tok X) := [⟨0, .pinf⟩]
    let L1 : List (Tok X) := [⟨0, .fin 0⟩]
    topK X.ops 1 (mkTokens [X.pinf, .fin 0]) = L ∧ (shiftMax X.ops L).toOption = some L1 ∧
    runGood X.ops P (.fin 0) L1 = true ∧ (L1.map (·.val)).all (fun v => !X.ops.isNaN v) = true ∧
    guardOK X.ops (scaledOf X.ops P L1) = true ∧
    scaleOK X.ops (L.map (·.val)) (L1.map (·.val)) = true ∧
    scaleOK X.ops (L1.map (·.val)) (scaledOf X.ops P L1) = true ∧
    softmaxOK X.ops (scaledOf X.ops P L1) (softmaxVals X.ops (scaledOf X.ops P L1)) = true := by
  decide

example : ∃ L1, shiftMax X.ops (topK X.ops 1 (mkTokens [X.pinf, .fin 0])) = .ok L1 := by
  obtain ⟨L1, h, _⟩ := sample_admissible_fixed_on xLawsOn xArithLawsOn xBeqLawOn
    ⟨.fin 1, 1, .fin 1, .fin 0, false⟩ (.fin 0) [X.pinf, .fin 0] 0 (by decide) (by rfl)
  exact ⟨L1, h⟩

/-! ### the grammar retry for IEEE-like carriers -/

/-- NaN-freeness is preserved by the grammar mask (a logic fact: a masked entry is the old logit or `-Inf`) -/
theorem noNaN_maskLogits {o : Ops α} (hneg : o.isNaN o.negInf = false) (acc : List Nat) (logits : List α)
    (hn : noNaN o logits = true) : noNaN o (maskLogits o acc logits) = true := by
  unfold noNaN
  rw [List.all_eq_true]
  intro v hv
  obtain ⟨j, hj, hjv⟩ := List.mem_iff_getElem.1 hv
  have hget : (maskLogits o acc logits)[j]? = some v := by
    rw [List.getElem?_eq_getElem hj, hjv]
  obtain ⟨w, hw, hvw⟩ := maskLogits_get o acc logits j v hget
  rw [hvw]
  split
  · simpa using noNaN_mem hn w (List.mem_of_getElem? hw)
  · simpa using hneg

/-- **grammar, temperature 0, IEEE-like carrier**: the retry returns an arg-max of the masked logits,
    accepted by the grammar as soon as some masked logit is above `-Inf` -/
theorem grammar_retry_greedy_on {o : Ops α} (h : OrdLawsOn o) (fix : Bool) (P : Params α) (r : α)
    (logits : List α) (acc : List Nat) (id : Nat) (ht : o.beq P.temp o.zero = true)
    (hn : noNaN o logits = true)
    (hS : Sample o fix P r (maskLogits o acc logits) = .ok id)
    (hsome : ∃ w ∈ maskLogits o acc logits, o.lt o.negInf w = true) :
    acc.contains id = true ∧
    ∃ v, (maskLogits o acc logits)[id]? = some v ∧ ∀ w ∈ maskLogits o acc logits, o.lt v w = false := by
  have hnm := noNaN_maskLogits h.negInf acc logits hn
  obtain ⟨v, hv, hmax⟩ := greedy_argmax_on h fix P r _ id ht hnm hS
  refine ⟨?_, v, hv, hmax⟩
  obtain ⟨w0, _, hvw⟩ := maskLogits_get o acc logits id v hv
  cases hc : acc.contains id with
  | true => rfl
  | false =>
    rw [hc] at hvw
    simp only [Bool.false_eq_true, if_false] at hvw
    obtain ⟨w, hw, hlt⟩ := hsome
    have := hmax w hw
    rw [hvw, hlt] at this; cases this

/-- **grammar, temperature > 0, IEEE-like carrier, the code in /repo**: under the run's guard and
    contracts on the masked logits the retry result is accepted by the grammar, indexes an original
    logit that is not `-Inf`, lies in the filter set of the masked logits, and fewer than `k` masked
    logits exceed it -/
theorem grammar_retry_admissible_fixed_on {o : Ops α} (h : OrdLawsOn o) (ha : ArithLawsOn o) (hb : BeqLawOn o)
    (hrefl : o.beq o.negInf o.negInf = true) (P : Params α) (r : α)
    (logits : List α) (acc : List Nat) (id : Nat) (ht : o.beq P.temp o.zero = false)
    (hn : noNaN o logits = true)
    (hS : Sample o true P r (maskLogits o acc logits) = .ok id) :
    (∃ v, (maskLogits o acc logits)[id]? = some v ∧
      ((mkTokens (maskLogits o acc logits)).filter (fun x => o.lt v x.val)).length <
        (if P.topK ≥ ((maskLogits o acc logits).length : Int) ∨ P.topK ≤ 0 then (maskLogits o acc logits).length
         else P.topK.toNat)) ∧
    ∃ L1, shiftMax o (topK o P.topK (mkTokens (maskLogits o acc logits))) = .ok L1 ∧
    (runGood o P r L1 = true →
     guardOK o (scaledOf o P L1) = true →
     scaleOK o ((topK o P.topK (mkTokens (maskLogits o acc logits))).map (·.val)) (L1.map (·.val)) = true →
     scaleOK o (L1.map (·.val)) (scaledOf o P L1) = true →
     softmaxOK o (scaledOf o P L1) (softmaxVals o (scaledOf o P L1)) = true →
     acc.contains id = true ∧
     (∃ w, logits[id]? = some w ∧ o.beq w o.negInf = false) ∧
     ∃ f, minP o P.minP (topP o P.topP (probsOf o P L1)) = .ok f ∧ ∃ x ∈ f, x.id = id) := by
  have hnm := noNaN_maskLogits h.negInf acc logits hn
  refine ⟨sample_in_topk_on h true P r _ id ht hnm hS, ?_⟩
  obtain ⟨L1, hs, hrest⟩ := sample_admissible_fixed_on h ha hb P r _ id ht hS
  refine ⟨L1, hs, ?_⟩
  intro hrg hg hsh hsc hsm
  obtain ⟨⟨v, hv, hne⟩, f, hf, _, x, hx, hxid⟩ := hrest hrg hg hsh hsc hsm
  have hacc := masked_not_neginf_accepted o hrefl acc logits id v hv hne
  obtain ⟨w, hw, hvw⟩ := maskLogits_get o acc logits id v hv
  rw [hacc] at hvw
  simp only [if_true] at hvw
  exact ⟨hacc, ⟨w, hw, by rw [← hvw]; exact hne⟩, f, hf, x, hx, hxid⟩

/-- instantiation on the carrier with NaN: the grammar accepts only token 1; temperature 0 -/
example : ([1] : List Nat).contains 1 = true ∧
    ∃ v, (maskLogits X.ops [1] [X.fin 5, .fin 2, .pinf])[1]? = some v ∧
      ∀ w ∈ maskLogits X.ops [1] [X.fin 5, .fin 2, .pinf], X.ops.lt v w = false :=
  grammar_retry_greedy_on xLawsOn true ⟨.fin 0, 40, .fin 1, .fin 0, true⟩ (.fin 0) [X.fin 5, .fin 2, .pinf] [1] 1
    (by decide) (by decide) (by rfl) ⟨.fin 2, by decide, by decide⟩

/-! ### round 7: the admissibility clauses do not depend on HOW the top-k stage orders equal logits

  Go sorts with `slices.SortFunc` (pdqsort, unstable beyond 12 elements); the model sorts stably.  The
  two can differ in the order of tokens with EQUAL logits (the harness compares modulo that order).
  `SampleWith tk` is `Sample` with the top-k stage replaced by an arbitrary function `tk`.  Whatever
  `tk` is — pdqsort, the heap, the model's merge sort — as long as its output on this input is a
  correct top-k (`IsTopK`: the decidable contract `c=` that the `topk` op evaluates on the REAL
  `topK` output of every sampled call), every admissibility clause holds.  Only WHICH of several
  equal logits is returned (a reproducibility question) depends on it. -/

def sampleCoreWith (o : Ops α) (tk : List (Tok α) → List (Tok α)) (fix : Bool) (P : Params α) (r : α)
    (ts : List (Tok α)) : Except Err (Tok α) :=
  if o.beq P.temp o.zero then
    match greedy o ts with
    | .ok t => if P.greedyErr && o.beq t.val o.negInf then .error .allNegInf else .ok t
    | .error e => .error e
  else afterTopK o fix P r (tk ts)

def SampleWith (o : Ops α) (tk : List (Tok α) → List (Tok α)) (fix : Bool) (P : Params α) (r : α)
    (logits : List α) : Except Err Nat :=
  match logits with
  | [] => .error .noLogits
  | _ => (sampleCoreWith o tk fix P r (mkTokens logits)).map (·.id)

/-- the model is the instance `tk = topK o P.topK` -/
theorem SampleWith_topK (o : Ops α) (fix : Bool) (P : Params α) (r : α) (logits : List α) :
    SampleWith o (topK o P.topK) fix P r logits = Sample o fix P r logits := rfl

/-- **any correct top-k stage**: temperature > 0, both variants.  If the stage's output on this input
    satisfies `IsTopK` (and `<` is irreflexive on the kept values — true of non-NaN floats), then a
    returned id is in range, fewer than `k` logits are strictly larger, and (repaired variant) under
    the run's contracts its logit is not `-Inf` and it is the id of a member of the filter set. -/
theorem sampleWith_admissible (o : Ops α) (tk : List (Tok α) → List (Tok α)) (fix : Bool) (P : Params α)
    (r : α) (logits : List α) (id : Nat) (ht : o.beq P.temp o.zero = false)
    (htk : IsTopK o P.topK (mkTokens logits) (tk (mkTokens logits)))
    (hirr : ∀ y ∈ tk (mkTokens logits), o.lt y.val y.val = false)
    (hS : SampleWith o tk fix P r logits = .ok id) :
    id < logits.length ∧
    ∃ v, logits[id]? = some v ∧
      ((mkTokens logits).filter (fun x => o.lt v x.val)).length <
        (if P.topK ≥ (logits.length : Int) ∨ P.topK ≤ 0 then logits.length else P.topK.toNat) := by
  have hc : ∃ t, afterTopK o fix P r (tk (mkTokens logits)) = .ok t ∧ t.id = id := by
    unfold SampleWith at hS
    split at hS
    · cases hS
    · simp only [sampleCoreWith, ht, Bool.false_eq_true, if_false] at hS
      cases hc : afterTopK o fix P r (tk (mkTokens logits)) with
      | error e => rw [hc] at hS; cases hS
      | ok t =>
        rw [hc] at hS
        simp only [Except.map] at hS
        injection hS with hS
        exact ⟨t, rfl, hS⟩
  obtain ⟨t, hc, hid⟩ := hc
  obtain ⟨y, hy, hyid⟩ := afterTopK_id_any o fix P r _ t hc
  have hym := htk.mem y hy
  have hget := mkTokens_mem logits y hym
  have hcount := isTopK_count htk y hy (hirr y hy)
  have hlen : (mkTokens logits).length = logits.length := by
    have := congrArg List.length (mkTokensFrom_vals 0 logits)
    simpa [mkTokens] using this
  rw [htk.len, hlen] at hcount
  have hget' : logits[id]? = some y.val := by rw [← hid, ← hyid]; exact hget
  exact ⟨(List.getElem?_eq_some_iff.1 hget').1, y.val, hget', hcount⟩

/-- the weighted clauses for any correct top-k stage (repaired variant, IEEE-like carrier) -/
theorem sampleWith_admissible_fixed_on {o : Ops α} (h : OrdLawsOn o) (ha : ArithLawsOn o) (hb : BeqLawOn o)
    (tk : List (Tok α) → List (Tok α)) (P : Params α) (r : α) (logits : List α) (id : Nat)
    (ht : o.beq P.temp o.zero = false)
    (hmem : ∀ y ∈ tk (mkTokens logits), y ∈ mkTokens logits)
    (hS : SampleWith o tk true P r logits = .ok id) :
    ∃ L1, shiftMax o (tk (mkTokens logits)) = .ok L1 ∧
    (runGood o P r L1 = true →
     guardOK o (scaledOf o P L1) = true →
     scaleOK o ((tk (mkTokens logits)).map (·.val)) (L1.map (·.val)) = true →
     scaleOK o (L1.map (·.val)) (scaledOf o P L1) = true →
     softmaxOK o (scaledOf o P L1) (softmaxVals o (scaledOf o P L1)) = true →
     (∃ v, logits[id]? = some v ∧ o.beq v o.negInf = false) ∧
     ∃ f, minP o P.minP (topP o P.topP (probsOf o P L1)) = .ok f ∧ f <+: probsOf o P L1 ∧
       ∃ x ∈ f, x.id = id) := by
  have hc : ∃ t, afterTopK o true P r (tk (mkTokens logits)) = .ok t ∧ t.id = id := by
    unfold SampleWith at hS
    split at hS
    · cases hS
    · simp only [sampleCoreWith, ht, Bool.false_eq_true, if_false] at hS
      cases hc : afterTopK o true P r (tk (mkTokens logits)) with
      | error e => rw [hc] at hS; cases hS
      | ok t =>
        rw [hc] at hS
        simp only [Except.map] at hS
        injection hS with hS
        exact ⟨t, rfl, hS⟩
  obtain ⟨t, hc, hid⟩ := hc
  obtain ⟨L1, hs, hrest⟩ := afterTopK_spec_fix_on h ha hb P r _ t hc
  refine ⟨L1, hs, ?_⟩
  intro hrg hg hsh hsc hsm
  obtain ⟨idx, y, f, x, hy, hyid, hyv, hf, hpre, hx, hxid⟩ := hrest hrg hg hsh hsc hsm
  have hym : y ∈ mkTokens logits := hmem y (List.mem_of_getElem? hy)
  have := mkTokens_mem logits y hym
  rw [hyid, hid] at this
  exact ⟨⟨y.val, this, hyv⟩, f, hf, hpre, x, List.mem_of_getElem? hx, by rw [hxid, hid]⟩

/-- non-vacuity: a top-k stage that orders the two EQUAL logits the other way round than the model's
    heap (ids 0 before 3) is still a correct top-k, so the theorem applies to it; the two stages return
    different ids for the same number — which is exactly the part left to the reproducibility monitors -/
example :
    let ts : List (Tok X) := mkTokens [X.fin 3, .ninf, .fin 1, .fin 3]
    let other : List (Tok X) → List (Tok X) := fun _ => [⟨0, .fin 3⟩, ⟨3, .fin 3⟩]
    topK X.ops 2 ts = [⟨3, .fin 3⟩, ⟨0, .fin 3⟩] ∧
    (SampleWith X.ops other true ⟨.fin 1, 2, .fin 1, .fin 0, false⟩ (.fin 0) [X.fin 3, .ninf, .fin 1, .fin 3]).toOption = some 0 ∧
    (Sample X.ops true ⟨.fin 1, 2, .fin 1, .fin 0, false⟩ (.fin 0) [X.fin 3, .ninf, .fin 1, .fin 3]).toOption = some 3 := by
  decide

/-! ### round 7 (after review): an independent specification of top-p -/

/-- the mass of the first `j` entries, accumulated the way the code does (left to right from 0) -/
def prefixSum (o : Ops α) (L : List (Tok α)) (j : Nat) : α :=
  (L.take j).foldl (fun s t => o.add s t.val) o.zero

theorem topPCut_spec_aux (o : Ops α) (p : α) : ∀ (L : List (Tok α)) (s : α),
    topPCut o p s L ≤ L.length ∧
    (∀ j, 0 < j → j < topPCut o p s L →
        o.lt p ((L.take j).foldl (fun s t => o.add s t.val) s) = false) ∧
    (topPCut o p s L = L.length ∨ L = [] ∨
        o.lt p ((L.take (topPCut o p s L)).foldl (fun s t => o.add s t.val) s) = true) ∧
    (L ≠ [] → 0 < topPCut o p s L) := by
  intro L
  induction L with
  | nil => intro s; simp [topPCut]
  | cons t rest ih =>
    intro s
    simp only [topPCut]
    cases hlt : o.lt p (o.add s t.val) with
    | true =>
      simp only [if_true]
      refine ⟨by simp, ?_, ?_, fun _ => by omega⟩
      · intro j hj0 hj1; omega
      · right; right; simp [hlt]
    | false =>
      simp only [Bool.false_eq_true, if_false]
      obtain ⟨h1, h2, h3, h4⟩ := ih (o.add s t.val)
      refine ⟨by simp; omega, ?_, ?_, fun _ => by omega⟩
      · intro j hj0 hj1
        cases j with
        | zero => omega
        | succ j =>
          simp only [List.take_succ_cons, List.foldl_cons]
          rcases Nat.eq_zero_or_pos j with h0 | h0
          · subst h0; simpa using hlt
          · exact h2 j h0 (by omega)
      · rcases h3 with h3 | h3 | h3
        · left; simp; omega
        · subst h3; left; simp [topPCut]
        · right; right
          have : 1 + topPCut o p (o.add s t.val) rest = topPCut o p (o.add s t.val) rest + 1 := by omega
          rw [this]
          simpa using h3

/-- **top-p keeps the SMALLEST non-empty prefix whose accumulated mass exceeds `p`** (the whole list
    if none does, or if `p == 1`): independent of the implementation — stated with `prefixSum`, the
    left-to-right sums from 0.  With `n` the number of kept entries:
      * `1 ≤ n ≤ len` (at least one token);
      * no shorter non-empty prefix already exceeds `p`:  `∀ 0 < j < n, ¬ p < prefixSum j`;
      * the kept prefix does, unless everything is kept:  `n = len ∨ p < prefixSum n`.
    An off-by-one cut (one token more or fewer, `>=` for `>`) violates the second or third line
    (`topPBad_violates_spec` below). -/
theorem topP_spec (o : Ops α) (p : α) (L : List (Tok α)) (hL : L ≠ []) (hp : o.beq p o.one = false) :
    topP o p L = L.take (topP o p L).length ∧
    1 ≤ (topP o p L).length ∧ (topP o p L).length ≤ L.length ∧
    (∀ j, 0 < j → j < (topP o p L).length → o.lt p (prefixSum o L j) = false) ∧
    ((topP o p L).length = L.length ∨ o.lt p (prefixSum o L (topP o p L).length) = true) := by
  obtain ⟨h1, h2, h3, h4⟩ := topPCut_spec_aux o p L o.zero
  have hlen : (topP o p L).length = topPCut o p o.zero L := by
    simp only [topP, hp, Bool.false_eq_true, if_false, List.length_take]
    omega
  rw [hlen]
  refine ⟨by simp [topP, hp], h4 hL, h1, h2, ?_⟩
  rcases h3 with h3 | h3 | h3
  · exact Or.inl h3
  · exact absurd h3 hL
  · exact Or.inr h3

/-- with `p == 1` top-p is switched off -/
theorem topP_one (o : Ops α) (p : α) (L : List (Tok α)) (hp : o.beq p o.one = true) : topP o p L = L := by
  simp [topP, hp]

/-- the reviewer's broken variant (keeps one token too many at the cut) … -/
def topPCutBad (o : Ops α) (p : α) : α → List (Tok α) → Nat
  | _, [] => 0
  | sum, t :: rest =>
    let s := o.add sum t.val
    if o.lt p s then 2 else 1 + topPCutBad o p s rest

/-- … is a non-empty prefix too, but VIOLATES `topP_spec` (on the integers: p = 500, masses
    600/300/100: a shorter prefix already exceeds p), while the model's `topP` keeps exactly `[0]` -/
theorem topPBad_violates_spec :
    let L : List (Tok Int) := [⟨0, 600⟩, ⟨1, 300⟩, ⟨2, 100⟩]
    (topP zOps 500 L).map (·.id) = [0] ∧
    (L.take (topPCutBad zOps 500 0 L)).map (·.id) = [0, 1] ∧
    ¬ (∀ j, 0 < j → j < (L.take (topPCutBad zOps 500 0 L)).length → zOps.lt 500 (prefixSum zOps L j) = false) := by
  refine ⟨by decide, by decide, ?_⟩
  intro h
  have := h 1 (by decide) (by decide)
  revert this; decide

/-! ### round 7 (after review): reproducibility under a seed, stated on the history -/

/-- **reproducible under a fixed seed** (the headline statement of the clause).  Two samplers built
    with the same seed and the same parameters, given the same sequence of logit vectors, return the
    same sequence of results; and that sequence is determined call by call: the i-th result is
    `Sample` on the i-th logits with the `d_i`-th number of the seed's PCG stream, where `d_i` is
    the number of earlier calls that reached the generator — nothing else of the past matters, and
    the stream itself does not depend on how many numbers are drawn later (`stream_of_seed`).
    (The first conjunct alone would hold for any function; the content is the second, `hist_nth`,
    together with the bit-exact PCG mirror tied by L1 `rng`.) -/
theorem reproducible_under_seed (o : Ops α) (toF : Nat → α) (fix : Bool) (P : Params α) (seed : Int)
    (ls : List (List α)) :
    (∀ seed', seed' = seed →
      sampleHist o toF fix P (pcgOfSeed seed') ls = sampleHist o toF fix P (pcgOfSeed seed) ls) ∧
    (sampleHist o toF fix P (pcgOfSeed seed) ls).length = ls.length ∧
    ∀ i l, ls[i]? = some l →
      (sampleHist o toF fix P (pcgOfSeed seed) ls)[i]? =
        some (if consumes o fix P l then
                Sample o fix P (toF (pcgFloat24 (advance pcgFloat24 (draws o fix P (ls.take i)) (pcgOfSeed seed))).1) l
              else Sample o fix P (toF 0) l) := by
  refine ⟨fun s' hs => by rw [hs], sampleHist_length o toF fix P _ ls, ?_⟩
  intro i l hl
  rw [hist_nth, hl]
  simp only [Option.map_some, sampleStep]
  split <;> rfl

/-! ### round 7: NewSampler's clamping (the glue between the request and the sampler) -/

/-- what `NewSampler`'s clamping needs from the carrier: `<=` contains `<`, and `0 < 1` -/
structure ClampLawsOn (o : Ops α) : Prop where
  le_of_lt : ∀ a b, o.lt a b = true → o.le a b = true
  zero_lt_one : o.lt o.zero o.one = true
  oneGood : o.isNaN o.one = false

/-- **NewSampler's clamping** (the glue between a request's options and the sampler): for non-NaN
    requested values the stored `top_p` and `min_p` lie in `[0, 1]` and the stored temperature is not
    negative — whatever was requested (negative, above 1, huge).  These are the ranges the arithmetic
    run contracts `max·minP ≤ max` and the `p == 1` shortcut of `topP` rely on. -/
theorem newParams_in_range {o : Ops α} (h : OrdLawsOn o) (hc : ClampLawsOn o) (temp : α) (k : Int) (p mp : α)
    (hp : o.isNaN p = false) (hmp : o.isNaN mp = false) :
    let P := newParams o temp k p mp
    o.lt P.temp o.zero = false ∧ P.topK = k ∧
    o.lt P.topP o.zero = false ∧ o.lt o.one P.topP = false ∧ o.isNaN P.topP = false ∧
    o.lt P.minP o.zero = false ∧ o.lt o.one P.minP = false ∧ o.isNaN P.minP = false := by
  have h10 : o.lt o.one o.zero = false := by
    cases hv : o.lt o.one o.zero with
    | false => rfl
    | true =>
      have := h.trans _ _ _ h.zero hc.oneGood h.zero hc.zero_lt_one hv
      rw [h.irrefl _ h.zero] at this; cases this
  have clamp : ∀ x, o.isNaN x = false →
      let y := if o.lt x o.zero then o.zero else if o.le o.one x then o.one else x
      o.lt y o.zero = false ∧ o.lt o.one y = false ∧ o.isNaN y = false := by
    intro x hx
    simp only
    cases h1 : o.lt x o.zero with
    | true => simp only [if_true]; exact ⟨h.irrefl _ h.zero, h10, h.zero⟩
    | false =>
      simp only [Bool.false_eq_true, if_false]
      cases h2 : o.le o.one x with
      | true =>
        simp only [if_true]
        refine ⟨h10, h.irrefl _ hc.oneGood, hc.oneGood⟩
      | false =>
        simp only [Bool.false_eq_true, if_false]
        refine ⟨h1, ?_, hx⟩
        cases h3 : o.lt o.one x with
        | false => rfl
        | true => rw [hc.le_of_lt _ _ h3] at h2; cases h2
  simp only [newParams]
  refine ⟨?_, trivial, (clamp p hp).1, (clamp p hp).2.1, (clamp p hp).2.2, (clamp mp hmp).1, (clamp mp hmp).2.1, (clamp mp hmp).2.2⟩
  cases h1 : o.lt temp o.zero with
  | true => simp only [if_true]; exact h.irrefl _ h.zero
  | false => simp only [Bool.false_eq_true, if_false]; exact h1

theorem xClampLawsOn : ClampLawsOn X.ops where
  le_of_lt := by
    intro a b hab
    have : X.lt a b = true := hab
    simp [X.ops, this]
  zero_lt_one := by decide
  oneGood := by decide

/-- instantiation on the carrier with NaN: requested top-p 7 and min-p −3 are stored as 1 and 0 -/
example : (newParams X.ops (.fin (-2)) 40 (.fin 7) (.fin (-3))).topP = .fin 1 ∧
    (newParams X.ops (.fin (-2)) 40 (.fin 7) (.fin (-3))).minP = .fin 0 ∧
    (newParams X.ops (.fin (-2)) 40 (.fin 7) (.fin (-3))).temp = .fin 0 := by decide

/-! ### round 7: the two arithmetic run contracts follow from the ranges -/

/-- the multiplicative facts behind the two arithmetic run contracts of `sample_never_panics_fixed` -/
structure MulLawsOn (o : Ops α) : Prop where
  /-- `a ≥ 0`, `0 ≤ p ≤ 1`  ⇒  `a·p ≤ a` -/
  mul_le : ∀ a p, o.isNaN a = false → o.isNaN p = false → o.lt a o.zero = false →
    o.lt p o.zero = false → o.lt o.one p = false → o.lt a (o.mul a p) = false
  /-- the same with the factor on the left (`r *= total`) -/
  mul_le' : ∀ a p, o.isNaN a = false → o.isNaN p = false → o.lt a o.zero = false →
    o.lt p o.zero = false → o.lt o.one p = false → o.lt a (o.mul p a) = false
  /-- a sum of two non-negative non-NaN numbers that is not NaN is not negative -/
  add_nonneg : ∀ a b, o.isNaN a = false → o.isNaN b = false → o.lt a o.zero = false →
    o.lt b o.zero = false → o.isNaN (o.add a b) = false → o.lt (o.add a b) o.zero = false

/-- cumulative sums of non-negative values stay non-negative (as long as no NaN arises) -/
theorem cumsum_nonneg {o : Ops α} (hm : MulLawsOn o) : ∀ (L : List (Tok α)) (s : α),
    o.isNaN s = false → o.lt s o.zero = false →
    (∀ t ∈ L, o.isNaN t.val = false ∧ o.lt t.val o.zero = false) →
    (∀ t ∈ cumsum o s L, o.isNaN t.val = false) →
    ∀ t ∈ cumsum o s L, o.lt t.val o.zero = false := by
  intro L
  induction L with
  | nil => intro s _ _ _ _ t ht; simp [cumsum] at ht
  | cons x rest ih =>
    intro s hs hs0 hL hC t ht
    simp only [cumsum, List.mem_cons] at ht hC
    have hx := hL x List.mem_cons_self
    have hsum : o.isNaN (o.add s x.val) = false := hC ⟨x.id, o.add s x.val⟩ (Or.inl rfl)
    have hsum0 := hm.add_nonneg s x.val hs hx.1 hs0 hx.2 hsum
    rcases ht with rfl | ht
    · exact hsum0
    · exact ih _ hsum hsum0 (fun t ht => hL t (List.mem_cons_of_mem _ ht))
        (fun t ht => hC t (Or.inr ht)) t ht

/-- **the two arithmetic run contracts are consequences of the ranges**: with `min_p ∈ [0, 1]`
    (`newParams_in_range`), `r ∈ [0, 1]` (`Rand.Float32`), the probabilities non-negative and not NaN
    (`softmaxOK`) and no NaN among the cumulative sums (`runGood`), `max·minP ≤ max` and
    `r·total ≤ total` hold — so `pick` cannot index out of range. -/
theorem arith_contracts_of_ranges {o : Ops α} (h : OrdLawsOn o) (hm : MulLawsOn o) (P : Params α) (r : α)
    (L1 : List (Tok α))
    (hprobs : ∀ t ∈ probsOf o P L1, o.isNaN t.val = false ∧ o.lt t.val o.zero = false)
    (hmp : o.isNaN P.minP = false ∧ o.lt P.minP o.zero = false ∧ o.lt o.one P.minP = false)
    (hr : o.isNaN r = false ∧ o.lt r o.zero = false ∧ o.lt o.one r = false)
    (hcum : ∀ f, minP o P.minP (topP o P.topP (probsOf o P L1)) = .ok f →
      ∀ t ∈ cumsum o o.zero f, o.isNaN t.val = false) :
    (∀ t0 rest, topP o P.topP (probsOf o P L1) = t0 :: rest →
        o.lt t0.val (o.mul t0.val P.minP) = false) ∧
    (∀ f last, minP o P.minP (topP o P.topP (probsOf o P L1)) = .ok f →
        (cumsum o o.zero f).getLast? = some last → o.lt last.val (o.mul r last.val) = false) := by
  constructor
  · intro t0 rest he
    have hmem : t0 ∈ probsOf o P L1 :=
      (topP_prefix o P.topP _).subset (by rw [he]; exact List.mem_cons_self)
    obtain ⟨h1, h2⟩ := hprobs t0 hmem
    exact hm.mul_le _ _ h1 hmp.1 h2 hmp.2.1 hmp.2.2
  · intro f last hf hl
    have hfsub : ∀ t ∈ f, o.isNaN t.val = false ∧ o.lt t.val o.zero = false := by
      intro t ht
      have h1 := (minP_prefix o P.minP _ f hf).subset ht
      exact hprobs t ((topP_prefix o P.topP _).subset h1)
    have hC := hcum f hf
    have hlm : last ∈ cumsum o o.zero f := List.mem_of_getLast? hl
    have hl0 := cumsum_nonneg hm f o.zero h.zero (h.irrefl _ h.zero) hfsub hC last hlm
    exact hm.mul_le' _ _ (hC last hlm) hr.1 hl0 hr.2.1 hr.2.2

theorem xMulLawsOn : MulLawsOn X.ops where
  mul_le := by
    intro a p
    cases a <;> cases p <;> simp [X.ops, X.lt, X.mul]
    rename_i a p
    intro ha hp0 hp1
    have : p = 0 ∨ p = 1 := by omega
    rcases this with rfl | rfl <;> omega
  mul_le' := by
    intro a p
    cases a <;> cases p <;> simp [X.ops, X.lt, X.mul]
    rename_i a p
    intro ha hp0 hp1
    have : p = 0 ∨ p = 1 := by omega
    rcases this with rfl | rfl <;> omega
  add_nonneg := by
    intro a b
    cases a <;> cases b <;> simp [X.ops, X.lt, X.add] <;> omega

/-! ### round 7: run contracts DERIVED from named IEEE laws (temperature stage, guard) -/

/-- a finite positive divisor (what `max(temp, 1e-7)` is for every temperature a request can carry) -/
def posFinite (o : Ops α) (t : α) : Prop :=
  o.isNaN t = false ∧ o.lt o.zero t = true ∧ o.lt t o.posInf = true

/-- division by a finite positive number on non-NaN values: stays non-NaN, keeps the order, keeps
    `-Inf`, keeps the sign of non-positive values, `0/t > -Inf`; and `0 < +Inf` -/
structure ScaleLawsOn (o : Ops α) : Prop where
  div_good : ∀ a t, o.isNaN a = false → posFinite o t → o.isNaN (o.div a t) = false
  div_mono : ∀ a b t, o.isNaN a = false → o.isNaN b = false → posFinite o t →
    o.lt a b = false → o.lt (o.div a t) (o.div b t) = false
  div_negInf : ∀ v t, posFinite o t → o.beq v o.negInf = true → o.beq (o.div v t) o.negInf = true
  div_nonpos : ∀ a t, o.isNaN a = false → posFinite o t → o.lt o.zero a = false →
    o.lt o.zero (o.div a t) = false
  div_zero : ∀ t, posFinite o t → o.lt o.negInf (o.div o.zero t) = true
  zero_lt_posInf : o.lt o.zero o.posInf = true
  posInfGood : o.isNaN o.posInf = false

/-- **the `temperature` stage establishes its own contract** (`scaleOK`: still descending, `-Inf ↦ -Inf`)
    and keeps the values NaN-free, for every descending NaN-free list and finite positive divisor -/
theorem scale_contract_of_laws {o : Ops α} (hs : ScaleLawsOn o) (temp : α) (vs : List α)
    (ht : posFinite o (fmax o temp o.tempFloor))
    (hv : ∀ v ∈ vs, o.isNaN v = false) (hdesc : isDesc o vs = true) :
    scaleOK o vs (scaleVals o temp vs) = true ∧ ∀ s ∈ scaleVals o temp vs, o.isNaN s = false := by
  unfold scaleVals
  simp only
  generalize fmax o temp o.tempFloor = t at ht
  refine ⟨?_, ?_⟩
  · unfold scaleOK
    simp only [List.length_map, beq_self_eq_true, Bool.true_and, Bool.and_eq_true]
    constructor
    · -- still descending
      induction vs with
      | nil => rfl
      | cons a rest ih =>
        cases rest with
        | nil => rfl
        | cons b rest' =>
          simp only [isDesc, Bool.and_eq_true, Bool.not_eq_true'] at hdesc
          simp only [List.map_cons, isDesc, Bool.and_eq_true, Bool.not_eq_true']
          refine ⟨hs.div_mono a b t (hv a List.mem_cons_self)
            (hv b (List.mem_cons_of_mem _ List.mem_cons_self)) ht hdesc.1, ?_⟩
          exact ih (fun v hv' => hv v (List.mem_cons_of_mem _ hv')) hdesc.2
    · -- -Inf ↦ -Inf
      rw [List.all_eq_true]
      intro x hx
      induction vs with
      | nil => simp at hx
      | cons a rest ih =>
        simp only [List.map_cons, List.zipWith_cons_cons, List.mem_cons] at hx
        rcases hx with rfl | hx
        · cases hb : o.beq a o.negInf with
          | false => simp
          | true => simp [hs.div_negInf a t ht hb]
        · exact ih (fun v hv' => hv v (List.mem_cons_of_mem _ hv'))
            (by
              cases rest with
              | nil => rfl
              | cons b rest' =>
                simp only [isDesc, Bool.and_eq_true] at hdesc
                exact hdesc.2) hx
  · intro s hs'
    obtain ⟨v, hv', rfl⟩ := List.mem_map.1 hs'
    exact hs.div_good v t (hv v hv') ht

/-- **the guard `guardOK` is established by shift + scale**: if the shifted list starts with `0` and
    nothing in it is positive (what `shiftMax` produces from a descending list), every scaled value
    is NaN-free and below `+Inf`, and the first one is above `-Inf` -/
theorem guard_of_laws {o : Ops α} (h : OrdLawsOn o) (hs : ScaleLawsOn o) (temp : α) (rest : List α)
    (ht : posFinite o (fmax o temp o.tempFloor))
    (hv : ∀ v ∈ o.zero :: rest, o.isNaN v = false)
    (hnp : ∀ v ∈ o.zero :: rest, o.lt o.zero v = false) :
    guardOK o (scaleVals o temp (o.zero :: rest)) = true := by
  unfold scaleVals
  simp only
  generalize fmax o temp o.tempFloor = t at ht
  unfold guardOK
  simp only [List.map_cons, Bool.and_eq_true, List.all_eq_true, Bool.not_eq_true']
  refine ⟨?_, hs.div_zero t ht⟩
  intro s hs'
  have hs'' : s ∈ (o.zero :: rest).map (fun v => o.div v t) := by simpa using hs'
  obtain ⟨v, hvm, rfl⟩ := List.mem_map.1 hs''
  have hg := hs.div_good v t (hv v hvm) ht
  refine ⟨hg, ?_⟩
  have hle := hs.div_nonpos v t (hv v hvm) ht (hnp v hvm)
  rcases h.cotrans o.zero (o.div v t) o.posInf h.zero hg hs.posInfGood hs.zero_lt_posInf with h1 | h1
  · rw [hle] at h1; cases h1
  · exact h1

theorem xScaleLawsOn : ScaleLawsOn X.ops where
  div_good := by
    intro a t ha ⟨ht1, ht2, ht3⟩
    cases a <;> cases t <;> simp_all [X.ops, X.div, X.lt]
  div_mono := by
    intro a b t ha hb ⟨ht1, ht2, ht3⟩
    cases a <;> cases b <;> cases t <;> simp_all [X.ops, X.div, X.lt]
    rename_i a b c
    intro hab
    exact Int.ediv_le_ediv ht2 hab
  div_negInf := by
    intro v t ⟨ht1, ht2, ht3⟩
    cases v <;> cases t <;> simp_all [X.ops, X.div, X.lt, X.beq]
  div_nonpos := by
    intro a t ha ⟨ht1, ht2, ht3⟩
    cases a <;> cases t <;> simp_all [X.ops, X.div, X.lt]
    rename_i a c
    intro ha0
    exact Int.ediv_nonpos_of_nonpos_of_neg ha0 ht2
  div_zero := by
    intro t ⟨ht1, ht2, ht3⟩
    cases t <;> simp_all [X.ops, X.div, X.lt]
  zero_lt_posInf := by decide
  posInfGood := by decide


theorem isDesc_head_max {o : Ops α} (h : OrdLawsOn o) : ∀ (l : List α) (a : α),
    (∀ v ∈ a :: l, o.isNaN v = false) → isDesc o (a :: l) = true → ∀ v ∈ a :: l, o.lt a v = false := by
  intro l
  induction l with
  | nil => intro a hg _ v hv; simp at hv; subst hv; exact h.irrefl _ (hg _ List.mem_cons_self)
  | cons b rest ih =>
    intro a hg hd v hv
    simp only [isDesc, Bool.and_eq_true, Bool.not_eq_true'] at hd
    rcases List.mem_cons.1 hv with rfl | hv'
    · exact h.irrefl _ (hg _ List.mem_cons_self)
    · have hb := ih b (fun v hv => hg v (List.mem_cons_of_mem _ hv)) hd.2 v hv'
      cases hav : o.lt a v with
      | false => rfl
      | true =>
        rcases h.cotrans a b v (hg a List.mem_cons_self) (hg b (List.mem_cons_of_mem _ List.mem_cons_self))
          (hg v hv) hav with h1 | h1
        · rw [hd.1] at h1; cases h1
        · rw [hb] at h1; cases h1

/-- **after the max-shift, two of the run contracts are theorems**: from the shift's own contract
    (`scaleOK` on (L, L1)) and NaN-freeness of the shifted values, the guard `guardOK` and the
    `temperature` stage's contract `scaleOK` on (L1, scaled) FOLLOW, for every finite positive
    divisor `max(temp, 1e-7)` — they need not be assumed per run any more. -/
theorem contracts_after_shift {o : Ops α} (h : OrdLawsOn o) (hs : ScaleLawsOn o)
    (hrefl : ∀ a, o.isNaN a = false → o.beq a a = true)
    (P : Params α) (t0 : Tok α) (rest : List (Tok α)) (L1 : List (Tok α))
    (hsm : shiftMax o (t0 :: rest) = .ok L1) (ht0 : o.isNaN t0.val = false)
    (hL1 : ∀ v ∈ L1.map (·.val), o.isNaN v = false)
    (hsh : scaleOK o ((t0 :: rest).map (·.val)) (L1.map (·.val)) = true)
    (ht : posFinite o (fmax o P.temp o.tempFloor)) :
    guardOK o (scaledOf o P L1) = true ∧ scaleOK o (L1.map (·.val)) (scaledOf o P L1) = true ∧
    ∀ s ∈ scaledOf o P L1, o.isNaN s = false := by
  -- the shifted list starts with 0
  have hhead : ∃ tl, L1.map (·.val) = o.zero :: tl := by
    simp only [shiftMax] at hsm
    split at hsm
    · cases hsm
    · injection hsm with hsm
      rw [← hsm]
      simp [hrefl t0.val ht0]
  obtain ⟨tl, htl⟩ := hhead
  have hdesc : isDesc o (L1.map (·.val)) = true := by
    unfold scaleOK at hsh
    simp only [Bool.and_eq_true] at hsh
    exact hsh.1.2
  rw [htl] at hdesc hL1
  have hnp := isDesc_head_max h tl o.zero hL1 hdesc
  unfold scaledOf
  rw [htl]
  obtain ⟨c1, c2⟩ := scale_contract_of_laws hs P.temp (o.zero :: tl) ht hL1 hdesc
  exact ⟨guard_of_laws h hs P.temp tl ht hL1 hnp, c1, c2⟩

theorem xBeqRefl : ∀ a, X.ops.isNaN a = false → X.ops.beq a a = true := by
  intro a; cases a <;> simp [X.ops, X.beq]

/-! ### round 7: the max-shift's contract derived; four run contracts are theorems for /repo's code -/

/-- subtraction of the maximum `m > -Inf` on non-NaN values -/
structure ShiftLawsOn (o : Ops α) : Prop where
  negInf_least : ∀ a, o.isNaN a = false → o.beq a o.negInf = false → o.lt o.negInf a = true
  beq_nlt' : ∀ a b, o.beq a b = true → o.lt a b = false
  beq_of_equiv : ∀ a m, o.isNaN a = false → o.isNaN m = false → o.lt a m = false → o.lt m a = false →
    o.beq a m = true
  sub_good : ∀ a m, o.isNaN a = false → o.isNaN m = false → o.beq a m = false → o.lt o.negInf m = true →
    o.isNaN (o.sub a m) = false
  sub_mono : ∀ a b m, o.isNaN a = false → o.isNaN b = false → o.isNaN m = false →
    o.beq a m = false → o.beq b m = false → o.lt o.negInf m = true →
    o.lt a b = false → o.lt (o.sub a m) (o.sub b m) = false
  sub_nonpos : ∀ a m, o.isNaN a = false → o.isNaN m = false → o.beq a m = false → o.lt o.negInf m = true →
    o.lt m a = false → o.lt o.zero (o.sub a m) = false
  sub_negInf : ∀ v m, o.isNaN m = false → o.lt o.negInf m = true → o.beq v o.negInf = true →
    o.beq v m = false ∧ o.beq (o.sub v m) o.negInf = true

/-- the map `shiftMax` applies -/
def shiftVal (o : Ops α) (m v : α) : α := if o.beq v m then o.zero else o.sub v m

theorem shift_desc {o : Ops α} (h : OrdLawsOn o) (hs : ShiftLawsOn o) (m : α)
    (hm : o.isNaN m = false) (hmi : o.lt o.negInf m = true) : ∀ (l : List α),
    (∀ v ∈ l, o.isNaN v = false ∧ o.lt m v = false) → isDesc o l = true →
    isDesc o (l.map (shiftVal o m)) = true := by
  intro l
  induction l with
  | nil => intro _ _; rfl
  | cons a rest ih =>
    intro hl hd
    cases rest with
    | nil => rfl
    | cons b rest' =>
      simp only [isDesc, Bool.and_eq_true, Bool.not_eq_true'] at hd
      simp only [List.map_cons, isDesc, Bool.and_eq_true, Bool.not_eq_true']
      refine ⟨?_, ih (fun v hv => hl v (List.mem_cons_of_mem _ hv)) hd.2⟩
      obtain ⟨ha, ham⟩ := hl a List.mem_cons_self
      obtain ⟨hbg, hbm⟩ := hl b (List.mem_cons_of_mem _ List.mem_cons_self)
      unfold shiftVal
      cases hea : o.beq a m with
      | true =>
        cases heb : o.beq b m with
        | true => simp only [if_true]; exact h.irrefl _ h.zero
        | false =>
          simp only [if_true, Bool.false_eq_true, if_false]
          exact hs.sub_nonpos b m hbg hm heb hmi hbm
      | false =>
        cases heb : o.beq b m with
        | true =>
          -- impossible: a ≥ b ≈ m and a ≤ m force a == m
          exfalso
          have hbm' : o.lt b m = false := hs.beq_nlt' b m heb
          have ham' : o.lt a m = false := by
            cases hv : o.lt a m with
            | false => rfl
            | true =>
              rcases h.cotrans a b m ha hbg hm hv with h1 | h1
              · rw [hd.1] at h1; cases h1
              · rw [hbm'] at h1; cases h1
          have := hs.beq_of_equiv a m ha hm ham' ham
          rw [hea] at this; cases this
        | false =>
          simp only [Bool.false_eq_true, if_false]
          exact hs.sub_mono a b m ha hbg hm hea heb hmi hd.1

/-- **the max-shift establishes its own contract**: for a descending NaN-free list whose head is not
    `-Inf`, `shiftMax` returns a list that is NaN-free, still descending and keeps `-Inf` (`scaleOK`) -/
theorem shift_contract_of_laws {o : Ops α} (h : OrdLawsOn o) (hb : BeqLawOn o) (hs : ShiftLawsOn o)
    (t0 : Tok α) (rest : List (Tok α))
    (hg : ∀ v ∈ (t0 :: rest).map (·.val), o.isNaN v = false)
    (hd : isDesc o ((t0 :: rest).map (·.val)) = true) (hne : o.beq t0.val o.negInf = false) :
    ∃ L1, shiftMax o (t0 :: rest) = .ok L1 ∧
      L1.map (·.val) = ((t0 :: rest).map (·.val)).map (shiftVal o t0.val) ∧
      (∀ v ∈ L1.map (·.val), o.isNaN v = false) ∧
      scaleOK o ((t0 :: rest).map (·.val)) (L1.map (·.val)) = true := by
  have hm : o.isNaN t0.val = false := hg _ (by simp)
  have hmi := hs.negInf_least t0.val hm hne
  have hmax := isDesc_head_max h (rest.map (·.val)) t0.val (by simpa using hg) (by simpa using hd)
  have hall : ∀ v ∈ (t0 :: rest).map (·.val), o.isNaN v = false ∧ o.lt t0.val v = false :=
    fun v hv => ⟨hg v hv, hmax v (by simpa using hv)⟩
  let L1 : List (Tok α) := (t0 :: rest).map fun t =>
    (⟨t.id, if o.beq t.val t0.val then o.zero else o.sub t.val t0.val⟩ : Tok α)
  have hL1 : shiftMax o (t0 :: rest) = .ok L1 := by
    simp only [shiftMax, hne, Bool.false_eq_true, if_false]; rfl
  have e : L1.map (·.val) = ((t0 :: rest).map (·.val)).map (shiftVal o t0.val) := by
    simp only [L1, List.map_map]
    apply List.map_congr_left
    intro t _
    rfl
  refine ⟨L1, hL1, e, ?_, ?_⟩
  · rw [e]
    intro v hv
    obtain ⟨a, ha, rfl⟩ := List.mem_map.1 hv
    have hag := (hall a ha).1
    unfold shiftVal
    cases he : o.beq a t0.val with
    | true => simpa using h.zero
    | false => simpa using hs.sub_good a t0.val hag hm he hmi
  · rw [e]
    unfold scaleOK
    simp only [List.length_map, beq_self_eq_true, Bool.true_and, Bool.and_eq_true]
    refine ⟨shift_desc h hs t0.val hm hmi _ hall hd, ?_⟩
    rw [List.all_eq_true]
    intro x hx
    generalize (t0 :: rest).map (·.val) = vs at hx
    induction vs with
    | nil => simp at hx
    | cons a tl ih =>
      simp only [List.map_cons, List.zipWith_cons_cons, List.mem_cons] at hx
      rcases hx with rfl | hx
      · cases hbq : o.beq a o.negInf with
        | false => simp
        | true =>
          obtain ⟨h1, h2⟩ := hs.sub_negInf a t0.val hm hmi hbq
          simp [shiftVal, h1, h2]
      · exact ih hx

theorem xShiftLawsOn : ShiftLawsOn X.ops where
  negInf_least := by intro a; cases a <;> simp [X.ops, X.beq, X.lt]
  beq_nlt' := by intro a b; cases a <;> cases b <;> simp [X.ops, X.beq, X.lt] <;> omega
  beq_of_equiv := by intro a m; cases a <;> cases m <;> simp [X.ops, X.beq, X.lt] <;> omega
  sub_good := by intro a m; cases a <;> cases m <;> simp [X.ops, X.beq, X.lt, X.add, X.neg]
  sub_mono := by
    intro a b m
    cases a <;> cases b <;> cases m <;> simp [X.ops, X.beq, X.lt, X.add, X.neg] <;> omega
  sub_nonpos := by
    intro a m
    cases a <;> cases m <;> simp [X.ops, X.beq, X.lt, X.add, X.neg] <;> omega
  sub_negInf := by
    intro v m
    cases v <;> cases m <;> simp [X.ops, X.beq, X.lt, X.add, X.neg]


theorem isDesc_of_pairwise (o : Ops α) : ∀ (l : List (Tok α)),
    l.Pairwise (fun a b => o.lt a.val b.val = false) → isDesc o (l.map (·.val)) = true := by
  intro l
  induction l with
  | nil => intro _; rfl
  | cons a rest ih =>
    intro hp
    cases rest with
    | nil => rfl
    | cons b rest' =>
      rw [List.pairwise_cons] at hp
      simp only [List.map_cons, isDesc, Bool.and_eq_true, Bool.not_eq_true']
      exact ⟨hp.1 b List.mem_cons_self, ih hp.2⟩

/-- **four of the run contracts are theorems for the code in /repo**: for NaN-free logits and a finite
    positive `max(temp, 1e-7)`, whenever the max-shift succeeds on `topK`'s output, its result is
    NaN-free and satisfies the shift's contract, the guard `guardOK` and the `temperature` stage's
    contract — derived from `topK_isTopK_on` (the output is descending) and the named IEEE laws
    `ShiftLawsOn`, `ScaleLawsOn` (instances on the carrier with NaN: `xShiftLawsOn`, `xScaleLawsOn`).
    What remains a per-run contract in `sample_admissible_fixed_on` is `softmaxOK` and `runGood`. -/
theorem shift_scale_contracts_of_laws {o : Ops α} (h : OrdLawsOn o) (hb : BeqLawOn o) (hs : ShiftLawsOn o)
    (hsc : ScaleLawsOn o) (hrefl : ∀ a, o.isNaN a = false → o.beq a a = true)
    (P : Params α) (logits : List α) (hne : logits ≠ []) (hn : noNaN o logits = true)
    (ht : posFinite o (fmax o P.temp o.tempFloor))
    (L1 : List (Tok α)) (hsm : shiftMax o (topK o P.topK (mkTokens logits)) = .ok L1) :
    (∀ v ∈ L1.map (·.val), o.isNaN v = false) ∧
    scaleOK o ((topK o P.topK (mkTokens logits)).map (·.val)) (L1.map (·.val)) = true ∧
    guardOK o (scaledOf o P L1) = true ∧
    scaleOK o (L1.map (·.val)) (scaledOf o P L1) = true := by
  have hgl := goodL_mkTokens hn
  have hK := topK_isTopK_on h P.topK (mkTokens logits) hgl
  have hts : mkTokens logits ≠ [] := by
    cases logits with
    | nil => exact absurd rfl hne
    | cons v vs => simp [mkTokens, mkTokensFrom]
  cases hk : topK o P.topK (mkTokens logits) with
  | nil => exact (topK_ne_nil_of_isTopK hts hK hk).elim
  | cons t0 rest =>
    rw [hk] at hsm hK
    have hg : ∀ v ∈ (t0 :: rest).map (·.val), o.isNaN v = false := by
      intro v hv
      obtain ⟨t, ht', rfl⟩ := List.mem_map.1 hv
      exact hgl t (topK_mem o P.topK _ t (by rw [hk]; exact ht'))
    have hd := isDesc_of_pairwise o (t0 :: rest) hK.desc
    have hne' : o.beq t0.val o.negInf = false := by
      cases hb' : o.beq t0.val o.negInf with
      | false => rfl
      | true => simp [shiftMax, hb'] at hsm
    obtain ⟨L1', hs1, _, hgood, hshift⟩ := shift_contract_of_laws h hb hs t0 rest hg hd hne'
    rw [hsm] at hs1
    injection hs1 with hs1
    subst hs1
    obtain ⟨c1, c2, _⟩ := contracts_after_shift h hsc hrefl P t0 rest L1 hsm (hg _ (by simp)) hgood hshift ht
    exact ⟨hgood, hshift, c1, c2⟩

/-- instantiation on the carrier with NaN: the laws hold there, and the derived contracts are the ones
    `decide` finds on a concrete run (former F18 input, heap branch) -/
example : guardOK X.ops (scaledOf X.ops ⟨.fin 1, 1, .fin 1, .fin 0, false⟩ [⟨0, .fin 0⟩]) = true :=
  (shift_scale_contracts_of_laws xLawsOn xBeqLawOn xShiftLawsOn xScaleLawsOn xBeqRefl
    ⟨.fin 1, 1, .fin 1, .fin 0, false⟩ [X.pinf, .fin 0] (by simp) (by decide)
    ⟨by decide, by decide, by decide⟩ [⟨0, .fin 0⟩] (by rfl)).2.2.1

/-! ### round 7: the capstone for the weighted path -/

/-- **C18 for one weighted call of the code in /repo on an IEEE-like carrier — two contracts left.**
    Relativised order laws and the named IEEE laws (all instantiated on the witness carrier with NaN
    and ±Inf); NaN-free logits; a finite positive `max(temp, 1e-7)`.  If `Sample` returns `id`, then
    `id` is inside the vocabulary and fewer than `k` logits are strictly larger; and if the run's
    `softmax` kept its contract (`softmaxOK`) and no NaN was compared (`runGood`) — the only two
    per-run hypotheses left — its logit is not `-Inf` and it is the id of a member of
    `minP (topP (softmax (temperature (shift (topK tokens)))))`. -/
theorem sample_admissible_lawful {o : Ops α} (h : OrdLawsOn o) (ha : ArithLawsOn o) (hb : BeqLawOn o)
    (hs : ShiftLawsOn o) (hsc : ScaleLawsOn o) (hrefl : ∀ a, o.isNaN a = false → o.beq a a = true)
    (P : Params α) (r : α) (logits : List α) (id : Nat) (ht : o.beq P.temp o.zero = false)
    (hpos : posFinite o (fmax o P.temp o.tempFloor)) (hn : noNaN o logits = true)
    (hS : Sample o true P r logits = .ok id) :
    id < logits.length ∧
    (∃ v, logits[id]? = some v ∧
      ((mkTokens logits).filter (fun x => o.lt v x.val)).length <
        (if P.topK ≥ (logits.length : Int) ∨ P.topK ≤ 0 then logits.length else P.topK.toNat)) ∧
    ∃ L1, shiftMax o (topK o P.topK (mkTokens logits)) = .ok L1 ∧
    (runGood o P r L1 = true →
     softmaxOK o (scaledOf o P L1) (softmaxVals o (scaledOf o P L1)) = true →
     (∃ v, logits[id]? = some v ∧ o.beq v o.negInf = false) ∧
     ∃ f, minP o P.minP (topP o P.topP (probsOf o P L1)) = .ok f ∧ f <+: probsOf o P L1 ∧
       ∃ x ∈ f, x.id = id) := by
  have hne : logits ≠ [] := by
    intro e; rw [e] at hS; cases hS
  refine ⟨index_in_range o true P r logits id hS, sample_in_topk_on h true P r logits id ht hn hS, ?_⟩
  obtain ⟨L1, hsm, hrest⟩ := sample_admissible_fixed_on h ha hb P r logits id ht hS
  refine ⟨L1, hsm, fun hrg hsoft => ?_⟩
  obtain ⟨_, c1, c2, c3⟩ := shift_scale_contracts_of_laws h hb hs hsc hrefl P logits hne hn hpos L1 hsm
  exact hrest hrg c2 c1 c3 hsoft

/-- instantiation on the carrier with NaN (former F18 input, heap branch): the conclusion for token 0 -/
example : ∃ v, [X.pinf, .fin 0][0]? = some v ∧ X.ops.beq v X.ops.negInf = false := by
  obtain ⟨_, _, L1, hsm, himp⟩ := sample_admissible_lawful xLawsOn xArithLawsOn xBeqLawOn xShiftLawsOn xScaleLawsOn
    xBeqRefl ⟨.fin 1, 1, .fin 1, .fin 0, false⟩ (.fin 0) [X.pinf, .fin 0] 0 (by decide)
    ⟨by decide, by decide, by decide⟩ (by decide) (by rfl)
  have e : L1 = [⟨0, .fin 0⟩] := by
    have : shiftMax X.ops (topK X.ops 1 (mkTokens [X.pinf, .fin 0])) = .ok [⟨0, .fin 0⟩] := by rfl
    rw [this] at hsm; injection hsm with hsm; exact hsm.symm
  subst e
  exact (himp (by decide) (by decide)).1

/-! ### histories with an ABSTRACT top-k stage: reproducibility needs only that the stage is a function -/

/-- does a call with top-k stage `tk` reach the generator? -/
def consumesWith (o : Ops α) (tk : Int → List (Tok α) → List (Tok α)) (fix : Bool) (P : Params α)
    (logits : List α) : Bool :=
  match logits with
  | [] => false
  | _ =>
    !o.beq P.temp o.zero &&
    (if fix then
       (match shiftMax o (tk P.topK (mkTokens logits)) with
        | .ok _ => true
        | .error _ => false)
     else true)

def sampleStepWith (o : Ops α) (tk : Int → List (Tok α) → List (Tok α)) (toF : Nat → α) (fix : Bool)
    (P : Params α) (p : Pcg) (logits : List α) : Except Err Nat × Pcg :=
  if consumesWith o tk fix P logits then
    (SampleWith o (tk P.topK) fix P (toF (pcgFloat24 p).1) logits, (pcgFloat24 p).2)
  else (SampleWith o (tk P.topK) fix P (toF 0) logits, p)

/-- a history of calls on one sampler whose top-k stage is `tk` -/
def sampleHistWith (o : Ops α) (tk : Int → List (Tok α) → List (Tok α)) (toF : Nat → α) (fix : Bool)
    (P : Params α) : Pcg → List (List α) → List (Except Err Nat)
  | _, [] => []
  | p, l :: ls =>
    (sampleStepWith o tk toF fix P p l).1 ::
      sampleHistWith o tk toF fix P (sampleStepWith o tk toF fix P p l).2 ls

/-- the model is the instance `tk = topK o` -/
theorem sampleHistWith_topK (o : Ops α) (toF : Nat → α) (fix : Bool) (P : Params α) (p : Pcg)
    (ls : List (List α)) :
    sampleHistWith o (topK o) toF fix P p ls = sampleHist o toF fix P p ls := by
  induction ls generalizing p with
  | nil => rfl
  | cons l ls ih =>
    simp only [sampleHistWith, sampleHist]
    have e : sampleStepWith o (topK o) toF fix P p l = sampleStep o toF fix P p l := by
      unfold sampleStepWith sampleStep
      have c : consumesWith o (topK o) fix P l = consumes o fix P l := by
        cases l <;> rfl
      rw [c]
      rfl
    rw [e, ih]

def drawsWith (o : Ops α) (tk : Int → List (Tok α) → List (Tok α)) (fix : Bool) (P : Params α)
    (ls : List (List α)) : Nat :=
  (ls.filter (consumesWith o tk fix P)).length

theorem sampleStepWith_state (o : Ops α) (tk : Int → List (Tok α) → List (Tok α)) (toF : Nat → α)
    (fix : Bool) (P : Params α) (p : Pcg) (l : List α) :
    (sampleStepWith o tk toF fix P p l).2 =
      advance pcgFloat24 (if consumesWith o tk fix P l then 1 else 0) p := by
  unfold sampleStepWith
  split <;> simp [advance]

/-- **reproducible under a fixed seed for ANY deterministic top-k stage** — pdqsort included.  `tk` is an
    arbitrary FUNCTION of (k, tokens): whatever order it gives to tokens with equal logits, two
    samplers with the same seed and parameters return the same sequence on the same sequence of logit
    vectors, and the i-th result is the single call `SampleWith` with the `d_i`-th number of the
    seed's stream (`d_i` = earlier drawing calls).  The only thing assumed of Go's `slices.SortFunc` /
    `container/heap` is that it is deterministic (a function of its input) — recorded as an assumption
    and checked on every sampled call by running the real `topK` twice (L2 `topk-not-deterministic`). -/
theorem reproducible_with_any_sort (o : Ops α) (tk : Int → List (Tok α) → List (Tok α)) (toF : Nat → α)
    (fix : Bool) (P : Params α) (seed : Int) (ls : List (List α)) :
    (∀ seed', seed' = seed →
      sampleHistWith o tk toF fix P (pcgOfSeed seed') ls = sampleHistWith o tk toF fix P (pcgOfSeed seed) ls) ∧
    ∀ (i : Nat) l, ls[i]? = some l →
      (sampleHistWith o tk toF fix P (pcgOfSeed seed) ls)[i]? =
        some (sampleStepWith o tk toF fix P
          (advance pcgFloat24 (drawsWith o tk fix P (ls.take i)) (pcgOfSeed seed)) l).1 := by
  refine ⟨fun s' hs => by rw [hs], ?_⟩
  generalize pcgOfSeed seed = p
  intro i
  induction ls generalizing p i with
  | nil => intro l hl; simp at hl
  | cons l0 ls ih =>
    intro l hl
    cases i with
    | zero =>
      simp only [List.getElem?_cons_zero, Option.some.injEq] at hl
      subst hl
      simp [sampleHistWith, drawsWith, advance]
    | succ i =>
      simp only [List.getElem?_cons_succ] at hl
      simp only [sampleHistWith, List.getElem?_cons_succ, List.take_succ_cons]
      rw [ih _ i l hl, sampleStepWith_state]
      congr 3
      simp only [drawsWith, List.filter_cons]
      split
      · rw [List.length_cons, Nat.add_comm, advance_add]
      · simp [advance]

/-- every result of such a history is a single `SampleWith` call, so `sampleWith_admissible` applies to
    every position: admissibility AND reproducibility hold for every deterministic correct top-k stage -/
theorem histWith_each_call (o : Ops α) (tk : Int → List (Tok α) → List (Tok α)) (toF : Nat → α)
    (fix : Bool) (P : Params α) (p : Pcg) (ls : List (List α)) (i : Nat) (res : Except Err Nat)
    (h : (sampleHistWith o tk toF fix P p ls)[i]? = some res) :
    ∃ l r, ls[i]? = some l ∧ res = SampleWith o (tk P.topK) fix P r l := by
  induction ls generalizing p i with
  | nil => simp [sampleHistWith] at h
  | cons l ls ih =>
    cases i with
    | zero =>
      simp only [sampleHistWith, List.getElem?_cons_zero, Option.some.injEq] at h
      refine ⟨l, ?_, rfl, ?_⟩
      · exact if consumesWith o tk fix P l then toF (pcgFloat24 p).1 else toF 0
      · rw [← h]; unfold sampleStepWith; split <;> simp [*]
    | succ i =>
      simp only [sampleHistWith, List.getElem?_cons_succ] at h ⊢
      exact ih _ _ h

/-! ### round 7: `runGood` derived from a guard on the input, named IEEE laws and finiteness of the masses -/

/-- not NaN and not negative -/
def nn (o : Ops α) (a : α) : Prop := o.isNaN a = false ∧ o.lt a o.zero = false
/-- not NaN, not negative, below `+Inf` -/
def nnf (o : Ops α) (a : α) : Prop := nn o a ∧ o.lt a o.posInf = true

/-- the IEEE facts behind `softmax` and the sums, on non-NaN values -/
structure SoftmaxLawsOn (o : Ops α) : Prop where
  /-- `x − m` for a finite `m`: not NaN, and not positive when `x ≤ m` -/
  sub_fin : ∀ a m, o.isNaN a = false → o.isNaN m = false → o.lt o.negInf m = true → o.lt m o.posInf = true →
    o.isNaN (o.sub a m) = false ∧ (o.lt m a = false → o.lt o.zero (o.sub a m) = false)
  /-- `exp` of a non-positive non-NaN number is in `[0, 1]` -/
  exp_nonpos : ∀ x, o.isNaN x = false → o.lt o.zero x = false → nnf o (o.exp x)
  /-- a sum of two finite non-negatives is not NaN and not negative -/
  add_nn : ∀ a b, nn o a → nn o b → nn o (o.add a b)
  /-- a finite non-negative divided by a finite positive number is not NaN and not negative -/
  div_nn : ∀ e s, nnf o e → o.isNaN s = false → o.lt o.zero s = true → o.lt s o.posInf = true → nn o (o.div e s)
  /-- a finite non-negative times a number of `[0, 1]` is not NaN (either order) -/
  mul_good : ∀ a p, nnf o a → nn o p → o.lt o.one p = false →
    o.isNaN (o.mul a p) = false ∧ o.isNaN (o.mul p a) = false

theorem foldl_add_nn {o : Ops α} (hl : SoftmaxLawsOn o) : ∀ (es : List α) (s : α), nn o s →
    (∀ e ∈ es, nn o e) → nn o (es.foldl o.add s) := by
  intro es
  induction es with
  | nil => intro s hs _; exact hs
  | cons e rest ih =>
    intro s hs he
    exact ih _ (hl.add_nn s e hs (he e List.mem_cons_self)) (fun x hx => he x (List.mem_cons_of_mem _ hx))

theorem sumsGood_of_nn {o : Ops α} (hl : SoftmaxLawsOn o) : ∀ (L : List (Tok α)) (s : α), nn o s →
    (∀ t ∈ L, nn o t.val) → sumsGood o s L = true := by
  intro L
  induction L with
  | nil => intro _ _ _; rfl
  | cons t rest ih =>
    intro s hs hL
    have h1 := hl.add_nn s t.val hs (hL t List.mem_cons_self)
    simp only [sumsGood, Bool.and_eq_true, Bool.not_eq_true']
    exact ⟨h1.1, ih _ h1 (fun x hx => hL x (List.mem_cons_of_mem _ hx))⟩

theorem cumsum_nn {o : Ops α} (hl : SoftmaxLawsOn o) : ∀ (L : List (Tok α)) (s : α), nn o s →
    (∀ t ∈ L, nn o t.val) → ∀ t ∈ cumsum o s L, nn o t.val := by
  intro L
  induction L with
  | nil => intro _ _ _ t ht; simp [cumsum] at ht
  | cons x rest ih =>
    intro s hs hL t ht
    have h1 := hl.add_nn s x.val hs (hL x List.mem_cons_self)
    simp only [cumsum, List.mem_cons] at ht
    rcases ht with rfl | ht
    · exact h1
    · exact ih _ h1 (fun y hy => hL y (List.mem_cons_of_mem _ hy)) t ht

/-- the max scan of `softmax` over a descending NaN-free list whose head is above `-Inf` finds the head -/
theorem maxScan_desc {o : Ops α} (h : OrdLawsOn o) (v : α) (rest : List α)
    (hg : ∀ x ∈ v :: rest, o.isNaN x = false) (hd : isDesc o (v :: rest) = true)
    (hv : o.lt o.negInf v = true) :
    (v :: rest).foldl (fun m x => if o.lt m x then x else m) o.negInf = v := by
  have hmax := isDesc_head_max h rest v hg hd
  simp only [List.foldl_cons, hv, if_true]
  have : ∀ (l : List α), (∀ x ∈ l, o.lt v x = false) → l.foldl (fun m x => if o.lt m x then x else m) v = v := by
    intro l
    induction l with
    | nil => intro _; rfl
    | cons x xs ih =>
      intro hl
      simp only [List.foldl_cons, hl x List.mem_cons_self, Bool.false_eq_true, if_false]
      exact ih (fun y hy => hl y (List.mem_cons_of_mem _ hy))
  exact this rest (fun x hx => hmax x (List.mem_cons_of_mem _ hx))

/-- **`runGood` is a theorem**: for scaled values that are NaN-free, not positive, descending and start
    above `-Inf` (what `shift_scale_contracts_of_laws` DERIVES from NaN-free logits and a finite
    positive temperature), `top_p`, `min_p`, `r` in `[0, 1]` (`newParams_in_range`, `Rand.Float32`), and
    the residual finiteness guard `massFinite`, no NaN is ever compared in the run. -/
theorem runGood_of_laws {o : Ops α} (h : OrdLawsOn o) (hl : SoftmaxLawsOn o) (P : Params α) (r : α)
    (L1 : List (Tok α)) (v0 : α) (vrest : List α)
    (hsc : scaledOf o P L1 = v0 :: vrest)
    (hS : ∀ v ∈ scaledOf o P L1, o.isNaN v = false)
    (hSd : isDesc o (scaledOf o P L1) = true)
    (hSh : o.lt o.negInf v0 = true) (hSf : o.lt v0 o.posInf = true)
    (hp : o.isNaN P.topP = false)
    (hmp : nn o P.minP ∧ o.lt o.one P.minP = false)
    (hr : nn o r ∧ o.lt o.one r = false)
    (hmf : massFinite o P L1 = true) :
    runGood o P r L1 = true := by
  have hzero : nn o o.zero := ⟨h.zero, h.irrefl _ h.zero⟩
  -- the max scan finds the head
  have hm : (scaledOf o P L1).foldl (fun m v => if o.lt m v then v else m) o.negInf = v0 := by
    rw [hsc]; exact maxScan_desc h v0 vrest (by rw [← hsc]; exact hS) (by rw [← hsc]; exact hSd) hSh
  have hv0 : o.isNaN v0 = false := hS v0 (by rw [hsc]; exact List.mem_cons_self)
  have hmaxv : ∀ v ∈ scaledOf o P L1, o.lt v0 v = false := by
    rw [hsc]; exact isDesc_head_max h vrest v0 (by rw [← hsc]; exact hS) (by rw [← hsc]; exact hSd)
  -- the exponentials are in [0, 1]
  have hes : ∀ e ∈ (scaledOf o P L1).map (fun v => o.exp (o.sub v v0)), nnf o e := by
    intro e he
    obtain ⟨v, hv, rfl⟩ := List.mem_map.1 he
    obtain ⟨g1, g2⟩ := hl.sub_fin v v0 (hS v hv) hv0 hSh hSf
    exact hl.exp_nonpos _ g1 (g2 (hmaxv v hv))
  unfold massFinite at hmf
  simp only [hm, Bool.and_eq_true, List.all_eq_true] at hmf
  obtain ⟨⟨⟨hs0, hsf⟩, hpf⟩, hcf⟩ := hmf
  have hsnn := foldl_add_nn hl _ o.zero hzero (fun e he => (hes e he).1)
  -- the probabilities
  have hpv : (probsOf o P L1).map (·.val) = softmaxVals o (scaledOf o P L1) := by
    unfold probsOf softmax
    rw [temperature_vals]
    exact setVals_map_val _ _ (by simp [softmaxVals_length, scaleVals_length, scaledOf, temperature, setVals_length])
  have hprobs : ∀ t ∈ probsOf o P L1, nn o t.val := by
    intro t ht
    have : t.val ∈ softmaxVals o (scaledOf o P L1) := by rw [← hpv]; exact List.mem_map_of_mem ht
    unfold softmaxVals at this
    simp only [hm] at this
    obtain ⟨e, he, heq⟩ := List.mem_map.1 this
    rw [← heq]
    exact hl.div_nn e _ (hes e he) hsnn.1 hs0 hsf
  have hprobsf : ∀ t ∈ probsOf o P L1, nnf o t.val := fun t ht => ⟨hprobs t ht, hpf t ht⟩
  unfold runGood
  simp only [Bool.and_eq_true, List.all_eq_true, Bool.not_eq_true']
  refine ⟨⟨⟨⟨⟨?_, fun t ht => (hprobs t ht).1⟩, hp⟩, sumsGood_of_nn hl _ _ hzero hprobs⟩, ?_⟩, ?_⟩
  · intro t ht
    have : t.val ∈ scaledOf o P L1 := by rw [← temperature_vals]; exact List.mem_map_of_mem ht
    exact hS _ this
  · cases htp : topP o P.topP (probsOf o P L1) with
    | nil => rfl
    | cons t0 rest =>
      have hmem : t0 ∈ probsOf o P L1 := (topP_prefix o P.topP _).subset (by rw [htp]; exact List.mem_cons_self)
      simpa using (hl.mul_good t0.val P.minP (hprobsf t0 hmem) hmp.1 hmp.2).1
  · cases hmn : minP o P.minP (topP o P.topP (probsOf o P L1)) with
    | error e => rfl
    | ok f =>
      rw [hmn] at hcf
      simp only [List.all_eq_true] at hcf
      have hfsub : ∀ t ∈ f, nn o t.val := fun t ht =>
        hprobs t ((topP_prefix o P.topP _).subset ((minP_prefix o P.minP _ f hmn).subset ht))
      have hC := cumsum_nn hl f o.zero hzero hfsub
      simp only [Bool.and_eq_true, List.all_eq_true, Bool.not_eq_true']
      refine ⟨fun t ht => (hC t ht).1, ?_⟩
      cases hl' : (cumsum o o.zero f).getLast? with
      | none => rfl
      | some last =>
        have hlm : last ∈ cumsum o o.zero f := List.mem_of_getLast? hl'
        simpa using (hl.mul_good last.val r ⟨hC last hlm, hcf last hlm⟩ hr.1 hr.2).2


/-- **`runGood` from a guard on the INPUT, named IEEE laws and finiteness of the masses**: NaN-free
    logits, a finite positive `max(temp, 1e-7)`, `top_p` not NaN, `min_p` and `r` in `[0, 1]` — plus the
    residual `massFinite` — imply that no NaN is ever compared in the run on the shifted list. -/
theorem runGood_from_input {o : Ops α} (h : OrdLawsOn o) (hb : BeqLawOn o) (hs : ShiftLawsOn o)
    (hsc : ScaleLawsOn o) (hl : SoftmaxLawsOn o) (hrefl : ∀ a, o.isNaN a = false → o.beq a a = true)
    (P : Params α) (r : α) (logits : List α) (hne : logits ≠ []) (hn : noNaN o logits = true)
    (hpos : posFinite o (fmax o P.temp o.tempFloor))
    (hp : o.isNaN P.topP = false) (hmp : nn o P.minP ∧ o.lt o.one P.minP = false)
    (hr : nn o r ∧ o.lt o.one r = false)
    (L1 : List (Tok α)) (hsm : shiftMax o (topK o P.topK (mkTokens logits)) = .ok L1)
    (hmf : massFinite o P L1 = true) :
    runGood o P r L1 = true := by
  obtain ⟨hgood, _, c1, c2⟩ := shift_scale_contracts_of_laws h hb hs hsc hrefl P logits hne hn hpos L1 hsm
  unfold guardOK at c1
  simp only [Bool.and_eq_true, List.all_eq_true, Bool.not_eq_true'] at c1
  cases hsv : scaledOf o P L1 with
  | nil => rw [hsv] at c1; simp at c1
  | cons v0 vrest =>
    have hall := c1.1
    have hhead : o.lt o.negInf v0 = true := by
      have := c1.2; rw [hsv] at this; simpa using this
    have hS : ∀ v ∈ scaledOf o P L1, o.isNaN v = false := fun v hv => (hall v hv).1
    have hd : isDesc o (scaledOf o P L1) = true := by
      unfold scaleOK at c2
      simp only [Bool.and_eq_true] at c2
      exact c2.1.2
    exact runGood_of_laws h hl P r L1 v0 vrest hsv hS hd hhead
      ((hall v0 (by rw [hsv]; exact List.mem_cons_self)).2) hp hmp hr hmf

theorem xSoftmaxLawsOn : SoftmaxLawsOn X.ops where
  sub_fin := by
    intro a m
    cases a <;> cases m <;> simp [X.ops, X.lt, X.add, X.neg] <;> omega
  exp_nonpos := by
    intro x
    cases x <;> simp [nnf, nn, X.ops, X.lt, X.exp]
    rename_i a
    intro ha
    split <;> simp
  add_nn := by
    intro a b
    cases a <;> cases b <;> simp [nn, X.ops, X.lt, X.add] <;> omega
  div_nn := by
    intro e s
    cases e <;> cases s <;> simp [nnf, nn, X.ops, X.lt, X.div]
    rename_i e s
    intro he hs
    exact Int.ediv_nonneg he (by omega)
  mul_good := by
    intro a p
    cases a <;> cases p <;> simp [nnf, nn, X.ops, X.lt, X.mul]


/-- **C18 for one weighted call of /repo's code from a guard on the INPUT**: relativised laws + named
    IEEE laws (all instantiated on the carrier with NaN), NaN-free logits, finite positive
    `max(temp, 1e-7)`, `top_p` not NaN, `min_p`, `r` ∈ [0, 1].  A returned `id` is in range and fewer than
    `k` logits are strictly larger; and — the only per-run facts left being that `softmax` kept its
    contract and that the masses are finite — its logit is not `-Inf` and it is the id of a member of
    `minP (topP (softmax (temperature (shift (topK tokens)))))`.  `runGood` is no longer a hypothesis. -/
theorem sample_admissible_from_input {o : Ops α} (h : OrdLawsOn o) (ha : ArithLawsOn o) (hb : BeqLawOn o)
    (hs : ShiftLawsOn o) (hsc : ScaleLawsOn o) (hl : SoftmaxLawsOn o)
    (hrefl : ∀ a, o.isNaN a = false → o.beq a a = true)
    (P : Params α) (r : α) (logits : List α) (id : Nat) (ht : o.beq P.temp o.zero = false)
    (hpos : posFinite o (fmax o P.temp o.tempFloor)) (hn : noNaN o logits = true)
    (hp : o.isNaN P.topP = false) (hmp : nn o P.minP ∧ o.lt o.one P.minP = false)
    (hr : nn o r ∧ o.lt o.one r = false)
    (hS : Sample o true P r logits = .ok id) :
    id < logits.length ∧
    (∃ v, logits[id]? = some v ∧
      ((mkTokens logits).filter (fun x => o.lt v x.val)).length <
        (if P.topK ≥ (logits.length : Int) ∨ P.topK ≤ 0 then logits.length else P.topK.toNat)) ∧
    ∃ L1, shiftMax o (topK o P.topK (mkTokens logits)) = .ok L1 ∧
    (massFinite o P L1 = true →
     softmaxOK o (scaledOf o P L1) (softmaxVals o (scaledOf o P L1)) = true →
     (∃ v, logits[id]? = some v ∧ o.beq v o.negInf = false) ∧
     ∃ f, minP o P.minP (topP o P.topP (probsOf o P L1)) = .ok f ∧ f <+: probsOf o P L1 ∧
       ∃ x ∈ f, x.id = id) := by
  have hne : logits ≠ [] := by
    intro e; rw [e] at hS; cases hS
  obtain ⟨h1, h2, L1, hsm, himp⟩ := sample_admissible_lawful h ha hb hs hsc hrefl P r logits id ht hpos hn hS
  refine ⟨h1, h2, L1, hsm, fun hmf hsoft => ?_⟩
  exact himp (runGood_from_input h hb hs hsc hl hrefl P r logits hne hn hpos hp hmp hr L1 hsm hmf) hsoft

/-- instantiation on the carrier with NaN: the residual guard on the former F18 input (heap branch) -/
example : massFinite X.ops ⟨.fin 1, 1, .fin 1, .fin 0, false⟩ [⟨0, .fin 0⟩] = true ∧
    runGood X.ops ⟨.fin 1, 1, .fin 1, .fin 0, false⟩ (.fin 0) [⟨0, .fin 0⟩] = true := by
  refine ⟨by decide, ?_⟩
  exact runGood_from_input xLawsOn xBeqLawOn xShiftLawsOn xScaleLawsOn xSoftmaxLawsOn xBeqRefl
    ⟨.fin 1, 1, .fin 1, .fin 0, false⟩ (.fin 0) [X.pinf, .fin 0] (by simp) (by decide)
    ⟨by decide, by decide, by decide⟩ (by decide) ⟨⟨by decide, by decide⟩, by decide⟩
    ⟨⟨by decide, by decide⟩, by decide⟩ [⟨0, .fin 0⟩] (by rfl) (by decide)

end OllamaVerif.C18
