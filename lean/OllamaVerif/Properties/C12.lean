/-
  C12 — a crash at any point leaves a store in which every resolvable model is intact.

  Model: `Model/StoreCrash.lean` (each store operation = ordered list of primitive file-system
  effects computed against the evolving store; crash = prefix, last data write cut anywhere;
  restart = what `Serve` does before listening).  Lemmas: `Proofs/StoreCrash.lean`.

  Theorems (all for EVERY store, operation, crash prefix; `hash` uninterpreted):
    effect_preserves_inv   one effect that meets its local condition keeps the invariant
    seq_preserves_inv      … hence every sequence of such effects
    exec_seqOK             every effect of every operation meets its local condition in the state it
                           is executed in (this is where the ORDER of effects is used: blobs before
                           the manifest, manifest removal before blob removal, rename only of a
                           complete file whose bytes hash to the name)
    restart_preserves_inv, restart_untouched
    crash_safe             the property's first two clauses
  Partial: the pull case of `exec_seqOK`/`crash_safe` assumes `NoPullDebris st` (no `-partial` file or
  part record in the prior state: true after every start-up that pruned).  Resuming from debris is
  covered by the correspondence (L1) and by real kills (L2) only.  The third clause (re-running
  converges) is not a theorem here: the model's rerun prediction is compared with the real rerun at
  every crash point (L1 `rerun` lines) and F19b is its Lean-checked counterexample.
-/
import OllamaVerif.Proofs.StoreCrash
namespace OllamaVerif.C12
open OllamaVerif OllamaVerif.StoreCrash

theorem effect_preserves_inv {hash : Bytes → Digest} {st : Store} {e : Effect}
    (hinv : Inv hash st) (hok : EffOK hash st e) : Inv hash (apply e st) :=
  StoreCrash.effect_preserves_inv hinv hok

theorem seq_preserves_inv {hash : Bytes → Digest} {st : Store} {es : List Effect}
    (hinv : Inv hash st) (hok : SeqOK hash st es) : Inv hash (run es st) :=
  StoreCrash.seq_preserves_inv hinv hok

theorem restart_preserves_inv {hash : Bytes → Digest} {st : Store} (h : Inv hash st) :
    Inv hash (restart st) :=
  StoreCrash.restart_preserves_inv h

theorem restart_untouched (n : Name) (st : Store) : Untouched n st (restart st) :=
  StoreCrash.restart_untouched n st

/-- what is assumed of the environment: `hash` is the hash the code uses, the network hands a body
out in pieces that concatenate to the body, map iteration visits only keys of the map -/
structure EnvOK (hash : Bytes → Digest) (env : Env) : Prop where
  hash_eq : env.hash = hash
  chunk_flatten : ∀ bs, (env.chunk bs).flatten = bs
  ord_sub : ∀ l x, x ∈ env.ord l → x ∈ l

/-- per-operation side conditions: the registry is honest, and whatever an earlier, interrupted
pull left behind for the digests this pull will download is consistent with what the registry
serves (`PartOK`: a readable part record describes the blob and the bytes it declares complete are in
the `-partial` file; no record / a torn record / no `-partial` file are all fine). A store without
download debris satisfies it (`opOK_of_noDebris`). -/
def OpOK (hash : Bytes → Digest) (st : Store) : Op → Prop
  | .pull reg _ m => (∀ d data, reg d = some data → hash data = d) ∧ PullPre reg st (m.all.map Layer.digest)
  | _ => True

theorem opOK_of_noDebris {hash : Bytes → Digest} {st : Store} (reg : Digest → Option Bytes) (n : Name) (m : Man)
    (hreg : ∀ d data, reg d = some data → hash data = d) (h : NoPullDebris st) :
    OpOK hash st (.pull reg n m) :=
  ⟨hreg, fun d _ _ data _ => h.partOK d data⟩

/-- Every effect of every operation is issued in a state in which it cannot break the invariant. -/
theorem exec_seqOK {hash : Bytes → Digest} {env : Env} (henv : EnvOK hash env) {st : Store}
    (hinv : Inv hash st) (op : Op) (hop : OpOK hash st op) :
    SeqOK hash st (op.exec env st).effs := by
  cases op with
  | upload k d body => exact (upload_spec env henv.hash_eq k d body st).1
  | create n ups file datas cfg => exact create_seqOK env henv.hash_eq n ups file datas cfg st
  | copy src dst => exact copy_seqOK env src dst st hinv
  | delete n => exact delete_seqOK n st
  | pull reg n m =>
    exact pull_seqOK env henv.hash_eq henv.chunk_flatten henv.ord_sub reg hop.1 n m st hinv hop.2

/-- **C12, clauses 1 and 2.**  For every store satisfying the invariant (torn manifests allowed),
every operation, and every crash prefix of its effect list (the last data write cut at any byte):
after the start-up sequence every READABLE manifest has every layer and its config present with
bytes that hash to the layer's name, and every name the operation does not involve keeps its
manifest file and every blob that manifest names, byte for byte. -/
theorem crash_safe {hash : Bytes → Digest} {env : Env} (henv : EnvOK hash env) {st : Store}
    (hinv : Inv hash st) (op : Op) (hop : OpOK hash st op) (p : List Effect)
    (hp : CrashPrefix (op.exec env st).effs p) :
    NameInv hash (restart (run p st)) ∧
    Inv hash (restart (run p st)) ∧
    ∀ n, n ∉ op.involved → Untouched n st (restart (run p st)) := by
  have hseq := exec_seqOK henv hinv op hop
  have hpOK : SeqOK hash st p := seqOK_crashPrefix hseq hp
  have hinv1 : Inv hash (run p st) := StoreCrash.seq_preserves_inv hinv hpOK
  have hinv2 : Inv hash (restart (run p st)) := StoreCrash.restart_preserves_inv hinv1
  refine ⟨hinv2.nameInv, hinv2, ?_⟩
  intro n hn
  have hw : ∀ e ∈ (op.exec env st).effs, ¬ writesMan e n :=
    fun e he hwm => hn (manOnly_exec env op st e he n hwm)
  exact (seq_untouched hinv hpOK (crashPrefix_writes hp hw)).trans (StoreCrash.restart_untouched n _)

/-! ## witnesses of the defects the model shares with the code (F19) -/

def wHash : Bytes → Digest := fun bs => if bs = [1] then "d1" else if bs = [2] then "d2" else "x"
def wEnv : Env := { hash := wHash, chunk := fun bs => [bs], ord := id }   -- pinned variant
def wMan1 : Man := ⟨[], ⟨"d1", 1⟩⟩
def wMan2 : Man := ⟨[], ⟨"d2", 1⟩⟩
/-- two models a (layer d1) and c (layer d2) -/
def wStore : Store :=
  [(.blob "d1", .raw [1]), (.blob "d2", .raw [2]), (.man "a", .man wMan1), (.man "c", .man wMan2)]

/-- **F19a** (`CopyModel`, `WriteManifest`, `os.WriteFile` in `PullModel` truncate in place): a crash
between the truncating open and the write loses the model that was being REPLACED — `c` was
readable before `copy a c`, the operation was not completed, and `c` is unreadable after restart. -/
theorem F19a_replaced_model_lost :
    readable wStore "c" = some wMan2 ∧
    CrashPrefix ((Op.copy "a" "c").exec wEnv wStore).effs [Effect.mk (.man "c")] ∧
    readable (restart (run [Effect.mk (.man "c")] wStore)) "c" = none := by
  refine ⟨by decide, ⟨1, Or.inl (by decide)⟩, by decide⟩

/-- a store in which an earlier crash tore the manifest of `z` -/
def wStoreTorn : Store := (.man "z", .raw []) :: wStore
def wReg : Digest → Option Bytes := fun d => if d = "d2" then some [2] else none
def wPull : Op := .pull wReg "f" wMan2
/-- the store without blob d2 (so that pulling wMan2 has to download it) and with torn z -/
def wStoreTorn' : Store :=
  [(.man "z", .raw []), (.blob "d1", .raw [1]), (.man "a", .man wMan1)]

/-- **F19b**: with a torn manifest in the store the start-up prune is skipped; a pull that crashes
between the truncating open of a part record and its write leaves an empty `-partial-0`; the
repeated pull then fails in `readPart` without doing anything, and so does every later one
(restart changes nothing). -/
theorem F19b_torn_part_record_blocks_repull :
    Inv wHash wStoreTorn' ∧
    CrashPrefix (wPull.exec wEnv wStoreTorn').effs [Effect.mk (.part "d2" 0)] ∧
    (let st1 := restart (run [Effect.mk (.part "d2" 0)] wStoreTorn')
     (wPull.exec wEnv st1).ok = false ∧ (wPull.exec wEnv st1).effs = [] ∧ restart st1 = st1) := by
  refine ⟨⟨?_, ?_⟩, ⟨1, Or.inl (by decide)⟩, by decide⟩
  · intro d c h
    simp [wStoreTorn', StoreCrash.get] at h
    obtain ⟨hd, hc⟩ := h
    subst hd; subst hc
    exact ⟨[1], rfl, by decide⟩
  · intro n m hr l hl
    rw [readable_eq_some] at hr
    simp only [wStoreTorn', StoreCrash.get] at hr
    by_cases hz : Path.man "z" = Path.man n
    · simp [hz] at hr
    · simp only [hz, ↓reduceIte, reduceCtorEq] at hr
      by_cases ha : Path.man "a" = Path.man n
      · simp only [ha, ↓reduceIte] at hr
        injection hr with hr; injection hr with hr; subst hr
        simp only [wMan1, Man.all, List.nil_append, List.mem_singleton] at hl
        subst hl; decide
      · simp [ha] at hr

/-! ## the hypotheses are satisfiable by a non-trivial value -/

example : EnvOK wHash wEnv := ⟨rfl, fun bs => by simp [wEnv], fun _ _ h => h⟩

example : OpOK wHash wStoreTorn' wPull := by
  show OpOK wHash wStoreTorn' (.pull wReg "f" wMan2)
  apply opOK_of_noDebris
  · intro d data h
    simp only [wReg] at h
    split at h
    · injection h with h; subst h; rename_i hd; subst hd; decide
    · cases h
  · intro d
    refine ⟨?_, fun k => ?_⟩ <;>
    · simp [wStoreTorn', StoreCrash.get]

/-- and the pull of the example really has effects (a download, a manifest write) -/
example : (wPull.exec wEnv wStoreTorn').effs.length = 11 ∧ (wPull.exec wEnv wStoreTorn').ok = true := by decide

end OllamaVerif.C12
