/-
  C12 — a crash at any point leaves a store in which every resolvable model is intact.

  Model: `Model/StoreCrash.lean` (each store operation = ordered list of primitive file-system
  effects computed against the evolving store; crash = prefix, last data write cut anywhere;
  restart = what `Serve` does before listening).  Lemmas: `Proofs/StoreCrash.lean`.

  Theorems (all for EVERY store, operation, crash prefix; `hash` uninterpreted):
    effect_preserves_inv   one effect that meets its local condition keeps the invariant
    seq_preserves_inv      … hence every sequence of such effects
    exec_seqOK             every effect of every operation meets its local condition in the state it
                           is executed in (this is where the ORDER of effects is used: blobs before
                           the manifest, manifest removal before blob removal, rename only of a
                           complete file whose bytes hash to the name)
    restart_preserves_inv, restart_untouched
    crash_safe             the property's first two clauses
  Both variants of the code are in the model (`Env.atomicMan`, `Env.atomicPart`: manifests / part
  records written in place (pinned tree) or by temp + rename (proposed fixes C12-F19a/b)); the
  theorems above hold for both.  For the fixed manifest variant additionally:
    atomic_manifest_old_or_new   after any crash + restart every manifest FILE is the old one or the one
                                 the completed operation leaves
    atomic_never_torn            `Manifests(false)` keeps succeeding (prune never disabled by a crash)
    atomic_replaced_model_kept   a readable name stays readable (old or new manifest) unless it is deleted
    rerun_converges_partial      upload/copy/delete: rerun after crash+restart leaves exactly the manifest
                                 files of an uninterrupted run, and the invariant
    rerun_converges_pull_partial pull: same, guarded by "the rerun succeeds iff the uninterrupted pull does"
    rerun_converges_pull         pull, full strength in the prune configuration: the repeated pull SUCCEEDS (honest
                                 registry serving every layer), manifest files equal the uninterrupted run's, invariant
  All theorems are stated for `restartWith env` (start-up with or without OLLAMA_NOPRUNE).
  The pull case of `exec_seqOK`/`crash_safe` takes `PullPre` (debris of earlier pulls is CONSISTENT: a
  readable part record describes the blob and the bytes it declares complete are in the `-partial` file)
  as a hypothesis.  Round 7 (`Proofs/StoreCrashReach.lean`) DISCHARGES it: consistency of the debris is an
  invariant of every effect of every operation at every crash prefix and of the start-up sequence
  (`exec_seqDeb`, `debInv_crash`), hence of every store reachable by any history (`Reach`):
    reach_inv                       every reachable store: Inv ∧ consistent debris (∧ whole records, fixed variant)
    crash_safe_reachable            clauses 1+2 from every reachable store, no debris hypothesis
    reach_allReadable               fixed manifest writes: no reachable store has a torn manifest
    pull_succeeds_reachable         fixed variant: from EVERY reachable store a pull (honest, total registry) succeeds
    rerun_converges_pull_reachable  clause 3 for pull from every reachable store, BOTH start-up configurations
  Also round 7: rerun_ok_partial (the `.ok` half of clause 3 for upload/copy/delete), rerun_converges_upload,
  rerun_converges_create (honest client, no length-collision of `hash` at the gguf digest),
  rerun_converges_delete_blobs (clause 4 on blobs/, default configuration) with the NOPRUNE counterexample F28,
  F27a/F27b witnesses (a registry that serves damaged bytes is inside the model), and the capstone
    c12_all_clauses                 every clause of the property, every reachable store, every fitting operation
  F19a/F19b are the Lean-checked counterexamples for the pinned variant.
-/
import OllamaVerif.Proofs.StoreCrashReach
namespace OllamaVerif.C12
open OllamaVerif OllamaVerif.StoreCrash

theorem effect_preserves_inv {hash : Bytes → Digest} {st : Store} {e : Effect}
    (hinv : Inv hash st) (hok : EffOK hash st e) : Inv hash (apply e st) :=
  StoreCrash.effect_preserves_inv hinv hok

theorem seq_preserves_inv {hash : Bytes → Digest} {st : Store} {es : List Effect}
    (hinv : Inv hash st) (hok : SeqOK hash st es) : Inv hash (run es st) :=
  StoreCrash.seq_preserves_inv hinv hok

theorem restart_preserves_inv {hash : Bytes → Digest} {st : Store} (h : Inv hash st) :
    Inv hash (restart st) :=
  StoreCrash.restart_preserves_inv h

theorem restart_untouched (n : Name) (st : Store) : Untouched n st (restart st) :=
  StoreCrash.restart_untouched n st

/-- what is assumed of the environment: `hash` is the hash the code uses, the network hands a body
out in pieces that concatenate to the body, map iteration visits only keys of the map -/
structure EnvOK (hash : Bytes → Digest) (env : Env) : Prop where
  hash_eq : env.hash = hash
  chunk_flatten : ∀ bs, (env.chunk bs).flatten = bs
  ord_sub : ∀ l x, x ∈ env.ord l → x ∈ l

/-- per-operation side conditions: the registry is honest, and whatever an earlier, interrupted
pull left behind for the digests this pull will download is consistent with what the registry
serves (`PartOK`: a readable part record describes the blob and the bytes it declares complete are in
the `-partial` file; no record / a torn record / no `-partial` file are all fine). A store without
download debris satisfies it (`opOK_of_noDebris`). -/
def OpOK (hash : Bytes → Digest) (st : Store) : Op → Prop
  | .pull reg _ m => (∀ d data, reg d = some data → hash data = d) ∧ PullPre reg st (m.all.map Layer.digest)
  | _ => True

theorem opOK_of_noDebris {hash : Bytes → Digest} {st : Store} (reg : Digest → Option Bytes) (n : Name) (m : Man)
    (hreg : ∀ d data, reg d = some data → hash data = d) (h : NoPullDebris st) :
    OpOK hash st (.pull reg n m) :=
  ⟨hreg, fun d _ _ data _ => h.partOK d data⟩

/-- Every effect of every operation is issued in a state in which it cannot break the invariant. -/
theorem exec_seqOK {hash : Bytes → Digest} {env : Env} (henv : EnvOK hash env) {st : Store}
    (hinv : Inv hash st) (op : Op) (hop : OpOK hash st op) :
    SeqOK hash st (op.exec env st).effs := by
  cases op with
  | upload k d body => exact (upload_spec env henv.hash_eq k d body st).1
  | create n ups file datas cfg => exact create_seqOK env henv.hash_eq n ups file datas cfg st
  | copy src dst => exact copy_seqOK env src dst st hinv
  | delete n => exact delete_seqOK n st
  | pull reg n m =>
    exact pull_seqOK env henv.hash_eq henv.chunk_flatten henv.ord_sub reg hop.1 n m st hinv hop.2

/-- **C12, clauses 1 and 2.**  For every store satisfying the invariant (torn manifests allowed),
every operation, and every crash prefix of its effect list (the last data write cut at any byte):
after the start-up sequence every READABLE manifest has every layer and its config present with
bytes that hash to the layer's name, and every name the operation does not involve keeps its
manifest file and every blob that manifest names, byte for byte. -/
theorem crash_safe {hash : Bytes → Digest} {env : Env} (henv : EnvOK hash env) {st : Store}
    (hinv : Inv hash st) (op : Op) (hop : OpOK hash st op) (p : List Effect)
    (hp : CrashPrefix (op.exec env st).effs p) :
    NameInv hash (restartWith env (run p st)) ∧
    Inv hash (restartWith env (run p st)) ∧
    ∀ n, n ∉ op.involved → Untouched n st (restartWith env (run p st)) := by
  have hseq := exec_seqOK henv hinv op hop
  have hpOK : SeqOK hash st p := seqOK_crashPrefix hseq hp
  have hinv1 : Inv hash (run p st) := StoreCrash.seq_preserves_inv hinv hpOK
  have hinv2 : Inv hash (restartWith env (run p st)) := StoreCrash.restartWith_preserves_inv env hinv1
  refine ⟨hinv2.nameInv, hinv2, ?_⟩
  intro n hn
  have hw : ∀ e ∈ (op.exec env st).effs, ¬ writesMan e n :=
    fun e he hwm => hn (manOnly_exec env op st e he n hwm)
  exact (seq_untouched hinv hpOK (crashPrefix_writes hp hw)).trans (StoreCrash.restartWith_untouched env n _)

/-! ## the fixed variant (`env.atomicMan`: manifests written by temp + rename, C12-F19a) -/

/-- **Fixed variant, clause 1 strengthened.**  Whatever the operation and wherever it is killed, after
restart every manifest FILE is either exactly as it was before the operation or exactly as the
completed operation leaves it: the model being replaced by create/copy/pull is never lost. -/
theorem atomic_manifest_old_or_new {env : Env} (hat : env.atomicMan = true) (op : Op) (st : Store)
    (p : List Effect) (hp : CrashPrefix (op.exec env st).effs p) (n : Name) :
    get (restartWith env (run p st)) (.man n) = get st (.man n) ∨
    get (restartWith env (run p st)) (.man n) = get (run (op.exec env st).effs st) (.man n) := by
  rw [(StoreCrash.restartWith_untouched env n (run p st)).1]
  exact old_or_new (amo_exec env hat op st) hp n

/-- no crash ever tears a manifest (state right after the crash, before the start-up sequence) -/
theorem atomic_never_torn_run {env : Env} (hat : env.atomicMan = true) (op : Op) (st : Store)
    (hall : allReadable st = true) (p : List Effect) (hp : CrashPrefix (op.exec env st).effs p) :
    allReadable (run p st) = true := by
  rw [allReadable_iff] at hall ⊢
  intro n c hg
  rcases old_or_new (amo_exec env hat op st) hp n with h | h
  · rw [h] at hg; exact hall n c hg
  · rw [h] at hg
    rcases final_man env hat op st n with h' | ⟨m, h'⟩ | ⟨_, h'⟩ | ⟨src, c', _, hsrc, h'⟩
    · rw [h'] at hg; exact hall n c hg
    · rw [h'] at hg; injection hg with hg; exact ⟨m, hg.symm⟩
    · rw [h'] at hg; cases hg
    · rw [h'] at hg; injection hg with hg; subst hg; exact hall src c' hsrc

/-- **Fixed variant: no crash ever tears a manifest.**  If `Manifests(false)` succeeds before the
operation it succeeds after any crash of it (so the start-up prune is never disabled by a crash). -/
theorem atomic_never_torn {env : Env} (hat : env.atomicMan = true) (op : Op) (st : Store)
    (hall : allReadable st = true) (p : List Effect) (hp : CrashPrefix (op.exec env st).effs p) :
    allReadable (restartWith env (run p st)) = true := by
  have h := atomic_never_torn_run hat op st hall p hp
  rw [allReadable_iff] at h ⊢
  intro n c hg
  rw [(StoreCrash.restartWith_untouched env n (run p st)).1] at hg
  exact h n c hg

/-- **Fixed variant: the replaced model is never lost.**  A name that was readable before the
operation is readable after any crash of it (unless the operation is the deletion of that name) —
with its old manifest or with the manifest the completed operation gives it. -/
theorem atomic_replaced_model_kept {env : Env} (hat : env.atomicMan = true) (op : Op) (st : Store)
    (hall : allReadable st = true) (p : List Effect) (hp : CrashPrefix (op.exec env st).effs p)
    (n : Name) (mo : Man) (hr : readable st n = some mo) (hdel : op ≠ .delete n) :
    ∃ m, readable (restartWith env (run p st)) n = some m ∧
      (m = mo ∨ readable (run (op.exec env st).effs st) n = some m) := by
  have hold : get st (.man n) = some (.man mo) := readable_eq_some.mp hr
  rcases atomic_manifest_old_or_new hat op st p hp n with h | h
  · exact ⟨mo, by rw [readable_eq_some, h]; exact hold, Or.inl rfl⟩
  · rcases final_man env hat op st n with h' | ⟨m, h'⟩ | ⟨hop, _⟩ | ⟨src, c, _, hsrc, h'⟩
    · exact ⟨mo, by rw [readable_eq_some, h, h']; exact hold, Or.inl rfl⟩
    · exact ⟨m, by rw [readable_eq_some, h, h'], Or.inr (readable_eq_some.mpr h')⟩
    · exact absurd hop hdel
    · obtain ⟨m, rfl⟩ := (allReadable_iff.mp hall) src c hsrc
      exact ⟨m, by rw [readable_eq_some, h, h'], Or.inr (readable_eq_some.mpr h')⟩

/-- operations for which convergence of the repeated operation is proved -/
def rerunGuard : Op → Bool
  | .upload .. => true
  | .copy .. => true
  | .delete .. => true
  | _ => false

/-- **Fixed variant, clause 3 (partial: upload, copy, delete).**  Kill the operation anywhere, restart,
run it again: every manifest file is exactly what an uninterrupted run from the original store
leaves, and the result satisfies the invariant (every readable manifest's layers are present and hash
to their names).  For delete, "run it again" includes the case where it reports `not found`
(`ok = false`, no effects).  Not covered here: create (needs the client to re-upload blobs the
start-up prune removed and collision-freeness of `hash` for the recorded size) and pull (needs the
registry to serve every digest of the manifest again); for those the model's rerun prediction is
compared with the real rerun at every crash point (L1) and the clause is monitored on the real code (L2). -/
theorem rerun_converges_partial {hash : Bytes → Digest} {env : Env} (henv : EnvOK hash env)
    (hat : env.atomicMan = true) {st : Store} (hinv : Inv hash st) (op : Op) (hg : rerunGuard op = true)
    (p : List Effect) (hp : CrashPrefix (op.exec env st).effs p) :
    (∀ n, get (run (op.exec env (restartWith env (run p st))).effs (restartWith env (run p st))) (.man n) =
          get (run (op.exec env st).effs st) (.man n)) ∧
    Inv hash (run (op.exec env (restartWith env (run p st))).effs (restartWith env (run p st))) := by
  have hop : ∀ st', OpOK hash st' op := by intro st'; cases op <;> first | trivial | simp [rerunGuard] at hg
  have hcs := crash_safe henv hinv op (hop st) p hp
  refine ⟨?_, StoreCrash.seq_preserves_inv hcs.2.1 (exec_seqOK henv hcs.2.1 op (hop _))⟩
  generalize hst1 : restartWith env (run p st) = st1 at hcs ⊢
  -- each manifest file of the restarted store is the old one or the one of the completed operation
  have G : ∀ n, get st1 (.man n) = get st (.man n) ∨
      get st1 (.man n) = get (run (op.exec env st).effs st) (.man n) := by
    intro n; rw [← hst1]; exact atomic_manifest_old_or_new hat op st p hp n
  intro n'
  cases op with
  | upload k d body =>
    simp only [Op.exec] at G ⊢
    rw [upload_final, upload_final]
    rcases G n' with h | h
    · exact h
    · rw [h, upload_final]
  | copy src dst =>
    simp only [Op.exec] at G ⊢
    have Gs := G src
    rw [copy_final env hat] at Gs
    have hsrc : get st1 (.man src) = get st (.man src) := by
      by_cases hsd : src = dst
      · simpa [hsd] using Gs
      · have : ¬ (src ≠ dst ∧ src = dst ∧ (get st (.man src)).isSome = true) := fun h => hsd h.2.1
        simpa [this] using Gs
    have Gn := G n'
    rw [copy_final env hat] at Gn
    rw [copy_final env hat, copy_final env hat, hsrc]
    split
    · rfl
    · rename_i hc; simpa [hc] using Gn
  | delete n =>
    simp only [Op.exec] at G ⊢
    have Gn := G n'
    have Gd := G n
    rw [delete_final] at Gn Gd
    rw [delete_final, delete_final]
    by_cases hn : n' = n
    · subst hn
      cases hr : readable st n' with
      | some m =>
        simp only [hr, Option.isSome_some, and_self, ↓reduceIte] at Gd ⊢
        rcases Gd with h | h
        · have : readable st1 n' = some m := by
            rw [readable_eq_some, h]; exact readable_eq_some.mp hr
          simp [this]
        · have : readable st1 n' = none := by unfold readable; rw [h]
          simp [this, h]
      | none =>
        simp only [hr, Option.isSome_none, Bool.false_eq_true, false_and, ↓reduceIte, or_self] at Gd ⊢
        have : readable st1 n' = none := by
          unfold readable at hr ⊢; rw [Gd]; exact hr
        simp [this, Gd]
    · simp only [hn, and_false, ↓reduceIte, or_self] at Gn ⊢
      exact Gn
  | create n ups file datas cfg => simp [rerunGuard] at hg
  | pull reg n m => simp [rerunGuard] at hg

/-- **Fixed variant, clause 3 for pull (partial: guard = the repeated pull succeeds iff the
uninterrupted one does, e.g. the registry still serves the blobs).**  Then every manifest file after
the repeated pull equals the one after an uninterrupted pull from the original store. -/
theorem rerun_converges_pull_partial {env : Env} (hat : env.atomicMan = true)
    (reg : Digest → Option Bytes) (n : Name) (m : Man) (st : Store) (p : List Effect)
    (hp : CrashPrefix ((Op.pull reg n m).exec env st).effs p)
    (hok : ((Op.pull reg n m).exec env (restartWith env (run p st))).ok = ((Op.pull reg n m).exec env st).ok) :
    ∀ n', get (run ((Op.pull reg n m).exec env (restartWith env (run p st))).effs (restartWith env (run p st))) (.man n') =
          get (run ((Op.pull reg n m).exec env st).effs st) (.man n') := by
  intro n'
  have G := atomic_manifest_old_or_new hat (.pull reg n m) st p hp n'
  generalize restartWith env (run p st) = st1 at G hok ⊢
  simp only [Op.exec] at G hok ⊢
  rw [pull_final env hat] at G
  rw [pull_final env hat, pull_final env hat, hok]
  cases hc : ((pull env reg n m st).ok && decide (n' = n)) with
  | true => simp
  | false =>
    simp only [hc, cond_false, or_self] at G ⊢
    exact G

/-- **Fixed variant, clause 3 for pull at full strength (prune configuration).**  Store with the
invariant and all manifests readable, honest registry that serves every layer of the manifest,
consistent debris, the uninterrupted pull succeeds.  Kill the pull anywhere (any prefix, last data
write cut at any byte), run the start-up sequence, pull again: the repeated pull SUCCEEDS, every
manifest file is exactly what the uninterrupted pull leaves, and the result satisfies the invariant. -/
theorem rerun_converges_pull {hash : Bytes → Digest} {env : Env} (henv : EnvOK hash env)
    (hat : env.atomicMan = true) (hnp : env.noPrune = false) {st : Store} (hinv : Inv hash st)
    (hall : allReadable st = true) (reg : Digest → Option Bytes) (n : Name) (m : Man)
    (hreg : ∀ d data, reg d = some data → hash data = d)
    (htot : ∀ l ∈ m.all, (reg l.digest).isSome = true)
    (hpre : PullPre reg st (m.all.map Layer.digest))
    (hok : ((Op.pull reg n m).exec env st).ok = true)
    (p : List Effect) (hp : CrashPrefix ((Op.pull reg n m).exec env st).effs p) :
    ((Op.pull reg n m).exec env (restartWith env (run p st))).ok = true ∧
    (∀ n', get (run ((Op.pull reg n m).exec env (restartWith env (run p st))).effs (restartWith env (run p st))) (.man n') =
           get (run ((Op.pull reg n m).exec env st).effs st) (.man n')) ∧
    Inv hash (run ((Op.pull reg n m).exec env (restartWith env (run p st))).effs (restartWith env (run p st))) := by
  have hcs := crash_safe henv hinv (.pull reg n m) ⟨hreg, hpre⟩ p hp
  have hallp := atomic_never_torn_run hat (.pull reg n m) st hall p hp
  have hdeb : NoPullDebris (restartWith env (run p st)) := by
    unfold restartWith restart
    simp only [hnp, Bool.false_eq_true, ↓reduceIte, hallp]
    exact noDebris_prune _
  have hok1 : ((Op.pull reg n m).exec env (restartWith env (run p st))).ok = true :=
    pull_ok env henv.hash_eq henv.chunk_flatten reg hreg n m htot _ hcs.2.1 hdeb
  refine ⟨hok1, ?_, ?_⟩
  · exact rerun_converges_pull_partial hat reg n m st p hp (hok1.trans hok.symm)
  · exact StoreCrash.seq_preserves_inv hcs.2.1
      (exec_seqOK henv hcs.2.1 (.pull reg n m) (opOK_of_noDebris reg n m hreg hdeb))

/-- **What the start-up prune does to download debris.**  In the default configuration (no
`OLLAMA_NOPRUNE`), when every manifest parses, the start-up sequence leaves no `-partial` file, no
part record and no temp file in blobs/: whatever half-way state of the part bookkeeping a kill left
behind is cleared, so the repeated pull starts from scratch. -/
theorem prune_clears_partials {env : Env} (hnp : env.noPrune = false) (st : Store)
    (hall : allReadable st = true) :
    NoPullDebris (restartWith env st) ∧ ∀ k, get (restartWith env st) (.temp k) = none := by
  have h : restartWith env st = prune st := by
    unfold restartWith restart; simp [hnp, hall]
  rw [h]
  exact ⟨noDebris_prune st, fun k => by rw [get_prune]; simp [keepAtPrune]⟩

/-! ## witnesses of the defects the model shares with the code (F19) -/

def wHash : Bytes → Digest := fun bs => if bs = [1] then "d1" else if bs = [2] then "d2" else "x"
def wEnv : Env := { hash := wHash, chunk := fun bs => [bs], ord := id }   -- pinned variant
def wMan1 : Man := ⟨[], ⟨"d1", 1⟩⟩
def wMan2 : Man := ⟨[], ⟨"d2", 1⟩⟩
/-- two models a (layer d1) and c (layer d2) -/
def wStore : Store :=
  [(.blob "d1", .raw [1]), (.blob "d2", .raw [2]), (.man "a", .man wMan1), (.man "c", .man wMan2)]

/-- **F19a** (`CopyModel`, `WriteManifest`, `os.WriteFile` in `PullModel` truncate in place): a crash
between the truncating open and the write loses the model that was being REPLACED — `c` was
readable before `copy a c`, the operation was not completed, and `c` is unreadable after restart. -/
theorem F19a_replaced_model_lost :
    readable wStore "c" = some wMan2 ∧
    CrashPrefix ((Op.copy "a" "c").exec wEnv wStore).effs [Effect.mk (.man "c")] ∧
    readable (restart (run [Effect.mk (.man "c")] wStore)) "c" = none := by
  refine ⟨by decide, ⟨1, Or.inl (by decide)⟩, by decide⟩

/-- a store in which an earlier crash tore the manifest of `z` -/
def wStoreTorn : Store := (.man "z", .raw []) :: wStore
def wReg : Digest → Option Bytes := fun d => if d = "d2" then some [2] else none
def wPull : Op := .pull wReg "f" wMan2
/-- the store without blob d2 (so that pulling wMan2 has to download it) and with torn z -/
def wStoreTorn' : Store :=
  [(.man "z", .raw []), (.blob "d1", .raw [1]), (.man "a", .man wMan1)]

/-- **F19b**: with a torn manifest in the store the start-up prune is skipped; a pull that crashes
between the truncating open of a part record and its write leaves an empty `-partial-0`; the
repeated pull then fails in `readPart` without doing anything, and so does every later one
(restart changes nothing). -/
theorem F19b_torn_part_record_blocks_repull :
    Inv wHash wStoreTorn' ∧
    CrashPrefix (wPull.exec wEnv wStoreTorn').effs [Effect.mk (.part "d2" 0)] ∧
    (let st1 := restart (run [Effect.mk (.part "d2" 0)] wStoreTorn')
     (wPull.exec wEnv st1).ok = false ∧ (wPull.exec wEnv st1).effs = [] ∧ restart st1 = st1) := by
  refine ⟨⟨?_, ?_⟩, ⟨1, Or.inl (by decide)⟩, by decide⟩
  · intro d c h
    simp [wStoreTorn', StoreCrash.get] at h
    obtain ⟨hd, hc⟩ := h
    subst hd; subst hc
    exact ⟨[1], rfl, by decide⟩
  · intro n m hr l hl
    rw [readable_eq_some] at hr
    simp only [wStoreTorn', StoreCrash.get] at hr
    by_cases hz : Path.man "z" = Path.man n
    · simp [hz] at hr
    · simp only [hz, ↓reduceIte, reduceCtorEq] at hr
      by_cases ha : Path.man "a" = Path.man n
      · simp only [ha, ↓reduceIte] at hr
        injection hr with hr; injection hr with hr; subst hr
        simp only [wMan1, Man.all, List.nil_append, List.mem_singleton] at hl
        subst hl; decide
      · simp [ha] at hr

/-! ## the hypotheses are satisfiable by a non-trivial value -/

example : EnvOK wHash wEnv := ⟨rfl, fun bs => by simp [wEnv], fun _ _ h => h⟩

example : OpOK wHash wStoreTorn' wPull := by
  show OpOK wHash wStoreTorn' (.pull wReg "f" wMan2)
  apply opOK_of_noDebris
  · intro d data h
    simp only [wReg] at h
    split at h
    · injection h with h; subst h; rename_i hd; subst hd; decide
    · cases h
  · intro d
    refine ⟨?_, fun k => ?_⟩ <;>
    · simp [wStoreTorn', StoreCrash.get]

/-- and the pull of the example really has effects (a download, a manifest write) -/
example : (wPull.exec wEnv wStoreTorn').effs.length = 11 ∧ (wPull.exec wEnv wStoreTorn').ok = true := by decide

/-- the fixed variant of the environment, and a store on which `rerun_converges_pull` applies:
its hypotheses are satisfiable by a pull that really downloads (fixed variant: 17 effects) -/
def wEnvA : Env := { wEnv with atomicMan := true, atomicPart := true }
def wStoreA : Store := [(.blob "d1", .raw [1]), (.man "a", .man wMan1)]

example : EnvOK wHash wEnvA := ⟨rfl, fun bs => by simp [wEnvA, wEnv], fun _ _ h => h⟩

theorem wStoreA_inv : Inv wHash wStoreA := by
  refine ⟨?_, ?_⟩
  · intro d c h
    simp [wStoreA, StoreCrash.get] at h
    obtain ⟨hd, hc⟩ := h
    subst hd; subst hc
    exact ⟨[1], rfl, by decide⟩
  · intro n m hr l hl
    rw [readable_eq_some] at hr
    simp only [wStoreA, StoreCrash.get, reduceCtorEq, ↓reduceIte] at hr
    by_cases ha : Path.man "a" = Path.man n
    · simp only [ha, ↓reduceIte] at hr
      injection hr with hr; injection hr with hr; subst hr
      simp only [wMan1, Man.all, List.nil_append, List.mem_singleton] at hl
      subst hl; decide
    · simp [ha] at hr

example : Inv wHash wStoreA ∧ allReadable wStoreA = true ∧ NoPullDebris wStoreA ∧
    (∀ l ∈ wMan2.all, (wReg l.digest).isSome = true) ∧
    (wPull.exec wEnvA wStoreA).ok = true ∧ (wPull.exec wEnvA wStoreA).effs.length = 17 := by
  refine ⟨wStoreA_inv, by decide, ?_, by decide, by decide, by decide⟩
  intro d
  refine ⟨?_, fun k => ?_⟩ <;>
  · simp [wStoreA, StoreCrash.get]

/-- **F26** (`Manifests()` builds its glob pattern from the models path): with a `[` in the path the
lister sees no manifest and reports no error; the start-up prune of ANY restart — hence of the one
after a crash — then removes every blob, while model `a` still resolves by name: the invariant is
lost although the store satisfied it.  (All theorems above are about stores whose models path has no
glob metacharacter, where the lister and name-based resolution agree.) -/
theorem F26_blind_lister_prunes_every_blob :
    Inv wHash wStoreA ∧
    readable (pruneBlind wStoreA) "a" = some wMan1 ∧
    get (pruneBlind wStoreA) (.blob "d1") = none ∧
    ¬ NameInv wHash (pruneBlind wStoreA) := by
  refine ⟨wStoreA_inv, by decide, by decide, ?_⟩
  intro h
  obtain ⟨bs, hb, _⟩ := h "a" wMan1 (by decide) ⟨"d1", 1⟩ (by decide)
  have : get (pruneBlind wStoreA) (.blob "d1") = none := by decide
  rw [this] at hb; cases hb

/-! ## Round 7 — every history: the debris hypothesis is discharged, not assumed

`world d` = the bytes behind digest `d` (what every honest registry serves for it).  `Reach env world st`
= `st` is reachable from the empty store by ANY sequence of operations, each run to ANY crash prefix
of its effect list (the complete list included; last data write cut at any byte), and start-up
sequences, the registry of each pull serving a part of `world` (`OpW`).  No hypothesis on debris, on
readability of manifests or on the configuration. -/

/-- Every reachable store satisfies the store invariant and has consistent download debris (and, with
the fixed `writePart`, no torn part record): `PullPre` — the named hypothesis of `crash_safe` for pull —
holds in every state the server can be in. -/
theorem reach_inv {hash : Bytes → Digest} {env : Env} {world : Digest → Option Bytes} (henv : EnvOK hash env)
    (hworld : ∀ d data, world d = some data → hash data = d) {st : Store} (h : Reach env world st) :
    Inv hash st ∧ DebInv env.atomicPart world st := by
  refine ⟨?_, reach_debInv henv.chunk_flatten h⟩
  induction h with
  | init => exact ⟨fun d c hg => (by cases hg), fun n m hr => (by simp [readable, StoreCrash.get] at hr)⟩
  | @crash st op p hr hop hp ih =>
    have hdeb := reach_debInv henv.chunk_flatten hr
    have hopOK : OpOK hash st op := by
      cases op with
      | pull reg n m => exact ⟨fun d data h => hworld d data (hop d data h), hdeb.1.pullPre reg hop _⟩
      | upload k d body => trivial
      | create n ups file datas cfg => trivial
      | copy src dst => trivial
      | delete n => trivial
    exact StoreCrash.seq_preserves_inv ih (seqOK_crashPrefix (exec_seqOK henv ih op hopOK) hp)
  | restart _ ih => exact StoreCrash.restartWith_preserves_inv env ih

theorem opOK_of_reach {hash : Bytes → Digest} {env : Env} {world : Digest → Option Bytes} (henv : EnvOK hash env)
    (hworld : ∀ d data, world d = some data → hash data = d) {st : Store} (h : Reach env world st)
    (op : Op) (hop : OpW world op) : OpOK hash st op := by
  have hdeb := (reach_inv henv hworld h).2
  cases op with
  | pull reg n m => exact ⟨fun d data h => hworld d data (hop d data h), hdeb.1.pullPre reg hop _⟩
  | upload k d body => trivial
  | create n ups file datas cfg => trivial
  | copy src dst => trivial
  | delete n => trivial

/-- **C12, clauses 1 and 2, for every history.**  From ANY reachable store (any earlier crashes, any
debris they left, torn manifests in the pinned variant), every operation, every crash prefix: after the
start-up sequence every readable manifest has all layers present and hashing to their names, and
uninvolved names keep their manifest and blobs.  No `PullPre`/`OpOK` hypothesis. -/
theorem crash_safe_reachable {hash : Bytes → Digest} {env : Env} {world : Digest → Option Bytes}
    (henv : EnvOK hash env) (hworld : ∀ d data, world d = some data → hash data = d)
    {st : Store} (hr : Reach env world st) (op : Op) (hop : OpW world op) (p : List Effect)
    (hp : CrashPrefix (op.exec env st).effs p) :
    NameInv hash (restartWith env (run p st)) ∧
    Inv hash (restartWith env (run p st)) ∧
    (∀ n, n ∉ op.involved → Untouched n st (restartWith env (run p st))) ∧
    Reach env world (restartWith env (run p st)) :=
  have h := crash_safe henv (reach_inv henv hworld hr).1 op (opOK_of_reach henv hworld hr op hop) p hp
  ⟨h.1, h.2.1, h.2.2, .restart (.crash op p hr hop hp)⟩

/-- fixed manifest writes: no reachable store has a torn manifest -/
theorem reach_allReadable {env : Env} {world : Digest → Option Bytes} (hat : env.atomicMan = true)
    {st : Store} (h : Reach env world st) : allReadable st = true := by
  induction h with
  | init => rfl
  | @crash st op p _ _ hp ih => exact atomic_never_torn_run hat op st ih p hp
  | @restart st _ ih =>
    rw [allReadable_iff] at ih ⊢
    intro n c hg
    rw [(StoreCrash.restartWith_untouched env n st).1] at hg
    exact ih n c hg

/-- **Fixed variant: from every reachable store a pull succeeds** (honest registry serving every layer
of the manifest) — whatever earlier crashes left behind, with or without `OLLAMA_NOPRUNE`. -/
theorem pull_succeeds_reachable {hash : Bytes → Digest} {env : Env} {world : Digest → Option Bytes}
    (henv : EnvOK hash env) (hworld : ∀ d data, world d = some data → hash data = d)
    (hap : env.atomicPart = true) {st : Store} (hr : Reach env world st)
    (reg : Digest → Option Bytes) (hsub : ∀ d data, reg d = some data → world d = some data)
    (n : Name) (m : Man) (htot : ∀ l ∈ m.all, (reg l.digest).isSome = true) :
    ((Op.pull reg n m).exec env st).ok = true := by
  have h := reach_inv henv hworld hr
  rw [hap] at h
  exact pull_ok_whole env henv.hash_eq hap henv.chunk_flatten reg
    (fun d data hd => hworld d data (hsub d data hd)) hsub n m htot st h.1 h.2

/-- **C12, clause 3 for pull, every history, both start-up configurations (fixed variant).**  From any
reachable store: kill the pull anywhere, run the start-up sequence (prune or `OLLAMA_NOPRUNE`), pull
again: the repeated pull SUCCEEDS, every manifest file is what the uninterrupted pull leaves, the
invariant holds.  (Replaces the hypotheses `noPrune = false`, `allReadable`, `PullPre`, "the
uninterrupted pull succeeds" of `rerun_converges_pull`.) -/
theorem rerun_converges_pull_reachable {hash : Bytes → Digest} {env : Env} {world : Digest → Option Bytes}
    (henv : EnvOK hash env) (hworld : ∀ d data, world d = some data → hash data = d)
    (hat : env.atomicMan = true) (hap : env.atomicPart = true) {st : Store} (hr : Reach env world st)
    (reg : Digest → Option Bytes) (hsub : ∀ d data, reg d = some data → world d = some data)
    (n : Name) (m : Man) (htot : ∀ l ∈ m.all, (reg l.digest).isSome = true)
    (p : List Effect) (hp : CrashPrefix ((Op.pull reg n m).exec env st).effs p) :
    ((Op.pull reg n m).exec env (restartWith env (run p st))).ok = true ∧
    (∀ n', get (run ((Op.pull reg n m).exec env (restartWith env (run p st))).effs (restartWith env (run p st))) (.man n') =
           get (run ((Op.pull reg n m).exec env st).effs st) (.man n')) ∧
    Inv hash (run ((Op.pull reg n m).exec env (restartWith env (run p st))).effs (restartWith env (run p st))) := by
  have hr1 : Reach env world (restartWith env (run p st)) := .restart (.crash (.pull reg n m) p hr hsub hp)
  have hok0 := pull_succeeds_reachable henv hworld hap hr reg hsub n m htot
  have hok1 := pull_succeeds_reachable henv hworld hap hr1 reg hsub n m htot
  refine ⟨hok1, rerun_converges_pull_partial hat reg n m st p hp (hok1.trans hok0.symm), ?_⟩
  have hr2 : Reach env world (run ((Op.pull reg n m).exec env (restartWith env (run p st))).effs (restartWith env (run p st))) :=
    .crash (.pull reg n m) _ hr1 hsub ⟨((Op.pull reg n m).exec env (restartWith env (run p st))).effs.length, Or.inl (by simp)⟩
  exact (reach_inv henv hworld hr2).1

/-! ### the new hypotheses are satisfiable by a non-trivial value -/

theorem crashPrefix_full (es : List Effect) : CrashPrefix es es := ⟨es.length, Or.inl (by simp)⟩

theorem wReg_honest : ∀ d data, wReg d = some data → wHash data = d := by
  intro d data h
  simp only [wReg] at h
  split at h
  · injection h with h; subst h; rename_i hd; subst hd; decide
  · cases h

/-- a history: upload blob d1, "pull" model a whose only layer is already there, then `pull f` (which has
to download d2) killed after its 9th effect -/
def wH1 : Store := run ((Op.upload 0 "d1" [1]).exec wEnvA []).effs []
def wH2 : Store := run ((Op.pull (fun _ => none) "a" wMan1).exec wEnvA wH1).effs wH1
def wH3 : Store := run ((wPull.exec wEnvA wH2).effs.take 9) wH2

theorem wH2_reach : Reach wEnvA wReg wH2 :=
  .crash (.pull (fun _ => none) "a" wMan1) _
    (.crash (.upload 0 "d1" [1]) _ .init trivial (crashPrefix_full _))
    (fun _ _ h => by cases h) (crashPrefix_full _)

theorem wH3_reach : Reach wEnvA wReg wH3 :=
  .crash wPull _ wH2_reach (fun _ _ h => h) ⟨9, Or.inl rfl⟩

/-- the reachable store `wH3` really has debris: model a is readable, the part record of d2 says
`Completed = 0` of 1 byte while the `-partial` file already holds that byte; the pull from there RESUMES (13 effects
instead of the 17 of a fresh pull) and succeeds — an instance of `pull_succeeds_reachable` /
`rerun_converges_pull_reachable` under `OLLAMA_NOPRUNE`-like conditions (nothing pruned) -/
example : readable wH3 "a" = some wMan1 ∧
    get wH3 (.part "d2" 0) = some (.prec ⟨0, 0, 1, 0⟩) ∧ get wH3 (.pfile "d2") = some (.raw [2]) ∧
    (wPull.exec wEnvA wH3).ok = true ∧ (wPull.exec wEnvA wH3).effs.length = 13 ∧
    (wPull.exec wEnvA wH2).effs.length = 17 := by decide

example : ((Op.pull wReg "f" wMan2).exec wEnvA wH3).ok = true :=
  pull_succeeds_reachable (hash := wHash) ⟨rfl, fun bs => by simp [wEnvA, wEnv], fun _ _ h => h⟩ wReg_honest rfl
    wH3_reach wReg (fun _ _ h => h) "f" wMan2 (by decide)

/-! ## F27 — a registry that serves damaged bytes once (outside the honest-registry hypothesis of the theorems)

The model covers it (`reg` maps the digest to the damaged bytes: download, rename into place, failed
`verifyBlob`, removal), and since round 7 the damaged-registry pulls of the driver are compared with it by
exact L1 (effects, crash states, states after start-up).  The two known findings are Lean-checked
witnesses here. -/

/-- a registry (a bad CDN node) that serves one wrong byte for d2 -/
def wRegBad : Digest → Option Bytes := fun d => if d = "d2" then some [9] else none
def wPullBad : Op := .pull wRegBad "f" wMan2
/-- fixed variant, `OLLAMA_NOPRUNE` -/
def wEnvN : Env := { wEnvA with noPrune := true }

/-- the uninterrupted damaged pull is harmless: it fails and leaves no blob d2 behind -/
theorem F27_uninterrupted_damaged_pull_fails_cleanly :
    (wPullBad.exec wEnvN wStoreA).ok = false ∧
    get (run (wPullBad.exec wEnvN wStoreA).effs wStoreA) (.blob "d2") = none := by decide

/-- two fresh layers, the FIRST one damaged: the pull stops at the failed verification of d2 (the tree
verifies each layer right after its download) — nothing of d3 is fetched -/
def wRegBad2 : Digest → Option Bytes := fun d => if d = "d2" then some [9] else if d = "d3" then some [3] else none
theorem F27_damaged_pull_stops_at_first_mismatch :
    ((Op.pull wRegBad2 "f" ⟨[⟨"d2", 1⟩], ⟨"d3", 1⟩⟩).exec wEnvN wStoreA).ok = false ∧
    ((Op.pull wRegBad2 "f" ⟨[⟨"d2", 1⟩], ⟨"d3", 1⟩⟩).exec wEnvN wStoreA).effs = (wPullBad.exec wEnvN wStoreA).effs := by
  decide

/-- **F27b** (`download.run` renames `-partial` to the blob name BEFORE `verifyBlob`): kill the damaged
pull between the rename and the removal that follows the failed verification (13 of its 14 effects); no
start-up prune; the repeated pull — honest registry — takes the damaged blob as a cache hit, reports
SUCCESS, and model f is readable with a layer whose bytes do not hash to its name. -/
theorem F27b_damaged_blob_becomes_cache_hit :
    CrashPrefix (wPullBad.exec wEnvN wStoreA).effs ((wPullBad.exec wEnvN wStoreA).effs.take 13) ∧
    (let st1 := restartWith wEnvN (run ((wPullBad.exec wEnvN wStoreA).effs.take 13) wStoreA)
     (wPull.exec wEnvN st1).ok = true ∧
     readable (run (wPull.exec wEnvN st1).effs st1) "f" = some wMan2 ∧
     get (run (wPull.exec wEnvN st1).effs st1) (.blob "d2") = some (.raw [9]) ∧ wHash [9] ≠ "d2") := by
  refine ⟨⟨13, Or.inl rfl⟩, by decide⟩

/-- **F27a** (resume trusts bytes that were never verified): kill the damaged pull after the part record
that says `Completed = Size` is in place and before the record is removed (11 effects); no start-up prune;
the repeated pull — honest registry — resumes from the record, renames the damaged bytes into place and
FAILS in the verification; the pull after that one succeeds with the right bytes. -/
theorem F27a_resume_trusts_unverified_bytes :
    CrashPrefix (wPullBad.exec wEnvN wStoreA).effs ((wPullBad.exec wEnvN wStoreA).effs.take 11) ∧
    (let st1 := restartWith wEnvN (run ((wPullBad.exec wEnvN wStoreA).effs.take 11) wStoreA)
     let st2 := restartWith wEnvN (run (wPull.exec wEnvN st1).effs st1)
     get st1 (.part "d2" 0) = some (.prec ⟨0, 0, 1, 1⟩) ∧ get st1 (.pfile "d2") = some (.raw [9]) ∧
     (wPull.exec wEnvN st1).ok = false ∧
     (wPull.exec wEnvN st2).ok = true ∧
     get (run (wPull.exec wEnvN st2).effs st2) (.blob "d2") = some (.raw [2])) := by
  refine ⟨⟨11, Or.inl rfl⟩, by decide⟩



/-! ## Round 7 — the `.ok` half of clause 3 for upload / copy / delete, and the blob an upload is about -/

theorem upload_ok (env : Env) (k : Nat) (d : Digest) (body : Bytes) (st : Store) :
    (upload env k d body st).ok = true := by
  unfold upload; split
  · rfl
  · unfold newLayer; dsimp only; split <;> rfl

/-- an honest client's upload ends with the blob in place (already there, or moved into place) -/
theorem upload_present {hash : Bytes → Digest} {env : Env} (henv : EnvOK hash env) (k : Nat) (d : Digest)
    (body : Bytes) (hd : hash body = d) (st : Store) :
    present (run (upload env k d body st).effs st) (.blob d) = true := by
  unfold upload; split
  · rename_i h; simpa [run] using h
  · have := (newLayer_spec env henv.hash_eq k (env.chunk body) st).2.2.1
    rw [henv.chunk_flatten, hd] at this
    exact this

/-- **Clause 3, "succeeds (or reports that it already took effect)", for upload / copy / delete (fixed
variant).**  If the uninterrupted operation succeeds, then after any crash of it and the start-up
sequence the repeated operation succeeds — or it is a delete whose manifest is already gone (the
handler answers "not found": the deletion took effect). -/
theorem rerun_ok_partial {env : Env} (hat : env.atomicMan = true) (st : Store) (op : Op)
    (hg : rerunGuard op = true) (hok : (op.exec env st).ok = true)
    (p : List Effect) (hp : CrashPrefix (op.exec env st).effs p) :
    (op.exec env (restartWith env (run p st))).ok = true ∨
    ∃ n, op = .delete n ∧ get (restartWith env (run p st)) (.man n) = none := by
  have G := fun n => atomic_manifest_old_or_new hat op st p hp n
  generalize restartWith env (run p st) = st1 at G ⊢
  cases op with
  | upload k d body => exact Or.inl (upload_ok env k d body st1)
  | copy src dst =>
    left
    simp only [Op.exec] at G hok ⊢
    unfold copy at hok ⊢
    by_cases hsd : src = dst
    · simp [hsd]
    · simp only [hsd, ↓reduceIte] at hok ⊢
      have Gs := G src
      rw [copy_final env hat] at Gs
      have hsrc : get st1 (.man src) = get st (.man src) := by
        have : ¬ (src ≠ dst ∧ src = dst ∧ (get st (.man src)).isSome = true) := fun h => hsd h.2.1
        simpa [this] using Gs
      rw [hsrc]
      cases hs : get st (.man src) with
      | none => simp [hs] at hok
      | some c => simp only []; split <;> rfl
  | delete n =>
    simp only [Op.exec] at G hok ⊢
    have Gn := G n
    rw [delete_final] at Gn
    unfold delete at hok ⊢
    cases hr : readable st n with
    | none => simp [hr] at hok
    | some m =>
      simp only [hr, Option.isSome_some, and_self, ↓reduceIte] at Gn
      rcases Gn with h | h
      · left
        have : readable st1 n = some m := by rw [readable_eq_some, h]; exact readable_eq_some.mp hr
        simp only [this]
        rw [andThen_ok]
        have hrl : ∀ ds st', (removeLayers ds st').ok = true := by
          intro ds
          induction ds with
          | nil => intro st'; rfl
          | cons d rest ih =>
            intro st'
            simp only [removeLayers]
            rw [andThen_ok]
            have : (layerRemove d st').ok = true := by unfold layerRemove; split <;> rfl
            rw [this, ih]; rfl
        rw [hrl]; rfl
      · right; exact ⟨n, rfl, h⟩
  | create n ups file datas cfg => simp [rerunGuard] at hg
  | pull reg n m => simp [rerunGuard] at hg

/-- **Clause 3 for upload, about the blob.**  Honest client (`hash body = d`): kill the upload anywhere,
run the start-up sequence (which may prune the unreferenced blob or the temp file), upload again: the
repeated upload succeeds and blob `d` is present with bytes that hash to `d` — as after the
uninterrupted upload. -/
theorem rerun_converges_upload {hash : Bytes → Digest} {env : Env} (henv : EnvOK hash env) {st : Store}
    (hinv : Inv hash st) (k : Nat) (d : Digest) (body : Bytes) (hd : hash body = d)
    (p : List Effect) (hp : CrashPrefix ((Op.upload k d body).exec env st).effs p) :
    let st1 := restartWith env (run p st)
    ((Op.upload k d body).exec env st1).ok = true ∧
    (∃ bs, get (run ((Op.upload k d body).exec env st1).effs st1) (.blob d) = some (.raw bs) ∧ hash bs = d) ∧
    (∃ bs, get (run ((Op.upload k d body).exec env st).effs st) (.blob d) = some (.raw bs) ∧ hash bs = d) := by
  intro st1
  have hcs := crash_safe henv hinv (.upload k d body) trivial p hp
  have key : ∀ s, Inv hash s → ∃ bs, get (run (upload env k d body s).effs s) (.blob d) = some (.raw bs) ∧ hash bs = d := by
    intro s hs
    have hp := upload_present henv k d body hd s
    have hinv' := StoreCrash.seq_preserves_inv hs (upload_spec env henv.hash_eq k d body s).1
    unfold present at hp
    cases hg : get (run (upload env k d body s).effs s) (.blob d) with
    | none => simp [hg] at hp
    | some c =>
      obtain ⟨bs, rfl, hh⟩ := hinv'.1 d c hg
      exact ⟨bs, rfl, hh⟩
  exact ⟨upload_ok env k d body st1, key st1 hcs.2.1, key st hinv⟩

example : ∃ p, CrashPrefix ((Op.upload 0 "d2" [2]).exec wEnvA wStoreA).effs p ∧ p.length = 2 ∧
    get (restartWith wEnvA (run p wStoreA)) (.temp 0) = none :=
  ⟨_, ⟨2, Or.inl rfl⟩, by decide, by decide⟩



/-! ## Round 7 — clause 4 for BLOBS (delete, prune configuration) -/

/-- every blob file is named by some readable manifest: the state of blobs/ after a start-up that pruned
(and before any upload that is not yet part of a model) -/
def AllReferenced (st : Store) : Prop := ∀ d, (get st (.blob d)).isSome = true → referenced st d = true

theorem layerRemove_ok (d : Digest) (st : Store) : (layerRemove d st).ok = true := by
  unfold layerRemove; split <;> rfl

theorem removeLayers_ok (ds : List Digest) (st : Store) : (removeLayers ds st).ok = true := by
  induction ds generalizing st with
  | nil => rfl
  | cons d rest ih => simp only [removeLayers]; rw [andThen_ok, layerRemove_ok, ih]; rfl

theorem noMan_layerRemove (d : Digest) (st : Store) : NoMan (layerRemove d st).effs := by
  unfold layerRemove; split
  · exact noMan_nil
  · intro e he n' hw; simp at he; subst he; simp [writes] at hw

/-- `RemoveLayers` only ever unlinks blobs that no readable manifest names -/
theorem removeLayers_shape (ds : List Digest) (s : Store) :
    ∀ e ∈ (removeLayers ds s).effs, ∃ x, e = .rm (.blob x) ∧ x ∈ ds ∧ referenced s x = false := by
  induction ds generalizing s with
  | nil => intro e he; simp [removeLayers] at he
  | cons d rest ih =>
    intro e he
    simp only [removeLayers] at he
    rw [andThen_effs, layerRemove_ok] at he
    simp only [↓reduceIte, List.mem_append] at he
    rcases he with he | he
    · unfold layerRemove at he
      split at he
      · simp at he
      · rename_i hc
        simp at he; subst he
        refine ⟨d, rfl, by simp, ?_⟩
        cases h : referenced s d <;> simp_all
    · obtain ⟨x, rfl, hx, hr⟩ := ih _ e he
      refine ⟨x, rfl, List.mem_cons_of_mem _ hx, ?_⟩
      rw [← hr]
      exact (referenced_congr (fun n => noMan_get (noMan_layerRemove d s) n) x).symm

/-- exact effect of `RemoveLayers` on blobs/: of the listed digests, those no readable manifest names are gone -/
theorem get_run_removeLayers (ds : List Digest) (s : Store) (d : Digest) :
    get (run (removeLayers ds s).effs s) (.blob d) =
      if d ∈ ds ∧ referenced s d = false then none else get s (.blob d) := by
  induction ds generalizing s with
  | nil => simp [removeLayers, run]
  | cons x rest ih =>
    simp only [removeLayers]
    rw [run_andThen, layerRemove_ok]
    simp only [↓reduceIte]
    rw [ih]
    have href : referenced (run (layerRemove x s).effs s) d = referenced s d :=
      referenced_congr (fun n => noMan_get (noMan_layerRemove x s) n) d
    rw [href]
    have hget : get (run (layerRemove x s).effs s) (.blob d) =
        if d = x ∧ referenced s x = false then none else get s (.blob d) := by
      unfold layerRemove
      by_cases hc : (referenced s x || !present s (.blob x)) = true
      · simp only [hc, ↓reduceIte, run]
        by_cases hdx : d = x
        · subst hdx
          cases hr : referenced s d with
          | true => simp
          | false =>
            simp only [hr, Bool.false_or, Bool.not_eq_true'] at hc
            simp [present_false_get (by simpa using hc)]
        · simp [hdx]
      · simp only [hc, Bool.false_eq_true, ↓reduceIte, run, apply, get_del]
        have hr : referenced s x = false := by
          cases h : referenced s x <;> simp_all
        by_cases hdx : d = x
        · subst hdx; simp [hr]
        · have : Path.blob d ≠ Path.blob x := fun h => hdx (by injection h)
          simp [hdx, this]
    rw [hget]
    by_cases hdx : d = x
    · subst hdx
      cases hr : referenced s d <;> simp
    · simp [hdx]

/-- unlinking blobs that no readable manifest names leaves every manifest and every named blob alone -/
theorem run_unreferenced_rms (P : Digest → Prop) (q : List Effect) (s : Store)
    (hq : ∀ e ∈ q, ∃ x, e = .rm (.blob x) ∧ P x) :
    (∀ n, get (run q s) (.man n) = get s (.man n)) ∧
    (∀ d, ¬ P d → get (run q s) (.blob d) = get s (.blob d)) := by
  induction q generalizing s with
  | nil => exact ⟨fun _ => rfl, fun _ _ => rfl⟩
  | cons e q ih =>
    obtain ⟨x, rfl, hx⟩ := hq e (by simp)
    have := ih (apply (.rm (.blob x)) s) (fun e he => hq e (by simp [he]))
    refine ⟨fun n => ?_, fun d hd => ?_⟩
    · simp only [run]; rw [this.1, get_apply_of_not_written (by simp [writes])]
    · simp only [run]; rw [this.2 d hd, get_apply_of_not_written (by simp [writes]; intro h; subst h; exact hd hx)]

theorem delete_blob_final (n : Name) (s : Store) (m : Man) (hr : readable s n = some m) (d : Digest) :
    get (run (delete n s).effs s) (.blob d) =
      if d ∈ m.all.map Layer.digest ∧ referenced (apply (.rm (.man n)) s) d = false then none else get s (.blob d) := by
  unfold delete
  simp only [hr, run_andThen, ↓reduceIte]
  rw [get_run_removeLayers]
  simp only [run]
  rw [get_apply_of_not_written (by simp [writes])]
  rfl

theorem get_rm_man (n n' : Name) (s : Store) :
    get (apply (.rm (.man n)) s) (.man n') = if n' = n then none else get s (.man n') := by
  by_cases h : n' = n
  · subst h; simp [apply, get_del]
  · have : Path.man n' ≠ Path.man n := fun e => h (by injection e)
    simp [apply, get_del, h, this]

theorem get_prune_blob (st : Store) (d : Digest) :
    get (prune st) (.blob d) = if referenced st d = true then get st (.blob d) else none := by
  rw [get_prune]; rfl

theorem get_prune_of_allReferenced {st : Store} (h : AllReferenced st) (d : Digest) :
    get (prune st) (.blob d) = get st (.blob d) := by
  rw [get_prune]
  cases hg : get st (.blob d) with
  | none => split <;> rfl
  | some c =>
    have hk : keepAtPrune st (.blob d) = true := h d (by simp [hg])
    rw [hk]; rfl

/-- **Clause 4 for blobs, delete, default configuration.**  Store with the invariant in which every blob
is named by a readable manifest (the state after any start-up that pruned).  Kill the deletion anywhere,
run the start-up sequence, delete again (it may answer "not found"): blobs/ holds exactly the blobs the
uninterrupted deletion leaves — the layers only the deleted model used are gone, everything else is
untouched, byte for byte. -/
theorem rerun_converges_delete_blobs {env : Env} (hat : env.atomicMan = true) (hnp : env.noPrune = false)
    {st : Store} (hall : allReadable st = true) (href : AllReferenced st)
    (n : Name) (p : List Effect) (hp : CrashPrefix ((Op.delete n).exec env st).effs p) (d : Digest) :
    get (run ((Op.delete n).exec env (restartWith env (run p st))).effs (restartWith env (run p st))) (.blob d) =
    get (run ((Op.delete n).exec env st).effs st) (.blob d) := by
  have hallp := atomic_never_torn_run hat (.delete n) st hall p hp
  have hst1 : restartWith env (run p st) = prune (run p st) := by
    unfold restartWith restart; simp [hnp, hallp]
  rw [hst1]
  simp only [Op.exec] at hp ⊢
  cases hr : readable st n with
  | none =>
    have he : (delete n st).effs = [] := by unfold delete; simp [hr]
    rw [he] at hp ⊢
    have hpnil : p = [] := by
      obtain ⟨k, h | ⟨e, e', hk, _, _⟩⟩ := hp
      · simpa using h
      · simp at hk
    subst hpnil
    simp only [run]
    have : (delete n (prune st)).effs = [] := by unfold delete; simp [readable_prune, hr]
    rw [this]; simp only [run]
    exact get_prune_of_allReferenced href d
  | some m =>
    rw [delete_blob_final n st m hr]
    have heffs : (delete n st).effs = Effect.rm (.man n) :: (removeLayers (m.all.map Layer.digest) (apply (.rm (.man n)) st)).effs := by
      unfold delete; simp [hr, andThen_effs, run]
    generalize hs0 : apply (Effect.rm (.man n)) st = s0 at heffs ⊢
    have hshape := removeLayers_shape (m.all.map Layer.digest) s0
    generalize hRL : (removeLayers (m.all.map Layer.digest) s0).effs = RL at heffs hshape
    rw [heffs] at hp
    have hs0blob : ∀ x, get s0 (.blob x) = get st (.blob x) := fun x => by
      rw [← hs0]; exact get_apply_of_not_written (by simp [writes])
    have hs0man : ∀ n', get s0 (.man n') = if n' = n then none else get st (.man n') := fun n' => by
      rw [← hs0]; exact get_rm_man n n' st
    -- the crash prefix is a plain prefix: nothing in a deletion is a cuttable write
    have hplain : ∃ k, p = (Effect.rm (.man n) :: RL).take k := by
      obtain ⟨k, hk | ⟨e, e', hk, hc, _⟩⟩ := hp
      · exact ⟨k, hk⟩
      · exfalso
        have hmem := List.mem_of_getElem? hk
        rcases List.mem_cons.mp hmem with h | h
        · subst h; cases hc
        · obtain ⟨x, rfl, _⟩ := hshape e h; cases hc
    obtain ⟨k, hk⟩ := hplain
    subst hk
    cases k with
    | zero =>
      simp only [List.take_zero, run]
      rw [delete_blob_final n (prune st) m (by rw [readable_prune]; exact hr), get_prune_of_allReferenced href]
      have : referenced (apply (.rm (.man n)) (prune st)) d = referenced s0 d := by
        apply referenced_congr
        intro n'
        rw [hs0man, get_rm_man, get_prune]; simp [keepAtPrune]
      rw [this]
    | succ k =>
      simp only [List.take_succ_cons, run, hs0]
      have hq : ∀ e ∈ RL.take k, ∃ x, e = Effect.rm (.blob x) ∧ (x ∈ m.all.map Layer.digest ∧ referenced s0 x = false) :=
        fun e he => hshape e (List.mem_of_mem_take he)
      have hrun := run_unreferenced_rms _ (RL.take k) s0 hq
      generalize run (RL.take k) s0 = sc at hrun
      -- the name is gone: the repeated deletion answers "not found" and does nothing
      have hgone : readable (prune sc) n = none := by
        rw [readable_prune]; unfold readable; rw [hrun.1, hs0man]; simp
      have : (delete n (prune sc)).effs = [] := by unfold delete; simp [hgone]
      rw [this]; simp only [run]
      rw [get_prune_blob]
      have href' : referenced sc d = referenced s0 d := referenced_congr hrun.1 d
      rw [href']
      cases hrd : referenced s0 d with
      | true =>
        simp only [↓reduceIte, Bool.true_eq_false, and_false]
        rw [hrun.2 d (by simp [hrd]), hs0blob]
      | false =>
        simp only [Bool.false_eq_true, ↓reduceIte, and_true]
        split
        · rfl
        · rename_i hnm
          -- not a layer of the deleted model and named by nobody else: it was not there in the first place
          cases hg : get st (.blob d) with
          | none => rfl
          | some c =>
            exfalso
            obtain ⟨n', m', hr', l, hl, hld⟩ := referenced_iff.mp (href d (by simp [hg]))
            by_cases hn : n' = n
            · subst hn
              rw [hr] at hr'; injection hr' with hr'; subst hr'
              exact hnm (List.mem_map.mpr ⟨l, hl, hld⟩)
            · have : referenced s0 d = true := by
                apply referenced_iff.mpr
                refine ⟨n', m', ?_, l, hl, hld⟩
                rw [readable_eq_some, hs0man]; simp only [hn, ↓reduceIte]
                exact readable_eq_some.mp hr'
              simp [hrd] at this

/-- **…and the clause is FALSE under `OLLAMA_NOPRUNE`** (genuine, small): kill the deletion of c between the
unlink of its manifest and the unlink of its layer; nothing prunes; the repeated deletion answers "not
found" and does nothing: blob d2 stays for ever, while the uninterrupted deletion removes it. -/
theorem F28_noprune_killed_delete_leaks_blobs :
    let envN : Env := { wEnvA with noPrune := true }
    let p := ((Op.delete "c").exec envN wStore).effs.take 1
    CrashPrefix ((Op.delete "c").exec envN wStore).effs p ∧
    ((Op.delete "c").exec envN (restartWith envN (run p wStore))).ok = false ∧
    ((Op.delete "c").exec envN (restartWith envN (run p wStore))).effs = [] ∧
    get (restartWith envN (run p wStore)) (.blob "d2") = some (.raw [2]) ∧
    get (run ((Op.delete "c").exec envN wStore).effs wStore) (.blob "d2") = none := by
  refine ⟨⟨1, Or.inl rfl⟩, by decide, by decide, by decide, by decide⟩

/-- non-vacuity: `wStore` (models a, c; blobs d1, d2) is all-referenced, and the deletion of c has a
crash point between the two unlinks -/
example : AllReferenced wStore ∧ allReadable wStore = true ∧
    ((Op.delete "c").exec wEnvA wStore).effs = [.rm (.man "c"), .rm (.blob "d2")] := by
  refine ⟨?_, by decide, by decide⟩
  intro d hd
  by_cases h1 : d = "d1"
  · subst h1; decide
  · by_cases h2 : d = "d2"
    · subst h2; decide
    · have : Path.blob "d1" ≠ Path.blob d := fun e => h1 (by injection e with e; exact e.symm)
      have : Path.blob "d2" ≠ Path.blob d := fun e => h2 (by injection e with e; exact e.symm)
      simp [wStore, StoreCrash.get, *] at hd



/-! ## Round 7 — clause 3 for create (fixed variant) -/

theorem uploads_ok (env : Env) (k : Nat) (ups : List (Digest × Bytes)) (st : Store) :
    (uploads env k ups st).ok = true := by
  induction ups generalizing st k with
  | nil => rfl
  | cons u rest ih =>
    obtain ⟨d, body⟩ := u
    simp only [uploads]
    rw [andThen_ok, upload_ok, ih]; rfl

/-- after an honest client's uploads every uploaded digest is present -/
theorem uploads_present {hash : Bytes → Digest} {env : Env} (henv : EnvOK hash env) (k : Nat)
    (ups : List (Digest × Bytes)) (hups : ∀ u ∈ ups, hash u.2 = u.1) (st : Store) :
    ∀ u ∈ ups, present (run (uploads env k ups st).effs st) (.blob u.1) = true := by
  induction ups generalizing st k with
  | nil => intro u hu; cases hu
  | cons u0 rest ih =>
    obtain ⟨d, body⟩ := u0
    intro u hu
    simp only [uploads]
    rw [run_andThen, upload_ok]
    simp only [↓reduceIte]
    rcases List.mem_cons.mp hu with rfl | hu
    · exact (uploads_spec env henv.hash_eq (k + 1) rest _).2.present_mono
        (upload_present henv k d body (hups (d, body) (by simp)) st)
    · exact ih (k + 1) (fun v hv => hups v (List.mem_cons_of_mem _ hv)) _ u hu

theorem cleanupOld_ok (env : Env) (old : Option Man) (st : Store) : (cleanupOld env old st).ok = true := by
  unfold cleanupOld
  split
  · split
    · rfl
    · exact removeLayers_ok _ _
  · rfl

/-- the size `createModel` records for the gguf layer: the length of whatever bytes are under that digest -/
theorem blobSize_of {st : Store} {d : Digest} {bs : Bytes} (h : get st (.blob d) = some (.raw bs)) :
    blobSize st d = bs.length := by unfold blobSize; rw [h]

/-- What a create whose gguf blob is among the honest client's uploads does to the manifest files: it
succeeds, name `n` gets the manifest with the gguf layer (size = length of the bytes stored under that
digest), the data layers and the config; every other name is untouched. -/
theorem create_final {hash : Bytes → Digest} {env : Env} (henv : EnvOK hash env) (hat : env.atomicMan = true)
    (n : Name) (ups : List (Digest × Bytes)) (file : Digest) (datas : List Bytes) (cfg : Bytes)
    (hups : ∀ u ∈ ups, hash u.2 = u.1) (hfile : ∃ body, (file, body) ∈ ups)
    (st : Store) (hinv : Inv hash st) :
    (create env n ups file datas cfg st).ok = true ∧
    ∃ bs, hash bs = file ∧ ∀ n', get (run (create env n ups file datas cfg st).effs st) (.man n') =
      if n' = n then some (.man ⟨⟨file, bs.length⟩ :: datas.map (layerOf env), layerOf env cfg⟩) else get st (.man n') := by
  obtain ⟨body, hb⟩ := hfile
  have hup := uploads_spec env henv.hash_eq 0 ups st
  have hpres : present (run (uploads env 0 ups st).effs st) (.blob file) = true :=
    uploads_present henv 0 ups hups st (file, body) hb
  have hinv1 : Inv hash (run (uploads env 0 ups st).effs st) := StoreCrash.seq_preserves_inv hinv hup.1
  have hman1 : ∀ x, get (run (uploads env 0 ups st).effs st) (.man x) = get st (.man x) := hup.2.1
  generalize hst1 : run (uploads env 0 ups st).effs st = st1 at hpres hinv1 hman1
  -- the bytes under the gguf digest
  have hex : ∃ bs, get st1 (.blob file) = some (.raw bs) ∧ hash bs = file := by
    unfold present at hpres
    cases hg : get st1 (.blob file) with
    | none => simp [hg] at hpres
    | some c => obtain ⟨bs, rfl, hh⟩ := hinv1.1 file c hg; exact ⟨bs, rfl, hh⟩
  obtain ⟨bs, hgb, hhb⟩ := hex
  have hnl := newLayers_spec env henv.hash_eq ups.length (datas ++ [cfg]) st1
  have hsize : blobSize (run (newLayers env ups.length (datas ++ [cfg]) st1).effs st1) file = bs.length :=
    blobSize_of (hnl.2.1.2 file _ hgb)
  have hman2 : ∀ x, get (run (newLayers env ups.length (datas ++ [cfg]) st1).effs st1) (.man x) = get st1 (.man x) :=
    hnl.2.1.1
  have hH : (createHandler env ups.length n file datas cfg st1).ok = true ∧
      ∀ n', get (run (createHandler env ups.length n file datas cfg st1).effs st1) (.man n') =
        if n' = n then some (.man ⟨⟨file, bs.length⟩ :: datas.map (layerOf env), layerOf env cfg⟩) else get st1 (.man n') := by
    unfold createHandler
    dsimp only
    simp only [hpres, Bool.not_true, Bool.false_eq_true, ↓reduceIte]
    constructor
    · rw [andThen_ok, andThen_ok, hnl.2.2.1, writeManifest_ok, cleanupOld_ok]; rfl
    · intro n'
      rw [run_andThen, hnl.2.2.1]
      simp only [↓reduceIte]
      rw [get_run_wm_then env hat _ _ _ _ _ _ (fun st3 => manOnly_cleanupOld _ env _ st3), hman2]
      simp only [createMan, hsize]
  refine ⟨?_, bs, hhb, ?_⟩
  · unfold create; rw [andThen_ok, uploads_ok, hst1, hH.1]; rfl
  · intro n'
    unfold create
    rw [run_andThen, uploads_ok]
    simp only [↓reduceIte]
    rw [hst1, hH.2 n', hman1]

/-- **Clause 3 for create (fixed variant).**  Store with the invariant; honest client (every upload's bytes
hash to its digest) whose uploads include the gguf blob; `hash` has no length-collision at the gguf digest
(the manifest records the SIZE of whatever bytes are stored under it).  Kill the create anywhere (client
uploads included), run the start-up sequence — which may prune every blob uploaded so far —, create again:
it SUCCEEDS, every manifest file is exactly what the uninterrupted create leaves, the invariant holds. -/
theorem rerun_converges_create {hash : Bytes → Digest} {env : Env} (henv : EnvOK hash env)
    (hat : env.atomicMan = true) {st : Store} (hinv : Inv hash st)
    (n : Name) (ups : List (Digest × Bytes)) (file : Digest) (datas : List Bytes) (cfg : Bytes)
    (hups : ∀ u ∈ ups, hash u.2 = u.1) (hfile : ∃ body, (file, body) ∈ ups)
    (hcf : ∀ bs bs', hash bs = file → hash bs' = file → bs.length = bs'.length)
    (p : List Effect) (hp : CrashPrefix ((Op.create n ups file datas cfg).exec env st).effs p) :
    let st1 := restartWith env (run p st)
    ((Op.create n ups file datas cfg).exec env st1).ok = true ∧
    (∀ n', get (run ((Op.create n ups file datas cfg).exec env st1).effs st1) (.man n') =
           get (run ((Op.create n ups file datas cfg).exec env st).effs st) (.man n')) ∧
    Inv hash (run ((Op.create n ups file datas cfg).exec env st1).effs st1) := by
  intro st1
  have hcs := crash_safe henv hinv (.create n ups file datas cfg) trivial p hp
  have G := fun n' => atomic_manifest_old_or_new hat (.create n ups file datas cfg) st p hp n'
  obtain ⟨hok0, bs0, hb0, hU⟩ := create_final henv hat n ups file datas cfg hups hfile st hinv
  obtain ⟨hok1, bs1, hb1, hR⟩ := create_final henv hat n ups file datas cfg hups hfile st1 hcs.2.1
  have hlen : bs1.length = bs0.length := hcf bs1 bs0 hb1 hb0
  refine ⟨hok1, ?_, StoreCrash.seq_preserves_inv hcs.2.1 (exec_seqOK henv hcs.2.1 _ trivial)⟩
  intro n'
  simp only [Op.exec] at G ⊢
  rw [hR n', hU n', hlen]
  by_cases hn : n' = n
  · simp [hn]
  · simp only [hn, ↓reduceIte]
    rcases G n' with h | h
    · exact h
    · rw [h, hU n']; simp [hn]

/-- the hypotheses are satisfiable by a create that really uploads, writes two layers and a manifest
(fixed variant: 15 effects) -/
example : (∀ u ∈ [(("d2" : Digest), ([2] : Bytes))], wHash u.2 = u.1) ∧ (∃ body, (("d2" : Digest), body) ∈ [(("d2" : Digest), ([2] : Bytes))]) ∧
    ((Op.create "n" [("d2", [2])] "d2" [[1]] [7]).exec wEnvA wStoreA).effs.length = 15 ∧
    ((Op.create "n" [("d2", [2])] "d2" [[1]] [7]).exec wEnvA wStoreA).ok = true := by
  refine ⟨?_, ⟨[2], by simp⟩, by decide, by decide⟩
  intro u hu; simp at hu; subst hu; decide



/-- the collision hypothesis of `rerun_converges_create` is satisfiable (the witness hash at digest d2) -/
theorem wHash_no_length_collision_d2 : ∀ bs bs' : Bytes, wHash bs = "d2" → wHash bs' = "d2" → bs.length = bs'.length := by
  have key : ∀ bs : Bytes, wHash bs = "d2" → bs = [2] := by
    intro bs h
    unfold wHash at h
    split at h
    · exact absurd h (by decide)
    · split at h
      · assumption
      · exact absurd h (by decide)
  intro bs bs' h h'
  rw [key bs h, key bs' h']

/-- an instance of `rerun_converges_create`: the create of the example killed after its 7th effect (the uploaded
blob is in place, nothing references it yet: the start-up prune removes it again) -/
example :
    let op := Op.create "n" [("d2", [2])] "d2" [[1]] [7]
    let p := (op.exec wEnvA wStoreA).effs.take 7
    get (run p wStoreA) (.blob "d2") = some (.raw [2]) ∧
    get (restartWith wEnvA (run p wStoreA)) (.blob "d2") = none ∧
    (op.exec wEnvA (restartWith wEnvA (run p wStoreA))).ok = true := by decide



/-! ## Round 7 — the property, all clauses, one statement (fixed variant) -/

/-- what the environment of an operation has to be like for clause 3 to be expected at all: the registry of a
pull is honest and serves every layer of the manifest; the client of a create/upload is honest (bytes hash
to the digests it names), uploads the gguf blob, and `hash` has no length-collision at that digest -/
def OpFit (hash : Bytes → Digest) (world : Digest → Option Bytes) : Op → Prop
  | .pull reg _ m => (∀ d data, reg d = some data → world d = some data) ∧ ∀ l ∈ m.all, (reg l.digest).isSome = true
  | .create _ ups file _ _ => (∀ u ∈ ups, hash u.2 = u.1) ∧ (∃ body, (file, body) ∈ ups) ∧
      ∀ bs bs', hash bs = file → hash bs' = file → bs.length = bs'.length
  | .upload _ d body => hash body = d
  | _ => True

theorem OpFit.opW {hash : Bytes → Digest} {world : Digest → Option Bytes} {op : Op} (h : OpFit hash world op) :
    OpW world op := by
  cases op <;> first | trivial | exact h.1

/-- **C12, every clause, every history (fixed variant, both start-up configurations).**  `st` reachable by
any history of operations / crashes / start-ups; any operation that fits (`OpFit`) and succeeds when not
interrupted; any crash prefix `p` of it (last data write cut at any byte); `st1` = the store after the
start-up sequence.  Then
1. every readable manifest of `st1` has all its layers present with bytes that hash to their names;
2. every name the operation does not involve keeps its manifest file and the blobs it names;
3. the repeated operation succeeds — or it is a delete whose manifest is already gone (it took effect);
4. after the repeated operation every manifest file is what the uninterrupted operation leaves (blobs/:
   `rerun_converges_delete_blobs`, `rerun_converges_upload`), and the invariant holds again. -/
theorem c12_all_clauses {hash : Bytes → Digest} {env : Env} {world : Digest → Option Bytes}
    (henv : EnvOK hash env) (hworld : ∀ d data, world d = some data → hash data = d)
    (hat : env.atomicMan = true) (hap : env.atomicPart = true)
    {st : Store} (hr : Reach env world st) (op : Op) (hfit : OpFit hash world op)
    (hok : (op.exec env st).ok = true) (p : List Effect) (hp : CrashPrefix (op.exec env st).effs p) :
    NameInv hash (restartWith env (run p st)) ∧
    (∀ n, n ∉ op.involved → Untouched n st (restartWith env (run p st))) ∧
    ((op.exec env (restartWith env (run p st))).ok = true ∨
      ∃ n, op = .delete n ∧ get (restartWith env (run p st)) (.man n) = none) ∧
    (∀ n', get (run (op.exec env (restartWith env (run p st))).effs (restartWith env (run p st))) (.man n') =
           get (run (op.exec env st).effs st) (.man n')) ∧
    Inv hash (run (op.exec env (restartWith env (run p st))).effs (restartWith env (run p st))) := by
  have hcs := crash_safe_reachable henv hworld hr op hfit.opW p hp
  have hinv := (reach_inv henv hworld hr).1
  refine ⟨hcs.1, hcs.2.2.1, ?_⟩
  cases op with
  | upload k d body =>
    have h := rerun_converges_partial henv hat hinv (.upload k d body) rfl p hp
    exact ⟨rerun_ok_partial hat st _ rfl hok p hp, h.1, h.2⟩
  | copy src dst =>
    have h := rerun_converges_partial henv hat hinv (.copy src dst) rfl p hp
    exact ⟨rerun_ok_partial hat st _ rfl hok p hp, h.1, h.2⟩
  | delete n =>
    have h := rerun_converges_partial henv hat hinv (.delete n) rfl p hp
    exact ⟨rerun_ok_partial hat st _ rfl hok p hp, h.1, h.2⟩
  | pull reg n m =>
    have h := rerun_converges_pull_reachable henv hworld hat hap hr reg hfit.1 n m hfit.2 p hp
    exact ⟨Or.inl h.1, h.2.1, h.2.2⟩
  | create n ups file datas cfg =>
    have h := rerun_converges_create henv hat hinv n ups file datas cfg hfit.1 hfit.2.1 hfit.2.2 p hp
    exact ⟨Or.inl h.1, h.2.1, h.2.2⟩

/-- non-vacuity: the reachable store `wH2` (models built by an upload and a pull), the pull of `f` that has
to download d2, fits and succeeds -/
example : OpFit wHash wReg wPull ∧ (wPull.exec wEnvA wH2).ok = true ∧ Reach wEnvA wReg wH2 :=
  ⟨⟨fun _ _ h => h, by decide⟩, by decide, wH2_reach⟩

end OllamaVerif.C12
