/-
  C08 (round 7) — crashes folded into the history theorem, over the WHOLE disk.

  `history_get_trusted` (Properties/C08.lean) quantifies over histories without crashes; `crash_history_trusted`
  over crash–retry histories of ONE blob file.  Here: any history of Put / Import / Get / Link / Unlink / Resolve
  over all digests and names in which EVERY store may be cut by a crash at any point (the leftovers being the
  starting state of everything that follows), under the per-digest size discipline the cache relies on
  ("a blob is always stored under the length of the content that hashes to it").
-/
import OllamaVerif.Properties.C08

namespace OllamaVerif.C08
open OllamaVerif OllamaVerif.BlobCache

/-- a complete run is a crash cut too -/
theorem cut_full : ∀ (es : List Eff), Cut es es
  | [] => Cut.stop _
  | e :: es => Cut.next e es es (cut_full es)

/-- every blob file is trusted under the size `sz` assigns to its digest -/
def AllTrusted (hash : Bytes → Digest) (sz : Digest → Nat) (k : Disk) : Prop :=
  ∀ d, Trusted hash (k.blob d) d (sz d)

theorem allTrusted_empty (hash : Bytes → Digest) (sz : Digest → Nat) : AllTrusted hash sz Disk.empty :=
  fun d => trusted_none hash d (sz d)

theorem allTrusted_setBlob (hash : Bytes → Digest) (sz : Digest → Nat) (k : Disk) (d : Digest) (v : FileSt)
    (h : AllTrusted hash sz k) (hv : Trusted hash v d (sz d)) : AllTrusted hash sz (k.setBlob d v) := by
  intro d'
  by_cases hd : d' = d
  · subst hd; rw [setBlob_same]; exact hv
  · rw [setBlob_other _ _ _ _ hd]; exact h d'

/-- the size discipline of an operation: `Put(d, r, size)` is called with the size `sz d`; `Chunked` is excluded
    (finding F10).  `Import` and `Resolve` compute digest and size from the same bytes, so they obey the
    discipline by themselves as soon as `sz (hash b) = b.length`. -/
def Disciplined (sz : Digest → Nat) : Op → Prop
  | .put d size _ => size = sz d
  | .chunk .. => False
  | _ => True

theorem put_allTrusted (hash : Bytes → Digest) (sz : Digest → Nat) (k : Disk) (d : Digest) (s : Script)
    (h : AllTrusted hash sz k) : AllTrusted hash sz (put hash k d (sz d) s).1 := by
  unfold put
  exact allTrusted_setBlob hash sz k d _ h
    (single_writer_crash_safe hash d (sz d) s (k.blob d) (h d) _ (cut_full _))

theorem resolve_allTrusted (hash : Bytes → Digest) (sz : Digest → Nat) (hsz : ∀ b, sz (hash b) = b.length)
    (k : Disk) (name : Bytes) (h : AllTrusted hash sz k) : AllTrusted hash sz (resolve hash k name).1 := by
  simp only [resolve]
  split
  · split <;> exact h
  · split
    · exact h
    · split
      · exact h
      · next data _ =>
        have := put_allTrusted hash sz k (hash data) ⟨[data], .eof⟩ h
        rw [hsz data] at this
        split <;> exact this

theorem importB_allTrusted (hash : Bytes → Digest) (sz : Digest → Nat) (k : Disk) (n : Nat) (s : Script)
    (h : AllTrusted hash sz k) : AllTrusted hash sz (importB hash k n s).1 := by
  unfold importB
  split
  · next d es r heq =>
    have hi : (importEffs hash n s).1 = some (d, es) := by rw [heq]
    exact allTrusted_setBlob hash sz k d _ h
      (import_crash_safe hash n s (k.blob d) d es hi es (cut_full es) (sz d) (h d))
  · exact h

/-- one complete, disciplined operation keeps every blob trusted -/
theorem stepOp_allTrusted (hash : Bytes → Digest) (sz : Digest → Nat) (hsz : ∀ b, sz (hash b) = b.length)
    (fixed zc : Bool) (k : Disk) (op : Op) (hd : Disciplined sz op) (h : AllTrusted hash sz k) :
    AllTrusted hash sz (stepOp hash fixed zc k op).1 := by
  cases op with
  | put d size s =>
    simp only [Disciplined] at hd
    subst hd
    exact put_allTrusted hash sz k d s h
  | importB n s => exact importB_allTrusted hash sz k n s h
  | get d => exact h
  | link name d =>
    intro d'
    simp only [stepOp]
    rw [linkZ_blob_eq]; exact h d'
  | linkR name d =>
    intro d'
    by_cases hfire : linkRFires hash fixed zc k name d = true
    · simp only [stepOp, hfire, if_true]
      rw [linkZ_blob_eq]
      exact resolve_allTrusted hash sz hsz k name h d'
    · simp only [stepOp, hfire, Bool.false_eq_true, if_false]
      rw [linkZ_blob_eq]; exact h d'
  | unlink name =>
    simp only [stepOp, unlink]
    split
    · exact h
    · split <;> exact h
  | resolve name => exact resolve_allTrusted hash sz hsz k name h
  | chunk d size a b cd s => cases hd
  | putNeg d s =>
    simp only [stepOp, putNeg]
    apply allTrusted_setBlob hash sz k d _ h
    rcases copyNamedNeg_file false (k.blob d) s with h1 | h1
    · rw [h1]; exact h d
    · rw [h1]; exact trusted_nil hash d (sz d)
  | edit name data =>
    intro d'
    simp only [stepOp]
    rw [edit_blob]; exact h d'

/-- One step of a history with crashes.  `op`: a complete disciplined operation of the tree's cache (Link =
    temp + rename with the zero-length refusal).  `putCut` / `importCut`: a `Put` / `Import` whose process died at
    any crash cut of its effects on the blob file.  `resolveCut`: `Resolve` died inside the `PutBytes` of the manifest
    bytes it had read.  `linkCut`: `Link` died at any cut of its effects on the manifest file (`linkFileEffs`).
    `Unlink` and `Get` have no intermediate states. -/
inductive CrashStep (hash : Bytes → Digest) (sz : Digest → Nat) : Disk → Disk → Prop
  | op (k : Disk) (o : Op) : Disciplined sz o → CrashStep hash sz k (stepOp hash true true k o).1
  | putCut (k : Disk) (d : Digest) (s : Script) (p : List Eff) :
      Cut (copyNamedEffs hash (k.blob d) d (sz d) s).1 p →
      CrashStep hash sz k (k.setBlob d (run p (k.blob d)))
  | importCut (k : Disk) (n : Nat) (s : Script) (d : Digest) (es p : List Eff) :
      (importEffs hash n s).1 = some (d, es) → Cut es p →
      CrashStep hash sz k (k.setBlob d (run p (k.blob d)))
  | resolveCut (k : Disk) (path : MPath) (data : Bytes) (p : List Eff) :
      manGet k.mans path = some data →
      Cut (copyNamedEffs hash (k.blob (hash data)) (hash data) data.length ⟨[data], .eof⟩).1 p →
      CrashStep hash sz k (k.setBlob (hash data) (run p (k.blob (hash data))))
  | linkCut (k : Disk) (name : Bytes) (d : Digest) (want : MPath) (q : List Eff) :
      nameToPath name = some want →
      Cut (linkFileEffs hash true (manGet k.mans (manifestPathOf k.mans want)) (k.blob d) d).1 q →
      CrashStep hash sz k { k with mans := manSet k.mans (manifestPathOf k.mans want)
                                            (run q (manGet k.mans (manifestPathOf k.mans want))) }

/-- histories: any number of steps, each a complete operation or a crashed one -/
inductive CrashHist (hash : Bytes → Digest) (sz : Digest → Nat) : Disk → Disk → Prop
  | refl (k : Disk) : CrashHist hash sz k k
  | step (k k' k'' : Disk) : CrashHist hash sz k k' → CrashStep hash sz k' k'' → CrashHist hash sz k k''

theorem crashStep_allTrusted (hash : Bytes → Digest) (sz : Digest → Nat) (hsz : ∀ b, sz (hash b) = b.length)
    (k k' : Disk) (hs : CrashStep hash sz k k') (h : AllTrusted hash sz k) : AllTrusted hash sz k' := by
  cases hs with
  | op o hd => exact stepOp_allTrusted hash sz hsz true true k o hd h
  | putCut d s p hc =>
    exact allTrusted_setBlob hash sz k d _ h (single_writer_crash_safe hash d (sz d) s (k.blob d) (h d) p hc)
  | importCut n s d es p hi hc =>
    exact allTrusted_setBlob hash sz k d _ h (import_crash_safe hash n s (k.blob d) d es hi p hc (sz d) (h d))
  | resolveCut path data p _ hc =>
    apply allTrusted_setBlob hash sz k (hash data) _ h
    have h1 := h (hash data)
    rw [hsz data] at h1 ⊢
    exact single_writer_crash_safe hash (hash data) data.length ⟨[data], .eof⟩ (k.blob (hash data)) h1 p hc
  | linkCut name d want q _ _ => exact h

/-- **Every history with crashes, whole disk.**  Let `sz` give the length of the content behind every digest
    (`sz (hash b) = b.length`: the discipline "a blob is stored under the size of what hashes to it"; it is what
    rules out a caller lying about the size of an existing digest).  From any disk whose blob files are trusted — in
    particular the empty one — after ANY sequence of complete disciplined operations and crashed Put / Import /
    Resolve / Link (each cut at any effect, the last write at any byte, the leftovers being what the next step
    starts from), EVERY blob file is trusted under its size. -/
theorem crash_history_all_trusted (hash : Bytes → Digest) (sz : Digest → Nat)
    (hsz : ∀ b, sz (hash b) = b.length) (k k' : Disk) (hr : CrashHist hash sz k k')
    (h0 : AllTrusted hash sz k) : AllTrusted hash sz k' := by
  induction hr with
  | refl => exact h0
  | step k' k'' _ hs ih => exact crashStep_allTrusted hash sz hsz k' k'' hs ih

/-- … so whatever `Get` reports present with the digest's size, at any moment of any such history from the
    empty disk, has the right content. -/
theorem crash_history_get_trusted (hash : Bytes → Digest) (sz : Digest → Nat)
    (hsz : ∀ b, sz (hash b) = b.length) (k : Disk) (hr : CrashHist hash sz Disk.empty k) (d : Digest)
    (hg : getB k d = .entry (sz d)) : ∃ f, k.blob d = some f ∧ f.length = sz d ∧ hash f = d := by
  have hall := crash_history_all_trusted hash sz hsz Disk.empty k hr (allTrusted_empty hash sz) d
  unfold getB at hg
  cases hb : k.blob d with
  | none => simp [hb] at hg
  | some f =>
    simp only [hb] at hg
    split at hg
    · cases hg
    · next hz =>
      simp only [Out.entry.injEq] at hg
      exact ⟨f, rfl, hg, hall f hb hz hg⟩

/-- Non-vacuity: with the identity as hash and `sz = length` the discipline holds, and the following history is a
    `CrashHist` from the empty disk — a Put of `[1,2,3,4]` killed after its first chunk (file `[1,2]`), then an
    Import of the same content killed before its rename (file still `[1,2]`), then a complete Put that repairs it —
    ending with `Get` reporting 4 bytes. -/
example :
    let c : Bytes := [1, 2, 3, 4]
    let s : Script := ⟨[[1, 2], [3, 4]], .eof⟩
    let k1 := Disk.empty.setBlob c (run [.openCreate false, .pwrite 0 [1, 2]] none)
    let k2 := k1.setBlob c (run [] (k1.blob c))
    let k3 := (stepOp idh true true k2 (.put c 4 s)).1
    (∀ b : Bytes, (fun d : Digest => d.length) (idh b) = b.length) ∧
    CrashHist idh (fun d => d.length) Disk.empty k3 ∧ k1.blob c = some [1, 2] ∧ getB k3 c = .entry 4 := by
  intro c s k1 k2 k3
  have hc1 : Cut (copyNamedEffs idh (Disk.empty.blob c) c ((fun d : Digest => d.length) c) s).1
      [.openCreate false, .pwrite 0 [1, 2]] := by
    have : (copyNamedEffs idh (Disk.empty.blob c) c ((fun d : Digest => d.length) c) s).1 =
        [.openCreate false, .pwrite 0 [1, 2], .pwrite 2 [3, 4], .close] := by decide
    rw [this]
    exact Cut.next _ _ _ (Cut.next _ _ _ (Cut.stop _))
  have h1 : CrashStep idh (fun d => d.length) Disk.empty k1 :=
    CrashStep.putCut Disk.empty c s [.openCreate false, .pwrite 0 [1, 2]] hc1
  have h2 : CrashStep idh (fun d => d.length) k1 k2 :=
    CrashStep.importCut k1 4 ⟨[[1, 2, 3, 4]], .eof⟩ c [.replace [1, 2, 3, 4]] [] (by decide) (Cut.stop _)
  have h3 : CrashStep idh (fun d => d.length) k2 k3 := CrashStep.op k2 (.put c 4 s) rfl
  exact ⟨fun _ => rfl, .step _ _ _ (.step _ _ _ (.step _ _ _ (.refl _) h1) h2) h3, by decide, by decide⟩

/-! ## round 7: the read limit of `Resolve`, negative sizes, manifests written behind the cache's back -/

/-- within the limit, `Resolve` with its `readAndSum(file, 1<<20)` IS `resolve` (both variants): every theorem about
    `resolve` is a theorem about the real `Resolve` of a manifest of at most `lim` bytes -/
theorem resolveL_eq_resolve (hash : Bytes → Digest) (strict : Bool) (lim : Nat) (k : Disk) (name : Bytes)
    (hsmall : ∀ want file, nameToPath (splitNameDigest name).1 = some want →
      manGet k.mans (manifestPathOf k.mans want) = some file → file.length ≤ lim) :
    resolveL hash strict lim k name = resolve hash k name := by
  unfold resolveL resolve
  simp only
  by_cases hnd : (splitNameDigest name).2 ≠ []
  · rw [if_pos hnd, if_pos hnd]
  · rw [if_neg hnd, if_neg hnd]
    cases hp : nameToPath (splitNameDigest name).1 with
    | none => rfl
    | some want =>
      simp only
      cases hm : manGet k.mans (manifestPathOf k.mans want) with
      | none => rfl
      | some file =>
        have hl := hsmall want file hp hm
        have ht : file.take lim = file := List.take_of_length_le hl
        have hr : readAndSum hash strict lim file = some (file, hash file) := by
          unfold readAndSum
          rw [if_neg (by omega), ht]
        simp only [hr]

/-- **Finding F28, general form (pinned `readAndSum`).**  A manifest file LONGER than the limit resolves — without
    error — to the digest of its first `lim` bytes, and that prefix is what gets stored as a blob: not the digest of
    the bytes linked. -/
theorem resolveL_oversize_prefix_digest (hash : Bytes → Digest) (lim : Nat) (k : Disk) (name : Bytes)
    (want : MPath) (file : Bytes) (hnd : (splitNameDigest name).2 = [])
    (hp : nameToPath (splitNameDigest name).1 = some want)
    (hm : manGet k.mans (manifestPathOf k.mans want) = some file) :
    (resolveL hash false lim k name).2 = .digest (hash (file.take lim)) := by
  unfold resolveL
  simp only [hnd, ne_eq, not_true_eq_false, if_false, hp, hm, readAndSum, Bool.false_eq_true, false_and]
  have hok : (put hash k (hash (file.take lim)) (file.take lim).length ⟨[file.take lim], .eof⟩).2 = .ok := by
    unfold put; exact copyNamed_exact_ok hash _ (file.take lim)
  simp only [hok]

/-- **With proposed_fixes/C08-F28.patch (`strict`) the clause holds at full strength for every manifest size:**
    whatever digest `Resolve(name)` answers is the hash of the WHOLE manifest file. -/
theorem resolveL_strict_hash_of_whole_file (hash : Bytes → Digest) (lim : Nat) (k : Disk) (name : Bytes)
    (d' : Digest) (hnd : (splitNameDigest name).2 = [])
    (h : (resolveL hash true lim k name).2 = .digest d') :
    ∃ want file, nameToPath (splitNameDigest name).1 = some want ∧
      manGet k.mans (manifestPathOf k.mans want) = some file ∧ d' = hash file := by
  unfold resolveL at h
  simp only [hnd, ne_eq, not_true_eq_false, if_false] at h
  cases hp : nameToPath (splitNameDigest name).1 with
  | none => simp [hp] at h
  | some want =>
    simp only [hp] at h
    cases hm : manGet k.mans (manifestPathOf k.mans want) with
    | none => simp [hm] at h
    | some file =>
      simp only [hm] at h
      by_cases hl : file.length > lim
      · have hr : readAndSum hash true lim file = none := by unfold readAndSum; rw [if_pos ⟨rfl, hl⟩]
        simp [hr] at h
      · have ht : file.take lim = file := List.take_of_length_le (by omega)
        have hr : readAndSum hash true lim file = some (file, hash file) := by
          unfold readAndSum; rw [if_neg (by omega), ht]
        simp only [hr] at h
        have hok : (put hash k (hash file) file.length ⟨[file], .eof⟩).2 = .ok := by
          unfold put; exact copyNamed_exact_ok hash _ file
        simp only [hok, Out.digest.injEq] at h
        exact ⟨want, file, rfl, hm, h.symm⟩

/-- **Finding F28, witness** (limit 2 instead of 2^20; identity as hash): `Put` of a 3-byte manifest, `Link` = ok,
    `Resolve` = ok with the digest of the first 2 bytes — not `d`; the repaired `readAndSum` answers an error. -/
theorem F28_oversize_manifest_resolves_to_prefix_digest :
    let f : Bytes := [1, 2, 3]
    let k1 := (put idh Disk.empty f 3 ⟨[f], .eof⟩).1
    let k2 := linkZ idh true true k1 nm f
    k2.2 = .ok ∧ (resolveL idh false 2 k2.1 nm).2 = .digest [1, 2] ∧
    getB (resolveL idh false 2 k2.1 nm).1 [1, 2] = .entry 2 ∧
    (resolveL idh true 2 k2.1 nm).2 = .res .tooLarge ∧ (resolveL idh true 3 k2.1 nm).2 = .digest f := by
  decide

/-- **Finding F29, witness.**  A stored, retrievable blob; `Put(d, <empty reader>, -1)` answers ok and the blob is
    gone (`Get` = not exist); with any data the answer is "exceeds" and the blob is gone as well.  With
    proposed_fixes/C08-F29.patch (`refuse`) the call is an error and nothing is touched. -/
theorem F29_negative_size_put_destroys_blob :
    let f : Bytes := [1, 2, 3]
    let k1 := (put idh Disk.empty f 3 ⟨[f], .eof⟩).1
    getB k1 f = .entry 3 ∧
    (putNeg false k1 f ⟨[], .eof⟩).2 = .ok ∧ getB (putNeg false k1 f ⟨[], .eof⟩).1 f = .res .notExist ∧
    (putNeg false k1 f ⟨[f], .eof⟩).2 = .exceeds ∧ getB (putNeg false k1 f ⟨[f], .eof⟩).1 f = .res .notExist ∧
    (putNeg true k1 f ⟨[], .eof⟩).2 = .negSize ∧ getB (putNeg true k1 f ⟨[], .eof⟩).1 f = .entry 3 := by
  decide

/-- what a negative-size `Put` can do, for every source and prior file: the file ends as it was (refused) or EMPTY —
    never a file that `Get` reports present, so it cannot break `Trusted` under any size; and it touches no other
    digest -/
theorem putNeg_safe (hash : Bytes → Digest) (refuse : Bool) (k : Disk) (d : Digest) (s : Script) (size : Nat)
    (h0 : Trusted hash (k.blob d) d size) :
    Trusted hash ((putNeg refuse k d s).1.blob d) d size ∧
    (∀ d', d' ≠ d → (putNeg refuse k d s).1.blob d' = k.blob d') ∧
    (refuse = true → (putNeg refuse k d s).1.blob d = k.blob d) := by
  refine ⟨?_, fun d' hd => setBlob_other _ _ _ _ hd, ?_⟩
  · simp only [putNeg, setBlob_same]
    rcases copyNamedNeg_file refuse (k.blob d) s with h1 | h1
    · rw [h1]; exact h0
    · rw [h1]; exact trusted_nil hash d size
  · intro hr; subst hr
    simp [putNeg, copyNamedNegEffs, setBlob_same, run]

/-- **A manifest written behind the cache's back is adopted by `Resolve`** (the legacy-cache / hand-edit case its doc
    comment describes): after `edit name data` (no other manifest equal to the name up to case sorting before it),
    `Resolve(name)` answers `hash data` and the bytes are retrievable as that blob, whatever trusted state the blob
    slot was in — in particular when no such blob existed. -/
theorem edit_then_resolve (hash : Bytes → Digest) (k : Disk) (name data : Bytes) (want : MPath)
    (hnd : (splitNameDigest name).2 = []) (hp : nameToPath (splitNameDigest name).1 = some want)
    (hp' : nameToPath name = some want)
    (hfirst : manifestPathOf (manSet k.mans want (some data)) want = want) :
    (resolve hash (edit k name data).1 name).2 = .digest (hash data) ∧
    (data ≠ [] → Trusted hash (k.blob (hash data)) (hash data) data.length →
      getB (resolve hash (edit k name data).1 name).1 (hash data) = .entry data.length) := by
  have he : (edit k name data).1 = { k with mans := manSet k.mans want (some data) } := by
    unfold edit; simp only [hp']
  have hm : manGet (edit k name data).1.mans (manifestPathOf (edit k name data).1.mans want) = some data := by
    rw [he]; simp only; rw [hfirst]; exact manGet_manSet_same k.mans want data
  have hok : (put hash (edit k name data).1 (hash data) data.length ⟨[data], .eof⟩).2 = .ok := by
    unfold put; exact copyNamed_exact_ok hash _ data
  have hres : (resolve hash (edit k name data).1 name).2 = .digest (hash data) := by
    unfold resolve
    simp only [hnd, ne_eq, not_true_eq_false, if_false, hp, hm, hok]
  refine ⟨hres, ?_⟩
  intro hne ht
  obtain ⟨want2, data2, hp2, hm2, hd2, _, hget⟩ := resolve_hash_of_file hash (edit k name data).1 name (hash data) hnd hres
  rw [hp] at hp2; cases hp2
  rw [hm] at hm2; cases hm2
  apply hget hne
  rw [edit_blob]; exact ht

example : (splitNameDigest nm).2 = [] ∧ (nameToPath nm).isSome = true ∧
    (∀ want, nameToPath nm = some want → manifestPathOf (manSet Disk.empty.mans want (some [7])) want = want) := by
  refine ⟨by decide, by decide, ?_⟩
  intro want hw
  have : nameToPath nm = some [[0x68], [0x6e], [0x6d], [0x74]] := by decide
  rw [this] at hw; cases hw; decide

end OllamaVerif.C08
