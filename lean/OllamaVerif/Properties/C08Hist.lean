/-
  C08 (round 7) — crashes folded into the history theorem, over the WHOLE disk.

  `history_get_trusted` (Properties/C08.lean) quantifies over histories without crashes; `crash_history_trusted`
  over crash–retry histories of ONE blob file.  Here: any history of Put / Import / Get / Link / Unlink / Resolve
  over all digests and names in which EVERY store may be cut by a crash at any point (the leftovers being the
  starting state of everything that follows), under the per-digest size discipline the cache relies on
  ("a blob is always stored under the length of the content that hashes to it").
-/
import OllamaVerif.Properties.C08

namespace OllamaVerif.C08
open OllamaVerif OllamaVerif.BlobCache

/-- a complete run is a crash cut too -/
theorem cut_full : ∀ (es : List Eff), Cut es es
  | [] => Cut.stop _
  | e :: es => Cut.next e es es (cut_full es)

/-- every blob file is trusted under the size `sz` assigns to its digest -/
def AllTrusted (hash : Bytes → Digest) (sz : Digest → Nat) (k : Disk) : Prop :=
  ∀ d, Trusted hash (k.blob d) d (sz d)

theorem allTrusted_empty (hash : Bytes → Digest) (sz : Digest → Nat) : AllTrusted hash sz Disk.empty :=
  fun d => trusted_none hash d (sz d)

theorem allTrusted_setBlob (hash : Bytes → Digest) (sz : Digest → Nat) (k : Disk) (d : Digest) (v : FileSt)
    (h : AllTrusted hash sz k) (hv : Trusted hash v d (sz d)) : AllTrusted hash sz (k.setBlob d v) := by
  intro d'
  by_cases hd : d' = d
  · subst hd; rw [setBlob_same]; exact hv
  · rw [setBlob_other _ _ _ _ hd]; exact h d'

/-- the discipline of `Resolve(name)` on the disk `k`: the manifest bytes it is about to read have the length `sz`
    assigns to their digest (it stores them with `PutBytes(hash data, data)`).  Only THESE bytes are constrained — no
    global assumption that the digest determines the length (review B.1). -/
def ResolveDisc (hash : Bytes → Digest) (sz : Digest → Nat) (k : Disk) (name : Bytes) : Prop :=
  ∀ want data, nameToPath (splitNameDigest name).1 = some want →
    manGet k.mans (manifestPathOf k.mans want) = some data → sz (hash data) = data.length

/-- the size discipline of an operation on the disk `k`: `Put(d, r, size)` is called with the size `sz d`; `Resolve`
    (also the one fired inside `linkR`) reads a manifest whose length is the one `sz` gives its digest; `Chunked` is
    excluded (finding F10).  `Import` needs no discipline for trust (it renames a complete file). -/
def Disciplined (hash : Bytes → Digest) (sz : Digest → Nat) (k : Disk) : Op → Prop
  | .put d size _ => size = sz d
  | .chunk .. => False
  | .session .. => False
  | .resolve name => ResolveDisc hash sz k name
  | .linkR name _ => ResolveDisc hash sz k name
  | _ => True

/-- what PERSISTENCE of stored blobs needs on top (`strong` histories): no negative-size `Put` (finding F29), and an
    `Import` stores content whose length is the one `sz` gives its digest -/
def DisciplinedP (hash : Bytes → Digest) (sz : Digest → Nat) : Op → Prop
  | .putNeg .. => False
  | .importB _ s => sz (hash s.data) = s.data.length
  | _ => True

theorem put_allTrusted (hash : Bytes → Digest) (sz : Digest → Nat) (k : Disk) (d : Digest) (s : Script)
    (h : AllTrusted hash sz k) : AllTrusted hash sz (put hash k d (sz d) s).1 := by
  unfold put
  exact allTrusted_setBlob hash sz k d _ h
    (single_writer_crash_safe hash d (sz d) s (k.blob d) (h d) _ (cut_full _))

/-- `Resolve` is one of: nothing happens to the blobs, or the `PutBytes` of the manifest bytes `data` it read -/
theorem resolve_blob_cases (hash : Bytes → Digest) (k : Disk) (name : Bytes) :
    (resolve hash k name).1 = k ∨
    ∃ want data, nameToPath (splitNameDigest name).1 = some want ∧
      manGet k.mans (manifestPathOf k.mans want) = some data ∧
      (resolve hash k name).1 = (put hash k (hash data) data.length ⟨[data], .eof⟩).1 := by
  unfold resolve
  simp only
  by_cases hnd : (splitNameDigest name).2 ≠ []
  · rw [if_pos hnd]; left; split <;> rfl
  · rw [if_neg hnd]
    cases hp : nameToPath (splitNameDigest name).1 with
    | none => left; rfl
    | some want =>
      simp only
      cases hm : manGet k.mans (manifestPathOf k.mans want) with
      | none => left; rfl
      | some data =>
        right
        refine ⟨want, data, rfl, hm, ?_⟩
        simp only
        split <;> rfl

theorem resolve_allTrusted (hash : Bytes → Digest) (sz : Digest → Nat) (k : Disk) (name : Bytes)
    (hd : ResolveDisc hash sz k name) (h : AllTrusted hash sz k) : AllTrusted hash sz (resolve hash k name).1 := by
  rcases resolve_blob_cases hash k name with h1 | ⟨want, data, hp, hm, h1⟩
  · rw [h1]; exact h
  · rw [h1, ← hd want data hp hm]
    exact put_allTrusted hash sz k (hash data) ⟨[data], .eof⟩ h

theorem importB_allTrusted (hash : Bytes → Digest) (sz : Digest → Nat) (k : Disk) (n : Nat) (s : Script)
    (h : AllTrusted hash sz k) : AllTrusted hash sz (importB hash k n s).1 := by
  unfold importB
  split
  · next d es r heq =>
    have hi : (importEffs hash n s).1 = some (d, es) := by rw [heq]
    exact allTrusted_setBlob hash sz k d _ h
      (import_crash_safe hash n s (k.blob d) d es hi es (cut_full es) (sz d) (h d))
  · exact h

/-- one complete, disciplined operation keeps every blob trusted -/
theorem stepOp_allTrusted (hash : Bytes → Digest) (sz : Digest → Nat)
    (fixed zc : Bool) (k : Disk) (op : Op) (hd : Disciplined hash sz k op) (h : AllTrusted hash sz k) :
    AllTrusted hash sz (stepOp hash fixed zc k op).1 := by
  cases op with
  | put d size s =>
    simp only [Disciplined] at hd
    subst hd
    exact put_allTrusted hash sz k d s h
  | importB n s => exact importB_allTrusted hash sz k n s h
  | get d => exact h
  | link name d =>
    intro d'
    simp only [stepOp]
    rw [linkZ_blob_eq]; exact h d'
  | linkR name d =>
    intro d'
    by_cases hfire : linkRFires hash fixed zc k name d = true
    · simp only [stepOp, hfire, if_true]
      rw [linkZ_blob_eq]
      exact resolve_allTrusted hash sz k name hd h d'
    · simp only [stepOp, hfire, Bool.false_eq_true, if_false]
      rw [linkZ_blob_eq]; exact h d'
  | unlink name =>
    simp only [stepOp, unlink]
    split
    · exact h
    · split <;> exact h
  | resolve name => exact resolve_allTrusted hash sz k name hd h
  | chunk d size a b cd s => cases hd
  | session d size puts => cases hd
  | putNeg d s =>
    simp only [stepOp, putNeg]
    apply allTrusted_setBlob hash sz k d _ h
    rcases copyNamedNeg_file false (k.blob d) s with h1 | h1
    · rw [h1]; exact h d
    · rw [h1]; exact trusted_nil hash d (sz d)
  | edit name data =>
    intro d'
    simp only [stepOp]
    rw [edit_blob]; exact h d'

/-- One step of a history with crashes.  `op`: a complete disciplined operation of the tree's cache (Link =
    temp + rename with the zero-length refusal).  `putCut` / `importCut`: a `Put` / `Import` whose process died at
    any crash cut of its effects on the blob file.  `resolveCut`: `Resolve` died inside the `PutBytes` of the manifest
    bytes it had read.  `linkCut`: `Link` died at any cut of its effects on the manifest file (`linkFileEffs`).
    `Unlink` and `Get` have no intermediate states.  `strong = true` adds what persistence of stored blobs needs
    (`DisciplinedP`); the trust theorem holds for either value. -/
inductive CrashStep (hash : Bytes → Digest) (sz : Digest → Nat) (strong : Bool) : Disk → Disk → Prop
  | op (k : Disk) (o : Op) : Disciplined hash sz k o → (strong = true → DisciplinedP hash sz o) →
      CrashStep hash sz strong k (stepOp hash true true k o).1
  | putCut (k : Disk) (d : Digest) (s : Script) (p : List Eff) :
      Cut (copyNamedEffs hash (k.blob d) d (sz d) s).1 p →
      CrashStep hash sz strong k (k.setBlob d (run p (k.blob d)))
  | importCut (k : Disk) (n : Nat) (s : Script) (d : Digest) (es p : List Eff) :
      (importEffs hash n s).1 = some (d, es) → Cut es p → (strong = true → sz (hash s.data) = s.data.length) →
      CrashStep hash sz strong k (k.setBlob d (run p (k.blob d)))
  | resolveCut (k : Disk) (path : MPath) (data : Bytes) (p : List Eff) :
      manGet k.mans path = some data → sz (hash data) = data.length →
      Cut (copyNamedEffs hash (k.blob (hash data)) (hash data) data.length ⟨[data], .eof⟩).1 p →
      CrashStep hash sz strong k (k.setBlob (hash data) (run p (k.blob (hash data))))
  | linkCut (k : Disk) (name : Bytes) (d : Digest) (want : MPath) (q : List Eff) :
      nameToPath name = some want →
      Cut (linkFileEffs hash true (manGet k.mans (manifestPathOf k.mans want)) (k.blob d) d).1 q →
      CrashStep hash sz strong k { k with mans := manSet k.mans (manifestPathOf k.mans want)
                                            (run q (manGet k.mans (manifestPathOf k.mans want))) }

/-- histories: any number of steps, each a complete operation or a crashed one -/
inductive CrashHist (hash : Bytes → Digest) (sz : Digest → Nat) (strong : Bool) : Disk → Disk → Prop
  | refl (k : Disk) : CrashHist hash sz strong k k
  | step (k k' k'' : Disk) : CrashHist hash sz strong k k' → CrashStep hash sz strong k' k'' →
      CrashHist hash sz strong k k''

theorem crashStep_allTrusted (hash : Bytes → Digest) (sz : Digest → Nat) (strong : Bool)
    (k k' : Disk) (hs : CrashStep hash sz strong k k') (h : AllTrusted hash sz k) : AllTrusted hash sz k' := by
  cases hs with
  | op o hd _ => exact stepOp_allTrusted hash sz true true k o hd h
  | putCut d s p hc =>
    exact allTrusted_setBlob hash sz k d _ h (single_writer_crash_safe hash d (sz d) s (k.blob d) (h d) p hc)
  | importCut n s d es p hi hc _ =>
    exact allTrusted_setBlob hash sz k d _ h (import_crash_safe hash n s (k.blob d) d es hi p hc (sz d) (h d))
  | resolveCut path data p _ hsz hc =>
    apply allTrusted_setBlob hash sz k (hash data) _ h
    have h1 := h (hash data)
    rw [hsz] at h1 ⊢
    exact single_writer_crash_safe hash (hash data) data.length ⟨[data], .eof⟩ (k.blob (hash data)) h1 p hc
  | linkCut name d want q _ _ => exact h

/-- **Every history with crashes, whole disk.**  Let `sz` be the size every digest is stored under (the discipline "a
    blob is always stored under one size": `Put(d, …)` is called with `sz d`, and the manifests `Resolve` re-stores have
    the length `sz` gives their digest — constraints on the bytes that actually OCCUR, not on `hash` as a whole; it is
    what rules out a caller lying about the size of an existing digest, see `size_lie_after_crash_present_wrong_content`).
    From any disk whose blob files are trusted — in particular the empty one, `allTrusted_empty` — after ANY sequence
    of complete disciplined operations and crashed Put / Import / Resolve / Link (each cut at any effect, the last
    write at any byte, the leftovers being what the next step starts from), EVERY blob file is trusted under its
    size. -/
theorem crash_history_all_trusted (hash : Bytes → Digest) (sz : Digest → Nat) (strong : Bool)
    (k k' : Disk) (hr : CrashHist hash sz strong k k')
    (h0 : AllTrusted hash sz k) : AllTrusted hash sz k' := by
  induction hr with
  | refl => exact h0
  | step k' k'' _ hs ih => exact crashStep_allTrusted hash sz strong k' k'' hs ih

/-- … so whatever `Get` reports present with the digest's size, at any moment of any such history from the
    empty disk, has the right content.  (`Get` alone is not the test: a crashed partial file is reported present under
    ITS length; the property speaks of "the size it was stored under".) -/
theorem crash_history_get_trusted (hash : Bytes → Digest) (sz : Digest → Nat) (strong : Bool)
    (k : Disk) (hr : CrashHist hash sz strong Disk.empty k) (d : Digest)
    (hg : getB k d = .entry (sz d)) : ∃ f, k.blob d = some f ∧ f.length = sz d ∧ hash f = d := by
  have hall := crash_history_all_trusted hash sz strong Disk.empty k hr (allTrusted_empty hash sz) d
  unfold getB at hg
  cases hb : k.blob d with
  | none => simp [hb] at hg
  | some f =>
    simp only [hb] at hg
    split at hg
    · cases hg
    · next hz =>
      simp only [Out.entry.injEq] at hg
      exact ⟨f, rfl, hg, hall f hb hz hg⟩

/-! ### a successful store STAYS retrievable (clause 2 as an invariant; review E.1) -/

/-- the blob `d` is stored: `Get` reports it present with its size and the content hashes to `d` -/
def Present (hash : Bytes → Digest) (sz : Digest → Nat) (k : Disk) (d : Digest) : Prop :=
  ∃ f, k.blob d = some f ∧ f.length = sz d ∧ f.length ≠ 0 ∧ hash f = d

theorem present_get (hash : Bytes → Digest) (sz : Digest → Nat) (k : Disk) (d : Digest)
    (h : Present hash sz k d) : getB k d = .entry (sz d) := by
  obtain ⟨f, hf, hl, hz, _⟩ := h
  have hz' : sz d ≠ 0 := by rw [← hl]; exact hz
  simp [getB, hf, hl, hz']

theorem present_setBlob_other (hash : Bytes → Digest) (sz : Digest → Nat) (k : Disk) (d d' : Digest) (v : FileSt)
    (hne : d' ≠ d) (h : Present hash sz k d') : Present hash sz (k.setBlob d v) d' := by
  obtain ⟨f, hf, r⟩ := h
  exact ⟨f, by rw [setBlob_other _ _ _ _ hne]; exact hf, r⟩

/-- a (possibly crashed) `Put` under the digest's size never touches a stored blob: a full-size file is not reopened -/
theorem putCut_present (hash : Bytes → Digest) (sz : Digest → Nat) (k : Disk) (d d' : Digest) (s : Script)
    (p : List Eff) (hc : Cut (copyNamedEffs hash (k.blob d) d (sz d) s).1 p) (h : Present hash sz k d') :
    Present hash sz (k.setBlob d (run p (k.blob d))) d' := by
  by_cases hne : d' = d
  · subst hne
    obtain ⟨f, hf, hl, hz, hh⟩ := h
    have he : (copyNamedEffs hash (k.blob d') d' (sz d') s).1 = [] := by
      unfold copyNamedEffs; simp [hf, hl]
    rw [he] at hc
    cases hc
    exact ⟨f, by simp [setBlob_same, hf], hl, hz, hh⟩
  · exact present_setBlob_other hash sz k d d' _ hne h

theorem importCut_present (hash : Bytes → Digest) (sz : Digest → Nat) (k : Disk) (n : Nat) (s : Script)
    (d d' : Digest) (es p : List Eff) (hi : (importEffs hash n s).1 = some (d, es)) (hc : Cut es p)
    (hsz : sz (hash s.data) = s.data.length) (h : Present hash sz k d') :
    Present hash sz (k.setBlob d (run p (k.blob d))) d' := by
  by_cases hne : d' = d
  · subst hne
    obtain ⟨f, hf, hl, hz, hh⟩ := h
    unfold importEffs at hi
    split at hi
    · cases hi
    · split at hi
      · cases hi
      · simp only [Option.some.injEq, Prod.mk.injEq] at hi
        obtain ⟨rfl, rfl⟩ := hi
        cases hc with
        | stop => exact ⟨f, by simp [setBlob_same, hf], hl, hz, hh⟩
        | next _ _ p' hc' =>
          cases hc'
          refine ⟨s.data, by simp [setBlob_same, run, applyEff], hsz.symm, ?_, rfl⟩
          rw [← hsz, ← hl]; exact hz
  · exact present_setBlob_other hash sz k d d' _ hne h

theorem stepOp_present (hash : Bytes → Digest) (sz : Digest → Nat) (k : Disk) (op : Op) (d' : Digest)
    (hd : Disciplined hash sz k op) (hp : DisciplinedP hash sz op) (h : Present hash sz k d') :
    Present hash sz (stepOp hash true true k op).1 d' := by
  have hres : ∀ name, ResolveDisc hash sz k name → Present hash sz (resolve hash k name).1 d' := by
    intro name hrd
    rcases resolve_blob_cases hash k name with h1 | ⟨want, data, hp1, hm, h1⟩
    · rw [h1]; exact h
    · rw [h1]
      have := putCut_present hash sz k (hash data) d' ⟨[data], .eof⟩ _ (cut_full _) h
      rw [hrd want data hp1 hm] at this
      exact this
  have hblob : ∀ k2 : Disk, k2.blob = k.blob → Present hash sz k2 d' := by
    intro k2 he
    obtain ⟨f, hf, r⟩ := h
    exact ⟨f, by rw [he]; exact hf, r⟩
  cases op with
  | put d size s =>
    simp only [Disciplined] at hd
    subst hd
    exact putCut_present hash sz k d d' s _ (cut_full _) h
  | importB n s =>
    simp only [stepOp, importB]
    split
    · next d es r heq =>
      have hi : (importEffs hash n s).1 = some (d, es) := by rw [heq]
      exact importCut_present hash sz k n s d d' es es hi (cut_full es) hp h
    · exact h
  | get d => exact h
  | link name d => exact hblob _ (by simp only [stepOp]; rw [linkZ_blob_eq])
  | linkR name d =>
    by_cases hfire : linkRFires hash true true k name d = true
    · simp only [stepOp, hfire, if_true]
      obtain ⟨f, hf, r⟩ := hres name hd
      exact ⟨f, by rw [linkZ_blob_eq]; exact hf, r⟩
    · simp only [stepOp, hfire, Bool.false_eq_true, if_false]
      exact hblob _ (by rw [linkZ_blob_eq])
  | unlink name =>
    apply hblob
    simp only [stepOp, unlink]
    split
    · rfl
    · split <;> rfl
  | resolve name => exact hres name hd
  | chunk d size a b cd s => cases hd
  | session d size puts => cases hd
  | putNeg d s => cases hp
  | edit name data => exact hblob _ (by simp only [stepOp]; rw [edit_blob])

/-- **A stored blob stays retrievable** along every `strong` history with crashes (disciplined operations, no
    negative-size `Put`, no `Chunked`): once `Get(d)` reports `d` present with its size and right content — e.g. right
    after a successful store, `put_ok_retrievable` — it does so after any number of further complete or crashed
    operations on any digests and names, failing and crashing `Put`s of `d` itself included (a full-size file is never
    reopened).  What the guards exclude is witnessed: `undisciplined_put_destroys_linked_blob`,
    `F29_negative_size_put_destroys_blob`, `F10_chunk_holes_present_with_full_size`; concurrent faulty writers: F9. -/
theorem crash_history_present_persists (hash : Bytes → Digest) (sz : Digest → Nat) (k k' : Disk)
    (hr : CrashHist hash sz true k k') (d : Digest) (h0 : Present hash sz k d) : Present hash sz k' d := by
  induction hr with
  | refl => exact h0
  | step k' k'' _ hs ih =>
    cases hs with
    | op o hd hp => exact stepOp_present hash sz k' o d hd (hp rfl) ih
    | putCut d2 s p hc => exact putCut_present hash sz k' d2 d s p hc ih
    | importCut n s d2 es p hi hc hsz => exact importCut_present hash sz k' n s d2 d es p hi hc (hsz rfl) ih
    | resolveCut path data p _ hsz hc =>
      have := putCut_present hash sz k' (hash data) d ⟨[data], .eof⟩ p (by rw [hsz]; exact hc) ih
      exact this
    | linkCut name d2 want q _ _ =>
      obtain ⟨f, hf, r⟩ := ih
      exact ⟨f, hf, r⟩

/-- Non-vacuity of `CrashHist` (both strengths), `Disciplined`, `Present`: with the identity as hash and `sz = length`, a
    Put of `[1,2,3,4]` killed after its first chunk (file `[1,2]`), then an Import of the same content killed before its
    rename (file still `[1,2]`), then a complete Put that repairs it — ending `Present`, `Get` = 4 bytes. -/
theorem crashHist_nonvacuous :
    let c : Bytes := [1, 2, 3, 4]
    let s : Script := ⟨[[1, 2], [3, 4]], .eof⟩
    let k1 := Disk.empty.setBlob c (run [.openCreate false, .pwrite 0 [1, 2]] none)
    let k2 := k1.setBlob c (run [] (k1.blob c))
    let k3 := (stepOp idh true true k2 (.put c 4 s)).1
    CrashHist idh (fun d => d.length) true Disk.empty k3 ∧ k1.blob c = some [1, 2] ∧ getB k3 c = .entry 4 ∧
    Present idh (fun d => d.length) k3 c := by
  intro c s k1 k2 k3
  have hc1 : Cut (copyNamedEffs idh (Disk.empty.blob c) c ((fun d : Digest => d.length) c) s).1
      [.openCreate false, .pwrite 0 [1, 2]] := by
    have : (copyNamedEffs idh (Disk.empty.blob c) c ((fun d : Digest => d.length) c) s).1 =
        [.openCreate false, .pwrite 0 [1, 2], .pwrite 2 [3, 4], .close] := by decide
    rw [this]
    exact Cut.next _ _ _ (Cut.next _ _ _ (Cut.stop _))
  have h1 : CrashStep idh (fun d => d.length) true Disk.empty k1 :=
    CrashStep.putCut Disk.empty c s [.openCreate false, .pwrite 0 [1, 2]] hc1
  have h2 : CrashStep idh (fun d => d.length) true k1 k2 :=
    CrashStep.importCut k1 4 ⟨[[1, 2, 3, 4]], .eof⟩ c [.replace [1, 2, 3, 4]] [] (by decide) (Cut.stop _)
      (fun _ => by decide)
  have h3 : CrashStep idh (fun d => d.length) true k2 k3 :=
    CrashStep.op k2 (.put c 4 s) rfl (fun _ => trivial)
  exact ⟨.step _ _ _ (.step _ _ _ (.step _ _ _ (.refl _) h1) h2) h3, by decide, by decide,
    ⟨[1, 2, 3, 4], by decide, by decide, by decide, by decide⟩⟩

/-- **What the size discipline excludes, 1** (review B.2): a crash left `[1,2]` under the digest of `[1,2,3,4]`; a caller
    that now stores that digest under size 2 is answered `ok` from the same-size shortcut, and `Get` reports the blob
    present with the size it was (just) stored under — content `[1,2]`, wrong. -/
theorem size_lie_after_crash_present_wrong_content :
    let c : Bytes := [1, 2, 3, 4]
    let k1 := Disk.empty.setBlob c (run [.openCreate false, .pwrite 0 [1, 2]] none)
    let r := put idh k1 c 2 ⟨[[9, 9]], .eof⟩
    r.2 = .ok ∧ getB r.1 c = .entry 2 ∧ r.1.blob c = some [1, 2] ∧ ¬ Trusted idh (r.1.blob c) c 2 := by
  refine ⟨by decide, by decide, by decide, ?_⟩
  intro h
  exact absurd (h [1, 2] (by decide) (by decide) (by decide)) (by decide)

/-- **What the size discipline excludes, 2**: no crash — a stored AND linked blob, then a `Put` of the same digest under
    another size from a short source: refused, and its `Truncate(0)` has destroyed the linked blob (`Get` = not exist)
    while the name still resolves to it. -/
theorem undisciplined_put_destroys_linked_blob :
    let f : Bytes := [1, 2, 3]
    let k1 := (put idh Disk.empty f 3 ⟨[f], .eof⟩).1
    let k2 := (linkZ idh true true k1 nm f).1
    let r := put idh k2 f 2 ⟨[[7]], .eof⟩
    getB k2 f = .entry 3 ∧ r.2 = .short ∧ getB r.1 f = .res .notExist ∧
    manGet r.1.mans [[0x68], [0x6e], [0x6d], [0x74]] = some f := by
  decide

/-! ## round 7: the read limit of `Resolve`, negative sizes, manifests written behind the cache's back -/

/-- within the limit, `Resolve` with its `readAndSum(file, 1<<20)` IS `resolve` (both variants): every theorem about
    `resolve` is a theorem about the real `Resolve` of a manifest of at most `lim` bytes -/
theorem resolveL_eq_resolve (hash : Bytes → Digest) (strict : Bool) (lim : Nat) (k : Disk) (name : Bytes)
    (hsmall : ∀ want file, nameToPath (splitNameDigest name).1 = some want →
      manGet k.mans (manifestPathOf k.mans want) = some file → file.length ≤ lim) :
    resolveL hash strict lim k name = resolve hash k name := by
  unfold resolveL resolve
  simp only
  by_cases hnd : (splitNameDigest name).2 ≠ []
  · rw [if_pos hnd, if_pos hnd]
  · rw [if_neg hnd, if_neg hnd]
    cases hp : nameToPath (splitNameDigest name).1 with
    | none => rfl
    | some want =>
      simp only
      cases hm : manGet k.mans (manifestPathOf k.mans want) with
      | none => rfl
      | some file =>
        have hl := hsmall want file hp hm
        have ht : file.take lim = file := List.take_of_length_le hl
        have hr : readAndSum hash strict lim file = some (file, hash file) := by
          unfold readAndSum
          rw [if_neg (by omega), ht]
        simp only [hr]

/-- **Finding F28, general form (pinned `readAndSum`).**  A manifest file LONGER than the limit resolves — without
    error — to the digest of its first `lim` bytes, and that prefix is what gets stored as a blob: not the digest of
    the bytes linked. -/
theorem resolveL_oversize_prefix_digest (hash : Bytes → Digest) (lim : Nat) (k : Disk) (name : Bytes)
    (want : MPath) (file : Bytes) (hnd : (splitNameDigest name).2 = [])
    (hp : nameToPath (splitNameDigest name).1 = some want)
    (hm : manGet k.mans (manifestPathOf k.mans want) = some file) :
    (resolveL hash false lim k name).2 = .digest (hash (file.take lim)) := by
  unfold resolveL
  simp only [hnd, ne_eq, not_true_eq_false, if_false, hp, hm, readAndSum, Bool.false_eq_true, false_and]
  have hok : (put hash k (hash (file.take lim)) (file.take lim).length ⟨[file.take lim], .eof⟩).2 = .ok := by
    unfold put; exact copyNamed_exact_ok hash _ (file.take lim)
  simp only [hok]

/-- **With proposed_fixes/C08-F28.patch (`strict`) the clause holds at full strength for every manifest size:**
    whatever digest `Resolve(name)` answers is the hash of the WHOLE manifest file. -/
theorem resolveL_strict_hash_of_whole_file (hash : Bytes → Digest) (lim : Nat) (k : Disk) (name : Bytes)
    (d' : Digest) (hnd : (splitNameDigest name).2 = [])
    (h : (resolveL hash true lim k name).2 = .digest d') :
    ∃ want file, nameToPath (splitNameDigest name).1 = some want ∧
      manGet k.mans (manifestPathOf k.mans want) = some file ∧ d' = hash file := by
  unfold resolveL at h
  simp only [hnd, ne_eq, not_true_eq_false, if_false] at h
  cases hp : nameToPath (splitNameDigest name).1 with
  | none => simp [hp] at h
  | some want =>
    simp only [hp] at h
    cases hm : manGet k.mans (manifestPathOf k.mans want) with
    | none => simp [hm] at h
    | some file =>
      simp only [hm] at h
      by_cases hl : file.length > lim
      · have hr : readAndSum hash true lim file = none := by unfold readAndSum; rw [if_pos ⟨rfl, hl⟩]
        simp [hr] at h
      · have ht : file.take lim = file := List.take_of_length_le (by omega)
        have hr : readAndSum hash true lim file = some (file, hash file) := by
          unfold readAndSum; rw [if_neg (by omega), ht]
        simp only [hr] at h
        have hok : (put hash k (hash file) file.length ⟨[file], .eof⟩).2 = .ok := by
          unfold put; exact copyNamed_exact_ok hash _ file
        simp only [hok, Out.digest.injEq] at h
        exact ⟨want, file, rfl, hm, h.symm⟩

/-- **Finding F28, witness** (limit 2 instead of 2^20; identity as hash): `Put` of a 3-byte manifest, `Link` = ok,
    `Resolve` = ok with the digest of the first 2 bytes — not `d`; the repaired `readAndSum` answers an error. -/
theorem F28_oversize_manifest_resolves_to_prefix_digest :
    let f : Bytes := [1, 2, 3]
    let k1 := (put idh Disk.empty f 3 ⟨[f], .eof⟩).1
    let k2 := linkZ idh true true k1 nm f
    k2.2 = .ok ∧ (resolveL idh false 2 k2.1 nm).2 = .digest [1, 2] ∧
    getB (resolveL idh false 2 k2.1 nm).1 [1, 2] = .entry 2 ∧
    (resolveL idh true 2 k2.1 nm).2 = .res .tooLarge ∧ (resolveL idh true 3 k2.1 nm).2 = .digest f := by
  decide

/-- **Finding F29, witness.**  A stored, retrievable blob; `Put(d, <empty reader>, -1)` answers ok and the blob is
    gone (`Get` = not exist); with any data the answer is "exceeds" and the blob is gone as well.  With
    proposed_fixes/C08-F29.patch (`refuse`) the call is an error and nothing is touched. -/
theorem F29_negative_size_put_destroys_blob :
    let f : Bytes := [1, 2, 3]
    let k1 := (put idh Disk.empty f 3 ⟨[f], .eof⟩).1
    getB k1 f = .entry 3 ∧
    (putNeg false k1 f ⟨[], .eof⟩).2 = .ok ∧ getB (putNeg false k1 f ⟨[], .eof⟩).1 f = .res .notExist ∧
    (putNeg false k1 f ⟨[f], .eof⟩).2 = .exceeds ∧ getB (putNeg false k1 f ⟨[f], .eof⟩).1 f = .res .notExist ∧
    (putNeg true k1 f ⟨[], .eof⟩).2 = .negSize ∧ getB (putNeg true k1 f ⟨[], .eof⟩).1 f = .entry 3 := by
  decide

/-- what a negative-size `Put` can do, for every source and prior file: the file ends as it was (refused) or EMPTY —
    never a file that `Get` reports present, so it cannot break `Trusted` under any size; and it touches no other
    digest -/
theorem putNeg_safe (hash : Bytes → Digest) (refuse : Bool) (k : Disk) (d : Digest) (s : Script) (size : Nat)
    (h0 : Trusted hash (k.blob d) d size) :
    Trusted hash ((putNeg refuse k d s).1.blob d) d size ∧
    (∀ d', d' ≠ d → (putNeg refuse k d s).1.blob d' = k.blob d') ∧
    (refuse = true → (putNeg refuse k d s).1.blob d = k.blob d) := by
  refine ⟨?_, fun d' hd => setBlob_other _ _ _ _ hd, ?_⟩
  · simp only [putNeg, setBlob_same]
    rcases copyNamedNeg_file refuse (k.blob d) s with h1 | h1
    · rw [h1]; exact h0
    · rw [h1]; exact trusted_nil hash d size
  · intro hr; subst hr
    simp [putNeg, copyNamedNegEffs, setBlob_same, run]

/-- **A manifest written behind the cache's back is adopted by `Resolve`** (the legacy-cache / hand-edit case its doc
    comment describes): after `edit name data` (no other manifest equal to the name up to case sorting before it),
    `Resolve(name)` answers `hash data` and the bytes are retrievable as that blob, whatever trusted state the blob
    slot was in — in particular when no such blob existed. -/
theorem edit_then_resolve (hash : Bytes → Digest) (k : Disk) (name data : Bytes) (want : MPath)
    (hnd : (splitNameDigest name).2 = []) (hp : nameToPath (splitNameDigest name).1 = some want)
    (hp' : nameToPath name = some want)
    (hfirst : manifestPathOf (manSet k.mans want (some data)) want = want) :
    (resolve hash (edit k name data).1 name).2 = .digest (hash data) ∧
    (data ≠ [] → Trusted hash (k.blob (hash data)) (hash data) data.length →
      getB (resolve hash (edit k name data).1 name).1 (hash data) = .entry data.length) := by
  have he : (edit k name data).1 = { k with mans := manSet k.mans want (some data) } := by
    unfold edit; simp only [hp']
  have hm : manGet (edit k name data).1.mans (manifestPathOf (edit k name data).1.mans want) = some data := by
    rw [he]; simp only; rw [hfirst]; exact manGet_manSet_same k.mans want data
  have hok : (put hash (edit k name data).1 (hash data) data.length ⟨[data], .eof⟩).2 = .ok := by
    unfold put; exact copyNamed_exact_ok hash _ data
  have hres : (resolve hash (edit k name data).1 name).2 = .digest (hash data) := by
    unfold resolve
    simp only [hnd, ne_eq, not_true_eq_false, if_false, hp, hm, hok]
  refine ⟨hres, ?_⟩
  intro hne ht
  obtain ⟨want2, data2, hp2, hm2, hd2, _, hget⟩ := resolve_hash_of_file hash (edit k name data).1 name (hash data) hnd hres
  rw [hp] at hp2; cases hp2
  rw [hm] at hm2; cases hm2
  apply hget hne
  rw [edit_blob]; exact ht

example : (splitNameDigest nm).2 = [] ∧ (nameToPath nm).isSome = true ∧
    (∀ want, nameToPath nm = some want → manifestPathOf (manSet Disk.empty.mans want (some [7])) want = want) := by
  refine ⟨by decide, by decide, ?_⟩
  intro want hw
  have : nameToPath nm = some [[0x68], [0x6e], [0x6d], [0x74]] := by decide
  rw [this] at hw; cases hw; decide

/-! ### clause 2 over histories; the oracle's step is the theorems' step -/

/-- **A successful store, then anything: still retrievable** (clause 2 over histories).  On a trusted disk a `Put` of `d`
    under its (non-zero) size that answers ok makes `d` `Present`, and it stays `Present` along every strong history with
    crashes that follows. -/
theorem put_ok_stays_retrievable (hash : Bytes → Digest) (sz : Digest → Nat) (k k' : Disk) (d : Digest) (s : Script)
    (hsz : sz d ≠ 0) (h : AllTrusted hash sz k) (hok : (put hash k d (sz d) s).2 = .ok)
    (hr : CrashHist hash sz true (put hash k d (sz d) s).1 k') :
    Present hash sz k' d ∧ getB k' d = .entry (sz d) := by
  obtain ⟨_, f, hf, hl, hh⟩ := put_ok_retrievable hash k d (sz d) s hsz (h d) hok
  have hp : Present hash sz (put hash k d (sz d) s).1 d := ⟨f, hf, hl, by rw [hl]; exact hsz, hh⟩
  have := crash_history_present_persists hash sz _ k' hr d hp
  exact ⟨this, present_get hash sz k' d this⟩

/-- the same for `Import` -/
theorem import_ok_stays_retrievable (hash : Bytes → Digest) (sz : Digest → Nat) (k k' : Disk) (n : Nat) (s : Script)
    (d : Digest) (hok : (importB hash k n s).2 = .digest d) (hsz : sz (hash s.data) = s.data.length)
    (hne : s.data ≠ []) (hr : CrashHist hash sz true (importB hash k n s).1 k') :
    Present hash sz k' d ∧ getB k' d = .entry (sz d) := by
  have hp : Present hash sz (importB hash k n s).1 d := by
    unfold importB at hok ⊢
    unfold importEffs at hok ⊢
    split at hok
    · next heq =>
      split at heq
      · cases heq
      · split at heq
        · cases heq
        · simp only [Prod.mk.injEq, Option.some.injEq] at heq
          obtain ⟨⟨rfl, rfl⟩, _⟩ := heq
          simp only [Out.digest.injEq] at hok
          subst hok
          refine ⟨s.data, by simp [setBlob_same, run, applyEff], hsz.symm, ?_, rfl⟩
          intro h0; exact hne (List.eq_nil_of_length_eq_zero h0)
    · cases hok
  have := crash_history_present_persists hash sz _ k' hr d hp
  exact ⟨this, present_get hash sz k' d this⟩
/-- non-vacuity of the two theorems above: identity hash, `sz = length`; a Put (resp. Import) of `[1,2,3]`, then a failing
    Put of the same digest: still `Present` -/
example :
    let f : Bytes := [1, 2, 3]
    let sz : Digest → Nat := fun d => d.length
    (put idh Disk.empty f (sz f) ⟨[f], .eof⟩).2 = .ok ∧ (importB idh Disk.empty 3 ⟨[f], .eof⟩).2 = .digest f ∧
    CrashHist idh sz true (put idh Disk.empty f (sz f) ⟨[f], .eof⟩).1
      (stepOp idh true true (put idh Disk.empty f (sz f) ⟨[f], .eof⟩).1 (.put f 3 ⟨[[9]], .err⟩)).1 := by
  refine ⟨by decide, by decide, ?_⟩
  exact .step _ _ _ (.refl _) (CrashStep.op _ (.put [1, 2, 3] 3 ⟨[[9]], .err⟩) rfl (fun _ => trivial))

theorem manGet_mem' (mans : List (MPath × Bytes)) (p : MPath) (file : Bytes) (h : manGet mans p = some file) :
    ∃ e ∈ mans, e.2 = file := by
  unfold manGet at h
  cases hf : mans.find? (fun e => e.1 == p) with
  | none => simp [hf] at h
  | some e =>
    simp only [hf, Option.map_some, Option.some.injEq] at h
    exact ⟨e, List.mem_of_find?_eq_some hf, h⟩

/-- **What the oracle runs is what the theorems talk about.**  The history step the oracle evaluates (`stepOpL`: `Resolve`
    with its read limit, negative sizes at the tree's variant) IS `stepOp` on every disk whose manifests are within the
    limit, for the pinned negative-size behaviour — for either `readAndSum` variant. -/
theorem stepOpL_eq_stepOp (hash : Bytes → Digest) (fixed zc strict : Bool) (lim : Nat) (k : Disk) (op : Op)
    (hsmall : ∀ e ∈ k.mans, e.2.length ≤ lim) :
    stepOpL hash fixed zc strict false lim k op = stepOp hash fixed zc k op := by
  cases op with
  | resolve name =>
    simp only [stepOpL, stepOp]
    apply resolveL_eq_resolve
    intro want file _ hm
    obtain ⟨e, he, rfl⟩ := manGet_mem' _ _ _ hm
    exact hsmall e he
  | putNeg d s => rfl
  | put d size s => rfl
  | importB n s => rfl
  | get d => rfl
  | link name d => rfl
  | linkR name d => rfl
  | unlink name => rfl
  | chunk d size a b cd s => rfl
  | session d size puts => rfl
  | edit name data => rfl

example : stepOpL idh true true false false 2 Disk.empty (.resolve nm) = stepOp idh true true Disk.empty (.resolve nm) :=
  stepOpL_eq_stepOp idh true true false 2 Disk.empty (.resolve nm) (by intro e he; cases he)

/-! ## chunker sessions (one `Chunked`, several `Chunker.Put`s: state reused across calls) -/

/-- the single-`Put` session is `chunkEffs` (the `chunk` op of the histories) -/
theorem session_single (hash : Bytes → Digest) (st : FileSt) (size a b : Nat) (cd : Digest) (s : Script) :
    (sessionEffs hash st size [⟨a, b, cd, s⟩]).1 = (chunkEffs hash st size a b cd s).1 ∧
    (sessionEffs hash st size [⟨a, b, cd, s⟩]).2 = [(chunkEffs hash st size a b cd s).2] := by
  unfold sessionEffs chunkEffs chunkPutEffs
  split <;> simp

theorem pwriteAt_end (f bs : Bytes) : pwriteAt f f.length bs = f ++ bs := by
  unfold pwriteAt
  split
  · next h => simp [h]
  · simp [zeros]

theorem limitChunks_exact : ∀ (chunks : List Bytes) (n : Nat), chunks.flatten.length = n →
    (limitChunks n chunks .eof).1.flatten = chunks.flatten ∧ (limitChunks n chunks .eof).2 = .eof := by
  intro chunks
  induction chunks with
  | nil => intro n _; simp [limitChunks]
  | cons c cs ih =>
    intro n h
    simp only [List.flatten_cons, List.length_append] at h
    unfold limitChunks
    split
    · next h0 =>
      subst h0
      have hc : c = [] := List.eq_nil_of_length_eq_zero (by omega)
      have hcs : cs.flatten = [] := List.eq_nil_of_length_eq_zero (by omega)
      simp [hc, hcs]
    · split
      · next hge =>
        have hcs : cs.flatten = [] := List.eq_nil_of_length_eq_zero (by omega)
        have : c.take n = c := List.take_of_length_le (by omega)
        simp [hcs, this]
      · have := ih (n - c.length) (by omega)
        simp [this.1, this.2]

/-- writing the bytes that come next: a chunk whose source delivers `slice` (hashing to `cd`) onto a file that ends
    exactly where the chunk starts appends `slice`, and answers ok -/
theorem copyLoop_append (hash : Bytes → Digest) (slice : Bytes) (base : Nat) :
    ∀ (chunks : List Bytes) (seen f : Bytes), seen ++ chunks.flatten = slice → f.length = base + seen.length →
      slice.length ≠ 0 →
      (copyLoop hash (hash slice) slice.length base seen chunks .eof).2 = .ok ∧
      run (copyLoop hash (hash slice) slice.length base seen chunks .eof).1 (some f) = some (f ++ chunks.flatten) := by
  intro chunks
  induction chunks with
  | nil =>
    intro seen f h _ _
    simp only [List.flatten_nil, List.append_nil] at h
    subst h
    simp [copyLoop, run]
  | cons c cs ih =>
    intro seen f h hf hne
    unfold copyLoop
    split
    · next hc => subst hc; simpa using ih seen f (by simpa using h) hf hne
    · next hc =>
      have hlen : seen.length + c.length + cs.flatten.length = slice.length := by
        rw [← h]; simp [Nat.add_assoc]
      have h' : (seen ++ c) ++ cs.flatten = slice := by rw [← h]; simp
      split
      · next hu =>
        exfalso
        apply hu.2
        have : cs.flatten = [] := List.eq_nil_of_length_eq_zero (by omega)
        rw [this, List.append_nil] at h'
        rw [h']
      · split
        · next he => omega
        · have := ih (seen ++ c) (f ++ c) h' (by simp; omega) hne
          refine ⟨this.1, ?_⟩
          simp only [run_cons, applyEff]
          rw [← hf, pwriteAt_end, this.2]
          simp


/-- the puts tile `content` from offset `off` upward, contiguously and in order, each source delivering exactly its
    slice, under the slice's own digest (what the registry client does with a manifest's chunk list) -/
def Tiles (hash : Bytes → Digest) (content : Bytes) : Nat → List CPut → Prop
  | off, [] => off = content.length
  | off, c :: cs => c.start = off ∧ c.start ≤ c.stop ∧ c.stop < content.length ∧
      GoodScript ((content.drop c.start).take (c.stop - c.start + 1)) c.s ∧
      c.cd = hash ((content.drop c.start).take (c.stop - c.start + 1)) ∧ Tiles hash content (c.stop + 1) cs

theorem tiles_run (hash : Bytes → Digest) (content : Bytes) : ∀ (puts : List CPut) (off : Nat),
    Tiles hash content off puts → off ≤ content.length →
    run (puts.flatMap fun c => (chunkPutEffs hash c).1) (some (content.take off)) = some content ∧
    ∀ r ∈ puts.map (fun c => (chunkPutEffs hash c).2), r = .ok := by
  intro puts
  induction puts with
  | nil =>
    intro off h _
    simp only [Tiles] at h
    subst h
    simp [run]
  | cons c cs ih =>
    intro off h hoff
    obtain ⟨hs, hle, hlt, hgood, hcd, hrest⟩ := h
    subst hs
    have hn : ((content.drop c.start).take (c.stop - c.start + 1)).length = c.stop - c.start + 1 := by
      simp; omega
    obtain ⟨hflat, hfin⟩ := hgood
    have hlim := limitChunks_exact c.s.chunks (c.stop - c.start + 1) (by rw [hflat]; exact hn)
    have hput := copyLoop_append hash ((content.drop c.start).take (c.stop - c.start + 1)) c.start
      (limitChunks (c.stop - c.start + 1) c.s.chunks .eof).1 [] (content.take c.start)
      (by simp [hlim.1, hflat]) (by simp; omega) (by rw [hn]; omega)
    have heff : chunkPutEffs hash c =
        copyLoop hash (hash ((content.drop c.start).take (c.stop - c.start + 1)))
          ((content.drop c.start).take (c.stop - c.start + 1)).length c.start []
          (limitChunks (c.stop - c.start + 1) c.s.chunks .eof).1 .eof := by
      unfold chunkPutEffs
      simp only [hfin, hlim.2, hcd, hn]
    have htake : content.take c.start ++ (content.drop c.start).take (c.stop - c.start + 1) = content.take (c.stop + 1) := by
      have hsum : c.start + (c.stop - c.start + 1) = c.stop + 1 := by omega
      have h2 : content.take (c.start + (c.stop - c.start + 1)) =
          content.take c.start ++ (content.drop c.start).take (c.stop - c.start + 1) := List.take_add
      rw [← h2, hsum]
    have := ih (c.stop + 1) hrest (by omega)
    constructor
    · simp only [List.flatMap_cons, run_append]
      rw [heff, hput.2, hlim.1, hflat, htake]
      exact this.1
    · intro r hr
      simp only [List.map_cons, List.mem_cons] at hr
      rcases hr with rfl | hr
      · rw [heff]; exact hput.1
      · exact this.2 r hr

/-- **A chunked download that delivers every chunk stores the blob.**  One `Chunked(d, size)` on an absent file, then
    `Chunker.Put`s that tile the content in order, each verified against its own digest, then `Close`: every Put answers
    ok and the file IS the content — so, if the content hashes to `d`, the blob is present with the right content although
    no whole-file digest was ever checked.  (Out of order, partial or failing sessions: finding F10-cache.) -/
theorem session_tiling_complete (hash : Bytes → Digest) (content : Bytes) (puts : List CPut)
    (ht : Tiles hash content 0 puts) :
    run (sessionEffs hash none content.length puts).1 none = some content ∧
    ∀ r ∈ (sessionEffs hash none content.length puts).2, r = .ok := by
  have := tiles_run hash content puts 0 ht (Nat.zero_le _)
  unfold sessionEffs
  simp only [Option.map_none, reduceCtorEq, if_false]
  refine ⟨?_, this.2⟩
  simp only [run_cons, applyEff, run_append]
  have h0 : (some [] : FileSt) = some (content.take 0) := by simp
  rw [h0, this.1]
  rfl

example : Tiles idh [1, 2, 3, 4] 0 [⟨0, 1, [1, 2], ⟨[[1], [2]], .eof⟩⟩, ⟨2, 3, [3, 4], ⟨[[3, 4]], .eof⟩⟩] := by
  simp [Tiles, GoodScript, idh]

/-- … so a complete chunked download makes the blob `Present` (and by `crash_history_present_persists` it stays so) -/
theorem session_complete_present (hash : Bytes → Digest) (sz : Digest → Nat) (k : Disk) (d : Digest)
    (content : Bytes) (puts : List CPut) (hb : k.blob d = none) (hh : hash content = d) (hne : content ≠ [])
    (hsz : sz d = content.length) (ht : Tiles hash content 0 puts) :
    Present hash sz (session hash k d content.length puts).1 d ∧
    ∀ r ∈ (session hash k d content.length puts).2, r = .ok := by
  have := session_tiling_complete hash content puts ht
  unfold session
  rw [hb]
  refine ⟨⟨content, by simp only [setBlob_same]; exact this.1, hsz.symm, ?_, hh⟩, this.2⟩
  intro h0; exact hne (List.eq_nil_of_length_eq_zero h0)

example :
    let puts : List CPut := [⟨0, 1, [1, 2], ⟨[[1], [2]], .eof⟩⟩, ⟨2, 3, [3, 4], ⟨[[3, 4]], .eof⟩⟩]
    Tiles idh [1, 2, 3, 4] 0 puts ∧ (session idh Disk.empty [1, 2, 3, 4] 4 puts).1.blob [1, 2, 3, 4] = some [1, 2, 3, 4] := by
  refine ⟨by simp [Tiles, GoodScript, idh], by decide⟩

end OllamaVerif.C08
