/-
  C01, stated WITHOUT the ghost field `holders`.

  `Properties/C01.lean` states the main theorem through `uses s q r := q ∈ (s.runners r).holders`, a ghost list the
  model maintains itself.  The property text speaks of a runner "handed to a request" that is "still in progress":
  in the model these are the observable fields `(s.reqs q).gotRunner = some r` and `(s.reqs q).done = false`.
  This file proves the bridge between the two as an invariant of every reachable state (any variant),

      gotRunner q = some r  ∧  done q = false   →   heldBy q = some r        (`Bridge.b1`)

  (a request lets go of its hold only in the finished-event region `cFin`, whose token was posted by the finish
  waiter, which waits for the request's context to end), and from it the ghost-free statements of C01:

    `in_progress_request_uses`               gotRunner q = some r ∧ ¬done q → q ∈ holders r
    `closed_runner_only_granted_to_finished`  closed r ∧ gotRunner q = some r → done q            (shut down ⇒ not in use)
    `used_runner_is_loaded`                   q ∈ holders r → loaded[model r] = r                 (not UNLOADED while in use)
    `in_progress_runner_is_loaded_and_open`   gotRunner q = some r ∧ ¬done q → r open ∧ loaded[model r] = r
-/
import OllamaVerif.Properties.C11

namespace OllamaVerif.C01
open OllamaVerif.Sched

structure Bridge (s : State) : Prop where
  b1 : ∀ q r, (s.reqs q).gotRunner = some r → (s.reqs q).done = false → (s.reqs q).heldBy = some r
  b2 : ∀ q, q ∈ s.finishedQ → (s.reqs q).done = true
  b3 : ∀ q r, s.cpc = .fin q r → (s.reqs q).done = true

theorem bridge_init (mr mq ds : Nat) : Bridge (Sched.init mr mq ds) := by
  refine ⟨?_, ?_, ?_⟩ <;> intros <;> simp_all [Sched.init]

/-- requests that do not exist yet have no token anywhere -/
theorem fresh_not_finished {s : State} (h4 : Inv4 s) : s.nReqs ∉ s.finishedQ := by
  intro hm
  have := (h4.fr s.nReqs (Nat.le_refl _)).2
  unfold tokens at this
  simp only [List.count_append] at this
  have hc : 0 < s.finishedQ.count s.nReqs := List.count_pos_iff.mpr hm
  omega

theorem fresh_not_fin {s : State} (h4 : Inv4 s) (r : Rid) : s.cpc ≠ .fin s.nReqs r := by
  intro hc
  have := (h4.fr s.nReqs (Nat.le_refl _)).2
  unfold tokens at this
  simp only [List.count_append, hc, CPC.tok] at this
  simp at this

set_option linter.unusedSimpArgs false
set_option linter.unusedVariables false

macro "bridge_close" : tactic => `(tactic|
  (refine ⟨?_, ?_, ?_⟩ <;> intros <;>
    simp only [replyRunner, replyErr, releaseHold, finishOn, setReq, setRunner, upd, triggerExpire] at * <;>
    (try (repeat' split at *)) <;> simp_all))

theorem finishOn_reqs (s : State) (r : Rid) : (finishOn s r).reqs = s.reqs := by
  unfold finishOn; simp only []; (repeat' split) <;> rfl
theorem finishOn_finishedQ (s : State) (r : Rid) : (finishOn s r).finishedQ = s.finishedQ := by
  unfold finishOn; simp only []; (repeat' split) <;> rfl
theorem finishOn_cpc (s : State) (r : Rid) : (finishOn s r).cpc = .idle := by
  unfold finishOn; simp only []; (repeat' split) <;> rfl
theorem releaseHold_finishedQ (s : State) (q : ReqId) : (releaseHold s q).finishedQ = s.finishedQ := by
  unfold releaseHold; split <;> rfl
theorem releaseHold_reqs_ne (s : State) (q q' : ReqId) (h : q' ≠ q) : (releaseHold s q).reqs q' = s.reqs q' := by
  unfold releaseHold; split
  · rfl
  · simp [setReq, setRunner, upd, h]
theorem releaseHold_done (s : State) (q q' : ReqId) : ((releaseHold s q).reqs q').done = (s.reqs q').done := by
  unfold releaseHold; split
  · rfl
  · simp only [setReq, setRunner, upd]; split
    · rename_i he; subst he; rfl
    · rfl

/-- every action preserves the bridge (any variant; `Inv4` only says that requests that do not exist yet have no finish token) -/
theorem bridge_step {v : Variant} {s s' : State} (a : Act) (h4 : Inv4 s) (hb : Bridge s)
    (hs : step v s a = some s') : Bridge s' := by
  have hf1 := fresh_not_finished h4
  have hf2 := fresh_not_fin h4
  obtain ⟨b1, b2, b3⟩ := hb
  cases a
  case submit m o se =>
    simp only [step] at hs
    split at hs <;> cases hs
    · refine ⟨?_, ?_, ?_⟩
      · intro q r; simp only [upd]; split
        · simp
        · exact b1 q r
      · intro q hq; simp only [upd]; split
        · rename_i he; subst he; exact absurd hq hf1
        · exact b2 q hq
      · intro q r hc; simp only [upd]; split
        · rename_i he; subst he; exact absurd hc (hf2 r)
        · exact b3 q r hc
    · refine ⟨?_, ?_, ?_⟩
      · intro q r; simp only [replyErr, setReq, upd]; split
        · simp
        · exact b1 q r
      · intro q hq; simp only [replyErr, setReq, upd]
        have hne : q ≠ s.nReqs := by intro he; subst he; exact hf1 hq
        simp [hne]; exact b2 q hq
      · intro q r hc; simp only [replyErr, setReq, upd]
        have hne : q ≠ s.nReqs := by intro he; subst he; exact hf2 r hc
        simp [hne]; exact b3 q r hc
  case cFin =>
    simp only [step] at hs
    split at hs
    · rename_i q r hc
      split at hs
      · cases hs
      · cases hs
        have hd := b3 q r hc
        refine ⟨?_, ?_, ?_⟩
        · intro q' r'
          rw [finishOn_reqs]
          by_cases he : q' = q
          · subst he; intro _ hnd; rw [releaseHold_done] at hnd; rw [hd] at hnd; cases hnd
          · rw [releaseHold_reqs_ne _ _ _ he]; exact b1 q' r'
        · intro q' hq'
          rw [finishOn_finishedQ, releaseHold_finishedQ] at hq'
          rw [finishOn_reqs, releaseHold_done]; exact b2 q' hq'
        · intro q' r' hc'
          rw [finishOn_cpc] at hc'; cases hc'
    · cases hs
  case finishSend q =>
    simp only [step] at hs
    split at hs
    · rename_i hq
      cases hs
      refine ⟨b1, ?_, b3⟩
      intro q' hq'
      rcases List.mem_append.mp hq' with h | h
      · exact b2 q' h
      · simp at h; subst h; simpa using hq.2
    · cases hs
  all_goals (
    simp only [step] at hs
    (try (repeat' split at hs))
    all_goals (first | (cases hs; done) | skip)
    all_goals (try (simp only [Option.some.injEq] at hs))
    all_goals (try subst hs)
    all_goals (first | done | bridge_close))

theorem reach_bridge {mr mq ds : Nat} {s : State} (h : Reach Variant.good (Sched.init mr mq ds) s) : Bridge s := by
  induction h with
  | init => exact bridge_init mr mq ds
  | step a hprev hs ih => exact bridge_step a (reach_inv (inv_init mr mq ds) hprev).i4 ih hs

/-- **Bridge**: a request that was handed runner `r` and whose context has not ended is one of `r`'s holders -/
theorem in_progress_request_uses {mr mq ds : Nat} {s : State} (h : Reach Variant.good (init0 mr mq ds) s)
    (q : ReqId) (r : Rid) (hg : (s.reqs q).gotRunner = some r) (hd : (s.reqs q).done = false) :
    r < s.nRunners ∧ q < s.nReqs ∧ uses s q r := by
  have hb := (reach_bridge h).b1 q r hg hd
  have := (reach_inv (inv_init mr mq ds) h).i4.g1 q r hb
  exact ⟨this.1, this.2.1, this.2.2.1⟩

/-- **C01, ghost-free**: in every reachable state, a runner that has been shut down was handed only to requests that
    have finished — no request in progress holds a shut-down runner -/
theorem closed_runner_only_granted_to_finished {mr mq ds : Nat} {s : State} (h : Reach Variant.good (init0 mr mq ds) s)
    (q : ReqId) (r : Rid) (hc : (s.runners r).closed = true) (hg : (s.reqs q).gotRunner = some r) :
    (s.reqs q).done = true := by
  cases hd : (s.reqs q).done with
  | true => rfl
  | false =>
    exfalso
    obtain ⟨hr, _, hu⟩ := in_progress_request_uses h q r hg hd
    exact closed_runner_has_no_user h r hr hc q hu

/-- **Not unloaded while in use**: a runner with a holder is the entry of its model in `loaded` (and open) -/
theorem used_runner_is_loaded {mr mq ds : Nat} {s : State} (h : Reach Variant.good (init0 mr mq ds) s)
    (q : ReqId) (r : Rid) (hr : r < s.nRunners) (hu : uses s q r) :
    (s.runners r).closed = false ∧ lookup s.loaded (s.runners r).model = some r := by
  have hi := reach_inv (inv_init mr mq ds) h
  have hopen : (s.runners r).closed = false := by
    cases hc : (s.runners r).closed with
    | false => rfl
    | true => exact absurd hu (closed_runner_has_no_user h r hr hc q)
  exact ⟨hopen, hi.i3.live r hr hopen⟩

/-- **C01, ghost-free, both clauses**: while a request that was handed runner `r` is in progress, `r` is neither shut
    down nor unloaded -/
theorem in_progress_runner_is_loaded_and_open {mr mq ds : Nat} {s : State} (h : Reach Variant.good (init0 mr mq ds) s)
    (q : ReqId) (r : Rid) (hg : (s.reqs q).gotRunner = some r) (hd : (s.reqs q).done = false) :
    (s.runners r).closed = false ∧ lookup s.loaded (s.runners r).model = some r := by
  obtain ⟨hr, _, hu⟩ := in_progress_request_uses h q r hg hd
  exact used_runner_is_loaded h q r hr hu

/-! ### non-vacuity -/

theorem reach_of_run {v : Variant} {s0 : State} : ∀ (l : List Act) (s1 s : State), Reach v s0 s1 → run v s1 l = some s → Reach v s0 s := by
  intro l
  induction l with
  | nil => intro s1 s h hr; simp [run] at hr; subst hr; exact h
  | cons a as ih =>
    intro s1 s h hr
    simp only [run] at hr
    cases hs : step v s1 a with
    | none => simp [hs] at hr
    | some s2 => simp only [hs] at hr; exact ih s2 s (Reach.step a h hs) hr

/-- runner 0 is used, released, and then expired TWICE (keep-alive timer and an explicit unload): two expired events -/
def twiceExpiredTrace : List Act :=
  [.submit 0 0 none, .pTake, .pLookup fit0, .pLoad true, .loadDone 0 true, .done 0, .finishSend 0, .cTakeFinished, .cFin,
   .timerFire 0, .timerCb 0, .explicitUnload 0, .unloadBind 0, .cTakeExpired, .cExp, .cVram, .cTakeExpired, .cExp, .cVram]

/-- the second `unload()` is a no-op: closed once, two unload notifications -/
theorem twice_expired_closes_once :
    (run Variant.good (init0 0 512 1) twiceExpiredTrace).map
      (fun s => ((s.runners 0).closed, (s.runners 0).closeCount, s.unloadedQ, (s.reqs 0).gotRunner, (s.reqs 0).done)) =
      some (true, 1, 2, some 0, true) := by decide

/-- non-vacuity of `closed_runner_has_no_user` / `closed_runner_only_granted_to_finished`: under the GOOD variant there
    is a reachable state with a shut-down runner that had been handed to a request -/
example : ∃ s, Reach Variant.good (init0 0 512 1) s ∧ (s.runners 0).closed = true ∧ (s.reqs 0).gotRunner = some 0 ∧ 0 < s.nRunners := by
  cases hr : run Variant.good (init0 0 512 1) twiceExpiredTrace with
  | none => exact absurd hr (by decide)
  | some s =>
    have h2 : (run Variant.good (init0 0 512 1) twiceExpiredTrace).map
        (fun s => (s.runners 0).closed && ((s.reqs 0).gotRunner == some 0) && decide (0 < s.nRunners)) = some true := by decide
    rw [hr] at h2
    simp at h2
    exact ⟨s, reach_of_run _ _ _ Reach.init hr, h2.1.1, h2.1.2, h2.2⟩

/-- non-vacuity of the bridge: a reachable state with a request in progress holding its runner -/
example : ∃ s, Reach Variant.good (init0 0 512 1) s ∧ (s.reqs 0).gotRunner = some 0 ∧ (s.reqs 0).done = false := by
  cases hr : run Variant.good (init0 0 512 1) (twiceExpiredTrace.take 5) with
  | none => exact absurd hr (by decide)
  | some s =>
    have h2 : (run Variant.good (init0 0 512 1) (twiceExpiredTrace.take 5)).map
        (fun s => ((s.reqs 0).gotRunner == some 0) && !(s.reqs 0).done) = some true := by decide
    rw [hr] at h2
    simp at h2
    exact ⟨s, reach_of_run _ _ _ Reach.init hr, h2.1, h2.2⟩

end OllamaVerif.C01
