/-
  C09 — Registry client: success means every layer verified; manifest committed last.

  Property theorems over the model in Model/Registry.lean (all universally quantified: every file
  content, offset, chunk length, digest, body split, manifest, plan, step script, MaxStreams,
  history), Lean-checked witnesses for the four sub-cases of finding F10, and the partial form of
  `pull_success_verified`.

  What is NOT proved here (see notes/C09.md): the attempt-level statement "success ⇒ every layer
  verified" under the guard "every plan an exact partition ∧ no full-length file left by an
  earlier attempt" for ARBITRARY completion orders; `pull_success_verified_partial` covers
  in-order completion (MaxStreams = 1) on a file continued by the partition.  The unguarded
  statement is false: F10a–F10d.
-/
import OllamaVerif.Model.Registry

namespace OllamaVerif.C09
open OllamaVerif OllamaVerif.Registry

/-! ### The chunk writer -/

theorem zeros_length (n : Nat) : (zeros n).length = n := by simp [zeros]

theorem writeAt_nil (f : Bytes) (off : Nat) : writeAt f off [] = f := by simp [writeAt]

theorem writeAt_ne_nil (f : Bytes) (off : Nat) (d : Bytes) (h : d ≠ []) :
    writeAt f off d = (f ++ zeros (off - f.length)).take off ++ d ++ f.drop (off + d.length) := by
  cases d with
  | nil => exact absurd rfl h
  | cons x xs => simp [writeAt]

theorem prefix_length (f : Bytes) (off : Nat) : ((f ++ zeros (off - f.length)).take off).length = off := by
  simp [zeros_length]; omega

theorem writeAt_length (f : Bytes) (off : Nat) (d : Bytes) (h : d ≠ []) :
    (writeAt f off d).length = max f.length (off + d.length) := by
  rw [writeAt_ne_nil f off d h]
  simp only [List.length_append, prefix_length, List.length_drop]
  omega

/-- successive writes of a chunk's pieces are one write of their concatenation -/
theorem writeAt_writeAt (f : Bytes) (off : Nat) (a b : Bytes) :
    writeAt (writeAt f off a) (off + a.length) b = writeAt f off (a ++ b) := by
  by_cases ha : a = []
  · subst ha; simp [writeAt_nil]
  by_cases hb : b = []
  · subst hb; simp [writeAt_nil]
  have hab : a ++ b ≠ [] := by simp [ha]
  rw [writeAt_ne_nil _ _ b hb, writeAt_ne_nil f off (a ++ b) hab]
  have hlen := writeAt_length f off a ha
  have h0 : off + a.length - (writeAt f off a).length = 0 := by omega
  have hz : zeros 0 = [] := rfl
  rw [h0, hz, List.append_nil]
  rw [writeAt_ne_nil f off a ha]
  have hp := prefix_length f off
  generalize hP : (f ++ zeros (off - f.length)).take off = P at *
  have e1 : (P ++ a ++ f.drop (off + a.length)).take (off + a.length) = P ++ a := by
    rw [List.take_append_of_le_length (by simp [hp])]
    rw [List.take_of_length_le (by simp [hp])]
  have e2 : (P ++ a ++ f.drop (off + a.length)).drop (off + a.length + b.length) = f.drop (off + (a ++ b).length) := by
    rw [List.drop_append, List.drop_of_length_le (by simp [hp])]
    simp only [List.length_append, hp, List.nil_append, List.drop_drop]
    congr 1; omega
  rw [e1, e2]; simp [List.append_assoc]

theorem writeAt_zero_of_le (f data : Bytes) (h : f.length ≤ data.length) (hd : data ≠ []) :
    writeAt f 0 data = data := by
  rw [writeAt_ne_nil f 0 data hd]
  simp [List.drop_of_length_le h]

theorem slice_writeAt (f : Bytes) (off : Nat) (data : Bytes) (hd : data ≠ []) :
    ((writeAt f off data).drop off).take data.length = data := by
  rw [writeAt_ne_nil f off data hd]
  have hp := prefix_length f off
  generalize (f ++ zeros (off - f.length)).take off = P at *
  rw [List.append_assoc, List.drop_append, List.drop_of_length_le (by omega)]
  simp [hp]

section
variable {D : Type} [DecidableEq D]

/-- What `Chunker.Put` does to the file, for every split of the body into reads: it writes a
    prefix `data` of what it read at the chunk's offset; on success `data` is the whole chunk and
    hashes (together with what was hashed before) to the expected digest; on failure `data` is
    strictly shorter than the chunk. -/
theorem putLoop_spec (H : Bytes → D) (d : D) (pieces : List Bytes) (fin : BodyEnd) :
    ∀ (f : Bytes) (off rem : Nat) (acc : Bytes),
    ∃ data : Bytes, (putLoop H d f off rem acc pieces fin).1 = writeAt f off data ∧
      ((putLoop H d f off rem acc pieces fin).2 = none →
          data.length = rem ∧ (0 < rem → H (acc ++ data) = d)) ∧
      (∀ e, (putLoop H d f off rem acc pieces fin).2 = some e → data.length < rem) := by
  induction pieces with
  | nil =>
    intro f off rem acc
    refine ⟨[], ?_⟩
    unfold putLoop
    by_cases h : rem = 0 <;> simp [h, writeAt_nil] <;> omega
  | cons p ps ih =>
    intro f off rem acc
    unfold putLoop
    by_cases h : rem = 0
    · refine ⟨[], ?_⟩; simp [h, writeAt_nil]
    · simp only [h, if_false]
      have hle : (p.take rem).length ≤ rem := by simp [List.length_take]; omega
      by_cases hfull : (p.take rem).length = rem
      · simp only [hfull, if_true]
        by_cases hh : H (acc ++ p.take rem) = d
        · refine ⟨p.take rem, ?_⟩; simp [hh, hfull]
        · refine ⟨[], ?_⟩; simp [hh, writeAt_nil]; omega
      · simp only [hfull, if_false]
        obtain ⟨data2, h1, h2, h3⟩ := ih (writeAt f off (p.take rem)) (off + (p.take rem).length)
          (rem - (p.take rem).length) (acc ++ p.take rem)
        refine ⟨p.take rem ++ data2, ?_, ?_, ?_⟩
        · rw [h1, writeAt_writeAt]
        · intro hn
          obtain ⟨hl, hH⟩ := h2 hn
          refine ⟨by simp only [List.length_append]; omega, fun _ => ?_⟩
          rw [← List.append_assoc]; exact hH (by omega)
        · intro e he
          have := h3 e he
          simp only [List.length_append]; omega

/-- **Per-chunk verification.**  For every file, offset, chunk length, expected digest and every
    way the body is delivered: if `Put` succeeds, the chunk's region of the file holds `len`
    bytes whose hash is the expected digest (checked before the region was completed). -/
theorem put_ok_verified (H : Bytes → D) (d : D) (f f' : Bytes) (off len : Nat) (pieces : List Bytes)
    (fin : BodyEnd) (hpos : 0 < len) (h : putLoop H d f off len [] pieces fin = (f', none)) :
    ∃ data, data.length = len ∧ H data = d ∧ f' = writeAt f off data ∧
      (f'.drop off).take len = data := by
  obtain ⟨data, h1, h2, _⟩ := putLoop_spec H d pieces fin f off len []
  rw [h] at h1 h2
  have h1 : f' = writeAt f off data := h1
  obtain ⟨hl, hH⟩ := h2 rfl
  have hd : data ≠ [] := by intro h0; rw [h0] at hl; simp at hl; omega
  refine ⟨data, hl, by simpa using hH hpos, h1, ?_⟩
  rw [h1, ← hl]; exact slice_writeAt f off data hd

/-- a failed `Put` never completes its region: the file is either untouched or ends strictly
    before the end of the chunk -/
theorem put_failed_stays_short (H : Bytes → D) (d : D) (f f' : Bytes) (off len : Nat) (pieces : List Bytes)
    (fin : BodyEnd) (e : ErrClass) (h : putLoop H d f off len [] pieces fin = (f', some e)) :
    f'.length = f.length ∨ f'.length < off + len := by
  obtain ⟨data, h1, _, h3⟩ := putLoop_spec H d pieces fin f off len []
  rw [h] at h1 h3
  have h1 : f' = writeAt f off data := h1
  have hl := h3 e rfl
  by_cases hd : data = []
  · left; rw [h1, hd, writeAt_nil]
  · rw [h1, writeAt_length f off data hd]; omega

/-- a whole-layer `Put` (offset 0) into a file that is not longer than the layer leaves exactly
    the verified bytes -/
theorem put_whole_layer_verified (H : Bytes → D) (d : D) (f f' : Bytes) (size : Nat) (pieces : List Bytes)
    (fin : BodyEnd) (hpos : 0 < size) (hf : f.length ≤ size)
    (h : putLoop H d f 0 size [] pieces fin = (f', none)) :
    f'.length = size ∧ H f' = d := by
  obtain ⟨data, hl, hH, h1, _⟩ := put_ok_verified H d f f' 0 size pieces fin hpos h
  have hd : data ≠ [] := by intro h0; rw [h0] at hl; simp at hl; omega
  rw [h1, writeAt_zero_of_le f data (by omega) hd]
  exact ⟨hl, hH⟩

/-- **Single-chunk layers (below the chunking threshold).**  When `Pull` downloads such a layer
    (the size shortcut did not apply: the file is shorter than the layer), then whatever the
    registry sends and however it is split into reads: the file never becomes longer than the
    layer, it reaches the layer's size exactly when the download succeeds, and then its hash is
    the manifest's digest — the whole-layer hash is checked before the size-completing write. -/
theorem pull_small_layers_verified (H : Bytes → D) (d : D) (f : Bytes) (size : Nat) (pieces : List Bytes)
    (fin : BodyEnd) (hf : f.length < size) :
    let r := putLoop H d f 0 size [] pieces fin
    r.1.length ≤ size ∧ (r.1.length = size ↔ r.2 = none) ∧ (r.2 = none → H r.1 = d) := by
  intro r
  have hpos : 0 < size := by omega
  cases hr : r.2 with
  | none =>
    have h : putLoop H d f 0 size [] pieces fin = (r.1, none) := by rw [← hr]
    obtain ⟨hl, hH⟩ := put_whole_layer_verified H d f r.1 size pieces fin hpos (by omega) h
    exact ⟨by omega, by simp [hl], fun _ => hH⟩
  | some e =>
    have h : putLoop H d f 0 size [] pieces fin = (r.1, some e) := by rw [← hr]
    have := put_failed_stays_short H d f r.1 0 size pieces fin e h
    refine ⟨by omega, ?_, by simp⟩
    constructor
    · intro hEq; omega
    · intro h0; cases h0

/-! ### Link is last -/

theorem setWork_links (v : Variant) (c : Cache D) (d : D) (f : Bytes) : (c.setWork v d f).links = c.links := by
  unfold Cache.setWork; split <;> rfl

theorem ensureFile_links (v : Variant) (c : Cache D) (d : D) : (ensureFile v c d).links = c.links := by
  unfold ensureFile; split
  · rfl
  · exact setWork_links v c d []

theorem advance_links (verify : Variant) (limit : Option Nat) (st : Run D) (ops : List (Op D)) :
    (advance verify limit st ops).cache.links = st.cache.links := by
  fun_induction advance verify limit st ops <;> simp_all [ensureFile_links]
  split <;> simp [ensureFile_links]

theorem applyTask_links (H : Bytes → D) (v : Variant) (st : Run D) (t : Registry.Task D) (r : ChunkResp) :
    (applyTask H v st t r).cache.links = st.cache.links := by
  cases r with
  | fail e => rfl
  | redirect => rfl
  | body ps fin =>
    simp only [applyTask]
    split
    · rfl
    · split <;> simp [Cache.setMarker, setWork_links]

theorem step_links (H : Bytes → D) (verify : Variant) (limit : Option Nat) (st st' : Run D) (s : Step)
    (h : step H verify limit st s = some st') : st'.cache.links = st.cache.links := by
  cases s with
  | release k r =>
    simp only [step] at h
    split at h
    · cases h
    · split at h
      · injection h with h; subst h; rfl
      · injection h with h; subst h
        rw [advance_links]
        split <;> simp [applyTask_links]
  | cancel =>
    simp only [step] at h
    injection h with h; subst h
    rw [advance_links]
  | timeout =>
    simp only [step] at h
    injection h with h; subst h
    rw [advance_links]

theorem runSteps_links (H : Bytes → D) (verify : Variant) (limit : Option Nat) (ss : List Step) :
    ∀ (st st' : Run D), runSteps H verify limit st ss = some st' → st'.cache.links = st.cache.links := by
  induction ss with
  | nil => intro st st' h; simp only [runSteps] at h; injection h with h; subst h; rfl
  | cons s ss ih =>
    intro st st' h
    simp only [runSteps] at h
    split at h
    · cases h
    · rename_i st1 hs
      rw [ih st1 st' h, step_links H verify limit st st1 s hs]

theorem pullRun_links (H : Bytes → D) (cfg : Cfg) (c : Cache D) (m : Manifest D) (a : Attempt D)
    (st : Run D) (h : pullRun H cfg c m a = some st) : st.cache.links = c.links := by
  unfold pullRun at h
  rw [runSteps_links H cfg.variant cfg.limit a.steps _ st h]
  unfold startRun
  simp only []
  rw [advance_links]

theorem commitStaged_links (H : Bytes → D) (c : Cache D) (l : Layer D) :
    (commitStaged H c l).1.links = c.links := by
  unfold commitStaged; split
  · rfl
  · split <;> rfl

theorem verifyLayer_links (H : Bytes → D) (c : Cache D) (l : Layer D) :
    (verifyLayer H c l).1.links = c.links := by
  unfold verifyLayer; split
  · split
    · split <;> rfl
    · exact commitStaged_links H c l
  · exact commitStaged_links H c l

theorem verifyAll_links (H : Bytes → D) (ls : List (Layer D)) :
    ∀ c : Cache D, (verifyAll H c ls).1.links = c.links := by
  induction ls with
  | nil => intro c; rfl
  | cons l ls ih =>
    intro c
    unfold verifyAll
    have := verifyLayer_links H c l
    split
    · rename_i c1 h1; rw [ih c1]; rw [h1] at this; exact this
    · rename_i c1 h1; rw [h1] at this; exact this

theorem verifyPass_links (H : Bytes → D) (cfg : Cfg) (c : Cache D) (m : Manifest D) :
    (verifyPass H cfg c m).1.links = c.links := by
  unfold verifyPass
  split
  · exact verifyAll_links H m.all c
  · split
    · split <;> rfl
    · rfl

/-- **Link is last.**  For every manifest, plan, fault script, completion order and MaxStreams:
    if `Pull` reports success then the run reached `g.Wait()` with every launched chunk goroutine
    returned (`inflight = []`, program exhausted), none of them failed (`firstErr = none`), the
    byte counter equals the manifest's total, the verification pass (if the tree has one) passed,
    nothing up to that point touched the links, and the final cache is that state plus the one
    `Link`. -/
theorem pull_links_last (H : Bytes → D) (cfg : Cfg) (c c' : Cache D) (a : Attempt D)
    (h : pull H cfg c a = (c', .ok)) :
    ∃ m st c1, a.man = .ok m ∧ pullRun H cfg c m a = some st ∧ st.ops = [] ∧ st.inflight = [] ∧
      st.firstErr = none ∧ st.completed = expected m ∧ verifyPass H cfg st.cache m = (c1, true) ∧
      c1.links = c.links ∧ c' = c1.link cfg.linkShortcut a.name m := by
  unfold pull at h
  split at h
  · cases h
  · rename_i m hm
    split at h
    · cases h
    · split at h
      · cases h
      · rename_i st hst
        unfold finish at h
        split at h
        · cases h
        · rename_i hdone
          split at h
          · cases h
          · rename_i hfe
            split at h
            · cases h
            · rename_i hc
              have hdone' : st.ops.isEmpty = true ∧ st.inflight.isEmpty = true := by
                simpa using hdone
              have hc' : st.completed = expected m := by simpa using hc
              split at h
              · rename_i c1 hv
                simp only [Prod.mk.injEq, and_true] at h
                have hl : c1.links = c.links := by
                  have := verifyPass_links H cfg st.cache m
                  rw [hv] at this
                  rw [this, pullRun_links H cfg c m a st hst]
                exact ⟨m, st, c1, hm, hst, by simpa using hdone'.1, by simpa using hdone'.2, hfe, hc',
                  hv, hl, h.symm⟩
              · simp at h

theorem finish_links (H : Bytes → D) (cfg : Cfg) (name : Nat) (m : Manifest D) (st : Run D)
    (h : (finish H cfg name m st).2 ≠ .ok) :
    (finish H cfg name m st).1.links = st.cache.links := by
  unfold finish at h ⊢
  split
  · rfl
  · split
    · rfl
    · split
      · rfl
      · have := verifyPass_links H cfg st.cache m
        split
        · rename_i hv; simp [*] at h
        · rename_i c1 hv; rw [hv] at this; exact this

/-- **A failed pull never links.**  Whatever the registry does, if `Pull` returns an error the
    name → manifest links are exactly what they were before the call. -/
theorem failed_pull_keeps_links (H : Bytes → D) (cfg : Cfg) (c : Cache D) (a : Attempt D)
    (h : (pull H cfg c a).2 ≠ .ok) : (pull H cfg c a).1.links = c.links := by
  unfold pull at h ⊢
  split
  · rfl
  · split
    · rfl
    · split
      · rfl
      · rename_i _ m hm hne _ st hst
        simp only [hm, hne, hst] at h
        rw [finish_links H cfg a.name m st h, pullRun_links H cfg c m a st hst]

/-- a successful pull changes at most the link of its own name -/
theorem pull_links_other (H : Bytes → D) (cfg : Cfg) (c : Cache D) (a : Attempt D) (n : Nat)
    (hn : a.name ≠ n) : (pull H cfg c a).1.links n = c.links n := by
  by_cases hok : (pull H cfg c a).2 = .ok
  · obtain ⟨m, st, c1, _, _, _, _, _, _, _, hl, hc⟩ :=
      pull_links_last H cfg c (pull H cfg c a).1 a (by rw [← hok])
    rw [hc, ← hl]
    unfold Cache.link
    have hn' : ¬ n = a.name := fun h => hn h.symm
    split
    · split <;> simp [hn']
    · simp [hn']
  · rw [failed_pull_keeps_links H cfg c a hok]

/-- **Histories.**  Over any sequence of attempts (retries, re-runs, other names), the link of a
    name `n` is changed only by an attempt on `n` that reported success. -/
theorem history_links_only_by_successful_pull (H : Bytes → D) (cfg : Cfg) (n : Nat) (as : List (Attempt D)) :
    ∀ c : Cache D,
    (∀ p ∈ as.zip (pullHistory H cfg c as).2, p.1.name = n → p.2 ≠ .ok) →
    (pullHistory H cfg c as).1.links n = c.links n := by
  induction as with
  | nil => intro c _; rfl
  | cons a as ih =>
    intro c h
    simp only [pullHistory] at h ⊢
    rw [ih (pull H cfg c a).1 (fun p hp => h p (by simp [hp]))]
    by_cases hn : a.name = n
    · have := h (a, (pull H cfg c a).2) (by simp) hn
      rw [failed_pull_keeps_links H cfg c a this]
    · exact pull_links_other H cfg c a n hn

/-- **The retry loop of `handlePull`.**  However many times it retries, if the loop ends with an
    error (or the client goes away while it retries) no link has changed: retried attempts were
    failures. -/
theorem handlePull_links_only_by_successful_pull (H : Bytes → D) (cfg : Cfg) (as : List (Attempt D)) :
    ∀ c : Cache D, (handlePull H cfg c as).2 ≠ some .ok → (handlePull H cfg c as).1.links = c.links := by
  induction as with
  | nil => intro c _; rfl
  | cons a as ih =>
    intro c h
    unfold handlePull at h ⊢
    by_cases hr : canRetry (pull H cfg c a).2 = true
    · have hnok : (pull H cfg c a).2 ≠ .ok := by
        intro h0; rw [h0] at hr; simp [canRetry] at hr
      simp only [hr, if_true] at h ⊢
      rw [ih (pull H cfg c a).1 h, failed_pull_keeps_links H cfg c a hnok]
    · simp only [hr] at h ⊢
      exact failed_pull_keeps_links H cfg c a (fun h0 => h (by simp [h0]))

/-- **Every way out of the loop.**  The loop returns the result of a `Pull` only if that result is
    not retryable (success or a permanent error); it ends without one (`none`) only by the
    request context ending, after every `Pull` it made was a retryable failure; and it makes as
    many attempts as that takes — no limit. -/
theorem handlePull_exits (H : Bytes → D) (cfg : Cfg) (as : List (Attempt D)) :
    ∀ c : Cache D,
      (∀ o, (handlePull H cfg c as).2 = some o → canRetry o = false) ∧
      ((handlePull H cfg c as).2 = none → handlePullAttempts H cfg c as = as.length) := by
  induction as with
  | nil => intro c; exact ⟨fun o h => by simp [handlePull] at h, fun _ => rfl⟩
  | cons a as ih =>
    intro c
    unfold handlePull handlePullAttempts
    by_cases hr : canRetry (pull H cfg c a).2 = true
    · simp only [hr, if_true]
      obtain ⟨h1, h2⟩ := ih (pull H cfg c a).1
      exact ⟨h1, fun hn => by simp [h2 hn]⟩
    · simp only [hr]
      refine ⟨fun o h => ?_, fun h => by simp at h⟩
      injection h with h
      rw [← h]; simpa using hr

/-! ### `pull_success_verified`, partial form -/

theorem writeAt_end (f data : Bytes) (hd : data ≠ []) : writeAt f f.length data = f ++ data := by
  rw [writeAt_ne_nil f f.length data hd]
  simp [zeros]

/-- the chunks of a plan downloaded one after the other in plan order (what `Pull` does with
    `MaxStreams = 1`), every `Put` succeeding; `none` as soon as one fails -/
def putAll (H : Bytes → D) : Bytes → List (CS D) → List (List Bytes × BodyEnd) → Option Bytes
  | f, [], _ => some f
  | _, _ :: _, [] => none
  | f, cs :: rest, r :: rs =>
    match putLoop H cs.digest f cs.start cs.len [] r.1 r.2 with
    | (f', none) => putAll H f' rest rs
    | (_, some _) => none

/-- the plan is an exact partition from `off` on: non-empty chunks, each starting where the
    previous one ended -/
def Consecutive : Nat → List (CS D) → Prop
  | _, [] => True
  | off, cs :: rest => cs.start = off ∧ 0 < cs.len ∧ Consecutive (off + cs.len) rest

/-- **`pull_success_verified`, partial.**  Guard: the served plan is an exact partition continuing
    the file (`Consecutive f.length`; for a fresh download `f = []`, i.e. no earlier attempt left
    anything, in particular no full-length file) and the chunks complete in plan order.  Then for
    every way the bodies are delivered: if every `Put` succeeds, the file is the old content
    followed by byte strings that have, chunk by chunk, the planned length and the planned
    digest; its length is the end of the partition.  (That the concatenation hashes to the
    LAYER digest does not follow — sub-case (c) — unless the plan's digests are honest.) -/
theorem pull_success_verified_partial (H : Bytes → D) :
    ∀ (entries : List (CS D)) (f : Bytes) (resps : List (List Bytes × BodyEnd)) (f' : Bytes),
    Consecutive f.length entries → putAll H f entries resps = some f' →
    ∃ datas : List Bytes, f' = f ++ datas.flatten ∧
      datas.length = entries.length ∧
      (∀ p ∈ entries.zip datas, p.2.length = p.1.len ∧ H p.2 = p.1.digest) ∧
      f'.length = f.length + (entries.map (·.len)).sum := by
  intro entries
  induction entries with
  | nil =>
    intro f resps f' _ h
    simp only [putAll] at h; injection h with h; subst h
    exact ⟨[], by simp, rfl, by simp, by simp⟩
  | cons cs rest ih =>
    intro f resps f' hc h
    obtain ⟨hs, hpos, hrest⟩ := hc
    cases resps with
    | nil => simp [putAll] at h
    | cons r rs =>
      simp only [putAll] at h
      split at h
      · rename_i f1 hput
        obtain ⟨data, hl, hH, hf1, _⟩ := put_ok_verified H cs.digest f f1 cs.start cs.len r.1 r.2 hpos hput
        have hd : data ≠ [] := by intro h0; rw [h0] at hl; simp at hl; omega
        rw [hs, writeAt_end f data hd] at hf1
        have hlen : f1.length = f.length + cs.len := by rw [hf1]; simp [hl]
        obtain ⟨datas, e1, e0, e2, e3⟩ := ih f1 rs f' (by rw [hlen]; exact hrest) h
        refine ⟨data :: datas, by rw [e1, hf1]; simp, by simp [e0], ?_, ?_⟩
        · intro p hp
          simp only [List.zip_cons_cons, List.mem_cons] at hp
          rcases hp with rfl | hp
          · exact ⟨hl, hH⟩
          · exact e2 p hp
        · rw [e3, hlen]; simp; omega
      · cases h
end

/-! ### Push: manifest last -/

theorem pushBody_mem (sched : List Nat) :
    ∀ (pend : List (List PushEv)) (i : Nat) (l : List PushEv), pend[i]? = some l → ∀ e ∈ l,
      e ∈ (pushBody pend sched).1 ∨ ∃ l', (pushBody pend sched).2[i]? = some l' ∧ e ∈ l' := by
  induction sched with
  | nil => intro pend i l hl e he; right; exact ⟨l, hl, he⟩
  | cons k sched ih =>
    intro pend i l hl e he
    unfold pushBody
    split
    · rename_i e0 es hk
      simp only
      by_cases hik : i = k
      · subst hik
        rw [hl] at hk; injection hk with hk; subst hk
        rcases List.mem_cons.mp he with h0 | h1
        · left; simp [h0]
        · have hlt : i < pend.length := by
            have := List.getElem?_eq_some_iff.mp hl; exact this.1
          rcases ih (pend.set i es) i es (by simp [hlt]) e h1 with h | h
          · left; simp [h]
          · right; exact h
      · rcases ih (pend.set k es) i l (by rw [List.getElem?_set_ne (Ne.symm hik)]; exact hl) e he with h | h
        · left; simp [h]
        · right; exact h
    · exact ih pend i l hl e he

theorem pushBody_sub (sched : List Nat) :
    ∀ (pend : List (List PushEv)) (e : PushEv), e ∈ (pushBody pend sched).1 → ∃ l ∈ pend, e ∈ l := by
  induction sched with
  | nil => intro pend e he; simp [pushBody] at he
  | cons k sched ih =>
    intro pend e he
    unfold pushBody at he
    split at he
    · rename_i e0 es hk
      simp only at he
      have hmem : (e0 :: es) ∈ pend := List.mem_of_getElem? hk
      rcases List.mem_cons.mp he with h0 | h1
      · exact ⟨e0 :: es, hmem, by simp [h0]⟩
      · obtain ⟨l, hl, hel⟩ := ih _ e h1
        rcases List.mem_or_eq_of_mem_set hl with h | h
        · exact ⟨l, h, hel⟩
        · rw [h] at hel; exact ⟨e0 :: es, hmem, by simp [hel]⟩
    · exact ih pend e he

theorem exchangeFrom_last (fuel : Nat) : ∀ (sent : Nat) (m : Method) (b : BodyKind) (rs : List Resp) (r : Resp),
    (exchangeFrom fuel sent m b rs).2 = some r →
    ∃ m', (exchangeFrom fuel sent m b rs).1.getLast? = some (m', r.status) := by
  induction fuel with
  | zero => intro sent m b rs r h; simp [exchangeFrom] at h
  | succ fuel ih =>
    intro sent m b rs r h
    unfold exchangeFrom at h ⊢
    simp only at h ⊢
    split at h
    · simp at h
    · rename_i h0
      rw [if_neg h0]
      split at h
      · simp only [Option.some.injEq] at h
        exact ⟨m, by rw [← h]; simp⟩
      · rename_i m' b' _
        split at h
        · simp at h
        · simp only at h
          obtain ⟨m'', hl⟩ := ih (sent + 1) m' b' rs.tail r h
          refine ⟨m'', ?_⟩
          rename_i hsent
          simp only [hsent, if_false]
          rw [List.getLast?_cons_of_ne_nil]
          · exact hl
          · intro hnil; rw [hnil] at hl; simp at hl

theorem exchangeFrom_ne_nil (fuel sent : Nat) (m : Method) (b : BodyKind) (rs : List Resp) :
    (exchangeFrom fuel sent m b rs).1 ≠ [] := by
  cases fuel with
  | zero => simp [exchangeFrom]
  | succ fuel =>
    unfold exchangeFrom
    simp only
    split
    · simp
    · split
      · simp
      · split <;> simp

/-- the caller of an exchange sees success only if the LAST physical request of the exchange was
    answered 2xx -/
theorem exchange_ok_last_2xx (m : Method) (b : BodyKind) (rs : List Resp)
    (h : exchangeOk (exchange m b rs).2 = true) :
    ∃ m' s, (exchange m b rs).1.getLast? = some (m', s) ∧ is2xx s = true := by
  unfold exchangeOk at h
  split at h
  · rename_i r hr
    obtain ⟨m', hl⟩ := exchangeFrom_last 10 1 m b rs r hr
    exact ⟨m', r.status, hl, h⟩
  · cases h

theorem layerRun_no_manifest (i : Nat) (u : UpScript) : ∀ e ∈ (layerRun i u).1, e.isManifest = false := by
  intro e he
  unfold layerRun at he
  simp only at he
  split at he
  · simp only [List.mem_map] at he; obtain ⟨x, _, rfl⟩ := he; rfl
  · split at he
    · simp only [List.mem_map] at he; obtain ⟨x, _, rfl⟩ := he; rfl
    · split at he
      · simp only [List.mem_map] at he; obtain ⟨x, _, rfl⟩ := he; rfl
      · simp only [List.mem_append, List.mem_map] at he
        rcases he with ⟨x, _, rfl⟩ | ⟨x, _, rfl⟩ <;> rfl

theorem layerRun_good_indep (i j : Nat) (u : UpScript) : (layerRun i u).2 = (layerRun j u).2 := by
  unfold layerRun
  simp only
  split
  · rfl
  · split
    · rfl
    · split <;> rfl

theorem getLast?_map {α β} (f : α → β) (l : List α) : (l.map f).getLast? = l.getLast?.map f := by
  simp

/-- **A layer goroutine that succeeds ended on a 2xx.**  If the goroutine of layer `i` returns nil,
    the last request the registry saw for that layer — the last hop of the POST exchange when
    the registry said it has the blob, else the last hop of the upload PUT exchange — was
    answered 2xx.  In particular a 307/308 answer to the upload PUT, which net/http cannot
    follow (the body is the blob file), is not a success. -/
theorem layerRun_good_last_2xx (i : Nat) (u : UpScript) (h : (layerRun i u).2 = true) :
    ∃ up m s, (layerRun i u).1.getLast? = some (.req i up m s) ∧ is2xx s = true := by
  cases hp : (exchange .post .none u.post).2 with
  | none => simp [layerRun, hp] at h
  | some r =>
    by_cases h2 : is2xx r.status = true
    · by_cases hloc : r.loc = true
      · -- an upload URL was handed out: the PUT exchange decides
        have hq : exchangeOk (exchange .put .stream u.put).2 = true := by
          simpa [layerRun, hp, h2, hloc] using h
        obtain ⟨m', s', hl, hs⟩ := exchange_ok_last_2xx .put .stream u.put hq
        refine ⟨true, m', s', ?_, hs⟩
        have hne : (exchange .put .stream u.put).1 ≠ [] := exchangeFrom_ne_nil 10 1 _ _ _
        simp [layerRun, hp, h2, hloc, List.getLast?_append, hl]
      · -- the registry has the blob: the POST exchange's last hop is the 2xx
        obtain ⟨m', hl⟩ := exchangeFrom_last 10 1 .post .none u.post r hp
        refine ⟨false, m', r.status, ?_, h2⟩
        have hl' : (exchange .post .none u.post).1.getLast? = some (m', r.status) := hl
        simp [layerRun, hp, h2, hloc, hl']
    · simp [layerRun, hp, h2] at h

theorem pushPending_get (ups : List UpScript) (i : Nat) (u : UpScript) (h : ups[i]? = some u) :
    (pushPending ups)[i]? = some (layerRun i u).1 := by
  have gen : ∀ (ups : List UpScript) (s i : Nat) (u : UpScript), ups[i]? = some u →
      ((enumFrom s ups).map fun (p : Nat × UpScript) => (layerRun p.1 p.2).1)[i]? = some (layerRun (s + i) u).1 := by
    intro ups
    induction ups with
    | nil => intro s i u h; simp at h
    | cons a as ih =>
      intro s i u h
      cases i with
      | zero => simp at h; subst h; simp [enumFrom]
      | succ i =>
        simp only [List.getElem?_cons_succ] at h
        simp only [enumFrom, List.map_cons, List.getElem?_cons_succ]
        rw [ih (s + 1) i u h]; congr 3; omega
  have := gen ups 0 i u h
  simpa [pushPending] using this

theorem pushPending_no_manifest (ups : List UpScript) : ∀ l ∈ pushPending ups, ∀ e ∈ l, e.isManifest = false := by
  intro l hl
  simp only [pushPending, List.mem_map] at hl
  obtain ⟨⟨i, u⟩, _, rfl⟩ := hl
  exact layerRun_no_manifest i u

theorem manifestRun_all_manifest (man : List Resp) : ∀ e ∈ (manifestRun man).1, e.isManifest = true := by
  intro e he
  simp only [manifestRun, List.mem_map] at he
  obtain ⟨x, _, rfl⟩ := he; rfl

theorem manifestRun_ne_nil (man : List Resp) : (manifestRun man).1 ≠ [] := by
  simp only [manifestRun, ne_eq, List.map_eq_nil_iff]
  exact exchangeFrom_ne_nil 10 1 _ _ man

/-- **Push, new client: the manifest is committed last.**  For every scripted answer to every
    physical request (any status 1xx–5xx, with or without `Location`, redirect chains that
    net/http follows or not) and every interleaving of the layer goroutines' requests:
    a request of the manifest exchange is sent iff every layer goroutine succeeded; then the log
    is `body ++ manifest exchange`, `body` contains no manifest request and contains every
    request of every layer — whose last one was answered 2xx (`layerRun_good_last_2xx`); and
    `Push` returns nil only if, in addition, the manifest exchange ended on a 2xx. -/
theorem push_manifest_last (ups : List UpScript) (sched : List Nat) (man : List Resp) (tr : List PushEv)
    (ok : Bool) (h : pushTrace ups sched man = some (tr, ok)) :
    ((∃ e ∈ tr, e.isManifest = true) ↔ layersGood ups = true) ∧
    (layersGood ups = true → ∃ body, tr = body ++ (manifestRun man).1 ∧ (∀ e ∈ body, e.isManifest = false) ∧
        ∀ i u, ups[i]? = some u → (layerRun i u).2 = true ∧ ∀ e ∈ (layerRun i u).1, e ∈ body) ∧
    (ok = true → layersGood ups = true ∧ (manifestRun man).2 = true) := by
  unfold pushTrace at h
  simp only at h
  split at h
  · rename_i hall
    have hbody : ∀ e ∈ (pushBody (pushPending ups) sched).1, e.isManifest = false := by
      intro e he
      obtain ⟨l, hl, hel⟩ := pushBody_sub sched _ _ he
      exact pushPending_no_manifest ups l hl e hel
    by_cases hg : layersGood ups = true
    · simp only [hg, if_true, Option.some.injEq, Prod.mk.injEq] at h
      obtain ⟨htr, hok⟩ := h
      refine ⟨⟨fun _ => hg, fun _ => ?_⟩, fun _ => ?_, fun hk => ⟨hg, by rw [hok]; exact hk⟩⟩
      · obtain ⟨e, he⟩ := List.exists_mem_of_ne_nil _ (manifestRun_ne_nil man)
        exact ⟨e, by rw [← htr]; simp [he], manifestRun_all_manifest man e he⟩
      · refine ⟨_, htr.symm, hbody, ?_⟩
        intro i u hiu
        have hgood : (layerRun i u).2 = true := by
          have := List.all_eq_true.mp hg u (List.mem_of_getElem? hiu)
          rw [layerRun_good_indep i 0 u]; exact this
        refine ⟨hgood, fun e he => ?_⟩
        rcases pushBody_mem sched _ i _ (pushPending_get ups i u hiu) e he with h1 | ⟨l', hl', hel'⟩
        · exact h1
        · have : l'.isEmpty = true := List.all_eq_true.mp hall l' (List.mem_of_getElem? hl')
          simp [List.isEmpty_iff.mp this] at hel'
    · simp only [hg, Bool.false_eq_true, if_false, Option.some.injEq, Prod.mk.injEq] at h
      obtain ⟨htr, hok⟩ := h
      refine ⟨⟨fun ⟨e, he, hm⟩ => ?_, fun h' => absurd h' hg⟩, fun h' => absurd h' hg, fun hk => ?_⟩
      · rw [← htr] at he
        rw [hbody e he] at hm; cases hm
      · rw [← hok] at hk; cases hk
  · cases h

/-! ### Legacy push -/

theorem exchange_final_mem (m : Method) (b : BodyKind) (rs : List Resp) (r : Resp)
    (h : (exchange m b rs).2 = some r) : ∃ m', (m', r.status) ∈ (exchange m b rs).1 := by
  obtain ⟨m', hl⟩ := exchangeFrom_last 10 1 m b rs r h
  exact ⟨m', List.mem_of_getLast? hl⟩

theorem triesX_spec (i kind : Nat) (m : Method) (b : BodyKind) (okF : Option Resp → Bool) :
    ∀ (n : Nat) (scripts : List (List Resp)),
    (∀ e ∈ (triesX i kind m b okF n scripts).1, e.isManifest = false) ∧
    (∀ r, (triesX i kind m b okF n scripts).2 = some r →
        okF (some r) = true ∧ ∃ m', LegEv.req i kind m' r.status ∈ (triesX i kind m b okF n scripts).1) := by
  intro n
  induction n with
  | zero => intro scripts; simp [triesX]
  | succ n ih =>
    intro scripts
    unfold triesX
    simp only
    by_cases hok : okF (exchange m b (scripts.headD [])).2 = true
    · simp only [hok, if_true]
      refine ⟨?_, ?_⟩
      · intro e he; simp only [List.mem_map] at he; obtain ⟨x, _, rfl⟩ := he; rfl
      · intro r hr
        refine ⟨by rw [← hr]; exact hok, ?_⟩
        obtain ⟨m', hm'⟩ := exchange_final_mem m b _ r hr
        exact ⟨m', List.mem_map.mpr ⟨(m', r.status), hm', rfl⟩⟩
    · simp only [hok]
      obtain ⟨h1, h2⟩ := ih scripts.tail
      refine ⟨?_, ?_⟩
      · intro e he
        rcases List.mem_append.mp he with he | he
        · simp only [List.mem_map] at he; obtain ⟨x, _, rfl⟩ := he; rfl
        · exact h1 e he
      · intro r hr
        obtain ⟨ho, m', hm'⟩ := h2 r hr
        exact ⟨ho, m', List.mem_append.mpr (Or.inr hm')⟩

/-- the answer on which the code considers layer `i` settled: the final answer of the HEAD
    exchange ("the registry has it") or of a commit try, with a status the code takes for a
    success: below 400 — and 2xx in the `strict` (repaired) variant -/
def settled (strict : Bool) (i : Nat) (evs : List LegEv) : Prop :=
  ∃ kind m s, LegEv.req i kind m s ∈ evs ∧ (kind = 0 ∨ kind = 3) ∧ s < 400 ∧ (strict = true → is2xx s = true)

theorem mrr_ok (strict : Bool) (x : Option Resp) (r : Resp) (h : mrr strict x = .ok r) :
    x = some r ∧ r.status < 400 ∧ (strict = true → is2xx r.status = true) := by
  unfold mrr at h
  split at h
  · cases h
  · rename_i r'
    split at h
    · cases h
    · split at h
      · cases h
      · split at h
        · cases h
        · rename_i h1 h2 h3
          injection h with h; subst h
          refine ⟨rfl, by omega, fun hs => ?_⟩
          simpa [hs] using h3

theorem commitOk_spec (strict : Bool) (r : Resp) (h : commitOk strict (some r) = true) :
    r.status < 400 ∧ (strict = true → is2xx r.status = true) := by
  unfold commitOk at h
  split at h
  · rename_i r' hr
    obtain ⟨he, h1, h2⟩ := mrr_ok strict _ r' hr
    injection he with he; subst he; exact ⟨h1, h2⟩
  · cases h

theorem map_req_not_manifest (i kind : Nat) (l : List (Method × Nat)) :
    ∀ e ∈ l.map (fun (p : Method × Nat) => LegEv.req i kind p.1 p.2), e.isManifest = false := by
  intro e he; simp only [List.mem_map] at he; obtain ⟨x, _, rfl⟩ := he; rfl

theorem legacyLayer_spec (strict : Bool) (i : Nat) (l : LegacyLayer) :
    (∀ e ∈ (legacyLayer strict i l).1, e.isManifest = false) ∧
    ((legacyLayer strict i l).2 = true → settled strict i (legacyLayer strict i l).1) := by
  have hh := map_req_not_manifest i 0 (exchange .head .none l.head).1
  have hp := map_req_not_manifest i 1 (exchange .post .none l.post).1
  have ha := triesX_spec i 2 .patch .stream (patchOk strict) maxRetries l.patch
  have hc := triesX_spec i 3 .put .none (commitOk strict) maxRetries l.commit
  unfold legacyLayer
  simp only
  split
  · -- HEAD says the registry has it
    rename_i r hr
    refine ⟨hh, fun _ => ?_⟩
    obtain ⟨hx, h1, h2⟩ := mrr_ok strict _ r hr
    obtain ⟨m', hm'⟩ := exchange_final_mem .head .none l.head r hx
    exact ⟨0, m', r.status, List.mem_map.mpr ⟨(m', r.status), hm', rfl⟩, Or.inl rfl, h1, h2⟩
  · exact ⟨hh, by simp⟩
  · split
    · rename_i r _
      split
      · refine ⟨?_, by simp⟩
        intro e he
        rcases List.mem_append.mp he with he | he
        · exact hh e he
        · exact hp e he
      · split
        · refine ⟨?_, by simp⟩
          intro e he
          simp only [List.mem_append] at he
          rcases he with (he | he) | he
          · exact hh e he
          · exact hp e he
          · exact ha.1 e he
        · rename_i ra _
          split
          · refine ⟨?_, by simp⟩
            intro e he
            simp only [List.mem_append] at he
            rcases he with (he | he) | he
            · exact hh e he
            · exact hp e he
            · exact ha.1 e he
          · refine ⟨?_, ?_⟩
            · intro e he
              simp only [List.mem_append] at he
              rcases he with ((he | he) | he) | he
              · exact hh e he
              · exact hp e he
              · exact ha.1 e he
              · exact hc.1 e he
            · intro hsome
              cases hcr : (triesX i 3 .put .none (commitOk strict) maxRetries l.commit).2 with
              | none => simp [hcr] at hsome
              | some rc =>
                obtain ⟨hok, m', hm'⟩ := hc.2 rc hcr
                obtain ⟨h1, h2⟩ := commitOk_spec strict rc hok
                exact ⟨3, m', rc.status, by simp [hm'], Or.inr rfl, h1, h2⟩
    · refine ⟨?_, by simp⟩
      intro e he
      rcases List.mem_append.mp he with he | he
      · exact hh e he
      · exact hp e he

theorem legacyLayers_spec (strict : Bool) (ls : List LegacyLayer) : ∀ i : Nat,
    (∀ e ∈ (legacyLayers strict i ls).1, e.isManifest = false) ∧
    ((legacyLayers strict i ls).2 = true →
      ∀ j, j < ls.length → settled strict (i + j) (legacyLayers strict i ls).1) := by
  induction ls with
  | nil => intro i; simp [legacyLayers]
  | cons l ls ih =>
    intro i
    obtain ⟨hnm, hacc⟩ := legacyLayer_spec strict i l
    obtain ⟨ih1, ih2⟩ := ih (i + 1)
    unfold legacyLayers
    by_cases hl : (legacyLayer strict i l).2 = true
    · simp only [hl, if_true]
      refine ⟨?_, ?_⟩
      · intro e he
        rcases List.mem_append.mp he with he | he
        · exact hnm e he
        · exact ih1 e he
      · intro hok j hj
        cases j with
        | zero =>
          obtain ⟨k, m, s, hm, hk, h1, h2⟩ := hacc hl
          exact ⟨k, m, s, List.mem_append.mpr (Or.inl hm), hk, h1, h2⟩
        | succ j =>
          obtain ⟨k, m, s, hm, hk, h1, h2⟩ := ih2 hok j (by simp at hj; omega)
          have e : i + (j + 1) = i + 1 + j := by omega
          rw [e]
          exact ⟨k, m, s, List.mem_append.mpr (Or.inr hm), hk, h1, h2⟩
    · simp only [hl]
      exact ⟨hnm, by simp⟩

theorem legacyManifest_spec (strict : Bool) (man : List Resp) :
    (legacyManifest strict man).1 ≠ [] ∧ ∀ e ∈ (legacyManifest strict man).1, e.isManifest = true := by
  refine ⟨?_, ?_⟩
  · simp only [legacyManifest, ne_eq, List.map_eq_nil_iff]
    exact exchangeFrom_ne_nil 10 1 _ _ man
  · intro e he
    simp only [legacyManifest, List.mem_map] at he
    obtain ⟨x, _, rfl⟩ := he; rfl

/-- **Push, legacy path (`PushModel`): the manifest is committed last.**  For every number of
    layers and every scripted answer (any status, with or without `Location`, redirect chains) to
    every physical request of every HEAD / POST / PATCH try / commit try / manifest exchange: a
    request of the manifest exchange is sent iff every layer was settled; then the log is
    `body ++ manifest exchange`, `body` has no manifest request, and for every layer `body`
    holds the answer that settled it — the final answer of its HEAD exchange or of a commit try.
    What the code accepts as "settled" is any status below 400 (finding F18: also 1xx and 3xx
    answers net/http did not follow); in the `strict` (repaired) variant it is a 2xx. -/
theorem legacy_push_manifest_last (strict : Bool) (ls : List LegacyLayer) (man : List Resp) :
    ((∃ e ∈ (legacyPush strict ls man).1, e.isManifest = true) ↔ (legacyLayers strict 0 ls).2 = true) ∧
    ((legacyLayers strict 0 ls).2 = true → ∃ body,
        (legacyPush strict ls man).1 = body ++ (legacyManifest strict man).1 ∧
        (∀ e ∈ body, e.isManifest = false) ∧ ∀ j, j < ls.length → settled strict j body) ∧
    ((legacyPush strict ls man).2 = true → (legacyLayers strict 0 ls).2 = true) := by
  obtain ⟨h1, h2⟩ := legacyLayers_spec strict ls 0
  obtain ⟨hne, hman⟩ := legacyManifest_spec strict man
  unfold legacyPush
  by_cases hl : (legacyLayers strict 0 ls).2 = true
  · simp only [hl, if_true]
    refine ⟨⟨fun _ => trivial, fun _ => ?_⟩, fun _ => ⟨_, rfl, h1, fun j hj => ?_⟩, fun _ => trivial⟩
    · obtain ⟨e, he⟩ := List.exists_mem_of_ne_nil _ hne
      exact ⟨e, List.mem_append.mpr (Or.inr he), hman e he⟩
    · have := h2 hl j hj
      simpa using this
  · simp only [hl]
    refine ⟨⟨fun ⟨e, he, hm⟩ => ?_, fun h => by simp at h⟩, fun h => by simp at h, fun h => by simp at h⟩
    rw [h1 e he] at hm; cases hm

/-- **F18 witness.**  The legacy push takes a `304 Not Modified` answer to the blob HEAD for "the
    registry has this blob": the layer is never uploaded, the manifest is PUT, the push reports
    success.  Likewise a `300` without `Location` answered to the commit PUT.  In the `strict`
    variant both pushes fail before any manifest request. -/
theorem F18_legacy_non_2xx_counts_as_accepted :
    legacyPush false [⟨[⟨304, false⟩], [], [], []⟩] [] =
      ([.req 0 0 .head 304, .man .put 200], true) ∧
    legacyPush false [⟨[⟨404, false⟩], [⟨202, true⟩], [[⟨202, true⟩]], [[⟨300, false⟩]]⟩] [] =
      ([.req 0 0 .head 404, .req 0 1 .post 202, .req 0 2 .patch 202, .req 0 3 .put 300, .man .put 200], true) ∧
    (legacyPush true [⟨[⟨304, false⟩], [], [], []⟩] []).2 = false ∧
    (∀ e ∈ (legacyPush true [⟨[⟨304, false⟩], [], [], []⟩] []).1, e.isManifest = false) := by
  decide

/-- **Sequential pushes: every push of a history commits its manifest last, on its own.**  No push
    of a sequential history inherits anything from an earlier one (the upload manager entry lives
    exactly as long as its transfer): for every push, a manifest request is sent iff every layer
    of THAT push was settled by a request of THAT push (its HEAD to its repository, or a commit
    try), all of them before the manifest exchange. -/
theorem legacy_sequential_each_push_manifest_last (strict : Bool) (ps : List (List LegacyLayer × List Resp)) :
    ∀ r ∈ legacySequential strict ps, ∃ ls man, (ls, man) ∈ ps ∧ r = legacyPush strict ls man ∧
      ((∃ e ∈ r.1, e.isManifest = true) ↔ (legacyLayers strict 0 ls).2 = true) ∧
      ((legacyLayers strict 0 ls).2 = true → ∃ body, r.1 = body ++ (legacyManifest strict man).1 ∧
          (∀ e ∈ body, e.isManifest = false) ∧ ∀ j, j < ls.length → settled strict j body) ∧
      (r.2 = true → (legacyLayers strict 0 ls).2 = true) := by
  intro r hr
  simp only [legacySequential, List.mem_map] at hr
  obtain ⟨⟨ls, man⟩, hp, rfl⟩ := hr
  exact ⟨ls, man, hp, rfl, legacy_push_manifest_last strict ls man⟩

/-! ### Two legacy pushes sharing one upload -/

/-- a transfer that ended well was settled by a commit answer the code accepts (2xx when `strict`) -/
theorem sharedTransfer_ok_settled (strict : Bool) (s : Shared) (bLeft : Bool)
    (h : (sharedTransfer strict s bLeft).2 = some true) :
    bLeft = false ∧ settled strict 0 (sharedTransfer strict s bLeft).1 := by
  have hc := triesX_spec 0 3 .put .none (commitOk strict) maxRetries s.commit
  cases hpost : s.post with
  | transport => simp [sharedTransfer, hpost] at h
  | ownerCancelled => simp [sharedTransfer, hpost] at h
  | answered rs =>
    cases hm : mrr strict (exchange .post .none rs).2 with
    | notFound => simp [sharedTransfer, hpost, hm] at h
    | err => simp [sharedTransfer, hpost, hm] at h
    | ok r =>
      by_cases hloc : r.loc = true
      · by_cases hb : bLeft = true
        · simp [sharedTransfer, hpost, hm, hloc, hb] at h
        · cases ha : (triesX 0 2 .patch .stream (patchOk strict) maxRetries s.patch).2 with
          | none => simp [sharedTransfer, hpost, hm, hloc, hb, ha] at h
          | some ra =>
            by_cases hl2 : ra.loc = true
            · cases hcr : (triesX 0 3 .put .none (commitOk strict) maxRetries s.commit).2 with
              | none => simp [sharedTransfer, hpost, hm, hloc, hb, ha, hl2, hcr] at h
              | some rc =>
                obtain ⟨hok, m', hm'⟩ := hc.2 rc hcr
                obtain ⟨h1, h2⟩ := commitOk_spec strict rc hok
                refine ⟨by simpa using hb, ?_⟩
                simp only [sharedTransfer, hpost, hm, hloc, hb, ha, hl2, Bool.not_true, Bool.false_eq_true, if_false]
                exact ⟨3, m', rc.status, by simp [hm'], Or.inr rfl, h1, h2⟩
            · simp [sharedTransfer, hpost, hm, hloc, hb, ha, hl2] at h
      · simp [sharedTransfer, hpost, hm, hloc] at h

/-- **A push that joined a shared upload reports success only if the shared transfer succeeded.**
    For every way the owner's session POST ends (any answer chain, transport error, the owner's
    context ending), every script of the PATCH and commit tries, with or without the joiner
    leaving: if push B joined (its own HEAD said "absent") and `PushModel` B returns nil, then the
    one transfer was started, ran to its end without error — its log holds the commit answer that
    settled the layer — and B had not left.  In particular: when `Prepare` fails (the transfer
    publishes neither `done` nor `err`), a joined push never succeeds and never sends its manifest. -/
theorem shared_joined_success_only_if_transfer_ok (strict : Bool) (s : Shared)
    (hj : bJoins strict s = some true) :
    ((sharedPush strict s).okB = true ∨ ∃ e ∈ (sharedPush strict s).logB, e.isManifest = true) →
      s.cancelB = false ∧ (sharedTransfer strict s false).2 = some true ∧
      settled strict 0 (sharedPush strict s).logT := by
  intro h
  have hm := legacyManifest_spec strict s.manB
  have hb : ∀ e ∈ (exchange .head .none s.headB).1.map (fun (q : Method × Nat) => LegEv.req 0 0 q.1 q.2),
      e.isManifest = false := map_req_not_manifest 0 0 _
  unfold sharedPush at h ⊢
  simp only [hj, beq_self_eq_true, Bool.true_and] at h ⊢
  by_cases hg : (!s.cancelB && (sharedTransfer strict s s.cancelB).2 == some true) = true
  · simp only [Bool.and_eq_true, Bool.not_eq_true', beq_iff_eq] at hg
    obtain ⟨hcb, ht⟩ := hg
    rw [hcb] at ht ⊢
    exact ⟨rfl, ht, (sharedTransfer_ok_settled strict s false ht).2⟩
  · exfalso
    simp only [hg] at h
    rcases h with h | ⟨e, he, hme⟩
    · simp at h
    · simp only [Bool.false_eq_true, if_false, List.append_nil] at he
      rw [hb e he] at hme; cases hme

/-- the owner: a manifest request of push A, or success of A, only after a transfer that ended
    well (and A's own context did not end during the POST) -/
theorem shared_owner_success_only_if_transfer_ok (strict : Bool) (s : Shared) :
    ((sharedPush strict s).okA = true ∨ ∃ e ∈ (sharedPush strict s).logA, e.isManifest = true) →
      ∃ bLeft, (sharedTransfer strict s bLeft).2 = some true ∧ settled strict 0 (sharedPush strict s).logT := by
  intro h
  unfold sharedPush at h ⊢
  simp only at h ⊢
  generalize hbl : (bJoins strict s == some true && s.cancelB) = bl at h ⊢
  by_cases hg : (sharedTransfer strict s bl).2 = some true
  · exact ⟨bl, hg, (sharedTransfer_ok_settled strict s bl hg).2⟩
  · exfalso
    have hf : ((sharedTransfer strict s bl).2 == some true) = false := by simpa using hg
    rcases h with h | ⟨e, he, hme⟩
    · simp [hf] at h
    · simp only [hf, Bool.and_false, Bool.false_eq_true, if_false, List.mem_cons, List.not_mem_nil, or_false] at he
      rw [he] at hme; cases hme

/-- the seeded-change scenario in the model: the session POST is answered 500 while B has joined:
    neither push sends a manifest, neither reports success; and a good run for comparison -/
theorem shared_prepare_failure_witness :
    (sharedPush false ⟨[⟨404, false⟩], .answered [⟨500, false⟩], false, [], [], [], []⟩).okB = false ∧
    (sharedPush false ⟨[⟨404, false⟩], .answered [⟨500, false⟩], false, [], [], [], []⟩).logB = [.req 0 0 .head 404] ∧
    (sharedPush false ⟨[⟨404, false⟩], .answered [⟨500, false⟩], false, [], [], [], []⟩).okA = false ∧
    (sharedPush false ⟨[⟨404, false⟩], .answered [⟨202, true⟩], false, [[⟨202, true⟩]], [], [], []⟩).okB = true ∧
    (sharedPush false ⟨[⟨404, false⟩], .answered [⟨202, true⟩], false, [[⟨202, true⟩]], [], [], []⟩).logT =
      [.req 0 1 .post 202, .req 0 2 .patch 202, .req 0 3 .put 200] := by decide

/-! ### Witnesses of F10 (the model shares these defects with the code).  `D := Bytes`, `H := id`:
    a digest is its pre-image, so "the file hashes to the layer digest" is "file = digest". -/

def wcfg : Cfg := ⟨2, none, true, false, false⟩
def abc : Bytes := [97, 98, 99]
def abcd : Bytes := [97, 98, 99, 100]
def mABC : Manifest Bytes := ⟨1, 100, [⟨abc, 3⟩], none⟩
def mABCD : Manifest Bytes := ⟨2, 100, [⟨abcd, 4⟩], none⟩

/-- attempt 1 of (a): the registry serves the honest plan `ab 0-1, c 2-2`; the HIGH chunk is
    answered first and correctly, the low chunk gets a 500 -/
def a1 : Attempt Bytes :=
  ⟨0, .ok mABC, [.list [⟨[97, 98], 0, 2⟩, ⟨[99], 2, 1⟩]],
    [.release 1 (.body [[99]] .eof), .release 0 (.fail .status5xx)]⟩
/-- attempt 2 of (a): same manifest, the registry is not even asked for the layer -/
def a2 : Attempt Bytes := ⟨0, .ok mABC, [], []⟩

/-- **F10 (a).**  `handlePull` retries by itself after the 5xx (it is `Temporary`); the retry finds
    a file of the manifest's size, skips the layer, reports success and links the name — with
    the layer file `00 00 'c'`. -/
theorem F10a_holey_file_trusted_on_retry :
    (pull id wcfg Cache.empty a1).2 = .err .status5xx ∧
    (handlePull id wcfg Cache.empty [a1, a2]).2 = some .ok ∧
    (handlePull id wcfg Cache.empty [a1, a2]).1.links 0 = some mABC ∧
    (handlePull id wcfg Cache.empty [a1, a2]).1.files abc = some [0, 0, 99] ∧
    id ([0, 0, 99] : Bytes) ≠ abc := by decide

/-- **F10 (b).**  A plan that repeats the chunk `ab 0-1` for a 4-byte layer: both copies are
    downloaded and verified, the byte counter reaches 4 = expected, the name is linked, the file
    is 2 bytes long. -/
def b1 : Attempt Bytes :=
  ⟨0, .ok mABCD, [.list [⟨[97, 98], 0, 2⟩, ⟨[97, 98], 0, 2⟩]],
    [.release 0 (.body [[97, 98]] .eof), .release 0 (.body [[97], [98]] .eof)]⟩

theorem F10b_repeated_chunk_satisfies_counter :
    (pull id wcfg Cache.empty b1).2 = .ok ∧
    (pull id wcfg Cache.empty b1).1.links 0 = some mABCD ∧
    (pull id wcfg Cache.empty b1).1.files abcd = some [97, 98] := by decide

/-- **F10 (c).**  An exact partition whose chunk digests are the registry's own (`xy`, `zw`): every
    chunk verifies against the plan, the whole-layer digest is never looked at. -/
def c1 : Attempt Bytes :=
  ⟨0, .ok mABCD, [.list [⟨[120, 121], 0, 2⟩, ⟨[122, 119], 2, 2⟩]],
    [.release 0 (.body [[120, 121]] .eof), .release 0 (.body [[122, 119]] .eof)]⟩

theorem F10c_chunk_digests_from_registry :
    (pull id wcfg Cache.empty c1).2 = .ok ∧
    (pull id wcfg Cache.empty c1).1.links 0 = some mABCD ∧
    (pull id wcfg Cache.empty c1).1.files abcd = some [120, 121, 122, 119] ∧
    id ([120, 121, 122, 119] : Bytes) ≠ abcd := by decide

/-- **F10 (d).**  `Chunked` writes into the FINAL file.  Name 0 is pulled honestly (single chunk,
    verified).  Then a pull of another name whose manifest declares the same digest with size 5
    is not stopped by the size shortcut; its first read is written over the verified blob before
    the digest check fails.  The pull fails, name 0 stays linked, its layer is corrupted. -/
def dcfg : Cfg := ⟨6, none, true, false, false⟩
def d1 : Attempt Bytes := ⟨0, .ok mABCD, [], [.release 0 (.body [[97, 98], [99, 100]] .eof)]⟩
def mLie : Manifest Bytes := ⟨3, 101, [⟨abcd, 5⟩], none⟩
def d2 : Attempt Bytes := ⟨1, .ok mLie, [], [.release 0 (.body [[1, 2], [3, 4, 5]] .eof)]⟩

theorem F10d_size_lie_overwrites_verified_blob :
    (pullHistory id dcfg Cache.empty [d1, d2]).2 = [.ok, .err .digest] ∧
    (pullHistory id dcfg Cache.empty [d1]).1.files abcd = some abcd ∧
    (pullHistory id dcfg Cache.empty [d1, d2]).1.links 0 = some mABCD ∧
    (pullHistory id dcfg Cache.empty [d1, d2]).1.links 1 = none ∧
    (pullHistory id dcfg Cache.empty [d1, d2]).1.files abcd = some [1, 2, 99, 100] := by decide


section
variable {D : Type} [DecidableEq D]

theorem link_files (sc : Bool) (c : Cache D) (n : Nat) (m : Manifest D) : (c.link sc n m).files = c.files := by
  unfold Cache.link
  split
  · split <;> rfl
  · rfl

/-- the blob `d` is in the cache as a file of exactly `s` bytes whose whole-file hash is `d` -/
def Good (H : Bytes → D) (c : Cache D) (d : D) (s : Nat) : Prop :=
  ∃ f, c.files d = some f ∧ f.length = s ∧ H f = d

/-- the one property of SHA-256 the `staged` theorems use: no collision between byte strings of
    different lengths -/
def NoLenCollision (H : Bytes → D) : Prop := ∀ x y : Bytes, H x = H y → x.length = y.length

theorem commitStaged_good_self (H : Bytes → D) (c c1 : Cache D) (l : Layer D)
    (h : commitStaged H c l = (c1, true)) : Good H c1 l.digest l.size := by
  unfold commitStaged at h
  split at h
  · cases h
  · rename_i p _
    split at h
    · rename_i hp
      simp only [Bool.and_eq_true, beq_iff_eq, decide_eq_true_eq] at hp
      simp only [Prod.mk.injEq, and_true] at h
      subst h
      exact ⟨p, by simp, hp.1, hp.2⟩
    · cases h

theorem commitStaged_preserves (H : Bytes → D) (hcol : NoLenCollision H) (c : Cache D) (l : Layer D)
    (d : D) (s : Nat) (hg : Good H c d s) : Good H (commitStaged H c l).1 d s := by
  unfold commitStaged
  split
  · exact hg
  · rename_i p _
    split
    · rename_i hp
      simp only [Bool.and_eq_true, beq_iff_eq, decide_eq_true_eq] at hp
      obtain ⟨f, hf, hl, hH⟩ := hg
      by_cases hd : d = l.digest
      · refine ⟨p, by simp [hd], ?_, by rw [hd]; exact hp.2⟩
        rw [← hl]; exact hcol p f (by rw [hp.2, hH, hd])
      · exact ⟨f, by simp [hd, hf], hl, hH⟩
    · exact hg

theorem verifyLayer_good_self (H : Bytes → D) (c c1 : Cache D) (l : Layer D)
    (h : verifyLayer H c l = (c1, true)) : Good H c1 l.digest l.size := by
  unfold verifyLayer at h
  split at h
  · rename_i f hf
    split at h
    · rename_i hlen
      split at h
      · rename_i hH
        simp only [Prod.mk.injEq, and_true] at h; subst h
        exact ⟨f, hf, by simpa using hlen, hH⟩
      · cases h
    · exact commitStaged_good_self H c c1 l h
  · exact commitStaged_good_self H c c1 l h

theorem verifyLayer_preserves (H : Bytes → D) (hcol : NoLenCollision H) (c : Cache D) (l : Layer D)
    (d : D) (s : Nat) (hg : Good H c d s) : Good H (verifyLayer H c l).1 d s := by
  unfold verifyLayer
  split
  · rename_i f hf
    split
    · split
      · exact hg
      · rename_i hH
        obtain ⟨f', hf', hl, hH'⟩ := hg
        by_cases hd : d = l.digest
        · exfalso; rw [hd, hf] at hf'; injection hf' with e; subst e; exact hH (by rw [hH', hd])
        · exact ⟨f', by simp [Cache.removeFile, hd, hf'], hl, hH'⟩
    · exact commitStaged_preserves H hcol c l d s hg
  · exact commitStaged_preserves H hcol c l d s hg

theorem verifyAll_preserves (H : Bytes → D) (hcol : NoLenCollision H) (ls : List (Layer D)) :
    ∀ (c : Cache D) (d : D) (s : Nat), Good H c d s → Good H (verifyAll H c ls).1 d s := by
  induction ls with
  | nil => intro c d s hg; exact hg
  | cons l ls ih =>
    intro c d s hg
    have := verifyLayer_preserves H hcol c l d s hg
    unfold verifyAll
    split
    · rename_i c1 h1; rw [h1] at this; exact ih c1 d s this
    · rename_i c1 h1; rw [h1] at this; exact this

theorem verifyAll_good (H : Bytes → D) (hcol : NoLenCollision H) (ls : List (Layer D)) :
    ∀ (c c1 : Cache D), verifyAll H c ls = (c1, true) → ∀ l ∈ ls, Good H c1 l.digest l.size := by
  induction ls with
  | nil => intro c c1 _ l hl; cases hl
  | cons l0 ls ih =>
    intro c c1 h l hl
    unfold verifyAll at h
    split at h
    · rename_i c2 h2
      rcases List.mem_cons.mp hl with rfl | hl
      · have := verifyAll_preserves H hcol ls c2 l.digest l.size (verifyLayer_good_self H c c2 l h2)
        rw [h] at this; exact this
      · exact ih c2 c1 h l hl
    · simp at h

theorem verifyPass_good (H : Bytes → D) (cfg : Cfg) (hv : cfg.verify = true)
    (hcol : cfg.staged = true → NoLenCollision H) (c c1 : Cache D) (m : Manifest D)
    (h : verifyPass H cfg c m = (c1, true)) : ∀ l ∈ m.all, Good H c1 l.digest l.size := by
  unfold verifyPass at h
  by_cases hs : cfg.staged = true
  · simp only [hv, hs, Bool.and_self, if_true] at h
    exact verifyAll_good H (hcol hs) m.all c c1 h
  · simp only [hv, hs, Bool.and_false, Bool.false_eq_true, if_false, if_true] at h
    split at h
    · simp at h
    · rename_i hnone
      simp only [Prod.mk.injEq, and_true] at h; subst h
      intro l hl
      have hg : layerGood H c l = true := by
        have := List.find?_eq_none.mp hnone l hl
        simpa using this
      unfold layerGood at hg
      split at hg
      · rename_i f hf
        simp only [Bool.and_eq_true, beq_iff_eq, decide_eq_true_eq] at hg
        exact ⟨f, hf, hg.1, hg.2⟩
      · cases hg

/-- **`pull_success_verified`, full strength, for every tree that verifies before `Link`
    (`cfg.verify = true`: /repo since 2258da28d, with or without staged chunk files).**  For ANY
    starting cache (whatever earlier attempts, failed or not, left: holey or oversized files,
    stale markers, stale staging files), any manifest, any served chunk plans (broken, repeated,
    overlapping, past the layer end), any fault script, completion order and MaxStreams: if
    `Pull` reports success, every layer of the manifest (config included) is in the cache as a
    file of EXACTLY the manifest's size whose hash, over the WHOLE file, is the manifest's
    digest.  (The `staged` variant commits layers one after the other; that a later commit does
    not disturb an earlier layer uses `NoLenCollision`.) -/
theorem pull_success_verified (H : Bytes → D) (cfg : Cfg) (hv : cfg.verify = true)
    (hcol : cfg.staged = true → NoLenCollision H) (c c' : Cache D)
    (a : Attempt D) (h : pull H cfg c a = (c', .ok)) :
    ∃ m, a.man = .ok m ∧ ∀ l ∈ m.all, Good H c' l.digest l.size := by
  obtain ⟨m, st, c1, hm, _, _, _, _, _, hpass, _, hc'⟩ := pull_links_last H cfg c c' a h
  refine ⟨m, hm, fun l hl => ?_⟩
  obtain ⟨f, hf, h1, h2⟩ := verifyPass_good H cfg hv hcol st.cache c1 m hpass l hl
  exact ⟨f, by rw [hc', link_files]; exact hf, h1, h2⟩

/-! ### The `staged` variant: the run never writes a blob file; verified blobs are never damaged -/

theorem setWork_files (v : Variant) (hs : v.staged = true) (c : Cache D) (d : D) (f : Bytes) :
    (c.setWork v d f).files = c.files := by
  unfold Cache.setWork; simp [hs]

theorem ensureFile_files (v : Variant) (hs : v.staged = true) (c : Cache D) (d : D) :
    (ensureFile v c d).files = c.files := by
  unfold ensureFile; split
  · rfl
  · exact setWork_files v hs c d []

theorem advance_files (v : Variant) (hs : v.staged = true) (limit : Option Nat) (st : Run D) (ops : List (Op D)) :
    (advance v limit st ops).cache.files = st.cache.files := by
  fun_induction advance v limit st ops <;> simp_all [ensureFile_files]
  split <;> simp [ensureFile_files, hs]

theorem applyTask_files (H : Bytes → D) (v : Variant) (hs : v.staged = true) (st : Run D)
    (t : Registry.Task D) (r : ChunkResp) : (applyTask H v st t r).cache.files = st.cache.files := by
  cases r with
  | fail e => rfl
  | redirect => rfl
  | body ps fin =>
    simp only [applyTask]
    split
    · rfl
    · split <;> simp [Cache.setMarker, setWork_files, hs]

theorem step_files (H : Bytes → D) (v : Variant) (hs : v.staged = true) (limit : Option Nat)
    (st st' : Run D) (s : Step) (h : step H v limit st s = some st') :
    st'.cache.files = st.cache.files := by
  cases s with
  | release k r =>
    simp only [step] at h
    split at h
    · cases h
    · split at h
      · injection h with h; subst h; rfl
      · injection h with h; subst h
        rw [advance_files v hs]
        split <;> simp [applyTask_files H v hs]
  | cancel =>
    simp only [step] at h
    injection h with h; subst h
    rw [advance_files v hs]
  | timeout =>
    simp only [step] at h
    injection h with h; subst h
    rw [advance_files v hs]

theorem runSteps_files (H : Bytes → D) (v : Variant) (hs : v.staged = true) (limit : Option Nat)
    (ss : List Step) :
    ∀ (st st' : Run D), runSteps H v limit st ss = some st' → st'.cache.files = st.cache.files := by
  induction ss with
  | nil => intro st st' h; simp only [runSteps] at h; injection h with h; subst h; rfl
  | cons s ss ih =>
    intro st st' h
    simp only [runSteps] at h
    split at h
    · cases h
    · rename_i st1 hs1
      rw [ih st1 st' h, step_files H v hs limit st st1 s hs1]

/-- **The run never writes a blob file (`staged`).**  Up to `g.Wait()`, whatever the registry
    serves, the blob files are exactly what they were before `Pull` was called. -/
theorem pullRun_files (H : Bytes → D) (cfg : Cfg) (hs : cfg.staged = true) (c : Cache D) (m : Manifest D)
    (a : Attempt D) (st : Run D) (h : pullRun H cfg c m a = some st) : st.cache.files = c.files := by
  unfold pullRun at h
  have hs' : cfg.variant.staged = true := hs
  rw [runSteps_files H cfg.variant hs' cfg.limit a.steps _ st h]
  unfold startRun
  simp only []
  rw [advance_files cfg.variant hs']

theorem verifyPass_preserves (H : Bytes → D) (cfg : Cfg) (hv : cfg.verify = true) (hs : cfg.staged = true)
    (hcol : NoLenCollision H) (c : Cache D) (m : Manifest D) (d : D) (s : Nat) (hg : Good H c d s) :
    Good H (verifyPass H cfg c m).1 d s := by
  unfold verifyPass
  simp only [hv, hs, Bool.and_self, if_true]
  exact verifyAll_preserves H hcol m.all c d s hg

/-- **No pull damages a verified blob (`staged` variant: F10d excluded).**  For every blob that is
    in the cache with size `s` and whole-file hash equal to its name, and for EVERY pull —
    any name, any manifest (also one declaring that digest with another size), any plans, any
    fault script, any outcome, failed or not — the blob is still there afterwards with size `s`
    and the right hash. -/
theorem pull_preserves_verified_blobs (H : Bytes → D) (cfg : Cfg) (hv : cfg.verify = true)
    (hs : cfg.staged = true) (hcol : NoLenCollision H) (c : Cache D) (a : Attempt D) (d : D) (s : Nat)
    (hg : Good H c d s) : Good H (pull H cfg c a).1 d s := by
  unfold pull
  split
  · exact hg
  · split
    · exact hg
    · split
      · exact hg
      · rename_i _ m _ _ _ st hst
        have hfiles := pullRun_files H cfg hs c m a st hst
        have hg' : Good H st.cache d s := by
          obtain ⟨f, hf, h1, h2⟩ := hg
          exact ⟨f, by rw [hfiles]; exact hf, h1, h2⟩
        unfold finish
        split
        · exact hg'
        · split
          · exact hg'
          · split
            · exact hg'
            · have hp := verifyPass_preserves H cfg hv hs hcol st.cache m d s hg'
              split
              · rename_i c1 hc1
                rw [hc1] at hp
                obtain ⟨f, hf, h1, h2⟩ := hp
                exact ⟨f, by rw [link_files]; exact hf, h1, h2⟩
              · rename_i c1 hc1; rw [hc1] at hp; exact hp

/-- every linked name's manifest layers are verified blobs -/
def LinkedVerified (H : Bytes → D) (c : Cache D) : Prop :=
  ∀ n m, c.links n = some m → ∀ l ∈ m.all, Good H c l.digest l.size

theorem pull_keeps_linkedVerified (H : Bytes → D) (cfg : Cfg) (hv : cfg.verify = true)
    (hs : cfg.staged = true) (hcol : NoLenCollision H) (c : Cache D) (a : Attempt D)
    (hinv : LinkedVerified H c) : LinkedVerified H (pull H cfg c a).1 := by
  intro n m hn l hl
  by_cases hold : c.links n = some m
  · exact pull_preserves_verified_blobs H cfg hv hs hcol c a l.digest l.size (hinv n m hold l hl)
  · -- the link of `n` changed: this pull succeeded on `n` with manifest `m`
    by_cases hok : (pull H cfg c a).2 = .ok
    · have hpair : pull H cfg c a = ((pull H cfg c a).1, .ok) := by rw [← hok]
      obtain ⟨m', st, c1, hm', _, _, _, _, _, _, hl1, hc'⟩ := pull_links_last H cfg c _ a hpair
      obtain ⟨m'', hm'', hall⟩ := pull_success_verified H cfg hv (fun _ => hcol) c _ a hpair
      have : m'' = m' := by rw [hm'] at hm''; injection hm'' with e; exact e.symm
      subst this
      -- which manifest is linked to n afterwards
      rw [hc'] at hn
      unfold Cache.link at hn
      have key : m = m'' := by
        split at hn
        · split at hn
          · rw [hl1] at hn; exact absurd hn hold
          · by_cases hna : n = a.name
            · simp [hna] at hn; exact hn.symm
            · simp [hna] at hn; rw [hl1] at hn; exact absurd hn hold
        · by_cases hna : n = a.name
          · simp [hna] at hn; exact hn.symm
          · simp [hna] at hn; rw [hl1] at hn; exact absurd hn hold
      subst key
      exact hall l hl
    · rw [failed_pull_keeps_links H cfg c a hok] at hn
      exact absurd hn hold

/-- **The property as an invariant of every history (`staged` variant).**  Starting from an empty
    cache (or any cache in which every linked name is verified), after ANY sequence of pulls —
    successes, failures, retries, other names, lying manifests, broken plans, any faults and
    completion orders — every linked name's manifest has every layer in the cache with exactly
    the manifest's size and digest.  This is the L2 monitor of the driver, proved. -/
theorem history_linked_layers_verified (H : Bytes → D) (cfg : Cfg) (hv : cfg.verify = true)
    (hs : cfg.staged = true) (hcol : NoLenCollision H) (as : List (Attempt D)) :
    ∀ c : Cache D, LinkedVerified H c → LinkedVerified H (pullHistory H cfg c as).1 := by
  induction as with
  | nil => intro c h; exact h
  | cons a as ih =>
    intro c h
    simp only [pullHistory]
    exact ih _ (pull_keeps_linkedVerified H cfg hv hs hcol c a h)

/-- **`handlePull` says success ⇒ the model is there.**  For every verifying tree, every starting
    cache and every sequence of attempt scripts (any number of temporary failures first): if the
    handler ends the stream with `"status":"success"`, then some attempt's manifest has every
    layer in the final cache with exactly the manifest's size and digest, and (unless `Link`'s
    same-size shortcut F8 applies) the name is linked to that manifest. -/
theorem handlePull_success_verified (H : Bytes → D) (cfg : Cfg) (hv : cfg.verify = true)
    (hcol : cfg.staged = true → NoLenCollision H) (as : List (Attempt D)) :
    ∀ c : Cache D, handlerSaysSuccess (handlePull H cfg c as).2 = true →
      ∃ a ∈ as, ∃ m, a.man = .ok m ∧ (∀ l ∈ m.all, Good H (handlePull H cfg c as).1 l.digest l.size) ∧
        (cfg.linkShortcut = false → (handlePull H cfg c as).1.links a.name = some m) := by
  induction as with
  | nil => intro c h; simp [handlePull, handlerSaysSuccess] at h
  | cons a as ih =>
    intro c h
    unfold handlePull at h ⊢
    by_cases hr : canRetry (pull H cfg c a).2 = true
    · simp only [hr, if_true] at h ⊢
      obtain ⟨a', ha', m, hm, hg, hl⟩ := ih (pull H cfg c a).1 h
      exact ⟨a', by simp [ha'], m, hm, hg, hl⟩
    · simp only [hr] at h ⊢
      have hok : (pull H cfg c a).2 = .ok := by simpa [handlerSaysSuccess] using h
      have hpair : pull H cfg c a = ((pull H cfg c a).1, .ok) := by rw [← hok]
      obtain ⟨m, hm, hg⟩ := pull_success_verified H cfg hv hcol c _ a hpair
      obtain ⟨m', st, c1, hm', _, _, _, _, _, _, _, hc'⟩ := pull_links_last H cfg c _ a hpair
      have : m' = m := by rw [hm] at hm'; injection hm' with e; exact e.symm
      subst this
      have hlink : cfg.linkShortcut = false → (pull H cfg c a).1.links a.name = some m' := by
        intro hsc
        rw [hc']
        unfold Cache.link
        split <;> simp [hsc]
      exact ⟨a, by simp, m', hm, hg, hlink⟩

theorem linkedVerified_empty (H : Bytes → D) : LinkedVerified H (Cache.empty : Cache D) := by
  intro n m h; simp [Cache.empty] at h
end

/-- the repaired variant (`verify := true`, proposed_fixes/C09-F10abc-verify-before-link.patch) on the
    same scripts: (a), (b), (c) end in `ErrIncomplete`, nothing is linked, the bad blob is removed -/
def rcfg : Cfg := ⟨2, none, true, true, false⟩

theorem F10abc_repaired_variant :
    (handlePull id rcfg Cache.empty [a1, a2]).2 = some (.err .incomplete) ∧
    (handlePull id rcfg Cache.empty [a1, a2]).1.links 0 = none ∧
    (handlePull id rcfg Cache.empty [a1, a2]).1.files abc = none ∧
    (pull id rcfg Cache.empty b1).2 = .err .incomplete ∧ (pull id rcfg Cache.empty b1).1.links 0 = none ∧
    (pull id rcfg Cache.empty c1).2 = .err .incomplete ∧ (pull id rcfg Cache.empty c1).1.links 0 = none := by
  decide

/-- the seeded-change scenario on the repaired variant: attempt 1 is served `ab 0-1, cd 2-3, zz 4-5`
    for the 4-byte layer (every chunk verifies, the file grows to 6 bytes, the counter says 6/4);
    attempt 2 gets the honest list: both chunks are marker-cached, the counter is exact, and only
    the whole-file check (size equal AND hash equal) refuses the oversized file and removes it;
    attempt 3 downloads afresh and succeeds with exactly `abcd`. -/
def o1 : Attempt Bytes :=
  ⟨0, .ok mABCD, [.list [⟨[97, 98], 0, 2⟩, ⟨[99, 100], 2, 2⟩, ⟨[122, 122], 4, 2⟩]],
    [.release 0 (.body [[97, 98]] .eof), .release 0 (.body [[99, 100]] .eof), .release 0 (.body [[122, 122]] .eof)]⟩
def o2 : Attempt Bytes := ⟨0, .ok mABCD, [.list [⟨[97, 98], 0, 2⟩, ⟨[99, 100], 2, 2⟩]], []⟩
def o3 : Attempt Bytes :=
  ⟨0, .ok mABCD, [.list [⟨[97, 98], 0, 2⟩, ⟨[99, 100], 2, 2⟩]],
    [.release 0 (.body [[97, 98]] .eof), .release 0 (.body [[99, 100]] .eof)]⟩

theorem oversized_blob_refused_then_refetched :
    (pullHistory id rcfg Cache.empty [o1]).1.files abcd = some [97, 98, 99, 100, 122, 122] ∧
    (pullHistory id rcfg Cache.empty [o1, o2, o3]).2 = [.err .incomplete, .err .incomplete, .ok] ∧
    (pullHistory id rcfg Cache.empty [o1, o2]).1.files abcd = none ∧
    (pullHistory id rcfg Cache.empty [o1, o2]).1.links 0 = none ∧
    (pullHistory id rcfg Cache.empty [o1, o2, o3]).1.files abcd = some abcd := by decide

/-- the F10d script on the `staged` variant: the lying pull fails, the verified blob is untouched,
    the unverified bytes sit in the staging file -/
def scfg : Cfg := ⟨6, none, true, true, true⟩

theorem F10d_staged_variant :
    (pullHistory id scfg Cache.empty [d1, d2]).2 = [.ok, .err .digest] ∧
    (pullHistory id scfg Cache.empty [d1, d2]).1.links 0 = some mABCD ∧
    (pullHistory id scfg Cache.empty [d1, d2]).1.files abcd = some abcd ∧
    (pullHistory id scfg Cache.empty [d1, d2]).1.staging abcd = some [1, 2] := by decide

/-- the hypothesis of the `staged` theorems is satisfiable (by the oracle's `H := id`) and their
    premises are met by a non-trivial cache -/
example : NoLenCollision (id : Bytes → Bytes) := fun x y h => by simp at h; rw [h]

example : Good id (pullHistory id scfg Cache.empty [d1]).1 abcd 4 := ⟨abcd, by decide, by decide, rfl⟩

/-! ### Non-vacuity: the hypotheses of the theorems above are met by non-trivial values -/

/-- a successful two-piece `Put` at offset 2 into a 1-byte file (zero-extended) -/
example : putLoop id ([7, 8, 9] : Bytes) [1] 2 3 [] [[7], [8, 9, 10]] .eof = ([1, 0, 7, 8, 9], none) := by decide

/-- a failed `Put`: the first piece is written, the completing one is refused -/
example : putLoop id ([7, 8, 9] : Bytes) [] 0 3 [] [[7], [8, 0]] .eof = ([7], some .digest) := by decide

/-- a successful pull (single small layer) and a failed one -/
example : (pull id dcfg Cache.empty d1).2 = .ok ∧ (pull id wcfg Cache.empty a1).2 ≠ .ok := by decide

/-- an in-order exact partition with all `Put`s succeeding -/
example : Consecutive (D := Bytes) 0 [⟨[97, 98], 0, 2⟩, ⟨[99], 2, 1⟩] ∧
    putAll id [] [⟨[97, 98], 0, 2⟩, ⟨[99], 2, 1⟩] [([[97], [98]], .eof), ([[99]], .eof)] = some abc := by
  refine ⟨⟨rfl, by decide, rfl, by decide, trivial⟩, by decide⟩

/-- push traces: an upload PUT answered 307 (not followed: the body is the blob file) fails the
    layer and no manifest request is sent; a POST answered 307 is followed; an upload PUT answered
    302 is turned into a GET by net/http and its answer decides -/
example :
    pushTrace [⟨[⟨202, true⟩], [⟨307, true⟩]⟩] [0, 0] [] =
      some ([.req 0 false .post 202, .req 0 true .put 307], false) ∧
    pushTrace [⟨[⟨307, true⟩, ⟨200, false⟩], []⟩] [0, 0] [⟨308, true⟩, ⟨201, false⟩] =
      some ([.req 0 false .post 307, .req 0 false .post 200, .man .put 308, .man .put 201], true) ∧
    pushTrace [⟨[⟨202, true⟩], [⟨302, true⟩, ⟨200, false⟩]⟩] [0, 0, 0] [] =
      some ([.req 0 false .post 202, .req 0 true .put 302, .req 0 true .get 200, .man .put 200], true) := by
  decide

example : (legacyPush false [⟨[⟨404, false⟩], [⟨202, true⟩], [[⟨500, false⟩], [⟨202, true⟩]], []⟩, ⟨[⟨200, false⟩], [], [], []⟩] []).2 = true ∧
    (legacyPush false [⟨[⟨404, false⟩], [⟨202, true⟩], [[⟨500, false⟩], [⟨500, false⟩], [⟨500, false⟩], [⟨500, false⟩], [⟨500, false⟩], [⟨500, false⟩]], []⟩] []).2 = false := by decide

end OllamaVerif.C09
