/-
  C02 — Every runner request is answered exactly once and the scheduler drains.

  Model: `Model/Sched.lean` (see Properties/C01.lean for what `Reach` quantifies over).
  Proved here, for EVERY variant of the code (the two guards do not matter for these):
    * `at_most_one_reply`      – no request ever receives two replies;
    * `reply_is_runner_xor_error`;
    * `never_lost`             – every accepted request is, at all times, in exactly one of:
                                 answered (once) / skipped because it was already cancelled when the
                                 pending loop reached it / still tracked in exactly one place
                                 (pending queue, re-queue sleeper, load in flight, pending loop);
    * `full_queue_is_busy_error` – a submit on a full queue is answered "busy" in the same step and
                                 changes nothing else (it cannot block).
  `never_lost` is the safety half of "exactly one reply": a request can only stay unanswered by
  staying tracked.  The liveness half (tracked requests are eventually answered, the scheduler
  drains) is `drain` in Properties/C02Drain.lean, for the good variant.
-/
import OllamaVerif.Proofs.Sched4

namespace OllamaVerif.C02
open OllamaVerif.Sched

theorem inv2_reach {v : Variant} {mr mq ds : Nat} {s : State} (h : Reach v (Sched.init mr mq ds) s) : Inv2 s := by
  induction h with
  | init => exact (inv_init mr mq ds).i2
  | step a _ hs ih => exact inv2_step a ih hs

theorem inv5_init (mr mq ds : Nat) : Inv5 (Sched.init mr mq ds) := by
  refine ⟨?_, ?_, ?_, ?_⟩ <;> simp [Sched.init, pendingSet, PPC.req]

theorem inv5_reach {v : Variant} {mr mq ds : Nat} {s : State} (h : Reach v (Sched.init mr mq ds) s) : Inv5 s := by
  induction h with
  | init => exact inv5_init mr mq ds
  | step a h' hs ih => exact inv5_step a (inv2_reach h') ih hs

/-- **No request is answered twice**, in any reachable state of any variant. -/
theorem at_most_one_reply {v : Variant} {mr mq ds : Nat} {s : State}
    (h : Reach v (Sched.init mr mq ds) s) (q : ReqId) : (s.reqs q).replies ≤ 1 := by
  have := (inv2_reach h).cnt q
  omega

/-- a reply is either a runner or an error, never both -/
theorem reply_is_runner_xor_error {v : Variant} {mr mq ds : Nat} {s : State}
    (h : Reach v (Sched.init mr mq ds) s) (q : ReqId) :
    ¬ ((s.reqs q).gotRunner.isSome = true ∧ (s.reqs q).gotErr = true) := by
  have h1 := at_most_one_reply h q
  have h3 := (inv5_reach h).n3 q
  intro ⟨ha, hb⟩
  rw [ha, hb] at h3
  simp at h3
  omega

/-- **No accepted request is ever lost.** -/
theorem never_lost {v : Variant} {mr mq ds : Nat} {s : State}
    (h : Reach v (Sched.init mr mq ds) s) (q : ReqId) (hq : q < s.nReqs) :
    ((s.reqs q).replies = 1 ∧ (pendingSet s).count q = 0 ∧ (s.reqs q).dropped = false) ∨
    ((s.reqs q).replies = 0 ∧ (pendingSet s).count q = 0 ∧ (s.reqs q).dropped = true ∧ (s.reqs q).done = true) ∨
    ((s.reqs q).replies = 0 ∧ (pendingSet s).count q = 1 ∧ (s.reqs q).dropped = false) := by
  have hi := inv5_reach h
  have h1 := hi.n1 q hq
  cases hd : (s.reqs q).dropped with
  | true =>
    have := hi.n2 q hd
    simp [hd] at h1
    right; left
    exact ⟨by omega, by omega, rfl, this⟩
  | false =>
    simp [hd] at h1
    by_cases hr : (s.reqs q).replies = 1
    · left; exact ⟨hr, by omega, rfl⟩
    · right; right; exact ⟨by omega, by omega, rfl⟩

/-- **A full queue answers "busy" at once**: the submit step itself delivers the error reply and
    leaves every queue, both loops and every runner untouched. -/
theorem full_queue_is_busy_error {v : Variant} {s s' : State} {m : ModelId} {o : Nat} {se : Option Nat}
    (hfull : s.maxQueue ≤ s.pendingQ.length) (hs : step v s (.submit m o se) = some s') :
    (s'.reqs s.nReqs).gotErr = true ∧ (s'.reqs s.nReqs).replies = 1 ∧ s'.nReqs = s.nReqs + 1 ∧
    s'.pendingQ = s.pendingQ ∧ s'.ppc = s.ppc ∧ s'.cpc = s.cpc ∧ s'.runners = s.runners ∧ s'.loaded = s.loaded := by
  simp only [step] at hs
  split at hs
  · omega
  · cases hs
    simp [replyErr, setReq, upd]

/-- and a queue with room accepts the request without answering it yet -/
theorem queue_with_room_accepts {v : Variant} {s s' : State} {m : ModelId} {o : Nat} {se : Option Nat}
    (hroom : s.pendingQ.length < s.maxQueue) (hs : step v s (.submit m o se) = some s') :
    s'.pendingQ = s.pendingQ ++ [s.nReqs] ∧ (s'.reqs s.nReqs).replies = 0 := by
  simp only [step] at hs
  split at hs
  · cases hs; simp [upd]
  · omega

/-- non-vacuity: the witness trace of C01 reaches a state in which request 0 has its single reply -/
example : ∃ s, Reach Variant.pinned (Sched.init 0 512 1) s ∧ (s.reqs 0).replies = 1 := by
  have h1 := Reach.step (v := Variant.pinned) (s0 := Sched.init 0 512 1) (.submit 0 0 none) Reach.init rfl
  have h2 := Reach.step .pTake h1 rfl
  have h3 := Reach.step (.pLookup {}) h2 rfl
  have h4 := Reach.step (.pLoad true) h3 rfl
  have h5 := Reach.step (.loadDone 0 true) h4 rfl
  exact ⟨_, h5, by decide⟩

end OllamaVerif.C02
