/-
  C03 — a successful pull leaves exactly the published, digest-verified model.

  Property theorems over `Model/Pull.lean` (helper lemmas are in `Proofs/Pull.lean`).
  `hash` is an arbitrary function (SHA-256 uninterpreted, no injectivity).
-/
import OllamaVerif.Proofs.Pull

namespace OllamaVerif.C03
open OllamaVerif OllamaVerif.Pull

/-! ## Challenge parsing -/

/-- decidable guard: no `key=` sits at the very end of the (prefix-trimmed) header -/
def keySafe (s key : Bytes) : Bool :=
  match indexOf (key ++ [61]) s with
  | none => true
  | some idx => decide (idx + key.length + 2 ≤ s.length)

def challengeSafe (hdr : Bytes) : Bool :=
  let s := trimPrefix bearer hdr
  keySafe s kRealm && keySafe s kService && keySafe s kScope

/-- **Witness of F5**: `realm=` at the end of the header makes `getValue` slice out of range. -/
theorem F5_challenge_panics :
    parseChallenge false (kRealm ++ [61]) = none ∧
    parseChallenge false (bearer ++ kRealm ++ [61]) = none ∧
    parseChallenge true (kRealm ++ [61]) = some ⟨[], [], []⟩ := by decide

theorem getValue_pinned_none_iff (s key : Bytes) :
    getValue false s key = none ↔ keySafe s key = false := by
  unfold getValue keySafe
  cases indexOf (key ++ [61]) s with
  | none => simp
  | some idx =>
    simp only
    by_cases h : idx + key.length + 2 > s.length
    · simp [h]
    · simp [h]

/-- **Challenge parsing panics exactly on the guarded-out headers** (pinned code). -/
theorem challenge_panics_iff (hdr : Bytes) :
    parseChallenge false hdr = none ↔ challengeSafe hdr = false := by
  unfold parseChallenge challengeSafe
  simp only
  have h1 := getValue_pinned_none_iff (trimPrefix bearer hdr) kRealm
  have h2 := getValue_pinned_none_iff (trimPrefix bearer hdr) kService
  have h3 := getValue_pinned_none_iff (trimPrefix bearer hdr) kScope
  cases hr : getValue false (trimPrefix bearer hdr) kRealm <;>
  cases hs : getValue false (trimPrefix bearer hdr) kService <;>
  cases hc : getValue false (trimPrefix bearer hdr) kScope <;>
  simp_all

/-- `challenge_total` is false of the pinned code (F5); it holds under the guard … -/
theorem challenge_total_partial (hdr : Bytes) (h : challengeSafe hdr = true) :
    parseChallenge false hdr ≠ none := by
  intro hn
  have := (challenge_panics_iff hdr).1 hn
  simp [h] at this

/-- … and for every header once `getValue` checks its bounds (the proposed fix). -/
theorem challenge_total_fixed (hdr : Bytes) : parseChallenge true hdr ≠ none := by
  have gv : ∀ s key, getValue true s key ≠ none := by
    intro s key
    unfold getValue
    cases indexOf (key ++ [61]) s with
    | none => simp
    | some idx => simp only; split <;> simp
  unfold parseChallenge
  simp only
  cases hr : getValue true (trimPrefix bearer hdr) kRealm with
  | none => exact absurd hr (gv _ _)
  | some r =>
    cases hs : getValue true (trimPrefix bearer hdr) kService with
    | none => exact absurd hs (gv _ _)
    | some sv =>
      cases hc : getValue true (trimPrefix bearer hdr) kScope with
      | none => exact absurd hc (gv _ _)
      | some sc => simp

/-- non-vacuity: a realistic header satisfies the guard -/
example : challengeSafe (bearer ++ kRealm ++ [61, 34, 97, 34, 44] ++ kService ++ [61, 34, 115, 34]) = true := by decide

/-! ## Invariants -/

/-- every stored blob hashes to its name -/
def BlobInv (hash : Bytes → Digest) (st : Store) : Prop :=
  ∀ d c, st.blobs d = some c → hash c = d

/-- every name that resolves to a readable manifest has all its layers, intact -/
def NameInv (hash : Bytes → Digest) (st : Store) : Prop :=
  ∀ n m, lookupM n st.manifests = some (.readable m) →
    ∀ l ∈ m.all, ∃ d c, l.digest = .ok d ∧ st.blobs d = some c ∧ hash c = d

/-! ## Concrete witnesses (toy hash = first byte) -/

def toyHash (b : Bytes) : Digest := b.take 1
def cfgW : Cfg := { nparts := 16, minSize := 100, maxSize := 1000, retries := 6 }
def st0 : Store := ⟨fun _ => none, fun _ => Partial.none, []⟩
def dA : Digest := [1]
def dB : Digest := [2]
def cA : Bytes := [1, 10]
def cB : Bytes := [2, 20]
def regAB : Registry := ⟨⟨[⟨.ok dA, 2⟩, ⟨.ok dB, 2⟩], ⟨.empty, 0⟩⟩, [(dA, cA), (dB, cB)], [0]⟩

theorem st0_inv : BlobInv toyHash st0 ∧ NameInv toyHash st0 := by
  constructor
  · intro d c h; simp [st0] at h
  · intro n m h; simp [st0, lookupM] at h

/-- attempt 1: the CDN answers layer A's chunk with an error page (status is never checked),
    layer B's HEAD is 404 -/
def scF6 : Scripts :=
  ⟨[], [], [(dA, ⟨[], [], [[.body (.junk [9, 9]) none .eof]]⟩), (dB, ⟨[.notfound], [], []⟩)]⟩

/-- **Witness of F6** (`pull_fail_preserves` is false): from the empty store, a failed attempt leaves
    layer A under its final name unverified; the following attempt against a completely honest
    registry reports success, installs the manifest, and layer A's bytes do not hash to its digest. -/
theorem F6_failed_pull_then_honest_retry_installs_corrupt_layer :
    let r1 := pull cfgW toyHash 0 regAB scF6 st0
    let r2 := pull cfgW toyHash 0 regAB Scripts.honest r1.2.1
    r1.1 = .err .notfound ∧ r1.2.2.renamed = [dA] ∧
    r2.1 = .ok () ∧ r2.2.1.blobs dA = some [9, 9] ∧ toyHash [9, 9] ≠ dA ∧
    lookupM 0 r2.2.1.manifests = some (.readable regAB.manifest) := by decide

/-- **Witness (repeated digest)**: `skipVerify` is keyed by digest and the second occurrence is a cache
    hit, so a freshly downloaded corrupt blob is never verified and the pull succeeds. -/
theorem dup_digest_skips_verification :
    let reg : Registry := ⟨⟨[⟨.ok dA, 2⟩, ⟨.ok dA, 2⟩], ⟨.empty, 0⟩⟩, [(dA, cA)], [0]⟩
    let sc : Scripts := ⟨[], [], [(dA, ⟨[], [], [[.body (.flip 1) none .eof]]⟩)]⟩
    let r := pull cfgW toyHash 0 reg sc st0
    r.1 = .ok () ∧ r.2.1.blobs dA = some [1, 245] ∧ [1, 245] ≠ cA := by decide

/-- **Witness (empty digest)**: a served layer with digest `""` panics in `downloadBlob`. -/
theorem empty_digest_panics :
    let reg : Registry := ⟨⟨[⟨.empty, 0⟩], ⟨.empty, 0⟩⟩, [], [0]⟩
    (pull cfgW toyHash 0 reg Scripts.honest st0).1 = .panic .emptyDigest := by decide

/-- **Witness (size never compared)**: the manifest declares 7 bytes, the blob has 2, the pull succeeds. -/
theorem size_lie_accepted :
    let reg : Registry := ⟨⟨[⟨.ok dA, 7⟩], ⟨.empty, 0⟩⟩, [(dA, cA)], [0]⟩
    let r := pull cfgW toyHash 0 reg Scripts.honest st0
    r.1 = .ok () ∧ r.2.1.blobs dA = some cA ∧ cA.length ≠ 7 := by decide

end OllamaVerif.C03
