/-
  C03 — a successful pull leaves exactly the published, digest-verified model.

  Property theorems over `Model/Pull.lean` (helper lemmas are in `Proofs/Pull.lean`).
  `hash` is an arbitrary function (SHA-256 uninterpreted, no injectivity).
-/
import OllamaVerif.Proofs.Pull

namespace OllamaVerif.C03
open OllamaVerif OllamaVerif.Pull

/-! ## Challenge parsing -/

/-- decidable guard: no `key=` sits at the very end of the (prefix-trimmed) header -/
def keySafe (s key : Bytes) : Bool :=
  match indexOf (key ++ [61]) s with
  | none => true
  | some idx => decide (idx + key.length + 2 ≤ s.length)

def challengeSafe (hdr : Bytes) : Bool :=
  let s := trimPrefix bearer hdr
  keySafe s kRealm && keySafe s kService && keySafe s kScope

/-- **Witness of F5**: `realm=` at the end of the header makes `getValue` slice out of range. -/
theorem F5_challenge_panics :
    parseChallenge false (kRealm ++ [61]) = none ∧
    parseChallenge false (bearer ++ kRealm ++ [61]) = none ∧
    parseChallenge true (kRealm ++ [61]) = some ⟨[], [], []⟩ := by decide

theorem getValue_pinned_none_iff (s key : Bytes) :
    getValue false s key = none ↔ keySafe s key = false := by
  unfold getValue keySafe
  cases indexOf (key ++ [61]) s with
  | none => simp
  | some idx =>
    simp only
    by_cases h : idx + key.length + 2 > s.length
    · simp [h]
    · simp [h]

/-- **Challenge parsing panics exactly on the guarded-out headers** (pinned code). -/
theorem challenge_panics_iff (hdr : Bytes) :
    parseChallenge false hdr = none ↔ challengeSafe hdr = false := by
  unfold parseChallenge challengeSafe
  simp only
  have h1 := getValue_pinned_none_iff (trimPrefix bearer hdr) kRealm
  have h2 := getValue_pinned_none_iff (trimPrefix bearer hdr) kService
  have h3 := getValue_pinned_none_iff (trimPrefix bearer hdr) kScope
  cases hr : getValue false (trimPrefix bearer hdr) kRealm <;>
  cases hs : getValue false (trimPrefix bearer hdr) kService <;>
  cases hc : getValue false (trimPrefix bearer hdr) kScope <;>
  simp_all

/-- `challenge_total` is false of the pinned code (F5); it holds under the guard … -/
theorem challenge_total_partial (hdr : Bytes) (h : challengeSafe hdr = true) :
    parseChallenge false hdr ≠ none := by
  intro hn
  have := (challenge_panics_iff hdr).1 hn
  simp [h] at this

/-- … and for every header once `getValue` checks its bounds (the proposed fix). -/
theorem challenge_total_fixed (hdr : Bytes) : parseChallenge true hdr ≠ none := by
  have gv : ∀ s key, getValue true s key ≠ none := by
    intro s key
    unfold getValue
    cases indexOf (key ++ [61]) s with
    | none => simp
    | some idx => simp only; split <;> simp
  unfold parseChallenge
  simp only
  cases hr : getValue true (trimPrefix bearer hdr) kRealm with
  | none => exact absurd hr (gv _ _)
  | some r =>
    cases hs : getValue true (trimPrefix bearer hdr) kService with
    | none => exact absurd hs (gv _ _)
    | some sv =>
      cases hc : getValue true (trimPrefix bearer hdr) kScope with
      | none => exact absurd hc (gv _ _)
      | some sc => simp

/-- non-vacuity: a realistic header satisfies the guard -/
example : challengeSafe (bearer ++ kRealm ++ [61, 34, 97, 34, 44] ++ kService ++ [61, 34, 115, 34]) = true := by decide

/-! ## Invariants -/

/-- every stored blob hashes to its name -/
def BlobInv (hash : Bytes → Digest) (st : Store) : Prop :=
  ∀ d c, st.blobs d = some c → hash c = d

/-- every name that resolves to a readable manifest has all its layers, intact -/
def NameInv (hash : Bytes → Digest) (st : Store) : Prop :=
  ∀ n m, lookupM n st.manifests = some (.readable m) →
    ∀ l ∈ m.all, ∃ d c, l.digest = .ok d ∧ st.blobs d = some c ∧ hash c = d

/-! ## Success -/

/-- **A successful pull leaves the published, digest-verified model** (pinned `skipVerify` logic) —
    for every store satisfying `BlobInv`, every registry, every fault script, every manifest whose
    digests are pairwise distinct: if `pull` reports success then every layer of the served manifest
    (config included) is addressable, stored, and its bytes hash to its digest; and the name resolves
    to the served manifest.  (Without `Nodup` the statement is false of the pinned code:
    `dup_digest_skips_verification`; the repaired code needs no `Nodup`: `pull_success_complete_fixed`.) -/
theorem pull_success_complete (cfg : Cfg) (hash : Bytes → Digest) (name : Name) (reg : Registry)
    (sc : Scripts) (st st' : Store) (log : Log) (hdup : cfg.fixedDup = false)
    (hinv : BlobInv hash st) (hnodup : (reg.manifest.all.map (·.digest)).Nodup)
    (h : pull cfg hash name reg sc st = (.ok (), st', log)) :
    (∀ l ∈ reg.manifest.all, ∃ d c, l.digest = .ok d ∧ st'.blobs d = some c ∧ hash c = d) ∧
    lookupM name st'.manifests = some (.readable reg.manifest) := by
  rcases pull_cases h with ⟨hne, _⟩ | ⟨_, _, _, hne, _⟩ | ⟨net0, s, ov, st2, hdl, hv, _, hcase⟩
  · exact absurd rfl hne
  · exact absurd rfl hne
  · rcases hcase with ⟨hne, ho, _⟩ | ⟨hov, _, hman, hblobs⟩
    · exact absurd ho.symm hne
    · subst hov
      obtain ⟨hst2, hver⟩ := verifyPhase_ok hv
      subst hst2
      refine ⟨?_, by rw [hman]; exact lookupM_insertM _ _ _⟩
      intro l hl
      obtain ⟨d, c, hd, hc, _⟩ := dlLoop_ok_all hdup _ hdl l hl
      refine ⟨d, c, hd, ?_, ?_⟩
      · -- pruning does not remove a served layer
        rw [hblobs, prunedBlobs_keep]
        · exact hc
        · rw [← hd]; exact List.mem_map_of_mem hl
      · cases hearly : cfg.verifyEarly with
        | true => exact dlLoop_blobInv_early hearly _ hdl hinv d c hc
        | false =>
          cases hsk : getSkip d s.skip with
          | false =>
            obtain ⟨c', hc', hh⟩ := hver hearly l hl d hd hsk
            rw [hc] at hc'; cases hc'; exact hh
          | true =>
            have := dlLoop_ok_nodup hdup _ hdl hnodup l hl d hd hsk
            rw [hc] at this
            exact hinv d c this.symm

/-- **The same for the repaired code, with no condition on the manifest**: once every fresh layer is
    verified right after its download (`verifyEarly`), success implies every served layer is stored
    and hashes to its digest — also when a digest is listed twice. -/
theorem pull_success_complete_fixed (cfg : Cfg) (hash : Bytes → Digest) (name : Name) (reg : Registry)
    (sc : Scripts) (st st' : Store) (log : Log) (hearly : cfg.verifyEarly = true)
    (hinv : BlobInv hash st) (h : pull cfg hash name reg sc st = (.ok (), st', log)) :
    (∀ l ∈ reg.manifest.all, ∃ d c, l.digest = .ok d ∧ st'.blobs d = some c ∧ hash c = d) ∧
    lookupM name st'.manifests = some (.readable reg.manifest) := by
  rcases pull_cases h with ⟨hne, _⟩ | ⟨_, _, _, hne, _⟩ | ⟨net0, s, ov, st2, hdl, hv, _, hcase⟩
  · exact absurd rfl hne
  · exact absurd rfl hne
  · rcases hcase with ⟨hne, ho, _⟩ | ⟨hov, _, hman, hblobs⟩
    · exact absurd ho.symm hne
    · subst hov
      obtain ⟨hst2, _⟩ := verifyPhase_ok hv
      subst hst2
      refine ⟨?_, by rw [hman]; exact lookupM_insertM _ _ _⟩
      intro l hl
      obtain ⟨d, c, hd, hc⟩ := dlLoop_ok_present _ hdl l hl
      refine ⟨d, c, hd, ?_, dlLoop_blobInv_early hearly _ hdl hinv d c hc⟩
      rw [hblobs, prunedBlobs_keep]
      · exact hc
      · rw [← hd]; exact List.mem_map_of_mem hl

/-- The size clause: the code never compares sizes (`size_lie_accepted`); it follows from the digest
    clause exactly when the declared size is the size of whatever hashes to the digest (which is
    what an honest manifest declares, and what collision resistance gives). -/
theorem pull_success_sizes (cfg : Cfg) (hash : Bytes → Digest) (name : Name) (reg : Registry)
    (sc : Scripts) (st st' : Store) (log : Log) (hdup : cfg.fixedDup = false)
    (hinv : BlobInv hash st) (hnodup : (reg.manifest.all.map (·.digest)).Nodup)
    (hsize : ∀ l ∈ reg.manifest.all, ∀ d c, l.digest = .ok d → hash c = d → c.length = l.size)
    (h : pull cfg hash name reg sc st = (.ok (), st', log)) :
    ∀ l ∈ reg.manifest.all, ∃ d c, l.digest = .ok d ∧ st'.blobs d = some c ∧ hash c = d ∧
      c.length = l.size := by
  intro l hl
  obtain ⟨d, c, hd, hc, hh⟩ := (pull_success_complete cfg hash name reg sc st st' log hdup hinv hnodup h).1 l hl
  exact ⟨d, c, hd, hc, hh, hsize l hl d c hd hh⟩

/-! ## Failure -/

/-- **A failed (or crashed) pull never changes what was there**: every blob of the old store is still
    stored with the same bytes and every manifest is unchanged — for the pinned `skipVerify` logic
    and for the fully repaired code.  (The pinned code can *add* blobs: F6.) -/
theorem pull_fail_preserves_store (cfg : Cfg) (hash : Bytes → Digest) (name : Name) (reg : Registry)
    (sc : Scripts) (st st' : Store) (o : Outcome) (log : Log)
    (hvar : cfg.fixedDup = false ∨ cfg.verifyEarly = true) (hne : o ≠ .ok ())
    (h : pull cfg hash name reg sc st = (o, st', log)) :
    (∀ d c, st.blobs d = some c → st'.blobs d = some c) ∧ st'.manifests = st.manifests := by
  rcases pull_cases h with ⟨_, hst, _⟩ | ⟨_, s, hdl, _, hst, _⟩ | ⟨net0, s, ov, st2, hdl, hv, _, hcase⟩
  · subst hst; exact ⟨fun _ _ h => h, rfl⟩
  · subst hst
    obtain ⟨hm, hk, _, _⟩ := dlLoop_preserve _ hdl
    exact ⟨hk, hm⟩
  · rcases hcase with ⟨_, _, hst⟩ | ⟨_, ho, _⟩
    · subst hst
      obtain ⟨hm, hk, _, _⟩ := dlLoop_preserve _ hdl
      obtain ⟨vm, vx⟩ := verifyPhase_any hv
      refine ⟨?_, vm.trans hm⟩
      intro d c hc
      have hc1 := hk d c hc
      rcases vx d with e | ⟨hpin, hf, l, hl, hd⟩
      · rw [e]; exact hc1
      · have hdup : cfg.fixedDup = false := by
          rcases hvar with h1 | h2
          · exact h1
          · rw [hpin] at h2; cases h2
        have := dlLoop_skip_true hdup _ hdl (x := d) hc (Or.inl ⟨l, hl, hd⟩)
        rw [this] at hf; cases hf
    · exact absurd ho hne

/-- **After a failed pull no name resolves to a manifest with missing or corrupt layers**
    (given that this was so before). -/
theorem pull_fail_preserves_names (cfg : Cfg) (hash : Bytes → Digest) (name : Name) (reg : Registry)
    (sc : Scripts) (st st' : Store) (o : Outcome) (log : Log)
    (hvar : cfg.fixedDup = false ∨ cfg.verifyEarly = true) (hne : o ≠ .ok ())
    (hinv : NameInv hash st) (h : pull cfg hash name reg sc st = (o, st', log)) :
    NameInv hash st' := by
  obtain ⟨hb, hm⟩ := pull_fail_preserves_store cfg hash name reg sc st st' o log hvar hne h
  intro n m hn l hl
  rw [hm] at hn
  obtain ⟨d, c, hd, hc, hh⟩ := hinv n m hn l hl
  exact ⟨d, c, hd, hb d c hc, hh⟩

/-- `pull_fail_preserves` (`BlobInv` after a failed pull) is false of the pinned code: F6.  What holds
    there: a failed pull changes the blob map only at digests it renamed into place itself; so if it
    renamed nothing the blob map — and `BlobInv` — is exactly what it was. -/
theorem pull_fail_blobs_partial (cfg : Cfg) (hash : Bytes → Digest) (name : Name) (reg : Registry)
    (sc : Scripts) (st st' : Store) (o : Outcome) (log : Log) (hdup : cfg.fixedDup = false) (hne : o ≠ .ok ())
    (h : pull cfg hash name reg sc st = (o, st', log)) :
    (∀ d, d ∉ log.renamed → st'.blobs d = st.blobs d) ∧
    (log.renamed = [] → BlobInv hash st → BlobInv hash st') := by
  have main : ∀ d, d ∉ log.renamed → st'.blobs d = st.blobs d := by
    rcases pull_cases h with ⟨_, hst, _⟩ | ⟨_, s, hdl, _, hst, hr⟩ | ⟨net0, s, ov, st2, hdl, hv, hr, hcase⟩
    · subst hst; exact fun _ _ => rfl
    · subst hst
      obtain ⟨_, _, _, hc⟩ := dlLoop_preserve _ hdl
      intro d hd
      rcases hc d with e | r
      · exact e
      · rw [hr] at hd; exact absurd r hd
    · rcases hcase with ⟨_, _, hst⟩ | ⟨_, ho, _⟩
      · subst hst
        obtain ⟨_, _, _, hc⟩ := dlLoop_preserve _ hdl
        obtain ⟨_, vx⟩ := verifyPhase_any hv
        intro d hd
        rw [hr] at hd
        have e1 : s.st.blobs d = st.blobs d := by
          rcases hc d with e | r
          · exact e
          · exact absurd r hd
        rcases vx d with e | ⟨_, hf, l, hl, hdl'⟩
        · rw [e, e1]
        · obtain ⟨d', _, hd', _, hor⟩ := dlLoop_ok_all hdup _ hdl l hl
          rw [hdl'] at hd'; cases hd'
          rcases hor with ht | hrn
          · rw [ht] at hf; cases hf
          · exact absurd hrn hd
      · exact absurd ho hne
  refine ⟨main, ?_⟩
  intro hnil hinv d c hc
  rw [main d (by simp [hnil])] at hc
  exact hinv d c hc

/-- **`pull_fail_preserves`, full strength, for the repaired code**: once every fresh layer is verified
    right after its download, a pull — whatever its outcome: success, any error, a crash — never
    leaves a blob that does not hash to its name.  No guard. -/
theorem pull_fail_preserves (cfg : Cfg) (hash : Bytes → Digest) (name : Name) (reg : Registry)
    (sc : Scripts) (st st' : Store) (o : Outcome) (log : Log) (hearly : cfg.verifyEarly = true)
    (hinv : BlobInv hash st) (h : pull cfg hash name reg sc st = (o, st', log)) :
    BlobInv hash st' := by
  rcases pull_cases h with ⟨_, hst, _⟩ | ⟨_, s, hdl, _, hst, _⟩ | ⟨net0, s, ov, st2, hdl, hv, _, hcase⟩
  · subst hst; exact hinv
  · subst hst; exact dlLoop_blobInv_early hearly _ hdl hinv
  · have hs : ∀ x c, s.st.blobs x = some c → hash c = x := dlLoop_blobInv_early hearly _ hdl hinv
    have hst2 : st2 = s.st := by
      unfold verifyPhase at hv
      rw [hearly] at hv
      simp only [if_true] at hv
      cases hv; rfl
    subst hst2
    rcases hcase with ⟨_, _, hst⟩ | ⟨_, _, _, hblobs⟩
    · subst hst; exact hs
    · intro x c hx
      rw [hblobs] at hx
      exact hs x c (prunedBlobs_sub _ _ _ _ _ x c hx)

/-- **No registry response crashes the repaired code**: with the `getValue` bounds check and the
    empty digest rejected, `pull` never ends in a panic — for every store, registry, manifest
    (malformed digests included) and fault script. -/
theorem pull_no_panic_fixed (cfg : Cfg) (hash : Bytes → Digest) (name : Name) (reg : Registry)
    (sc : Scripts) (st : Store) (p : PanicSite)
    (hfix : cfg.fixedChallenge = true) (hempty : cfg.fixedEmpty = true) :
    (pull cfg hash name reg sc st).1 ≠ .panic p := by
  generalize hp : pull cfg hash name reg sc st = r
  obtain ⟨o, st', log⟩ := r
  show o ≠ .panic p
  rcases pull_cases hp with ⟨_, _, _, hpan⟩ | ⟨_, s, hdl, _, _, _⟩ | ⟨net0, s, ov, st2, hdl, hv, _, hcase⟩
  · intro e
    obtain ⟨k, s, net, hm⟩ := hpan p e
    exact mrr_no_panic hfix _ _ _ p k s net hm
  · exact dlLoop_no_panic hfix hempty p _ hdl
  · rcases hcase with ⟨_, ho, _⟩ | ⟨_, ho, _⟩
    · rw [ho]; exact verifyPhase_no_panic p hv
    · rw [ho]; simp

/-! ## Concrete witnesses (toy hash = first byte) -/

def toyHash (b : Bytes) : Digest := b.take 1
def cfgW : Cfg := { nparts := 16, minSize := 100, maxSize := 1000, retries := 6 }
def st0 : Store := ⟨fun _ => none, fun _ => Partial.none, []⟩
def dA : Digest := [1]
def dB : Digest := [2]
def cA : Bytes := [1, 10]
def cB : Bytes := [2, 20]
def regAB : Registry := ⟨⟨[⟨.ok dA, 2, 0⟩, ⟨.ok dB, 2, 0⟩], ⟨.empty, 0, 0⟩⟩, [(dA, cA), (dB, cB)], [0]⟩

theorem st0_inv : BlobInv toyHash st0 ∧ NameInv toyHash st0 := by
  constructor
  · intro d c h; simp [st0] at h
  · intro n m h; simp [st0, lookupM] at h

/-- attempt 1: the CDN answers layer A's chunk with an error page (status is never checked),
    layer B's HEAD is 404 -/
def scF6 : Scripts :=
  ⟨[], [], [(dA, ⟨[], [], [[.body (.junk [9, 9]) none .eof]]⟩), (dB, ⟨[.notfound], [], []⟩)], none⟩

/-- **Witness of F6** (`pull_fail_preserves` is false): from the empty store, a failed attempt leaves
    layer A under its final name unverified; the following attempt against a completely honest
    registry reports success, installs the manifest, and layer A's bytes do not hash to its digest. -/
theorem F6_failed_pull_then_honest_retry_installs_corrupt_layer :
    let r1 := pull cfgW toyHash 0 regAB scF6 st0
    let r2 := pull cfgW toyHash 0 regAB Scripts.honest r1.2.1
    r1.1 = .err .notfound ∧ r1.2.2.renamed = [dA] ∧
    r2.1 = .ok () ∧ r2.2.1.blobs dA = some [9, 9] ∧ toyHash [9, 9] ≠ dA ∧
    lookupM 0 r2.2.1.manifests = some (.readable regAB.manifest) := by decide

/-- non-vacuity of `pull_success_complete` / `pull_success_sizes`: an honest two-layer pull from the
    empty store succeeds, its digests are distinct, its sizes are honest for the stored bytes -/
example : (pull cfgW toyHash 0 regAB Scripts.honest st0).1 = .ok () ∧
    (regAB.manifest.all.map (·.digest)).Nodup ∧
    (pull cfgW toyHash 0 regAB Scripts.honest st0).2.1.blobs dB = some cB := by decide

/-- non-vacuity of the failure theorems: `scF6` is a failing attempt that renames a blob, and a
    404 on the manifest is a failing attempt that renames nothing -/
example : (pull cfgW toyHash 0 regAB scF6 st0).1 ≠ .ok () ∧
    (pull cfgW toyHash 0 regAB ⟨[.notfound], [], [], none⟩ st0).1 = .err .manifest ∧
    (pull cfgW toyHash 0 regAB ⟨[.notfound], [], [], none⟩ st0).2.2.renamed = [] := by decide

/-! ## The repaired variants on the same witnesses -/

def cfgF : Cfg := { cfgW with fixedChallenge := true, fixedEmpty := true, fixedDup := true, verifyEarly := true }
def cfgD : Cfg := { cfgW with fixedDup := true }

/-- the F6 script against the repaired code: attempt 1 fails with a digest mismatch on layer A at once
    and leaves no blob; the honest retry installs the right bytes -/
theorem F6_repaired :
    let r1 := pull cfgF toyHash 0 regAB scF6 st0
    let r2 := pull cfgF toyHash 0 regAB Scripts.honest r1.2.1
    r1.1 = .err .digestMismatch ∧ r1.2.1.blobs dA = none ∧ r1.2.2.renamed = [] ∧
    r2.1 = .ok () ∧ r2.2.1.blobs dA = some cA ∧ r2.2.1.blobs dB = some cB := by decide

/-- the repeated digest against the repaired code (with only the `skipVerify` guard, and with all
    fixes): the corrupt download is caught; the empty digest is an error, not a panic -/
theorem dup_and_empty_repaired :
    let reg : Registry := ⟨⟨[⟨.ok dA, 2, 0⟩, ⟨.ok dA, 2, 0⟩], ⟨.empty, 0, 0⟩⟩, [(dA, cA)], [0]⟩
    let sc : Scripts := ⟨[], [], [(dA, ⟨[], [], [[.body (.flip 0) none .eof]]⟩)], none⟩
    let regE : Registry := ⟨⟨[⟨.empty, 0, 0⟩], ⟨.empty, 0, 0⟩⟩, [], [0]⟩
    (pull cfgD toyHash 0 reg sc st0).1 = .err .digestMismatch ∧
    (pull cfgD toyHash 0 reg sc st0).2.1.blobs dA = none ∧
    (pull cfgF toyHash 0 reg sc st0).1 = .err .digestMismatch ∧
    (pull cfgF toyHash 0 reg Scripts.honest st0).1 = .ok () ∧
    (pull cfgF toyHash 0 regE Scripts.honest st0).1 = .err .digestFormat := by decide

/-- non-vacuity of the repaired-variant theorems -/
example : cfgF.verifyEarly = true ∧ cfgF.fixedChallenge = true ∧ cfgF.fixedEmpty = true ∧
    (pull cfgF toyHash 0 regAB Scripts.honest st0).1 = .ok () ∧
    (pull cfgF toyHash 0 regAB scF6 st0).1 ≠ .ok () := by decide

/-! ## Resume: Glob order -/

/-- **Resuming does not depend on the order the part records are read in** (the code reads them in
    `filepath.Glob` order, `-partial-10` before `-partial-2`): for every list of records, the parts
    `Prepare` resumes from are exactly the stored records (as a multiset) and `b.Total` is the sum
    of their sizes. -/
theorem resume_plan_order_independent (ps : List Part) :
    ((globParts ps).map (·.2)).Perm ps ∧
    ((globParts ps).map (·.2.size)).sum = (ps.map (·.size)).sum :=
  ⟨globParts_perm ps, resume_total_order_independent ps⟩

/-- the order itself, for 12 records: lexicographic in the decimal suffix -/
theorem glob_order_12 :
    (globParts (List.replicate 12 ⟨0, 1, 0⟩)).map (·.1) = [0, 1, 10, 11, 2, 3, 4, 5, 6, 7, 8, 9] := by decide

/-! ## Retry -/

/-- the registry really has what its manifest names -/
def HonestReg (hash : Bytes → Digest) (reg : Registry) : Prop :=
  ∀ l ∈ reg.manifest.all, ∃ d c, l.digest = .ok d ∧ lookupC d reg.content = some c ∧ hash c = d

/-- no resume state for the layers that are still missing -/
def CleanFor (st : Store) (reg : Registry) : Prop :=
  ∀ l ∈ reg.manifest.all, ∀ d, l.digest = .ok d → st.blobs d = none → st.partials d = Partial.none

/-- **A retry can succeed**: against an honest registry (no faults at all), from every store whose
    blobs are intact and that holds no resume state for the missing layers, for every manifest (any
    number of layers, repeated digests allowed), every blob size and every plan constants with
    positive part sizes and at least one try, `pull` reports success.
    (From a store WITH resume state this is false: `stuck_plan_never_recovers`.) -/
theorem retry_can_succeed (cfg : Cfg) (hash : Bytes → Digest) (name : Name) (reg : Registry) (st : Store)
    (hret : 0 < cfg.retries) (hmin : 0 < cfg.minSize) (hmax : 0 < cfg.maxSize)
    (hreg : HonestReg hash reg) (hinv : BlobInv hash st) (hclean : CleanFor st reg) :
    (pull cfg hash name reg Scripts.honest st).1 = .ok () := by
  obtain ⟨s', hdl, hb'⟩ := dlLoop_honest cfg hash reg hret hmin hmax reg.manifest.all
    ⟨st, { tok := [], nm := 1 }, [], [], false⟩ hreg hinv hclean rfl
  have hpresent : ∀ l ∈ reg.manifest.all, ∀ d, l.digest = .ok d → ∃ c, s'.st.blobs d = some c := by
    intro l hl d hd
    obtain ⟨d', c, hd', hc⟩ := dlLoop_ok_present _ hdl l hl
    rw [hd] at hd'; cases hd'; exact ⟨c, hc⟩
  have hv : (if cfg.verifyEarly = true then ((R.ok () : Outcome), s'.st)
      else verifyLoop hash s'.skip reg.manifest.all s'.st) = (.ok (), s'.st) := by
    split
    · rfl
    · exact verifyLoop_honest hash s'.skip reg.manifest.all s'.st hb' hpresent
  have hdl' : dlLoop cfg hash reg ⟨[], [], [], none⟩ reg.manifest.all ⟨st, { tok := [], nm := 1 }, [], [], false⟩ = (.ok (), s') := hdl
  show (pull cfg hash name reg ⟨[], [], [], none⟩ st).1 = .ok ()
  simp only [pull, mrr_pass_dflt, hdl', hv]
  simp

/-- non-vacuity of `retry_can_succeed` -/
example : HonestReg toyHash regAB ∧ BlobInv toyHash st0 ∧ CleanFor st0 regAB := by
  refine ⟨?_, st0_inv.1, ?_⟩
  · intro l hl
    simp only [regAB, Manifest.all] at hl
    simp at hl
    rcases hl with rfl | rfl
    · exact ⟨dA, cA, rfl, by decide, by decide⟩
    · exact ⟨dB, cB, rfl, by decide, by decide⟩
  · intro l _ d _ _; rfl

/-- **Witness (stuck plan)**: one HEAD answer with a Content-Length larger than the blob (5 for a
    2-byte blob) is persisted as the part plan; after that, a pull against the honest registry
    fails with `max retries exceeded` and leaves exactly the same resume state — so does the next. -/
def regA : Registry := ⟨⟨[⟨.ok dA, 2, 0⟩], ⟨.empty, 0, 0⟩⟩, [(dA, cA)], [0]⟩
def scLie : Scripts := ⟨[], [], [(dA, ⟨[.pass 5], [], []⟩)], none⟩

theorem stuck_plan_never_recovers :
    let r1 := pull cfgW toyHash 0 regA scLie st0
    let r2 := pull cfgW toyHash 0 regA Scripts.honest r1.2.1
    let r3 := pull cfgW toyHash 0 regA Scripts.honest r2.2.1
    r1.1 = .err .maxRetries ∧ r1.2.1.partials dA = ⟨some [1, 10, 0, 0, 0], [⟨0, 5, 0⟩]⟩ ∧
    r2.1 = .err .maxRetries ∧ r2.2.1.partials dA = r1.2.1.partials dA ∧ r2.2.1.blobs dA = none ∧
    r3.1 = .err .maxRetries ∧ r3.2.1.partials dA = r1.2.1.partials dA ∧
    HonestReg toyHash regA ∧ BlobInv toyHash st0 := by
  refine ⟨by decide, by decide, by decide, by decide, by decide, by decide, by decide, ?_, st0_inv.1⟩
  intro l hl
  simp only [regA, Manifest.all] at hl
  simp at hl
  subst hl
  exact ⟨dA, cA, rfl, by decide, by decide⟩

/-- **Witness (repeated digest)**: `skipVerify` is keyed by digest and the second occurrence is a cache
    hit, so a freshly downloaded corrupt blob is never verified and the pull succeeds. -/
theorem dup_digest_skips_verification :
    let reg : Registry := ⟨⟨[⟨.ok dA, 2, 0⟩, ⟨.ok dA, 2, 0⟩], ⟨.empty, 0, 0⟩⟩, [(dA, cA)], [0]⟩
    let sc : Scripts := ⟨[], [], [(dA, ⟨[], [], [[.body (.flip 1) none .eof]]⟩)], none⟩
    let r := pull cfgW toyHash 0 reg sc st0
    r.1 = .ok () ∧ r.2.1.blobs dA = some [1, 245] ∧ [1, 245] ≠ cA := by decide

/-- **Witness (empty digest)**: a served layer with digest `""` panics in `downloadBlob`. -/
theorem empty_digest_panics :
    let reg : Registry := ⟨⟨[⟨.empty, 0, 0⟩], ⟨.empty, 0, 0⟩⟩, [], [0]⟩
    (pull cfgW toyHash 0 reg Scripts.honest st0).1 = .panic .emptyDigest := by decide

/-- **Witness (size never compared)**: the manifest declares 7 bytes, the blob has 2, the pull succeeds. -/
theorem size_lie_accepted :
    let reg : Registry := ⟨⟨[⟨.ok dA, 7, 0⟩], ⟨.empty, 0, 0⟩⟩, [(dA, cA)], [0]⟩
    let r := pull cfgW toyHash 0 reg Scripts.honest st0
    r.1 = .ok () ∧ r.2.1.blobs dA = some cA ∧ cA.length ≠ 7 := by decide

/-! ## Malformed redirects on the direct-URL request: what the model says happens -/

/-- one layer, the blob GET on the registry answered by …
    * 200/307 without `Location`            → error `noLocation`, nothing retried;
    * 301/302/303/308 (handed back)         → error `directStatus`;
    * a `Location` that does not parse      → the client fails, the loop retries, the pull succeeds;
    * a redirect loop (12 × same URL)       → given up after 11 requests, retried, the pull succeeds
                                              (12 requests to the loop + the honest one);
    * a redirect to a host that then fails  → every part fails, `maxRetries`, records stay, and the
                                              honest retry (new direct URL) succeeds.
    None of them is a panic (for every script at all: `pull_no_panic_fixed`). -/
theorem malformed_redirect_outcomes :
    let run := fun (d : List (Reply DirRep)) => pull cfgF toyHash 0 regA ⟨[], [], [(dA, ⟨[], d, []⟩)], none⟩ st0
    (run [.pass .noloc]).1 = .err .noLocation ∧
    (run [.pass .badstatus]).1 = .err .directStatus ∧
    (run [.pass .badloc]).1 = .ok () ∧ (run [.pass .badloc]).2.2.net.nd = 2 ∧
    (run (List.replicate 12 .follow)).1 = .ok () ∧ (run (List.replicate 12 .follow)).2.2.net.nd = 13 ∧
    (run [.pass .redirectDead]).1 = .err .maxRetries ∧ (run [.pass .redirectDead]).2.2.net.nc = 6 ∧
    (pull cfgF toyHash 0 regA Scripts.honest (run [.pass .redirectDead]).2.1).1 = .ok () := by decide

/-! ## Overlapping pulls that share a layer -/

/-- **A pull reports success only after IT verified every layer it did not find complete on disk when it
    began** — for the pull that JOINS a transfer another pull started (repaired variant): whatever that
    transfer delivered (`jr` is arbitrary: corrupt bytes, a failure), for every store with intact blobs, every
    manifest, every script: the joining pull never leaves a blob that does not hash to its name (any outcome),
    and if it reports success every layer of its manifest is stored and hashes to its digest and its name
    resolves to the served manifest. -/
theorem joining_pull_verifies (cfg : Cfg) (hash : Bytes → Digest) (name : Name) (reg : Registry)
    (sc : Scripts) (x : Digest) (jr : JoinRes) (st st' : Store) (o : Outcome) (log : Log)
    (hearly : cfg.verifyEarly = true) (hinv : BlobInv hash st)
    (h : pullJ cfg hash name reg sc x jr st = (o, st', log)) :
    BlobInv hash st' ∧
    (o = .ok () →
      (∀ l ∈ reg.manifest.all, ∃ d c, l.digest = .ok d ∧ st'.blobs d = some c ∧ hash c = d) ∧
      lookupM name st'.manifests = some (.readable reg.manifest)) := by
  unfold pullJ at h
  simp only [hearly, if_true] at h
  split at h
  · cases h; exact ⟨hinv, fun e => by cases e⟩
  · cases h; exact ⟨hinv, fun e => by cases e⟩
  · cases h; exact ⟨hinv, fun e => by cases e⟩
  · split at h
    · rename_i e s hdl
      cases h
      exact ⟨dlLoopJ_blobInv_early hearly x jr _ hdl hinv, fun e => by cases e⟩
    · rename_i p s hdl
      cases h
      exact ⟨dlLoopJ_blobInv_early hearly x jr _ hdl hinv, fun e => by cases e⟩
    · rename_i s hdl
      cases h
      have hs := dlLoopJ_blobInv_early hearly x jr _ hdl hinv
      refine ⟨hs, fun _ => ⟨?_, lookupM_insertM _ _ _⟩⟩
      intro l hl
      obtain ⟨d, c, hd, hc⟩ := (dlLoopJ_ok_present x jr _ hdl).2 l hl
      exact ⟨d, c, hd, hc, hs d c hc⟩

/-- non-vacuity of `joining_pull_verifies`: a joiner whose transfer delivered the right bytes succeeds (and installs
    its manifest), one whose transfer delivered other bytes fails with a digest mismatch and leaves no blob -/
example : (pullJ cfgF toyHash 1 regA Scripts.honest dA (.done cA) st0).1 = .ok () ∧
    lookupM 1 (pullJ cfgF toyHash 1 regA Scripts.honest dA (.done cA) st0).2.1.manifests = some (.readable regA.manifest) ∧
    (pullJ cfgF toyHash 1 regA Scripts.honest dA (.done [9, 9]) st0).1 = .err .digestMismatch ∧
    (pullJ cfgF toyHash 1 regA Scripts.honest dA (.done [9, 9]) st0).2.1.blobs dA = none := by decide

/-- the joined pull of the two-pull scenario: when B joins A's transfer while it is in flight (`during`),
    B's success means B's layers are stored and verified — also when the shared transfer was corrupt -/
theorem pull2_joiner_success_verified (cfg : Cfg) (hash : Bytes → Digest) (x : Digest)
    (nameA nameB : Name) (regA regB : Registry) (scA scB : Scripts) (st st' : Store) (oA : Outcome)
    (hearly : cfg.verifyEarly = true) (hinv : BlobInv hash st)
    (h : pull2 cfg hash .during x nameA regA scA nameB regB scB st = (oA, .ok (), st')) :
    BlobInv hash st' ∧
    ∀ l ∈ regB.manifest.all, ∃ d c, l.digest = .ok d ∧ st'.blobs d = some c ∧ hash c = d := by
  unfold pull2 at h
  simp only at h
  generalize hA : pull cfg hash nameA regA scA st = rA at h
  obtain ⟨oA', stA, logA⟩ := rA
  generalize hB : pullJ cfg hash nameB regB scB x _ stA = rB at h
  obtain ⟨oB, stB, logB⟩ := rB
  simp only [Prod.mk.injEq] at h
  obtain ⟨_, hoB, hst⟩ := h
  subst hst
  have hinvA : BlobInv hash stA := pull_fail_preserves cfg hash nameA regA scA st stA oA' logA hearly hinv hA
  obtain ⟨hb, hs⟩ := joining_pull_verifies cfg hash nameB regB scB x _ stA stB oB logB hearly hinvA hB
  exact ⟨hb, (hs hoB).1⟩

/-- **Witness (genuine, unseeded): a second pull that arrives while the first one is VERIFYING the shared
    layer** finds the renamed, still unverified file, treats it as a cache hit, installs its manifest and
    reports success; the first pull then detects the digest mismatch and removes the blob: B's name resolves to
    a manifest whose layer is missing.  (Repaired-variant model = current code; corrupt transfer: one flipped
    byte.) -/
theorem concurrent_pull_during_verification_installs_missing_layer :
    let regX : Registry := ⟨⟨[⟨.ok dA, 2, 0⟩], ⟨.empty, 0, 0⟩⟩, [(dA, cA)], [0]⟩
    let scA : Scripts := ⟨[], [], [(dA, ⟨[], [], [[.body (.flip 0) none .eof]]⟩)], none⟩
    let r := pull2 cfgF toyHash .atVerify dA 0 regX scA 1 regX Scripts.honest st0
    r.1 = .err .digestMismatch ∧ r.2.1 = .ok () ∧ r.2.2.blobs dA = none ∧
    lookupM 1 r.2.2.manifests = some (.readable regX.manifest) ∧
    -- … whereas joining DURING the transfer is safe: both fail, nothing is installed
    (pull2 cfgF toyHash .during dA 0 regX scA 1 regX Scripts.honest st0).2.1 = .err .digestMismatch ∧
    (pull2 cfgF toyHash .during dA 0 regX scA 1 regX Scripts.honest st0).2.2.manifests = [] := by decide

/-! ## Retry from resume state -/
/-- the resume state a store may hold for the layers that are still missing: none, or what an interrupted / failed
    single-part download leaves when the HEAD answer told the true length (`Resume1Ok`: data file of the blob's length
    that agrees with the blob on the bytes the record counts as complete) -/
def ResumeOk (st : Store) (reg : Registry) : Prop :=
  ∀ l ∈ reg.manifest.all, ∀ d, l.digest = .ok d → st.blobs d = none → ∀ c, lookupC d reg.content = some c →
    st.partials d = Partial.none ∨ Resume1Ok c (st.partials d)

theorem CleanFor.resumeOk {st : Store} {reg : Registry} (h : CleanFor st reg) : ResumeOk st reg :=
  fun l hl d hd hn _ _ => Or.inl (h l hl d hd hn)

/-- **A retry can succeed from the state an interrupted or failed attempt leaves** (single-part layers, i.e. every blob
    below `minDownloadPartSize` = 100 MB, HEAD answered with the true length): against an honest registry, from every
    store whose blobs are intact and whose resume state for each missing layer is either empty or a data file + one
    record that agree with the blob on the completed prefix, `pull` reports success — the remaining bytes are
    requested from `done` on and the file that is renamed is the blob.  (`retry_can_succeed` is the special case
    without resume state; the boundary is `stuck_plan_never_recovers`: a record whose size is not the blob's length.) -/
theorem retry_can_succeed_resume (cfg : Cfg) (hash : Bytes → Digest) (name : Name) (reg : Registry) (st : Store)
    (hret : 0 < cfg.retries) (hmin : 0 < cfg.minSize) (hmax : 0 < cfg.maxSize)
    (hreg : HonestReg hash reg) (hinv : BlobInv hash st) (hres : ResumeOk st reg) :
    (pull cfg hash name reg Scripts.honest st).1 = .ok () := by
  obtain ⟨s', hdl, hb'⟩ := dlLoop_honest_resume cfg hash reg hret hmin hmax reg.manifest.all
    ⟨st, { tok := [], nm := 1 }, [], [], false⟩ hreg hinv hres rfl
  have hpresent : ∀ l ∈ reg.manifest.all, ∀ d, l.digest = .ok d → ∃ c, s'.st.blobs d = some c := by
    intro l hl d hd
    obtain ⟨d', c, hd', hc⟩ := dlLoop_ok_present _ hdl l hl
    rw [hd] at hd'; cases hd'; exact ⟨c, hc⟩
  have hv : (if cfg.verifyEarly = true then ((R.ok () : Outcome), s'.st)
      else verifyLoop hash s'.skip reg.manifest.all s'.st) = (.ok (), s'.st) := by
    split
    · rfl
    · exact verifyLoop_honest hash s'.skip reg.manifest.all s'.st hb' hpresent
  have hdl' : dlLoop cfg hash reg ⟨[], [], [], none⟩ reg.manifest.all ⟨st, { tok := [], nm := 1 }, [], [], false⟩ = (.ok (), s') := hdl
  show (pull cfg hash name reg ⟨[], [], [], none⟩ st).1 = .ok ()
  simp only [pull, mrr_pass_dflt, hdl', hv]
  simp

/-- the caller goes away after the first byte of layer A -/
def scCan : Scripts := ⟨[], [], [(dA, ⟨[], [], [[.body .honest (some 1) .cancel]]⟩)], none⟩
/-- every chunk read of layer A is cut after one byte by a connection reset (bytes written, progress rolled back), six times -/
def scCut : Scripts := ⟨[], [], [(dA, ⟨[], [], [List.replicate 6 (.body .honest (some 1) .reset)]⟩)], none⟩

/-- **Witness / non-vacuity: an interrupted and a failed attempt leave exactly such a state, and the retry succeeds** -/
theorem interrupted_pull_resumes :
    let r1 := pull cfgF toyHash 0 regA scCan st0
    let r2 := pull cfgF toyHash 0 regA Scripts.honest r1.2.1
    let q1 := pull cfgF toyHash 0 regA scCut st0
    let q2 := pull cfgF toyHash 0 regA Scripts.honest q1.2.1
    r1.1 = .err .canceled ∧ r1.2.1.partials dA = ⟨some [1, 0], [⟨0, 2, 1⟩]⟩ ∧ Resume1Ok cA (r1.2.1.partials dA) ∧
    ¬ CleanFor r1.2.1 regA ∧
    r2.1 = .ok () ∧ r2.2.1.blobs dA = some cA ∧ r2.2.1.partials dA = Partial.none ∧
    q1.1 = .err .maxRetries ∧ Resume1Ok cA (q1.2.1.partials dA) ∧ q2.1 = .ok () ∧ q2.2.1.blobs dA = some cA := by
  have hp : (pull cfgF toyHash 0 regA scCan st0).2.1.partials dA = ⟨some [1, 0], [⟨0, 2, 1⟩]⟩ := by decide
  refine ⟨by decide, hp, ?_, ?_, by decide, by decide, by decide, by decide, ?_, by decide, by decide⟩
  · rw [hp]; exact ⟨[1, 0], 1, rfl, by decide, by decide, by decide⟩
  · intro h
    have := h ⟨.ok dA, 2, 0⟩ (by decide) dA rfl (by decide)
    rw [hp] at this
    cases this
  · have hq : (pull cfgF toyHash 0 regA scCut st0).2.1.partials dA = ⟨some [1, 0], [⟨0, 2, 0⟩]⟩ := by decide
    rw [hq]; exact ⟨[1, 0], 0, rfl, by decide, by decide, by decide⟩

/-! ## Sizes: what IS established -/

/-- **What a successful pull establishes about sizes** (current tree = `verifyEarly`; no assumption about the manifest's
    `size` fields): for every served layer the bytes on disk are bytes that hash to the layer's digest — so the stored
    LENGTH is the length of a preimage of the digest — and the layer has "exactly the manifest's size" if and only if
    the manifest declares that length.  If moreover the registry's blob `c0` is the only preimage of the digest that is
    around (`hone`: second-preimage resistance for this digest), the stored blob IS the registry's blob, byte for
    byte, and the size clause holds exactly when the manifest's `size` is `c0.length`.  Nothing in the code compares
    `size` with anything: `size_lie_accepted`. -/
theorem pull_success_stored_is_published (cfg : Cfg) (hash : Bytes → Digest) (name : Name) (reg : Registry)
    (sc : Scripts) (st st' : Store) (log : Log) (hearly : cfg.verifyEarly = true)
    (hinv : BlobInv hash st) (h : pull cfg hash name reg sc st = (.ok (), st', log)) :
    ∀ l ∈ reg.manifest.all, ∃ d c, l.digest = .ok d ∧ st'.blobs d = some c ∧ hash c = d ∧
      (∀ c0, (∀ x, hash x = d → x = c0) → c = c0 ∧ (c.length = l.size ↔ l.size = c0.length)) := by
  intro l hl
  obtain ⟨d, c, hd, hc, hh⟩ := (pull_success_complete_fixed cfg hash name reg sc st st' log hearly hinv h).1 l hl
  refine ⟨d, c, hd, hc, hh, ?_⟩
  intro c0 hone
  have e : c = c0 := hone c hh
  subst e
  exact ⟨rfl, ⟨fun x => x.symm, fun x => x.symm⟩⟩

/-- non-vacuity: for the toy hash (first byte) restricted to … no: `hone` cannot hold for the toy hash (many preimages);
    the first four conjuncts are exercised by the honest two-layer pull -/
example : (pull cfgF toyHash 0 regAB Scripts.honest st0).1 = .ok () ∧
    (pull cfgF toyHash 0 regAB Scripts.honest st0).2.1.blobs dA = some cA ∧ toyHash cA = dA ∧ cA.length = 2 := by decide

/-! ## What a failed attempt can leave that an honest retry does NOT recover from at once -/

/-- layer A's only chunk answers with an error page whose read ends in `ErrUnexpectedEOF` after one byte: the byte is
    written and the progress PERSISTED (status codes are never looked at), five more tries fail on the network -/
def scJunkPersisted : Scripts :=
  ⟨[], [], [(dA, ⟨[], [], [(.body (.junk [9, 9]) (some 1) .ueof) :: List.replicate 5 .neterr]⟩)], none⟩

/-- **Boundary witness for "a later retry can still succeed"** (why `ResumeOk` asks the data file to agree with the blob):
    a failed attempt can persist bytes that are not the blob's.  The first honest retry fetches only the rest, the
    assembled file fails verification and is removed together with the records; the SECOND honest retry succeeds.  (The
    other excluded state is a record whose size is not the blob's length: `stuck_plan_never_recovers`, never recovers.) -/
theorem corrupt_resume_needs_two_retries :
    let r1 := pull cfgF toyHash 0 regA scJunkPersisted st0
    let r2 := pull cfgF toyHash 0 regA Scripts.honest r1.2.1
    let r3 := pull cfgF toyHash 0 regA Scripts.honest r2.2.1
    r1.1 = .err .maxRetries ∧ r1.2.1.partials dA = ⟨some [9, 0], [⟨0, 2, 1⟩]⟩ ∧
    r2.1 = .err .digestMismatch ∧ r2.2.1.blobs dA = none ∧ r2.2.1.partials dA = Partial.none ∧
    r3.1 = .ok () ∧ r3.2.1.blobs dA = some cA := by decide

/-- the resume state a store may hold for the layers still missing: none, the single-part state `Resume1Ok`, or ANY
    number of part records that fit the blob (`ResumeFits`: truthful total, data agreeing with the blob on every byte
    counted as complete, records covering the blob; any order, as `filepath.Glob` returns them) -/
def ResumeOkN (st : Store) (reg : Registry) : Prop :=
  ∀ l ∈ reg.manifest.all, ∀ d, l.digest = .ok d → st.blobs d = none → ∀ c, lookupC d reg.content = some c →
    st.partials d = Partial.none ∨ Resume1Ok c (st.partials d) ∨ ResumeFits c (st.partials d)

theorem ResumeOk.toN {st : Store} {reg : Registry} (h : ResumeOk st reg) : ResumeOkN st reg :=
  fun l hl d hd hn c hc => (h l hl d hd hn c hc).elim Or.inl (fun r => Or.inr (Or.inl r))

/-- **A retry can succeed from multi-part resume state too**: honest registry, intact blobs, and for every missing layer
    either no resume state or one that fits the blob (any number of records, any order) ⇒ `pull` reports success: only
    the bytes no record counts as complete are requested, and the file that is renamed is the blob, byte for byte.
    Excluded — and really not recoverable at once: records whose sizes do not add up to the blob's length
    (`stuck_plan_never_recovers`, known finding C03-stuckplan: never) and a data file that differs from the blob on a
    byte counted as complete (`corrupt_resume_needs_two_retries`: the second retry). -/
theorem retry_can_succeed_resume_multi (cfg : Cfg) (hash : Bytes → Digest) (name : Name) (reg : Registry) (st : Store)
    (hret : 0 < cfg.retries) (hmin : 0 < cfg.minSize) (hmax : 0 < cfg.maxSize)
    (hreg : HonestReg hash reg) (hinv : BlobInv hash st) (hres : ResumeOkN st reg) :
    (pull cfg hash name reg Scripts.honest st).1 = .ok () := by
  obtain ⟨s', hdl, hb'⟩ := dlLoop_honest_resumeN cfg hash reg hret hmin hmax reg.manifest.all
    ⟨st, { tok := [], nm := 1 }, [], [], false⟩ hreg hinv hres rfl
  have hpresent : ∀ l ∈ reg.manifest.all, ∀ d, l.digest = .ok d → ∃ c, s'.st.blobs d = some c := by
    intro l hl d hd
    obtain ⟨d', c, hd', hc⟩ := dlLoop_ok_present _ hdl l hl
    rw [hd] at hd'; cases hd'; exact ⟨c, hc⟩
  have hv : (if cfg.verifyEarly = true then ((R.ok () : Outcome), s'.st)
      else verifyLoop hash s'.skip reg.manifest.all s'.st) = (.ok (), s'.st) := by
    split
    · rfl
    · exact verifyLoop_honest hash s'.skip reg.manifest.all s'.st hb' hpresent
  have hdl' : dlLoop cfg hash reg ⟨[], [], [], none⟩ reg.manifest.all ⟨st, { tok := [], nm := 1 }, [], [], false⟩ = (.ok (), s') := hdl
  show (pull cfg hash name reg ⟨[], [], [], none⟩ st).1 = .ok ()
  simp only [pull, mrr_pass_dflt, hdl', hv]
  simp

/-- a two-part plan for a four-byte blob -/
def cfgM : Cfg := { cfgF with nparts := 2, minSize := 1, maxSize := 1000 }
def cA4 : Bytes := [1, 10, 20, 30]
def regA4 : Registry := ⟨⟨[⟨.ok dA, 4, 0⟩], ⟨.empty, 0, 0⟩⟩, [(dA, cA4)], [0]⟩
/-- part 0 completes; part 1 gets one byte (`ErrUnexpectedEOF`: progress persisted), then the network fails five times -/
def scHalf : Scripts :=
  ⟨[], [], [(dA, ⟨[], [], [[], (.body .honest (some 1) .ueof) :: List.replicate 5 .neterr]⟩)], none⟩

/-- **Witness / non-vacuity (multi-part)**: a failed two-part download leaves two records (one complete, one half done)
    that fit the blob; the honest retry requests only the missing byte range and succeeds. -/
theorem multipart_failed_pull_resumes :
    let r1 := pull cfgM toyHash 0 regA4 scHalf st0
    let r2 := pull cfgM toyHash 0 regA4 Scripts.honest r1.2.1
    r1.1 = .err .maxRetries ∧ r1.2.1.partials dA = ⟨some [1, 10, 20, 0], [⟨0, 2, 2⟩, ⟨2, 2, 1⟩]⟩ ∧
    ResumeFits cA4 (r1.2.1.partials dA) ∧
    r2.1 = .ok () ∧ r2.2.1.blobs dA = some cA4 ∧ r2.2.1.partials dA = Partial.none ∧ r2.2.2.net.nc = 1 ∧ r2.2.2.net.nh = 0 := by
  have hp : (pull cfgM toyHash 0 regA4 scHalf st0).2.1.partials dA = ⟨some [1, 10, 20, 0], [⟨0, 2, 2⟩, ⟨2, 2, 1⟩]⟩ := by decide
  refine ⟨by decide, hp, ?_, by decide, by decide, by decide, by decide, by decide⟩
  rw [hp]
  refine ⟨[1, 10, 20, 0], rfl, by decide, by decide, by decide, ?_, ?_⟩
  · intro p hpm
    simp only [List.mem_cons, List.not_mem_nil, or_false] at hpm
    rcases hpm with rfl | rfl
    · refine ⟨by decide, by decide, ?_⟩
      intro i h1 h2
      have : i = 0 ∨ i = 1 := by simp only at h1 h2; omega
      rcases this with rfl | rfl <;> rfl
    · refine ⟨by decide, by decide, ?_⟩
      intro i h1 h2
      have : i = 2 := by simp only at h1 h2; omega
      subst this; rfl
  · intro i hi
    have hi' : i < 4 := hi
    by_cases h : i < 2
    · exact ⟨⟨0, 2, 2⟩, by simp, by simp, by simpa using h⟩
    · exact ⟨⟨2, 2, 1⟩, by simp, by simp; omega, by simp; omega⟩

/-! ## Histories: any number of pulls, of any names, against a registry that may re-publish in between -/

/-- **A successful pull keeps every OTHER name intact too** (current tree = `verifyEarly`): it installs the served
    manifest under the pulled name with all layers verified (clause 1) and its pruning removes no blob that a readable
    manifest of any name still refers to — so `NameInv` survives success as well as failure
    (`pull_fail_preserves_names`), which is the induction step for histories. -/
theorem pull_success_preserves_names (cfg : Cfg) (hash : Bytes → Digest) (name : Name) (reg : Registry)
    (sc : Scripts) (st st' : Store) (log : Log) (hearly : cfg.verifyEarly = true)
    (hb : BlobInv hash st) (hn : NameInv hash st) (h : pull cfg hash name reg sc st = (.ok (), st', log)) :
    NameInv hash st' := by
  intro n m hlook l hl
  have hman := pull_manifests h
  simp only [if_true] at hman
  by_cases e : n = name
  · subst e
    rw [hman, lookupM_insertM] at hlook
    cases hlook
    exact (pull_success_complete_fixed cfg hash n reg sc st st' log hearly hb h).1 l hl
  · rw [hman, lookupM_insertM_other _ _ _ _ e] at hlook
    obtain ⟨d, c, hd, hc, hh⟩ := hn n m hlook l hl
    exact ⟨d, c, hd, pull_ok_keeps_named h n m e hlook l hl d c hd hc, hh⟩

/-- **At no point of any history does a name resolve to a manifest with a missing or corrupt layer, and no blob
    ever fails to hash to its name** (current tree = `verifyEarly`): for every list of pull attempts — any names, any
    registries (the tag may be re-published between attempts), any fault scripts, any outcomes (success, error,
    crash), any length — starting from a store that satisfies both invariants, the store after EVERY attempt
    satisfies both. -/
theorem history_every_state_intact (cfg : Cfg) (hash : Bytes → Digest) (hearly : cfg.verifyEarly = true)
    (steps : List HStep) : ∀ st, BlobInv hash st → NameInv hash st →
      ∀ r ∈ runHistory cfg hash steps st, BlobInv hash r.2.1 ∧ NameInv hash r.2.1 := by
  induction steps with
  | nil => intro st _ _ r hr; simp [runHistory] at hr
  | cons s rest ih =>
    intro st hb hn r hr
    simp only [runHistory] at hr
    generalize hp : pull cfg hash s.name s.reg s.sc st = r0 at hr
    obtain ⟨o, st', log⟩ := r0
    have hb' : BlobInv hash st' := pull_fail_preserves cfg hash s.name s.reg s.sc st st' o log hearly hb hp
    have hn' : NameInv hash st' := by
      by_cases ho : o = .ok ()
      · subst ho
        exact pull_success_preserves_names cfg hash s.name s.reg s.sc st st' log hearly hb hn hp
      · exact pull_fail_preserves_names cfg hash s.name s.reg s.sc st st' o log (Or.inr hearly) ho hn hp
    rcases List.mem_cons.1 hr with e | hin
    · subst e; exact ⟨hb', hn'⟩
    · exact ih st' hb' hn' r hin

/-- … in particular the store a history ends in -/
theorem history_inv (cfg : Cfg) (hash : Bytes → Digest) (hearly : cfg.verifyEarly = true)
    (steps : List HStep) : ∀ st, BlobInv hash st → NameInv hash st →
      BlobInv hash (finalStore cfg hash steps st) ∧ NameInv hash (finalStore cfg hash steps st) := by
  induction steps with
  | nil => intro st hb hn; exact ⟨hb, hn⟩
  | cons s rest ih =>
    intro st hb hn
    simp only [finalStore]
    generalize hp : pull cfg hash s.name s.reg s.sc st = r0
    obtain ⟨o, st', log⟩ := r0
    have h1 := history_every_state_intact cfg hash hearly [s] st hb hn (o, st', log) (by simp [runHistory, hp])
    exact ih st' h1.1 h1.2

/-- **After any history a later retry can still succeed** (current tree = `verifyEarly`): whatever happened before —
    any number of failed, interrupted, successful pulls of any names against any registries under any fault scripts —
    if the registry is then honest and the store holds no resume state for the layers still missing, the pull
    succeeds, installs the served manifest with every layer verified, and leaves every other name intact.
    (With resume state: `stuck_plan_never_recovers` is the boundary; the general resume case is not proved.) -/
theorem history_then_honest_retry_succeeds (cfg : Cfg) (hash : Bytes → Digest) (hearly : cfg.verifyEarly = true)
    (hret : 0 < cfg.retries) (hmin : 0 < cfg.minSize) (hmax : 0 < cfg.maxSize)
    (steps : List HStep) (st : Store) (hb : BlobInv hash st) (hn : NameInv hash st)
    (name : Name) (reg : Registry) (hreg : HonestReg hash reg)
    (hclean : CleanFor (finalStore cfg hash steps st) reg) :
    let r := pull cfg hash name reg Scripts.honest (finalStore cfg hash steps st)
    r.1 = .ok () ∧ lookupM name r.2.1.manifests = some (.readable reg.manifest) ∧
    (∀ l ∈ reg.manifest.all, ∃ d c, l.digest = .ok d ∧ r.2.1.blobs d = some c ∧ hash c = d) ∧
    NameInv hash r.2.1 := by
  obtain ⟨hb', hn'⟩ := history_inv cfg hash hearly steps st hb hn
  have hok := retry_can_succeed cfg hash name reg (finalStore cfg hash steps st) hret hmin hmax hreg hb' hclean
  generalize hp : pull cfg hash name reg Scripts.honest (finalStore cfg hash steps st) = r at hok ⊢
  obtain ⟨o, st', log⟩ := r
  simp only at hok
  subst hok
  have h1 := pull_success_complete_fixed cfg hash name reg Scripts.honest _ st' log hearly hb' hp
  exact ⟨rfl, h1.2, h1.1, pull_success_preserves_names cfg hash name reg Scripts.honest _ st' log hearly hb' hn' hp⟩

/-- **After any history, from any fitting resume state** (current tree): whatever happened before, if the registry is
    then honest and what the history left for the missing layers fits their blobs, the pull succeeds, installs the
    served manifest with every layer verified and leaves every other name intact. -/
theorem history_then_retry_from_resume_succeeds (cfg : Cfg) (hash : Bytes → Digest) (hearly : cfg.verifyEarly = true)
    (hret : 0 < cfg.retries) (hmin : 0 < cfg.minSize) (hmax : 0 < cfg.maxSize)
    (steps : List HStep) (st : Store) (hb : BlobInv hash st) (hn : NameInv hash st)
    (name : Name) (reg : Registry) (hreg : HonestReg hash reg)
    (hres : ResumeOkN (finalStore cfg hash steps st) reg) :
    let r := pull cfg hash name reg Scripts.honest (finalStore cfg hash steps st)
    r.1 = .ok () ∧ lookupM name r.2.1.manifests = some (.readable reg.manifest) ∧
    (∀ l ∈ reg.manifest.all, ∃ d c, l.digest = .ok d ∧ r.2.1.blobs d = some c ∧ hash c = d) ∧
    NameInv hash r.2.1 := by
  obtain ⟨hb', hn'⟩ := history_inv cfg hash hearly steps st hb hn
  have hok := retry_can_succeed_resume_multi cfg hash name reg (finalStore cfg hash steps st) hret hmin hmax hreg hb' hres
  generalize hp : pull cfg hash name reg Scripts.honest (finalStore cfg hash steps st) = r at hok ⊢
  obtain ⟨o, st', log⟩ := r
  simp only at hok
  subst hok
  have h1 := pull_success_complete_fixed cfg hash name reg Scripts.honest _ st' log hearly hb' hp
  exact ⟨rfl, h1.2, h1.1, pull_success_preserves_names cfg hash name reg Scripts.honest _ st' log hearly hb' hn' hp⟩

/-- what a name resolves to after a history, read off the steps and their outcomes alone: the manifest served in the
    LAST SUCCESSFUL pull of that name (what it resolved to before the history if there was none) -/
def resolved (n : Name) : List (HStep × Outcome) → Option MFile → Option MFile
  | [], cur => cur
  | (s, o) :: rest, cur =>
    resolved n rest (if o = .ok () ∧ s.name = n then some (.readable s.reg.manifest) else cur)

/-- **After any history every name resolves to exactly the manifest the registry served in the last successful pull
    of that name** (all variants, every store, every script): a failed or interrupted attempt never changes what a
    name resolves to, a successful one installs what was served in THAT attempt — also when an earlier version with
    the same layers, another config, other media types or sizes is already installed (re-published tag). -/
theorem history_resolves (cfg : Cfg) (hash : Bytes → Digest) (n : Name) (steps : List HStep) : ∀ st,
    lookupM n (finalStore cfg hash steps st).manifests =
      resolved n (steps.zip ((runHistory cfg hash steps st).map (·.1))) (lookupM n st.manifests) := by
  induction steps with
  | nil => intro st; rfl
  | cons s rest ih =>
    intro st
    simp only [finalStore, runHistory, List.map_cons, List.zip_cons_cons, resolved]
    rw [ih]
    congr 1
    generalize hp : pull cfg hash s.name s.reg s.sc st = r0
    obtain ⟨o, st', log⟩ := r0
    have hman := pull_manifests hp
    show lookupM n st'.manifests = _
    rw [hman]
    by_cases ho : o = .ok ()
    · by_cases hn : s.name = n
      · subst hn; simp [ho, lookupM_insertM]
      · simp [ho, hn, lookupM_insertM_other _ _ _ _ (Ne.symm hn)]
    · simp [ho]

/-- the re-published tag, concretely (toy hash): v1 = layers A, B; v2 = the same layers with a new config; v3 = the same
    digests, layer A under another media type and B's size corrected.  Pull v1, then v2 under a failing manifest
    request (nothing changes), then v2, then v3: the name resolves to v1, v1, v2, v3 in turn; every attempt but the
    second succeeds; a name sharing layer A stays intact throughout. -/
def cC : Bytes := [3, 30]
def dC : Digest := [3]
def regV1 : Registry := ⟨⟨[⟨.ok dA, 2, 0⟩, ⟨.ok dB, 5, 0⟩], ⟨.empty, 0, 0⟩⟩, [(dA, cA), (dB, cB), (dC, cC)], [0]⟩
def regV2 : Registry := { regV1 with manifest := ⟨[⟨.ok dA, 2, 0⟩, ⟨.ok dB, 5, 0⟩], ⟨.ok dC, 2, 0⟩⟩ }
def regV3 : Registry := { regV1 with manifest := ⟨[⟨.ok dA, 2, 4⟩, ⟨.ok dB, 2, 0⟩], ⟨.ok dC, 2, 0⟩⟩ }
def regShare : Registry := { regV1 with manifest := ⟨[⟨.ok dA, 2, 0⟩], ⟨.empty, 0, 0⟩⟩ }
def republishSteps : List HStep :=
  [⟨1, regShare, Scripts.honest⟩, ⟨0, regV1, Scripts.honest⟩, ⟨0, regV2, ⟨[.status], [], [], none⟩⟩,
   ⟨0, regV2, Scripts.honest⟩, ⟨0, regV3, Scripts.honest⟩]

theorem republished_tag_installs_each_version :
    (runHistory cfgF toyHash republishSteps st0).map (·.1) = [.ok (), .ok (), .err .manifest, .ok (), .ok ()] ∧
    (runHistory cfgF toyHash republishSteps st0).map (fun r => lookupM 0 r.2.1.manifests) =
      [none, some (.readable regV1.manifest), some (.readable regV1.manifest),
       some (.readable regV2.manifest), some (.readable regV3.manifest)] ∧
    regV2.manifest.layers = regV1.manifest.layers ∧ regV2.manifest ≠ regV1.manifest ∧
    regV3.manifest.layers.map (·.digest) = regV2.manifest.layers.map (·.digest) ∧
    lookupM 1 (finalStore cfgF toyHash republishSteps st0).manifests = some (.readable regShare.manifest) ∧
    (finalStore cfgF toyHash republishSteps st0).blobs dA = some cA := by decide

/-- non-vacuity of the history theorems: `st0` satisfies both invariants, `cfgF` is the repaired variant, and the
    history above mixes names, versions, a failure and successes -/
example : cfgF.verifyEarly = true ∧ republishSteps.length = 5 ∧
    resolved 0 (republishSteps.zip ((runHistory cfgF toyHash republishSteps st0).map (·.1))) none =
      some (.readable regV3.manifest) := by decide

/-- non-vacuity of `history_then_honest_retry_succeeds`: with no steps its hypotheses are those of `retry_can_succeed`
    (satisfied by `regAB`, `st0`: see the example there); and after the five-step re-publication history the honest
    registry `regAB` is pulled successfully -/
example : (pull cfgF toyHash 0 regAB Scripts.honest (finalStore cfgF toyHash republishSteps st0)).1 = .ok () ∧
    CleanFor (finalStore cfgF toyHash [] st0) regAB := ⟨by decide, fun _ _ _ _ _ => rfl⟩

end OllamaVerif.C03
