/-
  C07 — the cut of the slot's record when a stop string truncates the generated text
  (processBatch, stop branch: `tokenLen` next to `common.TruncateStop`).
-/
import OllamaVerif.Model.Runner

namespace OllamaVerif.C07
open OllamaVerif OllamaVerif.Runner
set_option linter.unusedSimpArgs false
set_option linter.unusedVariables false

/-- number of leading pieces that the split-back loop of TruncateStop returns in full, given the piece
    lengths and the length of the text before the stop -/
def keptFull : List Nat → Nat → Nat
  | [], _ => 0
  | len :: ls, r => if r = 0 then 0 else if len > r then 0 else 1 + keptFull ls (r - len)

theorem keptFull_le : ∀ (ls : List Nat) (r : Nat), keptFull ls r ≤ ls.length := by
  intro ls
  induction ls with
  | nil => intro r; simp [keptFull]
  | cons l ls ih =>
    intro r
    unfold keptFull
    split
    · omega
    · split
      · omega
      · have := ih (r - l); simp only [List.length_cons]; omega

/-- all pieces are returned in full only if the text before the stop is at least as long as all of them -/
theorem keptFull_all : ∀ (ls : List Nat) (r : Nat), ls ≠ [] → keptFull ls r = ls.length → ls.sum ≤ r := by
  intro ls
  induction ls with
  | nil => intro r h; exact absurd rfl h
  | cons l ls ih =>
    intro r _ h
    unfold keptFull at h
    simp only [List.length_cons] at h
    split at h
    · omega
    · split at h
      · omega
      · next h1 h2 =>
        simp only [List.sum_cons]
        by_cases hls : ls = []
        · subst hls; simp; omega
        · have := ih (r - l) hls (by omega)
          omega

theorem prefix_take {α} (a L : List α) (h : a <+: L) : a = L.take a.length := by
  obtain ⟨t, rfl⟩ := h
  simp

/-- **The split-back loop of TruncateStop**: the pieces it returns spell exactly the text before the stop;
    the first `keptFull` of them are the original pieces, unchanged; there is one more (a cut piece) iff it
    reports `tokenTruncated`. -/
theorem splitBack_spec : ∀ (pieces : List Str) (rem : Str), rem <+: pieces.flatten →
    (splitBack (pieces.map List.length) rem).1.flatten = rem ∧
    (splitBack (pieces.map List.length) rem).1.length =
      keptFull (pieces.map List.length) rem.length + (if (splitBack (pieces.map List.length) rem).2 then 1 else 0) ∧
    (splitBack (pieces.map List.length) rem).1.take (keptFull (pieces.map List.length) rem.length) =
      pieces.take (keptFull (pieces.map List.length) rem.length) := by
  intro pieces
  induction pieces with
  | nil =>
    intro rem h
    have : rem = [] := by simpa using h
    subst this
    simp [splitBack, keptFull]
  | cons p ps ih =>
    intro rem h
    simp only [List.map_cons]
    unfold splitBack keptFull
    by_cases he : rem.isEmpty
    · have : rem = [] := by simpa using he
      subst this
      simp
    · have hne : rem.length ≠ 0 := by
        intro h0; apply he; simpa using h0
      simp only [he, Bool.false_eq_true, if_false, hne]
      by_cases hgt : p.length > rem.length
      · simp [hgt]
      · simp only [hgt, if_false]
        have hL := prefix_take rem _ h
        simp only [List.flatten_cons] at hL
        have htake : rem.take p.length = p := by
          rw [hL, List.take_take, Nat.min_eq_left (by omega), List.take_left']
          rfl
        have hdrop : rem.drop p.length <+: ps.flatten := by
          rw [hL, List.drop_take, List.drop_left' rfl]
          exact List.take_prefix _ _
        obtain ⟨h1, h2, h3⟩ := ih (rem.drop p.length) hdrop
        simp only [List.length_drop] at h2 h3
        refine ⟨?_, ?_, ?_⟩
        · simp only [List.flatten_cons, h1, List.take_append_drop]
        · simp only [List.length_cons, h2]; omega
        · rw [Nat.add_comm 1, List.take_succ_cons, List.take_succ_cons, h3, htake]

/-- length of the text before the first occurrence of `stop` -/
theorem indexOf_bound (sub : Str) : ∀ (s : Str) (i : Nat), indexOf sub s = some i → i + sub.length ≤ s.length := by
  intro s
  induction s with
  | nil =>
    intro i h
    unfold indexOf at h
    split at h
    · next hs => simp only [Option.some.injEq] at h; subst h; have : sub = [] := by simpa using hs
                 simp [this]
    · cases h
  | cons c t ih =>
    intro i h
    unfold indexOf at h
    split at h
    · next hp =>
      simp only [Option.some.injEq] at h; subst h
      have := List.IsPrefix.length_le (List.isPrefixOf_iff_prefix.mp hp)
      simpa using this
    · split at h
      · next j hj =>
        simp only [Option.some.injEq] at h; subst h
        have := ih j hj
        simp only [List.length_cons]; omega
      · cases h

/-- **What TruncateStop returns**, for a stop string that occurs: the text before the stop, split at the
    original piece boundaries; `kept` leading pieces are returned in full, and `kept` is smaller than the number
    of pieces whenever the stop string is not empty. -/
theorem truncateStop_spec (pieces : List Str) (stop : Str) (idx : Nat)
    (hidx : indexOf stop pieces.flatten = some idx) :
    let tr := truncateStop pieces stop
    let kept := keptFull (pieces.map List.length) idx
    tr.1.flatten = pieces.flatten.take idx ∧
    tr.1.length = kept + (if tr.2 then 1 else 0) ∧
    tr.1.take kept = pieces.take kept ∧
    (stop ≠ [] → kept < pieces.length) := by
  have hb := indexOf_bound stop _ idx hidx
  have hlen : (pieces.flatten.take idx).length = idx := by simp only [List.length_take]; omega
  obtain ⟨h1, h2, h3⟩ := splitBack_spec pieces (pieces.flatten.take idx) (List.take_prefix _ _)
  rw [hlen] at h2 h3
  simp only [truncateStop, hidx]
  refine ⟨h1, h2, h3, ?_⟩
  intro hs
  have hsl : 0 < stop.length := List.length_pos_iff.mpr hs
  have hle := keptFull_le (pieces.map List.length) idx
  simp only [List.length_map] at hle
  rcases Nat.lt_or_ge (keptFull (pieces.map List.length) idx) pieces.length with h | h
  · exact h
  · exfalso
    have heq : keptFull (pieces.map List.length) idx = (pieces.map List.length).length := by
      simp only [List.length_map]; omega
    have hne : pieces.map List.length ≠ [] := by
      intro hnil
      have : pieces = [] := by simpa using hnil
      subst this
      have : idx + stop.length ≤ 0 := by simpa using hb
      omega
    have := keptFull_all _ idx hne heq
    have hsum : (pieces.map List.length).sum = pieces.flatten.length := by
      simp [List.length_flatten]
    omega

/-- **The "defense-in-depth" decrement of `tokenLen` is dead code**: when the stop string (not empty) occurs,
    TruncateStop either removes at least one piece or reports a cut piece. -/
theorem stop_removes_or_truncates (pieces : List Str) (stop : Str) (idx : Nat) (hs : stop ≠ [])
    (hidx : indexOf stop pieces.flatten = some idx) :
    (truncateStop pieces stop).2 = true ∨ (truncateStop pieces stop).1.length < pieces.length := by
  obtain ⟨_, h2, _, h4⟩ := truncateStop_spec pieces stop idx hidx
  have := h4 hs
  cases ht : (truncateStop pieces stop).2 with
  | true => exact Or.inl rfl
  | false => right; simp only [ht, Bool.false_eq_true, if_false] at h2; omega

/-- **The record after a stop holds exactly the inputs whose text is returned.**  Let the slot's record be
    `base ++ toks`, where `toks` are the tokens of the held-back pieces except the newest one (which was sampled
    but not yet submitted to Decode, so `pieces.length = toks.length + 1`).  When a non-empty stop string occurs
    in the held-back text, the cut `Inputs[:tokenLen]` of processBatch leaves `base ++ toks.take kept`: the
    inputs before the held-back pieces and the tokens of the `kept` pieces that TruncateStop returns in full —
    the tokens of removed pieces and of a piece cut in the middle are dropped from the record. -/
theorem stop_cut_record (base toks : List Tok) (pieces : List Str) (stop : Str) (idx : Nat) (hs : stop ≠ [])
    (hp : pieces.length = toks.length + 1) (hidx : indexOf stop pieces.flatten = some idx) :
    let tr := truncateStop pieces stop
    let kept := keptFull (pieces.map List.length) idx
    (base ++ toks).take (stopTokenLen (base ++ toks).length pieces.length tr.1.length tr.2).toNat =
      base ++ toks.take kept ∧ kept ≤ toks.length ∧ tr.1.take kept = pieces.take kept ∧
      tr.1.flatten = pieces.flatten.take idx := by
  obtain ⟨h1, h2, h3, h4⟩ := truncateStop_spec pieces stop idx hidx
  have hk := h4 hs
  simp only
  refine ⟨?_, by omega, h3, h1⟩
  have hdead := stop_removes_or_truncates pieces stop idx hs hidx
  have hval : (stopTokenLen (base ++ toks).length pieces.length (truncateStop pieces stop).1.length (truncateStop pieces stop).2).toNat =
      base.length + keptFull (pieces.map List.length) idx := by
    unfold stopTokenLen
    simp only [List.length_append]
    cases ht : (truncateStop pieces stop).2 with
    | true =>
      simp only [ht, if_true, Bool.true_or] at h2 ⊢
      omega
    | false =>
      simp only [ht, Bool.false_eq_true, if_false, Nat.add_zero, Bool.false_or] at h2 ⊢
      rcases hdead with hd | hd
      · rw [ht] at hd; cases hd
      · have hne : ¬ pieces.length = (truncateStop pieces stop).1.length := by omega
        simp only [hne, decide_false, Bool.false_eq_true, if_false]
        omega
  rw [hval, List.take_append]
  simp
  exact List.take_of_length_le (by omega)

/-- non-vacuity: pieces `a`, `bc`, `d`, stop `cd`: the text returned is `ab` (first piece in full, second cut),
    the record `9 8 | 0 1` (two prompt inputs, tokens of `a` and `bc`) is cut to `9 8 0` -/
example : truncateStop [['a'], ['b', 'c'], ['d']] ['c', 'd'] = ([['a'], ['b']], true) ∧
    keptFull [1, 2, 1] 2 = 1 ∧
    ([9, 8] ++ [0, 1]).take (stopTokenLen 4 3 2 true).toNat = [9, 8] ++ [0] := by decide

end OllamaVerif.C07
